"""Per-property configuration of the driver: which worker binary, how many shards, what the
evidence says about the enumeration."""

MAX_REPORT = 12

import os, glob, importlib.util

BINARIES = {}
PROPS = {}
POST = {}


def default_binary(name):
    return {'pkg': './cmd/' + name, 'overlay': 'plain', 'flags': ['-gcflags=all=-l']}


def _load():
    d = os.path.join(os.path.dirname(os.path.abspath(__file__)), 'props')
    for f in sorted(glob.glob(os.path.join(d, 'C*.py'))):
        pid = os.path.basename(f)[:-3]
        sp = importlib.util.spec_from_file_location('props_' + pid, f)
        mod = importlib.util.module_from_spec(sp)
        sp.loader.exec_module(mod)
        PROPS[pid] = mod.SPEC
        for k, v in getattr(mod, 'BINARIES', {}).items():
            BINARIES[k] = v
        for job in mod.SPEC['jobs']:
            BINARIES.setdefault(job['bin'], default_binary(job['bin']))
        if hasattr(mod, 'post'):
            POST[pid] = mod.post

ENGINES = [
    {'name': 'H', 'path': 'harness/vk + harness/cNN', 'serves_properties': [], 'kind_free_text': 'history explorer: exhaustive enumeration of operation sequences up to a depth, replayed from scratch on the real library against a reference model'},
    {'name': 'S', 'path': 'harness/sched', 'serves_properties': [], 'kind_free_text': 'controlled scheduler: stateless DFS over thread interleavings at hooked sync/atomic/syscall operations with iterated preemption bound'},
    {'name': 'E', 'path': 'harness/cNN', 'serves_properties': [], 'kind_free_text': 'bounded-exhaustive input enumeration against an independent reference implementation'},
]

NOT_YET = {}


_load()
