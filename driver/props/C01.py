SPEC = {
    'level': 'model_checking',
    'engine': 'E+H',
    'technique': 'bounded-exhaustive enumeration of a generated signature corpus x argument/result vectors x replacement kinds x call forms x environment events; '
                 'every case is a fixed history (call; apply; event; call; call; reset; call) executed on the real library and compared with the reference '
                 '"the replacement sees the caller\'s values, the caller sees the replacement\'s results"',
    'claim': 'for every function of the generated corpus (all parameter lists and all result lists of length <= 2 over a 14-type alphabet crossing every '
             'register/stack boundary of the Go ABI, int^0..12, float64^0..17, 26 mixed threshold shapes up to 22 parameters, 5 variadic shapes, result lists '
             'up to 10 ints / 16 floats), every argument vector of a 3-value-per-type domain (all vectors for arity <= 2; above: all-pattern, all-zero and one '
             'boundary per position, thorough also all-boundary and one zero per position), replacement installed by Apply(top-level func), Apply(closure) or Return(values), called directly from another '
             'package, through a func value, deferred, on a new goroutine, through reflect and from generic library code, with no event / GC / stack move / '
             'both / builder dropped + GC between apply and the calls and again inside the replacement: the replacement runs instead of the original with '
             'bit-identical arguments, the caller receives exactly its results, and after Reset the original runs again with its original results',
    'note': 'bounded corpus of 537 functions (not all Go signatures); quick = 470 of them (arity <= 2, thresholds, variadics), thorough adds the 42 result lists of length 3, the remaining int^n / float64^n and more vectors; generic functions are not in C01\'s statement; '
            'Return() without values on result-less functions is executed but not judged',
    'jobs': [{'bin': 'c01', 'shards': 16}],
    'rule': 'engine E+H. Case = (corpus function, argument-kind vector, result-kind vector, replacement kind in {apply-func, apply-closure, return}, '
            'call form in {direct, funcvalue, defer, go, reflect, lib}, event in {none, GC, MoveStack, GC+MoveStack, Drop+GC}); all combinations are executed. '
            'GC = runtime.GC() twice + heap churn under GODEBUG=clobberfree=1; MoveStack = recursion until the address of a local changes; Drop = the builder '
            'is made unreachable first. states = distinct cases executed; transitions = library operations (apply, reset) + calls of the target; '
            'distinct_nontrivial = distinct cases in which the replacement demonstrably took effect (it was entered / its values came back and the original '
            'counter stood still).',
    'assumptions': ['arguments handed to a mocked function point to heap or global memory only (a replacement may retain what the original provably did not; '
                    'that is a limit of monkey patching, not judged here)',
                    'typed nil values are used for nil func/pointer/slice results in Return(...); untyped nil for such results belongs to C09'],
}
