SPEC = {
    'level': 'model_checking',
    'engine': 'E',
    'technique': 'bounded-exhaustive enumeration of (pattern, argument) pairs and In-subsets over boundary domains of 23 parameter '
                 'kinds, evaluated through the public arg API exactly as goom\'s matchers do (Equals/In/Any -> Resolve -> Eval on the '
                 'reflect.Value a reflect.MakeFunc callback receives), against Go equality as the reference',
    'claim': 'for every kind and every ordered pair (x,y) of its domain Equals(x) accepts y exactly when the reference equality holds '
             '(Go == for integers, floats, strings, bools; reflect.DeepEqual for structs, arrays, slices, maps; pointee for pointers; '
             'identity for funcs; nil == nil), symmetrically, with the same answer when evaluated twice and when asked of a long-lived '
             'expression that has already been evaluated on the whole domain; the untyped nil pattern accepts exactly the nils; Any '
             'accepts everything; In(S) accepts exactly the union of Equals(s) for every subset S with |S| <= 3 (4 thorough); no call '
             'panics or returns an error',
    'note': 'domains are 2-17 boundary values per kind, not all values; single-parameter, non-variadic use of the expressions only '
            '(multi-parameter and variadic matching belong to C04); In is compared with the library\'s own Equals answers',
    'jobs': [{'bin': 'c18', 'shards': 4}],
    'rule': 'engine E. kinds: int8 int16 int32 int64 int uint8 uint16 uint32 uint64 uint uintptr float32 float64 string bool '
            'struct{A int; b string} [2]int struct{*int} struct{interface{}} [2]*int [1]interface{} []int map[string]int *int *struct interface{} error func(int) int; domains: min, -1, 0, 1, max-1, '
            'max (+ 2^53, 2^53+1, 2^63 where they fit); +-Inf, +-max, smallest subnormal, 0.1+0.2, 0.3, 0.1, 1; "", "0", "1", "1.0", "0x1", '
            '" 1", "true", "false", case and unicode-normalisation variants; nil / empty / equal-but-distinct composites and pointers; '
            'interface{} / error holding nil, ints of several widths, floats, strings, bools, structs, pointers (equal-but-distinct pointees) and typed nil pointers; nil, F1, F2. cases: equals = all ordered '
            'pairs; equals-nil = untyped nil pattern x every value of a nilable kind; any = every value; mutate = (pointer, slice, map kinds) every triple (x,a,b): one container holding a, evaluated by Equals(x)/In(x)/ToExpr(x), rewritten in place to b and evaluated again by the same expression; in = every subset of size 0..3 '
            '(0..4 thorough) x every value. evaluations = states = cases (distinct by construction); transitions = Resolve/Eval/ToExpr '
            'calls on the real library (each case: fresh expressions evaluated twice, the reverse direction, and a long-lived expression); '
            'distinct_nontrivial = cases in which the expression accepted the argument; unjudged = pairs of different dynamic type '
            'inside an interface{} parameter, and In cases that contain a member whose own Equals fails.',
    'assumptions': ['NaN and -0 are excluded from the float domains: the statement speaks of ordinary floating-point values (NaN != NaN and '
                    '0 == -0 in Go, the library compares the printed forms)',
                    'comparisons between values of different dynamic type inside an interface{} parameter (e.g. Equals("1") on int64(1)) '
                    'are executed but not judged: the statement only decides same-typed arguments',
                    'func identity is judged on two distinct top-level functions and nil only (closures of one literal share a code pointer)',
                    'an untyped nil is taken to be a well-typed pattern for pointer, slice, map, interface and func parameters'],
}
