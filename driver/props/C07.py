SPEC = {
    'level': 'model_checking',
    'engine': 'H',
    'technique': 'explicit-state exploration of all operation histories (mock / GC / drop builder / reset) up to a depth bound on the real library against a per-variable dispatch model, with deterministic use-after-free detection (GODEBUG=clobberfree=1) and crash capture',
    'claim': 'after every history of length <= 3 (quick: 2 variables of one 3-method interface type, Apply and As.Return) / <= 4 (thorough: plus a variable of a 5-method embedding interface and As.When) of mock / GC / DropBuilder(+GC) / Reset / the program assigning another implementation or nil to a variable (at most once), on variables that include two of function-local interface types of one name, starting from nil and from a real implementation, every mocked variable is non-nil, every mocked method reaches its own replacement with the caller\'s argument, every unmocked method of a mocked variable panics with "method not implements", untouched variables keep their value and Reset puts back the exact two words the variable held before',
    'note': 'a variable that is re-mocked by a new builder while it still holds a dropped builder\'s mock is executed but not judged; GC is forced (runtime.GC x3 with heap churn) rather than awaited',
    'jobs': [{'bin': 'c07', 'shards': 16, 'max_restarts': 40, 'single_timeout': 60, 'maxcases': 4000, 'budget': {'thorough': 2400}}],
    'rule': 'all sequences over the alphabet (quick 19 / thorough 36 operations) x {initial nil, initial real implementation}; after the last step every method of every variable is called with 7 and 8; distinct_nontrivial = histories of length >= 2 containing a mock; a worker death is attributed to the recorded history and confirmed by 3 isolated replays.',
    'assumptions': ['each worker process executes at most 4000 histories and is then restarted (goom never unmaps stub pages; vm.max_map_count)'],
}
