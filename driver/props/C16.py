BINARIES = {
    # no mocking here: the decoders are built with inlining (the driver default is -gcflags=all=-l)
    'c16': {'pkg': './cmd/c16', 'overlay': 'plain', 'flags': []},
}

SPEC = {
    'level': 'model_checking',
    'engine': 'E',
    'technique': 'bounded-exhaustive enumeration: (a) every instruction of the text of real Go binaries, compared with an independent reference '
                 'decoder (the Go toolchain\'s x86asm copy, harness/ref/x86asm); (b) fully enumerated byte-string spaces (heads x tails, substitutions, prefixes, runs of 1..15 legacy prefixes) judged against the '
                 'invariants of the statement; (c) the extent of every corpus function as goom\'s scan measures it against a reference walk',
    'claim': 'on every instruction of the text of the harness binary and of go (thorough: + gofmt, compile, link, asm, cover, vet), walked function by '
             'function with the reference decoder\'s boundaries, goom\'s x86asm.Decode reports the same Len, opcode mnemonic, PCRel and PCRelOff as the '
             'reference; on every enumerated input (all 1-/2-byte heads, thorough: 3-byte heads, x 4 tails; every single-byte substitution inside every '
             'distinct corpus encoding; thorough: every distinct corpus encoding behind 1 or 2 prefix bytes; each at every length 16..0) Decode does not '
             'panic, a success has 1 <= Len <= min(15,len), PCRel in {0,1,2,4,8}, and PCRel>0 implies 0 < PCRelOff and PCRelOff+PCRel <= Len',
    'note': 'quick is declared exhaustive:false (two corpus binaries; substitutions on a VERIF_SEED-selected 1/16 of the distinct encodings); thorough enumerates '
            'all three spaces completely for the 8-binary corpus. 64-bit mode only (the only mode goom uses). Inputs are at most 16 bytes; agreement is '
            'claimed on the corpus only, not on arbitrary byte strings (the statement asks exactly that)',
    'jobs': [{'bin': 'c16', 'shards': 16, 'budget': {'quick': 900, 'thorough': 7200},
              'env': {'GODEBUG': 'clobberfree=0'}},
             # the function-extent scan built on the decoder (bytecode.GetFuncSize) against a one-instruction-at-a-time walk with the reference decoder
             {'bin': 'c03', 'shards': 16, 'sub': 'extent', 'env': {'GODEBUG': 'clobberfree=0'}}],
    'rule': 'engine E. corpus = .text of /proc/self/exe and $GOROOT/bin/go (thorough: + gofmt and $GOTOOLDIR/{compile,link,asm,cover,vet}); functions from '
            '.gopclntab (debug/gosym); inside a function the reference decodes a 16-byte window at pos, goom decodes the same window, pos += reference Len; '
            'a function in which the reference fails is cut short there and counted. Function i of the concatenated corpus is compared by shard i mod 16. '
            'space 1: head h in B^1, B^2 (thorough B^3) x tail byte in {00,ff,25,8d} repeated to 16 bytes; space 2: for every distinct corpus encoding e '
            '(quick: sorted index = VERIF_SEED mod 16), every position p < len(e), every other byte value, padded to 16 bytes with 25 (lengths 16..p+1: shorter truncations equal those of e itself, which is run at all lengths); '
            'space 3 (thorough): every distinct corpus encoding behind every sequence of 1 or 2 bytes from {f0,f2,f3,2e,36,3e,26,64,65,66,67,40..4f,c4,c5}, '
            'zero-padded / cut to 16 bytes; every buffer is decoded at lengths 16,15,...,0. '
            'evaluations = goom decodes judged (corpus comparisons + totality decodes); states = distinct corpus instruction encodings; '
            'distinct_nontrivial = distinct corpus encodings goom decodes successfully (n_total_decodes_ok counts successful totality decodes, not de-duplicated).',
    'assumptions': ['the reference is the Go 1.23 toolchain copy of golang.org/x/arch/x86/x86asm, vendored unchanged in harness/ref/x86asm',
                    'instruction boundaries inside a function are those of the reference decoder; functions where the reference itself fails are skipped from that point (counted in n_agree_functions_cut_short_reference_cannot_decode)',
                    'opcodes are compared by mnemonic string (the two tables number Op differently)',
                    'an error return is "no instruction reported"; a length accompanying an error is only required to lie in 0..min(15,len(src))'],
}
