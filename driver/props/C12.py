SPEC = {
    'level': 'model_checking',
    'engine': 'H',
    'technique': 'explicit-state exploration of all well-formed operation histories up to a depth bound on the real library against a last-writer-wins reference model',
    'claim': 'after every well-formed history of length <= 4 (quick) / <= 5 (thorough) over 37 operations - Apply(cb1|cb2), Origin+Apply (a callback that calls the original), Return, When(1).Return through fresh lookups, retained handles, a handle kept across Cancel/Reset and the struct-level handle of the first Struct() lookup, Cancel, Reset and Pkg on a function, an exported and two unexported methods, one type through a value and through a pointer instance, two interface methods of one variable with one signature (given by alternating func literals), a function with an origin placeholder and an unexported function resolved by package - every target behaves according to the most recent instruction (a later Apply supersedes stubs, a later Return/When after Apply supersedes the callback, Return/When extend an existing stub, Cancel/Reset start from scratch) and a Pkg override is consumed by exactly the next lookup',
    'note': 'bounded depth and alphabet; retained handles are used only within one configuration epoch (until the next Cancel/Reset of their target); Var/UnExportedVar are not part of the Pkg alphabet; a bare Return after a clause exists is not in the alphabet (DESIGN 3.7)',
    'jobs': [{'bin': 'c12', 'shards': 16, 'case_timeout': 180, 'single_timeout': 300, 'hang_is_violation': True, 'max_restarts': 1, 'maxcases': 12000}],
    'rule': 'all sequences over the alphabet filtered by well-formedness, each replayed from scratch on a fresh builder; after the last step every target is probed with arguments [2 1 2 1 9] (sequences and clause selection visible) and PkgName is compared; '
            'distinct_nontrivial = histories with >= 2 configuring operations.',
    'assumptions': [],
}
