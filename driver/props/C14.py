_ENV = {'GOTRACEBACK': 'crash'}   # a fatal signal in a worker ends it with SIGABRT (driver: crash protocol), not exit 2

BINARIES = {'c14shim': {'pkg': './cmd/c14', 'overlay': 'shim', 'flags': ['-gcflags=all=-l']}}

SPEC = {
    'level': 'model_checking',
    'engine': 'E',
    'technique': 'bounded-exhaustive enumeration on the real library with a whole-text-image diff and a /proc/self/maps '
                 'permission comparison after every single operation: all functions of the binary as prospective targets '
                 '(dry), 400 generated functions x operation sequences (live), all (offset, length) writes around every '
                 'page boundary inside stub.Placeholder (cross-page)',
    'claim': 'dry: every function of the test binary that patch.Ptr accepts has room for the jump before the next function, and '
             'every synthetic function of k < jumpLen bytes (k = 1..jumpLen-1, in the padding of 50 functions) is refused; '
             'live: for each of 400 generated functions (1 byte .. ~6 KiB of code) and each operation sequence, after every '
             'operation the text image differs from the pristine one only inside [entry, entry+jumpLen) (and inside the '
             'placeholder function when an origin placeholder is given), and not at all after removal; '
             'cross-page: every WriteTo of 0..64 (thorough 0..128) bytes starting -48..+48 (thorough -80..+80) bytes from each page boundary '
             'inside stub.Placeholder lands exactly, changes nothing else in the image, and is undone exactly by the write-back; '
             'after every operation the permissions of the image mappings equal those at start-up (.text r-x, nothing writable added)',
    'note': 'linux/amd64 only; permissions are observed at quiescence (after each operation), not during the write; function '
            'entries are 32-byte aligned by the toolchain so a real function entry within 13 bytes of a page end does not occur '
            '(page-straddling writes are covered by the cross-page part); the corpus is never executed while patched',
    'jobs': [
        {'bin': 'c14', 'shards': 4, 'sub': 'dry', 'env': _ENV},
        {'bin': 'c14', 'shards': 8, 'sub': 'live', 'env': _ENV},
        {'bin': 'c14', 'shards': 8, 'sub': 'xpage', 'env': _ENV},
        {'bin': 'c14', 'shards': 4, 'sub': 'handmade', 'env': _ENV},
        # placeholder capacity boundary: the real apply path on every corpus function x placeholder bodies of U-14..U bytes
        {'bin': 'c03', 'shards': 16, 'sub': 'capacity', 'env': {'GODEBUG': 'clobberfree=0'}},
        # environment seam: the syscall shim logs every mprotect request goom makes (PROT_EXEC must never be dropped)
        {'bin': 'c14shim', 'shards': 4, 'sub': 'protlog', 'env': _ENV},
    ],
    'rule': 'handmade: hand-made functions in a private executable mapping, each at a fresh address: (530 instruction heads: ordinary ones, encodings newer than the bundled decoder, every 0F xx C0 and every xx C0) + RET + int3 padding up to a slot of 4..jumpLen+1 bytes, directly followed by a neighbour function; patch.Ptr (never applied) must refuse every slot shorter than the jump and change no byte. capacity: for every function of the corpus binaries (the harness binaries; thorough adds the go tool) whose complete trampoline the real apply path builds in a roomy scratch placeholder using U bytes, a fresh placeholder (never a reused address: goom caches measured sizes by start address) is built with a body of k bytes and p bytes of int3 padding (goom counts the padding as room) for every k+p in [U-14,U], p in {1,16} (thorough {1,2,3,16}), followed by a neighbour function, and the apply repeated: no byte of the neighbour may change, a refused apply changes nothing (evaluations = applies; non-trivial = functions whose trampoline is longer than head + rel32 jump). engine E. dry: one case per entry of the runtime function table (FuncForPC walk over .text) = GetFuncSize + '
            'patch.Ptr (never applied) + UnpatchAll; plus 50 functions x k=1..jumpLen+2 synthetic entries end-k in int3 padding '
            '(k < jumpLen must be refused, k = jumpLen unjudged, k > jumpLen recorded). live: one case per (sequence, target'
            '[, placeholder]); sequences quick = {patch apply unpatch unpatchAll; patch apply unpatchAll; trampoline apply unpatch '
            'unpatchAll (placeholder i mod 8)}, thorough adds {re-patch, Restore, Unpatch(target), apply twice} and all 8 '
            'placeholders. cross-page: one case per (boundary, offset, length, pattern) = write + write-back. '
            'evaluations = traces = states = cases; transitions = calls into goom; distinct_nontrivial: dry = accepted targets / '
            'judged synthetic entries, live = cases in which the entry bytes really changed, cross-page = writes that straddle the boundary. '
            'unjudged: synthetic k = jumpLen, refusals of functions that could hold the jump.',
    'assumptions': [
        'the during-write X bit ("pages remain executable throughout") is not observable from /proc/self/maps at quiescence; the protlog job '
        'observes it through the syscall shim (every mprotect request of goom is logged and must keep PROT_EXEC); C11 additionally checks it at every scheduling point',
        'the jump length is taken from goom\'s own emitter (len(jmpToFunctionValue(0,0))), not hard-coded',
        'function extents come from the Go runtime\'s function table (entry of the next function), not from goom\'s scanner',
        'a function exactly as long as the jump may be accepted or refused (the statement says "too short")',
        'restoring the original entry bytes on removal is judged here only for the entry-jump region (full restoration semantics belong to C02)',
    ],
}
