SPEC = {
    'level': 'model_checking',
    'engine': 'E+H',
    'technique': 'exhaustive enumeration of every function of large Go binaries x placeholder positions through the real relocation code, validated instruction by instruction with an independent decoder; exhaustive enumeration of every 8-byte stack offset at the moment the origin placeholder is called, for a zoo of prologue shapes',
    'claim': 'static: for every function of the worker binary and of the go tool (quick) / plus gofmt, compile, link, asm, vet, cover (thorough: 55 860 functions) and 4 (quick) / 10 (thorough) placeholder offsets from +-64 B to +-(2 GiB - 4 KiB), whenever goom accepts the prologue the relocated instructions are the same instructions, every PC-relative operand (branch, call, RIP-relative memory operand incl. those followed by an immediate) resolves to the same absolute address or to the relocated copy of an in-prefix target, non-PC-relative instructions are byte-identical, the copied prefix ends on an instruction boundary >= the jump length and no later instruction of the function branches into it. '
             'dynamic: for 16 generated shapes (small/large/huge frame, nosplit leaf, RIP-relative first instruction (cmp/load/store-imm), loops at the entry, defer/recover, closure, 12 integer args, float args, method) the mock calls its origin placeholder at every 8-byte stack offset from 272 B to 9 KiB (quick) / 14 KiB (thorough) of a fresh goroutine: result = original + bonus and the callback ran exactly once; a refused apply leaves function and placeholder unchanged',
    'note': 'the corpus is what this toolchain version emits; relocated code of toolchain binaries is decoded, not executed (only the zoo is executed); the jump back to the original is covered by C15',
    'jobs': [
        {'bin': 'c03', 'sub': 'static', 'shards': 16, 'env': {'GODEBUG': 'clobberfree=0'}},
        {'bin': 'c03', 'sub': 'dynamic', 'shards': 16, 'max_restarts': 20},
        # "if a faithful trampoline cannot be built the apply must fail and leave both unchanged": the placeholder
        # capacity boundary (the sub-check is shared with C14, whose neighbour clause it also decides)
        {'bin': 'c03', 'shards': 16, 'sub': 'capacity', 'env': {'GODEBUG': 'clobberfree=0'}},
    ],
    'rule': 'static: cases = functions x placeholder offsets, function bytes and extent taken with goom\'s own GetFuncSize from an in-memory copy of the ELF .text; refusals (error/panic) are legal and counted; distinct_nontrivial = distinct instruction-form sequences of accepted prefixes (+ dynamic probes during which the stack moved). '
            'dynamic: probes = shapes x args x descend depth n x pad variant k, one fresh goroutine each; frame sizes measured at run time on a pre-grown stack; the set of distinct stack offsets is reported and a gap makes the run exhaustive:false.',
    'assumptions': ['functions in which the reference decoder cannot decode the copied prefix are not judged (counted)'],
}
