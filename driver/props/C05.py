BINARIES = {
    'c05': {'pkg': './cmd/c05', 'overlay': 'shim', 'flags': ['-gcflags=all=-l']},
    'c05race': {'pkg': './cmd/c05', 'overlay': 'plain', 'flags': ['-race', '-gcflags=all=-l -d=checkptr=0']},
}

SPEC = {
    'level': 'model_checking',
    'engine': 'H+S',
    'technique': 'exhaustive enumeration of call sequences against a cursor model, plus stateless exploration of all interleavings of concurrent callers of the real matcher under a controlled scheduler; free-running -race side pass',
    'claim': 'for every triple of sequence lengths (clause When(1), clause When(2), default; 0..3 quick / 0..4 thorough) built by Return/AndReturn and by Returns, every call sequence of length 6 (quick) / 9 (thorough) over {1,2,9} returns the k-th element of the selected stub and sticks at the last, on function, method and interface mocks; for 2-3 (4) concurrent callers every interleaving at the atomic operations returns sequence elements, never goes backwards in real time and sticks once the last element was returned',
    'note': 'scheduling points are the sync/atomic operations of matcher.go (import-rewritten copy of the working-tree file); unsynchronised accesses are looked for by a separate free-running -race pass of the same bodies (sampled)',
    'jobs': [
        {'bin': 'c05', 'sub': 'seq', 'shards': 16},
        {'bin': 'c05', 'sub': 'conc', 'shards': 8},
        {'bin': 'c05race', 'sub': 'race', 'shards': 1, 'race_log': True, 'env': {'GORACE': 'halt_on_error=0'}},
    ],
    'rule': 'seq: configs = {chain,returns} x lengths (la,lb,ld) x targets {func (3 stubs), method, iface (2 stubs)}; all call sequences of the stated length; non-trivial = total configured elements > 2. '
            'conc: stubs {default, When(1)} x n in 2..4 x thread configurations (2 threads x 1..2(3) calls, 3 threads x 1(..2) calls, 4 threads); per scenario preemption bounds 0,1,2 then the complete space with a visited-set on (cursor cell, per-thread pc and observation hash); '
            'distinct_nontrivial counts executions with >=1 preemption (+ non-trivial seq cases).',
    'assumptions': ['the race side pass samples schedules; it is a precondition for the explorer\'s soundness, not the decider of the ordering clauses'],
}
