BINARIES = {
    'c15shim': {'pkg': './cmd/c15', 'overlay': 'shim', 'flags': ['-gcflags=all=-l']},
    'c15arm': {'pkg': './cmd/c15arm', 'overlay': 'plain', 'flags': ['-gcflags=all=-l'], 'pregen': ['sh', 'c15arm/gen.sh']},
}

SPEC = {
    'level': 'model_checking',
    'engine': 'E+H',
    'technique': 'bounded-exhaustive enumeration of destinations (per 16-bit lane, per byte lane, lane pairs) and of every '
                 'source/destination distance in bands around the +-2 GiB decision boundary; the bytes produced by the real '
                 'emitters are decoded by independent reference decoders and executed by a symbolic micro-interpreter '
                 '(register values, branch target); plus exhaustive histories of patch-handle operations (create/apply/unpatch/restore over 2-3 targets) after each step of which the installed entry bytes are judged the same way',
    'claim': 'for every enumerated destination the amd64 divert / interface-stub / far-return sequences leave RDX == destination '
             '(all 64 bits) and branch through the 8-byte cell at the destination writing no other register (divert sequence '
             'starting with the NOP marker); for every enumerated (from,to) around the decision boundary the rel32 return jump '
             'lands on to whenever it is emitted and relative() only accepts reachable distances; the arm64 divert and '
             'interface-stub sequences reassemble the destination in X26 with MOVZ/MOVK x3 and then LDR Xn,[X26]; BR Xn',
    'note': 'destinations are exhaustive per lane (one or two lanes vary over a fixed background), not over all 2^64 values; '
            'distances are exhaustive inside the three bands at the listed from bases only; the arm64 (and 386) emitters are '
            'compiled from arch-neutral copies of the working-tree files, regenerated at every check; which temporary register '
            'the arm64 sequences use and whether the far return form is ever needed inside one text segment are recorded, not judged',
    'jobs': [{'bin': 'c15', 'shards': 8, 'sub': 'amd64'},
             {'bin': 'c15', 'shards': 4, 'sub': 'guards'},
             {'bin': 'c15shim', 'shards': 2, 'sub': 'stubs'},
             {'bin': 'c15arm', 'shards': 8, 'sub': 'arm64'}],
    'rule': 'guards (engine H): every maximal history of New/Apply/Unpatch/Restore over 2 targets up to depth 8 (thorough: 2 targets depth 12, 3 targets depth 11), model-side well-formedness filter, replayed from a pristine image, every target judged after every step (installed bytes through the reference decoder and interpreter, pristine bytes otherwise, and a real call); non-trivial = a sequence is written while another guard exists. engine E. (a) destinations: per byte lane all 256 values x 8 lanes x B backgrounds; all pairs of 16-bit lanes at '
            '{0,1,0x7fff,0x8000,0xffff} x B backgrounds; per 16-bit lane all 65536 values x 4 lanes x B backgrounds '
            '(B = 4 quick: 0, ~0, 0x0123456789abcdef, 0xfedcba9876543210; 8 thorough, plus all 5^4 boundary quadruples); every '
            'destination goes through patch.jmpToFunctionValue, iface.jmpWithRdx and the far form of patch.jmpToOriginFunctionValue '
            '(amd64) and through patch.jmpToFunctionValue, iface.jmpWithRdx, iface.jmpWithRdxAndCtx (arm64). '
            '(b) patch.jmpToOriginFunctionValue(from,to) and (c) patch.relative(from,to) for every delta=from-to in '
            '[-2^31-W,-2^31+W] u [-W,W] u [2^31-W,2^31+W] at every from base (W = 64 and 6 bases quick; W = 65536 and 12 bases '
            'thorough; bases include 0x40 and 2^64-0x40, arithmetic mod 2^64). evaluations = cases (one destination through all '
            'emitters of the architecture, or one (from,to)); states = distinct inputs (first occurrences, duplicates between '
            'sub-spaces are executed but counted once); transitions = calls of the real emitters / relative / checkAlreadyPatch; '
            'distinct_nontrivial = distinct destinations whose emitted sequences were all decoded by the reference decoder and '
            'followed by the interpreter to a control transfer, plus distinct (from,to) for which the relative form was chosen '
            '(b) or relative() answered true (c). unjudged = (c) cases where relative() answers false although a rel32 would '
            'reach (the statement does not require the relative form), and every 386 evaluation.',
    'assumptions': ['the reference decoders (Go toolchain x/arch x86asm and arm64asm, vendored) are correct on the dozen encodings involved',
                    'source and destination addresses are arbitrary 64-bit values, address arithmetic is mod 2^64 (no canonical-address restriction)',
                    'memory is modelled as one 8-byte cell at the destination holding a code pointer (closure calling convention); '
                    'whether jumping *through* the destination is the right way to return into the middle of a function body is '
                    'not judged, the far return form is checked literally against the statement (RDX == to, jmp [RDX])',
                    'the arm64 and 386 emitters are exercised as pure functions compiled for the host (they only do integer '
                    'arithmetic and one little-endian store); 386 is outside the statement and therefore unjudged'],
}
