_FLAGS = ['-gcflags=all=-l']

BINARIES = {
    'c10':    {'pkg': './cmd/c10', 'overlay': 'plain', 'flags': _FLAGS},
    'c10s':   {'pkg': './cmd/c10', 'overlay': 'plain', 'flags': _FLAGS + ['-ldflags=-s']},
    'c10pie': {'pkg': './cmd/c10', 'overlay': 'plain', 'flags': _FLAGS + ['-buildmode=pie']},
    # externally linked (cgo) binary with its symbol table: the link mode of goom's own root-package tests
    'c10cgo': {'pkg': './cmd/c10cgo', 'overlay': 'plain', 'flags': _FLAGS},
    # externally linked and stripped: the function table is offset from the run-time addresses and the symbol table is gone
    'c10cgos': {'pkg': './cmd/c10cgo', 'overlay': 'plain', 'flags': _FLAGS + ['-ldflags=-s']},
    'c10race': {'pkg': './cmd/c10cgo', 'overlay': 'plain', 'flags': ['-race', '-gcflags=all=-l -d=checkptr=0']},
}

SPEC = {
    'level': 'model_checking',
    'engine': 'E',
    'technique': 'exhaustive enumeration of the running binary\'s own symbol tables (every function-table entry, every ELF '
                 'symbol, 204 generated package variables) and of nine near-miss mutations of every name (incl. the import path without its first element, its last element alone, and the name of a vendored package without the vendor/ prefix), against '
                 'goom-independent ground truth (runtime.FuncForPC walk of all executable pages, &v, debug/elf + debug/gosym), '
                 'in five link configurations (default, -s, PIE, external/cgo, external/cgo -s)',
    'claim': 'for every name in the tables of the three test binaries (default link, -ldflags=-s, -buildmode=pie), through '
             'FindFuncByName and FindVarByName, and for every near-miss of every name: the result is an error (or panic) or '
             'the exact run-time address of a symbol that bears exactly the queried name; in the default link mode every '
             'unambiguous function-table name and every unambiguous ELF object symbol (incl. all generated variables) resolves',
    'note': 'exhaustive over the tables of these three binaries, not over all Go programs; names carried by several symbols '
            'are judged weakly (any of their addresses is accepted); darwin/windows table readers are not exercised; '
            'the cgo sub-job covers an externally linked binary (function ground truth = runtime walk only)',
    'jobs': [
        {'bin': 'c10', 'shards': 6, 'sub': 'default'},
        {'bin': 'c10s', 'shards': 4, 'sub': 'strip'},
        {'bin': 'c10pie', 'shards': 4, 'sub': 'pie'},
        {'bin': 'c10cgo', 'shards': 4, 'sub': 'cgo'},
        {'bin': 'c10cgos', 'shards': 4, 'sub': 'cgostrip'},
        # fault sequences: shard index = which of the process' first three lookups cannot open the executable
        {'bin': 'c10cgo', 'shards': 8, 'sub': 'cgo-fault'},
        {'bin': 'c10', 'shards': 8, 'sub': 'default-fault'},
        # free-running -race side pass: concurrent first lookups (one fresh process per shard)
        {'bin': 'c10race', 'shards': 12, 'sub': 'cgo-race', 'race_log': True, 'death_is_violation': True, 'env': {'GORACE': 'halt_on_error=0'}},
    ],
    'rule': 'engine E. Space per link configuration: N = {runtime function names (FuncForPC walk over every byte of every '
            'executable mapping of the image)} + {pclntab names via debug/gosym, non-PIE} for FindFuncByName; '
            '{all ELF symtab names (default link) or the 204 generated variables (other links)} for FindVarByName. '
            'One case = one name: query the name, query it through the other API, query its five mutants '
            '(drop last byte, append "0", swap case of first letter of base name, strip package path, duplicate last dot). '
            'evaluations = transitions = queries issued to goom; traces = states = names; '
            'distinct_nontrivial = distinct (API, query) pairs that goom resolved to an address (non-default path).',
    'assumptions': [
        'ground truth for function addresses is the Go runtime\'s own function table (runtime.FuncForPC), for variables the '
        'address-of operator evaluated in the target package; in the default (non-PIE, ET_EXEC) link an ELF symbol\'s value is '
        'its run-time address, which is cross-checked on all 204 generated variables before any verdict',
        'a panic raised by the lookup (LdFlags-caused errors are thrown) counts as an error',
        'with -ldflags=-s and -buildmode=pie the statement allows errors for present symbols, so only wrong addresses are violations there',
    ],
}
