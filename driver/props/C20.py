BINARIES = {'c20': {'pkg': './cmd/c20', 'overlay': 'shim', 'flags': ['-gcflags=all=-l']},
            'c20bb': {'pkg': './cmd/c20bb', 'overlay': 'shim', 'flags': ['-gcflags=all=-l']}}

SPEC = {
    'level': 'model_checking',
    'engine': 'H+S',
    'technique': 'exhaustive enumeration of request-size sequences with an mmap fault seam, plus stateless exploration of all thread interleavings (state-cached, unbounded preemptions) of the real allocator under a controlled scheduler',
    'claim': 'every request sequence up to length 3 (quick) / 4 (thorough) over 9 sizes on the fallback allocator and through Acquire with every mmap ok/fail pattern, and every interleaving of 2-3 concurrent requesters with 1-2 requests each, yields regions that are big enough, executable, writable through the writer, pairwise disjoint and inside the reserve, with exhaustion reported as an error',
    'note': 'scheduling points are the sync/atomic operations and the mmap/mprotect calls of goom (import-rewritten copies of the working-tree files); memory-model effects below sequential consistency are not modelled',
    'jobs': [
        {'bin': 'c20', 'sub': 'seq', 'shards': 8, 'maxcases': 3000, 'max_restarts': 40},
        {'bin': 'c20', 'sub': 'conc', 'shards': 8},
        # exported API only, one fresh process per trial (concurrent first use, then exhaustion): free-running side pass
        {'bin': 'c20bb', 'sub': 'blackbox', 'shards': 32},
    ],
    'rule': 'blackbox (sampled side pass, 32 fresh processes, exported API only, reserve bound taken from the runtime function table): first use of the allocator by 8 goroutines at once, then 48-byte requests until exhaustion: disjoint, inside stub.Placeholder\'s slot, written and read back, exhaustion reported in time. seq: all sequences over sizes {0,1,20,48,R/2,R-48,R,R+1,2^47+1} x (direct fallback | Acquire x all 2^len mmap ok/fail patterns), non-trivial = contains a request in (0,R]; after the last request every region is filled completely in reverse order, all are read back, and the never-handed-out rest of the reserve must be pristine. '
            'conc: all configurations of 2 threads (and 3 threads) x per-thread request lists of length 1..2 over {48,R/2,R}; for each, ALL interleavings at the '
            'atomic operations (unbounded preemptions, visited-set on (cells, per-thread pc and observation hash)); distinct_nontrivial counts executions containing >=1 preemption.',
    'assumptions': ['the fallback allocator shares no state other than its offset word (checked: all accesses go through sync/atomic)',
                    'an error in the concurrent part is judged only when all requests of the scenario together fit the reserve'],
}
