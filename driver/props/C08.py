SPEC = {
    'level': 'model_checking',
    'engine': 'H',
    'technique': 'explicit-state exploration of all operation histories up to a depth bound on the real library, compared step by step with a reference model',
    'claim': 'every history of Set/Apply/Lookup/Cancel/Reset up to depth 5 (quick, one builder; thorough: two builders up to depth 5 and one builder at depth 6) on 16 variable types, by pointer and by name, leaves the variable equal to the model value after every step',
    'note': 'bounded depth; types limited to the 16 listed; two-builder histories whose expected value depends on the reading of "first mock in that builder" are unjudged',
    'jobs': [{'bin': 'c08', 'shards': 16, 'env': {'GOMAXPROCS': '2', 'GODEBUG': 'clobberfree=1'}, 'max_restarts': 20, 'budget': {'thorough': 3000}}],
    'rule': 'engine H: every history of length <= d over {Set1,Set2,Apply3,Lookup,Cancel,Reset,SetWrongType,ForeignWrite,ApplyNext (callbacks of one factory returning alternating values)} (quick d=5 one builder; thorough d=5 with the builder-bound operations x2 builders, plus d=6 one builder) '
            'for 20 variables (16 types; 4 whose original is a heap object referenced only by the variable, for which a forced GC is an additional operation, at most once per history) x {by pointer, by name}; replayed from scratch on the real library and on the '
            '"value before the first mock in that builder" model, variable read (accessor + direct) after every step. '
            'distinct_nontrivial = distinct (variable, addressing, history) containing at least one Set/Apply.',
    'assumptions': ['by-name addressing is exercised only where the value type equals the variable type (documented API limit: no interface-typed variables)',
                    'two-builder histories on which the literal and the per-epoch reading of "first mock in that builder" differ are executed but not judged'],
}
