SPEC = {
    'level': 'model_checking',
    'engine': 'E',
    'technique': 'bounded-exhaustive enumeration of well-formed stub configurations x call tuples, each installed and called on the real '
                 'library (real calls to //go:noinline targets and (*When).Eval) and compared with an independent reference interpreter '
                 'of the rule in the statement; violations are shrunk by deterministic re-execution to a minimal configuration + call',
    'claim': 'for the 12 signatures f1(int), f2(int,string), f3(interface{},int), u1(uint64), b1(int64) (conditions written as plain int literals), (*S).M(int,int), (S).V(int,int), v0(...int), '
             'v1(int,...int), (*S).VM(int,...int), vi(string,...interface{}) (an element may itself be a slice), v2(string,int,...string): for every configuration default in {none, Return(d)} x clause list of length '
             '<= 2 (quick) / <= 3 (thorough) over the clause alphabet, and every call tuple over {a,b,c} per parameter (variadic tails of '
             'length 0..2, two receivers for methods), the real call and Eval return the result of the first-registered matching clause, '
             'else the default, else panic with "no suitable condition"',
    'note': 'bounded: three values per parameter type, clause atoms {a, b, Any(), In(a,b)}, variadic tails <= 2, In clauses with <= 2 '
            'alternatives (two-alternative In only over plain values), reduced alphabets for the longest lists of v0/v1/v2 (see rule); '
            'each clause has exactly one result (sequences are C05); a bare Return after a clause is outside the alphabet (DESIGN 3.7)',
    'jobs': [{'bin': 'c04', 'shards': 16, 'env': {'GODEBUG': 'clobberfree=1,asyncpreemptoff=1'}}],
    'rule': 'engine E. Clause alphabets per signature: Q = When(e1..en) with ei in {a,b,Any(),In(a,b)} + In(one alternative over the same '
            'atoms) + In(two alternatives over plain values a,b) + for v0 the typed-slice form In([]int{..}[, []int{..}]); W = Q without '
            'two-alternative In; K = When/In(one alternative) over {a,Any()}; k = When over {a,Any()}; variadic clauses have tails of '
            'length 0..2. Clause lists by length 0/1/2/3: quick f1,f2,f3,M,V,v0,v1: Q,Q,Q,-; v2: Q,Q,K,-; thorough f1,f2,f3,M,V: Q,Q,Q,Q; '
            'v0: Q,Q,Q,W; v1: Q,Q,Q,K; v2: Q,Q,W,k. x default in {none, Return(1000)}; clause i returns 1001+i. A configuration without '
            'default starts with a When clause (In is only reachable from a *When). Every configuration: fresh builder, configuration, '
            'the whole call sweep in domain order (each tuple as a real call, then through Eval; for methods Eval is accepted with or '
            'without the receiver), Reset, original-restored sanity check. evaluations = judged real calls + Evals (+1 per configuration '
            'that panics while being set up); states = distinct (configuration, call) pairs; transitions = API operations + calls + Evals; '
            'distinct_nontrivial = distinct configurations in which the implementation returned some clause result; samples = every '
            '4096th configuration of a worker. Violation keys are grouped: signature, kind (panic / missed-match / false-match / '
            'default-ignored / garbage-result), via (config / call / eval; eval only if the real call conforms), clause kinds, atom kinds '
            'and alternative/call lengths of the minimised case.',
    'assumptions': [
        'a configuration without default whose first When leaves the variadic tail empty (fewer expressions than declared parameters, '
        'which goom documents as not allowed at creation) is executed but not judged: the statement does not say whether it is well-formed',
        'arguments of the interface{} parameter are 1, "b", 3 (pairwise different under any notion of equality); cross-type equality is C18',
        'Eval is judged as "the same selection as a call with these arguments" (the statement speaks of calls; its observe_at lists When.Eval)',
    ],
}
