SPEC = {
    'level': 'model_checking',
    'engine': 'E',
    'technique': 'bounded-exhaustive enumeration of stub configurations x call tuples on the real library against an independent reference interpreter',
    'claim': 'placeholder',
    'note': 'placeholder',
    'jobs': [{'bin': 'c04', 'shards': 16}],
    'rule': 'placeholder',
    'assumptions': [],
}
