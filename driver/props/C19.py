SPEC = {
    'level': 'model_checking',
    'engine': 'H (differential over configurations)',
    'technique': 'one deterministic, exhaustive enumeration of mock scenarios x awkward argument vectors executed on the real library under every logging configuration; transcripts compared pairwise',
    'claim': 'every scenario of the enumeration (function, variadic, awkward-argument, awkward-result, method-with-variadic-tail and interface mocks; installed by Apply, by a panicking callback, by Return/AndReturn, When/In clauses; arguments incl. nil pointers, typed-nil errors, nil func/map/slice, self- and mutually-cyclic structures, unexported-field structs, a value whose String() panics) produces byte-identical transcripts of calls, arguments seen by the replacement, results and panics under logging off, OpenDebug(), OpenTrace() and GOOM_DEBUG=1; no configuration panics or kills the process while rendering arguments',
    'note': 'the scenario list is fixed and finite; a self-containing []interface{} / map (on which fmt itself recurses forever) is not in the argument domain',
    'jobs': [
        {'bin': 'c19', 'sub': 'off', 'shards': 1, 'discard_stdout': True, 'max_restarts': 6, 'single_timeout': 200, 'hard_timeout': 900, 'case_timeout': 120, 'hang_is_violation': True},
        {'bin': 'c19', 'sub': 'debug', 'shards': 1, 'discard_stdout': True, 'max_restarts': 6, 'single_timeout': 200, 'hard_timeout': 900, 'case_timeout': 120, 'hang_is_violation': True},
        {'bin': 'c19', 'sub': 'trace', 'shards': 1, 'discard_stdout': True, 'max_restarts': 6, 'single_timeout': 200, 'hard_timeout': 900, 'case_timeout': 120, 'hang_is_violation': True},
        {'bin': 'c19', 'sub': 'env', 'shards': 1, 'discard_stdout': True, 'max_restarts': 6, 'single_timeout': 200, 'hard_timeout': 900, 'case_timeout': 120, 'hang_is_violation': True, 'env': {'GOOM_DEBUG': '1'}},
    ],
    'rule': 'scenarios = targets x mock kinds x argument vectors (quick: a subset of the awkward vectors for the stub kinds; thorough: all); one worker process per logging configuration runs all of them; distinct_nontrivial = distinct transcripts; '
            'a scenario is judged by equality of its transcript across the four configurations (the logging-off run is the reference, no hand-written expectation).',
    'assumptions': ['transcripts contain no addresses and no log text; goom\'s console output is discarded'],
}


def post(allres, tier):
    """Compare the per-scenario transcript hashes of the four configurations."""
    by = {}
    texts = {}
    for r in allres:
        ex = r.get('extra') or {}
        cfg = ex.pop('config', r.get('sub'))
        by.setdefault(cfg, {}).update(ex.pop('hashes', {}) or {})
        texts.setdefault(cfg, {}).update(ex.pop('texts', {}) or {})
    viol = []
    ref = by.get('off', {})
    n = 0
    for cfg in ('debug', 'trace', 'env'):
        cur = by.get(cfg)
        if cur is None:
            continue
        for sid in sorted(set(ref) | set(cur)):
            n += 1
            if ref.get(sid) != cur.get(sid):
                a = (texts.get('off', {}).get(sid) or '<missing>').strip().split('\n')
                b = (texts.get(cfg, {}).get(sid) or '<missing>').strip().split('\n')
                diff = next((i for i in range(max(len(a), len(b))) if i >= len(a) or i >= len(b) or a[i] != b[i]), 0)
                viol.append({
                    'key': 'scenario=%s config=%s' % (sid, cfg),
                    'desc': 'transcript under %s differs from logging off at line %d: off=%r %s=%r' % (
                        cfg, diff, a[diff] if diff < len(a) else '<end>', cfg, b[diff] if diff < len(b) else '<end>'),
                    'case': {'scenario': sid, 'config': cfg, 'off': a, cfg: b},
                })
    return viol, {'transcript_comparisons': n, 'configurations': sorted(by)}
