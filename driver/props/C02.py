SPEC = {
    'level': 'model_checking',
    'engine': 'H',
    'technique': 'explicit-state exploration of all well-formed operation histories up to a depth bound on the real library, with a whole-image byte diff and behavioural probes against a reference model after every history',
    'claim': 'after every well-formed history of length <= 4 (quick, 28 operations) / <= 5 over the same 28 operations and <= 4 over 40 operations of two symmetric builders (thorough) of Apply / re-Apply / Return / When..Return / Origin+Apply / Cancel / Reset by two builders over functions, an exported and an unexported method, an interface method, a generic instantiation and a function with an origin placeholder, the only bytes of the text image that differ from the pristine image are entry jumps of functions some builder currently mocks and the placeholder body, every target whose state the statement determines behaves as the model says (original after Reset/Cancel), and after resetting everything the image is pristine',
    'note': 'bounded depth and alphabet; for a target two builders have configured at the same time only the byte clause and the behaviour right after a Reset/Cancel are judged (the statement does not order competing builders)',
    'jobs': [{'bin': 'c02', 'shards': 16, 'case_timeout': 180, 'single_timeout': 300, 'hang_is_violation': True, 'max_restarts': 1, 'maxcases': 10000}],
    'rule': 'all sequences over the alphabet filtered by the model\'s well-formedness (no bare Return after a clause exists), each replayed from scratch on fresh builders; oracle after the last step (every prefix is itself an enumerated history); '
            'distinct_nontrivial = histories containing at least one mock-installing operation; evaluations = judged observations (1 image diff + 5 probes per judged target).',
    'assumptions': ['text image = ELF .text of the worker binary; neighbours are covered because the whole image is diffed'],
}
