SPEC = {
    'level': 'model_checking',
    'engine': 'E',
    'technique': 'placeholder',
    'claim': 'placeholder',
    'note': 'placeholder',
    'jobs': [{'bin': 'c09', 'shards': 4}],
    'rule': 'placeholder',
    'assumptions': [],
}
