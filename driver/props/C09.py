SPEC = {
    'level': 'model_checking',
    'engine': 'E',
    'technique': 'exhaustive table: result/parameter kinds x supplied value classes x {Return, Returns, When(value), Eval}, every cell '
                 'executed on the real library through real calls to //go:noinline targets; expected outcome derived from the statement only',
    'claim': 'for the 14 kinds *S, error, interface{}, fmt.Stringer, []byte, map[string]int, chan int, func() int, int64, string, struct S, '
             '[2]int, an unnameable struct and a pointer to it (plus one ([]byte, error) pair): nil is delivered as the typed zero of '
             'pointer/interface/slice/map/chan/func results (err == nil holds), typed nils, zero and non-zero values arrive unaltered, concrete '
             'values are boxed into interface results with their dynamic type, layout-identical struct / struct-pointer stand-ins arrive '
             'bit-identically under the declared type, and values of another size are refused when configured — through Return, Returns, as '
             'When(value) conditions (an equal argument selects the clause, a different one does not) and through Eval',
    'note': 'one or a few representative values per cell; cells the statement leaves open (nil for non-nilable kinds, same-size values of '
            'another type, pointer stand-ins with another pointee size, non-implementing values for interface results) are executed with '
            'harmless bit patterns, recorded in the evidence (keys "unjudged ...") and never reported; quick and thorough are the same table',
    'jobs': [{'bin': 'c09', 'shards': 4}],
    'rule': 'engine E. Cells = kind x class x representative value (classes: untyped-nil, typed-nil, zero, non-zero, concrete-in-interface, '
            'standin-struct, standin-pointer, same-size-other-type, smaller, larger; not every class applies to every kind). Mode of a cell: '
            'deliver (value must arrive as the stated value of the declared type: r == nil on the statically typed result for nil cells, else '
            'identical dynamic type and identity/deep equality), reject (Return / Returns / When must panic while configuring), unjudged. '
            'Deliver cells run 5 sub-checks: Return+call, Eval of that stub, Returns(v,v)+2 calls, Return(100).When(v).Return(200) with one '
            'equal-argument call and calls with arguments that differ in every sense, the same through Eval; reject cells run 3. Fresh builder '
            'per sub-check, Reset and original-restored sanity check afterwards. evaluations = judged observations; states = (cell, sub-check) '
            'pairs judged; transitions = API operations + calls; distinct_nontrivial = deliver cells in which every sub-check delivered '
            'the expected value. Violation key = kind, class, value, via, outcome.',
    'assumptions': [
        'rejection means: the configuring operation (Return, Returns, When) panics; accepting the value and failing at call time counts as not rejected',
        'Eval may hand a nil result back either as untyped nil or as the typed nil of the declared kind',
        'negative When arguments differ from the configured value both by identity and by content, so that no notion of equality is presupposed',
    ],
}
