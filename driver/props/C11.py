BINARIES = {
    'c11': {'pkg': './cmd/c11', 'overlay': 'shim', 'flags': ['-gcflags=all=-l']},
    'c11m': {'pkg': './cmd/c11', 'overlay': 'shimmem', 'flags': ['-gcflags=all=-l']},
    'c11race': {'pkg': './cmd/c11', 'overlay': 'plain', 'flags': ['-race', '-gcflags=all=-l -d=checkptr=0']},
}

SPEC = {
    'level': 'model_checking',
    'engine': 'S',
    'technique': 'stateless exploration of thread interleavings of the real patch/memory code under a controlled scheduler with iterated preemption bound; free-running -race side pass',
    'claim': 'for mocker threads with own builders on disjoint targets (apply, re-stub, reset; one target with an origin placeholder) running with callers of a steadily mocked function whose callback calls its origin placeholder - targets sharing one code page, and a variant with a target on another page - every schedule with at most 2 (quick) / 3 (thorough) preemptions gives the steady result to every caller, each mocker sees exactly its own instructions on its own target, no page of code loses its execute permission at any scheduling point, nothing deadlocks or faults, and at quiescence the image is pristine, no page is writable and no patch is registered',
    'note': 'scheduling points: every Lock/Unlock/RLock/RUnlock, Once.Do and atomic operation of goom and both sides of every mprotect (import-rewritten copies of the working-tree files). Data races invisible to a cooperative scheduler are looked for by a separate free-running -race pass (sampled). Cache and memory-model effects of cross-modifying code are outside the model.',
    'jobs': [
        {'bin': 'c11', 'sub': 'explore', 'shards': 16, 'death_is_violation': True, 'env': {'GODEBUG': 'clobberfree=1,gcshrinkstackoff=1'}, 'budget': {'quick': 240, 'thorough': 3000}},
        {'bin': 'c11m', 'sub': 'codereads', 'shards': 16, 'death_is_violation': True, 'env': {'GODEBUG': 'clobberfree=1,gcshrinkstackoff=1'}, 'budget': {'quick': 240, 'thorough': 3000}},
        {'bin': 'c11race', 'sub': 'race', 'shards': 1, 'race_log': True, 'death_is_violation': True, 'env': {'GORACE': 'halt_on_error=0', 'GODEBUG': 'gcshrinkstackoff=1'}},
    ],
    'rule': 'scenarios: {F1,F2 mockers + 1 caller (same page), F1,F3 mockers + 1 caller (other page), F2 mocker + 2 callers; thorough adds 2 mockers + 2 callers and 3 mockers}; for each all schedules with <= b preemptions for b = 0,1,2(,3), '
            'top-level branches distributed over 16 processes; distinct_nontrivial = executions containing >= 1 preemption; n_outcome_classes = distinct observation vectors.',
    'assumptions': ['threads are pre-grown so that origin calls never run near the stack guard (that behaviour belongs to C03)',
                    'the race side pass samples schedules; it is a precondition for the explorer\'s soundness, not the decider'],
}
