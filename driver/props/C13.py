SPEC = {
    'level': 'model_checking',
    'engine': 'E in H',
    'technique': 'exhaustive enumeration of a catalogue of ill-formed configurations, each issued after every well-formed operation history up to a depth bound, with a before/after comparison of image and behaviour on the real library',
    'claim': 'each of 72 configuration mistakes (non-function target, wrong parameter/result counts and sizes for functions, methods, unexported functions and interface methods, too few condition arguments or return values (down to an empty list), ill-formed As(..) stubs for interface methods, wrong-sized return values, unknown method/symbol names (also tails of an import path), non-pointer / non-interface handed to Interface, wrong origin placeholder, variable mock misuse) is rejected by a panic or error when issued on the pristine state and after every well-formed history of depth <= 2 (quick) / <= 3 (thorough); error values have a terminating, CauseBy-consistent cause chain; the executable image, all targets (per the model of the prefix) and never-mocked functions are unchanged by the rejected call',
    'note': 'a zero-argument Return() and a zero-argument When() are documented forms and not classed as mistakes; the catalogue is fixed (70 single-call entries plus 2 mistakes chained onto a well-formed stub of a target no history touches, whose configuration must stay in force; chains such as When(1).Return(bad) are not used because their first call is a valid configuration on its own)',
    'jobs': [{'bin': 'c13', 'shards': 16, 'case_timeout': 180, 'single_timeout': 300, 'hang_is_violation': True, 'max_restarts': 1, 'maxcases': 12000}],
    'rule': 'cases = prefixes (all well-formed histories over 15 operations up to the depth, plus the empty one) x mistakes; distinct_nontrivial = cases with a non-empty prefix; evaluations = judged observations (rejection, cause chain, image, untouched functions, 5 probes per target).',
    'assumptions': [],
}
