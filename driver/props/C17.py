BINARIES = {
    # no mocking here: the decoders are built with inlining (the driver default is -gcflags=all=-l)
    'c17': {'pkg': './cmd/c17', 'overlay': 'plain', 'flags': []},
}

SPEC = {
    'level': 'model_checking',
    'engine': 'E',
    'technique': 'exhaustive enumeration of the input space of the decoder (all 2^32 instruction words in the thorough tier) '
                 'with a differential oracle: the Go toolchain\'s own arm64 decoder (vendored copy, harness/ref/arm64asm)',
    'claim': 'thorough: for every one of the 2^32 words goom\'s arm64asm.Decode returns an instruction or an error without panicking, '
             'Inst.String() of every decoded instruction does not panic, and for every word outside the frozen SYS class '
             '(w & 0xFFF80000 == 0xD5080000) goom and the reference agree on decodability, opcode mnemonic and the displacement of every '
             'PC-relative argument. quick: the same on one residue class mod 257 plus the PC-relative encoding classes, the complete system-instruction space 0xD5000000-0xD53FFFFF (2^22 words) and, for every value of the opcode bits 31..21, every low-21-bit value made of at most 4 runs of equal bits (fields at all-zeros/all-ones in all combinations)',
    'note': 'quick is a declared non-exhaustive selection (exhaustive:false); thorough is complete (exhaustive:true unless the safety-net budget fires). '
            'Inside the SYS class (2^19 words) only totality is judged; register/immediate operands other than PC-relative displacements are not compared '
            '(the statement names decodability, opcode and PC-relative displacement only)',
    'jobs': [{'bin': 'c17', 'shards': 16, 'budget': {'quick': 900, 'thorough': 7200},
              'env': {'GODEBUG': 'clobberfree=0'}}],
    'rule': 'engine E. thorough: words 0..2^32-1 in 65536 blocks of 2^16, block b run by shard b mod 16. '
            'quick: all w with w mod 257 == VERIF_SEED mod 257 (16.7e6 words), plus B.cond (imm19 full x cond{EQ,NE,AL,NV} and o0=1), '
            'CBZ/CBNZ (imm19 full x (sf,Rt) in {(0,0),(1,1),(0,30),(1,31)}), LDR-literal family (imm19 full x all 8 (opc,V)), '
            'TBZ/TBNZ (imm14 full x (b5,b40,Rt) in 4 settings), B/BL (imm26) and ADR/ADRP (imm21, Rd in {0,31}) with the immediate strided by 2^7 '
            'plus 0..64, -64..-1 and +-64 around the sign boundary; plus system-space = all w with w>>22 == 0x354; plus field-boundary-patterns = (bits 31..21 in 0..2047) x (21-bit values with <= 4 runs of equal bits, 2702 of them); words already covered by an earlier class are not run twice (membership predicates, so the distinct counts are exact). '
            'evaluations = words compared with the reference (outside the SYS class); unjudged = words inside the SYS class (totality only); '
            'states = distinct words run; transitions = calls of goom Decode + Inst.String; '
            'distinct_nontrivial = distinct words goom decoded successfully (each also printed).',
    'assumptions': ['the reference is the Go 1.23 toolchain copy of golang.org/x/arch/arm64/arm64asm, vendored unchanged in harness/ref/arm64asm',
                    'the excluded SYS class is the constant w & 0xFFF80000 == 0xD5080000 frozen in harness/c17/c17.go (goom stubs the system-instruction alias table); '
                    'it was fixed after a complete 2^32 run showed 0 disagreements outside it (none in the SYSL half 0xD5280000) and 2927 inside it, all of them DC (896) / TLBI (2031) words that goom leaves undecoded',
                    'operands other than PC-relative displacements are not compared'],
}
