"""Generates, at check time, copies of goom's synchronising files from the tree under test in which
only the import paths of sync, sync/atomic and syscall are replaced by the scheduler shims.
A file whose expected import is missing is a harness error (never a silent pass)."""
import os, re, sys

SYNC = 'github.com/tencent/goom/zzverif/vsync'
ATOMIC = 'github.com/tencent/goom/zzverif/vatomic'
SYS = 'github.com/tencent/goom/zzverif/vsys'

# file -> set of imports that must be rewritten there
FILES = {
    'matcher.go': ['sync/atomic'],
    'internal/patch/patch.go': ['sync'],
    'internal/bytecode/func.go': ['sync'],
    'internal/bytecode/memory/memory.go': ['sync', 'syscall'],
    'internal/bytecode/memory/mwrite_amd64.go': ['syscall'],
    'internal/bytecode/memory/mwrite_unix.go': ['syscall'],
    'internal/bytecode/memory/mwrite_prot.go': ['syscall'],
    'internal/unexports2/unexports2.go': ['sync'],
    'internal/bytecode/stub/holder.go': ['sync/atomic'],
    'internal/bytecode/stub/mmap_unix.go': ['syscall'],
}
REPL = {'sync': 'sync "%s"' % SYNC, 'sync/atomic': 'atomic "%s"' % ATOMIC, 'syscall': 'syscall "%s"' % SYS}


def rewrite(src, wanted, path):
    done = set()
    out = []
    for line in src.split('\n'):
        m = re.match(r'^(\s*)(import\s+)?"(sync|sync/atomic|syscall)"\s*$', line)
        if m and m.group(3) in REPL:
            out.append('%s%s%s' % (m.group(1), m.group(2) or '', REPL[m.group(3)]))
            done.add(m.group(3))
        else:
            out.append(line)
    missing = [w for w in wanted if w not in done]
    return '\n'.join(out), missing


SCHED = 'github.com/tencent/goom/zzverif/sched'


def mempoints(src, rel):
    """The "code reads are visible operations" variant: every exported function of the memory package (the only
    door to the program's own code bytes) gets a scheduling point on entry and another one on return, so that the
    explorer can switch threads between a read of code bytes and their use. PageStart (address arithmetic) is left out."""
    out, n = [], 0
    for line in src.split('\n'):
        out.append(line)
        m = re.match(r'^func ([A-Z]\w*)\(.*\{\s*$', line)
        if m and m.group(1) != 'PageStart':
            out.append('\tvsched.Point("memory.%s", nil)' % m.group(1))
            out.append('\tdefer vsched.Point("memory.%s returns", nil)' % m.group(1))
            n += 1
    if not n:
        return src
    new = '\n'.join(out)
    if 'import (' in new:
        new = new.replace('import (', 'import (\n\tvsched "%s"' % SCHED, 1)
    else:
        new = re.sub(r'^(package \w+\s*)$', r'\1\nimport vsched "%s"\n' % SCHED, new, count=1, flags=re.M)
    return new


def generate(builddir, repo='/repo', mem=False):
    outdir = os.path.join(builddir, 'shim-mem' if mem else 'shim')
    rep = {}
    # every non-test go file of the module that imports sync or sync/atomic gets the shim too
    extra = {}
    for root, dirs, files in os.walk(repo):
        dirs[:] = [d for d in dirs if d not in ('.git', 'test', 'tool', 'zzverif')]
        for f in files:
            if not f.endswith('.go') or f.endswith('_test.go'):
                continue
            rel = os.path.relpath(os.path.join(root, f), repo)
            if rel in FILES or rel.startswith('internal/arch/') or rel.startswith('internal/logger/'):
                continue
            if re.search(r'_(windows|darwin|arm64|386)\.go$', f):
                continue
            src = open(os.path.join(root, f), encoding='utf8').read()
            if re.search(r'^\s*(import\s+)?"(sync|sync/atomic)"\s*$', src, re.M) or mem and rel.startswith('internal/bytecode/memory/'):
                extra[rel] = []
    for rel, wanted in list(FILES.items()) + list(extra.items()):
        p = os.path.join(repo, rel)
        if not os.path.exists(p):
            sys.stderr.write('HARNESS-ERROR: shimgen: %s does not exist\n' % p)
            sys.exit(2)
        src = open(p, encoding='utf8').read()
        new, missing = rewrite(src, wanted, rel)
        # a file from FILES that no longer imports the package is fine only if it no longer uses it
        for w in missing:
            pkg = {'sync': 'sync.', 'sync/atomic': 'atomic.', 'syscall': 'syscall.'}[w]
            if pkg in src:
                sys.stderr.write('HARNESS-ERROR: shimgen: %s uses %s but its import could not be rewritten\n' % (rel, w))
                sys.exit(2)
        if mem and rel.startswith('internal/bytecode/memory/'):
            new = mempoints(new, rel)
        dst = os.path.join(outdir, rel)
        os.makedirs(os.path.dirname(dst), exist_ok=True)
        tmp = dst + '.%d.tmp' % os.getpid()
        open(tmp, 'w', encoding='utf8').write(new)
        os.replace(tmp, dst)
        rep[p] = dst
    return rep
