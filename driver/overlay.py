"""Overlay generation: binds the harness to /repo's *current* working tree without writing there.

plain : virtual packages github.com/tencent/goom/zzverif/<name> (one per directory under
        harness/bridge/) + in-package export files (harness/inpkg/<dir with __ for />/<x>.go is
        presented as /repo/<dir>/zz_verif_<x>.go).
shim  : plain + copies of the synchronising files, regenerated from the working tree at every
        check, whose only difference is the import path of sync / sync/atomic / syscall.
"""
import os, json, glob

VERIF = os.path.dirname(os.path.dirname(os.path.abspath(__file__)))
REPO = '/repo'
H = os.path.join(VERIF, 'harness')


def _bridge():
    m = {}
    for f in sorted(glob.glob(os.path.join(H, 'bridge', '*', '*.go')) + glob.glob(os.path.join(H, 'bridge', '*', '*.s'))):
        rel = os.path.relpath(f, os.path.join(H, 'bridge'))
        m[os.path.join('zzverif', rel)] = f
    return m


def bridges_of(pkg):
    """Names of the zzverif bridge packages in the import closure of harness package pkg ('./cmd/c02')."""
    import re
    seen, todo, out = set(), [os.path.normpath(os.path.join(H, pkg))], set()
    while todo:
        d = todo.pop()
        if d in seen or not os.path.isdir(d):
            continue
        seen.add(d)
        for f in glob.glob(os.path.join(d, '*.go')):
            if f.endswith('_test.go'):
                continue
            for imp in re.findall(r'"((?:verifh|github\.com/tencent/goom/zzverif)/[^"]+)"', open(f).read()):
                if imp.startswith('verifh/'):
                    todo.append(os.path.join(H, imp[len('verifh/'):]))
                else:
                    name = imp.split('/zzverif/')[1].split('/')[0]
                    out.add(name)
                    todo.append(os.path.join(H, 'bridge', name))
    return out


def _inpkg(only=None):
    m = {}
    for d in sorted(glob.glob(os.path.join(H, 'inpkg', '*'))):
        if not os.path.isdir(d):
            continue
        rel = os.path.basename(d).replace('__', '/')
        if rel == 'ROOT':
            rel = ''
        for f in sorted(glob.glob(os.path.join(d, '*.go'))):
            name = os.path.basename(f)[:-3]
            if only is not None and name != 'base' and name not in only:
                continue  # in-package exports of a bridge this binary does not import: keep its build independent of them
            m[os.path.join(rel, 'zz_verif_' + os.path.basename(f))] = f
    return m


def generate(kind, builddir, repo=REPO, pkg=None):
    rep = {}
    only = bridges_of(pkg) if pkg else None
    for k, v in list(_bridge().items()) + list(_inpkg(only).items()):
        rep[os.path.join(repo, k)] = v
    if kind in ('shim', 'shimmem'):
        import shimgen
        rep.update(shimgen.generate(builddir, repo, mem=(kind == 'shimmem')))
    path = os.path.join(builddir, 'overlay-%s%s.json' % (kind, '-' + os.path.basename(pkg) if pkg else ''))
    tmp = path + '.%d.tmp' % os.getpid()
    json.dump({'Replace': rep}, open(tmp, 'w'), indent=1)
    os.replace(tmp, path)
    return path
