"""Overlay generation: binds the harness to /repo's *current* working tree without writing there.

plain : virtual packages github.com/tencent/goom/zzverif/<name> (one per directory under
        harness/bridge/) + in-package export files (harness/inpkg/<dir with __ for />/<x>.go is
        presented as /repo/<dir>/zz_verif_<x>.go).
shim  : plain + copies of the synchronising files, regenerated from the working tree at every
        check, whose only difference is the import path of sync / sync/atomic / syscall.
"""
import os, json, glob

VERIF = os.path.dirname(os.path.dirname(os.path.abspath(__file__)))
REPO = '/repo'
H = os.path.join(VERIF, 'harness')


def _bridge():
    m = {}
    for f in sorted(glob.glob(os.path.join(H, 'bridge', '*', '*.go')) + glob.glob(os.path.join(H, 'bridge', '*', '*.s'))):
        rel = os.path.relpath(f, os.path.join(H, 'bridge'))
        m[os.path.join('zzverif', rel)] = f
    return m


def _inpkg():
    m = {}
    for d in sorted(glob.glob(os.path.join(H, 'inpkg', '*'))):
        if not os.path.isdir(d):
            continue
        rel = os.path.basename(d).replace('__', '/')
        if rel == 'ROOT':
            rel = ''
        for f in sorted(glob.glob(os.path.join(d, '*.go'))):
            m[os.path.join(rel, 'zz_verif_' + os.path.basename(f))] = f
    return m


def generate(kind, builddir, repo=REPO):
    rep = {}
    for k, v in list(_bridge().items()) + list(_inpkg().items()):
        rep[os.path.join(repo, k)] = v
    if kind == 'shim':
        import shimgen
        rep.update(shimgen.generate(builddir, repo))
    path = os.path.join(builddir, 'overlay-%s.json' % kind)
    tmp = path + '.%d.tmp' % os.getpid()
    json.dump({'Replace': rep}, open(tmp, 'w'), indent=1)
    os.replace(tmp, path)
    return path
