"""Overlay generation: binds the harness to /repo's *current* working tree without writing there.

plain : virtual package github.com/tencent/goom/zzverif (bridge) + in-package export files.
shim  : plain + copies of the synchronising files, regenerated from the working tree at every
        check, whose only difference is the import path of sync / sync/atomic / syscall.
"""
import os, json, subprocess, glob

VERIF = os.path.dirname(os.path.dirname(os.path.abspath(__file__)))
REPO = '/repo'
H = os.path.join(VERIF, 'harness')

# virtual files: path inside /repo -> file under /verif/harness
PLAIN = {
    'zzverif/bridge.go': 'bridge/bridge.go',
}


def _inpkg():
    """in-package export files: harness/inpkg/<dir with __ for />/<name>.go -> /repo/<dir>/zz_verif_<name>.go"""
    m = {}
    for d in sorted(glob.glob(os.path.join(H, 'inpkg', '*'))):
        if not os.path.isdir(d):
            continue
        rel = os.path.basename(d).replace('__', '/')
        if rel == 'ROOT':
            rel = ''
        for f in sorted(glob.glob(os.path.join(d, '*.go'))):
            m[os.path.join(rel, 'zz_verif_' + os.path.basename(f))] = os.path.relpath(f, H)
    return m


def generate(kind, builddir):
    rep = {}
    for k, v in list(PLAIN.items()) + list(_inpkg().items()):
        rep[os.path.join(REPO, k)] = os.path.join(H, v)
    if kind == 'shim':
        import shimgen
        rep.update(shimgen.generate(builddir))
    path = os.path.join(builddir, 'overlay-%s.json' % kind)
    json.dump({'Replace': rep}, open(path, 'w'), indent=1)
    return path
