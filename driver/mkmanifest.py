#!/usr/bin/env python3
"""Regenerates /verif/MANIFEST.json from driver/props.py (single source of truth)."""
import os, sys, json
VERIF = os.path.dirname(os.path.dirname(os.path.abspath(__file__)))
sys.path.insert(0, os.path.join(VERIF, 'driver'))
import props as P

ALL = ['C%02d' % i for i in range(1, 21)]
CLAIMED = [l.strip() for l in open(os.path.join(VERIF, 'driver', 'claimed.txt')) if l.strip() and not l.startswith('#')]
checks, na = [], []
for pid in ALL:
    if pid in P.PROPS and pid in CLAIMED:
        s = P.PROPS[pid]
        checks.append({
            'property_id': pid,
            'quick_cmd': 'bin/vcheck %s quick' % pid,
            'thorough_cmd': 'bin/vcheck %s thorough' % pid,
            'evidence_file': '/verif/evidence/%s.json' % pid,
            'replay_cmd_template': 'bin/vcheck %s --replay {path}' % pid,
            'engine': s.get('engine', 'H'),
            'level_claimed': {'category': s['level'], 'text': s['claim'], 'design_ref': 'DESIGN.md §4 ' + pid},
            'level_note': s['note'],
            'technique': s['technique'],
        })
    else:
        na.append({'property_id': pid, 'reason': P.NOT_YET.get(pid, 'check not built yet in this revision of /verif (planned, see DESIGN.md §4); not claimed until it runs green')})
m = {
    'version': 1,
    'setup_cmd': 'bin/vcheck --build',
    'hooks': {
        'guard': 'verif',
        'enable': 'no source hooks: checks build /repo\'s working tree with `go build -overlay` (virtual bridge package, in-package export files, import-rewritten copies of the synchronising files generated at check time); the tag name is unused inside /repo',
        'baseline_off_cmd': 'cd /repo && GOFLAGS=-mod=mod GOPROXY=off GOSUMDB=off GOTOOLCHAIN=local go test -mod=mod -json -vet=off -count=1 -timeout 25m ./...',
        'source_commits': [],
        'add_only': True,
    },
    'engines': P.ENGINES,
    'checks': checks,
    'not_applicable': na,
    'notes': 'All checks are bin/vcheck <id> <tier>; evidence is written by the driver from worker counters. known_findings.txt lists known findings and fixed defects.',
}
json.dump(m, open(os.path.join(VERIF, 'MANIFEST.json'), 'w'), indent=1)
print('MANIFEST.json: %d checks, %d not claimed' % (len(checks), len(na)))
