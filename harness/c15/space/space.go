// Package space defines the finite input spaces of property C15. It is shared by the amd64
// worker (verifh/c15) and the foreign-architecture worker (verifh/c15arm), so that both
// enumerate exactly the same destinations in the same order. It has no dependency on goom.
package space

// Backgrounds are the bit patterns into which a lane value is inserted. Every byte of the
// third and fourth pattern is distinct, so a byte or lane that is emitted from the wrong
// source position is visible whichever lane is being swept.
var Backgrounds = []uint64{
	0x0000000000000000,
	0xffffffffffffffff,
	0x0123456789abcdef,
	0xfedcba9876543210,
}

// ThoroughBackgrounds are added in the thorough tier.
var ThoroughBackgrounds = []uint64{
	0x5555555555555555,
	0xaaaaaaaaaaaaaaaa,
	0x00007fffffffffff, // top of the amd64 user address space
	0x000000c000000000, // Go heap arena base on linux/amd64 and linux/arm64
}

// Boundary are the 16-bit lane values used for lane pairs (and quadruples in the thorough tier).
var Boundary = []uint64{0, 1, 0x7fff, 0x8000, 0xffff}

// Sub-space names.
const (
	Byte   = "byte-lane"   // one byte lane swept over all 256 values
	Pair   = "lane-pair"   // two 16-bit lanes at boundary values
	Quad   = "lane-quad"   // all four 16-bit lanes at boundary values (thorough only)
	Lane16 = "lane16"      // one 16-bit lane swept over all 65 536 values
)

func bgs(thorough bool) []uint64 {
	if !thorough {
		return Backgrounds
	}
	return append(append([]uint64(nil), Backgrounds...), ThoroughBackgrounds...)
}

// Addresses yields every destination of sub-space (a), simplest sub-space first, in a fixed
// order; yield returns false to stop. The same address may be produced more than once (every
// byte-lane case is also a 16-bit-lane case); Seen tells first occurrences apart.
func Addresses(thorough bool, yield func(sub string, addr uint64) bool) {
	B := bgs(thorough)
	// per byte lane: all 256 values x 8 lanes x backgrounds
	for _, bg := range B {
		for lane := uint(0); lane < 8; lane++ {
			for v := uint64(0); v < 256; v++ {
				if !yield(Byte, bg&^(0xff<<(8*lane))|v<<(8*lane)) {
					return
				}
			}
		}
	}
	// all pairs of 16-bit lanes at boundary values x backgrounds
	for _, bg := range B {
		for l1 := uint(0); l1 < 4; l1++ {
			for l2 := l1 + 1; l2 < 4; l2++ {
				for _, a := range Boundary {
					for _, b := range Boundary {
						x := bg &^ (0xffff << (16 * l1)) &^ (0xffff << (16 * l2))
						if !yield(Pair, x|a<<(16*l1)|b<<(16*l2)) {
							return
						}
					}
				}
			}
		}
	}
	if thorough {
		for _, a := range Boundary {
			for _, b := range Boundary {
				for _, c := range Boundary {
					for _, d := range Boundary {
						if !yield(Quad, a|b<<16|c<<32|d<<48) {
							return
						}
					}
				}
			}
		}
	}
	// per 16-bit lane: all 65 536 values x 4 lanes x backgrounds
	for _, bg := range B {
		for lane := uint(0); lane < 4; lane++ {
			for v := uint64(0); v < 65536; v++ {
				if !yield(Lane16, bg&^(0xffff<<(16*lane))|v<<(16*lane)) {
					return
				}
			}
		}
	}
}

// Seen records which inputs have been produced already; every shard enumerates the whole space
// and therefore computes the same first occurrences, which makes the per-shard counts of
// distinct inputs add up exactly.
type Seen map[uint64]struct{}

// First reports whether a has not been seen before, and records it.
func (s Seen) First(a uint64) bool {
	if _, ok := s[a]; ok {
		return false
	}
	s[a] = struct{}{}
	return true
}

// FromBases are the source addresses at which the +-2 GiB decision band is enumerated
// (sub-spaces (b) and (c)); from is the base itself, so all (from,to) pairs are distinct.
var FromBases = []uint64{
	0x000000c000100000, // Go heap / stub area (first: representative of a failing delta class)
	0x00007f00deadb000, // mmap area at the top of the user address space
	0x0000000000401000, // start of a typical text segment
	0x8000000000000000, // sign boundary of the address
	0x0000000000000040, // near 0: to = from - delta wraps below zero
	0xffffffffffffffc0, // near 2^64: to = from - delta wraps above 2^64
}

// ThoroughFromBases are added in the thorough tier.
var ThoroughFromBases = []uint64{
	0x0000000000000000,
	0x000000007fffffff,
	0x0000000080000000,
	0x00000000ffffffff,
	0x0000000100000000,
	0x7fffffffffffffff,
}

// Bases returns the from bases of a tier.
func Bases(thorough bool) []uint64 {
	if !thorough {
		return FromBases
	}
	return append(append([]uint64(nil), FromBases...), ThoroughFromBases...)
}

// BandWidth is the half width of each of the three delta bands.
func BandWidth(thorough bool) int64 {
	if thorough {
		return 65536
	}
	return 64
}

// Deltas yields every delta = from - to of the three bands around -2^31, 0 and 2^31,
// smallest |delta| first within the centre band, in a fixed order; then the bands around the
// other places where 64-bit distance arithmetic changes its answer: +-2^32 (a distance whose
// low 32 bits look like a short one) and the wrap-around of the signed distance at 2^63.
func Deltas(w int64, yield func(delta int64) bool) {
	for _, centre := range []int64{0, 1 << 31, -(1 << 31), 1 << 32, -(1 << 32), -1 << 63} {
		for d := -w; d <= w; d++ {
			if !yield(centre + d) {
				return
			}
		}
	}
}

// MinimiseAddr shrinks a failing address to a canonical minimal one: bits are cleared (most
// significant first) and set bits are moved to lower positions as long as fails still holds,
// to a fixed point. The value decreases strictly, so this terminates; fails(a) must hold on entry.
func MinimiseAddr(a uint64, fails func(uint64) bool) uint64 {
	for changed := true; changed; {
		changed = false
		for b := 63; b >= 0; b-- {
			if a&(1<<uint(b)) != 0 && fails(a&^(1<<uint(b))) {
				a &^= 1 << uint(b)
				changed = true
			}
		}
	move:
		for b := 63; b > 0; b-- {
			if a&(1<<uint(b)) == 0 {
				continue
			}
			for l := 0; l < b; l++ {
				if a&(1<<uint(l)) == 0 && fails(a&^(1<<uint(b))|1<<uint(l)) {
					a = a&^(1<<uint(b)) | 1<<uint(l)
					changed = true
					break move
				}
			}
		}
	}
	return a
}
