package c15

// Sub-check "guards" (engine H): the divert sequence as it is *installed*. The lane sweep of c15.go
// judges what the emitters return for one request at a time; here the requests of several
// functions overlap in time. Every history of patch-handle operations
//
//	New(i)      patch.Patch(Ti, Ri): a guard for diverting target i to replacement i (nothing written yet)
//	Apply(i)    Guard.Apply: write the divert sequence
//	Unpatch(i)  Guard.UnpatchWithLock: put the original bytes back (the "call the original" idiom)
//	Restore(i)  Guard.Restore: write the divert sequence again
//
// over 2 (thorough: 3) targets, up to the depth bound, is replayed on the real code from a pristine
// image; after every step and for every target the bytes at its entry are read back, decoded by
// the reference decoder and executed by the micro-interpreter: a diverted target must leave
// RDX == address of Ri's function value and branch through that cell (and calling Ti really
// answers as Ri), a target that is not diverted must show its pristine bytes (and answer as Ti).

import (
	"bytes"
	"fmt"
	"strings"
	"unsafe"

	zz "github.com/tencent/goom/zzverif/c14"
	"verifh/c15/x86sim"
	"verifh/vk"
)

//go:noinline
func gT0(a int) int { return gpad(a, 1) + 100 }

//go:noinline
func gT1(a int) int { return gpad(a, 2) + 200 }

//go:noinline
func gT2(a int) int { return gpad(a, 3) + 300 }

//go:noinline
func gR0(a int) int { return gpad(a, 4) + 1000 }

//go:noinline
func gR1(a int) int { return gpad(a, 5) + 2000 }

//go:noinline
func gR2(a int) int { return gpad(a, 6) + 3000 }

var gsink [8]int

//go:noinline
func gpad(a, k int) int {
	gsink[k&7] += a
	return a * k
}

type gTarget struct {
	name        string
	t, r        func(int) int
	entry       uintptr
	cell        uintptr // address of the replacement's function value: what the divert sequence must load
	pristine    []byte
	wantT, wantR int
}

const gJump = 13

func funcvalAddr(f *func(int) int) uintptr { return *(*uintptr)(unsafe.Pointer(f)) }

func gTargets() []*gTarget {
	ts := []*gTarget{{name: "T0", t: gT0, r: gR0}, {name: "T1", t: gT1, r: gR1}, {name: "T2", t: gT2, r: gR2}}
	for _, g := range ts {
		g.entry = *(*uintptr)(unsafe.Pointer(funcvalAddr(&g.t)))
		g.cell = funcvalAddr(&g.r)
		g.pristine = vk.Copy(g.entry, gJump)
		g.wantT, g.wantR = g.t(7), g.r(7)
	}
	return ts
}

// GuardCase is the replay artefact.
type GuardCase struct {
	Sub     string   `json:"sub"`
	Targets int      `json:"targets"`
	Ops     []string `json:"ops"`
}

const (
	gNone = iota
	gCreated
	gApplied
	gUnpatched
)

var gOpNames = []string{"New", "Apply", "Unpatch", "Restore"}

// gEnabled is the model-side well-formedness filter.
func gEnabled(state int, op int) bool {
	switch op {
	case 0:
		return state == gNone
	case 1:
		return state == gCreated
	case 2:
		return state == gApplied
	case 3:
		return state == gUnpatched
	}
	return false
}

func gNext(op int) int { return []int{gCreated, gApplied, gUnpatched, gApplied}[op] }

// gRun replays one history from a pristine image; returns the failing step and a description.
func gRun(ts []*gTarget, img *vk.Image, ops [][2]int) (step int, class, desc string) {
	defer func() {
		vk.Try(func() { zz.UnpatchAll() })
		img.ForceRestore()
	}()
	guards := make([]*zz.Guard, len(ts))
	state := make([]int, len(ts))
	for si, o := range ops {
		op, i := o[0], o[1]
		msg, panicked := vk.Try(func() {
			switch op {
			case 0:
				g, err := zz.Patch(ts[i].t, ts[i].r)
				if err != nil {
					panic("patch.Patch: " + err.Error())
				}
				guards[i] = g
			case 1:
				guards[i].Apply()
			case 2:
				guards[i].UnpatchWithLock()
			case 3:
				guards[i].Restore()
			}
		})
		what := fmt.Sprintf("%s(%s)", gOpNames[op], ts[i].name)
		if panicked {
			return si, "panic", what + " panicked: " + vk.Short(msg, 120)
		}
		state[i] = gNext(op)
		for k, g := range ts {
			got := vk.Copy(g.entry, gJump)
			if state[k] != gApplied {
				if !bytes.Equal(got, g.pristine) {
					return si, "undiverted-bytes", fmt.Sprintf("after %s: %s is not diverted but its entry reads % x (pristine % x)", what, g.name, got, g.pristine)
				}
				if r := g.t(7); r != g.wantT {
					return si, "undiverted-call", fmt.Sprintf("after %s: %s is not diverted but %s(7) = %d, expected %d", what, g.name, g.name, r, g.wantT)
				}
				continue
			}
			o := x86sim.Run(got, uint64(g.entry), 64, false)
			if c, d := judgeAbs(&o, uint64(g.cell), true); c != "" {
				asm := x86sim.Run(got, uint64(g.entry), 64, true).Asm
				return si, "diverted-" + c, fmt.Sprintf("after %s: the sequence installed at %s (diverted to R%d, function value at cell C%d): %s [%s]", what, g.name, k, k, gCells(d, ts), gCells(strings.Join(asm, "; "), ts))
			}
			if r := g.t(7); r != g.wantR {
				return si, "diverted-call", fmt.Sprintf("after %s: %s is diverted to R%d but %s(7) = %d, expected %d", what, g.name, k, g.name, r, g.wantR)
			}
		}
	}
	return -1, "", ""
}

// gCells replaces the replacement cells' addresses by their names (addresses differ between builds).
func gCells(s string, ts []*gTarget) string {
	for k, g := range ts {
		s = strings.ReplaceAll(s, hex(uint64(g.cell)), fmt.Sprintf("C%d", k))
		s = strings.ReplaceAll(s, fmt.Sprintf("0x%x", g.cell), fmt.Sprintf("C%d", k))
	}
	return s
}

func runGuards(c *vk.Ctx) {
	all := gTargets()
	img := vk.Snapshot()
	if c.Replay != "" {
		var gc GuardCase
		c.LoadReplay(&gc)
		ts := all[:gc.Targets]
		var ops [][2]int
		for _, s := range gc.Ops {
			var name string
			var i int
			if _, err := fmt.Sscanf(strings.NewReplacer("(T", " ", ")", "").Replace(s), "%s %d", &name, &i); err != nil {
				vk.Fatalf("bad op %q", s)
			}
			for k, n := range gOpNames {
				if n == name {
					ops = append(ops, [2]int{k, i})
				}
			}
		}
		step, class, desc := gRun(ts, img, ops)
		fmt.Printf("replay guards %v\nresult: %s\n", gc.Ops, orOK(class, desc))
		if class != "" {
			c.Violate("replay", fmt.Sprintf("step %d: %s", step, desc), gc)
		}
		c.Finish()
		return
	}
	type cfg struct{ n, depth int }
	cfgs := []cfg{{2, 8}}
	if c.Thorough() {
		cfgs = []cfg{{2, 12}, {3, 11}}
	}
	var idx int64
	reported := map[string]bool{}
	for _, cf := range cfgs {
		ts := all[:cf.n]
		var rec func(ops [][2]int, state []int)
		rec = func(ops [][2]int, state []int) {
			if c.Full() || c.Expired() {
				return
			}
			extended := false
			if len(ops) < cf.depth {
				for i := 0; i < cf.n; i++ {
					for op := 0; op < 4; op++ {
						if !gEnabled(state[i], op) {
							continue
						}
						extended = true
						ns := append([]int{}, state...)
						ns[i] = gNext(op)
						rec(append(ops[:len(ops):len(ops)], [2]int{op, i}), ns)
					}
				}
			}
			if extended || len(ops) == 0 {
				return // every prefix is judged while its maximal extensions are replayed
			}
			mine := c.Mine(idx)
			idx++
			if !mine {
				return
			}
			names := make([]string, len(ops))
			for k, o := range ops {
				names[k] = fmt.Sprintf("%s(T%d)", gOpNames[o[0]], o[1])
			}
			c.Res.Evaluations++
			c.Res.Traces++
			c.Res.Transitions += int64(len(ops))
			c.Res.States += int64(len(ops))
			overlap := false
			// non-trivial: two guards exist before the first one is applied, or one is re-written after another was created
			seenNew := 0
			for _, o := range ops {
				if o[0] == 0 {
					seenNew++
				} else if seenNew >= 2 {
					overlap = true
				}
			}
			if overlap {
				c.Res.Nontrivial++
			}
			gc := GuardCase{"guards", cf.n, names}
			c.Sample(gc)
			step, class, desc := gRun(ts, img, ops)
			if class == "" {
				return
			}
			// 1-minimal prefix: the history up to the failing step
			gc.Ops = names[:step+1]
			key := fmt.Sprintf("guards targets=%d ops=%s class=%s", cf.n, strings.Join(gc.Ops, ","), class)
			if reported[key] {
				return
			}
			reported[key] = true
			c.Violate(key, desc, gc)
		}
		rec(nil, make([]int, cf.n))
	}
	c.Res.Extra["configs_targets_depth"] = fmt.Sprint(cfgs)
	c.Res.Extra["n_histories_this_shard_space"] = idx
	c.Finish()
}
