package c15

// Sub-check "stubs" (engine H over environment answers): the interface-method stub as it is *installed*.
// The lane sweep judges what the emitter iface.jmpWithRdx returns for a requested context; here the two makers
// iface.MakeMethodCaller / MakeMethodCallerWithCtx are called for real - acquiring the stub from the stub
// space and writing it there - under every pattern of the environment's answer to the executable mmap over a
// short history of requests (granted / refused: the stub then lies in the reserve inside the text segment,
// within rel32 reach of everything). The bytes found at the returned address are decoded by the reference
// decoder and executed by the micro-interpreter: at the branch RDX must hold the context and control must
// go to the code pointer stored in the context's first word, whichever form the maker chose.

import (
	"fmt"
	"strings"
	"unsafe"

	zz "github.com/tencent/goom/zzverif/c14"
	"github.com/tencent/goom/zzverif/vsys"
	"verifh/c15/x86sim"
	"verifh/vk"
)

// StubCase is the replay artefact.
type StubCase struct {
	Sub     string `json:"sub"`
	Pattern string `json:"mmap_answers"` // one letter per request: g = granted, r = refused
	Maker   string `json:"maker"`
}

// stubCells are fabricated function values (first word: code pointer); they stay reachable for ever.
var stubCells [][2]uintptr

func judgeStub(addr uintptr, ctx uintptr, code uintptr) (class, desc string) {
	got := vk.Copy(addr, 48)
	o := x86sim.Run(got, uint64(addr), 64, false)
	switch {
	case o.Err != "":
		class, desc = o.Err, o.Detail
	case !o.Known[x86sim.RDX] || o.Val[x86sim.RDX] != uint64(ctx):
		class, desc = "rdx!=ctx", fmt.Sprintf("RDX (context register) is %s at the branch, the context is at %s", hex(o.Val[x86sim.RDX]), hex(uint64(ctx)))
	case o.Kind == x86sim.Indirect && (o.Target != uint64(ctx) || o.CellBytes != 8):
		class, desc = "cell!=ctx", fmt.Sprintf("the branch goes through a %d-byte cell at %s, the context (whose first word is the code pointer) is at %s", o.CellBytes, hex(o.Target), hex(uint64(ctx)))
	case o.Kind == x86sim.Direct && o.Target != uint64(code):
		class, desc = "target!=code", fmt.Sprintf("the relative branch lands on %s, the context's code pointer is %s (off by %+d)", hex(o.Target), hex(uint64(code)), int64(o.Target)-int64(code))
	case o.Kind != x86sim.Indirect && o.Kind != x86sim.Direct:
		class, desc = "no-branch", "the stub does not end in a branch the interpreter can follow"
	}
	if class != "" {
		desc += fmt.Sprintf(" [stub at %s: %s]", hex(uint64(addr)), strings.Join(x86sim.Run(got, uint64(addr), 64, true).Asm, "; "))
	}
	return
}

func runStubs(c *vk.Ctx) {
	depth := 3
	if c.Thorough() {
		depth = 5
	}
	code := **(**uintptr)(unsafe.Pointer(&[]func(int) int{gR0}[0])) // entry of a real function: where the stubs lead
	replay := StubCase{}
	if c.Replay != "" {
		c.LoadReplay(&replay)
	}
	reported := map[string]bool{}
	var idx int64
	for _, maker := range []string{"MakeMethodCallerWithCtx", "MakeMethodCaller"} {
		for n := 1; n <= depth; n++ {
			for pat := 0; pat < 1<<uint(n); pat++ {
				letters := make([]byte, n)
				for k := range letters {
					letters[k] = "gr"[pat>>uint(k)&1]
				}
				cs := StubCase{"stubs", string(letters), maker}
				if c.Replay != "" {
					if replay.Pattern != cs.Pattern || replay.Maker != maker {
						continue
					}
				} else {
					mine := c.Mine(idx)
					idx++
					if !mine || c.Full() || c.Expired() {
						continue
					}
				}
				c.Res.Evaluations++
				c.Res.Traces++
				if pat != 0 {
					c.Res.Nontrivial++
				}
				c.Sample(cs)
				for k := 0; k < n; k++ {
					refused := letters[k] == 'r'
					vsys.MmapFail = func(int) bool { return refused }
					stubCells = append(stubCells, [2]uintptr{code, 0})
					ctx := unsafe.Pointer(&stubCells[len(stubCells)-1])
					var addr uintptr
					var err error
					msg, p := vk.Try(func() {
						if maker == "MakeMethodCaller" {
							addr, err = zz.MakeMethodCaller(ctx)
						} else {
							addr, err = zz.MakeMethodCallerWithCtx(ctx, code)
						}
					})
					vsys.MmapFail = nil
					c.Res.Transitions++
					c.Res.States++
					if p || err != nil {
						// (running out of stub space is C20's subject; nothing to judge here)
						c.Res.Unjudged++
						_ = msg
						continue
					}
					class, desc := judgeStub(addr, uintptr(ctx), code)
					if class == "" {
						continue
					}
					key := fmt.Sprintf("stubs maker=%s mmap=%s class=%s", maker, map[bool]string{true: "refused", false: "granted"}[refused], class)
					if c.Replay != "" {
						key = "replay"
					}
					if !reported[key] {
						reported[key] = true
						c.Violate(key, fmt.Sprintf("request %d of the history %s (g = executable mmap granted, r = refused): %s", k, cs.Pattern, desc), StubCase{"stubs", string(letters[:k+1]), maker})
					}
				}
			}
		}
	}
	if c.Replay != "" {
		fmt.Printf("replay stubs %+v: %d violation(s)\n", replay, len(reported))
	}
	c.Finish()
}
