// Package c15 — emitted jump sequences land exactly on the requested address (amd64 part).
//
// Engine E: the real emitters (internal/patch jmpToFunctionValue, jmpToOriginFunctionValue,
// relative; internal/iface jmpWithRdx) are called on every element of three finite spaces and
// the emitted bytes are executed by a micro-interpreter over the reference decoder:
//
//	(a) every destination of the lane space (verifh/c15/space: byte lanes, lane pairs,
//	    16-bit lanes x backgrounds) for the three absolute-form emitters;
//	(b) jmpToOriginFunctionValue(from,to) for every delta=from-to in three bands around
//	    -2^31, 0, 2^31 at every from base;
//	(c) relative(from,to) on the same band.
//
// Oracle (only what the statement decides): absolute form => RDX == to (64 bits), the branch
// goes through the 8-byte cell at address to, nothing but RDX is written, and the divert
// sequence starts with the one-byte NOP that marks a patched function; relative form =>
// from+5+sext(rel32) == to (mod 2^64) and no register is written; relative()==true => some
// rel32 reaches to from a 5-byte jmp at from.
package c15

import (
	"fmt"
	"strconv"
	"strings"

	em "github.com/tencent/goom/zzverif/c15"
	"verifh/c15/space"
	"verifh/c15/x86sim"
	"verifh/vk"
)

// Case is the replayable artefact.
type Case struct {
	Arch    string `json:"arch"`
	Emitter string `json:"emitter"`
	From    string `json:"from"`
	To      string `json:"to"`
}

// Emitter names.
const (
	EDivert = "patch.jmpToFunctionValue"
	EStub   = "iface.jmpWithRdx"
	EReturn = "patch.jmpToOriginFunctionValue"
	ERel    = "patch.relative"
)

// farFrom is the source address used for the return emitter in space (a): 2^62 away from the
// destination, so that the absolute form is the only one that can reach.
func farFrom(to uint64) uint64 { return to + 1<<62 }

func hex(x uint64) string { return fmt.Sprintf("0x%016x", x) }

// shex renders a signed quantity as [-]0x….
func shex(d int64) string {
	if d < 0 {
		return "-0x" + strconv.FormatUint(uint64(-d), 16)
	}
	return "0x" + strconv.FormatUint(uint64(d), 16)
}

// off renders landed-to as "to+2^32", "to-0x5", ….
func off(landed, to uint64) string {
	d := int64(landed - to)
	sign, m := "+", uint64(d)
	if d < 0 {
		sign, m = "-", uint64(-d)
	}
	if m&(m-1) == 0 && m >= 1<<16 {
		n := 0
		for m>>uint(n) != 1 {
			n++
		}
		return fmt.Sprintf("to%s2^%d", sign, n)
	}
	return fmt.Sprintf("to%s0x%x", sign, m)
}

// judgeAbs judges the absolute form.
func judgeAbs(o *x86sim.Outcome, to uint64, wantNop bool) (class, desc string) {
	switch {
	case o.Err != "":
		return o.Err, o.Detail
	case wantNop && !o.FirstNop:
		return "nop-missing", "the divert sequence does not start with the one-byte NOP that marks a patched function"
	case o.Kind != x86sim.Indirect:
		return "not-indirect", "the sequence does not branch through a memory cell (closure call convention: jmp [rdx])"
	case !o.Known[x86sim.RDX] || o.Val[x86sim.RDX] != to:
		if !o.Known[x86sim.RDX] {
			return "rdx!=to", "RDX (context register) is never loaded"
		}
		return "rdx!=to", fmt.Sprintf("RDX (context register) = %s at the branch, requested %s", hex(o.Val[x86sim.RDX]), hex(to))
	case o.Target != to:
		return "cell!=to", fmt.Sprintf("the branch goes through the cell at %s, requested %s", hex(o.Target), hex(to))
	case o.CellBytes != 8:
		return "cell-width", fmt.Sprintf("the branch reads a %d-byte cell, a code pointer has 8", o.CellBytes)
	case o.Written&^(1<<x86sim.RDX) != 0:
		w := strings.Join(x86sim.WrittenNames(o.Written&^(1<<x86sim.RDX)), ",")
		return "clobbers-" + w, "registers other than RDX are written: " + w
	}
	return "", ""
}

// judgeRel judges the relative form.
func judgeRel(o *x86sim.Outcome, to uint64) (class, desc string) {
	switch {
	case o.Target != to:
		return "lands=" + off(o.Target, to), fmt.Sprintf("the rel32 jump lands on %s, requested %s", hex(o.Target), hex(to))
	case o.Written != 0:
		w := strings.Join(x86sim.WrittenNames(o.Written), ",")
		return "clobbers-" + w, "the relative return form writes registers: " + w
	}
	return "", ""
}

type verdict struct {
	class, desc string
	relForm     bool // the relative form was emitted
	reached     bool // the interpreter reached a control transfer
	asm         []string
	code        []byte
}

// eval runs one emitter on (from,to) and judges the result. A panic of the emitter is a verdict.
func eval(emitter string, from, to uint64) (v verdict) {
	var code []byte
	var rel bool
	msg, panicked := vk.Try(func() {
		switch emitter {
		case EDivert:
			code = em.JmpToFunctionValue(uintptr(from), uintptr(to))
		case EStub:
			code = em.JmpWithRdx(uintptr(to))
		case EReturn:
			code = em.JmpToOriginFunctionValue(uintptr(from), uintptr(to))
		case ERel:
			rel = em.Relative(uintptr(from), uintptr(to))
		default:
			vk.Fatalf("unknown emitter %q", emitter)
		}
	})
	if panicked {
		v.class, v.desc = "panic", "the emitter panicked: "+vk.Short(msg, 120)
		return
	}
	if emitter == ERel {
		need := int64(to - from - 5) // displacement a 5-byte jmp at from needs (mod 2^64)
		reachable := need >= -(1<<31) && need <= 1<<31-1
		v.relForm, v.reached = rel, true
		if rel && !reachable {
			v.class = "accepts-unreachable-below" // the displacement needed is below -2^31 …
			if need > 0 {
				v.class = "accepts-unreachable-above" // … or above 2^31-1
			}
			v.desc = fmt.Sprintf("relative(from=%s,to=%s) = true, but a 5-byte jmp at from needs the displacement %s, which is not a rel32", hex(from), hex(to), shex(need))
		}
		return
	}
	v.code = code
	o := x86sim.Run(code, from, 64, false)
	v.reached = o.Err == ""
	switch {
	case emitter == EReturn && o.Err == "" && o.Kind == x86sim.Direct:
		v.relForm = true
		v.class, v.desc = judgeRel(&o, to)
	default:
		v.class, v.desc = judgeAbs(&o, to, emitter == EDivert)
		if v.class == "" && emitter == EDivert && !em.CheckAlreadyPatch(code) {
			v.class, v.desc = "nop-missing", "checkAlreadyPatch does not recognise the emitted divert sequence"
		}
	}
	if v.class != "" {
		v.asm = x86sim.Run(code, from, 64, true).Asm
		v.desc += fmt.Sprintf(" [bytes % x | %s]", code, strings.Join(v.asm, "; "))
	}
	return
}

// minimiseTo shrinks a failing destination to the canonical minimal destination on which the
// emitter fails in the same class.
func minimiseTo(emitter string, to uint64, class string) uint64 {
	fails := func(t uint64) bool { return eval(emitter, farFrom(t), t).class == class }
	return space.MinimiseAddr(to, fails)
}

func abs64(d int64) uint64 {
	if d < 0 {
		return uint64(-d)
	}
	return uint64(d)
}

// bandClass re-enumerates the whole band for one failure class: the canonical representative is
// the failing delta of smallest magnitude (positive first) at the first from base where it fails.
func bandClass(emitter string, thorough bool, class string) (from uint64, delta int64, n int, lo, hi int64) {
	found := false
	bases := space.Bases(thorough)
	space.Deltas(space.BandWidth(thorough), func(d int64) bool {
		for _, b := range bases {
			if eval(emitter, b, b-uint64(d)).class != class {
				continue
			}
			if n == 0 || d < lo {
				lo = d
			}
			if n == 0 || d > hi {
				hi = d
			}
			n++
			if !found || abs64(d) < abs64(delta) || abs64(d) == abs64(delta) && d > delta {
				found, from, delta = true, b, d
			}
			break
		}
		return true
	})
	return
}

func bandKey(emitter, class string, delta int64) string {
	switch {
	case emitter == ERel:
		return fmt.Sprintf("amd64 %s delta=from-to=%s class=%s", ERel, shex(delta), class)
	case strings.HasPrefix(class, "lands="):
		return fmt.Sprintf("amd64 relative-form delta=from-to=%s %s", shex(delta), class)
	}
	return fmt.Sprintf("amd64 %s delta=from-to=%s class=%s", EReturn, shex(delta), class)
}

// Run is the worker entry point.
func Run(c *vk.Ctx) {
	if c.Sub == "guards" {
		runGuards(c)
		return
	}
	if c.Sub == "stubs" {
		runStubs(c)
		return
	}
	if c.Replay != "" {
		var cs Case
		c.LoadReplay(&cs)
		from, e1 := strconv.ParseUint(cs.From, 0, 64)
		to, e2 := strconv.ParseUint(cs.To, 0, 64)
		if e1 != nil || e2 != nil || cs.Arch != "amd64" {
			vk.Fatalf("bad replay case %+v", cs)
		}
		v := eval(cs.Emitter, from, to)
		if v.code != nil {
			v.asm = x86sim.Run(v.code, from, 64, true).Asm
		}
		fmt.Printf("replay %s(from=%s, to=%s) delta=from-to=%s\n  bytes: % x\n  ref  : %s\n  relative form: %v\nresult: %s\n",
			cs.Emitter, hex(from), hex(to), shex(int64(from-to)), v.code, strings.Join(v.asm, "; "), v.relForm, orOK(v.class, v.desc))
		if v.class != "" {
			c.Violate("replay", v.desc, cs)
		}
		c.Finish()
		return
	}

	thorough := c.Thorough()
	var idx int64
	var nFail, nRelForm, nFarForm, nFarReachable, nRelTrue, nRelFalseReachable int64
	laneMinimised := map[string]int{} // emitter/class -> minimisations spent
	bandDone := map[string]bool{}
	perSpace := map[string]int64{}

	// (a) lane space, three absolute-form emitters per destination
	seen := space.Seen{}
	space.Addresses(thorough, func(sub string, to uint64) bool {
		first := seen.First(to)
		mine := c.Mine(idx)
		idx++
		if !mine {
			return true
		}
		if c.Full() || c.Expired() {
			return false
		}
		c.Res.Evaluations++
		c.Res.Traces++
		perSpace[sub]++
		allReached := true
		for _, e := range []string{EDivert, EStub, EReturn} {
			v := eval(e, farFrom(to), to)
			c.Res.Transitions++
			if e == EDivert {
				c.Res.Transitions++ // checkAlreadyPatch
			}
			allReached = allReached && v.reached
			if v.class == "" {
				continue
			}
			nFail++
			k := e + "/" + v.class
			if laneMinimised[k] >= 48 {
				continue // this class already has its canonical keys; only count
			}
			laneMinimised[k]++
			m := minimiseTo(e, to, v.class)
			mv := eval(e, farFrom(m), m)
			c.Violate(fmt.Sprintf("amd64 %s to=%s class=%s", e, hex(m), v.class), mv.desc,
				Case{"amd64", e, hex(farFrom(m)), hex(m)})
		}
		if first {
			c.Res.States++
			if allReached {
				c.Res.Nontrivial++
			}
		}
		c.Sample(Case{"amd64", "all-absolute", hex(farFrom(to)), hex(to)})
		return true
	})

	// (b) return emitter and (c) relative() over the decision bands
	for _, e := range []string{EReturn, ERel} {
		for _, from := range space.Bases(thorough) {
			space.Deltas(space.BandWidth(thorough), func(d int64) bool {
				mine := c.Mine(idx)
				idx++
				if !mine {
					return true
				}
				if c.Full() || c.Expired() {
					return false
				}
				to := from - uint64(d)
				c.Res.Evaluations++
				c.Res.Traces++
				c.Res.Transitions++
				c.Res.States++
				perSpace["band:"+e]++
				v := eval(e, from, to)
				need := int64(to - from - 5)
				reachable := need >= -(1<<31) && need <= 1<<31-1
				if e == EReturn {
					if v.relForm {
						nRelForm++
						c.Res.Nontrivial++
					} else {
						nFarForm++
						if reachable {
							nFarReachable++ // recorded, not judged: the far form inside +-2 GiB
						}
					}
				} else {
					if v.relForm {
						nRelTrue++
						c.Res.Nontrivial++
					} else if reachable {
						nRelFalseReachable++
						c.Res.Unjudged++ // the statement does not say the relative form must be chosen
					}
				}
				c.Sample(Case{"amd64", e, hex(from), hex(to)})
				if v.class == "" {
					return true
				}
				nFail++
				if bandDone[e+"/"+v.class] {
					return true
				}
				bandDone[e+"/"+v.class] = true
				cf, cd, n, lo, hi := bandClass(e, thorough, v.class)
				cto := cf - uint64(cd)
				cv := eval(e, cf, cto)
				desc := fmt.Sprintf("%s; %d deltas of the enumerated bands fail in this class (from-to in [%s, %s])", cv.desc, n, shex(lo), shex(hi))
				c.Violate(bandKey(e, v.class, cd), desc, Case{"amd64", e, hex(cf), hex(cto)})
				return true
			})
		}
	}

	// (d) alignment of the source: every residue of from modulo 64 (an emitter that pads or chooses its form by
	// where the sequence falls in a cache line), a few near and far distances each
	alignDone := map[string]bool{}
	for _, e := range []string{EReturn, EDivert, EStub} {
		for _, base := range space.Bases(thorough)[:3] {
			for r := uint64(0); r < 64; r++ {
				for _, dist := range []int64{-4096, -200, -7, 0, 1, 27, 100, 4096, 1 << 20, -(1 << 20), 1 << 33, -(1 << 33)} {
					mine := c.Mine(idx)
					idx++
					if !mine {
						continue
					}
					if c.Full() || c.Expired() {
						break
					}
					from := base&^63 + r
					to := from + 5 + uint64(dist)
					c.Res.Evaluations++
					c.Res.Traces++
					c.Res.Transitions++
					c.Res.States++
					perSpace["align:"+e]++
					v := eval(e, from, to)
					if v.reached {
						c.Res.Nontrivial++
					}
					if v.class == "" {
						continue
					}
					nFail++
					k := e + "/" + v.class
					if alignDone[k] {
						continue
					}
					alignDone[k] = true
					c.Violate(fmt.Sprintf("amd64 %s from%%64=%d class=%s", e, r, v.class), fmt.Sprintf("%s (source at residue %d modulo 64, destination %s bytes behind the end of a 5-byte jump there)", v.desc, r, shex(dist)),
						Case{"amd64", e, hex(from), hex(to)})
				}
			}
		}
	}

	c.Res.Extra["n_failing_evaluations"] = nFail
	c.Res.Extra["n_return_relative_form"] = nRelForm
	c.Res.Extra["n_return_far_form"] = nFarForm
	c.Res.Extra["n_return_far_form_although_rel32_reachable"] = nFarReachable
	c.Res.Extra["n_relative_true"] = nRelTrue
	c.Res.Extra["n_relative_false_although_rel32_reachable"] = nRelFalseReachable
	for k, v := range perSpace {
		c.Res.Extra["n_cases_"+k] = v
	}
	c.Res.Extra["backgrounds"] = len(space.Backgrounds) + map[bool]int{true: len(space.ThoroughBackgrounds)}[thorough]
	c.Res.Extra["from_bases"] = len(space.Bases(thorough))
	c.Res.Extra["band_half_width"] = space.BandWidth(thorough)
	c.Finish()
}

func orOK(class, desc string) string {
	if class == "" {
		return "conforms"
	}
	return class + ": " + desc
}
