// Package x86sim is the micro-interpreter of property C15 for x86: it decodes a short emitted
// byte sequence with the *reference* decoder (verifh/ref/x86asm, never goom's own) and executes
// it on a symbolic machine whose registers are either "unchanged since entry" or a known
// constant, until the first control transfer.
package x86sim

import (
	"fmt"

	"verifh/ref/x86asm"
)

// Kind of control transfer reached.
const (
	None     = iota // fell off the end / failed before a branch
	Direct          // jmp rel: Target is the destination
	Indirect        // jmp [mem]: Target is the address of the memory cell holding the destination
	ViaReg          // jmp reg: Target is the register value
)

// Outcome is the machine state at the first control transfer.
type Outcome struct {
	Err       string // "" or the class of failure (undecodable, unexpected-instruction, no-control-transfer, unknown-address)
	Detail    string
	Kind      int
	Target    uint64
	CellBytes int
	Known     [16]bool   // register i holds a known constant (otherwise: its value on entry)
	Val       [16]uint64 // that constant
	Written   uint16     // bit i: general register i was written
	FirstNop  bool       // the first instruction is a one-byte NOP
	Insts     int
	Asm       []string
}

// RDX is the index of RDX/EDX in Known/Val/Written.
const RDX = 2

var regNames = [16]string{"RAX", "RCX", "RDX", "RBX", "RSP", "RBP", "RSI", "RDI", "R8", "R9", "R10", "R11", "R12", "R13", "R14", "R15"}

// RegName names general register i.
func RegName(i int) string { return regNames[i] }

// gpr maps a full-width or 32-bit register operand to (index, bits).
func gpr(r x86asm.Reg) (int, int, bool) {
	switch {
	case r >= x86asm.RAX && r <= x86asm.R15:
		return int(r - x86asm.RAX), 64, true
	case r >= x86asm.EAX && r <= x86asm.R15L:
		return int(r - x86asm.EAX), 32, true
	}
	return 0, 0, false
}

// Run interprets code located at address pc in the given processor mode (64 or 32). The
// disassembly (Asm) is only rendered when wantAsm is set; failures always carry the text of
// the offending instruction.
func Run(code []byte, pc uint64, mode int, wantAsm bool) (o Outcome) {
	mask := ^uint64(0)
	if mode == 32 {
		mask = 0xffffffff
	}
	off := 0
	for off < len(code) {
		inst, err := x86asm.Decode(code[off:], mode)
		if err != nil {
			o.Err, o.Detail = "undecodable", fmt.Sprintf("offset %d: %v (% x)", off, err, code[off:])
			return
		}
		o.Insts++
		text := func() string { return x86asm.IntelSyntax(inst, pc+uint64(off), nil) }
		if wantAsm {
			o.Asm = append(o.Asm, text())
		}
		next := (pc + uint64(off) + uint64(inst.Len)) & mask
		switch inst.Op {
		case x86asm.NOP:
			if off == 0 && inst.Len == 1 {
				o.FirstNop = true
			}
		case x86asm.MOV:
			dst, okd := inst.Args[0].(x86asm.Reg)
			imm, oki := inst.Args[1].(x86asm.Imm)
			i, bits, okr := gpr(dst)
			if !okd || !oki || !okr || inst.Args[2] != nil {
				o.Err, o.Detail = "unexpected-instruction", text()
				return
			}
			v := uint64(imm)
			if bits == 32 {
				v &= 0xffffffff // a 32-bit write zero-extends
			}
			o.Known[i], o.Val[i] = true, v
			o.Written |= 1 << uint(i)
		case x86asm.JMP:
			switch a := inst.Args[0].(type) {
			case x86asm.Rel:
				o.Kind, o.Target = Direct, (next+uint64(int64(a)))&mask
				return
			case x86asm.Mem:
				if a.Segment != 0 {
					o.Err, o.Detail = "unexpected-instruction", text()
					return
				}
				ea := uint64(a.Disp)
				for _, t := range []struct {
					r x86asm.Reg
					s uint64
				}{{a.Base, 1}, {a.Index, uint64(a.Scale)}} {
					if t.r == 0 {
						continue
					}
					if t.r == x86asm.RIP {
						ea += next
						continue
					}
					i, bits, ok := gpr(t.r)
					if !ok || !o.Known[i] {
						o.Err, o.Detail = "unknown-address", "the branch goes through "+a.String()+" whose address is not a known constant"
						return
					}
					v := o.Val[i]
					if bits == 32 {
						v &= 0xffffffff
					}
					ea += v * t.s
				}
				if inst.AddrSize == 32 {
					ea &= 0xffffffff
				}
				o.Kind, o.Target, o.CellBytes = Indirect, ea&mask, inst.MemBytes
				return
			case x86asm.Reg:
				i, _, ok := gpr(a)
				if !ok || !o.Known[i] {
					o.Err, o.Detail = "unknown-address", "jmp "+a.String()+" with a value that is not a known constant"
					return
				}
				o.Kind, o.Target = ViaReg, o.Val[i]&mask
				return
			default:
				o.Err, o.Detail = "unexpected-instruction", text()
				return
			}
		default:
			o.Err, o.Detail = "unexpected-instruction", text()
			return
		}
		off += inst.Len
	}
	o.Err, o.Detail = "no-control-transfer", fmt.Sprintf("%d bytes executed without reaching a branch", len(code))
	return
}

// WrittenNames lists the registers of a Written mask.
func WrittenNames(w uint16) []string {
	var s []string
	for i := 0; i < 16; i++ {
		if w&(1<<uint(i)) != 0 {
			s = append(s, regNames[i])
		}
	}
	return s
}
