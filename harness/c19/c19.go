// Package c19 — debug and trace logging never change what a mock does.
//
// Engine H, differential over configurations: one deterministic enumeration of mock scenarios
// (callbacks, conditional and sequenced stubs, variadic targets, method and interface mocks,
// results of pointer/error/interface/slice type) x argument vectors from an "awkward" domain
// (nil pointers, typed-nil interfaces, nil func/map/slice, cyclic structures, unexported
// fields, a value whose String() panics, a callback that panics) is executed in four worker
// processes: logging off, OpenDebug(), OpenTrace(), GOOM_DEBUG=1 in the environment. Every
// scenario yields a transcript (calls, arguments as seen by the replacement, results, panics —
// no addresses, no log text); the driver requires the four transcript lists to be identical.
package c19

import (
	"crypto/sha1"
	"encoding/hex"
	"errors"
	"fmt"
	"os"
	"reflect"
	"runtime"
	"runtime/debug"
	"sort"
	"strings"
	"time"

	mocker "github.com/tencent/goom"
	"github.com/tencent/goom/arg"
	t "verifh/targets/c19t"
	"verifh/vk"
)

// ---------------------------------------------------------------------------------------------
// awkward values, each with a stable name

var (
	nodeNil  *t.Node
	nodeOne  = t.NewNode(1, "one")
	nodeSelf = func() *t.Node { n := t.NewNode(2, "self"); n.Next = n; return n }()
	nodeA, _ = func() (*t.Node, *t.Node) {
		a, b := t.NewNode(3, "a"), t.NewNode(4, "b")
		a.Next, b.Next = b, a
		return a, b
	}()
	errPlain           = errors.New("plain")
	errTypedNil error  = (*t.MyErr)(nil)
	fnSeven            = func() int { return 7 }
	mapNil             map[string]int
	mapOne             = map[string]int{"k": 1}
	sliceNil           []int
	sliceTwo           = []int{1, 2}
	hidZero            = t.Hidden{}
	hidOne             = t.NewHidden(5, "h")
	bomb               = t.Bomb{N: 9}
)

type named struct {
	name string
	v    interface{}
}

func nodes() []named {
	return []named{{"nilNode", nodeNil}, {"node1", nodeOne}, {"selfCycle", nodeSelf}, {"twoCycle", nodeA}}
}

// render gives a value a stable, address-free name.
func render(v interface{}) string {
	if v == nil {
		return "nil"
	}
	rv := reflect.ValueOf(v)
	switch x := v.(type) {
	case *t.Node:
		for _, n := range nodes() {
			if n.v.(*t.Node) == x {
				return n.name
			}
		}
		if x == nil {
			return "nilNode"
		}
		return fmt.Sprintf("node(%d)", x.Val)
	case t.Hidden:
		return fmt.Sprintf("Hidden(%d)", x.A())
	case t.Bomb:
		return fmt.Sprintf("Bomb(%d)", x.N)
	case error:
		if rv.Kind() == reflect.Ptr && rv.IsNil() {
			return "typedNilErr"
		}
		return "err(" + x.Error() + ")"
	case func() int:
		if x == nil {
			return "nilFunc"
		}
		return fmt.Sprintf("func->%d", x())
	case map[string]int:
		if x == nil {
			return "nilMap"
		}
		return fmt.Sprintf("map%d", len(x))
	case []int:
		if x == nil {
			return "nilSlice"
		}
		return fmt.Sprintf("slice%v", x)
	case []string:
		return fmt.Sprintf("strs%v", x)
	case []interface{}:
		parts := make([]string, len(x))
		for i, e := range x {
			parts[i] = render(e)
		}
		return "list[" + strings.Join(parts, " ") + "]"
	case map[string]interface{}:
		keys := make([]string, 0, len(x))
		for k := range x {
			keys = append(keys, k)
		}
		sort.Strings(keys)
		parts := make([]string, len(keys))
		for i, k := range keys {
			parts[i] = k + ":" + render(x[k])
		}
		return "dict[" + strings.Join(parts, " ") + "]"
	case fmt.Stringer:
		return "stringer"
	}
	switch rv.Kind() {
	case reflect.Ptr, reflect.Func, reflect.Map, reflect.Slice, reflect.Chan, reflect.UnsafePointer:
		return fmt.Sprintf("%T(nil=%v)", v, rv.IsNil()) // never print an address
	}
	return fmt.Sprintf("%T(%v)", v, v)
}

// ---------------------------------------------------------------------------------------------

type transcript struct{ sb strings.Builder }

func (tr *transcript) add(format string, a ...interface{}) {
	fmt.Fprintf(&tr.sb, format, a...)
	tr.sb.WriteByte('\n')
}

// do runs f, recording a panic.
func (tr *transcript) do(what string, f func() string) {
	msg, p := vk.Try(func() { tr.add("%s -> %s", what, f()) })
	if p {
		tr.add("%s -> PANIC %s", what, vk.Short(msg, 100))
	}
}

type scenario struct {
	id  string
	run func(tr *transcript)
}

func scenarios(thorough bool) []scenario {
	var out []scenario
	add := func(id string, run func(tr *transcript)) { out = append(out, scenario{id, run}) }

	// ---- F: plain function ----
	fArgs := [][2]interface{}{{1, "a"}, {0, ""}, {-5, "héllo"}}
	for mi, mock := range []string{"apply", "apply-panics", "return", "when-seq", "in"} {
		mock := mock
		add(fmt.Sprintf("F/%d-%s", mi, mock), func(tr *transcript) {
			b := mocker.Create()
			defer b.Reset()
			switch mock {
			case "apply":
				b.Func(t.F).Apply(func(a int, s string) int { tr.add("  cb F(%d,%q)", a, s); return a*2 + len(s) })
			case "apply-panics":
				b.Func(t.F).Apply(func(a int, s string) int { tr.add("  cb F(%d,%q) panics", a, s); panic(fmt.Sprintf("cb panic %d", a)) })
			case "return":
				b.Func(t.F).Return(11).AndReturn(12)
			case "when-seq":
				b.Func(t.F).Return(20).When(1, "a").Return(21).AndReturn(22).When(arg.Any(), "").Return(23)
			case "in":
				b.Func(t.F).Return(30).When(arg.In(0, 1), arg.Any()).Return(31)
			}
			for round := 0; round < 2; round++ {
				for _, a := range fArgs {
					a := a
					tr.do(fmt.Sprintf("F(%v,%q)", a[0], a[1]), func() string { return fmt.Sprint(t.F(a[0].(int), a[1].(string))) })
				}
			}
		})
	}

	// ---- V: variadic ----
	vArgs := [][]int{nil, {1}, {1, 2}, {7, 8, 9}}
	for mi, mock := range []string{"apply", "return", "when"} {
		mock := mock
		add(fmt.Sprintf("V/%d-%s", mi, mock), func(tr *transcript) {
			b := mocker.Create()
			defer b.Reset()
			switch mock {
			case "apply":
				b.Func(t.V).Apply(func(p string, xs ...int) int { tr.add("  cb V(%q,%v) nil=%v", p, xs, xs == nil); return len(p)*100 + len(xs) })
			case "return":
				b.Func(t.V).Return(41)
			case "when":
				b.Func(t.V).Return(50).When("p", 1, 2).Return(51).When("p").Return(52)
			}
			for _, xs := range vArgs {
				xs := xs
				tr.do(fmt.Sprintf("V(p,%v...)", xs), func() string { return fmt.Sprint(t.V("p", xs...)) })
			}
			tr.do("V(q,1,2)", func() string { return fmt.Sprint(t.V("q", 1, 2)) })
		})
	}

	// ---- G: awkward arguments ----
	type gvec struct {
		p  *t.Node
		e  error
		f  func() int
		m  map[string]int
		s  []int
		h  t.Hidden
		sp fmt.Stringer
		x  interface{}
	}
	var gvecs []gvec
	for _, n := range nodes() {
		gvecs = append(gvecs, gvec{p: n.v.(*t.Node), x: n.v})
	}
	gvecs = append(gvecs,
		gvec{e: errPlain, f: fnSeven, m: mapOne, s: sliceTwo, h: hidOne, sp: bomb, x: bomb},
		gvec{e: errTypedNil, m: mapNil, s: sliceNil, h: hidZero, sp: nil, x: errTypedNil},
		gvec{p: nodeSelf, e: errPlain, sp: bomb, x: []interface{}{nodeSelf, nil, bomb}},
		gvec{x: map[string]interface{}{"self": nodeA, "nil": nil}},
		gvec{x: hidOne}, gvec{x: &hidOne}, gvec{x: fnSeven}, gvec{x: (*int)(nil)},
	)
	for mi, mock := range []string{"apply", "return", "when-any"} {
		mock := mock
		for vi, gv := range gvecs {
			gv := gv
			if !thorough && mock != "apply" && vi%2 == 1 {
				continue
			}
			add(fmt.Sprintf("G/%d-%s/v%d", mi, mock, vi), func(tr *transcript) {
				b := mocker.Create()
				defer b.Reset()
				switch mock {
				case "apply":
					b.Func(t.G).Apply(func(p *t.Node, e error, f func() int, m map[string]int, s []int, h t.Hidden, sp fmt.Stringer, x interface{}) int {
						tr.add("  cb G(%s,%s,%s,%s,%s,%s,%s,%s)", render(p), render(e), render(f), render(m), render(s), render(h), render(sp), render(x))
						return 61
					})
				case "return":
					b.Func(t.G).Return(62)
				case "when-any":
					b.Func(t.G).Return(63).When(arg.Any(), arg.Any(), arg.Any(), arg.Any(), arg.Any(), arg.Any(), arg.Any(), arg.Any()).Return(64)
				}
				tr.do("G(v)", func() string { return fmt.Sprint(t.G(gv.p, gv.e, gv.f, gv.m, gv.s, gv.h, gv.sp, gv.x)) })
			})
		}
	}

	// ---- R: awkward results ----
	for mi, mock := range []string{"apply-nils", "apply-values", "return-nils", "return-values"} {
		mock := mock
		add(fmt.Sprintf("R/%d-%s", mi, mock), func(tr *transcript) {
			b := mocker.Create()
			defer b.Reset()
			switch mock {
			case "apply-nils":
				b.Func(t.R).Apply(func(a int) (*t.Node, error, interface{}, []int) { return nil, nil, nil, nil })
			case "apply-values":
				b.Func(t.R).Apply(func(a int) (*t.Node, error, interface{}, []int) { return nodeSelf, errTypedNil, bomb, sliceTwo })
			case "return-nils":
				b.Func(t.R).Return(nil, nil, nil, nil)
			case "return-values":
				b.Func(t.R).Return(nodeA, errPlain, hidOne, sliceTwo)
			}
			tr.do("R(1)", func() string {
				n, e, x, s := t.R(1)
				return fmt.Sprintf("%s %s(nil=%v) %s %s", render(n), render(e), e == nil, render(x), render(s))
			})
		})
	}

	// ---- method with variadic tail ----
	for mi, mock := range []string{"apply", "return", "when"} {
		mock := mock
		for _, n := range nodes() {
			n := n
			add(fmt.Sprintf("M/%d-%s/%s", mi, mock, n.name), func(tr *transcript) {
				b := mocker.Create()
				defer b.Reset()
				recv := &t.T{K: 5}
				switch mock {
				case "apply":
					b.Struct(recv).Method("M").Apply(func(r *t.T, p *t.Node, xs ...string) int {
						tr.add("  cb M(recv.K=%d,%s,%v)", r.K, render(p), xs)
						return 71
					})
				case "return":
					b.Struct(recv).Method("M").Return(72)
				case "when":
					b.Struct(recv).Method("M").Return(73).When(arg.Any(), "x").Return(74)
				}
				p := n.v.(*t.Node)
				tr.do("M(p)", func() string { return fmt.Sprint(recv.M(p)) })
				tr.do("M(p,x)", func() string { return fmt.Sprint(recv.M(p, "x")) })
				tr.do("M(p,x,y)", func() string { return fmt.Sprint(recv.M(p, "x", "y")) })
			})
		}
	}

	// ---- interface ----
	ivals := []named{{"nil", nil}, {"int", 3}, {"bomb", bomb}, {"typedNilErr", errTypedNil}, {"selfCycle", nodeSelf}, {"hidden", hidOne}, {"nilMap", mapNil}}
	for mi, mock := range []string{"apply", "as-return", "as-when", "as-seq"} {
		mock := mock
		for _, iv := range ivals {
			iv := iv
			add(fmt.Sprintf("I/%d-%s/%s", mi, mock, iv.name), func(tr *transcript) {
				b := mocker.Create()
				defer func() { b.Reset(); t.X = nil }()
				t.X = nil
				as := func(ctx *mocker.IContext, x interface{}, p *t.Node) string { return "" }
				switch mock {
				case "apply":
					b.Interface(&t.X).Method("Do").Apply(func(ctx *mocker.IContext, x interface{}, p *t.Node) string {
						tr.add("  cb Do(%s,%s)", render(x), render(p))
						return "applied"
					})
				case "as-return":
					b.Interface(&t.X).Method("Do").As(as).Return("returned")
				case "as-when":
					b.Interface(&t.X).Method("Do").As(as).Return("default").When(arg.Any(), nodeNil).Return("nilnode")
				case "as-seq":
					b.Interface(&t.X).Method("Do").As(as).Return("d1").AndReturn("d2").AndReturn("d3").When(arg.Any(), nodeNil).Return("n1").AndReturn("n2")
				}
				tr.do("Do(v,nilNode)", func() string { return t.CallDo(iv.v, nodeNil) })
				tr.do("Do(v,selfCycle)", func() string { return t.CallDo(iv.v, nodeSelf) })
				tr.do("Do(v,nilNode)#2", func() string { return t.CallDo(iv.v, nodeNil) })
				tr.do("Do(v,selfCycle)#2", func() string { return t.CallDo(iv.v, nodeSelf) })
				tr.do("Do(v,selfCycle)#3", func() string { return t.CallDo(iv.v, nodeSelf) })
				tr.do("Other()", func() string { return fmt.Sprint(t.X.Other()) })
			})
		}
	}

	// ---- all pairs (node argument x interface argument) through a recording callback ----
	xvals := []named{{"nil", nil}, {"int", 3}, {"bomb", bomb}, {"typedNilErr", errTypedNil}, {"selfCycle", nodeSelf}, {"twoCycle", nodeA},
		{"hidden", hidOne}, {"ptrHidden", &hidOne}, {"nilMap", mapNil}, {"nilSlice", sliceNil}, {"nilFunc", (func() int)(nil)}, {"list", []interface{}{nodeSelf, nil, bomb}},
		{"dict", map[string]interface{}{"n": nodeA, "z": nil, "b": bomb}}, {"nilIntPtr", (*int)(nil)}}
	for _, n := range nodes() {
		for _, xv := range xvals {
			n, xv := n, xv
			add(fmt.Sprintf("Gpair/%s/%s", n.name, xv.name), func(tr *transcript) {
				b := mocker.Create()
				defer b.Reset()
				b.Func(t.G).Apply(func(p *t.Node, e error, f func() int, m map[string]int, s []int, h t.Hidden, sp fmt.Stringer, x interface{}) int {
					tr.add("  cb G(%s,…,%s)", render(p), render(x))
					if sp != nil {
						return 66
					}
					return 65
				})
				p := n.v.(*t.Node)
				tr.do("G(p,…,x)", func() string { return fmt.Sprint(t.G(p, nil, nil, nil, nil, hidZero, nil, xv.v)) })
				tr.do("G(p,…,bomb,x)", func() string { return fmt.Sprint(t.G(p, errTypedNil, fnSeven, mapOne, sliceTwo, hidOne, bomb, xv.v)) })
			})
		}
	}

	// ---- origin placeholder through the debug wrapper ----
	add("Origin/apply", func(tr *transcript) {
		b := mocker.Create()
		defer b.Reset()
		o := t.OF
		b.Func(t.F).Origin(&o).Apply(func(a int, s string) int {
			if vk.InCallAlready() {
				return o(a, s) // re-entered because the placeholder's relocated stack check fired (C03's known finding)
			}
			tr.add("  cb F(%d,%q) -> origin", a, s)
			return o(a, s) + 1000
		})
		for _, a := range fArgs {
			a := a
			tr.do(fmt.Sprintf("F(%v,%q)", a[0], a[1]), func() string { return fmt.Sprint(bigStack(func() int { return t.F(a[0].(int), a[1].(string)) })) })
		}
	})

	// ---- unexported function by name ----
	for mi, mock := range []string{"apply", "as-return", "as-when"} {
		mock := mock
		add(fmt.Sprintf("Unexported/%d-%s", mi, mock), func(tr *transcript) {
			b := mocker.Create()
			defer b.Reset()
			switch mock {
			case "apply":
				b.Pkg(t.Pkg).ExportFunc("hidden").Apply(func(p *t.Node, x interface{}) int { tr.add("  cb hidden(%s,%s)", render(p), render(x)); return 81 })
			case "as-return":
				b.Pkg(t.Pkg).ExportFunc("hidden").As(func(p *t.Node, x interface{}) int { return 0 }).Return(82)
			case "as-when":
				b.Pkg(t.Pkg).ExportFunc("hidden").As(func(p *t.Node, x interface{}) int { return 0 }).Return(83).When(nodeNil, arg.Any()).Return(84)
			}
			for _, n := range nodes() {
				n := n
				tr.do("hidden("+n.name+",bomb)", func() string { return fmt.Sprint(t.CallHidden(n.v.(*t.Node), bomb)) })
			}
		})
	}

	// ---- the same mocker given one instruction after another (closures of one literal differ only in what they capture) ----
	mkF := func(tr *transcript, k int) func(int, string) int {
		return func(a int, s string) int { tr.add("  cb#%d F(%d,%q)", k, a, s); return k*1000 + a }
	}
	for mi, mode := range []string{"same-mocker", "fresh-lookup", "apply-return-apply"} {
		mode := mode
		add(fmt.Sprintf("Reapply/F/%d-%s", mi, mode), func(tr *transcript) {
			b := mocker.Create()
			defer b.Reset()
			m := b.Func(t.F)
			for k := 1; k <= 3; k++ {
				switch mode {
				case "same-mocker":
					m.Apply(mkF(tr, k))
				case "fresh-lookup":
					b.Func(t.F).Apply(mkF(tr, k))
				case "apply-return-apply":
					if k == 2 {
						m.Return(2222)
					} else {
						m.Apply(mkF(tr, k))
					}
				}
				tr.do(fmt.Sprintf("round %d F(1,a)", k), func() string { return fmt.Sprint(t.F(1, "a")) })
				tr.do(fmt.Sprintf("round %d F(0,)", k), func() string { return fmt.Sprint(t.F(0, "")) })
			}
		})
	}
	add("Reapply/M", func(tr *transcript) {
		b := mocker.Create()
		defer b.Reset()
		recv := &t.T{K: 5}
		mk := func(k int) func(*t.T, *t.Node, ...string) int {
			return func(r *t.T, p *t.Node, xs ...string) int { tr.add("  cb#%d M(%v)", k, xs); return 70 + k }
		}
		m := b.Struct(recv).Method("M")
		for k := 1; k <= 3; k++ {
			m.Apply(mk(k))
			tr.do(fmt.Sprintf("round %d M(nil,x)", k), func() string { return fmt.Sprint(recv.M(nil, "x")) })
		}
	})
	add("Reapply/I", func(tr *transcript) {
		b := mocker.Create()
		defer func() { b.Reset(); t.X = nil }()
		t.X = nil
		mk := func(k int) func(*mocker.IContext, interface{}, *t.Node) string {
			return func(ctx *mocker.IContext, x interface{}, p *t.Node) string { tr.add("  cb#%d Do(%s)", k, render(x)); return fmt.Sprint("applied#", k) }
		}
		m := b.Interface(&t.X).Method("Do")
		for k := 1; k <= 3; k++ {
			m.Apply(mk(k))
			tr.do(fmt.Sprintf("round %d Do(3,nil)", k), func() string { return t.CallDo(3, nodeNil) })
		}
	})
	add("Reapply/Unexported", func(tr *transcript) {
		b := mocker.Create()
		defer b.Reset()
		mk := func(k int) func(*t.Node, interface{}) int {
			return func(p *t.Node, x interface{}) int { tr.add("  cb#%d hidden", k); return 80 + k }
		}
		m := b.Pkg(t.Pkg).ExportFunc("hidden")
		for k := 1; k <= 3; k++ {
			m.Apply(mk(k))
			tr.do(fmt.Sprintf("round %d hidden", k), func() string { return fmt.Sprint(t.CallHidden(nodeNil, 1)) })
		}
	})

	// ---- variables (Set/Apply/Reset are logged too) ----
	add("Var/set-apply-reset", func(tr *transcript) {
		b := mocker.Create()
		b.Var(&t.VarNode).Set(nodeSelf)
		tr.add("VarNode=%s", render(t.VarNode))
		b.Var(&t.VarNode).Apply(func() *t.Node { return nodeA })
		tr.add("VarNode=%s", render(t.VarNode))
		b.Var(&t.VarAny).Set(bomb)
		tr.add("VarAny=%s", render(t.VarAny))
		b.UnExportedVar(t.Pkg + ".varHidden").Set(hidOne)
		tr.add("varHidden=%s", render(t.ReadVarHidden()))
		b.Reset()
		tr.add("after reset: %s %s %s", render(t.VarNode), render(t.VarAny), render(t.ReadVarHidden()))
	})

	// ---- a variable of func type: fake, switched off (typed nil), callback ----
	add("Var/func-typed", func(tr *transcript) {
		b := mocker.Create()
		b.Var(&t.VarHook).Set(func(name string) string { return "fake:" + name })
		tr.do("Emit(a)", func() string { return t.Emit("a") })
		b.Var(&t.VarHook).Set((func(string) string)(nil))
		tr.add("hook==nil: %v", t.VarHook == nil)
		tr.do("Emit(b)", func() string { return t.Emit("b") })
		b.Var(&t.VarHook).Apply(func() func(string) string { return func(name string) string { return "applied:" + name } })
		tr.do("Emit(c)", func() string { return t.Emit("c") })
		b.Var(&t.VarHook).Apply(func() func(string) string { return nil })
		tr.add("hook==nil: %v", t.VarHook == nil)
		tr.do("Emit(d)", func() string { return t.Emit("d") })
		b.Reset()
		tr.do("Emit(e) after reset", func() string { return t.Emit("e") })
	})

	// ---- arguments and results whose String()/Error() call a function that is mocked too ----
	for mi, mock := range []string{"apply", "return", "when"} {
		mock := mock
		add(fmt.Sprintf("Nested/%d-%s", mi, mock), func(tr *transcript) {
			b := mocker.Create()
			defer b.Reset()
			b.Func(t.SkuName).Apply(func(id int) string { return fmt.Sprintf("mock-sku-%d", id) })
			switch mock {
			case "apply":
				b.Func(t.Submit).Apply(func(o t.Order) int { tr.add("  cb Submit(sku=%d)", o.Sku); return o.Sku + 100 })
				b.Func(t.Validate).Apply(func(id int) error { tr.add("  cb Validate(%d)", id); return &t.SkuErr{Code: id} })
			case "return":
				b.Func(t.Submit).Return(105)
				b.Func(t.Validate).Return(&t.SkuErr{Code: 7})
			case "when":
				b.Func(t.Submit).Return(1).When(t.Order{Sku: 5}).Return(2)
				b.Func(t.Validate).Return(nil).When(1).Return(&t.SkuErr{Code: 8})
			}
			tr.do("Submit(order 5)", func() string { return fmt.Sprint(t.Submit(t.Order{Sku: 5})) })
			tr.do("Submit(order 6)", func() string { return fmt.Sprint(t.Submit(t.Order{Sku: 6})) })
			tr.do("Validate(1)", func() string {
				if err := t.Validate(1); err != nil {
					return err.Error()
				}
				return "<nil>"
			})
			tr.do("String() while mocked", func() string { return t.Order{Sku: 9}.String() })
		})
	}

	// ---- an argument whose String() calls the mocked function it is handed to ----
	for mi, mock := range []string{"apply", "return"} {
		mock := mock
		add(fmt.Sprintf("Nested/self-%d-%s", mi, mock), func(tr *transcript) {
			b := mocker.Create()
			defer b.Reset()
			if mock == "apply" {
				// stateless and silent: rendering the argument (which only a logger does) calls it again
				b.Func(t.Label).Apply(func(o fmt.Stringer) string {
					if r, ok := o.(t.Rec); ok {
						return fmt.Sprintf("mock-%d", r.N)
					}
					return "mock-?"
				})
			} else {
				b.Func(t.Label).Return("fixed").When(t.Rec{N: 2}).Return("two")
			}
			tr.do("Label(Rec{1})", func() string { return t.Label(t.Rec{N: 1}) })
			tr.do("Label(Rec{2})", func() string { return t.Label(t.Rec{N: 2}) })
			tr.do("Label(Rec{101})", func() string { return t.Label(t.Rec{N: 101}) })
		})
	}

	// ---- a callback that ends its goroutine (what t.FailNow / t.SkipNow do inside a mock) ----
	add("Goexit/callback", func(tr *transcript) {
		b := mocker.Create()
		defer b.Reset()
		b.Func(t.F).Apply(func(a int, s string) int {
			if a == 1 {
				runtime.Goexit()
			}
			return a + 5
		})
		for _, a := range []int{2, 1, 3} {
			a := a
			done := make(chan string, 1)
			go func() {
				returned := false
				defer func() {
					r := recover()
					done <- fmt.Sprintf("returned=%v recovered=%v", returned, r != nil)
				}()
				_ = t.F(a, "x")
				returned = true
			}()
			select {
			case s := <-done:
				tr.add("goroutine calling F(%d): %s", a, s)
			case <-time.After(20 * time.Second):
				tr.add("goroutine calling F(%d): no answer", a)
			}
		}
	})

	// ---- fixed-size byte arrays by value (digests, raw ids) next to a byte slice ----
	idA := [16]byte{1, 2, 3, 4, 5, 6, 7, 8, 9, 10, 11, 12, 13, 14, 15, 16}
	for mi, mock := range []string{"apply", "return", "when"} {
		mock := mock
		add(fmt.Sprintf("Bytes/%d-%s", mi, mock), func(tr *transcript) {
			b := mocker.Create()
			defer b.Reset()
			switch mock {
			case "apply":
				b.Func(t.Digest).Apply(func(id [16]byte, data []byte) [16]byte {
					tr.add("  cb Digest(%v,%q)", id, data)
					id[0] = 99
					return id
				})
				b.Struct(&t.T{}).Method("Sum").Apply(func(r *t.T, data []byte) [4]byte {
					tr.add("  cb Sum(recv.K=%d,%q)", r.K, data)
					return [4]byte{7, 7, 7, 7}
				})
			case "return":
				b.Func(t.Digest).Return([16]byte{42})
				b.Struct(&t.T{}).Method("Sum").Return([4]byte{8, 8, 8, 8})
			case "when":
				b.Func(t.Digest).Return([16]byte{1}).When(idA, arg.Any()).Return([16]byte{2})
			}
			tr.do("Digest(idA,abc)", func() string { return fmt.Sprint(t.Digest(idA, []byte("abc"))) })
			tr.do("Digest(zero,nil)", func() string { return fmt.Sprint(t.Digest([16]byte{}, nil)) })
			tr.do("Sum(xy)", func() string { return fmt.Sprint((&t.T{K: 5}).Sum([]byte("xy"))) })
		})
	}

	// ---- tiny targets (shorter than the entry jump) and a target the library itself may call ----
	for mi, mock := range []string{"return", "apply"} {
		mock := mock
		add(fmt.Sprintf("Tiny/%d-%s", mi, mock), func(tr *transcript) {
			b := mocker.Create()
			defer b.Reset()
			tr.do("configure", func() string {
				if mock == "return" {
					b.Func(t.Tiny).Return(5)
					b.Struct(&t.T{}).Method("Getter").Return(6)
				} else {
					b.Func(t.Tiny).Apply(func() int { tr.add("  cb Tiny"); return 7 })
					b.Struct(&t.T{}).Method("Getter").Apply(func(r *t.T) int { tr.add("  cb Getter K=%d", r.K); return 8 })
				}
				return "ok"
			})
			tr.do("Tiny()", func() string { return fmt.Sprint(t.Tiny()) })
			tr.do("Getter()", func() string { return fmt.Sprint((&t.T{K: 3}).Getter()) })
		})
	}
	add("Getenv/sequence", func(tr *transcript) {
		b := mocker.Create()
		defer b.Reset()
		b.Func(os.Getenv).Return("first").AndReturn("second").AndReturn("third")
		for i := 0; i < 4; i++ {
			tr.do("os.Getenv(HOME)", func() string { return os.Getenv("HOME") })
		}
	})
	add("Getenv/apply", func(tr *transcript) {
		b := mocker.Create()
		defer b.Reset()
		b.Func(os.Getenv).Apply(func(key string) string { tr.add("  cb Getenv(%q)", key); return "v:" + key })
		tr.do("os.Getenv(A)", func() string { return os.Getenv("A") })
		tr.do("F while Getenv is mocked", func() string { return fmt.Sprint(t.F(1, "a")) })
		tr.do("os.Getenv(B)", func() string { return os.Getenv("B") })
	})

	// ---- time.Now is what the logger itself calls ----
	add("TimeNow/return", func(tr *transcript) {
		b := mocker.Create()
		defer b.Reset()
		fixed := time.Unix(1700000000, 0).UTC()
		b.Func(time.Now).Return(fixed)
		tr.do("time.Now()", func() string { return time.Now().UTC().Format(time.RFC3339) })
		tr.do("F after", func() string { return fmt.Sprint(t.F(1, "a")) })
	})
	add("TimeNow/by-name-apply", func(tr *transcript) {
		// the same target reached through the by-name entry point (stateless replacement, as below)
		b := mocker.Create()
		defer b.Reset()
		b.Pkg("time").ExportFunc("Now").Apply(func() time.Time { return time.Unix(1700000002, 0).UTC() })
		tr.do("time.Now()", func() string { return time.Now().UTC().Format(time.RFC3339) })
		tr.do("F after", func() string { return fmt.Sprint(t.F(1, "a")) })
	})
	add("TimeNow/apply", func(tr *transcript) {
		// The logger itself calls time.Now, so a replacement of time.Now is also invoked by goom's
		// own logging; "the same calls" is read as the calls made by the program under test, hence
		// the callback is stateless (a counting callback sees the logger's calls: DESIGN 9.3).
		b := mocker.Create()
		defer b.Reset()
		b.Func(time.Now).Apply(func() time.Time { return time.Unix(1700000001, 0).UTC() })
		tr.do("time.Now()", func() string { return time.Now().UTC().Format(time.RFC3339) })
		tr.do("time.Now()#2", func() string { return time.Now().UTC().Format(time.RFC3339) })
	})
	return out
}

// Run is the worker entry point.
func Run(c *vk.Ctx) {
	// a logging path that recurses (e.g. logging about time.Now, which the logger itself calls)
	// must die quickly, not after filling a 1 GB stack
	debug.SetMaxStack(32 << 20)
	switch c.Sub {
	case "off":
	case "debug":
		mocker.OpenDebug()
	case "trace":
		mocker.OpenTrace()
	case "env":
		if os.Getenv("GOOM_DEBUG") == "" {
			vk.Fatalf("sub env needs GOOM_DEBUG in the environment")
		}
	default:
		if c.Replay == "" {
			vk.Fatalf("unknown sub %q", c.Sub)
		}
	}
	scs := scenarios(c.Thorough() || c.Replay != "")
	if c.Replay != "" {
		var cs struct {
			Scenario string `json:"scenario"`
		}
		c.LoadReplay(&cs)
		// replay: run the scenario under off / debug / trace in this process, print the transcripts
		var first string
		for _, mode := range []string{"off", "debug", "trace"} {
			switch mode {
			case "off":
				mocker.CloseTrace()
				mocker.CloseDebug()
			case "debug":
				mocker.OpenDebug()
			case "trace":
				mocker.OpenTrace()
			}
			for _, s := range scs {
				if s.id == cs.Scenario {
					tr := &transcript{}
					tr.do("scenario", func() string { s.run(tr); return "done" })
					fmt.Fprintf(os.Stderr, "---- %s under %s ----\n%s", s.id, mode, tr.sb.String())
					if mode == "off" {
						first = tr.sb.String()
					} else if tr.sb.String() != first {
						c.Violate("replay", "transcript under "+mode+" differs from logging off", cs)
					}
				}
			}
		}
		mocker.CloseTrace()
		c.Finish()
		return
	}
	hashes := map[string]string{}
	texts := map[string]string{}
	c.Res.Extra["hashes"] = hashes
	c.Res.Extra["texts"] = texts
	c.Res.Extra["config"] = c.Sub
	for i, s := range scs {
		if !c.Mine(int64(i)) {
			continue
		}
		c.Note(fmt.Sprintf(`{"__key":"scenario=%s config=%s","scenario":%q,"config":%q}`, s.id, c.Sub, s.id, c.Sub))
		tr := &transcript{}
		tr.do("scenario", func() string { s.run(tr); return "done" })
		sum := sha1.Sum([]byte(tr.sb.String()))
		hashes[s.id] = hex.EncodeToString(sum[:8])
		texts[s.id] = tr.sb.String()
		c.Res.Evaluations++
		c.Res.Traces++
		c.Res.States++
		c.Res.Transitions += int64(strings.Count(tr.sb.String(), "\n"))
		c.Distinct(hashes[s.id])
		c.Checkpoint()
		if i%37 == 0 {
			c.Sample(map[string]interface{}{"scenario": s.id, "transcript": strings.Split(strings.TrimSpace(tr.sb.String()), "\n")})
		}
	}
	c.Res.Extra["config"] = c.Sub
	c.Finish()
}

//go:noinline
func grow(n int) int {
	var b [256]byte
	b[n%256] = byte(n)
	if n == 0 {
		return int(b[0])
	}
	return grow(n-1) + int(b[n%256])
}

// bigStack runs f after growing the stack, so that calls through an origin placeholder do not
// run near the stack guard (that behaviour is C03's known finding, not C19's subject).
func bigStack(f func() int) int {
	grow(128)
	return f()
}
