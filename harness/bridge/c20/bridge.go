// Package c20 re-exports goom's stub space allocator to the harness.
package c20

import (
	"reflect"

	"github.com/tencent/goom/internal/bytecode/memory"
	"github.com/tencent/goom/internal/bytecode/stub"
)

type Space = stub.Space

const (
	TypeHolder = stub.TypeHolder
	TypeMMap   = stub.TypeMMap
)

func Acquire(n int) (*Space, error)                    { return stub.Acquire(n) }
func Write(s *Space, data []byte) error                { return stub.Write(s, data) }
func Bounds() (min, max, off uintptr)                  { return stub.VerifC20Bounds() }
func SetOff(off uintptr)                               { stub.VerifC20SetOff(off) }
func AcquireFromHolder(n int) (uintptr, *[]byte, error) { return stub.VerifC20AcquireFromHolder(n) }
func Type(s *Space) int                                { return stub.VerifC20Type(s) }
func PlaceholderPC() uintptr                           { return reflect.ValueOf(stub.Placeholder).Pointer() }
func WriteTo(addr uintptr, data []byte) error          { return memory.WriteTo(addr, data) }
