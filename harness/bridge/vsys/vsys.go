// Package vsys is a drop-in for the parts of package syscall used by goom's memory and stub
// packages. Mprotect and Mmap are environment seams: each is bracketed by two scheduling
// points (before the request, after the kernel's answer), logged, and Mmap can be told to fail.
package vsys

import (
	"syscall"
	"unsafe"

	"github.com/tencent/goom/zzverif/sched"
)

// Constants goom uses.
const (
	PROT_NONE  = syscall.PROT_NONE
	PROT_READ  = syscall.PROT_READ
	PROT_WRITE = syscall.PROT_WRITE
	PROT_EXEC  = syscall.PROT_EXEC
	MAP_SHARED  = syscall.MAP_SHARED
	MAP_PRIVATE = syscall.MAP_PRIVATE
	MAP_ANON    = syscall.MAP_ANON
	MAP_FIXED   = syscall.MAP_FIXED
	SIGQUIT = syscall.SIGQUIT
	SIGSEGV = syscall.SIGSEGV
	SIGBUS  = syscall.SIGBUS
)

// Types passed through.
type (
	Errno  = syscall.Errno
	Signal = syscall.Signal
)

// Errors.
const (
	ENOMEM = syscall.ENOMEM
	EACCES = syscall.EACCES
	EINVAL = syscall.EINVAL
	EPERM  = syscall.EPERM
)

// ProtCall is one logged mprotect request.
type ProtCall struct {
	Addr   uintptr
	Len    int
	Prot   int
	Thread int
	Err    bool
}

var (
	// ProtLog is the log of mprotect calls since the last ResetLog (only while Logging).
	ProtLog []ProtCall
	// Logging switches the log on.
	Logging bool
	// Pages tracks the protection last requested per page (page start -> prot) while Logging.
	Pages = map[uintptr]int{}
	// MmapFail: when non-nil it is consulted per Mmap call (call counter) and true makes the call fail.
	MmapFail func(n int) bool
	// MmapCalls counts Mmap calls since the last ResetLog.
	MmapCalls int
	// Mapped lists the regions returned by Mmap since the last ResetLog.
	Mapped [][]byte
)

// ResetLog clears the logs.
func ResetLog() {
	ProtLog = ProtLog[:0]
	for k := range Pages {
		delete(Pages, k)
	}
	MmapCalls = 0
	Mapped = nil
}

// Getpagesize .
func Getpagesize() int { return syscall.Getpagesize() }

// MprotectDeny, when set, decides which protection requests the environment refuses with EACCES
// (a W^X policy refuses PROT_WRITE|PROT_EXEC); refused requests never reach the kernel.
var MprotectDeny func(prot int) bool

// Mprotect forwards to the kernel between two scheduling points.
func Mprotect(b []byte, prot int) error {
	sched.Point("syscall.Mprotect:request", nil)
	var err error
	if MprotectDeny != nil && MprotectDeny(prot) {
		err = syscall.EACCES
	} else {
		err = syscall.Mprotect(b, prot)
	}
	if Logging && len(b) > 0 {
		addr := uintptr(unsafe.Pointer(&b[0]))
		ProtLog = append(ProtLog, ProtCall{addr, len(b), prot, sched.Self(), err != nil})
		if err == nil {
			ps := uintptr(syscall.Getpagesize())
			for p := addr &^ (ps - 1); p < addr+uintptr(len(b)); p += ps {
				Pages[p] = prot
			}
		}
	}
	sched.Point("syscall.Mprotect:answer", nil)
	return err
}

// Mmap forwards to the kernel (or fails on request) between two scheduling points.
func Mmap(fd int, offset int64, length int, prot int, flags int) ([]byte, error) {
	sched.Point("syscall.Mmap:request", nil)
	n := MmapCalls
	MmapCalls++
	var (
		b   []byte
		err error
	)
	if MmapFail != nil && MmapFail(n) {
		err = syscall.ENOMEM
	} else {
		b, err = syscall.Mmap(fd, offset, length, prot, flags)
		if err == nil {
			Mapped = append(Mapped, b)
		}
	}
	sched.Point("syscall.Mmap:answer", nil)
	return b, err
}

// Munmap .
func Munmap(b []byte) error { return syscall.Munmap(b) }

// Getpid .
func Getpid() int { return syscall.Getpid() }

// Raw system calls: mprotect issued through syscall.Syscall is the same environment seam.
const (
	SYS_MPROTECT = syscall.SYS_MPROTECT
	SYS_MMAP     = syscall.SYS_MMAP
	SYS_MUNMAP   = syscall.SYS_MUNMAP
)

// Syscall forwards a raw system call; SYS_MPROTECT is logged and bracketed by scheduling points
// exactly like Mprotect.
func Syscall(trap, a1, a2, a3 uintptr) (r1, r2 uintptr, err Errno) {
	if trap != syscall.SYS_MPROTECT {
		return syscall.Syscall(trap, a1, a2, a3)
	}
	sched.Point("syscall.Syscall(SYS_MPROTECT):request", nil)
	if MprotectDeny != nil && MprotectDeny(int(a3)) {
		r1, err = ^uintptr(0), syscall.EACCES
	} else {
		r1, r2, err = syscall.Syscall(trap, a1, a2, a3)
	}
	if Logging && a2 > 0 {
		ProtLog = append(ProtLog, ProtCall{a1, int(a2), int(a3), sched.Self(), err != 0})
		if err == 0 {
			ps := uintptr(syscall.Getpagesize())
			for p := a1 &^ (ps - 1); p < a1+a2; p += ps {
				Pages[p] = int(a3)
			}
		}
	}
	sched.Point("syscall.Syscall(SYS_MPROTECT):answer", nil)
	return
}
