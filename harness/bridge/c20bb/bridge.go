// Package c20bb re-exports only the exported API of goom's stub space allocator (no in-package
// file belongs to this bridge: the binary built on it compiles against any representation of the
// allocator's state).
package c20bb

import (
	"reflect"

	"github.com/tencent/goom/internal/bytecode/stub"
)

// Space is stub.Space (exported fields Addr and Space).
type Space = stub.Space

// Acquire is stub.Acquire.
func Acquire(n int) (*Space, error) { return stub.Acquire(n) }

// Write is stub.Write.
func Write(s *Space, data []byte) error { return stub.Write(s, data) }

// PlaceholderPC is the Go-visible entry of the assembly reserve.
func PlaceholderPC() uintptr { return reflect.ValueOf(stub.Placeholder).Pointer() }
