// Package zzverif is a virtual package (mapped by -overlay into the goom module) that
// re-exports internal pieces to the external harness module. Nothing is written under /repo.
package base

import (
	"github.com/tencent/goom/internal/patch"
)

// UnpatchAll removes every patch goom knows about.
func UnpatchAll() { patch.UnpatchAll() }

// JumpLen is the number of bytes goom overwrites at a mocked function's entry.
func JumpLen() int { return patch.VerifBaseJumpLen() }
