// Package c03 re-exports goom's prologue relocation to the harness.
package c03

import (
	"github.com/tencent/goom/internal/bytecode"
	"github.com/tencent/goom/internal/patch"
)

func Fix(from uintptr, code []byte, tramp uintptr, funcSize, least int) ([]byte, int, error) {
	return patch.VerifC03Fix(from, code, tramp, funcSize, least)
}
func JumpBack(from, to uintptr) []byte { return patch.VerifC03JumpBack(from, to) }
func JumpLen() int                     { return patch.VerifBaseJumpLen() }
func GetFuncSize(entry uintptr) (int, error) {
	return bytecode.GetFuncSize(64, entry, false)
}
func UnpatchAll() { patch.UnpatchAll() }

// Compose builds the whole trampoline in place (writes into the placeholder).
func Compose(origin, trampoline uintptr, jumpLen int) (uintptr, error) {
	return patch.VerifC03Compose(origin, trampoline, jumpLen)
}
