// Package c03 re-exports goom's prologue relocation to the harness.
package c03

import (
	"fmt"
	"unsafe"

	"github.com/tencent/goom/internal/bytecode"
	"github.com/tencent/goom/internal/patch"
)

func Fix(from uintptr, code []byte, tramp uintptr, funcSize, least int) ([]byte, int, error) {
	return patch.VerifC03Fix(from, code, tramp, funcSize, least)
}
func JumpBack(from, to uintptr) []byte { return patch.VerifC03JumpBack(from, to) }
func JumpLen() int                     { return patch.VerifBaseJumpLen() }
func GetFuncSize(entry uintptr) (int, error) {
	return bytecode.GetFuncSize(64, entry, false)
}
func UnpatchAll() { patch.UnpatchAll() }

func composeReplacement() {}

var composed int

// Compose builds the whole trampoline in place (writes into the placeholder) the way an apply with
// an origin placeholder does: through the package's exported entry point patch.PtrTrampoline
// (target by address, placeholder given as a function value whose code pointer is `trampoline`).
// The guard is never applied, so nothing is written to the target; a panic counts as a refusal.
func Compose(origin, trampoline uintptr, jumpLen int) (p uintptr, err error) {
	defer func() {
		if r := recover(); r != nil {
			err = fmt.Errorf("panic: %v", r)
		}
	}()
	if composed++; composed%4096 == 0 {
		patch.UnpatchAll() // only empties the registry: no guard is ever applied
	}
	fv := &struct{ code uintptr }{trampoline}
	placeholder := *(*func())(unsafe.Pointer(&fv))
	g, err := patch.PtrTrampoline(origin, composeReplacement, placeholder)
	if err != nil {
		return 0, err
	}
	return g.FixOriginFunc(), nil
}
