// Package c11 re-exports what the C11 harness needs from goom's internals.
package c11

import "github.com/tencent/goom/internal/patch"

func ForgetPatches()  { patch.VerifC11ForgetPatches() }
func PatchCount() int { return patch.VerifC11PatchCount() }
