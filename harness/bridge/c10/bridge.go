// Package c10 is a virtual package (mapped by -overlay into the goom module as
// github.com/tencent/goom/zzverif/c10) that re-exports the by-name symbol lookup of
// internal/unexports2 to the external harness module. Nothing is written under /repo.
package c10

import (
	"github.com/tencent/goom/internal/unexports2"
)

// FindFuncByName is unexports2.FindFuncByName (may panic in unreadable-table link modes).
func FindFuncByName(name string) (uintptr, error) { return unexports2.FindFuncByName(name) }

// FindVarByName is unexports2.FindVarByName (may panic in unreadable-table link modes).
func FindVarByName(name string) (uintptr, error) { return unexports2.FindVarByName(name) }
