// Package vatomic is a drop-in for the parts of sync/atomic goom uses: every operation is a
// scheduling point under an active exploration; the real atomic operation is always performed.
package vatomic

import (
	"sync/atomic"
	"unsafe"

	"github.com/tencent/goom/zzverif/sched"
)

func obs(p unsafe.Pointer, res uint64, cell uint64) { sched.Observe(uintptr(p), res, cell) }

// LoadInt32 .
func LoadInt32(addr *int32) int32 {
	sched.Point("atomic.LoadInt32", nil)
	v := atomic.LoadInt32(addr)
	obs(unsafe.Pointer(addr), uint64(uint32(v)), uint64(uint32(v)))
	return v
}

// AddInt32 .
func AddInt32(addr *int32, delta int32) int32 {
	sched.Point("atomic.AddInt32", nil)
	v := atomic.AddInt32(addr, delta)
	obs(unsafe.Pointer(addr), uint64(uint32(v)), uint64(uint32(v)))
	return v
}

// StoreInt32 .
func StoreInt32(addr *int32, val int32) {
	sched.Point("atomic.StoreInt32", nil)
	atomic.StoreInt32(addr, val)
	obs(unsafe.Pointer(addr), 0, uint64(uint32(val)))
}

// CompareAndSwapInt32 .
func CompareAndSwapInt32(addr *int32, old, new int32) bool {
	sched.Point("atomic.CompareAndSwapInt32", nil)
	ok := atomic.CompareAndSwapInt32(addr, old, new)
	r := uint64(0)
	if ok {
		r = 1
	}
	obs(unsafe.Pointer(addr), r, uint64(uint32(atomic.LoadInt32(addr))))
	return ok
}

// SwapInt32 .
func SwapInt32(addr *int32, new int32) int32 {
	sched.Point("atomic.SwapInt32", nil)
	v := atomic.SwapInt32(addr, new)
	obs(unsafe.Pointer(addr), uint64(uint32(v)), uint64(uint32(new)))
	return v
}

// LoadInt64 .
func LoadInt64(addr *int64) int64 {
	sched.Point("atomic.LoadInt64", nil)
	v := atomic.LoadInt64(addr)
	obs(unsafe.Pointer(addr), uint64(v), uint64(v))
	return v
}

// AddInt64 .
func AddInt64(addr *int64, delta int64) int64 {
	sched.Point("atomic.AddInt64", nil)
	v := atomic.AddInt64(addr, delta)
	obs(unsafe.Pointer(addr), uint64(v), uint64(v))
	return v
}

// StoreInt64 .
func StoreInt64(addr *int64, val int64) {
	sched.Point("atomic.StoreInt64", nil)
	atomic.StoreInt64(addr, val)
	obs(unsafe.Pointer(addr), 0, uint64(val))
}

// CompareAndSwapInt64 .
func CompareAndSwapInt64(addr *int64, old, new int64) bool {
	sched.Point("atomic.CompareAndSwapInt64", nil)
	ok := atomic.CompareAndSwapInt64(addr, old, new)
	r := uint64(0)
	if ok {
		r = 1
	}
	obs(unsafe.Pointer(addr), r, uint64(atomic.LoadInt64(addr)))
	return ok
}

// LoadUint32 .
func LoadUint32(addr *uint32) uint32 {
	sched.Point("atomic.LoadUint32", nil)
	v := atomic.LoadUint32(addr)
	obs(unsafe.Pointer(addr), uint64(v), uint64(v))
	return v
}

// AddUint32 .
func AddUint32(addr *uint32, delta uint32) uint32 {
	sched.Point("atomic.AddUint32", nil)
	v := atomic.AddUint32(addr, delta)
	obs(unsafe.Pointer(addr), uint64(v), uint64(v))
	return v
}

// StoreUint32 .
func StoreUint32(addr *uint32, val uint32) {
	sched.Point("atomic.StoreUint32", nil)
	atomic.StoreUint32(addr, val)
	obs(unsafe.Pointer(addr), 0, uint64(val))
}

// CompareAndSwapUint32 .
func CompareAndSwapUint32(addr *uint32, old, new uint32) bool {
	sched.Point("atomic.CompareAndSwapUint32", nil)
	ok := atomic.CompareAndSwapUint32(addr, old, new)
	r := uint64(0)
	if ok {
		r = 1
	}
	obs(unsafe.Pointer(addr), r, uint64(atomic.LoadUint32(addr)))
	return ok
}

// LoadUintptr .
func LoadUintptr(addr *uintptr) uintptr {
	sched.Point("atomic.LoadUintptr", nil)
	v := atomic.LoadUintptr(addr)
	obs(unsafe.Pointer(addr), uint64(v), uint64(v))
	return v
}

// AddUintptr .
func AddUintptr(addr *uintptr, delta uintptr) uintptr {
	sched.Point("atomic.AddUintptr", nil)
	v := atomic.AddUintptr(addr, delta)
	obs(unsafe.Pointer(addr), uint64(v), uint64(v))
	return v
}

// StoreUintptr .
func StoreUintptr(addr *uintptr, val uintptr) {
	sched.Point("atomic.StoreUintptr", nil)
	atomic.StoreUintptr(addr, val)
	obs(unsafe.Pointer(addr), 0, uint64(val))
}

// CompareAndSwapUintptr .
func CompareAndSwapUintptr(addr *uintptr, old, new uintptr) bool {
	sched.Point("atomic.CompareAndSwapUintptr", nil)
	ok := atomic.CompareAndSwapUintptr(addr, old, new)
	r := uint64(0)
	if ok {
		r = 1
	}
	obs(unsafe.Pointer(addr), r, uint64(atomic.LoadUintptr(addr)))
	return ok
}

// LoadUint64 .
func LoadUint64(addr *uint64) uint64 {
	sched.Point("atomic.LoadUint64", nil)
	v := atomic.LoadUint64(addr)
	obs(unsafe.Pointer(addr), v, v)
	return v
}

// AddUint64 .
func AddUint64(addr *uint64, delta uint64) uint64 {
	sched.Point("atomic.AddUint64", nil)
	v := atomic.AddUint64(addr, delta)
	obs(unsafe.Pointer(addr), v, v)
	return v
}

// StoreUint64 .
func StoreUint64(addr *uint64, val uint64) {
	sched.Point("atomic.StoreUint64", nil)
	atomic.StoreUint64(addr, val)
	obs(unsafe.Pointer(addr), 0, val)
}

// CompareAndSwapUint64 .
func CompareAndSwapUint64(addr *uint64, old, new uint64) bool {
	sched.Point("atomic.CompareAndSwapUint64", nil)
	ok := atomic.CompareAndSwapUint64(addr, old, new)
	r := uint64(0)
	if ok {
		r = 1
	}
	obs(unsafe.Pointer(addr), r, atomic.LoadUint64(addr))
	return ok
}

// Typed atomics are passed through unchanged (goom does not use them).
type (
	Int32   = atomic.Int32
	Int64   = atomic.Int64
	Uint32  = atomic.Uint32
	Uint64  = atomic.Uint64
	Uintptr = atomic.Uintptr
	Bool    = atomic.Bool
	Value   = atomic.Value
)

// Pointer operations: the value is observed as nil / non-nil only (heap addresses differ between runs).
func pbit(p unsafe.Pointer) uint64 {
	if p == nil {
		return 0
	}
	return 1
}

// LoadPointer .
func LoadPointer(addr *unsafe.Pointer) unsafe.Pointer {
	sched.Point("atomic.LoadPointer", nil)
	v := atomic.LoadPointer(addr)
	obs(unsafe.Pointer(addr), pbit(v), pbit(v))
	return v
}

// StorePointer .
func StorePointer(addr *unsafe.Pointer, val unsafe.Pointer) {
	sched.Point("atomic.StorePointer", nil)
	atomic.StorePointer(addr, val)
	obs(unsafe.Pointer(addr), 0, pbit(val))
}

// SwapPointer .
func SwapPointer(addr *unsafe.Pointer, new unsafe.Pointer) unsafe.Pointer {
	sched.Point("atomic.SwapPointer", nil)
	v := atomic.SwapPointer(addr, new)
	obs(unsafe.Pointer(addr), pbit(v), pbit(new))
	return v
}

// CompareAndSwapPointer .
func CompareAndSwapPointer(addr *unsafe.Pointer, old, new unsafe.Pointer) bool {
	sched.Point("atomic.CompareAndSwapPointer", nil)
	ok := atomic.CompareAndSwapPointer(addr, old, new)
	r := uint64(0)
	if ok {
		r = 1
	}
	obs(unsafe.Pointer(addr), r, pbit(atomic.LoadPointer(addr)))
	return ok
}

// SwapInt64 .
func SwapInt64(addr *int64, new int64) int64 {
	sched.Point("atomic.SwapInt64", nil)
	v := atomic.SwapInt64(addr, new)
	obs(unsafe.Pointer(addr), uint64(v), uint64(new))
	return v
}

// SwapUint32 .
func SwapUint32(addr *uint32, new uint32) uint32 {
	sched.Point("atomic.SwapUint32", nil)
	v := atomic.SwapUint32(addr, new)
	obs(unsafe.Pointer(addr), uint64(v), uint64(new))
	return v
}

// SwapUint64 .
func SwapUint64(addr *uint64, new uint64) uint64 {
	sched.Point("atomic.SwapUint64", nil)
	v := atomic.SwapUint64(addr, new)
	obs(unsafe.Pointer(addr), v, new)
	return v
}

// SwapUintptr .
func SwapUintptr(addr *uintptr, new uintptr) uintptr {
	sched.Point("atomic.SwapUintptr", nil)
	v := atomic.SwapUintptr(addr, new)
	obs(unsafe.Pointer(addr), uint64(v), uint64(new))
	return v
}
