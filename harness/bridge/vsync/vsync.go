// Package vsync is a drop-in for the parts of package sync that goom uses. Under an active
// exploration every operation is a scheduling point and locks are modelled; otherwise the real
// primitives are used.
package vsync

import (
	"sync"

	"github.com/tencent/goom/zzverif/sched"
)

// Locker mirrors sync.Locker.
type Locker = sync.Locker

// WaitGroup etc. are passed through unchanged.
type (
	WaitGroup = sync.WaitGroup
	Map       = sync.Map
	Pool      = sync.Pool
	Cond      = sync.Cond
)

// registry of modelled primitives touched during explorations (so that an aborted execution
// can be cleaned up)
var (
	regM  []*Mutex
	regRW []*RWMutex
)

// ResetAll releases every modelled lock (after an aborted execution left threads parked).
func ResetAll() {
	for _, m := range regM {
		m.owner = 0
	}
	for _, m := range regRW {
		m.writer, m.readers, m.announced = 0, 0, 0
	}
}

// Held reports whether any modelled lock is currently held.
func Held() bool {
	for _, m := range regM {
		if m.owner != 0 {
			return true
		}
	}
	for _, m := range regRW {
		if m.writer != 0 || m.readers != 0 || m.announced != 0 {
			return true
		}
	}
	return false
}

// Mutex is a modelled mutex.
type Mutex struct {
	real  sync.Mutex
	owner int // 0 = free, else thread id + 1
	reg   bool
}

func (m *Mutex) register() {
	if !m.reg {
		m.reg = true
		regM = append(regM, m)
	}
}

// Lock acquires the mutex.
func (m *Mutex) Lock() {
	if !sched.Active() {
		m.real.Lock()
		return
	}
	m.register()
	sched.Point("Mutex.Lock", func() bool { return m.owner == 0 })
	if m.owner != 0 {
		panic("vsync: scheduled onto a held mutex")
	}
	m.owner = sched.Self() + 1
}

// Unlock releases the mutex.
func (m *Mutex) Unlock() {
	if !sched.Active() {
		m.real.Unlock()
		return
	}
	sched.Point("Mutex.Unlock", nil)
	if m.owner == 0 {
		panic("sync: unlock of unlocked mutex")
	}
	m.owner = 0
}

// TryLock tries to acquire the mutex.
func (m *Mutex) TryLock() bool {
	if !sched.Active() {
		return m.real.TryLock()
	}
	sched.Point("Mutex.TryLock", nil)
	if m.owner != 0 {
		return false
	}
	m.owner = sched.Self() + 1
	return true
}

// RWMutex is a modelled reader/writer mutex with Go's documented writer preference: a Lock call
// first announces itself (from then on no new RLock succeeds — "a blocked Lock call excludes new
// readers from acquiring the lock") and then waits for the active readers to leave. A read lock
// taken recursively while a writer is announced therefore deadlocks, as it does in the real thing.
type RWMutex struct {
	real      sync.RWMutex
	writer    int // holder of the write lock
	announced int // writer that has announced itself (holds the writers' mutex), waiting or holding
	readers   int
	reg       bool
}

func (m *RWMutex) register() {
	if !m.reg {
		m.reg = true
		regRW = append(regRW, m)
	}
}

// Lock acquires the write lock.
func (m *RWMutex) Lock() {
	if !sched.Active() {
		m.real.Lock()
		return
	}
	m.register()
	sched.Point("RWMutex.Lock:announce", func() bool { return m.announced == 0 })
	m.announced = sched.Self() + 1
	sched.Point("RWMutex.Lock:acquire", func() bool { return m.readers == 0 })
	m.writer = sched.Self() + 1
}

// Unlock releases the write lock.
func (m *RWMutex) Unlock() {
	if !sched.Active() {
		m.real.Unlock()
		return
	}
	sched.Point("RWMutex.Unlock", nil)
	if m.writer == 0 {
		panic("sync: Unlock of unlocked RWMutex")
	}
	m.writer, m.announced = 0, 0
}

// RLock acquires a read lock.
func (m *RWMutex) RLock() {
	if !sched.Active() {
		m.real.RLock()
		return
	}
	m.register()
	sched.Point("RWMutex.RLock", func() bool { return m.announced == 0 })
	m.readers++
}

// RUnlock releases a read lock.
func (m *RWMutex) RUnlock() {
	if !sched.Active() {
		m.real.RUnlock()
		return
	}
	sched.Point("RWMutex.RUnlock", nil)
	if m.readers == 0 {
		panic("sync: RUnlock of unlocked RWMutex")
	}
	m.readers--
}

// RLocker returns a Locker for the read side.
func (m *RWMutex) RLocker() Locker { return (*rlocker)(m) }

type rlocker RWMutex

func (r *rlocker) Lock()   { (*RWMutex)(r).RLock() }
func (r *rlocker) Unlock() { (*RWMutex)(r).RUnlock() }

// Once is a modelled sync.Once.
type Once struct {
	real    sync.Once
	state   int // 0 not started, 1 running, 2 done
}

// Do runs f once.
func (o *Once) Do(f func()) {
	if !sched.Active() {
		o.real.Do(func() {
			f()
			o.state = 2
		})
		return
	}
	sched.Point("Once.Do", func() bool { return o.state != 1 })
	if o.state == 2 {
		return
	}
	o.state = 1
	defer func() { o.state = 2 }()
	// keep the real Once consistent for later fall-through use
	o.real.Do(f)
}
