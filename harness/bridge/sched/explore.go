package sched

import "fmt"

// Scenario is a closed concurrent test: Setup builds a fresh world and returns the thread
// bodies; Check judges one complete execution ("" = fine).
type Scenario struct {
	Name    string
	Setup   func() []func()
	Check   func(x *Execution) string
	AtPoint func(x *Execution) string
	Extra   func() string // additional shared state for the state key (may be nil)
	Horizon int
}

// Stats of one exploration.
type Stats struct {
	Executions     int64
	Points         int64
	WithPreemption int64 // executions containing at least one preemption
	MaxPreemptions int
	DistinctStates int
	Outcomes       map[string]int64 // outcome signature -> count (filled by the caller through Outcome)
	Pruned         int64
	Complete       bool // the whole space below the bound was explored
	Deadlocks      int64
}

// Explorer performs the stateless depth-first search of the brief: replay a choice prefix,
// default choice 0 afterwards; alternatives at every later point whose preemption cost stays
// within Bound (Bound < 0 = unbounded). With Cache, alternatives are not expanded from a state
// key that has been expanded before (only sound for unbounded search).
type Explorer struct {
	Bound   int
	Cache   bool
	Stop    func() bool // polled between executions (budget / enough violations)
	OnExec  func(x *Execution, failure string) bool // return false to stop
	// BeforeExec is told the choice prefix about to be executed (crash side file).
	BeforeExec func(prefix []int)
	Stats   Stats
	visited map[string]struct{}
	// Shard selection: only prefixes whose top-level branch index i satisfies i%NShards==Shard
	Shard, NShards int
	// ShardDepth is the depth of the executions whose alternatives are distributed (0 = the
	// root's). Executions above that depth are run by every shard (and counted by shard 0 only).
	ShardDepth int
	branch     int
	stopped        bool
}

// Explore runs the scenario exhaustively within the bound.
func (e *Explorer) Explore(sc Scenario) {
	if e.Cache {
		e.visited = map[string]struct{}{}
	}
	if e.NShards == 0 {
		e.NShards = 1
	}
	e.Stats.Outcomes = map[string]int64{}
	e.Stats.Complete = true
	e.explore(sc, nil, 0)
	if e.stopped {
		e.Stats.Complete = false
	}
	e.Stats.DistinctStates = len(e.visited)
}

// RunOnce executes one schedule (replay).
func RunOnce(sc Scenario, prefix []int, stateKey bool) (*Execution, string) {
	bodies := sc.Setup()
	x := Run(bodies, Options{Prefix: prefix, Horizon: sc.Horizon, AtPoint: sc.AtPoint, StateKey: stateKey, Extra: sc.Extra})
	return x, judge(sc, x)
}

func judge(sc Scenario, x *Execution) string {
	if d := x.Divergence(); d != "" {
		return d
	}
	if x.InvariantFailure != "" {
		return "invariant: " + x.InvariantFailure
	}
	if x.Deadlock {
		return "deadlock: no thread enabled but some unfinished"
	}
	if x.Truncated {
		return fmt.Sprintf("horizon of %d decision points exceeded (livelock?)", len(x.Points))
	}
	return sc.Check(x)
}

func (e *Explorer) explore(sc Scenario, prefix []int, depth int) {
	if e.stopped {
		return
	}
	if e.Stop != nil && e.Stop() {
		e.stopped = true
		return
	}
	if e.BeforeExec != nil {
		e.BeforeExec(prefix)
	}
	x, failure := RunOnce(sc, prefix, e.Cache)
	if depth > e.ShardDepth || e.Shard == 0 || e.NShards <= 1 {
		e.Stats.Executions++
		e.Stats.Points += int64(len(x.Points))
		if x.Deadlock {
			e.Stats.Deadlocks++
		}
		if p := x.Preemptions(); p > 0 {
			e.Stats.WithPreemption++
			if p > e.Stats.MaxPreemptions {
				e.Stats.MaxPreemptions = p
			}
		}
	}
	if e.OnExec != nil && !e.OnExec(x, failure) {
		e.stopped = true
		return
	}
	for i := len(prefix); i < len(x.Points); i++ {
		p := x.Points[i]
		if e.Cache {
			k := x.StateKeys[i]
			if _, ok := e.visited[k]; ok {
				e.Stats.Pruned++
				// the rest of this execution continues from a state already expanded
				break
			}
			e.visited[k] = struct{}{}
		}
		base := x.PreemptionsBefore(i)
		for alt := 1; alt < len(p.Enabled); alt++ {
			cost := base
			if p.RunningStillEnabled {
				cost++ // switching away from a runnable thread is a preemption
			}
			if e.Bound >= 0 && cost > e.Bound {
				continue
			}
			if depth == e.ShardDepth && e.NShards > 1 {
				// branches at the sharding depth are distributed over the shards
				mine := e.branch%e.NShards == e.Shard
				e.branch++
				if !mine {
					continue
				}
			}
			np := append(append(make([]int, 0, i+1), x.Choices[:i]...), alt)
			e.explore(sc, np, depth+1)
			if e.stopped {
				return
			}
		}
	}
}
