// Package sched is a controlled (cooperative) scheduler and stateless interleaving explorer.
//
// Managed threads are goroutines that run strictly one at a time. Every hooked operation
// (vsync / vatomic / vsys shims, or explicit Yield calls in harness code) calls Point before it
// executes: the thread parks and the explorer chooses which thread runs next. Locks are
// modelled (owner / readers), so acquiring a held lock disables the thread instead of blocking
// the OS thread. Outside an exploration the shims fall through to the real operations.
//
// The package lives inside the goom module (virtual package, -overlay) because the rewritten
// goom files import the shims, which import this package.
package sched

import (
	"fmt"
	"runtime/debug"
	"strings"
)

// Execution is one run of all threads under one schedule.
type Execution struct {
	threads []*thread
	running int
	parked  chan int // thread id that just parked / finished

	// Choices[i] is the index (into the canonical enabled order) chosen at point i.
	Choices []int
	// Points[i] describes the decision point i.
	Points []PointInfo
	// Log is the real-time ordered event log (Event calls and panics).
	Log []Event
	// Panics per thread ("" = none).
	Panics []string
	// Deadlock is set when no thread is enabled but some are unfinished.
	Deadlock bool
	// Truncated is set when the step horizon was hit.
	Truncated bool
	// InvariantFailure is the first failure reported by the AtPoint callback.
	InvariantFailure string

	prefix  []int
	horizon int
	atPoint func(x *Execution) string
	stateFn func(x *Execution) string
	// per-thread observation hashes (results of hooked operations)
	obs []uint64
	pcs []int
	// cells holds the current values of shared cells touched through vatomic (addr -> value)
	cells map[uintptr]uint64
	// StateKeys[i] is the state key at point i (only when state caching is on).
	StateKeys []string
}

// PointInfo is recorded per decision point.
type PointInfo struct {
	Enabled             []int // thread ids in canonical order (running first if enabled, then ascending)
	Chosen              int   // thread id chosen
	Prev                int   // thread that ran before this point (-1 at the start)
	RunningStillEnabled bool
	Kind                string // kind of the operation the previously running thread parked at
}

// Event is a harness-level log entry.
type Event struct {
	Thread int
	What   string
	Val    int64
}

type thread struct {
	id      int
	wake    chan struct{}
	done    bool
	started bool
	enabled func() bool // predicate of the operation the thread is parked at (nil = always)
	kind    string
}

var cur *Execution

// Active reports whether an exploration execution is in progress.
func Active() bool { return cur != nil }

// Self returns the id of the running managed thread (-1 outside an execution).
func Self() int {
	if cur == nil {
		return -1
	}
	return cur.running
}

// Point is called by a managed thread before a hooked operation. enabled (may be nil) tells
// whether the operation can proceed; the thread is only resumed when it can.
func Point(kind string, enabled func() bool) {
	x := cur
	if x == nil {
		return
	}
	t := x.threads[x.running]
	t.enabled = enabled
	t.kind = kind
	x.pcs[t.id]++
	x.parked <- t.id
	<-t.wake
	t.enabled = nil
}

// Yield is an explicit scheduling point for harness code (e.g. between two calls).
func Yield(kind string) { Point(kind, nil) }

// Observe mixes the result of a hooked operation into the running thread's observation hash
// (used by the state key) and records the cell value.
func Observe(addr uintptr, result uint64, cellValue uint64) {
	x := cur
	if x == nil {
		return
	}
	id := x.running
	h := x.obs[id]
	h ^= result + 0x9e3779b97f4a7c15 + (h << 6) + (h >> 2)
	x.obs[id] = h
	if addr != 0 {
		x.cells[addr] = cellValue
	}
}

// Log appends a harness event in real-time order.
func Log(what string, val int64) {
	x := cur
	if x == nil {
		return
	}
	x.Log = append(x.Log, Event{x.running, what, val})
}

// DivergenceError is raised (panic) when a replayed prefix does not fit the execution.
type DivergenceError struct{ Msg string }

func (d DivergenceError) Error() string { return d.Msg }

// Options of one execution.
type Options struct {
	Prefix  []int
	Horizon int // maximum number of decision points (0 = 100000)
	AtPoint func(x *Execution) string
	// StateKey enables state keys: extra returns harness-visible shared state to be mixed in.
	StateKey bool
	Extra    func() string
}

// Run executes bodies under the schedule given by opt.Prefix (choice 0 afterwards).
func Run(bodies []func(), opt Options) *Execution {
	if cur != nil {
		panic("sched: nested Run")
	}
	x := &Execution{
		parked:  make(chan int),
		prefix:  opt.Prefix,
		horizon: opt.Horizon,
		atPoint: opt.AtPoint,
		obs:     make([]uint64, len(bodies)),
		pcs:     make([]int, len(bodies)),
		cells:   map[uintptr]uint64{},
		Panics:  make([]string, len(bodies)),
		running: -1,
	}
	if x.horizon == 0 {
		x.horizon = 100000
	}
	for i, b := range bodies {
		t := &thread{id: i, wake: make(chan struct{})}
		x.threads = append(x.threads, t)
		body := b
		go func() {
			<-t.wake
			defer func() {
				if r := recover(); r != nil {
					if d, ok := r.(DivergenceError); ok {
						x.Panics[t.id] = "DIVERGENCE: " + d.Msg
					} else {
						st := string(debug.Stack())
						x.Panics[t.id] = fmt.Sprint(r) + "\n" + trimStack(st)
					}
					x.Log = append(x.Log, Event{t.id, "panic", 0})
				}
				t.done = true
				x.parked <- t.id
			}()
			debug.SetPanicOnFault(true)
			body()
		}()
	}
	cur = x
	prev := -1
	for step := 0; ; step++ {
		var en []int
		prevEnabled := false
		unfinished := 0
		for _, t := range x.threads {
			if t.done {
				continue
			}
			unfinished++
			if t.enabled == nil || t.enabled() {
				if t.id == prev {
					prevEnabled = true
				} else {
					en = append(en, t.id)
				}
			}
		}
		if prevEnabled {
			en = append([]int{prev}, en...)
		}
		if unfinished == 0 {
			break
		}
		if len(en) == 0 {
			x.Deadlock = true
			break
		}
		if step >= x.horizon {
			x.Truncated = true
			break
		}
		if x.atPoint != nil && x.InvariantFailure == "" {
			if f := x.atPoint(x); f != "" {
				x.InvariantFailure = fmt.Sprintf("at decision point %d: %s", step, f)
				// abort: do not run any thread in a state that violates the invariant
				break
			}
		}
		if opt.StateKey {
			x.StateKeys = append(x.StateKeys, x.stateKey(opt.Extra))
		}
		choice := 0
		if step < len(x.prefix) {
			choice = x.prefix[step]
			if choice < 0 || choice >= len(en) {
				cur = nil
				panic(DivergenceError{fmt.Sprintf("replayed choice %d out of range (%d enabled) at point %d", choice, len(en), step)})
			}
		}
		kind := ""
		if prev >= 0 {
			kind = x.threads[prev].kind
		}
		x.Choices = append(x.Choices, choice)
		x.Points = append(x.Points, PointInfo{Enabled: en, Chosen: en[choice], Prev: prev, RunningStillEnabled: prevEnabled, Kind: kind})
		t := x.threads[en[choice]]
		x.running = t.id
		t.wake <- struct{}{}
		<-x.parked
		prev = t.id
	}
	cur = nil
	// threads left parked (deadlock / horizon) are abandoned: they stay blocked forever on wake.
	return x
}

func (x *Execution) stateKey(extra func() string) string {
	var sb strings.Builder
	for _, t := range x.threads {
		fmt.Fprintf(&sb, "%d:%v:%d:%x|", t.id, t.done, x.pcs[t.id], x.obs[t.id])
	}
	// cells in address order
	addrs := make([]uintptr, 0, len(x.cells))
	for a := range x.cells {
		addrs = append(addrs, a)
	}
	for i := 1; i < len(addrs); i++ {
		for j := i; j > 0 && addrs[j] < addrs[j-1]; j-- {
			addrs[j], addrs[j-1] = addrs[j-1], addrs[j]
		}
	}
	for i, a := range addrs {
		fmt.Fprintf(&sb, "c%d=%x|", i, x.cells[a])
	}
	if extra != nil {
		sb.WriteString(extra())
	}
	return sb.String()
}

// PreemptionsBefore counts preemptions in points [0,i).
func (x *Execution) PreemptionsBefore(i int) int {
	n := 0
	for k := 0; k < i && k < len(x.Points); k++ {
		p := x.Points[k]
		if p.RunningStillEnabled && p.Chosen != p.Prev {
			n++
		}
	}
	return n
}

// Preemptions counts all preemptions of the execution.
func (x *Execution) Preemptions() int { return x.PreemptionsBefore(len(x.Points)) }

// Divergence returns a non-empty message if any thread reported a divergence.
func (x *Execution) Divergence() string {
	for _, p := range x.Panics {
		if strings.HasPrefix(p, "DIVERGENCE") {
			return p
		}
	}
	return ""
}

func trimStack(s string) string {
	lines := strings.Split(s, "\n")
	var keep []string
	for _, l := range lines {
		if strings.HasPrefix(l, "\t") || strings.HasPrefix(l, "goroutine") {
			continue // file:line +0xoff lines carry addresses
		}
		if strings.Contains(l, "goom") || strings.Contains(l, "verifh") {
			// function name only: arguments are addresses and differ between runs
			if i := strings.LastIndex(l, "("); i > 0 {
				l = l[:i]
			}
			if strings.Contains(l, "sched.Run") || strings.Contains(l, "vk.Try") {
				continue
			}
			keep = append(keep, strings.TrimSpace(l))
		}
		if len(keep) >= 12 {
			break
		}
	}
	return strings.Join(keep, " < ")
}
