// Package c16 is a virtual package (mapped by -overlay into the goom module as
// github.com/tencent/goom/zzverif/c16) that re-exports goom's bundled x86 decoder to the
// external harness module. Nothing is written under /repo.
package c16

import "github.com/tencent/goom/internal/arch/x86asm"

// Inst is goom's decoded instruction.
type Inst = x86asm.Inst

// Decode is goom's x86asm.Decode, unchanged.
func Decode(src []byte, mode int) (Inst, error) { return x86asm.Decode(src, mode) }
