// Package c17 is a virtual package (mapped by -overlay into the goom module as
// github.com/tencent/goom/zzverif/c17) that re-exports goom's bundled arm64 decoder to the
// external harness module. Nothing is written under /repo.
package c17

import "github.com/tencent/goom/internal/arch/arm64asm"

// Inst is goom's decoded instruction; PCRel its PC-relative argument type.
type (
	Inst  = arm64asm.Inst
	PCRel = arm64asm.PCRel
)

// Decode is goom's arm64asm.Decode, unchanged.
func Decode(src []byte) (Inst, error) { return arm64asm.Decode(src) }
