// Package c15 is a virtual package (mapped by -overlay into the goom module as
// github.com/tencent/goom/zzverif/c15) that re-exports the amd64 jump emitters of
// internal/patch and internal/iface to the external harness module.
package c15

import (
	"github.com/tencent/goom/internal/iface"
	"github.com/tencent/goom/internal/patch"
)

// JmpToFunctionValue is patch.jmpToFunctionValue (divert a function: NOP; MOVABS RDX; JMP [RDX]).
func JmpToFunctionValue(from, to uintptr) []byte { return patch.VerifC15JmpToFunctionValue(from, to) }

// JmpToOriginFunctionValue is patch.jmpToOriginFunctionValue (return from a trampoline).
func JmpToOriginFunctionValue(from, to uintptr) []byte {
	return patch.VerifC15JmpToOriginFunctionValue(from, to)
}

// Relative is patch.relative (the rel32 / absolute decision).
func Relative(from, to uintptr) bool { return patch.VerifC15Relative(from, to) }

// CheckAlreadyPatch is patch.checkAlreadyPatch.
func CheckAlreadyPatch(code []byte) bool { return patch.VerifC15CheckAlreadyPatch(code) }

// JmpWithRdx is iface.jmpWithRdx (enter an interface stub).
func JmpWithRdx(dx uintptr) []byte { return iface.VerifC15JmpWithRdx(dx) }
