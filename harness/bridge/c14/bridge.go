// Package c14 is a virtual package (mapped by -overlay into the goom module as
// github.com/tencent/goom/zzverif/c14) that re-exports the patching and text-writing internals
// to the external harness module. Nothing is written under /repo.
package c14

import (
	"reflect"
	"unsafe"

	"github.com/tencent/goom/internal/iface"

	"github.com/tencent/goom/internal/bytecode"
	"github.com/tencent/goom/internal/bytecode/memory"
	"github.com/tencent/goom/internal/bytecode/stub"
	"github.com/tencent/goom/internal/patch"
)

// Guard is patch.Guard (Apply, UnpatchWithLock, Restore).
type Guard = patch.Guard

// Patch is patch.Patch.
func Patch(target, replacement interface{}) (*Guard, error) { return patch.Patch(target, replacement) }

// Trampoline is patch.Trampoline (target, replacement, origin placeholder).
func Trampoline(target, replacement, trampoline interface{}) (*Guard, error) {
	return patch.Trampoline(target, replacement, trampoline)
}

// Ptr is patch.Ptr (target given by address).
func Ptr(target uintptr, replacement interface{}) (*Guard, error) {
	return patch.Ptr(target, replacement)
}

// Unpatch is patch.Unpatch.
func Unpatch(target interface{}) bool { return patch.Unpatch(target) }

// UnpatchAll is patch.UnpatchAll.
func UnpatchAll() { patch.UnpatchAll() }

// Patches is the size of the patch registry.
func Patches() int { return patch.VerifC14Patches() }

// JumpLen is the length of the entry jump, as produced by goom's own emitter.
func JumpLen() int { return patch.VerifC14JumpLen() }

// GetFuncSize is bytecode.GetFuncSize exactly as genJumpData calls it.
func GetFuncSize(entry uintptr) (int, error) {
	return bytecode.GetFuncSize(patch.VerifC14ArchMod(), entry, false)
}

// WriteTo is memory.WriteTo.
func WriteTo(addr uintptr, data []byte) error { return memory.WriteTo(addr, data) }

// RawRead is memory.RawRead.
func RawRead(addr uintptr, n int) []byte { return memory.RawRead(addr, n) }

// PlaceholderAddr is the entry address of the assembly function stub.Placeholder.
func PlaceholderAddr() uintptr { return reflect.ValueOf(stub.Placeholder).Pointer() }

// MakeMethodCaller / MakeMethodCallerWithCtx are the two makers of interface-method stubs (the stub is acquired
// from the stub space and written there).
func MakeMethodCaller(to unsafe.Pointer) (uintptr, error) { return iface.MakeMethodCaller(to) }

// MakeMethodCallerWithCtx .
func MakeMethodCallerWithCtx(ctx unsafe.Pointer, to uintptr) (uintptr, error) {
	return iface.MakeMethodCallerWithCtx(ctx, to)
}
