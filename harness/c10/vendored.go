package c10

// The net package links a vendored copy of golang.org/x/net/dns/dnsmessage
// ("vendor/golang.org/x/net/dns/dnsmessage.*"): names with and without the "vendor/" prefix are different
// packages, and only the former exist in this binary.
import _ "net"
