// Package c10 — symbol lookup by name yields the exact run-time address or an error.
//
// Engine E, exhaustive over the symbol tables of the running binary. Ground truth never comes
// from goom:
//
//   - functions: the runtime's own function table, recovered by walking every executable page
//     of the program image with runtime.FuncForPC (entry PC + name as the runtime reports them);
//     where the ELF .gopclntab section is readable (default and -s links) an independent
//     debug/gosym reading supplies the untranslated symbol names (the runtime prints generic
//     instantiations as "[...]") and every such entry is confirmed against the runtime;
//   - variables: &v of ≥ 200 generated package variables (verifh/targets/c10vars); in the default
//     link mode additionally every entry of the ELF symbol table (non-PIE: value == address).
//
// For every name: the lookup itself, the lookup through the *other* API, and eight near-miss
// mutations. Oracle: a returned address must be the address of a symbol that bears exactly the
// queried name; in the default link mode a present, unambiguous name must resolve. A panic
// counts as an error.
package c10

import (
	"debug/elf"
	"debug/gosym"
	"fmt"
	"os"
	"runtime"
	"sort"
	"strconv"
	"strings"
	"sync"
	"syscall"
	"unicode"
	"unicode/utf8"

	gc10 "github.com/tencent/goom/zzverif/c10"
	dotpkg "verifh/targets/c10dot/pkg.v1"
	"verifh/targets/c10vars"
	"verifh/vk"
)

// Case is the replayable artefact: one query.
type Case struct {
	Sub      string `json:"sub"`      // link configuration: default | strip | pie
	API      string `json:"api"`      // FindFuncByName | FindVarByName
	Base     string `json:"base"`     // table name the query was derived from
	Mutation string `json:"mutation"` // "" (the name itself) or one of the near-miss kinds
	Query    string `json:"query"`    // the string handed to goom
}

const (
	apiFunc = "FindFuncByName"
	apiVar  = "FindVarByName"
)

var mutationKinds = []string{"drop-last-byte", "append-0", "swap-case-of-base", "strip-package", "duplicate-last-dot", "unescape-import-path", "import-path-without-first-element", "import-path-last-element-only", "vendored-name-without-vendor-prefix"}

var keepDot = dotpkg.Keep(1)

func init() { dotpkg.Bump() }

// canon is the Go spelling of a linker symbol name: %xx escapes in the import path undone.
func canon(name string) string {
	if !strings.Contains(name, "%") {
		return name
	}
	var b strings.Builder
	for i := 0; i < len(name); i++ {
		if name[i] == '%' && i+2 < len(name) {
			if v, err := strconv.ParseUint(name[i+1:i+3], 16, 8); err == nil {
				b.WriteByte(byte(v))
				i += 2
				continue
			}
		}
		b.WriteByte(name[i])
	}
	return b.String()
}

// mutate returns the near-miss of kind k (ok=false when the mutation is not applicable).
func mutate(name string, k int) (string, bool) {
	switch k {
	case 0:
		if len(name) < 2 {
			return "", false
		}
		return name[:len(name)-1], true
	case 1:
		return name + "0", true
	case 2:
		i := strings.LastIndexByte(name, '.') + 1
		if i >= len(name) {
			return "", false
		}
		r, sz := utf8.DecodeRuneInString(name[i:])
		var s rune
		switch {
		case unicode.IsUpper(r):
			s = unicode.ToLower(r)
		case unicode.IsLower(r):
			s = unicode.ToUpper(r)
		default:
			return "", false
		}
		if s == r {
			return "", false
		}
		return name[:i] + string(s) + name[i+sz:], true
	case 3:
		slash := strings.LastIndexByte(name, '/') + 1
		dot := strings.IndexByte(name[slash:], '.')
		if dot < 0 || slash+dot+1 >= len(name) {
			return "", false
		}
		return name[slash+dot+1:], true
	case 4:
		i := strings.LastIndexByte(name, '.')
		if i < 0 {
			return "", false
		}
		return name[:i] + "." + name[i:], true
	case 5:
		if c := canon(name); c != name {
			return c, true
		}
		return "", false
	case 6: // the import path without its first element ("tencent/goom/test.foo")
		if i := strings.IndexByte(name, '/'); i >= 0 && i+1 < len(name) {
			return name[i+1:], true
		}
		return "", false
	case 8: // a vendored copy's name without its "vendor/" prefix: the package of that path is another package
		if strings.HasPrefix(name, "vendor/") {
			return name[len("vendor/"):], true
		}
		if i := strings.Index(name, "/vendor/"); i >= 0 {
			return name[i+len("/vendor/"):], true
		}
		return "", false
	case 7: // only the last element of the import path ("test.foo")
		if i := strings.LastIndexByte(name, '/'); i >= 0 && i+1 < len(name) && strings.IndexByte(name, '/') != i {
			return name[i+1:], true
		}
		return "", false
	}
	return "", false
}

// truth is the goom-independent knowledge about the running binary.
type truth struct {
	sub string
	// addresses of all symbols bearing a name, per source
	funcs map[string][]uintptr // function-table names (runtime names and, if readable, pclntab names)
	syms  map[string][]uintptr // ELF symbol table (default link mode only) + generated variables
	// names for which resolution is mandatory (default link mode) through the given API
	mustFunc map[string]bool
	mustVar  map[string]bool

	funcNames []string // cases, sorted
	varNames  []string // cases, sorted

	nRuntimeFuncs, nPclntabFuncs, nDupFuncNames, nRuntimeOnlyNames, nRuntimeUnnamed int
	canonFuncs, canonSyms                                                           map[string][]uintptr
	nDupResolved                                                                    int
	nElfSyms, nElfObjects, nDupSymNames, nGenVars                                   int
	nVarsBss, nVarsData                                                             int
	nResolved, nErrors                                                              int64
}

func addAddr(m map[string][]uintptr, name string, a uintptr) {
	for _, x := range m[name] {
		if x == a {
			return
		}
	}
	m[name] = append(m[name], a)
}

// walkRuntimeFuncs recovers the runtime's function table: every executable mapping of the
// program image is walked byte by byte through runtime.FuncForPC.
func walkRuntimeFuncs() map[uintptr]string {
	exe, err := os.Readlink("/proc/self/exe")
	if err != nil {
		vk.Fatalf("readlink exe: %v", err)
	}
	out := map[uintptr]string{}
	nmaps := 0
	for _, m := range vk.Maps() {
		if m.Path != exe || !strings.Contains(m.Perm, "x") {
			continue
		}
		nmaps++
		var cur uintptr
		for pc := m.Lo; pc < m.Hi; pc++ {
			f := runtime.FuncForPC(pc)
			if f == nil {
				continue
			}
			e := f.Entry()
			if e == cur {
				continue
			}
			cur = e
			if e < m.Lo || e > pc {
				vk.Fatalf("runtime reports entry %#x for pc %#x outside the walked mapping", e, pc)
			}
			g := runtime.FuncForPC(e)
			if g == nil || g.Entry() != e {
				vk.Fatalf("runtime.FuncForPC(%#x) does not confirm its own entry", e)
			}
			out[e] = g.Name()
		}
	}
	if nmaps == 0 || len(out) < 500 {
		vk.Fatalf("function-table walk found %d functions in %d executable mappings of %s", len(out), nmaps, exe)
	}
	return out
}

// readPclntab reads the function names from the ELF .gopclntab (nil when the section does not
// exist, as in PIE links). Independent of goom: plain debug/elf + debug/gosym.
func readPclntab(f *elf.File) map[uintptr]string {
	sect := f.Section(".gopclntab")
	text := f.Section(".text")
	if sect == nil || text == nil {
		return nil
	}
	data, err := sect.Data()
	if err != nil {
		vk.Fatalf("read .gopclntab: %v", err)
	}
	tab, err := gosym.NewTable(nil, gosym.NewLineTable(data, text.Addr))
	if err != nil {
		vk.Fatalf("gosym: %v", err)
	}
	out := map[uintptr]string{}
	for i := range tab.Funcs {
		out[uintptr(tab.Funcs[i].Entry)] = tab.Funcs[i].Name
	}
	return out
}

func buildTruth(sub string) *truth {
	t := &truth{sub: sub, funcs: map[string][]uintptr{}, syms: map[string][]uintptr{},
		mustFunc: map[string]bool{}, mustVar: map[string]bool{}}
	rt := walkRuntimeFuncs()
	t.nRuntimeFuncs = len(rt)
	for e, n := range rt {
		if n == "" {
			// runtime quirk: the function whose name sits at offset 0 of funcnametab (the first
			// function of the image) is reported with an empty name
			t.nRuntimeUnnamed++
			continue
		}
		addAddr(t.funcs, n, e)
	}
	f, err := elf.Open("/proc/self/exe")
	if err != nil {
		vk.Fatalf("open exe: %v", err)
	}
	defer f.Close()
	isPIE := f.Type == elf.ET_DYN
	if (sub == "pie") != isPIE {
		vk.Fatalf("sub=%s but ELF type is %v", sub, f.Type)
	}
	if !isPIE {
		// link address == run-time address: the pclntab names can be joined with the runtime table
		pt := readPclntab(f)
		if sub == "cgo" || sub == "cgostrip" {
			// externally linked: the text start recorded in the pclntab header differs from runtime.text
			// by a constant; measure it on a known function and shift the whole table
			known := c10vars.Funcs()[0]
			var delta int64
			found := false
			for e, n := range pt {
				if n == known.Name {
					delta, found = int64(known.PC)-int64(e), true
				}
			}
			if !found {
				vk.Fatalf("known function %s not in the pclntab", known.Name)
			}
			shifted := map[uintptr]string{}
			for e, n := range pt {
				shifted[uintptr(int64(e)+delta)] = n
			}
			pt = shifted
		}
		if pt == nil {
			vk.Fatalf("non-PIE binary without .gopclntab")
		}
		t.nPclntabFuncs = len(pt)
		for e, n := range pt {
			rn, ok := rt[e]
			if !ok {
				vk.Fatalf("pclntab function %s@%#x is unknown to the runtime", n, e)
			}
			if rn != n {
				if rn != "" && !strings.Contains(rn, "[...]") {
					vk.Fatalf("pclntab name %q != runtime name %q at %#x", n, rn, e)
				}
				t.nRuntimeOnlyNames++
			}
			addAddr(t.funcs, n, e)
		}
		for e, n := range rt {
			if _, ok := pt[e]; !ok {
				vk.Fatalf("runtime function %s@%#x is missing from the pclntab reading", n, e)
			}
		}
		// mandatory resolution (default link mode): unambiguous pclntab names
		if sub == "default" || sub == "cgo" {
			cnt := map[string]int{}
			for _, n := range pt {
				cnt[n]++
			}
			for n, c := range cnt {
				if c == 1 {
					t.mustFunc[n] = true
				}
			}
		}
	}
	for n, as := range t.funcs {
		if len(as) > 1 {
			t.nDupFuncNames++
		}
		t.funcNames = append(t.funcNames, n)
	}
	sort.Strings(t.funcNames)

	// the small zoo of known functions must be in the table under the expected names (sanity of the walk)
	for _, fn := range c10vars.Funcs() {
		ok := false
		for _, a := range t.funcs[fn.Name] {
			ok = ok || a == fn.PC
		}
		if !ok {
			vk.Fatalf("known function %s@%#x not found by the function-table walk (%v)", fn.Name, fn.PC, t.funcs[fn.Name])
		}
	}

	// variables
	secOf := map[string]string{}
	withSyms := sub == "default" || sub == "cgo"
	if withSyms {
		syms, err := f.Symbols()
		if err != nil {
			vk.Fatalf("ELF symbols: %v", err)
		}
		t.nElfSyms = len(syms)
		cnt := map[string]int{}
		for _, s := range syms {
			cnt[s.Name]++
		}
		for _, s := range syms {
			addAddr(t.syms, s.Name, uintptr(s.Value))
			if elf.ST_TYPE(s.Info) == elf.STT_OBJECT && s.Name != "" {
				t.nElfObjects++
				if cnt[s.Name] == 1 {
					t.mustVar[s.Name] = true
				}
				if int(s.Section) < len(f.Sections) {
					secOf[s.Name] = f.Sections[s.Section].Name
				}
			}
		}
		for n, c := range cnt {
			if c > 1 {
				t.nDupSymNames++
			}
			if n != "" {
				t.varNames = append(t.varNames, n)
			}
		}
	}
	// A function name that occurs twice in the function table is a function plus the ABI wrapper the
	// compiler generated for it (ABI0 wrapper of a Go function that assembly calls, ABIInternal
	// wrapper of an assembly function). The wrapper's line table says "<autogenerated>"; where
	// exactly one entry of the name is not autogenerated, that entry is *the* symbol of that name.
	for n, as := range t.funcs {
		if len(as) < 2 {
			continue
		}
		var real []uintptr
		for _, a := range as {
			if f := runtime.FuncForPC(a); f != nil && f.Entry() == a {
				if file, _ := f.FileLine(a); file != "<autogenerated>" {
					real = append(real, a)
				}
			}
		}
		if len(real) == 1 {
			t.funcs[n] = real
			if sub == "default" || sub == "cgo" {
				t.mustFunc[n] = true
			}
			t.nDupFuncNames--
			t.nDupResolved++
		}
	}
	gen := c10vars.Vars()
	if len(gen) < 200 || len(gen) != c10vars.NVars {
		vk.Fatalf("only %d generated variables", len(gen))
	}
	t.nGenVars = len(gen)
	for _, v := range gen {
		if withSyms {
			// the ELF entry must agree with &v, otherwise the premise "value == address" is wrong
			as := t.syms[v.Name]
			if len(as) != 1 || as[0] != v.Addr {
				vk.Fatalf("generated variable %s: &v=%#x, ELF symbol table says %v", v.Name, v.Addr, as)
			}
			t.mustVar[v.Name] = true
			switch s := secOf[v.Name]; {
			case strings.Contains(s, "bss"):
				t.nVarsBss++
			case strings.Contains(s, "data"):
				t.nVarsData++
			}
		} else {
			addAddr(t.syms, v.Name, v.Addr)
			t.varNames = append(t.varNames, v.Name)
		}
	}
	sort.Strings(t.varNames)
	return t
}

var nPanics int64

// lookup runs one query on the real library; a panic counts as an error.
func lookup(api, q string) (addr uintptr, errText string) {
	var err error
	msg, panicked := vk.Try(func() {
		if api == apiFunc {
			addr, err = gc10.FindFuncByName(q)
		} else {
			addr, err = gc10.FindVarByName(q)
		}
	})
	if panicked {
		nPanics++
		return 0, "panic: " + msg
	}
	if err != nil {
		return 0, "error: " + err.Error()
	}
	return addr, ""
}

// judge evaluates one query. It returns the violation class ("" = conforms) and a description.
func (t *truth) judge(cs Case) (class, desc string, resolved bool) {
	addr, errText := lookup(cs.API, cs.Query)
	var allowed []uintptr
	must := false
	if cs.API == apiFunc {
		allowed = t.funcs[cs.Query]
		must = t.mustFunc[cs.Query]
	} else {
		allowed = t.syms[cs.Query]
		must = t.mustVar[cs.Query]
	}
	if errText != "" {
		if must {
			return "present-symbol-not-resolved", fmt.Sprintf("%s(%q): the symbol is present (unambiguous, at %#x) and the table is readable, but the lookup failed: %s",
				cs.API, cs.Query, allowed[0], vk.Short(errText, 160)), false
		}
		return "", "", false
	}
	for _, a := range allowed {
		if a == addr {
			return "", "", true
		}
	}
	// the Go spelling of a name whose import path the linker escaped ("pkg.v1.f" for "pkg%2ev1.f")
	// names the same symbol: resolving it — to exactly that symbol — is no mistake
	if len(allowed) == 0 {
		for _, a := range t.byCanon(cs.API, cs.Query) {
			if a == addr {
				return "", "", true
			}
		}
	}
	what := "no symbol of that name exists"
	rel := "absent-name-resolved"
	if len(allowed) > 0 {
		d := int64(addr) - int64(allowed[0])
		what = fmt.Sprintf("the symbol of that name is at %#x (returned%+d)", allowed[0], d)
		rel = "wrong-address"
		if len(allowed) == 1 && d >= -64 && d <= 64 {
			rel = fmt.Sprintf("wrong-address delta=%+d", d)
		}
	}
	at := "no known symbol"
	if f := runtime.FuncForPC(addr); f != nil {
		at = fmt.Sprintf("%s+%#x", f.Name(), addr-f.Entry())
	} else if n := t.symAt(addr); n != "" {
		at = n
	}
	return rel, fmt.Sprintf("%s(%q) returned %#x without error, but %s; the returned address is %s",
		cs.API, cs.Query, addr, what, at), true
}

// byCanon returns the addresses of the table entries whose Go spelling equals that of q.
func (t *truth) byCanon(api, q string) []uintptr {
	if t.canonFuncs == nil {
		t.canonFuncs, t.canonSyms = map[string][]uintptr{}, map[string][]uintptr{}
		for n, as := range t.funcs {
			if strings.Contains(n, "%") {
				t.canonFuncs[canon(n)] = append(t.canonFuncs[canon(n)], as...)
			}
		}
		for n, as := range t.syms {
			if strings.Contains(n, "%") {
				t.canonSyms[canon(n)] = append(t.canonSyms[canon(n)], as...)
			}
		}
	}
	if api == apiFunc {
		return t.canonFuncs[canon(q)]
	}
	return t.canonSyms[canon(q)]
}

func (t *truth) symAt(addr uintptr) string {
	best := ""
	for n, as := range t.syms {
		for _, a := range as {
			if a == addr && n != "" && (best == "" || n < best) {
				best = n
			}
		}
	}
	return best
}

func (t *truth) check(c *vk.Ctx, cs Case) {
	c.Res.Evaluations++
	c.Res.Transitions++
	class, desc, resolved := t.judge(cs)
	if resolved {
		c.Distinct(cs.API + "\x00" + cs.Query)
		t.nResolved++
	} else {
		t.nErrors++
	}
	if class == "" {
		return
	}
	m := cs.Mutation
	if m == "" {
		m = "exact-name"
	}
	key := fmt.Sprintf("link=%s api=%s query=%s class=%s", cs.Sub, cs.API, m, class)
	n, _ := c.Res.Extra["n_violating_queries"].(int)
	c.Res.Extra["n_violating_queries"] = n + 1
	c.Violate(key, desc, cs)
}

func other(api string) string {
	if api == apiFunc {
		return apiVar
	}
	return apiFunc
}

// Run is the worker entry point.
func Run(c *vk.Ctx) {
	sub := c.Sub
	if sub == "" {
		sub = "default"
	}
	fault := strings.HasSuffix(sub, "-fault")
	sub = strings.TrimSuffix(sub, "-fault")
	raceSub := strings.HasSuffix(sub, "-race")
	sub = strings.TrimSuffix(sub, "-race")
	t := buildTruth(sub)
	if raceSub && c.Replay == "" {
		runRace(c, t, sub)
		c.Finish()
		return
	}
	if fault && c.Replay == "" {
		runFault(c, t, sub)
		c.Finish()
		return
	}
	if c.Replay != "" {
		var cs Case
		c.LoadReplay(&cs)
		if cs.Sub != sub {
			vk.Fatalf("replay case is for link mode %q, this binary is %q", cs.Sub, sub)
		}
		c.Res.Traces++
		t.check(c, cs)
		c.Finish()
		return
	}
	ex := c.Res.Extra
	ex["runtime_funcs"] = t.nRuntimeFuncs
	ex["pclntab_funcs"] = t.nPclntabFuncs
	ex["func_names"] = len(t.funcNames)
	ex["dup_func_names_weakly_judged"] = t.nDupFuncNames
	ex["dup_func_names_resolved_as_the_non_autogenerated_entry"] = t.nDupResolved
	ex["runtime_only_generic_names"] = t.nRuntimeOnlyNames
	ex["runtime_unnamed_funcs"] = t.nRuntimeUnnamed
	ex["elf_symbols"] = t.nElfSyms
	ex["elf_object_symbols"] = t.nElfObjects
	ex["dup_symbol_names_weakly_judged"] = t.nDupSymNames
	ex["generated_vars"] = t.nGenVars
	ex["generated_vars_in_bss"] = t.nVarsBss
	ex["generated_vars_in_data"] = t.nVarsData
	ex["must_resolve_funcs"] = len(t.mustFunc)
	ex["must_resolve_vars"] = len(t.mustVar)

	var idx int64
	var nMutSkipped, nMutIsEntry int64
	run := func(api string, names []string) {
		for _, name := range names {
			i := idx
			idx++
			if c.Full() || c.TimedOut {
				continue
			}
			if !c.Mine(i) {
				continue
			}
			if i%64 == 0 && c.Expired() {
				continue
			}
			c.Res.Traces++
			c.Res.States++
			cs := Case{Sub: sub, API: api, Base: name, Query: name}
			t.check(c, cs)
			c.Sample(cs)
			// the same name through the other API: a function name is not a variable and vice versa
			// (unless the other table really has an entry of that name)
			t.check(c, Case{Sub: sub, API: other(api), Base: name, Mutation: "other-api", Query: name})
			for k, kind := range mutationKinds {
				q, ok := mutate(name, k)
				if !ok || q == "" || q == name {
					nMutSkipped++
					continue
				}
				if api == apiFunc && len(t.funcs[q]) > 0 || api == apiVar && len(t.syms[q]) > 0 {
					nMutIsEntry++
				}
				t.check(c, Case{Sub: sub, API: api, Base: name, Mutation: kind, Query: q})
			}
		}
	}
	run(apiFunc, t.funcNames)
	run(apiVar, t.varNames)
	ex["n_queries_resolved"] = t.nResolved
	ex["n_queries_error_or_panic"] = t.nErrors
	ex["n_queries_panicked"] = nPanics
	ex["n_mutations_not_applicable"] = nMutSkipped
	ex["n_mutants_that_are_table_entries"] = nMutIsEntry
	c.Finish()
}

// runFault: environment-fault sequences. The shard index encodes which of the first three
// lookups of the process find the executable unopenable (RLIMIT_NOFILE = 0 around the call: a
// transient EMFILE); afterwards every known function and generated variable is looked up. In
// every step the answer must be an error or the exact address (a present symbol may fail here:
// the statement allows errors when the table cannot be read).
func runFault(c *vk.Ctx, t *truth, sub string) {
	pattern := c.Shard
	known := c10vars.Funcs()
	gen := c10vars.Vars()
	var old syscall.Rlimit
	if err := syscall.Getrlimit(syscall.RLIMIT_NOFILE, &old); err != nil {
		vk.Fatalf("getrlimit: %v", err)
	}
	judge := func(cs Case) {
		c.Res.Evaluations++
		c.Res.Transitions++
		class, desc, resolved := t.judge(cs)
		if resolved {
			c.Distinct(cs.API + "\x00" + cs.Query)
		}
		if class == "" || class == "present-symbol-not-resolved" {
			return
		}
		c.Violate(fmt.Sprintf("link=%s fault-pattern=%03b api=%s class=%s", sub, pattern, cs.API, class), desc+fmt.Sprintf(" (after fault pattern %03b on the first three lookups)", pattern), cs)
	}
	for i := 0; i < 3; i++ {
		faulty := pattern>>uint(i)&1 == 1
		if faulty {
			lim := old
			lim.Cur = 0
			if err := syscall.Setrlimit(syscall.RLIMIT_NOFILE, &lim); err != nil {
				vk.Fatalf("setrlimit: %v", err)
			}
		}
		cs := Case{Sub: sub, API: apiFunc, Base: known[i%len(known)].Name, Query: known[i%len(known)].Name, Mutation: fmt.Sprintf("fault-step-%d", i)}
		if i == 1 {
			cs = Case{Sub: sub, API: apiVar, Base: gen[0].Name, Query: gen[0].Name, Mutation: "fault-step-1"}
		}
		judge(cs)
		if faulty {
			if err := syscall.Setrlimit(syscall.RLIMIT_NOFILE, &old); err != nil {
				vk.Fatalf("setrlimit restore: %v", err)
			}
		}
	}
	for _, k := range known {
		judge(Case{Sub: sub, API: apiFunc, Base: k.Name, Query: k.Name, Mutation: "after-faults"})
	}
	for _, v := range gen {
		judge(Case{Sub: sub, API: apiVar, Base: v.Name, Query: v.Name, Mutation: "after-faults"})
	}
	c.Res.Traces++
	c.Res.States++
	c.Sample(map[string]interface{}{"sub": sub + "-fault", "fault_pattern": fmt.Sprintf("%03b", pattern)})
	c.Res.Extra["fault_patterns"] = 8
}

// runRace (free-running, -race build, side pass): the very first lookups of the process are
// issued by several goroutines at once — the lazily built symbol table and address correction
// are shared globals. Every answer must be exact or an error; the race detector's reports are
// collected by the driver.
func runRace(c *vk.Ctx, t *truth, sub string) {
	known := c10vars.Funcs()
	gen := c10vars.Vars()
	const n = 8
	start := make(chan struct{})
	var wg sync.WaitGroup
	type ans struct {
		cs Case
	}
	res := make([][]Case, n)
	for g := 0; g < n; g++ {
		g := g
		wg.Add(1)
		go func() {
			defer wg.Done()
			<-start
			for i := 0; i < 4; i++ {
				k := known[(g+i)%len(known)]
				res[g] = append(res[g], Case{Sub: sub, API: apiFunc, Base: k.Name, Query: k.Name, Mutation: "concurrent-first-lookup"})
				v := gen[(g*7+i)%len(gen)]
				res[g] = append(res[g], Case{Sub: sub, API: apiVar, Base: v.Name, Query: v.Name, Mutation: "concurrent-first-lookup"})
			}
		}()
	}
	_ = res
	// the lookups themselves (judge calls goom) run concurrently
	var mu sync.Mutex
	var wg2 sync.WaitGroup
	close(start)
	wg.Wait()
	go2 := make(chan struct{})
	for g := 0; g < n; g++ {
		g := g
		wg2.Add(1)
		go func() {
			defer wg2.Done()
			<-go2
			for _, cs := range res[g] {
				class, desc, _ := t.judge(cs)
				mu.Lock()
				c.Res.Evaluations++
				c.Res.Transitions++
				if class != "" && class != "present-symbol-not-resolved" {
					c.Violate(fmt.Sprintf("link=%s concurrent-first-lookup api=%s class=%s", sub, cs.API, class), desc+" (8 goroutines issuing the first lookups of the process at once)", cs)
				}
				mu.Unlock()
			}
		}()
	}
	close(go2)
	wg2.Wait()
	c.Res.Traces++
	c.Res.States = 1
	c.Res.Nontrivial++
	c.Res.Extra["sampled_side_pass"] = true
	c.Res.Extra["race_pass"] = "sampled (8 goroutines issue the first lookups of a fresh -race process at once; one process per shard)"
}
