package c18

import (
	"math"
	"reflect"
	"strings"
)

// val is one named element of a domain. v == nil stands for the nil interface (interface kind only).
type val struct {
	name string
	v    interface{}
}

// kind is one parameter type with its boundary domain and its reference equality.
type kind struct {
	name    string
	typ     reflect.Type
	dom     []val
	nilable bool // an untyped nil is a well-typed pattern for this parameter type
	// eq is the reference: the expected answer of Equals(x) on y and whether the statement
	// decides it (values of different dynamic type inside an interface{} parameter: undecided).
	eq func(x, y val) (expected, judged bool)
}

// S is the struct kind: one exported and one unexported field.
type S struct {
	A int
	b string
}

// SP is a comparable struct whose Go == (pointer identity) differs from deep equality.
type SP struct {
	P *int
	N int
}

// SI is a struct whose type is comparable but whose values may be unhashable (Go == panics).
type SI struct {
	I interface{}
}

// E is a pointer-receiver error, EV a value-receiver one.
type E struct{ Code int }

func (e *E) Error() string { return "E" }

// EV is a value-receiver error.
type EV struct{ Code int }

func (e EV) Error() string { return "EV" }

// F1 and F2 are the two distinct top-level funcs of the func kind.
//
//go:noinline
func F1(x int) int { return x + 1 }

//go:noinline
func F2(x int) int { return x + 2 }

// goEq is Go's == on two values of the same comparable type.
func goEq(x, y val) (bool, bool) { return x.v == y.v, true }

// deepEq is reflect.DeepEqual (composites; pointers by pointee; nil equals nil only).
func deepEq(x, y val) (bool, bool) { return reflect.DeepEqual(x.v, y.v), true }

// funcEq is identity by construction: the domain names the funcs.
func funcEq(x, y val) (bool, bool) { return x.name == y.name, true }

// ifaceEq: two nil interfaces are equal, nil differs from everything else, values of the same
// dynamic type compare with Go equality, values of different dynamic type are not judged.
func ifaceEq(x, y val) (bool, bool) {
	if x.v == nil || y.v == nil {
		return x.v == nil && y.v == nil, true
	}
	if reflect.TypeOf(x.v) != reflect.TypeOf(y.v) {
		// a struct and a pointer (to anything), and two pointers of different depth, are never equal; other
		// pairs of different dynamic type are left to goom's number/string/bool coercions (which also look
		// through one pointer level)
		tx, ty := reflect.TypeOf(x.v), reflect.TypeOf(y.v)
		if tx.Kind() == reflect.Ptr && ty.Kind() == reflect.Struct || tx.Kind() == reflect.Struct && ty.Kind() == reflect.Ptr {
			return false, true
		}
		if tx.Kind() == reflect.Ptr && ty.Kind() == reflect.Ptr && ptrDepth(tx) != ptrDepth(ty) {
			return false, true
		}
		return false, false
	}
	if reflect.TypeOf(x.v).Kind() == reflect.Func {
		return funcEq(x, y) // funcs by identity, also inside an interface-typed parameter
	}
	return reflect.DeepEqual(x.v, y.v), true
}

// funcPtrEq: pointers by pointee, funcs by identity; the domain names the pointee ("&F1", "&F1#2").
func funcPtrEq(x, y val) (bool, bool) {
	base := func(n string) string {
		if i := strings.Index(n, "#"); i >= 0 {
			return n[:i]
		}
		return n
	}
	return base(x.name) == base(y.name), true
}

func fnp(f func(int) int) *func(int) int { return &f }

func typeOf(p interface{}) reflect.Type { return reflect.TypeOf(p).Elem() }

// runtime values, so that nothing is folded at compile time
var (
	f01, f02, f03    = 0.1, 0.2, 0.3
	g01, g02, g03    = float32(0.1), float32(0.2), float32(0.3)
	two53            = int64(1) << 53
	maxI64, minI64   = int64(math.MaxInt64), int64(math.MinInt64)
	maxU64           = uint64(math.MaxUint64)
)

func intp(i int) *int { return &i }

func ptrDepth(t reflect.Type) int {
	n := 0
	for t.Kind() == reflect.Ptr {
		t = t.Elem()
		n++
	}
	return n
}

func intpp(i int) **int { p := &i; return &p }

func u8p(i uint8) *uint8 { return &i }

// window is one backing array; its prefixes share the address of element 0.
var window = []int{1, 2, 3}

func kinds() []*kind {
	var ks []*kind
	add := func(name string, zero interface{}, eq func(x, y val) (bool, bool), nilable bool, dom ...val) {
		ks = append(ks, &kind{name: name, typ: typeOf(zero), dom: dom, nilable: nilable, eq: eq})
	}
	add("int8", new(int8), goEq, false, val{"min", int8(math.MinInt8)}, val{"-1", int8(-1)}, val{"0", int8(0)}, val{"1", int8(1)}, val{"max-1", int8(math.MaxInt8 - 1)}, val{"max", int8(math.MaxInt8)})
	add("int16", new(int16), goEq, false, val{"min", int16(math.MinInt16)}, val{"-1", int16(-1)}, val{"0", int16(0)}, val{"1", int16(1)}, val{"max-1", int16(math.MaxInt16 - 1)}, val{"max", int16(math.MaxInt16)})
	add("int32", new(int32), goEq, false, val{"min", int32(math.MinInt32)}, val{"-1", int32(-1)}, val{"0", int32(0)}, val{"1", int32(1)}, val{"max-1", int32(math.MaxInt32 - 1)}, val{"max", int32(math.MaxInt32)})
	add("int64", new(int64), goEq, false, val{"min", minI64}, val{"min+1", minI64 + 1}, val{"-1", int64(-1)}, val{"0", int64(0)}, val{"1", int64(1)}, val{"2^53", two53}, val{"2^53+1", two53 + 1}, val{"max-1", maxI64 - 1}, val{"max", maxI64})
	add("int", new(int), goEq, false, val{"min", int(minI64)}, val{"-1", -1}, val{"0", 0}, val{"1", 1}, val{"2^53", int(two53)}, val{"2^53+1", int(two53 + 1)}, val{"max-1", int(maxI64 - 1)}, val{"max", int(maxI64)})
	add("uint8", new(uint8), goEq, false, val{"0", uint8(0)}, val{"1", uint8(1)}, val{"127", uint8(127)}, val{"128", uint8(128)}, val{"max-1", uint8(254)}, val{"max", uint8(255)})
	add("uint16", new(uint16), goEq, false, val{"0", uint16(0)}, val{"1", uint16(1)}, val{"2^15-1", uint16(1<<15 - 1)}, val{"2^15", uint16(1 << 15)}, val{"max-1", uint16(math.MaxUint16 - 1)}, val{"max", uint16(math.MaxUint16)})
	add("uint32", new(uint32), goEq, false, val{"0", uint32(0)}, val{"1", uint32(1)}, val{"2^31-1", uint32(1<<31 - 1)}, val{"2^31", uint32(1 << 31)}, val{"max-1", uint32(math.MaxUint32 - 1)}, val{"max", uint32(math.MaxUint32)})
	add("uint64", new(uint64), goEq, false, val{"0", uint64(0)}, val{"1", uint64(1)}, val{"2^53", uint64(two53)}, val{"2^53+1", uint64(two53 + 1)}, val{"2^63-1", uint64(maxI64)}, val{"2^63", uint64(maxI64) + 1}, val{"max-1", maxU64 - 1}, val{"max", maxU64})
	add("uint", new(uint), goEq, false, val{"0", uint(0)}, val{"1", uint(1)}, val{"2^63-1", uint(maxI64)}, val{"2^63", uint(maxI64) + 1}, val{"max-1", uint(maxU64 - 1)}, val{"max", uint(maxU64)})
	add("uintptr", new(uintptr), goEq, false, val{"0", uintptr(0)}, val{"1", uintptr(1)}, val{"2^63-1", uintptr(maxI64)}, val{"2^63", uintptr(maxI64) + 1}, val{"max-1", uintptr(maxU64 - 1)}, val{"max", uintptr(maxU64)})
	add("float32", new(float32), goEq, false, val{"-Inf", float32(math.Inf(-1))}, val{"-max", float32(-math.MaxFloat32)}, val{"-1", float32(-1)}, val{"0", float32(0)},
		val{"subnormal", float32(math.SmallestNonzeroFloat32)}, val{"0.1+0.2", g01 + g02}, val{"0.3", g03}, val{"0.1", g01}, val{"1", float32(1)}, val{"2^24", float32(1 << 24)}, val{"max", float32(math.MaxFloat32)}, val{"+Inf", float32(math.Inf(1))})
	add("float64", new(float64), goEq, false, val{"-Inf", math.Inf(-1)}, val{"-max", -math.MaxFloat64}, val{"-1", float64(-1)}, val{"0", float64(0)},
		val{"subnormal", math.SmallestNonzeroFloat64}, val{"0.1+0.2", f01 + f02}, val{"0.3", f03}, val{"0.1", f01}, val{"1", float64(1)}, val{"2^53", float64(two53)}, val{"max", math.MaxFloat64}, val{"+Inf", math.Inf(1)})
	add("string", new(string), goEq, false, val{`""`, ""}, val{`"0"`, "0"}, val{`"1"`, "1"}, val{`"1.0"`, "1.0"}, val{`"0x1"`, "0x1"}, val{`" 1"`, " 1"}, val{`"true"`, "true"}, val{`"false"`, "false"},
		val{`"a"`, "a"}, val{`"A"`, "A"}, val{`"U+00E9"`, "\u00e9"}, val{`"e+U+0301"`, "e\u0301"})
	add("bool", new(bool), goEq, false, val{"false", false}, val{"true", true})
	add("struct", new(S), deepEq, false, val{"S{0,}", S{}}, val{"S{1,}", S{1, ""}}, val{"S{1,x}", S{1, "x"}}, val{"S{1,x}#2", S{1, "x"}}, val{"S{2,x}", S{2, "x"}}, val{"S{1,y}", S{1, "y"}})
	add("[2]int", new([2]int), deepEq, false, val{"{0,0}", [2]int{}}, val{"{0,1}", [2]int{0, 1}}, val{"{1,0}", [2]int{1, 0}}, val{"{1,1}", [2]int{1, 1}}, val{"{1,1}#2", [2]int{1, 1}}, val{"{max,min}", [2]int{int(maxI64), int(minI64)}})
	add("struct{*int}", new(SP), deepEq, false, val{"SP{nil,0}", SP{}}, val{"SP{&1,0}", SP{intp(1), 0}}, val{"SP{&1,0}#2", SP{intp(1), 0}}, val{"SP{&2,0}", SP{intp(2), 0}}, val{"SP{&1,1}", SP{intp(1), 1}})
	add("struct{interface{}}", new(SI), deepEq, false, val{"SI{nil}", SI{}}, val{"SI{1}", SI{1}}, val{"SI{1}#2", SI{1}}, val{`SI{"1"}`, SI{"1"}}, val{"SI{[]int{1}}", SI{[]int{1}}}, val{"SI{[]int{1}}#2", SI{[]int{1}}}, val{"SI{[]int{2}}", SI{[]int{2}}})
	add("[2]*int", new([2]*int), deepEq, false, val{"{nil,nil}", [2]*int{}}, val{"{&1,nil}", [2]*int{intp(1), nil}}, val{"{&1,&2}", [2]*int{intp(1), intp(2)}}, val{"{&1,&2}#2", [2]*int{intp(1), intp(2)}}, val{"{&2,&1}", [2]*int{intp(2), intp(1)}})
	add("[1]interface{}", new([1]interface{}), deepEq, false, val{"{nil}", [1]interface{}{}}, val{"{1}", [1]interface{}{1}}, val{"{map}", [1]interface{}{map[string]int{"a": 1}}}, val{"{map}#2", [1]interface{}{map[string]int{"a": 1}}}, val{"{S{1,x}}", [1]interface{}{S{1, "x"}}})
	add("[]int", new([]int), deepEq, true, val{"nil", []int(nil)}, val{"empty", []int{}}, val{"{0}", []int{0}}, val{"{1}", []int{1}}, val{"{1}#2", []int{1}}, val{"{1,2}", []int{1, 2}}, val{"{2,1}", []int{2, 1}}, val{"{1,2,3}", []int{1, 2, 3}},
		val{"w[:0]", window[:0]}, val{"w[:1]", window[:1]}, val{"w[:2]", window[:2]}, val{"w[:3]", window[:3]})
	add("map[string]int", new(map[string]int), deepEq, true, val{"nil", map[string]int(nil)}, val{"empty", map[string]int{}}, val{"{a:1}", map[string]int{"a": 1}}, val{"{a:1}#2", map[string]int{"a": 1}},
		val{"{a:2}", map[string]int{"a": 2}}, val{"{b:1}", map[string]int{"b": 1}}, val{"{a:1,b:2}", map[string]int{"a": 1, "b": 2}})
	add("*int", new(*int), deepEq, true, val{"nil", (*int)(nil)}, val{"&0", intp(0)}, val{"&1", intp(1)}, val{"&1#2", intp(1)}, val{"&2", intp(2)}, val{"&max", intp(int(maxI64))})
	add("*struct", new(*S), deepEq, true, val{"nil", (*S)(nil)}, val{"&S{0,}", &S{}}, val{"&S{1,x}", &S{1, "x"}}, val{"&S{1,x}#2", &S{1, "x"}}, val{"&S{2,x}", &S{2, "x"}}, val{"&S{1,y}", &S{1, "y"}})
	add("interface{}", new(interface{}), ifaceEq, true, val{"nil", nil}, val{"int(0)", 0}, val{"int(1)", 1}, val{"int(-1)", -1}, val{"int64(1)", int64(1)}, val{"uint8(1)", uint8(1)}, val{"uint64(max)", maxU64},
		val{"float64(1)", float64(1)}, val{"float64(0.5)", 0.5}, val{"float32(1)", float32(1)}, val{`"1"`, "1"}, val{`""`, ""}, val{`"a"`, "a"}, val{"true", true}, val{"false", false},
		val{"S{1,x}", S{1, "x"}}, val{"S{2,x}", S{2, "x"}},
		val{"&S{1,x}", &S{1, "x"}}, val{"&S{1,x}#2", &S{1, "x"}}, val{"&S{2,x}", &S{2, "x"}}, val{"(*S)(nil)", (*S)(nil)}, val{"&int(1)", intp(1)}, val{"(*int)(nil)", (*int)(nil)},
		val{"F1", F1}, val{"F2", F2}, val{"(func(int) int)(nil)", (func(int) int)(nil)},
		val{"&&int(1)", intpp(1)}, val{"&uint8(1)", u8p(1)})
	add("error", new(error), ifaceEq, true, val{"nil", nil}, val{"&E{1}", &E{1}}, val{"&E{1}#2", &E{1}}, val{"&E{2}", &E{2}}, val{"(*E)(nil)", (*E)(nil)}, val{"EV{1}", EV{1}}, val{"EV{2}", EV{2}})
	add("func", new(func(int) int), funcEq, true, val{"nil", (func(int) int)(nil)}, val{"F1", F1}, val{"F2", F2})
	add("*func", new(*func(int) int), funcPtrEq, true, val{"nil", (*func(int) int)(nil)}, val{"&F1", fnp(F1)}, val{"&F1#2", fnp(F1)}, val{"&F2", fnp(F2)})
	return ks
}
