// Package c18 — argument expressions form a consistent predicate algebra.
//
// Engine E: for every parameter kind (domains.go) and every element of four finite spaces the
// public API of github.com/tencent/goom/arg is driven the way goom's matchers drive it
// (Equals/In/Any -> Resolve([]reflect.Type{T}, false) -> Eval([]reflect.Value{arg}, false), and
// arg.ToExpr), the argument being the reflect.Value that reflect.MakeFunc hands to a callback
// for a parameter of type T:
//
//	equals      all ordered pairs (x,y) of the domain: Equals(x) on y against the reference
//	            equality of the kind (Go ==, reflect.DeepEqual, pointee, identity, nil==nil),
//	            both directions (symmetry), evaluated twice (idempotence), and compared with a
//	            long-lived expression that has already been evaluated on the whole domain
//	            (an evaluation never changes later answers);
//	equals-nil  the untyped nil pattern on every y of a nilable kind: accepts exactly the nils;
//	any         Any() accepts every y;
//	mutate      (pointer, slice and map kinds) every triple (x,a,b): a fresh container holding a's
//	            contents is evaluated by Equals(x), In(x) and the ToExpr expression, rewritten in
//	            place to b's contents and evaluated again by the same expressions: the answers
//	            are those for a and then those for b (pointers by pointee, composites deeply —
//	            an earlier evaluation never fixes a later answer);
//	in          every subset S of the domain with |S| <= 3 (4 in the thorough tier) and every y: In(S...) accepts y iff
//	            some Equals(s), s in S, accepts y (reference: the library's own Equals answers).
//
// No call may panic or return an error. Pairs of different dynamic type inside an interface{}
// parameter are executed but not judged.
package c18

import (
	"fmt"
	"reflect"
	"strings"

	"github.com/tencent/goom/arg"
	"verifh/vk"
)

// Case is the replayable artefact.
type Case struct {
	Kind    string   `json:"kind"`
	Op      string   `json:"op"` // equals | equals-nil | any | mutate | in
	Pattern []string `json:"pattern"`
	Arg     string   `json:"arg"`
}

const untypedNil = "nil(untyped)"

// ans is one observed answer of the library.
type ans struct {
	r    bool
	fail string // "" | "panic: …" | "resolve-error: …" | "eval-error: …" | "not-idempotent"
}

func (a ans) String() string {
	if a.fail != "" {
		return a.fail
	}
	return fmt.Sprint(a.r)
}

func failClass(f string) string {
	if i := strings.Index(f, ":"); i > 0 {
		return f[:i]
	}
	return f
}

// checker holds the per-kind state.
type checker struct {
	k     *kind
	maxIn int           // largest In subset (3 quick, 4 thorough)
	fn    reflect.Value // func(T) built by reflect.MakeFunc, captures its argument
	got   reflect.Value
	ops   int64         // calls into the library
	eqAns [][]ans       // eqAns[x][y]: fresh Equals(x) on y (pass A)
	long  []arg.Expr    // long[x]: one expression per pattern, built by arg.ToExpr, evaluated on the whole domain
	hist  [][]ans       // hist[x][y]: answer of long[x] during its first sweep over the domain
}

func newChecker(k *kind) *checker {
	c := &checker{k: k}
	c.fn = reflect.MakeFunc(reflect.FuncOf([]reflect.Type{k.typ}, nil, false), func(a []reflect.Value) []reflect.Value {
		c.got = a[0]
		return nil
	})
	return c
}

// argValue is the reflect.Value a reflect.MakeFunc callback receives for y passed as a parameter
// of the kind's type (Kind Interface for interface-typed parameters).
func (c *checker) argValue(y val) reflect.Value {
	in := reflect.Zero(c.k.typ)
	if y.v != nil {
		in = reflect.ValueOf(y.v)
	}
	c.fn.Call([]reflect.Value{in})
	return c.got
}

// container builds a fresh pointer, slice or map holding a's contents and returns it with a
// function that rewrites it in place to b's contents; ok is false where that is impossible
// (other kinds, nil values, slices of different length).
func (c *checker) container(a, b val) (box reflect.Value, rewrite func(), ok bool) {
	if a.v == nil || b.v == nil || isNilValue(a.v) || isNilValue(b.v) {
		return
	}
	av, bv := reflect.ValueOf(a.v), reflect.ValueOf(b.v)
	switch c.k.typ.Kind() {
	case reflect.Ptr:
		box = reflect.New(c.k.typ.Elem())
		box.Elem().Set(av.Elem())
		return box, func() { box.Elem().Set(bv.Elem()) }, true
	case reflect.Slice:
		if av.Len() != bv.Len() || av.Len() == 0 {
			return
		}
		box = reflect.MakeSlice(c.k.typ, av.Len(), av.Len())
		reflect.Copy(box, av)
		return box, func() { reflect.Copy(box, bv) }, true
	case reflect.Map:
		box = reflect.MakeMap(c.k.typ)
		for _, key := range av.MapKeys() {
			box.SetMapIndex(key, av.MapIndex(key))
		}
		return box, func() {
			for _, key := range box.MapKeys() {
				box.SetMapIndex(key, reflect.Value{})
			}
			for _, key := range bv.MapKeys() {
				box.SetMapIndex(key, bv.MapIndex(key))
			}
		}, true
	}
	return
}

// evalMutate resolves e once, evaluates it on the container, rewrites the container in place and
// evaluates the same expression on the same container again.
func (c *checker) evalMutate(mk func() (arg.Expr, error), a, b val) (before, after ans) {
	msg, panicked := vk.Try(func() {
		box, rewrite, _ := c.container(a, b)
		c.ops++
		e, err := mk()
		if err != nil {
			before.fail = "resolve-error: " + err.Error()
			after.fail = before.fail
			return
		}
		get := func(into *ans) {
			c.ops++
			c.fn.Call([]reflect.Value{box})
			r, err := e.Eval([]reflect.Value{c.got}, false)
			if err != nil {
				into.fail = "eval-error: " + err.Error()
			}
			into.r = r
		}
		get(&before)
		rewrite()
		get(&after)
	})
	if panicked {
		before.fail = "panic: " + vk.Short(msg, 100)
		after.fail = before.fail
	}
	return
}

// evalTwice resolves e against the kind and evaluates it twice on y.
func (c *checker) evalTwice(mk func() arg.Expr, y val) (a ans) {
	msg, panicked := vk.Try(func() {
		e := mk()
		c.ops++
		if err := e.Resolve([]reflect.Type{c.k.typ}, false); err != nil {
			a.fail = "resolve-error: " + err.Error()
			return
		}
		c.ops += 2
		r1, err1 := e.Eval([]reflect.Value{c.argValue(y)}, false)
		r2, err2 := e.Eval([]reflect.Value{c.argValue(y)}, false)
		switch {
		case err1 != nil:
			a.fail = "eval-error: " + err1.Error()
		case err2 != nil:
			a.fail = "eval-error: " + err2.Error()
		case r1 != r2:
			a.fail = fmt.Sprintf("not-idempotent: first evaluation %v, second %v", r1, r2)
		}
		a.r = r1
	})
	if panicked {
		a.fail = "panic: " + vk.Short(msg, 100)
	}
	return
}

func (c *checker) evalLong(x int, y val) (a ans) {
	if c.long[x] == nil {
		return ans{fail: "resolve-error: arg.ToExpr failed"}
	}
	msg, panicked := vk.Try(func() {
		c.ops++
		r, err := c.long[x].Eval([]reflect.Value{c.argValue(y)}, false)
		if err != nil {
			a.fail = "eval-error: " + err.Error()
		}
		a.r = r
	})
	if panicked {
		a.fail = "panic: " + vk.Short(msg, 100)
	}
	return
}

// prepare runs pass A: the library's own Equals table (the reference for In) and the first
// sweep of the long-lived expressions.
func (c *checker) prepare() {
	n := len(c.k.dom)
	c.eqAns = make([][]ans, n)
	c.hist = make([][]ans, n)
	c.long = make([]arg.Expr, n)
	for x := range c.k.dom {
		xv := c.k.dom[x].v
		c.eqAns[x] = make([]ans, n)
		c.hist[x] = make([]ans, n)
		vk.Try(func() {
			c.ops++
			es, err := arg.ToExpr([]interface{}{xv}, []reflect.Type{c.k.typ}, false)
			if err == nil && len(es) == 1 {
				c.long[x] = es[0]
			}
		})
		for y := range c.k.dom {
			c.eqAns[x][y] = c.evalTwice(func() arg.Expr { return arg.Equals(xv) }, c.k.dom[y])
			c.hist[x][y] = c.evalLong(x, c.k.dom[y])
		}
	}
}

type result struct {
	class, desc string
	judged      bool
	accepted    bool
}

func (c *checker) index(name string) int {
	for i, v := range c.k.dom {
		if v.name == name {
			return i
		}
	}
	vk.Fatalf("kind %s has no value %q", c.k.name, name)
	return -1
}

// run executes one case on the real library and judges it.
func (c *checker) run(cs Case) (res result) {
	k := c.k
	yi := c.index(cs.Arg)
	y := k.dom[yi]
	res.judged = true
	bad := func(class, format string, a ...interface{}) result {
		res.class, res.desc = class, fmt.Sprintf("kind %s: ", k.name)+fmt.Sprintf(format, a...)
		return res
	}
	switch cs.Op {
	case "equals":
		xi := c.index(cs.Pattern[0])
		x := k.dom[xi]
		want, judged := k.eq(x, y)
		fwd := c.evalTwice(func() arg.Expr { return arg.Equals(x.v) }, y)
		rev := c.evalTwice(func() arg.Expr { return arg.Equals(y.v) }, x)
		again := c.evalLong(xi, y)
		res.accepted = fwd.fail == "" && fwd.r
		what := fmt.Sprintf("Equals(%s) on %s", x.name, y.name)
		switch {
		case fwd.fail != "":
			return bad(failClass(fwd.fail), "%s: %s", what, fwd.fail)
		case c.hist[xi][yi].fail == "" && c.hist[xi][yi].r != fwd.r, again.fail == "" && again.r != fwd.r, again.fail != "":
			return bad("history-dependent", "%s answers %v on a fresh expression, but the expression built once by ToExpr answered %v during its first sweep over the domain and %v afterwards",
				what, fwd.r, c.hist[xi][yi], again)
		case !judged:
			res.judged = false
			return
		case fwd.r != want && want:
			return bad("rejects-equal", "%s = false, the reference equality says equal (reverse direction answers %v)", what, rev)
		case fwd.r != want:
			return bad("accepts-unequal", "%s = true, the reference equality says different (reverse direction answers %v)", what, rev)
		case rev.fail == "" && rev.r != fwd.r:
			return bad("asymmetric", "%s = %v but Equals(%s) on %s = %v", what, fwd.r, y.name, x.name, rev.r)
		}
	case "equals-nil":
		if k.typ.Kind() == reflect.Interface && y.v != nil && isNilValue(y.v) {
			// a typed nil pointer inside an interface parameter: the interface value itself is not
			// nil in Go, the pointer in it is; "two nils are equal" does not say which counts
			c.evalTwice(func() arg.Expr { return arg.Equals(nil) }, y)
			res.judged = false
			return
		}
		want := y.v == nil || isNilValue(y.v)
		a := c.evalTwice(func() arg.Expr { return arg.Equals(nil) }, y)
		res.accepted = a.fail == "" && a.r
		switch {
		case a.fail != "":
			return bad(failClass(a.fail), "Equals(nil) on %s: %s", y.name, a.fail)
		case a.r != want:
			return bad(map[bool]string{true: "rejects-equal", false: "accepts-unequal"}[want], "Equals(nil) on %s = %v, expected %v (two nils are equal)", y.name, a.r, want)
		}
	case "any":
		a := c.evalTwice(func() arg.Expr { return arg.Any() }, y)
		var viaToExpr ans
		msg, panicked := vk.Try(func() {
			c.ops += 2
			es, err := arg.ToExpr([]interface{}{arg.Any()}, []reflect.Type{k.typ}, false)
			if err != nil {
				viaToExpr.fail = "resolve-error: " + err.Error()
				return
			}
			r, err := es[0].Eval([]reflect.Value{c.argValue(y)}, false)
			if err != nil {
				viaToExpr.fail = "eval-error: " + err.Error()
			}
			viaToExpr.r = r
		})
		if panicked {
			viaToExpr.fail = "panic: " + vk.Short(msg, 100)
		}
		res.accepted = a.fail == "" && a.r
		for _, t := range []ans{a, viaToExpr} {
			if t.fail != "" {
				return bad(failClass(t.fail), "Any() on %s: %s", y.name, t.fail)
			}
			if !t.r {
				return bad("any-rejects", "Any() on %s = false", y.name)
			}
		}
	case "in":
		vals := make([]interface{}, len(cs.Pattern))
		union, unknown := false, false
		for i, p := range cs.Pattern {
			xi := c.index(p)
			vals[i] = k.dom[xi].v
			if e := c.eqAns[xi][yi]; e.fail != "" {
				unknown = true
			} else if e.r {
				union = true
			}
		}
		a := c.evalTwice(func() arg.Expr { return arg.In(vals...) }, y)
		res.accepted = a.fail == "" && a.r
		what := fmt.Sprintf("In(%s) on %s", strings.Join(cs.Pattern, ", "), y.name)
		switch {
		case unknown:
			// one of the member Equals fails by itself (reported by its own equals case)
			res.judged = false
		case a.fail != "":
			return bad(failClass(a.fail), "%s: %s", what, a.fail)
		case a.r != union:
			return bad("in!=union", "%s = %v, but the union of Equals(s) on %s over its members is %v", what, a.r, y.name, union)
		}
	case "mutate":
		xi, ai := c.index(cs.Pattern[0]), c.index(cs.Pattern[1])
		x, a, b := k.dom[xi], k.dom[ai], y
		wa, wb := c.eqAns[xi][ai], c.eqAns[xi][yi]
		if wa.fail != "" || wb.fail != "" {
			res.judged = false // reported by the equals case of that pair
			return
		}
		resolve := func(e arg.Expr) (arg.Expr, error) { return e, e.Resolve([]reflect.Type{k.typ}, false) }
		forms := []struct {
			name string
			mk   func() (arg.Expr, error)
		}{
			{"Equals(" + x.name + ")", func() (arg.Expr, error) { return resolve(arg.Equals(x.v)) }},
			{"In(" + x.name + ")", func() (arg.Expr, error) { return resolve(arg.In(x.v)) }},
			{"ToExpr(" + x.name + ")", func() (arg.Expr, error) {
				es, err := arg.ToExpr([]interface{}{x.v}, []reflect.Type{k.typ}, false)
				if err != nil {
					return nil, err
				}
				return es[0], nil
			}},
		}
		for _, f := range forms {
			before, after := c.evalMutate(f.mk, a, b)
			res.accepted = res.accepted || (after.fail == "" && after.r)
			what := fmt.Sprintf("%s on one container holding %s, then rewritten in place to %s", f.name, a.name, b.name)
			switch {
			case before.fail != "":
				return bad(failClass(before.fail), "%s: %s", what, before.fail)
			case after.fail != "":
				return bad(failClass(after.fail), "%s: %s", what, after.fail)
			case before.r != wa.r:
				return bad("container-differs", "%s: first answer %v, but Equals(%s) on %s is %v", what, before.r, x.name, a.name, wa.r)
			case after.r != wb.r:
				return bad("stale-after-mutation", "%s: answers %v then %v, but Equals(%s) on %s is %v and on %s is %v", what, before.r, after.r, x.name, a.name, wa.r, b.name, wb.r)
			}
		}
	default:
		vk.Fatalf("unknown op %q", cs.Op)
	}
	return
}

func isNilValue(v interface{}) bool {
	rv := reflect.ValueOf(v)
	switch rv.Kind() {
	case reflect.Chan, reflect.Func, reflect.Interface, reflect.Map, reflect.Ptr, reflect.Slice:
		return rv.IsNil()
	}
	return false
}

// cases yields every case of one kind and one op in the canonical order (simplest first).
func (c *checker) cases(op string, yield func(Case) bool) {
	k := c.k
	names := make([]string, len(k.dom))
	for i, v := range k.dom {
		names[i] = v.name
	}
	switch op {
	case "equals":
		for _, x := range names {
			for _, y := range names {
				if !yield(Case{k.name, op, []string{x}, y}) {
					return
				}
			}
		}
	case "equals-nil":
		if !k.nilable {
			return
		}
		for _, y := range names {
			if !yield(Case{k.name, op, []string{untypedNil}, y}) {
				return
			}
		}
	case "any":
		for _, y := range names {
			if !yield(Case{k.name, op, nil, y}) {
				return
			}
		}
	case "mutate":
		for _, x := range names {
			for ai, a := range names {
				for bi, b := range names {
					if _, _, ok := c.container(k.dom[ai], k.dom[bi]); !ok {
						continue
					}
					if !yield(Case{k.name, op, []string{x, a}, b}) {
						return
					}
				}
			}
		}
	case "in":
		n := len(names)
		emit := func(s ...int) bool {
			p := make([]string, len(s))
			for i, j := range s {
				p[i] = names[j]
			}
			for _, y := range names {
				if !yield(Case{k.name, op, p, y}) {
					return false
				}
			}
			return true
		}
		if !emit() {
			return
		}
		for a := 0; a < n; a++ {
			if !emit(a) {
				return
			}
		}
		for a := 0; a < n; a++ {
			for b := a + 1; b < n; b++ {
				if !emit(a, b) {
					return
				}
			}
		}
		for a := 0; a < n; a++ {
			for b := a + 1; b < n; b++ {
				for d := b + 1; d < n; d++ {
					if !emit(a, b, d) {
						return
					}
				}
			}
		}
		if c.maxIn < 4 {
			return
		}
		for a := 0; a < n; a++ {
			for b := a + 1; b < n; b++ {
				for d := b + 1; d < n; d++ {
					for e := d + 1; e < n; e++ {
						if !emit(a, b, d, e) {
							return
						}
					}
				}
			}
		}
	}
}

var ops = []string{"equals", "equals-nil", "any", "mutate", "in"}

func key(cs Case, class string) string {
	return fmt.Sprintf("kind=%s %s pattern=[%s] arg=%s class=%s", cs.Kind, cs.Op, strings.Join(cs.Pattern, ","), cs.Arg, class)
}

// Run is the worker entry point.
func Run(c *vk.Ctx) {
	ks := kinds()
	if c.Replay != "" {
		var vc VarCase
		c.LoadReplay(&vc)
		if vc.Variadic {
			f := runVariadic(vc)
			fmt.Printf("replay variadic In kind=%s fixed=%d alts=%v call=%v\nresult: %s\n", vc.Kind, vc.Fixed, vc.Alts, vc.Call, f)
			if f != "" {
				c.Violate("replay", f, vc)
			}
			c.Finish()
			return
		}
		var cs Case
		c.LoadReplay(&cs)
		for _, k := range ks {
			if k.name != cs.Kind {
				continue
			}
			ch := newChecker(k)
			ch.prepare()
			res := ch.run(cs)
			fmt.Printf("replay kind=%s op=%s pattern=%v arg=%s judged=%v accepted=%v\nresult: %s\n", cs.Kind, cs.Op, cs.Pattern, cs.Arg, res.judged, res.accepted, orOK(res))
			if res.class != "" {
				c.Violate("replay", res.desc, cs)
			}
			c.Finish()
			return
		}
		vk.Fatalf("unknown kind %q", cs.Kind)
	}

	var idx int64
	perOp := map[string]int64{}
	var nFail, nDomain int64
	for _, k := range ks {
		ch := newChecker(k)
		ch.maxIn = 3
		if c.Thorough() {
			ch.maxIn = 4
		}
		ch.prepare()
		nDomain += int64(len(k.dom))
		reported := map[string]bool{} // op/class already reduced to its canonical first case
		for _, op := range ops {
			ch.cases(op, func(cs Case) bool {
				mine := c.Mine(idx)
				idx++
				if !mine {
					return true
				}
				if c.Full() || c.Expired() {
					return false
				}
				c.Res.Evaluations++
				c.Res.Traces++
				c.Res.States++
				perOp[op]++
				res := ch.run(cs)
				if !res.judged {
					c.Res.Unjudged++
				}
				if res.accepted {
					c.Res.Nontrivial++
				}
				c.Sample(cs)
				if res.class == "" {
					return true
				}
				nFail++
				if reported[op+"/"+res.class] {
					return true
				}
				reported[op+"/"+res.class] = true
				// canonical representative: the first case of this kind and op (enumeration order,
				// simplest first) that fails in the same class, whichever shard found it
				ch.cases(op, func(first Case) bool {
					fr := ch.run(first)
					if fr.class != res.class {
						return true
					}
					c.Violate(key(first, fr.class), fr.desc, first)
					return false
				})
				return true
			})
		}
		c.Res.Transitions += ch.ops
	}
	c.Res.Extra["kinds"] = len(ks)
	c.Res.Extra["max_in_subset"] = map[bool]int{false: 3, true: 4}[c.Thorough()]
	c.Res.Extra["domain_values_total"] = nDomain
	c.Res.Extra["n_failing_evaluations"] = nFail
	for k, v := range perOp {
		c.Res.Extra["n_cases_"+k] = v
	}
	variadicPart(c, idx)
	c.Finish()
}

func orOK(r result) string {
	if r.class == "" {
		if !r.judged {
			return "not judged (values of different dynamic type)"
		}
		return "conforms"
	}
	return r.class + ": " + r.desc
}
