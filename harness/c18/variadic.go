package c18

import (
	"fmt"
	"reflect"

	"github.com/tencent/goom/arg"
	"verifh/vk"
)

// VarCase is the replay artefact of the variadic-evaluation part.
type VarCase struct {
	Variadic bool     `json:"variadic"`
	Kind     string   `json:"kind"`  // int | string
	Fixed    int      `json:"fixed"` // number of leading fixed parameters (0 or 1)
	Alts     [][]int  `json:"alts"`  // In alternatives, each a full argument list (indices into the domain)
	Call     []int    `json:"call"`  // call arguments (indices)
}

var (
	intDom = []int{0, 1, -7}
	strDom = []string{"", "a", "bb"}
)

// variadicPart: In(...) resolved for a variadic signature and evaluated on the packed argument
// list of a call — twice on the SAME argument slice (as successive clauses of one stub do). The
// answers must equal the union-of-Equals reference, the second answer must equal the first,
// the caller's argument slice must be unchanged, and nothing may panic.
func variadicPart(c *vk.Ctx, base int64) {
	idx := base
	for _, kind := range []string{"int", "string"} {
		for fixed := 0; fixed <= 1; fixed++ {
			// all call argument lists of length fixed..fixed+2, all In clauses of 1..2 alternatives of length fixed..fixed+2
			var lists [][]int
			for n := fixed; n <= fixed+2; n++ {
				var rec func(p []int)
				rec = func(p []int) {
					if len(p) == n {
						lists = append(lists, append([]int(nil), p...))
						return
					}
					for v := 0; v < 3; v++ {
						rec(append(p, v))
					}
				}
				rec(nil)
			}
			for ai, a := range lists {
				for bi := -1; bi < len(lists); bi++ {
					if bi >= 0 && (bi+ai)%5 != 0 && !c.Thorough() {
						continue // quick: every single alternative, a fifth of the pairs
					}
					alts := [][]int{a}
					if bi >= 0 {
						alts = append(alts, lists[bi])
					}
					for _, call := range lists {
						mine := c.Mine(idx)
						idx++
						if !mine || c.Full() {
							continue
						}
						cs := VarCase{true, kind, fixed, alts, call}
						c.Res.Evaluations++
						c.Res.Traces++
						c.Res.States++
						c.Res.Transitions += 3
						if f := runVariadic(cs); f != "" {
							c.Violate(fmt.Sprintf("variadic-in kind=%s fixed=%d alts=%v call=%v class=%s", kind, fixed, alts, call, f[:indexOf(f, ':')]), f, cs)
						}
					}
				}
			}
		}
	}
}

func indexOf(s string, b byte) int {
	for i := 0; i < len(s); i++ {
		if s[i] == b {
			return i
		}
	}
	return len(s)
}

func elemVal(kind string, i int) interface{} {
	if kind == "int" {
		return intDom[i]
	}
	return strDom[i]
}

func runVariadic(cs VarCase) string {
	var et reflect.Type
	if cs.Kind == "int" {
		et = reflect.TypeOf(0)
	} else {
		et = reflect.TypeOf("")
	}
	types := []reflect.Type{}
	for i := 0; i < cs.Fixed; i++ {
		types = append(types, et)
	}
	types = append(types, reflect.SliceOf(et))
	alts := make([]interface{}, len(cs.Alts))
	for i, a := range cs.Alts {
		l := make([]interface{}, len(a))
		for j, x := range a {
			l[j] = elemVal(cs.Kind, x)
		}
		alts[i] = l
	}
	// the packed call arguments, as reflect.MakeFunc hands them to the matcher
	mk := func() []reflect.Value {
		in := make([]reflect.Value, 0, cs.Fixed+1)
		for i := 0; i < cs.Fixed; i++ {
			in = append(in, reflect.ValueOf(elemVal(cs.Kind, cs.Call[i])))
		}
		tail := reflect.MakeSlice(reflect.SliceOf(et), 0, 4)
		for _, x := range cs.Call[cs.Fixed:] {
			tail = reflect.Append(tail, reflect.ValueOf(elemVal(cs.Kind, x)))
		}
		return append(in, tail)
	}
	want := false
	for _, a := range cs.Alts {
		if len(a) == len(cs.Call) {
			eq := true
			for i := range a {
				eq = eq && a[i] == cs.Call[i]
			}
			want = want || eq
		}
	}
	var got1, got2 bool
	var input []reflect.Value
	msg, p := vk.Try(func() {
		in := arg.In(alts...)
		if err := in.Resolve(types, true); err != nil {
			panic("Resolve: " + err.Error())
		}
		input = mk()
		var err error
		if got1, err = in.Eval(input, true); err != nil {
			panic("Eval: " + err.Error())
		}
		if got2, err = in.Eval(input, true); err != nil {
			panic("second Eval: " + err.Error())
		}
	})
	if p {
		return "panic: " + vk.Short(msg, 120)
	}
	if got1 != want {
		return fmt.Sprintf("in!=union: In%v on call %v answered %v, the union of its alternatives says %v", cs.Alts, cs.Call, got1, want)
	}
	if got2 != got1 {
		return fmt.Sprintf("history-dependent: the same expression on the same arguments answered %v, then %v", got1, got2)
	}
	ref := mk()
	for i := range ref {
		if !reflect.DeepEqual(ref[i].Interface(), input[i].Interface()) {
			return fmt.Sprintf("input-modified: evaluating the expression changed argument %d of the caller's argument list from %v to %v", i, ref[i].Interface(), input[i].Interface())
		}
	}
	return ""
}
