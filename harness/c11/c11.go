// Package c11 — independent builders and concurrent callers are race-free and isolated.
//
// explore: engine S — mocker threads (own builder, own targets, apply / re-stub / reset, one with
//          an origin placeholder) and caller threads of a steadily mocked function whose callback
//          calls its origin placeholder, all on one code page (and a variant with one target on
//          another page); preemption bound iterated 0,1,2(,3). Scheduling points: every lock,
//          Once and atomic operation of goom and both sides of every mprotect call.
// race   : the same bodies free-running in a -race build (side pass, sampled).
package c11

import (
	"fmt"
	"reflect"
	"runtime/debug"
	"sort"
	"strings"
	"sync"
	"syscall"

	mocker "github.com/tencent/goom"
	zz "github.com/tencent/goom/zzverif/c11"
	"github.com/tencent/goom/zzverif/sched"
	"github.com/tencent/goom/zzverif/vsync"
	"github.com/tencent/goom/zzverif/vsys"
	t "verifh/targets/c11t"
	"verifh/sx"
	"verifh/vk"
)

type target struct {
	name   string
	idx    int
	fn     func(int) int
	origin *func(int) int // origin placeholder variable (nil = none)
	oname  string
	k      int // original: a + k
}

var (
	img          *vk.Image
	placeholders []vk.Range
	pageSize     = uintptr(syscall.Getpagesize())
	targets      map[string]*target
	phVars       []func(int) int // origin placeholder variables, one per placeholder function
	// roles chosen from the layout at start-up
	steady *target
)

// initTargets assigns roles from the actual text layout: S, F1, F2 are three A functions that
// share one code page; F3 is a B function on another page; F4.. are the remaining ones.
func initTargets() {
	phVars = append([]func(int) int(nil), t.Ps...)
	if lo, hi := vk.FuncExtent(pc(t.Fill[0])); hi-lo < 3*pageSize {
		vk.Fatalf("filler function too small (%d bytes)", hi-lo)
	}
	for _, f := range t.Ps {
		lo, hi := vk.FuncExtent(reflect.ValueOf(f).Pointer())
		placeholders = append(placeholders, vk.Range{Lo: lo, Hi: hi})
	}
	first := -1
	for i := 0; i+2 < len(t.As); i++ {
		if page(pc(t.As[i])) == page(pc(t.As[i+1])) && page(pc(t.As[i])) == page(pc(t.As[i+2])) {
			first = i
			break
		}
	}
	if first < 0 {
		vk.Fatalf("no three adjacent A functions share a code page")
	}
	targets = map[string]*target{}
	mk := func(name string, idx int, f func(int) int, k int, ph int) *target {
		tg := &target{name: name, idx: idx, fn: f, k: k}
		if ph >= 0 {
			tg.origin = &phVars[ph]
			tg.oname = fmt.Sprintf("P%d", ph)
		}
		targets[name] = tg
		return tg
	}
	steady = mk("S", 0, t.As[first], t.AKs[first], 0)
	mk("F1", 1, t.As[first+1], t.AKs[first+1], -1)
	mk("F2", 2, t.As[first+2], t.AKs[first+2], 2)
	far := -1
	for i := range t.Bs {
		if page(pc(t.Bs[i])) != page(pc(steady.fn)) {
			far = i
			break
		}
	}
	if far < 0 {
		far = 0 // only the explorer's other-page scenario needs it (checked there)
	}
	mk("F3", 3, t.Bs[far], t.BKs[far], 3)
	n := 4
	for i := range t.As {
		if i < first || i > first+2 {
			ph := -1
			if n%2 == 1 {
				ph = n
			}
			mk(fmt.Sprintf("F%d", n), n, t.As[i], t.AKs[i], ph)
			n++
		}
	}
	// a generic instantiation (its wrapper is decoded before the patch lock is taken)
	mk("G1", 20, t.GenInt, t.GenK, -1)
	mk("G2", 21, t.Gen2Int, t.Gen2K, -1)
	for i := range t.Bs {
		if i != far && n <= 9 {
			ph := -1
			if n%2 == 1 {
				ph = n
			}
			mk(fmt.Sprintf("F%d", n), n, t.Bs[i], t.BKs[i], ph)
			n++
		}
	}
}

func pc(f interface{}) uintptr { return reflect.ValueOf(f).Pointer() }

func page(a uintptr) uintptr { return a &^ (pageSize - 1) }

//go:noinline
func growStack(n int) int {
	var buf [1024]byte
	buf[n%1024] = byte(n)
	if n <= 0 {
		return int(buf[0])
	}
	return growStack(n-1) + int(buf[n%1024])
}

// ---------------------------------------------------------------------------------------------
// world management (outside explorations the shims fall through to the real primitives)

// forceClean restores the world after any execution: patch table, image bytes, page
// protections, modelled locks.
func forceClean() {
	zz.ForgetPatches()
	vsync.ResetAll()
	diff := img.Diff()
	for _, d := range diff {
		lo, hi := page(d.Lo), page(d.Hi-1)+pageSize
		b := vk.Raw(lo, int(hi-lo))
		if err := syscall.Mprotect(b, syscall.PROT_READ|syscall.PROT_WRITE|syscall.PROT_EXEC); err != nil {
			vk.Fatalf("forceClean mprotect: %v", err)
		}
		copy(vk.Raw(d.Lo, int(d.Hi-d.Lo)), img.PristineAt(d.Lo, int(d.Hi-d.Lo)))
	}
	// every page ever touched by goom goes back to r-x
	for p := range vsys.Pages {
		_ = syscall.Mprotect(vk.Raw(p, int(pageSize)), syscall.PROT_READ|syscall.PROT_EXEC)
	}
	for _, d := range diff {
		lo, hi := page(d.Lo), page(d.Hi-1)+pageSize
		_ = syscall.Mprotect(vk.Raw(lo, int(hi-lo)), syscall.PROT_READ|syscall.PROT_EXEC)
	}
	vsys.ResetLog()
	if len(img.Diff()) != 0 {
		vk.Fatalf("forceClean could not restore the image")
	}
}

// ---------------------------------------------------------------------------------------------
// scenario

// Scn describes one closed scenario.
type Scn struct {
	Name     string   `json:"name"`
	Mockers  []string `json:"mockers"` // target names, one mocker thread each
	Callers  int      `json:"callers"`
	CallsPer int      `json:"calls_per_caller"`
	// Steady: how S is steadily mocked: "" = callback calling the origin placeholder, "sequence" = Return(v1).AndReturn(v2)
	Steady string `json:"steady,omitempty"`
}

// Case is the replay artefact.
type Case struct {
	Sub      string `json:"sub"`
	Scn      Scn    `json:"scn"`
	Schedule []int  `json:"schedule"`
}

type obs struct {
	who  string
	what string
	got  int
	want int
}

const steadyBonus = 7000000

// the two elements of the steady result sequence (every call yields one of them, the last one for good)
const seq1, seq2 = 8100001, 8100002

var steadySeq bool

// failFirst[name]: the mocker thread of this target starts with a refused apply (scenario option).
var failFirst = map[string]bool{}

// failByPanic: the refused apply is one that panics while the trampoline is built (LeafT) rather than one that
// is turned down with an error before anything is attempted (LoopT).
var failByPanic bool

// originTwice: mockers of a target with an origin placeholder apply a second origin-calling callback before
// they re-stub (scenario option).
var originTwice bool

// mockerBody is the per-builder script: apply a callback, call, re-stub with Return, call,
// reset, call. Observations are appended to out.
func mockerBody(tg *target, out *[]obs, yield func(string)) {
	b := mocker.Create()
	arg := 5 + tg.idx
	if failFirst[tg.name] {
		// this builder first makes an apply that goom has to refuse (origin placeholder on a function
		// whose prologue cannot be relocated) and recovers from it, as a test using assert.Panics would
		o, fn := t.OLoopT, t.LoopT
		if failByPanic {
			o, fn = t.OLeafT, t.LeafT
		}
		_, refused := vk.Try(func() { b.Func(fn).Origin(&o).Apply(func(a int) int { return o(a) + 1 }) })
		want := 0
		if refused {
			want = 1
		}
		*out = append(*out, obs{tg.name, "an origin apply on a function whose prologue cannot be relocated: refused (1) or not (0)", want, 1})
		yield("after-refused-apply")
	}
	if tg.origin != nil {
		b.Func(tg.fn).Origin(tg.origin).Apply(func(a int) int {
			if vk.InCallAlready() {
				return (*tg.origin)(a)
			}
			return (*tg.origin)(a) + 50000
		})
		yield("after-apply")
		*out = append(*out, obs{tg.name, "after Apply(cb calling origin)", tg.fn(arg), arg + tg.k + 50000})
		if originTwice {
			// a second callback with the same origin placeholder while the first is still applied
			b.Func(tg.fn).Origin(tg.origin).Apply(func(a int) int {
				if vk.InCallAlready() {
					return (*tg.origin)(a)
				}
				return (*tg.origin)(a) + 51000
			})
			yield("after-second-apply")
			*out = append(*out, obs{tg.name, "after a second Apply(cb calling origin)", tg.fn(arg), arg + tg.k + 51000})
		}
	} else if tg.name == "G1" || tg.name == "G2" {
		// a callback on a generic function receives the type dictionary in place of its first
		// argument (recorded in DESIGN 9.4, outside the statements): the generic target is stubbed
		b.Func(tg.fn).Return(arg + 60000)
		yield("after-apply")
		*out = append(*out, obs{tg.name, "after Return(v1)", tg.fn(arg), arg + 60000})
	} else {
		b.Func(tg.fn).Apply(func(a int) int { return a + 60000 })
		yield("after-apply")
		*out = append(*out, obs{tg.name, "after Apply(cb)", tg.fn(arg), arg + 60000})
	}
	yield("before-restub")
	b.Func(tg.fn).Return(77000 + tg.idx)
	yield("after-restub")
	*out = append(*out, obs{tg.name, "after Return(v)", tg.fn(arg), 77000 + tg.idx})
	yield("before-reset")
	b.Reset()
	yield("after-reset")
	*out = append(*out, obs{tg.name, "after Reset", tg.fn(arg), arg + tg.k})
}

func callerBody(id, n int, out *[]obs, yield func(string)) {
	for k := 0; k < n; k++ {
		if k > 0 {
			yield("between-calls")
		}
		a := 10*id + k
		if steadySeq {
			got := steady.fn(a)
			want := got
			if got != seq1 && got != seq2 {
				want = seq2
			}
			*out = append(*out, obs{fmt.Sprintf("caller%d", id), fmt.Sprintf("call %d of S, steadily mocked with the result sequence (%d, %d),", k, seq1, seq2), got, want})
			continue
		}
		*out = append(*out, obs{fmt.Sprintf("caller%d", id), fmt.Sprintf("call %d of the steadily mocked S", k), steady.fn(a), a + steady.k + steadyBonus})
	}
}

func installSteady() *mocker.Builder {
	b0 := mocker.Create()
	if steadySeq {
		b0.Func(steady.fn).Return(seq1).AndReturn(seq2)
		return b0
	}
	b0.Func(steady.fn).Origin(steady.origin).Apply(func(a int) int {
		if vk.InCallAlready() {
			return (*steady.origin)(a)
		}
		return (*steady.origin)(a) + steadyBonus
	})
	return b0
}

func scenario(sn Scn) (sched.Scenario, func() []obs) {
	var (
		b0   *mocker.Builder
		outs [][]obs
	)
	all := func() []obs {
		var o []obs
		for _, l := range outs {
			o = append(o, l...)
		}
		return o
	}
	sc := sched.Scenario{Name: "c11/" + sn.Name, Horizon: 20000}
	sc.Setup = func() []func() {
		forceClean()
		steadySeq = sn.Steady == "sequence"
		failFirst = map[string]bool{}
		failByPanic = sn.Steady == "panic-first"
		originTwice = sn.Steady == "origin-twice"
		if sn.Steady == "fail-first" || sn.Steady == "panic-first" {
			failFirst[sn.Mockers[0]] = true
		}
		b0 = installSteady()
		vsys.ResetLog()
		vsys.Logging = true
		n := len(sn.Mockers) + sn.Callers
		outs = make([][]obs, n)
		bodies := make([]func(), n)
		for i, name := range sn.Mockers {
			i, tg := i, targets[name]
			bodies[i] = func() {
				growStack(48)
				mockerBody(tg, &outs[i], sched.Yield)
			}
		}
		for j := 0; j < sn.Callers; j++ {
			i, j := len(sn.Mockers)+j, j
			bodies[i] = func() {
				growStack(48)
				callerBody(j, sn.CallsPer, &outs[i], sched.Yield)
			}
		}
		return bodies
	}
	sc.AtPoint = func(x *sched.Execution) string {
		for _, p := range sortedPages() {
			prot := vsys.Pages[p]
			if prot&syscall.PROT_EXEC == 0 {
				return fmt.Sprintf("not-executable: code page image+%#x was left without PROT_EXEC (prot=%d) while other threads may be running code in it", p-page(img.Start), prot)
			}
		}
		return ""
	}
	sc.Check = func(x *sched.Execution) string {
		vsys.Logging = false
		for ti, p := range x.Panics {
			if p != "" {
				return fmt.Sprintf("crash: thread %d: %s", ti, vk.Short(p, 200))
			}
		}
		for _, o := range all() {
			if o.got != o.want {
				if strings.HasPrefix(o.who, "caller") {
					return fmt.Sprintf("steady-mock-broken: %s: %s returned %d, expected the mocked result %d", o.who, o.what, o.got, o.want)
				}
				return fmt.Sprintf("isolation: mocker of %s: its own target %s returned %d, expected %d", o.who, o.what, o.got, o.want)
			}
		}
		expectObs := 3*len(sn.Mockers) + sn.Callers*sn.CallsPer + len(failFirst)
		if originTwice {
			for _, name := range sn.Mockers {
				if targets[name].origin != nil {
					expectObs++
				}
			}
		}
		if len(all()) != expectObs {
			return fmt.Sprintf("incomplete: %d of %d observations", len(all()), expectObs)
		}
		// quiescence of the threads: only the steady mock (and placeholders) may differ
		sLo := pc(steady.fn)
		allowed := append([]vk.Range{{Lo: sLo, Hi: sLo + 13}}, placeholders...)
		if bad := vk.OutsideAllowed(img.Diff(), allowed); len(bad) > 0 {
			return fmt.Sprintf("not-restored: after all mocker threads have reset, bytes outside the steady mock's entry and the placeholders differ: %s", rel(bad))
		}
		if s := steady.fn(1); !steadySeq && s != 1+steady.k+steadyBonus || steadySeq && s != seq2 && (s != seq1 || sn.Callers*sn.CallsPer > 0) {
			return fmt.Sprintf("steady-mock-broken: after the threads joined S(1) returned %d", s)
		}
		b0.Reset()
		if bad := vk.OutsideAllowed(img.Diff(), placeholders); len(bad) > 0 {
			return fmt.Sprintf("not-restored: at quiescence bytes outside the placeholders differ from the pristine image: %s", rel(bad))
		}
		for _, p := range sortedPages() {
			prot := vsys.Pages[p]
			if prot != syscall.PROT_READ|syscall.PROT_EXEC {
				return fmt.Sprintf("page-left-writable: at quiescence page image+%#x has prot=%d", p-page(img.Start), prot)
			}
		}
		if vsync.Held() {
			return "lock-leaked: a lock is still held at quiescence"
		}
		return ""
	}
	return sc, all
}

func sortedPages() []uintptr {
	ps := make([]uintptr, 0, len(vsys.Pages))
	for p := range vsys.Pages {
		ps = append(ps, p)
	}
	sort.Slice(ps, func(i, j int) bool { return ps[i] < ps[j] })
	return ps
}

func rel(rs []vk.Range) string {
	var s []string
	for _, r := range rs {
		f := "?"
		for _, name := range []string{"S", "F1", "F2", "F3", "F4", "F5", "F6", "F7", "F8", "F9"} {
			e := pc(targets[name].fn)
			if r.Lo >= e && r.Lo < e+64 {
				f = fmt.Sprintf("%s+%d", name, r.Lo-e)
			}
		}
		s = append(s, fmt.Sprintf("%s(%d bytes)", f, r.Hi-r.Lo))
	}
	return strings.Join(s, ",")
}

func scenarios(thorough bool) []Scn {
	s := []Scn{
		{"same-page/2mockers+1caller", []string{"F1", "F2"}, 1, 3, ""},
		{"other-page/2mockers+1caller", []string{"F1", "F3"}, 1, 3, ""},
		{"same-page/1mocker+2callers", []string{"F2"}, 2, 2, ""},
		{"sequence/2callers", nil, 2, 2, "sequence"},
		{"generic+plain/2mockers", []string{"G1", "F1"}, 0, 0, ""},
		{"2generic", []string{"G1", "G2"}, 0, 0, ""},
		{"refused-apply+plain/2mockers", []string{"F1", "F2"}, 1, 1, "fail-first"},
		{"panicking-apply+plain/2mockers", []string{"F1", "F2"}, 1, 1, "panic-first"},
		{"origin-reapplied+plain/2mockers", []string{"F1", "F2"}, 1, 1, "origin-twice"},
	}
	if thorough {
		s = append(s,
			Scn{"same-page/2mockers+2callers", []string{"F1", "F2"}, 2, 2, ""},
			Scn{"sequence/1mocker+3callers", []string{"F2"}, 3, 1, "sequence"},
			Scn{"3mockers", []string{"F1", "F2", "F3"}, 0, 0, ""},
		)
	}
	return s
}

func warmUp() {
	// one free run of every body fills goom's caches (function sizes, symbol alignment), so
	// explored executions are identical to each other
	var sink []obs
	for _, name := range []string{"F1", "F2", "F3", "G1", "G2"} {
		mockerBody(targets[name], &sink, func(string) {})
	}
	failFirst = map[string]bool{"F1": true}
	mockerBody(targets["F1"], &sink, func(string) {})
	failByPanic = true
	mockerBody(targets["F1"], &sink, func(string) {})
	failByPanic = false
	failFirst = map[string]bool{}
	originTwice = true
	mockerBody(targets["F2"], &sink, func(string) {})
	originTwice = false
	failFirst = map[string]bool{}
	b0 := installSteady()
	callerBody(0, 1, &sink, func(string) {})
	b0.Reset()
	for _, o := range sink {
		if o.got != o.want {
			vk.Fatalf("warm-up: %s %s got %d want %d", o.who, o.what, o.got, o.want)
		}
	}
}

var codeReads bool

func explore(c *vk.Ctx) {
	// layout facts the scenarios rely on (roles were chosen accordingly in initTargets)
	if page(pc(steady.fn)) != page(pc(targets["F1"].fn)) || page(pc(steady.fn)) != page(pc(targets["F2"].fn)) || page(pc(targets["F3"].fn)) == page(pc(steady.fn)) {
		vk.Fatalf("layout roles are inconsistent")
	}
	c.Res.Extra["layout"] = fmt.Sprintf("S,F1,F2 on page image+%#x; F3 on page image+%#x", page(pc(steady.fn))-page(img.Start), page(pc(targets["F3"].fn))-page(img.Start))
	warmUp()
	bounds := []int{0, 1, 2}
	if c.Thorough() {
		bounds = []int{0, 1, 2, 3}
	}
	completed := map[string]int{}
	outcomes := 0
	for i, sn := range scenarios(c.Thorough()) {
		_ = i
		if codeReads && sn.Name != "2generic" && sn.Name != "generic+plain/2mockers" {
			continue
		}
		sc, all := scenario(sn)
		cs := Case{map[bool]string{false: "explore", true: "codereads"}[codeReads], sn, nil}
		c.Sample(cs)
		for _, b := range bounds {
			if sn.Name == "same-page/2mockers+2callers" && b > 2 || sn.Name == "3mockers" && b > 2 {
				continue
			}
			res, cont := sx.Explore(c, sx.Config{
				Scenario: sc, Bound: b, ShardTop: true, NoteDeath: true,
				Outcome: func(x *sched.Execution) string {
					var sb strings.Builder
					for _, o := range all() {
						fmt.Fprintf(&sb, "%s=%d ", o.who, o.got)
					}
					return sb.String()
				},
				Key:  map[bool]string{false: "explore", true: "codereads"}[codeReads] + " scn=" + sn.Name,
				Case: func(s []int) interface{} { cc := cs; cc.Schedule = s; return cc },
			})
			outcomes += len(res.Outcomes)
			if res.Failure != "" {
				forceClean()
				break
			}
			if !cont {
				break
			}
			if res.Stats.Complete {
				completed[sn.Name] = b
			}
		}
		if c.Full() || c.TimedOut {
			break
		}
	}
	forceClean()
	for k, v := range completed {
		c.Res.Extra["completed_preemption_bound "+k] = v
	}
	c.Res.Extra["n_outcome_classes"] = outcomes
	c.Res.Extra["bounds"] = fmt.Sprint(bounds)
}

// own unexported functions, mocked by name (the first resolution of each name in the process
// happens concurrently with the others)
//
//go:noinline
func priv0(a int) int { return privBody(a, 0) }

//go:noinline
func priv1(a int) int { return privBody(a, 1) }

//go:noinline
func priv2(a int) int { return privBody(a, 2) }

//go:noinline
func priv3(a int) int { return privBody(a, 3) }

//go:noinline
func priv4(a int) int { return privBody(a, 4) }

//go:noinline
func priv5(a int) int { return privBody(a, 5) }

//go:noinline
func priv6(a int) int { return privBody(a, 6) }

//go:noinline
func priv7(a int) int { return privBody(a, 7) }

//go:noinline
func privBody(a, k int) int {
	if a > 1<<40 {
		return a*k - 1
	}
	return a + 100*k
}

// raceIface is the interface of the variables mocked by ifaceStage.
type raceIface interface{ Get(a int) int }

var raceVars [8]raceIface

//go:noinline
func callRaceVar(i, a int) int { return raceVars[i].Get(a) }

// ifaceStage: independent builders mock disjoint interface variables at once (each stub is emitted
// while the others are being emitted), call through them and reset.
func ifaceStage(c *vk.Ctx) {
	var wg sync.WaitGroup
	start := make(chan struct{})
	fails := make([]string, len(raceVars))
	for i := range raceVars {
		i := i
		wg.Add(1)
		go func() {
			defer wg.Done()
			growStack(48)
			<-start
			for r := 0; r < 200; r++ {
				b := mocker.Create()
				want := 400000 + 1000*i + r
				b.Interface(&raceVars[i]).Method("Get").Apply(func(ctx *mocker.IContext, a int) int { return a + want })
				var got int
				msg, p := vk.Try(func() { got = callRaceVar(i, 7) })
				if fails[i] == "" && (p || got != 7+want) {
					fails[i] = fmt.Sprintf("variable %d mocked by its own builder: Get(7) returned %d (panic %q), expected %d", i, got, vk.Short(msg, 60), 7+want)
				}
				b.Reset()
			}
		}()
	}
	close(start)
	wg.Wait()
	c.Res.Evaluations++
	c.Res.Traces++
	for _, f := range fails {
		if f != "" {
			c.Violate("race class=iface-wrong-result", "free-running pass (8 builders mocking 8 interface variables at once): "+f, Case{Sub: "race"})
			break
		}
	}
}

//go:noinline
func varTarget(p string, xs ...int) int {
	if len(xs) > 1<<20 {
		return -1
	}
	return len(p) + len(xs) + 70
}

// variadicStage: one variadic function steadily mocked with conditions; callers on several
// goroutines pass different argument lists at the same time (each call must get the result of
// its own condition) while another builder re-stubs and resets a disjoint function.
func variadicStage(c *vk.Ctx) {
	b0 := mocker.Create()
	b0.Func(varTarget).Return(1000).When("a", 1, 2).Return(1012).When("b", 3).Return(1003).When("c").Return(1099)
	calls := []struct {
		p    string
		xs   []int
		want int
	}{{"a", []int{1, 2}, 1012}, {"b", []int{3}, 1003}, {"c", nil, 1099}, {"z", []int{9, 9, 9}, 1000}}
	var wg sync.WaitGroup
	start := make(chan struct{})
	fails := make([]string, 6)
	for g := 0; g < 6; g++ {
		g := g
		wg.Add(1)
		go func() {
			defer wg.Done()
			growStack(48)
			<-start
			for r := 0; r < 3000; r++ {
				cl := calls[(g+r)%len(calls)]
				if got := varTarget(cl.p, cl.xs...); got != cl.want && fails[g] == "" {
					fails[g] = fmt.Sprintf("caller %d: varTarget(%q,%v...) returned %d, the condition it selects returns %d", g, cl.p, cl.xs, got, cl.want)
				}
			}
		}()
	}
	wg.Add(1)
	go func() {
		defer wg.Done()
		growStack(48)
		<-start
		var out []obs
		for r := 0; r < 20; r++ {
			mockerBody(targets["F4"], &out, func(string) {})
		}
	}()
	close(start)
	wg.Wait()
	b0.Reset()
	c.Res.Evaluations++
	c.Res.Traces++
	for _, f := range fails {
		if f != "" {
			c.Violate("race class=variadic-wrong-result", "free-running pass (6 callers of one steadily mocked variadic function): "+f, Case{Sub: "race"})
			break
		}
	}
}

// byName: independent builders mock disjoint unexported functions by name, all at once.
func byName(c *vk.Ctx) {
	privs := []func(int) int{priv0, priv1, priv2, priv3, priv4, priv5, priv6, priv7}
	var wg sync.WaitGroup
	start := make(chan struct{})
	fails := make([]string, len(privs))
	for i := range privs {
		i := i
		wg.Add(1)
		go func() {
			defer wg.Done()
			growStack(48)
			<-start
			for r := 0; r < 3; r++ {
				b := mocker.Create()
				b.ExportFunc(fmt.Sprintf("priv%d", i)).As(func(a int) int { return 0 }).Return(9000 + i)
				if got := privs[i](5); got != 9000+i && fails[i] == "" {
					fails[i] = fmt.Sprintf("priv%d mocked by name returned %d, expected %d", i, got, 9000+i)
				}
				b.Reset()
				if got := privs[i](5); got != 5+100*i && fails[i] == "" {
					fails[i] = fmt.Sprintf("priv%d after Reset returned %d, expected %d", i, got, 5+100*i)
				}
			}
		}()
	}
	close(start)
	wg.Wait()
	c.Res.Evaluations++
	c.Res.Traces++
	for _, f := range fails {
		if f != "" {
			c.Violate("race class=by-name-wrong-result", "free-running pass (8 builders mocking 8 own unexported functions by name at once): "+f, Case{Sub: "race"})
			break
		}
	}
	if bad := vk.OutsideAllowed(img.Diff(), placeholders); len(bad) > 0 {
		c.Violate("race class=not-restored", "free-running pass (by name): image not restored at quiescence: "+rel(bad), Case{Sub: "race"})
		forceClean()
	}
}

// race: free-running bodies in a -race build.
func race(c *vk.Ctx) {
	rounds := 40
	if c.Thorough() {
		rounds = 200
	}
	names := []string{"F1", "F2", "F3", "F4", "F5", "F6", "F7", "F8"}
	c.Note(`{"__key":"race free-running pass","case":{"sub":"race"}}`)
	byName(c)
	ifaceStage(c)
	variadicStage(c)
	for _, nm := range []int{2, 4, 8} {
		for _, nc := range []int{2, 8} {
			for r := 0; r < rounds; r++ {
				steadySeq = r%4 == 3
				b0 := installSteady()
				var wg sync.WaitGroup
				outs := make([][]obs, nm+nc)
				for i := 0; i < nm; i++ {
					i := i
					wg.Add(1)
					go func() {
						defer wg.Done()
						growStack(48)
						mockerBody(targets[names[i]], &outs[i], func(string) {})
					}()
				}
				for j := 0; j < nc; j++ {
					j := j
					wg.Add(1)
					go func() {
						defer wg.Done()
						growStack(48)
						callerBody(j, 3, &outs[nm+j], func(string) {})
					}()
				}
				wg.Wait()
				b0.Reset()
				c.Res.Evaluations++
				c.Res.Traces++
				c.Res.Nontrivial++
				for _, l := range outs {
					for _, o := range l {
						if o.got != o.want {
							c.Violate("race class=wrong-result who="+strings.TrimRight(o.who, "0123456789"), fmt.Sprintf("free-running pass (%d mockers, %d callers): %s %s returned %d, expected %d", nm, nc, o.who, o.what, o.got, o.want), Case{Sub: "race"})
						}
					}
				}
				if bad := vk.OutsideAllowed(img.Diff(), placeholders); len(bad) > 0 {
					c.Violate("race class=not-restored", "free-running pass: image not restored at quiescence: "+rel(bad), Case{Sub: "race"})
					forceClean()
				}
			}
		}
	}
	steadySeq = false
	c.Res.States = 1
	c.Res.Extra["sampled_side_pass"] = true
	c.Res.Extra["race_pass"] = "sampled (N in {2,4,8} mockers x M in {2,8} callers free-running under the race detector; precondition check for the explorer, not the decider)"
}

// Run is the worker entry point.
func Run(c *vk.Ctx) {
	debug.SetPanicOnFault(true)
	img = vk.Snapshot()
	initTargets()
	if c.Replay != "" {
		var cs Case
		c.LoadReplay(&cs)
		if cs.Sub != "explore" && cs.Sub != "codereads" {
			fmt.Println("race-pass findings are not replayable deterministically; re-run the check")
			c.Finish()
			return
		}
		warmUp()
		sc, all := scenario(cs.Scn)
		x, f := sched.RunOnce(sc, cs.Schedule, false)
		fmt.Printf("replay scn=%+v schedule=%v\n", cs.Scn, cs.Schedule)
		for i, p := range x.Points {
			if i < len(cs.Schedule)+3 || p.Chosen != p.Prev {
				fmt.Printf("  point %3d: run T%d (previous thread T%d was at %-26s) enabled=%v\n", i, p.Chosen, p.Prev, p.Kind, p.Enabled)
			}
		}
		for _, o := range all() {
			fmt.Printf("  %-8s %-40s got=%d want=%d\n", o.who, o.what, o.got, o.want)
		}
		fmt.Printf("result: %s\n", orOK(f))
		if f != "" {
			c.Violate("replay", f, cs)
		}
		forceClean()
		c.Finish()
		return
	}
	switch c.Sub {
	case "explore":
		explore(c)
	case "codereads":
		// the binary of this job has a scheduling point on entry to and return from every function of goom's
		// memory package (reads and writes of the program's own code): the scenarios whose threads read code
		// outside the patch lock - generic targets, whose instantiation wrapper is decoded before the lock is
		// taken - are explored again at that finer grain
		codeReads = true
		explore(c)
	case "race":
		race(c)
	default:
		vk.Fatalf("unknown sub %q", c.Sub)
	}
	c.Finish()
}

func orOK(s string) string {
	if s == "" {
		return "conforms"
	}
	return s
}
