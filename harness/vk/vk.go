// Package vk is the worker kit shared by every property harness: command line, sharding,
// crash side-file, result file, violation recording.
package vk

import (
	"encoding/binary"
	"encoding/json"
	"flag"
	"fmt"
	"os"
	"runtime"
	"runtime/debug"
	"sort"
	"strings"
	"sync/atomic"
	"time"
)

// Violation is one property violation found by a worker.
type Violation struct {
	// Key is the canonical identity of the (minimised) failing case; known_findings.txt
	// matches on it exactly.
	Key string `json:"key"`
	// Desc says what was expected and what happened.
	Desc string `json:"desc"`
	// Case is the replayable artefact (history / schedule / input).
	Case interface{} `json:"case"`
}

// Result is what a worker writes to its -out file.
type Result struct {
	Property    string                 `json:"property"`
	Sub         string                 `json:"sub"`
	Shard       int                    `json:"shard"`
	Evaluations int64                  `json:"evaluations"`
	Nontrivial  int64                  `json:"nontrivial"`
	States      int64                  `json:"states"`
	Transitions int64                  `json:"transitions"`
	Traces      int64                  `json:"traces"`
	Unjudged    int64                  `json:"unjudged"`
	Exhaustive  bool                   `json:"exhaustive"`
	Samples     []interface{}          `json:"samples"`
	Violations  []Violation            `json:"violations"`
	Extra       map[string]interface{} `json:"extra"`
	// Keys are hashed identities of distinct non-trivial cases / states when the shard counts
	// must be merged exactly (optional, only small sets).
	Done bool `json:"done"`
	// Next > 0: the worker stopped voluntarily (per-process case limit); the driver restarts it at Next.
	Next int64 `json:"next"`
}

// Ctx is the per-worker context.
type Ctx struct {
	Prop    string
	Sub     string
	Tier    string
	Shard   int
	NShards int
	Start   int64
	Count   int64
	MaxCases int64
	executed int64
	Seed    int64
	Replay  string
	Out     string
	Side    string
	Deadline time.Time
	Args    []string

	Res      Result
	sideF    *os.File
	maxViol  int
	distinct map[string]struct{}
	TimedOut bool
}

// Parse reads the command line.
func Parse() *Ctx {
	c := &Ctx{}
	var budget int
	flag.StringVar(&c.Prop, "prop", "", "property id")
	flag.StringVar(&c.Sub, "sub", "", "sub-check name")
	flag.StringVar(&c.Tier, "tier", "quick", "quick|thorough")
	flag.IntVar(&c.Shard, "shard", 0, "shard index")
	flag.IntVar(&c.NShards, "nshards", 1, "number of shards")
	flag.Int64Var(&c.Start, "start", 0, "first case index to execute (resume after a crash)")
	flag.Int64Var(&c.Count, "count", 0, "execute only this many case indices from -start (0 = all)")
	flag.Int64Var(&c.MaxCases, "maxcases", 0, "stop after this many executed cases and ask to be restarted (0 = no limit)")
	flag.Int64Var(&c.Seed, "seed", 0, "VERIF_SEED")
	flag.StringVar(&c.Replay, "replay", "", "replay file")
	flag.StringVar(&c.Out, "out", "", "result file")
	flag.StringVar(&c.Side, "side", "", "side file (current case index)")
	flag.IntVar(&budget, "budget", 0, "soft wall-clock budget in seconds (0 = none)")
	flag.IntVar(&caseTimeout, "casetimeout", 0, "abort (exit 4) when one case runs longer than this many seconds (0 = no watchdog)")
	flag.Parse()
	c.Args = flag.Args()
	c.Res.Property = c.Prop
	c.Res.Sub = c.Sub
	c.Res.Shard = c.Shard
	c.Res.Exhaustive = true
	c.Res.Extra = map[string]interface{}{}
	c.maxViol = 40
	c.distinct = map[string]struct{}{}
	if budget > 0 {
		c.Deadline = time.Now().Add(time.Duration(budget) * time.Second)
	}
	if c.Side != "" {
		f, err := os.OpenFile(c.Side, os.O_RDWR|os.O_CREATE, 0644)
		if err != nil {
			Fatalf("side file: %v", err)
		}
		c.sideF = f
	}
	if caseTimeout > 0 {
		atomic.StoreInt64(&lastMark, time.Now().UnixNano())
		go watchdog()
	}
	return c
}

// The case watchdog: a case that does not return (the code under test spins, or waits for something that
// never comes) would stall the shard until the driver's hard timeout. With -casetimeout the worker ends
// itself with exit code 4 instead; the driver then treats the marked case like a crash (it is replayed
// alone three times, and only a case that never returns in any of them is reported).
var (
	caseTimeout int
	lastMark    int64
)

func watchdog() {
	for {
		time.Sleep(time.Second)
		if time.Duration(time.Now().UnixNano()-atomic.LoadInt64(&lastMark)) > time.Duration(caseTimeout)*time.Second {
			fmt.Fprintf(os.Stderr, "\nvk: case watchdog: the current case has not returned after %d s; giving up on this process (exit 4)\n", caseTimeout)
			os.Exit(4)
		}
	}
}

// Thorough reports whether the thorough tier is requested.
func (c *Ctx) Thorough() bool { return c.Tier == "thorough" }

// Mine says whether case index i is executed by this worker; if so it is recorded in the side
// file first, so that the driver knows the culprit if the process dies.
func (c *Ctx) Mine(i int64) bool {
	if i < c.Start || c.Count > 0 && i >= c.Start+c.Count || c.NShards > 1 && int(i%int64(c.NShards)) != c.Shard {
		return false
	}
	if c.MaxCases > 0 && c.executed >= c.MaxCases {
		if c.Res.Next == 0 {
			c.Res.Next = i
		}
		return false
	}
	c.executed++
	c.Mark(i)
	return true
}

// Mark records the case index about to be executed.
func (c *Ctx) Mark(i int64) {
	atomic.StoreInt64(&lastMark, time.Now().UnixNano())
	if c.sideF != nil {
		var b [8]byte
		binary.LittleEndian.PutUint64(b[:], uint64(i))
		_, _ = c.sideF.WriteAt(b[:], 0)
	}
}

// Note writes a free-form description of the current case next to the index (for crash reports).
func (c *Ctx) Note(s string) {
	if c.sideF != nil {
		if len(s) > 4000 {
			s = s[:4000]
		}
		b := make([]byte, 4+len(s))
		binary.LittleEndian.PutUint32(b, uint32(len(s)))
		copy(b[4:], s)
		_, _ = c.sideF.WriteAt(b, 8)
	}
}

// Expired reports whether the soft budget is used up; the caller stops and the result is
// written with exhaustive=false.
func (c *Ctx) Expired() bool {
	if c.Deadline.IsZero() {
		return false
	}
	if time.Now().After(c.Deadline) {
		c.TimedOut = true
		c.Res.Exhaustive = false
		return true
	}
	return false
}

// Sample keeps up to 6 example cases (first three, last three).
func (c *Ctx) Sample(s interface{}) {
	if len(c.Res.Samples) < 3 {
		c.Res.Samples = append(c.Res.Samples, s)
		return
	}
	if len(c.Res.Samples) < 6 {
		c.Res.Samples = append(c.Res.Samples, s)
		return
	}
	copy(c.Res.Samples[3:], c.Res.Samples[4:])
	c.Res.Samples[5] = s
}

// Distinct counts a distinct non-trivial case identified by key.
func (c *Ctx) Distinct(key string) {
	if _, ok := c.distinct[key]; !ok {
		c.distinct[key] = struct{}{}
		c.Res.Nontrivial++
	}
}

// DistinctCount is the number of keys seen so far.
func (c *Ctx) DistinctCount() int { return len(c.distinct) }

// Violate records a violation (deduplicated by key). It returns true when the worker should
// stop because enough distinct violations have been collected.
func (c *Ctx) Violate(key, desc string, cs interface{}) bool {
	for _, v := range c.Res.Violations {
		if v.Key == key {
			return false
		}
	}
	c.Res.Violations = append(c.Res.Violations, Violation{Key: key, Desc: desc, Case: cs})
	return len(c.Res.Violations) >= c.maxViol
}

// Full reports whether the violation list is full.
func (c *Ctx) Full() bool { return len(c.Res.Violations) >= c.maxViol }

// Finish writes the result file.
func (c *Ctx) Finish() {
	if n := atomic.LoadInt64(&OriginReentries); n > 0 {
		c.Res.Extra["origin_callback_reentries_masked"] = n
	}
	c.Res.Done = c.Res.Next == 0
	sort.Slice(c.Res.Violations, func(i, j int) bool { return c.Res.Violations[i].Key < c.Res.Violations[j].Key })
	b, err := json.Marshal(&c.Res)
	if err != nil {
		Fatalf("marshal result: %v", err)
	}
	if c.Out == "" {
		os.Stdout.Write(b)
		os.Stdout.Write([]byte("\n"))
		return
	}
	if err := os.WriteFile(c.Out+".tmp", b, 0644); err != nil {
		Fatalf("write result: %v", err)
	}
	if err := os.Rename(c.Out+".tmp", c.Out); err != nil {
		Fatalf("rename result: %v", err)
	}
}

// Checkpoint writes the result collected so far (done=false), so that it survives a crash of
// the code under test.
func (c *Ctx) Checkpoint() {
	if c.Out == "" {
		return
	}
	done := c.Res.Done
	c.Res.Done = false
	b, err := json.Marshal(&c.Res)
	c.Res.Done = done
	if err != nil {
		return
	}
	if os.WriteFile(c.Out+".tmp", b, 0644) == nil {
		_ = os.Rename(c.Out+".tmp", c.Out)
	}
}

// LoadReplay reads the replay file into v.
func (c *Ctx) LoadReplay(v interface{}) {
	b, err := os.ReadFile(c.Replay)
	if err != nil {
		Fatalf("replay: %v", err)
	}
	var wrap struct {
		Case json.RawMessage `json:"case"`
	}
	if err := json.Unmarshal(b, &wrap); err != nil || wrap.Case == nil {
		Fatalf("replay file has no case: %v", err)
	}
	if err := json.Unmarshal(wrap.Case, v); err != nil {
		Fatalf("replay case: %v", err)
	}
}

// Fatalf reports a harness error (exit 2, never a verdict).
func Fatalf(format string, a ...interface{}) {
	fmt.Fprintf(os.Stderr, "HARNESS-ERROR: "+format+"\n", a...)
	os.Exit(3) // 2 is what the Go runtime uses for fatal errors and unrecovered panics
}

// Try runs f and returns the recovered panic (nil if none) rendered as a string.
func Try(f func()) (msg string, panicked bool) {
	defer func() {
		if r := recover(); r != nil {
			panicked = true
			msg = fmt.Sprint(r)
		}
	}()
	f()
	return
}

// TryStack is Try that also captures the stack (for diagnostics only).
func TryStack(f func()) (msg string, stack string, panicked bool) {
	defer func() {
		if r := recover(); r != nil {
			panicked = true
			msg = fmt.Sprint(r)
			stack = string(debug.Stack())
		}
	}()
	f()
	return
}

// Short truncates s for descriptions.
func Short(s string, n int) string {
	s = strings.ReplaceAll(s, "\n", " | ")
	if len(s) > n {
		return s[:n] + "…"
	}
	return s
}

// OriginReentries counts re-entries of origin-calling callbacks (see InCallAlready).
var OriginReentries int64

// InCallAlready reports whether the calling function already has an activation further up the
// goroutine's stack. A callback that calls its origin placeholder uses it as a guard: when the
// relocated stack check of the placeholder fires (stack growth, or a preemption request that
// poisons the stack guard) the runtime resumes at the *patched* entry and the callback is entered a
// second time (C03's known finding). Checks of other properties must not trip over that: the
// re-entered activation just forwards to the origin and the event is counted.
func InCallAlready() bool {
	var pcs [96]uintptr
	n := runtime.Callers(2, pcs[:])
	if n < 2 {
		return false
	}
	f0 := runtime.FuncForPC(pcs[0] - 1)
	if f0 == nil {
		return false
	}
	for _, pc := range pcs[1:n] {
		if f := runtime.FuncForPC(pc - 1); f != nil && f.Entry() == f0.Entry() {
			atomic.AddInt64(&OriginReentries, 1)
			return true
		}
	}
	return false
}
