package vk

// Minimize returns a 1-minimal subsequence of seq on which fails still holds (greedy removal
// of single elements, repeated to a fixed point). fails(seq) must be true on entry.
func Minimize(seq []int, fails func([]int) bool) []int {
	cur := append([]int(nil), seq...)
	for changed := true; changed; {
		changed = false
		for i := 0; i < len(cur); i++ {
			cand := append(append([]int(nil), cur[:i]...), cur[i+1:]...)
			if len(cand) > 0 && fails(cand) {
				cur = cand
				changed = true
				i--
			}
		}
	}
	return cur
}
