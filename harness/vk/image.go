package vk

import (
	"bufio"
	"debug/elf"
	"fmt"
	"os"
	"reflect"
	"runtime"
	"strings"
	"syscall"
	"unsafe"
)

// Image is a snapshot of the executable's .text section as mapped in this process.
type Image struct {
	Start, End uintptr
	Pristine   []byte
}

// rawBytes views process memory.
func rawBytes(addr uintptr, n int) []byte {
	return unsafe.Slice((*byte)(unsafe.Pointer(addr)), n)
}

// Raw returns a live view on process memory.
func Raw(addr uintptr, n int) []byte { return rawBytes(addr, n) }

// Copy returns a copy of process memory.
func Copy(addr uintptr, n int) []byte {
	b := make([]byte, n)
	copy(b, rawBytes(addr, n))
	return b
}

// TextRange returns the address range of the ELF .text section of the running executable
// (non-PIE builds: link address == run-time address; verified against a known function).
func TextRange() (uintptr, uintptr) {
	f, err := elf.Open("/proc/self/exe")
	if err != nil {
		Fatalf("open exe: %v", err)
	}
	defer f.Close()
	s := f.Section(".text")
	if s == nil {
		Fatalf("no .text")
	}
	start, end := uintptr(s.Addr), uintptr(s.Addr+s.Size)
	pc := reflect.ValueOf(TextRange).Pointer()
	if pc < start || pc >= end {
		Fatalf("text range %x-%x does not contain own code %x (PIE?)", start, end, pc)
	}
	return start, end
}

// Snapshot takes the pristine image. Call it before any patch is applied.
func Snapshot() *Image {
	s, e := TextRange()
	return &Image{Start: s, End: e, Pristine: Copy(s, int(e-s))}
}

// Range is a half-open address interval.
type Range struct{ Lo, Hi uintptr }

func (r Range) String() string { return fmt.Sprintf("[%#x,%#x)", r.Lo, r.Hi) }

// Diff returns the maximal runs of bytes that differ from the pristine image.
func (im *Image) Diff() []Range {
	cur := rawBytes(im.Start, len(im.Pristine))
	var out []Range
	n := len(cur)
	i := 0
	// compare 8 bytes at a time
	for i < n {
		if i+8 <= n && *(*uint64)(unsafe.Pointer(&cur[i])) == *(*uint64)(unsafe.Pointer(&im.Pristine[i])) {
			i += 8
			continue
		}
		if cur[i] == im.Pristine[i] {
			i++
			continue
		}
		j := i
		for j < n && cur[j] != im.Pristine[j] {
			j++
		}
		out = append(out, Range{im.Start + uintptr(i), im.Start + uintptr(j)})
		i = j
	}
	return out
}

// PristineAt returns the pristine bytes at addr.
func (im *Image) PristineAt(addr uintptr, n int) []byte {
	off := int(addr - im.Start)
	return im.Pristine[off : off+n]
}

// OutsideAllowed returns the differing ranges not covered by the allowed ranges.
func OutsideAllowed(diff []Range, allowed []Range) []Range {
	var bad []Range
	for _, d := range diff {
		for a := d.Lo; a < d.Hi; a++ {
			ok := false
			for _, al := range allowed {
				if a >= al.Lo && a < al.Hi {
					ok = true
					break
				}
			}
			if !ok {
				if len(bad) > 0 && bad[len(bad)-1].Hi == a {
					bad[len(bad)-1].Hi = a + 1
				} else {
					bad = append(bad, Range{a, a + 1})
				}
			}
		}
	}
	return bad
}

// FuncExtent returns [entry, end) of the function containing pc according to the runtime's
// own function table (end = entry of the next function in the table).
func FuncExtent(pc uintptr) (uintptr, uintptr) {
	f := runtime.FuncForPC(pc)
	if f == nil {
		return 0, 0
	}
	entry := f.Entry()
	// walk forward until the function changes
	end := entry + 1
	for {
		g := runtime.FuncForPC(end)
		if g == nil || g.Entry() != entry {
			break
		}
		end++
		if end-entry > 1<<20 {
			break
		}
	}
	return entry, end
}

// MapPerm describes one /proc/self/maps line.
type MapPerm struct {
	Lo, Hi uintptr
	Perm   string
	Path   string
}

// Maps parses /proc/self/maps.
func Maps() []MapPerm {
	f, err := os.Open("/proc/self/maps")
	if err != nil {
		Fatalf("maps: %v", err)
	}
	defer f.Close()
	var out []MapPerm
	sc := bufio.NewScanner(f)
	for sc.Scan() {
		fs := strings.Fields(sc.Text())
		if len(fs) < 2 {
			continue
		}
		var lo, hi uintptr
		fmt.Sscanf(fs[0], "%x-%x", &lo, &hi)
		p := ""
		if len(fs) >= 6 {
			p = fs[5]
		}
		out = append(out, MapPerm{lo, hi, fs[1], p})
	}
	return out
}

// PermAt returns the permission string of the mapping containing addr ("" if unmapped).
func PermAt(maps []MapPerm, addr uintptr) string {
	for _, m := range maps {
		if addr >= m.Lo && addr < m.Hi {
			return m.Perm
		}
	}
	return ""
}

// ImagePerms returns the set of permission strings over [lo,hi).
func ImagePerms(lo, hi uintptr) map[string]int {
	res := map[string]int{}
	for _, m := range Maps() {
		if m.Hi <= lo || m.Lo >= hi {
			continue
		}
		res[m.Perm]++
	}
	return res
}

// FuncName returns the runtime's name of the function containing pc.
func FuncName(pc uintptr) string {
	f := runtime.FuncForPC(pc)
	if f == nil {
		return ""
	}
	return f.Name()
}

// FuncExtentFast is FuncExtent with a galloping search for the end (the next entry).
func FuncExtentFast(pc uintptr) (uintptr, uintptr) {
	f := runtime.FuncForPC(pc)
	if f == nil {
		return 0, 0
	}
	entry := f.Entry()
	same := func(a uintptr) bool {
		g := runtime.FuncForPC(a)
		return g != nil && g.Entry() == entry
	}
	step := uintptr(16)
	lo := pc
	hi := pc + step
	for same(hi) {
		lo = hi
		step *= 2
		hi = lo + step
		if step > 1<<22 {
			break
		}
	}
	// invariant: same(lo), !same(hi)
	for hi-lo > 1 {
		mid := lo + (hi-lo)/2
		if same(mid) {
			lo = mid
		} else {
			hi = mid
		}
	}
	return entry, hi
}

// ForceRestore writes the pristine bytes back over every differing range (own mprotect round
// trip, independent of goom) and returns the ranges that had differed.
func (im *Image) ForceRestore() []Range {
	diff := im.Diff()
	ps := uintptr(syscall.Getpagesize())
	for _, d := range diff {
		lo := d.Lo &^ (ps - 1)
		hi := (d.Hi-1)&^(ps-1) + ps
		b := rawBytes(lo, int(hi-lo))
		if err := syscall.Mprotect(b, syscall.PROT_READ|syscall.PROT_WRITE|syscall.PROT_EXEC); err != nil {
			Fatalf("ForceRestore mprotect: %v", err)
		}
		copy(rawBytes(d.Lo, int(d.Hi-d.Lo)), im.PristineAt(d.Lo, int(d.Hi-d.Lo)))
		if err := syscall.Mprotect(b, syscall.PROT_READ|syscall.PROT_EXEC); err != nil {
			Fatalf("ForceRestore mprotect: %v", err)
		}
	}
	return diff
}
