// Package c09t holds, for every result/parameter kind of the C09 table, one function returning
// the kind and one function taking it. Originals return recognisable values no stub uses.
package c09t

import "fmt"

// S is the nameable struct kind (pointer-free so that a reinterpretation can be compared safely).
type S struct {
	A int64
	B int32
	C bool
}

// hidden cannot be named outside this package: callers need a stand-in of identical layout.
type hidden struct {
	x int64
	y float64
}

// MakeHidden / MakeHiddenPtr hand out genuine values of the unnameable types.
func MakeHidden(x int64, y float64) interface{}    { return hidden{x, y} }
func MakeHiddenPtr(x int64, y float64) interface{} { return &hidden{x, y} }

// HiddenFields reads a hidden or *hidden.
func HiddenFields(v interface{}) (int64, float64, bool) {
	switch h := v.(type) {
	case hidden:
		return h.x, h.y, true
	case *hidden:
		if h == nil {
			return 0, 0, false
		}
		return h.x, h.y, true
	}
	return 0, 0, false
}

// PErr implements error on the pointer, VErr on the value; PStr/VStr likewise for fmt.Stringer.
type PErr struct{ Code int }

func (e *PErr) Error() string { return "perr" }

type VErr struct{ Code int }

func (e VErr) Error() string { return fmt.Sprintf("verr%d", e.Code) }

type PStr struct{ N int }

func (s *PStr) String() string { return "pstr" }

type VStr struct{ N int }

func (s VStr) String() string { return fmt.Sprintf("vstr%d", s.N) }

// FA, FB, FOrig are func() int values.
//
//go:noinline
func FA() int { return 1 }

//go:noinline
func FB() int { return 2 }

//go:noinline
func FOrig() int { return -1 }

var origS = S{-1, -1, true}
var origH = hidden{-1, -1}
var origErr = &PErr{-1}
var origStr = &PStr{-1}
var origMap = map[string]int{"orig": -1}
var origChan = make(chan int)
var origBytes = []byte("orig")

//go:noinline
func RPtr(int) *S { return &origS }

//go:noinline
func RErr(int) error { return origErr }

//go:noinline
func RIface(int) interface{} { return "orig" }

//go:noinline
func RStringer(int) fmt.Stringer { return origStr }

//go:noinline
func RBytes(int) []byte { return origBytes }

//go:noinline
func RMap(int) map[string]int { return origMap }

//go:noinline
func RChan(int) chan int { return origChan }

//go:noinline
func RFunc(int) func() int { return FOrig }

//go:noinline
func RInt64(int) int64 { return -1 }

//go:noinline
func RString(int) string { return "orig" }

//go:noinline
func RStruct(int) S { return origS }

//go:noinline
func RArray(int) [2]int { return [2]int{-1, -1} }

//go:noinline
func RHidden(int) hidden { return origH }

//go:noinline
func RHiddenPtr(int) *hidden { return &origH }

//go:noinline
func PPtr(*S) int { return -1 }

//go:noinline
func PErrF(error) int { return -1 }

//go:noinline
func PIface(interface{}) int { return -1 }

//go:noinline
func PStringer(fmt.Stringer) int { return -1 }

//go:noinline
func PBytes([]byte) int { return -1 }

//go:noinline
func PMap(map[string]int) int { return -1 }

//go:noinline
func PChan(chan int) int { return -1 }

//go:noinline
func PFunc(func() int) int { return -1 }

//go:noinline
func PInt64(int64) int { return -1 }

//go:noinline
func PString(string) int { return -1 }

//go:noinline
func PStruct(S) int { return -1 }

//go:noinline
func PArray([2]int) int { return -1 }

//go:noinline
func PHidden(hidden) int { return -1 }

//go:noinline
func PHiddenPtr(*hidden) int { return -1 }

// CallPHidden / CallPHiddenPtr make the real call for callers that cannot name the type.
func CallPHidden(x interface{}) int {
	h, _ := x.(hidden)
	return PHidden(h)
}

func CallPHiddenPtr(x interface{}) int {
	h, _ := x.(*hidden)
	return PHiddenPtr(h)
}

// RPair / PPair: two results / parameters, so that values are converted by position.
//
//go:noinline
func RPair(int) ([]byte, error) { return origBytes, origErr }

//go:noinline
func PPair([]byte, error) int { return -1 }

// W1 has exactly one pointer-shaped field: reflect stores such a struct directly in the
// interface word (not behind a pointer), which stand-in conversion must respect.
type W1 struct{ P *S }

// W1m has exactly one map field.
type W1m struct{ M map[string]int }

var origW1 = W1{P: &S{A: -1}}
var origW1m = W1m{M: map[string]int{"orig": -1}}

//go:noinline
func RW1(int) W1 { return origW1 }

//go:noinline
func PW1(W1) int { return -1 }

//go:noinline
func RW1m(int) W1m { return origW1m }

//go:noinline
func PW1m(W1m) int { return -1 }
