// Code generated for the C07 harness (120-method interface); DO NOT EDIT.

package c07t

import "unsafe"

// IBig has more methods than goom's documented "at most 99" (its fake method table has 999 slots).
type IBig interface {
	M000(a int) int
	M001(a int) int
	M002(a int) int
	M003(a int) int
	M004(a int) int
	M005(a int) int
	M006(a int) int
	M007(a int) int
	M008(a int) int
	M009(a int) int
	M010(a int) int
	M011(a int) int
	M012(a int) int
	M013(a int) int
	M014(a int) int
	M015(a int) int
	M016(a int) int
	M017(a int) int
	M018(a int) int
	M019(a int) int
	M020(a int) int
	M021(a int) int
	M022(a int) int
	M023(a int) int
	M024(a int) int
	M025(a int) int
	M026(a int) int
	M027(a int) int
	M028(a int) int
	M029(a int) int
	M030(a int) int
	M031(a int) int
	M032(a int) int
	M033(a int) int
	M034(a int) int
	M035(a int) int
	M036(a int) int
	M037(a int) int
	M038(a int) int
	M039(a int) int
	M040(a int) int
	M041(a int) int
	M042(a int) int
	M043(a int) int
	M044(a int) int
	M045(a int) int
	M046(a int) int
	M047(a int) int
	M048(a int) int
	M049(a int) int
	M050(a int) int
	M051(a int) int
	M052(a int) int
	M053(a int) int
	M054(a int) int
	M055(a int) int
	M056(a int) int
	M057(a int) int
	M058(a int) int
	M059(a int) int
	M060(a int) int
	M061(a int) int
	M062(a int) int
	M063(a int) int
	M064(a int) int
	M065(a int) int
	M066(a int) int
	M067(a int) int
	M068(a int) int
	M069(a int) int
	M070(a int) int
	M071(a int) int
	M072(a int) int
	M073(a int) int
	M074(a int) int
	M075(a int) int
	M076(a int) int
	M077(a int) int
	M078(a int) int
	M079(a int) int
	M080(a int) int
	M081(a int) int
	M082(a int) int
	M083(a int) int
	M084(a int) int
	M085(a int) int
	M086(a int) int
	M087(a int) int
	M088(a int) int
	M089(a int) int
	M090(a int) int
	M091(a int) int
	M092(a int) int
	M093(a int) int
	M094(a int) int
	M095(a int) int
	M096(a int) int
	M097(a int) int
	M098(a int) int
	M099(a int) int
	M100(a int) int
	M101(a int) int
	M102(a int) int
	M103(a int) int
	M104(a int) int
	M105(a int) int
	M106(a int) int
	M107(a int) int
	M108(a int) int
	M109(a int) int
	M110(a int) int
	M111(a int) int
	M112(a int) int
	M113(a int) int
	M114(a int) int
	M115(a int) int
	M116(a int) int
	M117(a int) int
	M118(a int) int
	M119(a int) int
}

// BigImpl is the real implementation of IBig.
type BigImpl struct{ K int }

//go:noinline
func (b *BigImpl) M000(a int) int { return a + b.K + 100 }

//go:noinline
func (b *BigImpl) M001(a int) int { return a + b.K + 101 }

//go:noinline
func (b *BigImpl) M002(a int) int { return a + b.K + 102 }

//go:noinline
func (b *BigImpl) M003(a int) int { return a + b.K + 103 }

//go:noinline
func (b *BigImpl) M004(a int) int { return a + b.K + 104 }

//go:noinline
func (b *BigImpl) M005(a int) int { return a + b.K + 105 }

//go:noinline
func (b *BigImpl) M006(a int) int { return a + b.K + 106 }

//go:noinline
func (b *BigImpl) M007(a int) int { return a + b.K + 107 }

//go:noinline
func (b *BigImpl) M008(a int) int { return a + b.K + 108 }

//go:noinline
func (b *BigImpl) M009(a int) int { return a + b.K + 109 }

//go:noinline
func (b *BigImpl) M010(a int) int { return a + b.K + 110 }

//go:noinline
func (b *BigImpl) M011(a int) int { return a + b.K + 111 }

//go:noinline
func (b *BigImpl) M012(a int) int { return a + b.K + 112 }

//go:noinline
func (b *BigImpl) M013(a int) int { return a + b.K + 113 }

//go:noinline
func (b *BigImpl) M014(a int) int { return a + b.K + 114 }

//go:noinline
func (b *BigImpl) M015(a int) int { return a + b.K + 115 }

//go:noinline
func (b *BigImpl) M016(a int) int { return a + b.K + 116 }

//go:noinline
func (b *BigImpl) M017(a int) int { return a + b.K + 117 }

//go:noinline
func (b *BigImpl) M018(a int) int { return a + b.K + 118 }

//go:noinline
func (b *BigImpl) M019(a int) int { return a + b.K + 119 }

//go:noinline
func (b *BigImpl) M020(a int) int { return a + b.K + 120 }

//go:noinline
func (b *BigImpl) M021(a int) int { return a + b.K + 121 }

//go:noinline
func (b *BigImpl) M022(a int) int { return a + b.K + 122 }

//go:noinline
func (b *BigImpl) M023(a int) int { return a + b.K + 123 }

//go:noinline
func (b *BigImpl) M024(a int) int { return a + b.K + 124 }

//go:noinline
func (b *BigImpl) M025(a int) int { return a + b.K + 125 }

//go:noinline
func (b *BigImpl) M026(a int) int { return a + b.K + 126 }

//go:noinline
func (b *BigImpl) M027(a int) int { return a + b.K + 127 }

//go:noinline
func (b *BigImpl) M028(a int) int { return a + b.K + 128 }

//go:noinline
func (b *BigImpl) M029(a int) int { return a + b.K + 129 }

//go:noinline
func (b *BigImpl) M030(a int) int { return a + b.K + 130 }

//go:noinline
func (b *BigImpl) M031(a int) int { return a + b.K + 131 }

//go:noinline
func (b *BigImpl) M032(a int) int { return a + b.K + 132 }

//go:noinline
func (b *BigImpl) M033(a int) int { return a + b.K + 133 }

//go:noinline
func (b *BigImpl) M034(a int) int { return a + b.K + 134 }

//go:noinline
func (b *BigImpl) M035(a int) int { return a + b.K + 135 }

//go:noinline
func (b *BigImpl) M036(a int) int { return a + b.K + 136 }

//go:noinline
func (b *BigImpl) M037(a int) int { return a + b.K + 137 }

//go:noinline
func (b *BigImpl) M038(a int) int { return a + b.K + 138 }

//go:noinline
func (b *BigImpl) M039(a int) int { return a + b.K + 139 }

//go:noinline
func (b *BigImpl) M040(a int) int { return a + b.K + 140 }

//go:noinline
func (b *BigImpl) M041(a int) int { return a + b.K + 141 }

//go:noinline
func (b *BigImpl) M042(a int) int { return a + b.K + 142 }

//go:noinline
func (b *BigImpl) M043(a int) int { return a + b.K + 143 }

//go:noinline
func (b *BigImpl) M044(a int) int { return a + b.K + 144 }

//go:noinline
func (b *BigImpl) M045(a int) int { return a + b.K + 145 }

//go:noinline
func (b *BigImpl) M046(a int) int { return a + b.K + 146 }

//go:noinline
func (b *BigImpl) M047(a int) int { return a + b.K + 147 }

//go:noinline
func (b *BigImpl) M048(a int) int { return a + b.K + 148 }

//go:noinline
func (b *BigImpl) M049(a int) int { return a + b.K + 149 }

//go:noinline
func (b *BigImpl) M050(a int) int { return a + b.K + 150 }

//go:noinline
func (b *BigImpl) M051(a int) int { return a + b.K + 151 }

//go:noinline
func (b *BigImpl) M052(a int) int { return a + b.K + 152 }

//go:noinline
func (b *BigImpl) M053(a int) int { return a + b.K + 153 }

//go:noinline
func (b *BigImpl) M054(a int) int { return a + b.K + 154 }

//go:noinline
func (b *BigImpl) M055(a int) int { return a + b.K + 155 }

//go:noinline
func (b *BigImpl) M056(a int) int { return a + b.K + 156 }

//go:noinline
func (b *BigImpl) M057(a int) int { return a + b.K + 157 }

//go:noinline
func (b *BigImpl) M058(a int) int { return a + b.K + 158 }

//go:noinline
func (b *BigImpl) M059(a int) int { return a + b.K + 159 }

//go:noinline
func (b *BigImpl) M060(a int) int { return a + b.K + 160 }

//go:noinline
func (b *BigImpl) M061(a int) int { return a + b.K + 161 }

//go:noinline
func (b *BigImpl) M062(a int) int { return a + b.K + 162 }

//go:noinline
func (b *BigImpl) M063(a int) int { return a + b.K + 163 }

//go:noinline
func (b *BigImpl) M064(a int) int { return a + b.K + 164 }

//go:noinline
func (b *BigImpl) M065(a int) int { return a + b.K + 165 }

//go:noinline
func (b *BigImpl) M066(a int) int { return a + b.K + 166 }

//go:noinline
func (b *BigImpl) M067(a int) int { return a + b.K + 167 }

//go:noinline
func (b *BigImpl) M068(a int) int { return a + b.K + 168 }

//go:noinline
func (b *BigImpl) M069(a int) int { return a + b.K + 169 }

//go:noinline
func (b *BigImpl) M070(a int) int { return a + b.K + 170 }

//go:noinline
func (b *BigImpl) M071(a int) int { return a + b.K + 171 }

//go:noinline
func (b *BigImpl) M072(a int) int { return a + b.K + 172 }

//go:noinline
func (b *BigImpl) M073(a int) int { return a + b.K + 173 }

//go:noinline
func (b *BigImpl) M074(a int) int { return a + b.K + 174 }

//go:noinline
func (b *BigImpl) M075(a int) int { return a + b.K + 175 }

//go:noinline
func (b *BigImpl) M076(a int) int { return a + b.K + 176 }

//go:noinline
func (b *BigImpl) M077(a int) int { return a + b.K + 177 }

//go:noinline
func (b *BigImpl) M078(a int) int { return a + b.K + 178 }

//go:noinline
func (b *BigImpl) M079(a int) int { return a + b.K + 179 }

//go:noinline
func (b *BigImpl) M080(a int) int { return a + b.K + 180 }

//go:noinline
func (b *BigImpl) M081(a int) int { return a + b.K + 181 }

//go:noinline
func (b *BigImpl) M082(a int) int { return a + b.K + 182 }

//go:noinline
func (b *BigImpl) M083(a int) int { return a + b.K + 183 }

//go:noinline
func (b *BigImpl) M084(a int) int { return a + b.K + 184 }

//go:noinline
func (b *BigImpl) M085(a int) int { return a + b.K + 185 }

//go:noinline
func (b *BigImpl) M086(a int) int { return a + b.K + 186 }

//go:noinline
func (b *BigImpl) M087(a int) int { return a + b.K + 187 }

//go:noinline
func (b *BigImpl) M088(a int) int { return a + b.K + 188 }

//go:noinline
func (b *BigImpl) M089(a int) int { return a + b.K + 189 }

//go:noinline
func (b *BigImpl) M090(a int) int { return a + b.K + 190 }

//go:noinline
func (b *BigImpl) M091(a int) int { return a + b.K + 191 }

//go:noinline
func (b *BigImpl) M092(a int) int { return a + b.K + 192 }

//go:noinline
func (b *BigImpl) M093(a int) int { return a + b.K + 193 }

//go:noinline
func (b *BigImpl) M094(a int) int { return a + b.K + 194 }

//go:noinline
func (b *BigImpl) M095(a int) int { return a + b.K + 195 }

//go:noinline
func (b *BigImpl) M096(a int) int { return a + b.K + 196 }

//go:noinline
func (b *BigImpl) M097(a int) int { return a + b.K + 197 }

//go:noinline
func (b *BigImpl) M098(a int) int { return a + b.K + 198 }

//go:noinline
func (b *BigImpl) M099(a int) int { return a + b.K + 199 }

//go:noinline
func (b *BigImpl) M100(a int) int { return a + b.K + 200 }

//go:noinline
func (b *BigImpl) M101(a int) int { return a + b.K + 201 }

//go:noinline
func (b *BigImpl) M102(a int) int { return a + b.K + 202 }

//go:noinline
func (b *BigImpl) M103(a int) int { return a + b.K + 203 }

//go:noinline
func (b *BigImpl) M104(a int) int { return a + b.K + 204 }

//go:noinline
func (b *BigImpl) M105(a int) int { return a + b.K + 205 }

//go:noinline
func (b *BigImpl) M106(a int) int { return a + b.K + 206 }

//go:noinline
func (b *BigImpl) M107(a int) int { return a + b.K + 207 }

//go:noinline
func (b *BigImpl) M108(a int) int { return a + b.K + 208 }

//go:noinline
func (b *BigImpl) M109(a int) int { return a + b.K + 209 }

//go:noinline
func (b *BigImpl) M110(a int) int { return a + b.K + 210 }

//go:noinline
func (b *BigImpl) M111(a int) int { return a + b.K + 211 }

//go:noinline
func (b *BigImpl) M112(a int) int { return a + b.K + 212 }

//go:noinline
func (b *BigImpl) M113(a int) int { return a + b.K + 213 }

//go:noinline
func (b *BigImpl) M114(a int) int { return a + b.K + 214 }

//go:noinline
func (b *BigImpl) M115(a int) int { return a + b.K + 215 }

//go:noinline
func (b *BigImpl) M116(a int) int { return a + b.K + 216 }

//go:noinline
func (b *BigImpl) M117(a int) int { return a + b.K + 217 }

//go:noinline
func (b *BigImpl) M118(a int) int { return a + b.K + 218 }

//go:noinline
func (b *BigImpl) M119(a int) int { return a + b.K + 219 }

// BigMethods lists IBig's methods.
var BigMethods = func() []string {
	s := make([]string, 120)
	for i := range s {
		s[i] = "M" + string(rune('0'+i/100)) + string(rune('0'+i/10%10)) + string(rune('0'+i%10))
	}
	return s
}()

func newBig() *local {
	var v IBig
	return &local{
		ptr: &v,
		call: func(m string, a int) int {
			switch m {
			case "M000":
				return v.M000(a)
			case "M001":
				return v.M001(a)
			case "M002":
				return v.M002(a)
			case "M003":
				return v.M003(a)
			case "M004":
				return v.M004(a)
			case "M005":
				return v.M005(a)
			case "M006":
				return v.M006(a)
			case "M007":
				return v.M007(a)
			case "M008":
				return v.M008(a)
			case "M009":
				return v.M009(a)
			case "M010":
				return v.M010(a)
			case "M011":
				return v.M011(a)
			case "M012":
				return v.M012(a)
			case "M013":
				return v.M013(a)
			case "M014":
				return v.M014(a)
			case "M015":
				return v.M015(a)
			case "M016":
				return v.M016(a)
			case "M017":
				return v.M017(a)
			case "M018":
				return v.M018(a)
			case "M019":
				return v.M019(a)
			case "M020":
				return v.M020(a)
			case "M021":
				return v.M021(a)
			case "M022":
				return v.M022(a)
			case "M023":
				return v.M023(a)
			case "M024":
				return v.M024(a)
			case "M025":
				return v.M025(a)
			case "M026":
				return v.M026(a)
			case "M027":
				return v.M027(a)
			case "M028":
				return v.M028(a)
			case "M029":
				return v.M029(a)
			case "M030":
				return v.M030(a)
			case "M031":
				return v.M031(a)
			case "M032":
				return v.M032(a)
			case "M033":
				return v.M033(a)
			case "M034":
				return v.M034(a)
			case "M035":
				return v.M035(a)
			case "M036":
				return v.M036(a)
			case "M037":
				return v.M037(a)
			case "M038":
				return v.M038(a)
			case "M039":
				return v.M039(a)
			case "M040":
				return v.M040(a)
			case "M041":
				return v.M041(a)
			case "M042":
				return v.M042(a)
			case "M043":
				return v.M043(a)
			case "M044":
				return v.M044(a)
			case "M045":
				return v.M045(a)
			case "M046":
				return v.M046(a)
			case "M047":
				return v.M047(a)
			case "M048":
				return v.M048(a)
			case "M049":
				return v.M049(a)
			case "M050":
				return v.M050(a)
			case "M051":
				return v.M051(a)
			case "M052":
				return v.M052(a)
			case "M053":
				return v.M053(a)
			case "M054":
				return v.M054(a)
			case "M055":
				return v.M055(a)
			case "M056":
				return v.M056(a)
			case "M057":
				return v.M057(a)
			case "M058":
				return v.M058(a)
			case "M059":
				return v.M059(a)
			case "M060":
				return v.M060(a)
			case "M061":
				return v.M061(a)
			case "M062":
				return v.M062(a)
			case "M063":
				return v.M063(a)
			case "M064":
				return v.M064(a)
			case "M065":
				return v.M065(a)
			case "M066":
				return v.M066(a)
			case "M067":
				return v.M067(a)
			case "M068":
				return v.M068(a)
			case "M069":
				return v.M069(a)
			case "M070":
				return v.M070(a)
			case "M071":
				return v.M071(a)
			case "M072":
				return v.M072(a)
			case "M073":
				return v.M073(a)
			case "M074":
				return v.M074(a)
			case "M075":
				return v.M075(a)
			case "M076":
				return v.M076(a)
			case "M077":
				return v.M077(a)
			case "M078":
				return v.M078(a)
			case "M079":
				return v.M079(a)
			case "M080":
				return v.M080(a)
			case "M081":
				return v.M081(a)
			case "M082":
				return v.M082(a)
			case "M083":
				return v.M083(a)
			case "M084":
				return v.M084(a)
			case "M085":
				return v.M085(a)
			case "M086":
				return v.M086(a)
			case "M087":
				return v.M087(a)
			case "M088":
				return v.M088(a)
			case "M089":
				return v.M089(a)
			case "M090":
				return v.M090(a)
			case "M091":
				return v.M091(a)
			case "M092":
				return v.M092(a)
			case "M093":
				return v.M093(a)
			case "M094":
				return v.M094(a)
			case "M095":
				return v.M095(a)
			case "M096":
				return v.M096(a)
			case "M097":
				return v.M097(a)
			case "M098":
				return v.M098(a)
			case "M099":
				return v.M099(a)
			case "M100":
				return v.M100(a)
			case "M101":
				return v.M101(a)
			case "M102":
				return v.M102(a)
			case "M103":
				return v.M103(a)
			case "M104":
				return v.M104(a)
			case "M105":
				return v.M105(a)
			case "M106":
				return v.M106(a)
			case "M107":
				return v.M107(a)
			case "M108":
				return v.M108(a)
			case "M109":
				return v.M109(a)
			case "M110":
				return v.M110(a)
			case "M111":
				return v.M111(a)
			case "M112":
				return v.M112(a)
			case "M113":
				return v.M113(a)
			case "M114":
				return v.M114(a)
			case "M115":
				return v.M115(a)
			case "M116":
				return v.M116(a)
			case "M117":
				return v.M117(a)
			case "M118":
				return v.M118(a)
			case "M119":
				return v.M119(a)
			}
			panic("bad call Big." + m)
		},
		words: func() [2]uintptr { return *(*[2]uintptr)(unsafe.Pointer(&v)) },
		isNil: func() bool { return v == nil },
		set: func(i *Impl) {
			if i == nil {
				v = nil
			} else {
				v = &BigImpl{K: i.K}
			}
		},
	}
}

func init() {
	L["Big"] = newBig()
	Methods["Big"] = BigMethods
}
