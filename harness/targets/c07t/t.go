// Package c07t holds the interface types and variables mocked by the C07 harness.
package c07t

import "unsafe"

// I1 has one method.
type I1 interface{ A(a int) int }

// I3: declaration order differs from the sorted order; one method is unexported.
type I3 interface {
	B(a int) int
	A(a int) int
	c(a int) int
}

// I5 embeds I3 and adds two methods.
type I5 interface {
	I3
	E(a int) int
	D(a int) int
}

// IW has methods whose arguments occupy more integer registers than the ABI has spare scratch
// registers (receiver + 8 ints; receiver + 4 strings = 9 integer words each).
type IW interface {
	Sum8(a, b, c, d, e, f, g, h int) int
	Join(a, b, c, d string) int
}

// IU mixes an exported method with a non-ASCII initial with ASCII exported and unexported ones:
// the method set is ordered "exported first, then by name", which is not plain byte order here.
type IU interface {
	Énumérer(a int) int
	Zeta(a int) int
	apply(a int) int
	zap(a int) int
}

// Impl is a real implementation of all of them.
type Impl struct{ K int }

func (i *Impl) A(a int) int { return a + i.K + 1 }
func (i *Impl) B(a int) int { return a + i.K + 2 }
func (i *Impl) c(a int) int { return a + i.K + 3 }
func (i *Impl) D(a int) int { return a + i.K + 4 }
func (i *Impl) E(a int) int { return a + i.K + 5 }
func (i *Impl) Sum8(a, b, c, d, e, f, g, h int) int {
	return a + b + c + d + e + f + g + h + i.K + 6
}
func (i *Impl) Join(a, b, c, d string) int { return len(a) + len(b) + len(c) + len(d) + i.K + 7 }
func (i *Impl) Énumérer(a int) int         { return a + i.K + 11 }
func (i *Impl) Zeta(a int) int             { return a + i.K + 12 }
func (i *Impl) apply(a int) int            { return a + i.K + 13 }
func (i *Impl) zap(a int) int              { return a + i.K + 14 }
func (i *Impl) Aaa(a int) int              { return a + i.K + 8 }
func (i *Impl) Get(a int) int              { return a + i.K + 9 }
func (i *Impl) Zzz(a int) int              { return a + i.K + 10 }

// local is a variable of a function-local interface type, reachable only through closures.
type local struct {
	ptr   interface{}
	call  func(m string, a int) int
	words func() [2]uintptr
	isNil func() bool
	set   func(i *Impl)
}

// Two different interface types, both declared as "Store" inside a function: same package path,
// same printed name, the common method Get at different positions of the sorted method set.
func newL1() *local {
	type Store interface {
		Aaa(a int) int
		Get(a int) int
	}
	var v Store
	return &local{
		ptr: &v,
		call: func(m string, a int) int {
			if m == "Aaa" {
				return v.Aaa(a)
			}
			return v.Get(a)
		},
		words: func() [2]uintptr { return *(*[2]uintptr)(unsafe.Pointer(&v)) },
		isNil: func() bool { return v == nil },
		set: func(i *Impl) {
			if i == nil {
				v = nil
			} else {
				v = i
			}
		},
	}
}

func newL2() *local {
	type Store interface {
		Get(a int) int
		Zzz(a int) int
	}
	var v Store
	return &local{
		ptr: &v,
		call: func(m string, a int) int {
			if m == "Zzz" {
				return v.Zzz(a)
			}
			return v.Get(a)
		},
		words: func() [2]uintptr { return *(*[2]uintptr)(unsafe.Pointer(&v)) },
		isNil: func() bool { return v == nil },
		set: func(i *Impl) {
			if i == nil {
				v = nil
			} else {
				v = i
			}
		},
	}
}

// L holds the two local-typed variables.
var L = map[string]*local{"L1": newL1(), "L2": newL2()}

// Ptr is the pointer handed to Builder.Interface for a local-typed variable.
func Ptr(v string) interface{} { return L[v].ptr }

var realX2 = &Impl{7000}

// Assign is an assignment made by the program itself (not through goom): X = another real
// implementation, or X = nil.
func Assign(toNil bool) {
	if toNil {
		X = nil
	} else {
		X = realX2
	}
}

// The mocked variables.
var (
	X I3
	Y I3
	Z I5
	W I1
	V IW
	U IU
)

//go:noinline
func mkImpl(k int) *Impl { return &Impl{K: k} }

// SetInitial puts the variables into their initial state.
func SetInitial(realImpl bool) {
	if realImpl {
		// fresh heap objects that nothing but the variables references: whatever holds "the value
		// the variable held before" while it is mocked must keep them alive
		X, Y, Z, W, V = mkImpl(1000), mkImpl(2000), mkImpl(3000), mkImpl(4000), mkImpl(5000)
		U = mkImpl(6000)
		L["L1"].set(mkImpl(8000))
		L["L2"].set(mkImpl(9000))
		L["Big"].set(mkImpl(9500))
	} else {
		X, Y, Z, W, V = nil, nil, nil, nil, nil
		U = nil
		L["L1"].set(nil)
		L["L2"].set(nil)
		L["Big"].set(nil)
	}
}

// Call calls method m of variable v.
//
//go:noinline
func Call(v, m string, a int) int {
	if l := L[v]; l != nil {
		return l.call(m, a)
	}
	switch v + "." + m {
	case "X.A":
		return X.A(a)
	case "X.B":
		return X.B(a)
	case "X.c":
		return X.c(a)
	case "Y.A":
		return Y.A(a)
	case "Y.B":
		return Y.B(a)
	case "Y.c":
		return Y.c(a)
	case "Z.A":
		return Z.A(a)
	case "Z.B":
		return Z.B(a)
	case "Z.c":
		return Z.c(a)
	case "Z.D":
		return Z.D(a)
	case "Z.E":
		return Z.E(a)
	case "W.A":
		return W.A(a)
	case "U.Énumérer":
		return U.Énumérer(a)
	case "U.Zeta":
		return U.Zeta(a)
	case "U.apply":
		return U.apply(a)
	case "U.zap":
		return U.zap(a)
	case "V.Sum8":
		return V.Sum8(a, 2, 3, 4, 5, 6, 7, 8)
	case "V.Join":
		return V.Join(JoinFirst(a), "b", "cc", "ddd")
	}
	panic("bad call " + v + "." + m)
}

// IsNil reports whether variable v is nil.
func IsNil(v string) bool {
	if l := L[v]; l != nil {
		return l.isNil()
	}
	switch v {
	case "X":
		return X == nil
	case "Y":
		return Y == nil
	case "Z":
		return Z == nil
	case "W":
		return W == nil
	case "V":
		return V == nil
	case "U":
		return U == nil
	}
	panic("bad var")
}

// JoinFirst is the first string argument used for probe value a.
func JoinFirst(a int) string {
	if a == 7 {
		return "seven"
	}
	return "other"
}

// Words returns the two words of variable v.
func Words(v string) [2]uintptr {
	if l := L[v]; l != nil {
		return l.words()
	}
	switch v {
	case "X":
		return *(*[2]uintptr)(unsafe.Pointer(&X))
	case "Y":
		return *(*[2]uintptr)(unsafe.Pointer(&Y))
	case "Z":
		return *(*[2]uintptr)(unsafe.Pointer(&Z))
	case "W":
		return *(*[2]uintptr)(unsafe.Pointer(&W))
	case "V":
		return *(*[2]uintptr)(unsafe.Pointer(&V))
	case "U":
		return *(*[2]uintptr)(unsafe.Pointer(&U))
	}
	panic("bad var")
}

// Methods lists the methods of each variable's interface type.
var Methods = map[string][]string{
	"X":  {"A", "B", "c"},
	"Y":  {"A", "B", "c"},
	"Z":  {"A", "B", "c", "D", "E"},
	"W":  {"A"},
	"V":  {"Sum8", "Join"},
	"U":  {"Énumérer", "Zeta", "apply", "zap"},
	"L1": {"Aaa", "Get"},
	"L2": {"Get", "Zzz"},
}

// RealResult is what the real implementation returns.
func RealResult(v, m string, a int) int {
	k := map[string]int{"X": 1000, "Y": 2000, "Z": 3000, "W": 4000, "V": 5000, "X2": 7000, "L1": 8000, "L2": 9000, "U": 6000, "Big": 9500}[v]
	if v == "Big" {
		return a + k + 100 + int(m[1]-'0')*100 + int(m[2]-'0')*10 + int(m[3]-'0')
	}
	switch m {
	case "Sum8":
		return a + 2 + 3 + 4 + 5 + 6 + 7 + 8 + k + 6
	case "Join":
		return len(JoinFirst(a)) + 1 + 2 + 3 + k + 7
	}
	return a + k + map[string]int{"A": 1, "B": 2, "c": 3, "D": 4, "E": 5, "Aaa": 8, "Get": 9, "Zzz": 10, "Énumérer": 11, "Zeta": 12, "apply": 13, "zap": 14}[m]
}
