// Package c07t holds the interface types and variables mocked by the C07 harness.
package c07t

import "unsafe"

// I1 has one method.
type I1 interface{ A(a int) int }

// I3: declaration order differs from the sorted order; one method is unexported.
type I3 interface {
	B(a int) int
	A(a int) int
	c(a int) int
}

// I5 embeds I3 and adds two methods.
type I5 interface {
	I3
	E(a int) int
	D(a int) int
}

// IW has methods whose arguments occupy more integer registers than the ABI has spare scratch
// registers (receiver + 8 ints; receiver + 4 strings = 9 integer words each).
type IW interface {
	Sum8(a, b, c, d, e, f, g, h int) int
	Join(a, b, c, d string) int
}

// Impl is a real implementation of all of them.
type Impl struct{ K int }

func (i *Impl) A(a int) int { return a + i.K + 1 }
func (i *Impl) B(a int) int { return a + i.K + 2 }
func (i *Impl) c(a int) int { return a + i.K + 3 }
func (i *Impl) D(a int) int { return a + i.K + 4 }
func (i *Impl) E(a int) int { return a + i.K + 5 }
func (i *Impl) Sum8(a, b, c, d, e, f, g, h int) int {
	return a + b + c + d + e + f + g + h + i.K + 6
}
func (i *Impl) Join(a, b, c, d string) int { return len(a) + len(b) + len(c) + len(d) + i.K + 7 }

// The mocked variables.
var (
	X I3
	Y I3
	Z I5
	W I1
	V IW
)

var realX, realY, realZ, realW, realV = &Impl{1000}, &Impl{2000}, &Impl{3000}, &Impl{4000}, &Impl{5000}

// SetInitial puts the variables into their initial state.
func SetInitial(realImpl bool) {
	if realImpl {
		X, Y, Z, W, V = realX, realY, realZ, realW, realV
	} else {
		X, Y, Z, W, V = nil, nil, nil, nil, nil
	}
}

// Call calls method m of variable v.
//
//go:noinline
func Call(v, m string, a int) int {
	switch v + "." + m {
	case "X.A":
		return X.A(a)
	case "X.B":
		return X.B(a)
	case "X.c":
		return X.c(a)
	case "Y.A":
		return Y.A(a)
	case "Y.B":
		return Y.B(a)
	case "Y.c":
		return Y.c(a)
	case "Z.A":
		return Z.A(a)
	case "Z.B":
		return Z.B(a)
	case "Z.c":
		return Z.c(a)
	case "Z.D":
		return Z.D(a)
	case "Z.E":
		return Z.E(a)
	case "W.A":
		return W.A(a)
	case "V.Sum8":
		return V.Sum8(a, 2, 3, 4, 5, 6, 7, 8)
	case "V.Join":
		return V.Join(JoinFirst(a), "b", "cc", "ddd")
	}
	panic("bad call " + v + "." + m)
}

// IsNil reports whether variable v is nil.
func IsNil(v string) bool {
	switch v {
	case "X":
		return X == nil
	case "Y":
		return Y == nil
	case "Z":
		return Z == nil
	case "W":
		return W == nil
	case "V":
		return V == nil
	}
	panic("bad var")
}

// JoinFirst is the first string argument used for probe value a.
func JoinFirst(a int) string {
	if a == 7 {
		return "seven"
	}
	return "other"
}

// Words returns the two words of variable v.
func Words(v string) [2]uintptr {
	switch v {
	case "X":
		return *(*[2]uintptr)(unsafe.Pointer(&X))
	case "Y":
		return *(*[2]uintptr)(unsafe.Pointer(&Y))
	case "Z":
		return *(*[2]uintptr)(unsafe.Pointer(&Z))
	case "W":
		return *(*[2]uintptr)(unsafe.Pointer(&W))
	case "V":
		return *(*[2]uintptr)(unsafe.Pointer(&V))
	}
	panic("bad var")
}

// Methods lists the methods of each variable's interface type.
var Methods = map[string][]string{
	"X": {"A", "B", "c"},
	"Y": {"A", "B", "c"},
	"Z": {"A", "B", "c", "D", "E"},
	"W": {"A"},
	"V": {"Sum8", "Join"},
}

// RealResult is what the real implementation returns.
func RealResult(v, m string, a int) int {
	k := map[string]int{"X": 1000, "Y": 2000, "Z": 3000, "W": 4000, "V": 5000}[v]
	switch m {
	case "Sum8":
		return a + 2 + 3 + 4 + 5 + 6 + 7 + 8 + k + 6
	case "Join":
		return len(JoinFirst(a)) + 1 + 2 + 3 + k + 7
	}
	return a + k + map[string]int{"A": 1, "B": 2, "c": 3, "D": 4, "E": 5}[m]
}
