// Package vars holds the package variables mocked by the C08 harness.
package vars

// S is a struct variable type.
type S struct {
	A int
	B string
	c float64
}

// NewS builds an S including its unexported field.
func NewS(a int, b string, c float64) S { return S{a, b, c} }

func f10() int { return 10 }

// F1 F2 F3 are candidate values for the func variable.
func F1() int { return 1 }
func F2() int { return 2 }
func F3() int { return 3 }

var (
	vInt    int            = 10
	vString string         = "orig"
	vBool   bool           = false
	vFloat  float64        = 10.5
	vSlice  []int          = []int{10, 11}
	vMap    map[string]int = map[string]int{"orig": 10}
	vStruct S              = S{10, "orig", 1.5}
	vPtr    *S             = &S{10, "ptr", 2.5}
	vFunc   func() int     = f10
	vINil   interface{}    = nil
	vI7     interface{}    = 7
	vArr    [2]int         = [2]int{10, 11}
	vErr    error          = nil
	vNilPtr *S             = nil
	vNilMap map[string]int = nil
	vU8     uint8          = 10
	// interface variables whose original is a typed nil: not equal to nil, dynamic type intact
	vErrTNil error       = (*TE)(nil)
	vITNil   interface{} = (*S)(nil)
)

// TE is an error implementation whose method is safe on a nil receiver.
type TE struct{ Code int }

func (e *TE) Error() string {
	if e == nil {
		return "nil TE"
	}
	return "TE"
}

// Pointers (by-pointer addressing of the same unexported variables).
func PInt() *int               { return &vInt }
func PString() *string         { return &vString }
func PBool() *bool             { return &vBool }
func PFloat() *float64         { return &vFloat }
func PSlice() *[]int           { return &vSlice }
func PMap() *map[string]int    { return &vMap }
func PStruct() *S              { return &vStruct }
func PPtr() **S                { return &vPtr }
func PFunc() *func() int       { return &vFunc }
func PINil() *interface{}      { return &vINil }
func PI7() *interface{}        { return &vI7 }
func PArr() *[2]int            { return &vArr }
func PErr() *error             { return &vErr }
func PNilPtr() **S             { return &vNilPtr }
func PNilMap() *map[string]int { return &vNilMap }
func PU8() *uint8              { return &vU8 }
func PErrTNil() *error         { return &vErrTNil }
func PITNil() *interface{}     { return &vITNil }

//go:noinline
func GErrTNil() interface{} { return vErrTNil }

//go:noinline
func GITNil() interface{} { return vITNil }

// Readers in the variables' own package ("every reader").
//
//go:noinline
func GInt() interface{} { return vInt }

//go:noinline
func GString() interface{} { return vString }

//go:noinline
func GBool() interface{} { return vBool }

//go:noinline
func GFloat() interface{} { return vFloat }

//go:noinline
func GSlice() interface{} { return vSlice }

//go:noinline
func GMap() interface{} { return vMap }

//go:noinline
func GStruct() interface{} { return vStruct }

//go:noinline
func GPtr() interface{} { return vPtr }

//go:noinline
func GFunc() interface{} { return vFunc }

//go:noinline
func GINil() interface{} { return vINil }

//go:noinline
func GI7() interface{} { return vI7 }

//go:noinline
func GArr() interface{} { return vArr }

//go:noinline
func GErr() interface{} { return vErr }

//go:noinline
func GNilPtr() interface{} { return vNilPtr }

//go:noinline
func GNilMap() interface{} { return vNilMap }

//go:noinline
func GU8() interface{} { return vU8 }

// Heap-allocated originals that nothing but the variable references (built at init time by a
// non-inlined constructor): if a mock drops the only GC-visible reference to the original, a
// collection frees it and the restored value dangles.
var (
	vHeapMap   map[string]int
	vHeapPtr   *S
	vHeapSlice []int
	vHeapIface interface{}
)

//go:noinline
func mkS(a int, b string) *S { return &S{A: a, B: b, c: 0.5} }

//go:noinline
func mkMap(k string, v int) map[string]int {
	m := make(map[string]int, 4)
	m[k] = v
	m[k+"2"] = v + 1
	return m
}

//go:noinline
func mkSlice(n int) []int {
	s := make([]int, 0, n)
	for i := 0; i < n; i++ {
		s = append(s, 100+i)
	}
	return s
}

func init() {
	vHeapMap = mkMap("heap", 41)
	vHeapPtr = mkS(42, "heap")
	vHeapSlice = mkSlice(5)
	vHeapIface = mkS(43, "iface")
}

func PHeapMap() *map[string]int { return &vHeapMap }
func PHeapPtr() **S             { return &vHeapPtr }
func PHeapSlice() *[]int        { return &vHeapSlice }
func PHeapIface() *interface{}  { return &vHeapIface }

//go:noinline
func GHeapMap() interface{} { return vHeapMap }

//go:noinline
func GHeapPtr() interface{} { return vHeapPtr }

//go:noinline
func GHeapSlice() interface{} { return vHeapSlice }

//go:noinline
func GHeapIface() interface{} { return vHeapIface }

// ResetHeap rebuilds the heap originals (fresh objects nothing else references).
func ResetHeap() {
	vHeapMap = mkMap("heap", 41)
	vHeapPtr = mkS(42, "heap")
	vHeapSlice = mkSlice(5)
	vHeapIface = mkS(43, "iface")
}
