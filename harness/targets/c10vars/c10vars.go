// Package c10vars is the C10 target: package variables of every kind (generated, see
// gen.go / vars_gen.go) and a small zoo of functions, methods, closures and generic
// instantiations whose run-time addresses are reported by accessor tables, so that the
// by-name lookup of goom can be compared with &v / the code pointer of the function value.
package c10vars

import (
	"errors"
	"reflect"
)

// Pkg is the import path of this package (the prefix of every symbol name in it).
const Pkg = "verifh/targets/c10vars"

// Var describes one generated variable.
type Var struct {
	Name     string
	Type     string
	Init     bool
	Exported bool
	Addr     uintptr
	Size     uintptr
}

// FuncInfo describes one function of this package with the code address the runtime uses for it.
type FuncInfo struct {
	Name string
	PC   uintptr
}

type S struct {
	A int
	B string
	C float64
}

type N struct{ X, Y int32 }

type Big struct {
	A [64]int64
	S string
}

type I interface{ M() int }

type MyInt int
type MyString string

type G[T any] struct{ V T }

//go:noinline
func (g G[T]) Get() T { return g.V }

//go:noinline
func (g *G[T]) Set(v T) { g.V = v }

type errT struct{}

func (errT) Error() string { return "errT" }

var anchorInt int = 5
var anchorPS *S = &S{A: 77}

//go:noinline
func f0() {}

//go:noinline
func f7() int { return 7 }

//go:noinline
func f2(a int, b string) (string, error) {
	if a < 0 {
		return "", errors.New(b)
	}
	return b, nil
}

// M has a pointer receiver (symbol "pkg.(*S).M").
//
//go:noinline
func (s *S) M() int { return s.A }

// Val has a value receiver (symbol "pkg.S.Val"; the compiler also emits the wrapper "pkg.(*S).Val").
//
//go:noinline
func (s S) Val() int { return s.A + 1 }

//go:noinline
func (m MyInt) Twice() MyInt { return m * 2 }

//go:noinline
func (m *MyInt) inc() { *m++ }

//go:noinline
func Exported(a, b int) int { return a + b }

//go:noinline
func unexported(a int) int { return a - 1 }

//go:noinline
func withClosure(n int) func() int {
	return func() int { n++; return n }
}

//go:noinline
func GenericFn[T any](v T) T { return v }

//go:noinline
func variadic(xs ...int) int { return len(xs) }

//go:noinline
func Fn_with_underscore() int { return 1 }

//go:noinline
func fn0() int { return 0 }

//go:noinline
func fn00() int { return 0 }

//go:noinline
func Fn() int { return 2 }

//go:noinline
func fn() int { return 3 }

func pc(f interface{}) uintptr { return reflect.ValueOf(f).Pointer() }

// Funcs reports functions/methods of this package with the code pointer of their function
// values (for method expressions with pointer receivers and for plain functions this is the
// entry of the symbol itself). Names are the linker symbol names.
//
//go:noinline
func Funcs() []FuncInfo {
	cl := withClosure(1)
	gi := GenericFn[int]
	gs := GenericFn[string]
	_ = gi(1)
	_ = gs("")
	g := G[int]{V: 1}
	g.Set(g.Get())
	return []FuncInfo{
		{Pkg + ".f0", pc(f0)},
		{Pkg + ".f7", pc(f7)},
		{Pkg + ".f2", pc(f2)},
		{Pkg + ".(*S).M", pc((*S).M)},
		{Pkg + ".S.Val", pc(S.Val)},
		{Pkg + ".MyInt.Twice", pc(MyInt.Twice)},
		{Pkg + ".(*MyInt).inc", pc((*MyInt).inc)},
		{Pkg + ".Exported", pc(Exported)},
		{Pkg + ".unexported", pc(unexported)},
		{Pkg + ".withClosure", pc(withClosure)},
		{Pkg + ".withClosure.func1", pc(cl)},
		{Pkg + ".variadic", pc(variadic)},
		{Pkg + ".Fn_with_underscore", pc(Fn_with_underscore)},
		{Pkg + ".fn0", pc(fn0)},
		{Pkg + ".fn00", pc(fn00)},
		{Pkg + ".Fn", pc(Fn)},
		{Pkg + ".fn", pc(fn)},
		{Pkg + ".errT.Error", pc(errT.Error)},
		{Pkg + ".Vars", pc(Vars)},
		{Pkg + ".Funcs", pc(Funcs)},
	}
}
