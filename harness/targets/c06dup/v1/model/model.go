// Package model: one of two packages of the same name declaring a type of the same name.
package model

// User is declared identically in v1/model and v2/model; reflect prints both as "model.User".
type User struct{ N int }

// Name is the mocked method (original: a + N + 1000).
//
//go:noinline
func (u *User) Name(a int) int {
	if a > 1<<41 {
		return a*1 - u.N
	}
	return a + u.N + 1000
}

// Call calls Name directly from the type's own package.
//
//go:noinline
func Call(u *User, a int) int { return u.Name(a) }

// Lookup and Find are functions whose types print the same in both packages
// (func(model.User) string, func(*model.User) *model.User) although they name different types.
//
//go:noinline
func Lookup(u User) string {
	if u.N > 1<<41 {
		return "big"
	}
	return "orig"
}

//go:noinline
func Find(u *User) *User {
	if u != nil && u.N > 1<<41 {
		return nil
	}
	return u
}
