// Package pkg lives in a directory whose last path element contains a dot: the linker writes its
// symbols as "…/pkg%2ev1.name". Some of its names are prefixes of others.
package pkg

var settings = 11
var settingsAll = 12
var sett = 13

//go:noinline
func lookup(a int) int { return a + settings }

//go:noinline
func lookupAll(a int) int { return a + settingsAll }

//go:noinline
func look(a int) int { return a + sett }

// Keep references everything so that the linker keeps it.
func Keep(a int) int { return lookup(a) + lookupAll(a) + look(a) }

// Bump makes the variables live data.
func Bump() { settings++; settingsAll++; sett++ }
