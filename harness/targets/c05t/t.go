// Package c05t holds the targets stubbed by the C05 harness.
package c05t

// Calls counts executions of the originals.
var Calls int

// F is the function target.
//
//go:noinline
func F(n int) int {
	Calls++
	if n > 1000 {
		return n*31 - Calls
	}
	return -1000 - n
}

// S is the method target.
type S struct{ K int }

// M is the method target.
//
//go:noinline
func (s *S) M(n int) int {
	Calls++
	if n > 1000 {
		return n*31 - Calls + s.K
	}
	return -2000 - n
}

// I is the interface target.
type I interface {
	A(n int) int
}

// X is the interface variable.
var X I

// CallX calls through the interface variable.
//
//go:noinline
func CallX(n int) int { return X.A(n) }

// FA is a function whose result has the empty interface type (its sequences hold boxed values).
//
//go:noinline
func FA(n int) interface{} {
	Calls++
	if n > 1000 {
		return n*31 - Calls
	}
	return -3000 - n
}

// CallFA unboxes FA's result (anything but an int becomes -1).
//
//go:noinline
func CallFA(n int) int {
	if v, ok := FA(n).(int); ok {
		return v
	}
	return -1
}
