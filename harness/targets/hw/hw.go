// Package hw holds the targets of the history-explorer properties (C02, C12, C13).
package hw

// F0 and F1 are adjacent function targets.
//
//go:noinline
func F0(a int) int {
	if a > 1<<41 {
		return a*3 - 1
	}
	return a + 100
}

//go:noinline
func F1(a int) int {
	if a > 1<<42 {
		return a*5 - 1
	}
	return a + 200
}

// S is the receiver type of the method targets.
type S struct{ K int }

// M is the exported method target.
//
//go:noinline
func (s *S) M(a int) int {
	if a > 1<<43 {
		return a*7 - s.K
	}
	return a + 300
}

//go:noinline
func (s *S) m(a int) int {
	if a > 1<<44 {
		return a*11 - s.K
	}
	return a + 400
}

//go:noinline
func (s *S) m2(a int) int {
	if a > 1<<55 {
		return a*37 - s.K
	}
	return a + 450
}

// CallLowerM2 calls the second unexported method.
//
//go:noinline
func CallLowerM2(s *S, a int) int { return s.m2(a) }

// CallLowerM calls the unexported method.
//
//go:noinline
func CallLowerM(s *S, a int) int { return s.m(a) }

// G is mocked with an origin placeholder.
//
//go:noinline
func G(a int) int {
	if a > 1<<45 {
		return a*13 - 1
	}
	return a + 500
}

// OG is G's origin placeholder (its body is overwritten by goom).
//
//go:noinline
func OG(a int) int {
	x := a
	x = x*3 + 7
	if x == 1000 {
		x++
	}
	x = x*4 + 8
	if x == 1001 {
		x++
	}
	x = x*5 + 9
	if x == 1002 {
		x++
	}
	x = x*6 + 10
	if x == 1003 {
		x++
	}
	x = x*7 + 11
	if x == 1004 {
		x++
	}
	x = x*8 + 12
	if x == 1005 {
		x++
	}
	x = x*9 + 13
	if x == 1006 {
		x++
	}
	x = x*10 + 14
	if x == 1007 {
		x++
	}
	return x
}

//go:noinline
func g2(a int) int {
	if a > 1<<46 {
		return a*17 - 1
	}
	return a + 600
}

// CallG2 calls the unexported function.
//
//go:noinline
func CallG2(a int) int { return g2(a) }

// I is the interface target.
type I interface {
	A(a int) int
	B(a int) int
}

// X is the mocked interface variable.
var X I

// CallXA / CallXB call through the interface variable.
//
//go:noinline
func CallXA(a int) int { return X.A(a) }

//go:noinline
func CallXB(a int) int { return X.B(a) }

// N0, N1 are never mocked; they are neighbours in the text.
//
//go:noinline
func N0(a int) int { return a + 1 }

// Pkg is this package's import path.
const Pkg = "verifh/targets/hw"

// F2p has two parameters (for "too few condition arguments").
//
//go:noinline
func F2p(a, b int) int {
	if a > 1<<47 {
		return a*23 - b
	}
	return a + b + 900
}

// R2 has two results (for "too few return values").
//
//go:noinline
func R2(a int) (int, int) {
	if a > 1<<48 {
		return a * 29, a - 1
	}
	return a + 1000, a + 1001
}

// NotIface is a non-interface variable.
var NotIface int = 5

// PlainVar is a plain variable.
var PlainVar int = 6

// Q is a method no history ever mocks (used by the C13 mistake catalogue).
//
//go:noinline
func (s *S) Q(a int) int {
	if a > 1<<49 {
		return a*31 - s.K
	}
	return a + 1100
}

// F3p has parameters of three different sizes.
//
//go:noinline
func F3p(a int32, b int64, c int8) int {
	if b > 1<<40 {
		return int(a) - int(c)
	}
	return int(a) + int(b) + int(c) + 1200
}

// OF1 is F1's origin placeholder (its body is overwritten by goom). It is a function literal written inside a
// generic helper - its symbol is hw.mkPlaceholder[...].func1, a name that looks like an instantiation's - and
// it contains a call: the bytes goom writes must still land in this literal's own body.
var OF1 = mkPlaceholder[int]()

//go:noinline
func phHelper(a int) int { return a*3 + 1 }

func mkPlaceholder[T any]() func(int) int {
	return func(a int) int {
		x := phHelper(a)
		x = x*13 + 17
		if x == 2000 {
			x++
		}
		x = x*14 + 18
		if x == 2001 {
			x++
		}
		x = x*15 + 19
		if x == 2002 {
			x++
		}
		x = x*16 + 20
		if x == 2003 {
			x++
		}
		x = x*17 + 21
		if x == 2004 {
			x++
		}
		x = x*18 + 22
		if x == 2005 {
			x++
		}
		x = x*19 + 23
		if x == 2006 {
			x++
		}
		x = x*20 + 24
		if x == 2007 {
			x++
		}
		return x
	}
}

// V is reached through a value instance (Struct(V{}).Method("ValM")) and through a pointer instance
// (Struct(&V{}).Method("PtrM")): one type, two instances, two different methods.
type V struct{ K int }

//go:noinline
func (v V) ValM(a int) int {
	if a > 1<<50 {
		return a*23 - v.K
	}
	return a + 150
}

//go:noinline
func (v *V) PtrM(a int) int {
	if a > 1<<51 {
		return a*29 - v.K
	}
	return a + 250
}

// VF is a variadic function with two fixed parameters (used by C13's chained-condition mistakes
// and its struct/pointer result mistakes; never part of a history alphabet).
//
//go:noinline
func VF(a int, s string, xs ...int) int {
	if a > 1<<52 {
		return a*31 - len(s)
	}
	return a + len(s) + len(xs) + 900
}

// S3 is a 24-byte struct result type.
type S3 struct{ A, B, C int }

//go:noinline
func RS3(a int) S3 {
	if a > 1<<53 {
		return S3{a, a, a}
	}
	return S3{a, 1, 2}
}

//go:noinline
func RPS(a int) *S {
	if a > 1<<54 {
		return nil
	}
	return &S{K: a}
}

// P32 has a 4-byte parameter (C13: expression objects shared between configurations).
//
//go:noinline
func P32(a int32) int {
	if a > 1<<30 {
		return int(a)*41 - 1
	}
	return int(a) + 950
}

// Loop starts with a loop: a branch from behind the first 13 bytes goes back into them, so an
// apply with an origin placeholder has to be refused (the prologue cannot be relocated), while a
// plain mock works.
//
//go:noinline
//go:nosplit
func Loop(a int) int {
	for a&1 == 0 && a != 0 {
		a >>= 1
	}
	return a*3 + 18
}

// OLoop is the origin placeholder offered with Loop (never written if the apply is refused).
//
//go:noinline
func OLoop(a int) int {
	x := a
	x = x*3 + 7
	if x == 1000 {
		x++
	}
	x = x*4 + 8
	if x == 1001 {
		x++
	}
	x = x*5 + 9
	if x == 1002 {
		x++
	}
	x = x*6 + 10
	if x == 1003 {
		x++
	}
	x = x*7 + 11
	if x == 1004 {
		x++
	}
	return x
}

// GenF is a generic function; GenInt is the instantiation that is mocked (through its function value),
// CallGen calls it directly (original: a + 700).
//
//go:noinline
func GenF[T any](a int) int {
	if a > 1<<50 {
		return a*700 - 3
	}
	return a + 700
}

// GenInt is GenF[int] as a function value.
var GenInt = GenF[int]

// CallGen calls the instantiation directly.
//
//go:noinline
func CallGen(a int) int { return GenF[int](a) }

// E1 has an interface-typed (error) result.
//
//go:noinline
func E1(a int) error {
	if a > 1<<50 {
		return errE1
	}
	return nil
}

var errE1 error = e1err{}

type e1err struct{}

func (e1err) Error() string { return "e1" }
