// Package c19t holds the targets of the C19 (logging) harness.
package c19t

import "fmt"

// Node can be made cyclic.
type Node struct {
	Val  int
	Next *Node
	priv string
}

// NewNode builds a node with its unexported field set.
func NewNode(v int, p string) *Node { return &Node{Val: v, priv: p} }

// Hidden has only unexported fields.
type Hidden struct {
	a int
	b string
	c *Hidden
}

// NewHidden builds a Hidden.
func NewHidden(a int, b string) Hidden { return Hidden{a: a, b: b} }

// A returns the first hidden field.
func (h Hidden) A() int { return h.a }

// Bomb panics when printed.
type Bomb struct{ N int }

func (b Bomb) String() string { panic(fmt.Sprintf("bomb %d", b.N)) }

// MyErr is an error type (for typed nils).
type MyErr struct{ Code int }

func (e *MyErr) Error() string { return fmt.Sprintf("myerr %d", e.Code) }

// F is a plain function target.
//
//go:noinline
func F(a int, s string) int {
	if a > 1<<40 {
		return len(s) - a
	}
	return a + len(s) + 100
}

// V is a variadic target with leading fixed parameters.
//
//go:noinline
func V(prefix string, xs ...int) int {
	n := len(prefix) + 200
	for _, x := range xs {
		n += x
	}
	return n
}

// G takes exotic arguments.
//
//go:noinline
func G(p *Node, e error, f func() int, m map[string]int, s []int, h Hidden, sp fmt.Stringer, x interface{}) int {
	n := 300
	if p != nil {
		n += p.Val
	}
	if e != nil {
		n += 1
	}
	if f != nil {
		n += 2
	}
	return n + len(m) + len(s) + h.a
}

// R returns exotic results.
//
//go:noinline
func R(a int) (*Node, error, interface{}, []int) {
	if a > 1<<40 {
		return &Node{Val: a}, nil, a, []int{a}
	}
	return nil, nil, nil, nil
}

// T is the receiver of the method target.
type T struct{ K int }

// M is the method target.
//
//go:noinline
func (t *T) M(p *Node, xs ...string) int {
	n := t.K + 400 + len(xs)
	if p != nil {
		n += p.Val
	}
	return n
}

// I is the interface target.
type I interface {
	Do(x interface{}, p *Node) string
	Other() int
}

// X is the interface variable.
var X I

// CallDo calls X.Do.
//
//go:noinline
func CallDo(x interface{}, p *Node) string { return X.Do(x, p) }

// OF is F's origin placeholder (its body is overwritten by goom).
//
//go:noinline
func OF(a int, s string) int {
	x := a + len(s)
	x = x*3 + 7
	if x == 1000 {
		x++
	}
	x = x*4 + 8
	if x == 1001 {
		x++
	}
	x = x*5 + 9
	if x == 1002 {
		x++
	}
	x = x*6 + 10
	if x == 1003 {
		x++
	}
	x = x*7 + 11
	if x == 1004 {
		x++
	}
	x = x*8 + 12
	if x == 1005 {
		x++
	}
	return x
}

//go:noinline
func hidden(p *Node, x interface{}) int {
	n := 500
	if p != nil {
		n += p.Val
	}
	if x != nil {
		n++
	}
	return n
}

// CallHidden calls the unexported function.
//
//go:noinline
func CallHidden(p *Node, x interface{}) int { return hidden(p, x) }

// Pkg is this package's import path.
const Pkg = "verifh/targets/c19t"

// Variables mocked by the Var scenarios.
var (
	VarNode   *Node
	VarAny    interface{} = 1
	varHidden Hidden      = Hidden{a: 1, b: "v"}
)

// ReadVarHidden reads the unexported variable.
//
//go:noinline
func ReadVarHidden() Hidden { return varHidden }

// Digest takes and returns fixed-size byte arrays by value (digests, raw ids) next to a byte slice.
//
//go:noinline
func Digest(id [16]byte, data []byte) [16]byte {
	if len(data) > 1<<20 {
		id[0]++
	}
	id[15] ^= byte(len(data))
	return id
}

// Sum is a method with a by-value byte-array result.
//
//go:noinline
func (t *T) Sum(data []byte) [4]byte {
	if len(data) > 1<<20 {
		return [4]byte{9}
	}
	return [4]byte{byte(t.K), byte(len(data)), 3, 4}
}

// Tiny functions: bodies shorter than the entry jump (patchable only thanks to the padding behind them).
//
//go:noinline
func Tiny() int { return 1 }

// Getter is a tiny method.
//
//go:noinline
func (t *T) Getter() int { return t.K }

// SkuName is called from the String()/Error() methods below: rendering such a value calls a function the
// program may have mocked as well.
//
//go:noinline
func SkuName(id int) string { return fmt.Sprintf("real-sku-%d", pad(id)) }

//go:noinline
func pad(a int) int { return a }

// Order is an argument type whose String() goes through SkuName.
type Order struct{ Sku int }

func (o Order) String() string { return "order(" + SkuName(o.Sku) + ")" }

// Submit takes such an argument.
//
//go:noinline
func Submit(o Order) int { return -pad(o.Sku) }

// SkuErr is a result type whose Error() goes through SkuName.
type SkuErr struct{ Code int }

func (e *SkuErr) Error() string { return "failed: " + SkuName(e.Code) }

// Validate returns an error.
//
//go:noinline
func Validate(id int) error {
	if pad(id) < 0 {
		return &SkuErr{id}
	}
	return nil
}

// VarHook is an optional hook: a variable of func type.
var VarHook = func(name string) string { return "real:" + name }

// Emit is the code that uses the hook.
//
//go:noinline
func Emit(name string) string {
	if VarHook != nil {
		return VarHook(name)
	}
	return "no-hook"
}

// Label takes a value that is rendered through its String() method.
//
//go:noinline
func Label(o fmt.Stringer) string { return fmt.Sprintf("real-label-%d", pad(len(o.String()))) }

// Rec is an argument whose String() calls Label again - the very function it is handed to.
type Rec struct{ N int }

func (r Rec) String() string {
	if r.N < 100 {
		return "rec(" + Label(Rec{r.N + 100}) + ")"
	}
	return "rec-leaf"
}
