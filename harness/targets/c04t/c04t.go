// Package c04t holds the functions and methods stubbed by the C04 harness. Every original
// returns a negative number that no stub configuration ever uses.
package c04t

// S is the receiver type of the two methods.
type S struct{ ID int }

//go:noinline
func F1(a int) int { return -1000 - a }

//go:noinline
func F2(a int, b string) int { return -2000 - a - len(b) }

//go:noinline
func F3(a interface{}, b int) int {
	if a == nil {
		return -3000 - b
	}
	return -3100 - b
}

//go:noinline
func V0(r ...int) int { return -4000 - len(r) }

//go:noinline
func V1(a int, r ...int) int { return -5000 - a - 10*len(r) }

//go:noinline
func V2(a string, b int, r ...string) int { return -6000 - len(a) - b - 10*len(r) }

//go:noinline
func (s *S) M(a, b int) int { return -7000 - s.ID - a - b }

//go:noinline
func (s S) V(a, b int) int { return -8000 - s.ID - a - b }

// U1 takes an unsigned 64-bit parameter (conditions are usually written as int literals).
//
//go:noinline
func U1(a uint64) int { return -4000 - int(a&0xff) }

// B1 takes an int64 parameter.
//
//go:noinline
func B1(a int64) int { return -5000 - int(a&0xff) }

// VM is a variadic method with one fixed parameter.
//
//go:noinline
func (s *S) VM(a int, r ...int) int { return -9000 - s.ID - a - 10*len(r) }

// VI is a variadic function whose tail elements are interface{} (an element may itself be a slice).
//
//go:noinline
func VI(a string, r ...interface{}) int { return -9500 - len(a) - 10*len(r) }
