// Package cgoon exists only to make a binary use cgo, which switches the Go linker to external
// linking (the link mode of goom's own root-package tests).
package cgoon

/*
static int verif_cgo_on(void) { return 1; }
*/
import "C"

// On reports that cgo is linked in.
func On() bool { return C.verif_cgo_on() == 1 }
