package c06mixed

// Base is embedded by OuterA, OuterB and Limited.
type Base struct{ B int }

// Name has a pointer receiver.
//
//go:noinline
func (b *Base) Name(k int) int {
	if k > 1<<40 {
		return k*3 - b.B
	}
	return b.B + k + 1000
}

// Val has a value receiver.
//
//go:noinline
func (b Base) Val(k int) int {
	if k > 1<<40 {
		return k*5 - b.B
	}
	return b.B + k + 2000
}

// OuterA embeds Base behind a first field (the promoted methods' receiver is not at offset 0).
type OuterA struct {
	Pad int
	Base
}

// OuterB embeds Base too.
type OuterB struct{ Base }

// Limited embeds Base and declares a Name of its own (the decorator pattern).
type Limited struct {
	Base
	L int
}

// Name of Limited shadows the promoted one.
//
//go:noinline
func (l *Limited) Name(k int) int {
	if k > 1<<40 {
		return k*7 - l.L
	}
	return l.L + k + 3000
}

// Namer is how the promoted methods are called in a way that goes through the method goom is given
// (a static call o.Name(k) is compiled as o.Base.Name(k)).
type Namer interface{ Name(k int) int }

// Valer likewise.
type Valer interface{ Val(k int) int }

// ViaNamer / ViaValer call through the interface.
//
//go:noinline
func ViaNamer(n Namer, k int) int { return n.Name(k) }

//go:noinline
func ViaValer(v Valer, k int) int { return v.Val(k) }

// CallBaseName / CallBaseVal call the embedded type's own methods on a plain Base.
//
//go:noinline
func CallBaseName(b *Base, k int) int { return b.Name(k) }

//go:noinline
func CallBaseVal(b Base, k int) int { return b.Val(k) }

// CallLimitedName calls Limited's own method statically.
//
//go:noinline
func CallLimitedName(l *Limited, k int) int { return l.Name(k) }
