// Package c06mixed holds a type that has both value- and pointer-receiver methods (the generated
// c06types have one receiver kind per type).
package c06mixed

// Acc has methods of both receiver kinds.
type Acc struct{ N int }

// Total has a value receiver.
//
//go:noinline
func (a Acc) Total(k int) int {
	if k > 1<<40 {
		return k*3 - a.N
	}
	return a.N + k + 100
}

// Deposit has a pointer receiver.
//
//go:noinline
func (a *Acc) Deposit(k int) int {
	if k > 1<<40 {
		return k*5 - a.N
	}
	return a.N + k + 200
}

// Peek has a value receiver.
//
//go:noinline
func (a Acc) Peek(k int) int {
	if k > 1<<40 {
		return k*7 - a.N
	}
	return a.N + k + 300
}

// CallTotal / CallDeposit / CallPeek call the methods on value and pointer instances.
//
//go:noinline
func CallTotal(a Acc, k int) int { return a.Total(k) }

//go:noinline
func CallTotalP(a *Acc, k int) int { return a.Total(k) }

//go:noinline
func CallDeposit(a *Acc, k int) int { return a.Deposit(k) }

//go:noinline
func CallPeek(a Acc, k int) int { return a.Peek(k) }
