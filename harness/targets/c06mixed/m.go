// Package c06mixed holds a type that has both value- and pointer-receiver methods (the generated
// c06types have one receiver kind per type).
package c06mixed

// Acc has methods of both receiver kinds.
type Acc struct{ N int }

// Total has a value receiver.
//
//go:noinline
func (a Acc) Total(k int) int {
	if k > 1<<40 {
		return k*3 - a.N
	}
	return a.N + k + 100
}

// Deposit has a pointer receiver.
//
//go:noinline
func (a *Acc) Deposit(k int) int {
	if k > 1<<40 {
		return k*5 - a.N
	}
	return a.N + k + 200
}

// Peek has a value receiver.
//
//go:noinline
func (a Acc) Peek(k int) int {
	if k > 1<<40 {
		return k*7 - a.N
	}
	return a.N + k + 300
}

// CallTotal / CallDeposit / CallPeek call the methods on value and pointer instances.
//
//go:noinline
func CallTotal(a Acc, k int) int { return a.Total(k) }

//go:noinline
func CallTotalP(a *Acc, k int) int { return a.Total(k) }

//go:noinline
func CallDeposit(a *Acc, k int) int { return a.Deposit(k) }

//go:noinline
func CallPeek(a Acc, k int) int { return a.Peek(k) }

// Box is a generic type with a value-receiver and a pointer-receiver method whose signatures do
// not mention T (no dictionary-dependent arguments).
type Box[T any] struct {
	V T
	N int
}

// Peek has a value receiver.
//
//go:noinline
func (b Box[T]) Peek(k int) int {
	if k > 1<<41 {
		return k*3 - b.N
	}
	return b.N + k + 400
}

// Count has a pointer receiver.
//
//go:noinline
func (b *Box[T]) Count(k int) int {
	if k > 1<<42 {
		return k*5 - b.N
	}
	return b.N + k + 500
}

// Wide has more integer argument words than the ABI has registers (receiver 1 + strings 4 +
// slices 6 + 2): the instantiation wrapper copies stack arguments before it calls the shape function.
//
//go:noinline
func (b *Box[T]) Wide(ctx, key string, s1, s2 []int, n int, f bool) int {
	if n > 1<<43 {
		return n*7 - b.N
	}
	return b.N + n + len(ctx) + len(key) + len(s1) + len(s2) + 600
}

// Arr is a generic type whose value receiver cannot travel in registers (array field).
type Arr[T any] struct {
	A [6]int
	V T
}

// Sum has a value receiver.
//
//go:noinline
func (a Arr[T]) Sum(k int) int {
	if k > 1<<44 {
		return k*9 - a.A[0]
	}
	return a.A[0] + a.A[5] + k + 700
}

//go:noinline
func WideInt(b *Box[int], n int) int { return b.Wide("c", "key", []int{1}, []int{1, 2}, n, true) }

//go:noinline
func WideString(b *Box[string], n int) int { return b.Wide("c", "key", []int{1}, []int{1, 2}, n, true) }

//go:noinline
func SumInt(a Arr[int], k int) int { return a.Sum(k) }

//go:noinline
func SumString(a Arr[string], k int) int { return a.Sum(k) }

// Direct calls on instances of different instantiations.
//
//go:noinline
func PeekInt(b Box[int], k int) int { return b.Peek(k) }

//go:noinline
func PeekString(b Box[string], k int) int { return b.Peek(k) }

//go:noinline
func CountInt(b *Box[int], k int) int { return b.Count(k) }

//go:noinline
func CountString(b *Box[string], k int) int { return b.Count(k) }

// lowA / lowB are unexported methods addressed by name.
//
//go:noinline
func (a *Acc) lowA(k int) int {
	if k > 1<<43 {
		return k*7 - a.N
	}
	return a.N + k + 600
}

//go:noinline
func (a *Acc) lowB(k int) int {
	if k > 1<<44 {
		return k*9 - a.N
	}
	return a.N + k + 700
}

//go:noinline
func CallLowA(a *Acc, k int) int { return a.lowA(k) }

//go:noinline
func CallLowB(a *Acc, k int) int { return a.lowB(k) }

// Pkg is this package's import path.
const Pkg = "verifh/targets/c06mixed"

// Receivers of several sizes for mocks requested through a method value (Func(obj.Method)):
// two words, a pointer, 328 bytes (copied by a helper call in the bound-method wrapper) and 2 KiB.
type MVSmall struct{ A, B int }

//go:noinline
func (s MVSmall) Sum(x int) int {
	if x > 1<<45 {
		return x*3 - s.A
	}
	return s.A + s.B + x
}

type MVPtr struct{ A int }

//go:noinline
func (p *MVPtr) Get(x int) int {
	if x > 1<<46 {
		return x*5 - p.A
	}
	return p.A + x + 10
}

type MVBig struct {
	Tag  int
	Data [40]int64
}

//go:noinline
func (b MVBig) Sum(x int) int {
	if x > 1<<47 {
		return x*7 - b.Tag
	}
	return b.Tag + int(b.Data[3]) + x + 20
}

type MVHuge struct {
	Tag  int
	Data [255]int64
}

//go:noinline
func (h MVHuge) Sum(x int) int {
	if x > 1<<48 {
		return x*9 - h.Tag
	}
	return h.Tag + int(h.Data[200]) + x + 30
}
