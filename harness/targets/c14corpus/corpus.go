// Package c14corpus is the C14 patch-target corpus: generated //go:noinline functions from one
// byte of code (a bare RET) to ≈ 6 KiB (see gen.go / corpus_gen.go), replacement functions of the
// same signatures, and placeholder functions that serve as trampolines.
package c14corpus

// Target is one generated function.
type Target struct {
	Name  string
	Fn    interface{}
	Sig   int // 0 func(); 1 func(int) int; 2 func(int, int) int; 3 func(string) int; 4 func(uint64) uint64
	Stmts int
}

var sink int

//go:noinline
func r0a() { sink = 1 }

//go:noinline
func r0b() { sink = 2 }

//go:noinline
func r1a(x int) int { return 1001 }

//go:noinline
func r1b(x int) int { return 1002 }

//go:noinline
func r2a(x, y int) int { return 2001 }

//go:noinline
func r2b(x, y int) int { return 2002 }

//go:noinline
func r3a(s string) int { return 3001 }

//go:noinline
func r3b(s string) int { return 3002 }

//go:noinline
func r4a(x uint64) uint64 { return 4001 }

//go:noinline
func r4b(x uint64) uint64 { return 4002 }

// Repl returns a replacement of signature class sig (which = 0 or 1 selects one of two).
func Repl(sig, which int) interface{} {
	r := [][2]interface{}{{r0a, r0b}, {r1a, r1b}, {r2a, r2b}, {r3a, r3b}, {r4a, r4b}}
	return r[sig][which&1]
}
