package c14corpus

// Small hand-written origin placeholders of the kind users write: a body that only panics, and a body
// that forwards to a helper. Both are at most 64 bytes and contain a CALL. They may be too small to take
// a trampoline (then the apply is refused and nothing may change); what may never happen is that the
// function they call is written instead.

//go:noinline
//go:nosplit
func PS0(i int) int { panic("origin placeholder: never called") }

//go:noinline
//go:nosplit
func PS1(i int) int { return psHelper(i) }

//go:noinline
func psHelper(i int) int {
	sink += i
	return i*3 + 1
}

// AllPlaceholders lists the generated placeholders and the small hand-written ones.
func AllPlaceholders() []Target {
	return append(Placeholders(), Target{Name: "PS0", Fn: PS0, Sig: 1}, Target{Name: "PS1", Fn: PS1, Sig: 1})
}
