package c14corpus

// Small hand-written origin placeholders of the kind users write: a body that only panics, and a body
// that forwards to a helper. Both are at most 64 bytes and contain a CALL. They may be too small to take
// a trampoline (then the apply is refused and nothing may change); what may never happen is that the
// function they call is written instead.

//go:noinline
//go:nosplit
func PS0(i int) int { panic("origin placeholder: never called") }

//go:noinline
//go:nosplit
func PS1(i int) int { return psHelper(i) }

//go:noinline
func psHelper(i int) int {
	sink += i
	return i*3 + 1
}

// AllPlaceholders lists the generated placeholders and the small hand-written ones.
func AllPlaceholders() []Target {
	return append(Placeholders(), Target{Name: "PS0", Fn: PS0, Sig: 1}, Target{Name: "PS1", Fn: PS1, Sig: 1})
}

// Wide is a receiver too big for registers: the method-value wrapper (Wide.M-fm) copies it with
// runtime.duffcopy before it calls the method.
type Wide struct{ A [12]int }

// M has a value receiver.
//
//go:noinline
func (w Wide) M(i int) int {
	sink += w.A[3]
	return i*5 + w.A[0]
}

// PtrM has a pointer receiver.
//
//go:noinline
func (w *Wide) PtrM(i int) int {
	sink += w.A[4]
	return i*7 + w.A[1]
}

var wideInst = Wide{A: [12]int{1, 2, 3, 4, 5, 6, 7, 8, 9, 10, 11, 12}}

// LitTarget is a function literal (symbol c14corpus.init.func1 or glob..func1) whose body calls another function.
var LitTarget = func(i int) int { return psHelper(i) + 2 }

// ExtraTargets are targets given as method values (the function that is patched is the compiler's -fm wrapper)
// and as a function literal.
func ExtraTargets() []Target {
	return []Target{{Name: "Wide.M-fm", Fn: wideInst.M, Sig: 1}, {Name: "(*Wide).PtrM-fm", Fn: (&wideInst).PtrM, Sig: 1}, {Name: "literal", Fn: LitTarget, Sig: 1}}
}
