package c11t

// LeafT is a frameless leaf whose first instructions hold a short conditional jump (JLE) to behind
// the copied prologue. Its placeholder OLeafT (z_leaf.go) lies at the other end of this package's
// text, too far for the 8-bit displacement, and JLE is not one of the jumps goom widens: an apply
// with an origin placeholder does not return an error, it panics while the trampoline is built -
// inside the library's critical section.
//
//go:noinline
//go:nosplit
func LeafT(a int) int {
	if a > 5 {
		return a*3 + 77777
	}
	return a + 1
}
