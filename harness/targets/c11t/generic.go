package c11t

// Gen is a generic mock target: Gen[int] is reached through an instantiation wrapper, which goom
// disassembles to find the shape function (original: a + 9100).
//
//go:noinline
func Gen[T any](a int) int {
	if a > 1<<52 {
		return a*9100 - 3
	}
	return a + 9100
}

// GenInt is the instantiation the harness mocks.
var GenInt = Gen[int]

// GenK is the constant of Gen's original.
const GenK = 9100
