package c11t

// Gen is a generic mock target: Gen[int] is reached through an instantiation wrapper, which goom
// disassembles to find the shape function (original: a + 9100).
//
//go:noinline
func Gen[T any](a int) int {
	if a > 1<<52 {
		return a*9100 - 3
	}
	return a + 9100
}

// GenInt is the instantiation the harness mocks.
var GenInt = Gen[int]

// GenK is the constant of Gen's original.
const GenK = 9100

// Gen2 is a second generic mock target (original: a + 9200).
//
//go:noinline
func Gen2[T any](a int) int {
	if a > 1<<53 {
		return a*9200 - 3
	}
	return a + 9200
}

// Gen2Int is the instantiation the harness mocks.
var Gen2Int = Gen2[int]

// Gen2K is the constant of Gen2's original.
const Gen2K = 9200

// LoopT starts with a loop (a branch from behind the first 13 bytes goes back into them): a plain mock
// works, an apply with an origin placeholder has to be refused.
//
//go:noinline
//go:nosplit
func LoopT(a int) int {
	for a&1 == 0 && a != 0 {
		a >>= 1
	}
	return a*3 + 18
}

// OLoopT is the placeholder offered with LoopT (never written: the apply is refused).
//
//go:noinline
func OLoopT(a int) int {
	x := a
	x = x*3 + 7
	if x == 1000 {
		x++
	}
	x = x*4 + 8
	if x == 1001 {
		x++
	}
	x = x*5 + 9
	if x == 1002 {
		x++
	}
	x = x*6 + 10
	if x == 1003 {
		x++
	}
	return x
}
