package c11t

// OLeafT is the placeholder offered with LeafT (never written: the apply fails).
//
//go:noinline
func OLeafT(a int) int {
	x := a
	x = x*3 + 7
	if x == 2000 {
		x++
	}
	x = x*4 + 8
	if x == 2001 {
		x++
	}
	x = x*5 + 9
	if x == 2002 {
		x++
	}
	x = x*6 + 10
	if x == 2003 {
		x++
	}
	return x
}
