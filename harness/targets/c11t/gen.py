# The generator of t.go is the inline script recorded in /verif's git history (commit "C11"); t.go is committed.
