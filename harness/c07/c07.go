// Package c07 — interface-variable mocks dispatch each method to its own replacement and restore.
//
// Engine H: every history ≤ d over {mock(v,m,Apply|As+Return|As+When), GC, DropBuilder, Reset} on
// variables of interface types with 3 and 5 methods (declaration order ≠ sorted order, one
// unexported method, embedded interface), starting from nil and from a real implementation;
// after the last step every method of every variable is called and compared with a per-variable
// model. GC runs under GODEBUG=clobberfree=1, so a freed replacement crashes deterministically.
package c07

import (
	"encoding/json"
	"fmt"
	"runtime"
	"strings"

	mocker "github.com/tencent/goom"
	t "verifh/targets/c07t"
	"verifh/vk"
)

// Op kinds.
const (
	kApply = iota
	kAsReturn
	kAsWhen
	kGC
	kDrop
	kReset
	kAssign    // the program itself assigns another real implementation to X
	kAssignNil // the program itself assigns nil to X
)

var kindNames = []string{"Apply", "As.Return", "As.When(7).Return", "GC", "DropBuilder", "Reset", "X=other", "X=nil"}

// Op is one operation.
type Op struct {
	K int    `json:"k"`
	V string `json:"v,omitempty"`
	M string `json:"m,omitempty"`
	// R: the mock is requested through the handle b.Interface(&v) returned the first time this builder
	// looked the variable up (kept by the test across Resets), not through a fresh lookup
	R bool `json:"kept_handle,omitempty"`
}

func (o Op) String() string {
	if o.K >= kGC {
		return kindNames[o.K]
	}
	if o.R {
		return fmt.Sprintf("mock(%s.%s,%s,through the kept handle)", o.V, o.M, kindNames[o.K])
	}
	return fmt.Sprintf("mock(%s.%s,%s)", o.V, o.M, kindNames[o.K])
}

func opsString(ops []Op) string {
	s := make([]string, len(ops))
	for i, o := range ops {
		s[i] = o.String()
	}
	return strings.Join(s, "; ")
}

// Case is the replay artefact.
type Case struct {
	Real bool   `json:"initial_real_impl"`
	Ops  []Op   `json:"ops"`
	Text string `json:"text"`
}

// mockInfo is the configuration of one method: a callback, or a stub with a default sequence
// and clauses on argument 7 (Return/When on an existing stub extend it, as for functions).
type mockInfo struct {
	how     int // kApply = callback, otherwise stub
	code    int
	def     []int
	clauses []int
}

type varModel struct {
	mocked  bool
	owner   int
	methods map[string]mockInfo
	pre     [2]uintptr
	dirty   bool
	// foreign assignment (X only): held = what the program assigned ("" none, "X2", "nil");
	// displaced = the assignment overwrote a live mock; fresh = methods mocked since then (only
	// those are judged: whether the earlier ones survive a foreign assignment is not stated)
	held string
	// cancelledBy: the epoch of a builder that mocked and reset the variable (its cancelled mocker, with
	// its backup, is still cached there); reassigned: the program assigned since. A further Reset of
	// that builder may or may not write the old backup again — the statement does not say
	cancelledBy int
	reassigned  bool
	displaced   bool
	partial     bool
	fresh       map[string]bool
}

var sink [][]byte

func gc() {
	for i := 0; i < 2; i++ {
		runtime.GC()
		// heap churn so that freed spans are reused
		for j := 0; j < 64; j++ {
			sink = append(sink, make([]byte, 1024+j*64))
		}
		sink = nil
	}
	runtime.GC()
}

func ptrOf(v string) interface{} {
	switch v {
	case "X":
		return &t.X
	case "Y":
		return &t.Y
	case "Z":
		return &t.Z
	case "W":
		return &t.W
	case "V":
		return &t.V
	case "U":
		return &t.U
	case "L1", "L2", "Big":
		return t.Ptr(v)
	}
	panic("bad var")
}

// run replays the history; returns the failure ("" = conforms), judged and unjudged counts.
func run(real bool, ops []Op, vars []string) (fail string, judged, unjudged int) {
	t.SetInitial(real)
	b := mocker.Create()
	epoch := 0
	model := map[string]*varModel{}
	for _, v := range vars {
		model[v] = &varModel{methods: map[string]mockInfo{}}
	}
	initial := map[string][2]uintptr{}
	for _, v := range vars {
		initial[v] = t.Words(v)
	}
	defer func() {
		vk.Try(func() { b.Reset() })
		t.SetInitial(false)
	}()
	handles := map[string]*mocker.CachedInterfaceMocker{}
	lookup := func(v string) *mocker.CachedInterfaceMocker {
		h := b.Interface(ptrOf(v))
		if handles[v] == nil {
			handles[v] = h
		}
		return h
	}
	for i, op := range ops {
		code := 10000 * (i + 1)
		var before [2]uintptr
		if op.K < kGC {
			before = t.Words(op.V)
		}
		msg, p := vk.Try(func() {
			if op.V == "V" && op.K < kGC {
				mockWide(b, op, code)
				return
			}
			var im *mocker.CachedInterfaceMocker
			if op.K < kGC {
				if op.R {
					im = handles[op.V]
				} else {
					im = lookup(op.V)
				}
			}
			switch op.K {
			case kApply:
				im.Method(op.M).Apply(func(ctx *mocker.IContext, a int) int { return a + code })
			case kAsReturn:
				im.Method(op.M).As(func(ctx *mocker.IContext, a int) int { return 0 }).Return(code)
			case kAsWhen:
				im.Method(op.M).As(func(ctx *mocker.IContext, a int) int { return 0 }).When(7).Return(code)
			case kGC:
				gc()
			case kDrop:
				b = nil
				handles = map[string]*mocker.CachedInterfaceMocker{}
				gc()
				b = mocker.Create()
			case kReset:
				b.Reset()
			case kAssign:
				t.Assign(false)
			case kAssignNil:
				t.Assign(true)
			}
		})
		if p {
			return fmt.Sprintf("panic: step %d %s panicked: %s", i, op, vk.Short(msg, 140)), 1, 0
		}
		switch op.K {
		case kApply, kAsReturn, kAsWhen:
			vm := model[op.V]
			if !vm.mocked || vm.owner != epoch {
				if vm.mocked {
					vm.dirty = true // re-mocked by a new builder while holding a dropped builder's mock
				}
				vm.pre = before
				if !vm.mocked {
					vm.pre = initial[op.V] // by the model: untouched so far
				}
				vm.mocked, vm.owner = true, epoch
				vm.methods = map[string]mockInfo{}
				vm.partial, vm.displaced = false, false
			}
			if prev, had := vm.methods[op.M]; vm.displaced && had && prev.how != kApply && op.K != kApply {
				// extending an existing stub's results is not a new act of mocking: whether it puts the
				// mock back into a variable the program has overwritten is not stated
				vm.dirty = true
			}
			if vm.displaced {
				// mocked again after the program overwrote the mock: the variable holds the mock again
				vm.displaced, vm.partial, vm.fresh = false, true, map[string]bool{}
			}
			if vm.partial {
				vm.fresh[op.M] = true
			}
			mi, had := vm.methods[op.M]
			switch op.K {
			case kApply:
				mi = mockInfo{how: kApply, code: code}
			case kAsReturn:
				if !had || mi.how == kApply {
					mi = mockInfo{how: kAsReturn}
				}
				mi.def = append(mi.def, code)
			case kAsWhen:
				if !had || mi.how == kApply {
					mi = mockInfo{how: kAsReturn}
				}
				mi.clauses = append(mi.clauses, code)
			}
			vm.methods[op.M] = mi
		case kDrop:
			epoch++
		case kAssign, kAssignNil:
			vm := model["X"]
			vm.held = map[int]string{kAssign: "X2", kAssignNil: "nil"}[op.K]
			if vm.mocked {
				vm.displaced = true
			} else {
				initial["X"] = t.Words("X")
				if vm.cancelledBy == epoch+1 {
					vm.reassigned = true
				}
			}
		case kReset:
			for _, v := range vars {
				vm := model[v]
				if !vm.mocked && vm.reassigned && vm.cancelledBy == epoch+1 {
					vm.dirty = true // a repeated Reset after the program's own assignment: not stated
				}
				if vm.mocked && vm.owner == epoch {
					vm.cancelledBy = epoch + 1
					vm.reassigned = false
					vm.mocked = false
					vm.methods = map[string]mockInfo{}
					if vm.partial || vm.displaced {
						// the program assigned to the variable while it was mocked: what Reset puts back is not stated
						vm.dirty = true
						unjudged++
						continue
					}
					// the variable must hold its pre-mock words again
					judged++
					if w := t.Words(v); w != vm.pre && fail == "" {
						fail = fmt.Sprintf("restore: after step %d Reset variable %s does not hold the value it held before it was mocked", i, v)
					}
					if vm.pre != initial[v] {
						vm.dirty = true // it holds a dropped builder's mock again
						vm.mocked = true
						vm.owner = -1
					}
				}
			}
			if fail != "" {
				return fail, judged, unjudged
			}
		}
	}
	// probes
	for _, v := range vars {
		vm := model[v]
		if vm.dirty {
			unjudged += 2 * len(t.Methods[v])
			continue
		}
		if vm.mocked && vm.displaced {
			// the program's own assignment is what the variable holds now
			judged++
			if w := t.IsNil(v); w != (vm.held == "nil") {
				return fmt.Sprintf("assign: variable %s does not hold what the program assigned (%s) after the mock", v, vm.held), judged, unjudged
			}
		} else if vm.mocked {
			judged++
			if t.IsNil(v) {
				return fmt.Sprintf("nil: variable %s is nil although a method of it is mocked", v), judged, unjudged
			}
		} else {
			judged++
			if t.Words(v) != initial[v] {
				return fmt.Sprintf("independent: variable %s was never mocked (or was reset) but no longer holds its original value", v), judged, unjudged
			}
		}
		for _, m := range t.Methods[v] {
			cursor := 0
			for _, a := range []int{7, 8} {
				var got int
				msg, p := vk.Try(func() { got = t.Call(v, m, a) })
				judged++
				want, wantPanic := 0, ""
				switch {
				case (!vm.mocked || vm.displaced) && vm.held == "X2":
					want = t.RealResult("X2", m, a)
				case (!vm.mocked || vm.displaced) && (vm.held == "nil" || !real):
					wantPanic = "nil pointer"
				case !vm.mocked || vm.displaced:
					want = t.RealResult(v, m, a)
				case vm.partial && !vm.fresh[m]:
					if _, earlier := vm.methods[m]; earlier {
						unjudged++
						judged--
						continue
					}
					wantPanic = "method not implements"
				default:
					mi, ok := vm.methods[m]
					switch {
					case !ok:
						wantPanic = "method not implements"
					case mi.how == kApply:
						want = a + mi.code
					case a == 7 && len(mi.clauses) > 0:
						want = mi.clauses[0]
					case len(mi.def) > 0:
						k := cursor
						if k >= len(mi.def) {
							k = len(mi.def) - 1
						}
						cursor++
						want = mi.def[k]
					default:
						wantPanic = "no suitable condition"
					}
				}
				okk := false
				if wantPanic != "" {
					okk = p && strings.Contains(msg, wantPanic)
				} else {
					okk = !p && got == want
				}
				if !okk {
					g := fmt.Sprint(got)
					if p {
						g = "panic(" + vk.Short(msg, 70) + ")"
					}
					w := fmt.Sprint(want)
					if wantPanic != "" {
						w = "a panic containing '" + wantPanic + "'"
					}
					return fmt.Sprintf("dispatch: %s.%s(%d) gave %s, expected %s", v, m, a, g, w), judged, unjudged
				}
			}
		}
	}
	// "the mock stays callable for as long as the variable holds it, even if ... garbage collections run": one
	// more collection (with heap churn) after the history, then every callback-mocked method of a variable that
	// holds its mock is called once more (callbacks are stateless, so the expectation is the same as above)
	anyMock := false
	for _, v := range vars {
		vm := model[v]
		anyMock = anyMock || (vm.mocked && !vm.dirty && !vm.displaced && !vm.partial)
	}
	// (only after histories in which a mock was made after a Reset or a dropped builder: the plain cases are
	// covered by the GC operation of the alphabet, and a collection per history is what the time goes into)
	remocked := false
	for i, o := range ops {
		if o.K == kReset || o.K == kDrop {
			for _, o2 := range ops[i+1:] {
				remocked = remocked || o2.K < kGC
			}
		}
	}
	if anyMock && remocked && ops[len(ops)-1].K != kGC {
		// the method table the variable points to is not visible to the collector through the variable (the
		// compiler does not mark an interface's table word as a pointer): it must survive the collection
		// byte for byte. Looked at before anything is called through it, so that a reclaimed table is a
		// reported difference and not a jump into reclaimed memory.
		tabs := map[string][]byte{}
		for _, v := range vars {
			vm := model[v]
			if vm.mocked && !vm.dirty && !vm.displaced && !vm.partial {
				if tab := t.Words(v)[0]; tab != 0 {
					tabs[v] = vk.Copy(tab, 256)
				}
			}
		}
		gc()
		for _, v := range vars {
			if before, ok := tabs[v]; ok {
				judged++
				if after := vk.Copy(t.Words(v)[0], 256); string(after) != string(before) {
					return fmt.Sprintf("table-reclaimed: after a garbage collection at the end of the history the method table that variable %s holds no longer has its contents (first words %x, before %x): nothing kept it alive", v, after[:16], before[:16]), judged, unjudged
				}
			}
		}
		for _, v := range vars {
			vm := model[v]
			if !vm.mocked || vm.dirty || vm.displaced || vm.partial {
				continue
			}
			for _, m := range t.Methods[v] {
				mi, ok := vm.methods[m]
				if !ok || mi.how != kApply {
					continue
				}
				var got int
				msg, p := vk.Try(func() { got = t.Call(v, m, 8) })
				judged++
				if p || got != 8+mi.code {
					g := fmt.Sprint(got)
					if p {
						g = "panic(" + vk.Short(msg, 70) + ")"
					}
					return fmt.Sprintf("dispatch: after a garbage collection at the end of the history %s.%s(8) gave %s, expected %d", v, m, g, 8+mi.code), judged, unjudged
				}
			}
		}
	}
	return "", judged, unjudged
}

// wellFormed: a bare Return after a When clause exists on the same method mocker is not in any
// alphabet (DESIGN 3.7).
func wellFormed(ops []Op) bool {
	type key struct{ v, m string }
	clause := map[key]bool{}
	looked := map[string]bool{}
	for _, o := range ops {
		k := key{o.V, o.M}
		if o.K < kGC {
			if o.R && !looked[o.V] {
				return false // no handle to keep yet
			}
			looked[o.V] = true
		}
		if o.K == kDrop {
			looked = map[string]bool{}
		}
		switch o.K {
		case kApply:
			clause[k] = false
		case kAsWhen:
			clause[k] = true
		case kAsReturn:
			if clause[k] {
				return false
			}
		case kDrop, kReset:
			clause = map[key]bool{}
		}
	}
	// at most one foreign assignment per history, and not as the last operation before nothing happens
	na := 0
	for _, o := range ops {
		if o.K >= kAssign {
			na++
		}
	}
	return na <= 1
}

// mockWide mocks the 9-integer-word methods of V: the callback / the When condition sees every
// argument, so a clobbered register shows up as a wrong result or a missed condition.
func mockWide(b *mocker.Builder, op Op, code int) {
	im := b.Interface(&t.V).Method(op.M)
	if op.M == "Sum8" {
		as := func(ctx *mocker.IContext, a, b2, c, d, e, f, g, h int) int { return 0 }
		switch op.K {
		case kApply:
			im.Apply(func(ctx *mocker.IContext, a, b2, c, d, e, f, g, h int) int {
				if b2 != 2 || c != 3 || d != 4 || e != 5 || f != 6 || g != 7 || h != 8 {
					return -1
				}
				return a + code
			})
		case kAsReturn:
			im.As(as).Return(code)
		case kAsWhen:
			im.As(as).When(7, 2, 3, 4, 5, 6, 7, 8).Return(code)
		}
		return
	}
	as := func(ctx *mocker.IContext, a, b2, c, d string) int { return 0 }
	switch op.K {
	case kApply:
		im.Apply(func(ctx *mocker.IContext, a, b2, c, d string) int {
			if b2 != "b" || c != "cc" || d != "ddd" {
				return -1
			}
			return len(a) - len(a) + codeOf(a, code)
		})
	case kAsReturn:
		im.As(as).Return(code)
	case kAsWhen:
		im.As(as).When("seven", "b", "cc", "ddd").Return(code)
	}
}

// codeOf mirrors the int methods' `a + code` for the string method: probe value 7 <-> "seven".
func codeOf(a string, code int) int {
	if a == "seven" {
		return 7 + code
	}
	return 8 + code
}

func class(f string) string {
	if i := strings.Index(f, ":"); i > 0 {
		return f[:i]
	}
	return f
}

func alphabet(thorough bool) ([]Op, []string) {
	vars := []string{"X", "Y"}
	hows := []int{kApply, kAsReturn}
	if thorough {
		vars = []string{"X", "Y", "Z"}
		hows = []int{kApply, kAsReturn, kAsWhen}
	}
	var a []Op
	for _, v := range vars {
		ms := t.Methods[v]
		if v == "Z" {
			ms = []string{"A", "D"}
		}
		if v == "Y" && !thorough {
			ms = []string{"A", "c"}
		}
		for _, m := range ms {
			for _, h := range hows {
				if v == "Z" && h == kAsWhen {
					continue
				}
				a = append(a, Op{K: h, V: v, M: m})
			}
		}
	}
	// wide-signature methods (9 integer words): As.When sees every argument
	a = append(a, Op{K: kAsWhen, V: "V", M: "Sum8"}, Op{K: kAsWhen, V: "V", M: "Join"})
	if thorough {
		a = append(a, Op{K: kApply, V: "V", M: "Sum8"}, Op{K: kApply, V: "V", M: "Join"}, Op{K: kAsReturn, V: "V", M: "Join"})
	}
	vars = append(vars, "V", "L1", "L2", "U")
	// an interface whose exported method set is not in byte order (non-ASCII initial) next to unexported methods
	a = append(a, Op{K: kApply, V: "U", M: "Énumérer"}, Op{K: kApply, V: "U", M: "apply"})
	if thorough {
		a = append(a, Op{K: kAsReturn, V: "U", M: "Zeta"}, Op{K: kAsReturn, V: "U", M: "zap"})
	}
	// two function-local interface types of the same printed name, common method at different positions
	a = append(a, Op{K: kApply, V: "L1", M: "Get"}, Op{K: kApply, V: "L2", M: "Get"})
	if thorough {
		a = append(a, Op{K: kAsReturn, V: "L1", M: "Aaa"}, Op{K: kAsReturn, V: "L2", M: "Zzz"})
	}
	// an interface with 120 methods: positions at and beyond the documented limit of 99
	vars = append(vars, "Big")
	a = append(a, Op{K: kApply, V: "Big", M: "M098"}, Op{K: kApply, V: "Big", M: "M119"})
	if thorough {
		a = append(a, Op{K: kAsReturn, V: "Big", M: "M000"}, Op{K: kAsReturn, V: "Big", M: "M099"})
	}
	// mocks requested through the handle kept from the builder's first lookup of a variable (typically across a
	// Reset). In the enumerated alphabet this is done for one method of W only: with two methods goom loses the
	// first one (fixedHistories below, a recorded finding).
	vars = append(vars, "W")
	a = append(a, Op{K: kApply, V: "W", M: "A"}, Op{K: kApply, V: "W", M: "A", R: true})
	if thorough {
		a = append(a, Op{K: kAsReturn, V: "W", M: "A", R: true})
	}
	a = append(a, Op{K: kGC}, Op{K: kDrop}, Op{K: kReset}, Op{K: kAssign}, Op{K: kAssignNil})
	return a, vars
}

// fixedHistories: two methods of one variable mocked through a handle kept across a Reset, in both orders of
// the two kinds of mock.
var fixedHistories = [][]Op{
	{{K: kApply, V: "X", M: "A"}, {K: kReset}, {K: kApply, V: "X", M: "A", R: true}, {K: kAsReturn, V: "X", M: "B", R: true}},
	{{K: kAsReturn, V: "X", M: "B"}, {K: kReset}, {K: kAsReturn, V: "X", M: "B", R: true}, {K: kApply, V: "X", M: "A", R: true}},
}

// Run is the worker entry point.
func Run(c *vk.Ctx) {
	if c.Replay != "" {
		var cs Case
		c.LoadReplay(&cs)
		_, vars := alphabet(true)
		fmt.Printf("replay initial_real_impl=%v ops=[%s]\n", cs.Real, opsString(cs.Ops))
		f, _, _ := run(cs.Real, cs.Ops, vars)
		fmt.Printf("result: %s\n", orOK(f))
		if f != "" {
			c.Violate("replay", f, cs)
		}
		c.Finish()
		return
	}
	depth := 3
	if c.Thorough() {
		depth = 4
	}
	alpha, vars := alphabet(c.Thorough())
	var idx int64
	// shorter histories first (all of length 1, then all of length 2, ...): if the soft time budget of the thorough
	// tier runs out, what is left unexplored is the tail of the deepest level, and the evidence says so
	for level := 1; level <= depth; level++ {
		for _, real := range []bool{false, true} {
			var rec func(prefix []Op) bool
			rec = func(prefix []Op) bool {
				for _, op := range alpha {
					if c.Full() || c.Expired() {
						return false
					}
					h := append(prefix[:len(prefix):len(prefix)], op)
					if !wellFormed(h) {
						continue
					}
					if len(h) < level {
						if !rec(h) {
							return false
						}
						continue
					}
					mine := c.Mine(idx)
					idx++
					if mine {
						cs := Case{real, h, opsString(h)}
						nb, _ := json.Marshal(map[string]interface{}{"__key": fmt.Sprintf("init_real=%v hist=[%s]", real, cs.Text), "initial_real_impl": real, "ops": h, "text": cs.Text})
						c.Note(string(nb))
						f, j, u := run(real, h, vars)
						c.Res.Evaluations += int64(j)
						c.Res.Unjudged += int64(u)
						c.Res.Traces++
						c.Res.States++
						c.Res.Transitions += int64(len(h))
						nm := 0
						for _, o := range h {
							if o.K < kGC {
								nm++
							}
						}
						if nm > 0 && len(h) > 1 {
							c.Res.Nontrivial++
						}
						if idx%499 == 1 {
							c.Sample(cs)
						}
						if f != "" {
							cls := class(f)
							min := minimize(real, h, vars, cls)
							g, _, _ := run(real, min, vars)
							c.Violate(fmt.Sprintf("init_real=%v hist=[%s] class=%s", real, opsString(min), class(g)), g, Case{real, min, opsString(min)})
						}
					}
				}
				return true
			}
			if rec(nil) {
				c.Res.Extra["completed_levels"] = level
			}
		}
	}
	// fixed histories outside the enumerated alphabet
	for _, h := range fixedHistories {
		mine := c.Mine(idx)
		idx++
		if !mine {
			continue
		}
		f, j, u := run(false, h, vars)
		c.Res.Evaluations += int64(j)
		c.Res.Unjudged += int64(u)
		c.Res.Traces++
		c.Res.States++
		c.Res.Transitions += int64(len(h))
		c.Res.Nontrivial++
		if f != "" {
			c.Violate(fmt.Sprintf("init_real=false hist=[%s] class=%s", opsString(h), class(f)), f, Case{false, h, opsString(h)})
		}
	}
	c.Res.Extra["depth"] = depth
	c.Res.Extra["alphabet"] = len(alpha)
	c.Res.Extra["fixed_histories"] = len(fixedHistories)
	c.Finish()
}

// minimize drops operations while the failure class stays (only used for non-crashing failures).
func minimize(real bool, h []Op, vars []string, cls string) []Op {
	cur := append([]Op(nil), h...)
	for changed := true; changed; {
		changed = false
		for i := range cur {
			cand := append(append([]Op(nil), cur[:i]...), cur[i+1:]...)
			if len(cand) == 0 || !wellFormed(cand) {
				continue
			}
			// a candidate with GC may crash where the original did not: only drop non-mock ops
			// or mock ops; GC/Drop are never *added*, so a crash can only disappear
			if f, _, _ := run(real, cand, vars); f != "" && class(f) == cls {
				cur = cand
				changed = true
				break
			}
		}
	}
	return cur
}

func orOK(s string) string {
	if s == "" {
		return "conforms"
	}
	return s
}
