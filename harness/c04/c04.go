// Package c04 — conditional stubs select results by the first matching condition, else the
// default, else a "no suitable condition" panic.
//
// Engine E: every well-formed stub configuration (default ∈ {none, Return(d)} × clause lists over
// a finite clause alphabet) of eight signatures is installed on the real library with a fresh
// builder; every call tuple over a three-valued domain per parameter type (variadic tails of
// length 0..2) is issued as a real call to the stubbed function and through (*When).Eval, and the
// outcome is compared with an independent reference interpreter of the rule in the statement.
package c04

import (
	"fmt"
	"sort"
	"strings"

	mocker "github.com/tencent/goom"
	"github.com/tencent/goom/arg"
	"verifh/targets/c04t"
	"verifh/vk"
)

// ---------------------------------------------------------------------------------------------
// signatures, domains

type ptype int

const (
	tInt ptype = iota
	tStr
	tIface
	tU64 // uint64 parameter, values above 2^53 that differ only in bits a float64 drops
	tI64 // int64 parameter, values near 2^62
	tIfS // interface{} element of a variadic tail whose value a is itself a slice
)

// dom[t] = the values a, b, c of parameter type t (as the caller passes them). Clause atoms only
// ever mention a and b.
var dom = [6][3]interface{}{
	{1, 2, 3},
	{"a", "b", "c"},
	{1, "b", 3}, // interface{}: pairwise different under any notion of equality
	{uint64(1) << 53, uint64(1)<<53 + 1, uint64(1)<<53 + 2},
	{int64(1) << 62, int64(1)<<62 + 1, int64(1)<<62 + 2},
	{[]int{1, 2}, "b", 3},
}

// atomDom[t] = how a and b are written in a condition: for the 64-bit types as plain int
// literals (the natural way to write When(9007199254740993)), i.e. another numeric class than the
// parameter's.
var atomDom = [6][3]interface{}{
	{1, 2, 3},
	{"a", "b", "c"},
	{1, "b", 3},
	{1 << 53, 1<<53 + 1, 1<<53 + 2},
	{1 << 62, 1<<62 + 1, 1<<62 + 2},
	{[]int{1, 2}, "b", 3},
}

type sigSpec struct {
	name   string
	fixed  []ptype
	tail   int // element type of the variadic tail, -1 = not variadic
	method bool
	handle func(b *mocker.Builder) mocker.ExportedMocker
	call   func(recv int, a []interface{}) int
	probe  callT // the call used to check that the original is back after Reset
}

var recvP = [2]*c04t.S{{ID: 1}, {ID: 2}}
var recvV = [2]c04t.S{{ID: 1}, {ID: 2}}

func ints(a []interface{}) []int {
	if len(a) == 0 {
		return nil
	}
	r := make([]int, len(a))
	for i, x := range a {
		r[i] = x.(int)
	}
	return r
}

func strs(a []interface{}) []string {
	if len(a) == 0 {
		return nil
	}
	r := make([]string, len(a))
	for i, x := range a {
		r[i] = x.(string)
	}
	return r
}

func sigs() []*sigSpec {
	return []*sigSpec{
		{"f1", []ptype{tInt}, -1, false,
			func(b *mocker.Builder) mocker.ExportedMocker { return b.Func(c04t.F1) },
			func(_ int, a []interface{}) int { return c04t.F1(a[0].(int)) }, callT{}},
		{"f2", []ptype{tInt, tStr}, -1, false,
			func(b *mocker.Builder) mocker.ExportedMocker { return b.Func(c04t.F2) },
			func(_ int, a []interface{}) int { return c04t.F2(a[0].(int), a[1].(string)) }, callT{}},
		{"f3", []ptype{tIface, tInt}, -1, false,
			func(b *mocker.Builder) mocker.ExportedMocker { return b.Func(c04t.F3) },
			func(_ int, a []interface{}) int { return c04t.F3(a[0], a[1].(int)) }, callT{}},
		{"u1", []ptype{tU64}, -1, false,
			func(b *mocker.Builder) mocker.ExportedMocker { return b.Func(c04t.U1) },
			func(_ int, a []interface{}) int { return c04t.U1(a[0].(uint64)) }, callT{}},
		{"b1", []ptype{tI64}, -1, false,
			func(b *mocker.Builder) mocker.ExportedMocker { return b.Func(c04t.B1) },
			func(_ int, a []interface{}) int { return c04t.B1(a[0].(int64)) }, callT{}},
		{"M", []ptype{tInt, tInt}, -1, true,
			func(b *mocker.Builder) mocker.ExportedMocker { return b.Struct(&c04t.S{}).Method("M") },
			func(r int, a []interface{}) int { return recvP[r].M(a[0].(int), a[1].(int)) }, callT{}},
		{"V", []ptype{tInt, tInt}, -1, true,
			func(b *mocker.Builder) mocker.ExportedMocker { return b.Struct(c04t.S{}).Method("V") },
			func(r int, a []interface{}) int { return recvV[r].V(a[0].(int), a[1].(int)) }, callT{}},
		{"v0", nil, int(tInt), false,
			func(b *mocker.Builder) mocker.ExportedMocker { return b.Func(c04t.V0) },
			func(_ int, a []interface{}) int { return c04t.V0(ints(a)...) }, callT{}},
		{"v1", []ptype{tInt}, int(tInt), false,
			func(b *mocker.Builder) mocker.ExportedMocker { return b.Func(c04t.V1) },
			func(_ int, a []interface{}) int { return c04t.V1(a[0].(int), ints(a[1:])...) }, callT{}},
		{"vm", []ptype{tInt}, int(tInt), true,
			func(b *mocker.Builder) mocker.ExportedMocker { return b.Struct(&c04t.S{}).Method("VM") },
			func(r int, a []interface{}) int { return recvP[r].VM(a[0].(int), ints(a[1:])...) }, callT{}},
		{"vi", []ptype{tStr}, int(tIfS), false,
			func(b *mocker.Builder) mocker.ExportedMocker { return b.Func(c04t.VI) },
			func(_ int, a []interface{}) int { return c04t.VI(a[0].(string), a[1:]...) }, callT{}},
		{"v2", []ptype{tStr, tInt}, int(tStr), false,
			func(b *mocker.Builder) mocker.ExportedMocker { return b.Func(c04t.V2) },
			func(_ int, a []interface{}) int { return c04t.V2(a[0].(string), a[1].(int), strs(a[2:])...) }, callT{}},
	}
}

func (s *sigSpec) variadic() bool { return s.tail >= 0 }

func (s *sigSpec) recvValue(r int) interface{} {
	if s.name == "M" {
		return recvP[r]
	}
	return recvV[r]
}

func (s *sigSpec) ptypeAt(j int) ptype {
	if j < len(s.fixed) {
		return s.fixed[j]
	}
	return ptype(s.tail)
}

// tuples enumerates all tuples over {0..n-1} whose length is the number of fixed parameters plus a
// tail of 0..2 elements (variadic) — shortest first, then lexicographic.
func (s *sigSpec) tuples(symbols []int) [][]int {
	var out [][]int
	maxTail := 0
	if s.variadic() {
		maxTail = 2
	}
	for tl := 0; tl <= maxTail; tl++ {
		n := len(s.fixed) + tl
		cur := make([]int, n)
		var rec func(p int)
		rec = func(p int) {
			if p == n {
				out = append(out, append([]int(nil), cur...))
				return
			}
			for _, v := range symbols {
				cur[p] = v
				rec(p + 1)
			}
		}
		rec(0)
	}
	return out
}

// ---------------------------------------------------------------------------------------------
// configurations

const (
	aA   = 0 // the plain value a
	aB   = 1 // the plain value b
	aAny = 2 // arg.Any()
	aIn  = 3 // arg.In(a, b)
)

var atomNames = []string{"a", "b", "Any", "In(a,b)"}

const (
	kWhen = "When" // When(e1..en)
	kIn   = "In"   // In([e..], [e..]) with []interface{} alternatives (bare values for one-parameter functions)
	kInT  = "InT"  // In([]int{..}, []int{..}): typed slices, (...T) signatures only, plain values only
	kInM  = "InM"  // In(e, p1, p2, p3, p4): a long candidate list for one-parameter functions; the four
	// padding literals are written like the atoms (plain int / string literals) and never passed by a call
)

// Clause is one condition; When has exactly one alternative.
type Clause struct {
	Kind string  `json:"kind"`
	Alts [][]int `json:"alts"` // atoms: 0=a 1=b 2=Any() 3=In(a,b)
}

// Config is a well-formed stub configuration: optional default first, then the clauses. Clause i
// returns resBase+i, the default returns dflt.
type Config struct {
	Default bool `json:"default"`
	// DefaultTwice: the default is configured by two Return calls (the documented way to build a
	// default sequence; both carry the same value so the expected result does not depend on a cursor)
	DefaultTwice bool     `json:"default_twice,omitempty"`
	Clauses      []Clause `json:"clauses"`
}

const (
	dflt    = 1000
	resBase = 1001
)

// Case is the replayable artefact.
type Case struct {
	Sig     string `json:"sig"`
	Config  Config `json:"config"`
	HasCall bool   `json:"has_call"` // false: the configuration itself panics
	Call    []int  `json:"call"`     // indices into the domain: 0=a 1=b 2=c
	Recv    int    `json:"recv"`
	Text    string `json:"text"`  // human-readable rendering (not parsed)
	Sweep   string `json:"sweep"` // how the call is issued (not parsed)
}

func (s *sigSpec) atom(at int, j int) interface{} {
	d := atomDom[s.ptypeAt(j)]
	switch at {
	case aA:
		return d[0]
	case aB:
		return d[1]
	case aAny:
		return arg.Any()
	}
	return arg.In(d[0], d[1])
}

func (s *sigSpec) callArgs(call []int) []interface{} {
	a := make([]interface{}, len(call))
	for j, v := range call {
		a[j] = dom[s.ptypeAt(j)][v]
	}
	return a
}

// pads are four further candidates of an InM clause: literals of the type the atoms are written in,
// different from every value a call passes.
func (s *sigSpec) pads() []interface{} {
	if s.ptypeAt(0) == tStr {
		return []interface{}{"p1", "p2", "p3", "p4"}
	}
	return []interface{}{1001, 1002, 1003, 1004}
}

func (s *sigSpec) altArg(kind string, alt []int) interface{} {
	if kind == kInT {
		sl := make([]int, len(alt)) // only v0
		for j, at := range alt {
			sl[j] = dom[tInt][at].(int)
		}
		return sl
	}
	if !s.variadic() && len(s.fixed) == 1 {
		return s.atom(alt[0], 0) // documented form In(3, 4) for one-parameter functions
	}
	a := make([]interface{}, len(alt))
	for j, at := range alt {
		a[j] = s.atom(at, j)
	}
	return a
}

// wellFormed: In is only reachable from a *When, so a configuration without default starts with
// a When clause; the empty configuration stubs nothing.
func wellFormed(cfg *Config) bool {
	if !cfg.Default {
		if len(cfg.Clauses) == 0 || cfg.Clauses[0].Kind != kWhen {
			return false
		}
	}
	return true
}

// undecided: without a default the first When goes through the mocker's creation path, for which
// goom documents "as many expressions as the function has parameters". A first When that leaves
// the variadic tail empty has fewer; the statement does not say whether that is a well-formed
// configuration. Executed, never judged.
func (s *sigSpec) undecided(cfg *Config) bool {
	if cfg.Default || len(cfg.Clauses) == 0 || !s.variadic() {
		return false
	}
	return len(cfg.Clauses[0].Alts[0]) <= len(s.fixed)
}

// install performs the configuration on a fresh builder; returns the number of API operations.
func (s *sigSpec) install(b *mocker.Builder, cfg *Config) (w *mocker.When, ops int) {
	h := s.handle(b)
	ops++
	if cfg.Default {
		w = h.Return(dflt)
		ops++
		if cfg.DefaultTwice {
			w = h.Return(dflt)
			ops++
		}
	}
	for i, cl := range cfg.Clauses {
		switch cl.Kind {
		case kWhen:
			a := make([]interface{}, len(cl.Alts[0]))
			for j, at := range cl.Alts[0] {
				a[j] = s.atom(at, j)
			}
			w = h.When(a...).Return(resBase + i)
		default:
			alts := make([]interface{}, len(cl.Alts))
			for k, alt := range cl.Alts {
				alts[k] = s.altArg(cl.Kind, alt)
			}
			if cl.Kind == kInM {
				alts = append(alts, s.pads()...)
			}
			w = w.In(alts...).Return(resBase + i)
		}
		ops += 2
	}
	return w, ops
}

// ---------------------------------------------------------------------------------------------
// reference interpreter (from the statement only)

func accepts(at, v int) bool {
	switch at {
	case aA:
		return v == 0
	case aB:
		return v == 1
	case aAny:
		return true
	}
	return v == 0 || v == 1 // In(a, b)
}

func clauseMatches(cl *Clause, call []int) bool {
next:
	for _, alt := range cl.Alts {
		if len(alt) != len(call) {
			continue
		}
		for j, at := range alt {
			if !accepts(at, call[j]) {
				continue next
			}
		}
		return true
	}
	return false
}

const (
	expDefault = -1
	expNoMatch = -2
)

// reference: index of the first-registered matching clause, else the default, else "no suitable
// condition". The receiver never takes part.
func reference(cfg *Config, call []int) int {
	for i := range cfg.Clauses {
		if clauseMatches(&cfg.Clauses[i], call) {
			return i
		}
	}
	if cfg.Default {
		return expDefault
	}
	return expNoMatch
}

// ---------------------------------------------------------------------------------------------
// observation and judgement

type obs struct {
	panicked bool
	msg      string
	val      interface{}
}

func observe(f func() interface{}) (o obs) {
	defer func() {
		if r := recover(); r != nil {
			o.panicked = true
			o.msg = fmt.Sprint(r)
		}
	}()
	o.val = f()
	return
}

// judge returns "" if the observation is what the reference demands, else the violation kind.
func judge(cfg *Config, call []int, o obs) (kind, msg string) {
	exp := reference(cfg, call)
	if o.panicked {
		if !strings.Contains(o.msg, "no suitable condition") {
			return "panic", vk.Short(o.msg, 50)
		}
		switch {
		case exp == expNoMatch:
			return "", ""
		case exp == expDefault:
			return "default-ignored", ""
		}
		return "missed-match", ""
	}
	v, ok := o.val.(int)
	if !ok {
		return "garbage-result", ""
	}
	switch {
	case v == dflt && cfg.Default:
		if exp == expDefault {
			return "", ""
		}
		return "missed-match", ""
	case v >= resBase && v < resBase+len(cfg.Clauses):
		j := v - resBase
		if j == exp {
			return "", ""
		}
		if !clauseMatches(&cfg.Clauses[j], call) {
			return "false-match", ""
		}
		// a later matching clause was chosen: the first-registered matching clause was passed over
		return "missed-match", ""
	}
	return "garbage-result", ""
}

type verdict struct {
	kind, via, msg string
	culprit        int // clause the verdict is about, -1 none
}

func (v verdict) same(w verdict) bool { return v.kind == w.kind && v.via == w.via && v.msg == w.msg }

// result of running one configuration
type runResult struct {
	cfgPanic string
	ops      int
	matched  bool      // the implementation selected a clause result for at least one call
	verdicts []verdict // one per call (kind "" = conforms); empty if the configuration panicked
	calls    int
	evalOdd  int // Eval of a method/variadic stub that differs from the reference (recorded, not judged)
}

type callT struct {
	recv int
	args []int
}

var origCache = map[string]int{}

// run installs cfg with a fresh builder, issues every call (real call, then Eval), resets and
// checks that the original is back.
func (s *sigSpec) run(cfg *Config, calls []callT) (rr runResult) {
	b := mocker.Create()
	var w *mocker.When
	rr.ops = 1
	msg, panicked := vk.Try(func() {
		var n int
		w, n = s.install(b, cfg)
		rr.ops += n
	})
	if panicked {
		rr.cfgPanic = msg
	} else {
		rr.verdicts = make([]verdict, len(calls))
		for ci, ct := range calls {
			args := s.callArgs(ct.args)
			oc := observe(func() interface{} { return s.call(ct.recv, args) })
			oe := observe(func() interface{} {
				r := w.Eval(args...)
				if len(r) != 1 {
					return fmt.Sprintf("%d results", len(r))
				}
				return r[0]
			})
			rr.ops += 2
			rr.calls++
			if !oc.panicked {
				if v, ok := oc.val.(int); ok && v >= resBase && v < resBase+len(cfg.Clauses) {
					rr.matched = true
				}
			}
			if k, m := judge(cfg, ct.args, oc); k != "" {
				rr.verdicts[ci] = verdict{kind: k, via: "call", msg: m, culprit: culprit(cfg, ct.args, oc)}
			} else if k, m := judge(cfg, ct.args, oe); k != "" {
				if s.method || s.variadic() {
					// The statement speaks of calls. How When.Eval is to be given a receiver or a
					// variadic tail is not stated anywhere, so a deviating Eval is recorded, not judged
					// (on the pinned tree Eval of method and variadic stubs never reaches the clauses).
					rr.evalOdd++
					continue
				}
				rr.verdicts[ci] = verdict{kind: k, via: "eval", msg: m, culprit: culprit(cfg, ct.args, oe)}
			}
		}
	}
	vk.Try(func() { b.Reset() })
	rr.ops++
	// harness sanity: the original must be back, or every later case is poisoned
	probe := s.probe
	key := s.name
	got := observe(func() interface{} { return s.call(probe.recv, s.callArgs(probe.args)) })
	want, ok := origCache[key]
	if !ok {
		vk.Fatalf("no original recorded for %s", key)
	}
	if got.panicked || got.val != want {
		vk.Fatalf("after Reset %s%v does not run the original any more (got %+v, want %d) — config %s", s.name, probe.args, got, want, s.render(cfg))
	}
	return rr
}

// culprit: the clause a matching verdict is about (the one that should have matched, or the one
// that matched wrongly).
func culprit(cfg *Config, call []int, o obs) int {
	if !o.panicked {
		if v, ok := o.val.(int); ok && v >= resBase && v < resBase+len(cfg.Clauses) {
			if j := v - resBase; !clauseMatches(&cfg.Clauses[j], call) {
				return j
			}
		}
	}
	if e := reference(cfg, call); e >= 0 {
		return e
	}
	return -1
}

// ---------------------------------------------------------------------------------------------
// rendering and keys

func (s *sigSpec) renderAlt(kind string, alt []int) string {
	p := make([]string, len(alt))
	for j, at := range alt {
		if at <= aB {
			p[j] = fmt.Sprintf("%#v", dom[s.ptypeAt(j)][at])
		} else if at == aAny {
			p[j] = "Any()"
		} else {
			d := dom[s.ptypeAt(j)]
			p[j] = fmt.Sprintf("arg.In(%#v,%#v)", d[0], d[1])
		}
	}
	return strings.Join(p, ",")
}

func (s *sigSpec) render(cfg *Config) string {
	var sb strings.Builder
	sb.WriteString(s.name)
	if cfg.Default {
		fmt.Fprintf(&sb, ".Return(%d)", dflt)
	}
	for i, cl := range cfg.Clauses {
		switch cl.Kind {
		case kWhen:
			fmt.Fprintf(&sb, ".When(%s)", s.renderAlt(cl.Kind, cl.Alts[0]))
		case kIn:
			a := make([]string, len(cl.Alts))
			for k, alt := range cl.Alts {
				if !s.variadic() && len(s.fixed) == 1 {
					a[k] = s.renderAlt(cl.Kind, alt)
				} else {
					a[k] = "[]interface{}{" + s.renderAlt(cl.Kind, alt) + "}"
				}
			}
			fmt.Fprintf(&sb, ".In(%s)", strings.Join(a, ", "))
		case kInT:
			a := make([]string, len(cl.Alts))
			for k, alt := range cl.Alts {
				a[k] = "[]int{" + s.renderAlt(cl.Kind, alt) + "}"
			}
			fmt.Fprintf(&sb, ".In(%s)", strings.Join(a, ", "))
		case kInM:
			a := []string{s.renderAlt(cl.Kind, cl.Alts[0])}
			for _, p := range s.pads() {
				a = append(a, fmt.Sprintf("%#v", p))
			}
			fmt.Fprintf(&sb, ".In(%s)", strings.Join(a, ", "))
		}
		fmt.Fprintf(&sb, ".Return(%d)", resBase+i)
	}
	return sb.String()
}

func (s *sigSpec) renderCall(ct callT) string {
	a := s.callArgs(ct.args)
	p := make([]string, len(a))
	for i, x := range a {
		p[i] = fmt.Sprintf("%#v", x)
	}
	r := ""
	if s.method {
		r = fmt.Sprintf("recv%d.", ct.recv)
	}
	return fmt.Sprintf("%s%s(%s)", r, s.name, strings.Join(p, ","))
}

func clauseKinds(cfg *Config) string {
	if len(cfg.Clauses) == 0 {
		return "none"
	}
	k := make([]string, len(cfg.Clauses))
	for i, cl := range cfg.Clauses {
		k[i] = cl.Kind
	}
	return strings.Join(k, "+")
}

func atomSet(cls []Clause) string {
	set := map[string]bool{}
	for _, cl := range cls {
		for _, alt := range cl.Alts {
			for _, at := range alt {
				switch at {
				case aA, aB:
					set["val"] = true
				case aAny:
					set["Any"] = true
				case aIn:
					set["In"] = true
				}
			}
		}
	}
	var l []string
	for k := range set {
		l = append(l, k)
	}
	sort.Strings(l)
	if len(l) == 0 {
		return "-"
	}
	return strings.Join(l, ",")
}

func altLengths(cfg *Config) string {
	p := make([]string, len(cfg.Clauses))
	for i, cl := range cfg.Clauses {
		l := make([]string, len(cl.Alts))
		for k, alt := range cl.Alts {
			l[k] = fmt.Sprint(len(alt))
		}
		p[i] = "[" + strings.Join(l, ",") + "]"
	}
	return strings.Join(p, "+")
}

// key: the canonical grouped identity of a minimised violation.
func (s *sigSpec) key(cfg *Config, ct *callT, v verdict) string {
	var sb strings.Builder
	fmt.Fprintf(&sb, "sig=%s kind=%s via=%s clause=%s", s.name, v.kind, v.via, clauseKinds(cfg))
	if v.kind == "panic" {
		fmt.Fprintf(&sb, " msg=%s", v.msg)
		return sb.String()
	}
	fmt.Fprintf(&sb, " atoms=%s", atomSet(cfg.Clauses))
	if s.variadic() {
		fmt.Fprintf(&sb, " alt-lengths=%s call-len=%d", altLengths(cfg), len(ct.args))
	}
	if cfg.Default {
		sb.WriteString(" default=yes")
	}
	if cfg.DefaultTwice {
		sb.WriteString("(two Returns)")
	}
	return sb.String()
}

// class: cheap pre-minimisation grouping, one minimisation per class and worker.
func (s *sigSpec) class(cfg *Config, ct *callT, v verdict) string {
	m := v.msg
	if len(m) > 24 {
		m = m[:24]
	}
	c := fmt.Sprintf("%s|%s|%s|%s|%s", s.name, v.kind, v.via, m, kindSet(cfg))
	if v.culprit >= 0 && v.kind != "panic" {
		cl := cfg.Clauses[v.culprit]
		c += fmt.Sprintf("|%s/%d/%s", cl.Kind, len(cl.Alts), atomSet([]Clause{cl}))
		if ct != nil && s.variadic() {
			c += fmt.Sprintf("/%s/%d", altLengths(&Config{Clauses: []Clause{cl}}), len(ct.args))
		}
	}
	return c
}

func kindSet(cfg *Config) string {
	set := map[string]bool{}
	for _, cl := range cfg.Clauses {
		set[cl.Kind] = true
	}
	var l []string
	for k := range set {
		l = append(l, k)
	}
	sort.Strings(l)
	return strings.Join(l, "+")
}

// ---------------------------------------------------------------------------------------------
// minimisation: greedy, deterministic, strictly decreasing

func cloneCfg(c *Config) *Config {
	n := &Config{Default: c.Default, DefaultTwice: c.DefaultTwice, Clauses: make([]Clause, len(c.Clauses))}
	for i, cl := range c.Clauses {
		n.Clauses[i].Kind = cl.Kind
		n.Clauses[i].Alts = make([][]int, len(cl.Alts))
		for k, a := range cl.Alts {
			n.Clauses[i].Alts[k] = append([]int(nil), a...)
		}
	}
	return n
}

type cand struct {
	cfg *Config
	ct  *callT // nil for configuration-time panics
}

func without(a []int, p int) []int {
	return append(append([]int(nil), a[:p]...), a[p+1:]...)
}

// candidates lists the one-step simplifications of (cfg, call), simplest-making first.
func (s *sigSpec) candidates(cfg *Config, ct *callT) []cand {
	var out []cand
	cpCall := func() *callT {
		if ct == nil {
			return nil
		}
		return &callT{ct.recv, append([]int(nil), ct.args...)}
	}
	// drop a clause
	for i := range cfg.Clauses {
		n := cloneCfg(cfg)
		n.Clauses = append(n.Clauses[:i], n.Clauses[i+1:]...)
		out = append(out, cand{n, cpCall()})
	}
	// a leading When clause that only serves as the entry point: use the default instead
	if !cfg.Default && len(cfg.Clauses) > 1 {
		n := cloneCfg(cfg)
		n.Clauses = n.Clauses[1:]
		n.Default = true
		out = append(out, cand{n, cpCall()})
	}
	// a single Return instead of two
	if cfg.DefaultTwice {
		n := cloneCfg(cfg)
		n.DefaultTwice = false
		out = append(out, cand{n, cpCall()})
	}
	// drop the default
	if cfg.Default {
		n := cloneCfg(cfg)
		n.Default, n.DefaultTwice = false, false
		out = append(out, cand{n, cpCall()})
	}
	// drop an alternative
	for i, cl := range cfg.Clauses {
		if len(cl.Alts) > 1 {
			for k := range cl.Alts {
				n := cloneCfg(cfg)
				n.Clauses[i].Alts = append(n.Clauses[i].Alts[:k], n.Clauses[i].Alts[k+1:]...)
				out = append(out, cand{n, cpCall()})
			}
		}
	}
	if s.variadic() {
		nf := len(s.fixed)
		// shorten everything that has a tail by its last element (clauses and call together)
		{
			n := cloneCfg(cfg)
			c := cpCall()
			ch := false
			for i := range n.Clauses {
				for k, a := range n.Clauses[i].Alts {
					if len(a) > nf {
						n.Clauses[i].Alts[k] = a[:len(a)-1]
						ch = true
					}
				}
			}
			if c != nil && len(c.args) > nf {
				c.args = c.args[:len(c.args)-1]
				ch = true
			}
			if ch {
				out = append(out, cand{n, c})
			}
		}
		// shorten one alternative
		for i, cl := range cfg.Clauses {
			for k, a := range cl.Alts {
				for p := len(a) - 1; p >= nf; p-- {
					n := cloneCfg(cfg)
					n.Clauses[i].Alts[k] = without(a, p)
					out = append(out, cand{n, cpCall()})
				}
			}
		}
		// shorten the call
		if ct != nil {
			for p := len(ct.args) - 1; p >= nf; p-- {
				c := cpCall()
				c.args = without(c.args, p)
				out = append(out, cand{cloneCfg(cfg), c})
			}
		}
	}
	// rename b <-> a at one argument position (clauses and call together) if that makes the case simpler
	maxPos := 0
	for _, cl := range cfg.Clauses {
		for _, a := range cl.Alts {
			if len(a) > maxPos {
				maxPos = len(a)
			}
		}
	}
	if ct != nil && len(ct.args) > maxPos {
		maxPos = len(ct.args)
	}
	for p := 0; p < maxPos; p++ {
		n := cloneCfg(cfg)
		c := cpCall()
		before, after := 0, 0
		for i := range n.Clauses {
			for k, a := range n.Clauses[i].Alts {
				if p < len(a) && a[p] <= aB {
					before += a[p]
					n.Clauses[i].Alts[k][p] = 1 - a[p]
					after += 1 - a[p]
				}
			}
		}
		if c != nil && p < len(c.args) && c.args[p] <= 1 {
			before += c.args[p]
			c.args[p] = 1 - c.args[p]
			after += c.args[p]
		}
		if after < before {
			out = append(out, cand{n, c})
		}
	}
	// simpler atoms: a < b < Any() < In(a,b)
	for i, cl := range cfg.Clauses {
		for k, a := range cl.Alts {
			for p, at := range a {
				for lower := 0; lower < at; lower++ {
					if (cl.Kind == kInT || cl.Kind == kInM) && lower > aB {
						continue
					}
					n := cloneCfg(cfg)
					n.Clauses[i].Alts[k][p] = lower
					out = append(out, cand{n, cpCall()})
				}
			}
		}
	}
	// simpler call values, first receiver
	if ct != nil {
		for p, v := range ct.args {
			for lower := 0; lower < v; lower++ {
				c := cpCall()
				c.args[p] = lower
				out = append(out, cand{cloneCfg(cfg), c})
			}
		}
		if ct.recv > 0 {
			c := cpCall()
			c.recv = 0
			out = append(out, cand{cloneCfg(cfg), c})
		}
	}
	return out
}

// verdictOf installs cfg, issues the whole call sweep in domain order (as the enumeration does,
// so that a verdict that depends on earlier calls of the sweep reproduces) and returns the verdict
// for ct ("" kind = conforms / not judged).
func (s *sigSpec) verdictOf(cfg *Config, ct *callT) verdict {
	if !wellFormed(cfg) || s.undecided(cfg) || (!cfg.Default && len(cfg.Clauses) == 0) {
		return verdict{}
	}
	calls := s.allCalls()
	rr := s.run(cfg, calls)
	if rr.cfgPanic != "" {
		return verdict{kind: "panic", via: "config", msg: vk.Short(rr.cfgPanic, 50), culprit: -1}
	}
	if ct == nil {
		return verdict{}
	}
	for i := range calls {
		if calls[i].recv == ct.recv && fmt.Sprint(calls[i].args) == fmt.Sprint(ct.args) {
			return rr.verdicts[i]
		}
	}
	vk.Fatalf("call %v of %s is not in the domain", ct.args, s.name)
	return verdict{}
}

func (s *sigSpec) minimize(cfg *Config, ct *callT, v verdict) (*Config, *callT, verdict) {
	cur, curCall, curV := cloneCfg(cfg), ct, v
	for changed := true; changed; {
		changed = false
		for _, c := range s.candidates(cur, curCall) {
			if w := s.verdictOf(c.cfg, c.ct); w.kind != "" && w.same(v) {
				cur, curCall, curV, changed = c.cfg, c.ct, w, true
				break
			}
		}
	}
	return cur, curCall, curV
}

// ---------------------------------------------------------------------------------------------
// alphabets and enumeration

// alphabet "Q": When over all four atoms; In with one alternative over all four atoms; In with
// two alternatives over plain values; typed-slice In (one or two alternatives, plain values) for
// (...int). "W": Q without the two-alternative In clauses. "K": When and one-alternative In over
// the atoms {a, Any()}. "k": When over {a, Any()}. The reduced alphabets serve the longest clause
// lists of the widest signatures.
func (s *sigSpec) alphabet(name string) []Clause {
	var out []Clause
	all := s.tuples([]int{aA, aB, aAny, aIn})
	plain := s.tuples([]int{aA, aB})
	if name == "K" || name == "k" {
		red := s.tuples([]int{aA, aAny})
		for _, t := range red {
			out = append(out, Clause{kWhen, [][]int{t}})
		}
		if name == "K" {
			for _, t := range red {
				out = append(out, Clause{kIn, [][]int{t}})
			}
		}
		return out
	}
	for _, t := range all {
		out = append(out, Clause{kWhen, [][]int{t}})
	}
	for _, t := range all {
		out = append(out, Clause{kIn, [][]int{t}})
	}
	if name == "Q" {
		for _, t := range plain {
			for _, u := range plain {
				out = append(out, Clause{kIn, [][]int{t, u}})
			}
		}
	}
	if !s.variadic() && len(s.fixed) == 1 && !s.method {
		for _, t := range plain {
			out = append(out, Clause{kInM, [][]int{t}})
		}
	}
	if s.variadic() && len(s.fixed) == 0 {
		for _, t := range plain {
			out = append(out, Clause{kInT, [][]int{t}})
		}
		if name == "Q" {
			for _, t := range plain {
				for _, u := range plain {
					out = append(out, Clause{kInT, [][]int{t, u}})
				}
			}
		}
	}
	return out
}

// plan: alphabet per clause-list length (index = number of clauses), per tier.
func (s *sigSpec) plan(thorough bool) []string {
	switch s.name {
	case "v2":
		if thorough {
			return []string{"Q", "Q", "W", "k"}
		}
		return []string{"Q", "Q", "K"}
	case "vm", "vi":
		if thorough {
			return []string{"Q", "Q", "Q", "K"}
		}
		return []string{"Q", "Q", "K"}
	case "v1":
		if thorough {
			return []string{"Q", "Q", "Q", "K"}
		}
	case "v0":
		if thorough {
			return []string{"Q", "Q", "Q", "W"}
		}
	default:
		if thorough {
			return []string{"Q", "Q", "Q", "Q"}
		}
	}
	return []string{"Q", "Q", "Q"}
}

func (s *sigSpec) allCalls() []callT {
	var out []callT
	nr := 1
	if s.method {
		nr = 2
	}
	for _, t := range s.tuples([]int{0, 1, 2}) {
		for r := 0; r < nr; r++ {
			out = append(out, callT{r, t})
		}
	}
	return out
}

// Run is the worker entry point.
func Run(c *vk.Ctx) {
	ss := sigs()
	for _, s := range ss {
		calls := s.allCalls()
		s.probe = calls[0]
		o := observe(func() interface{} { return s.call(calls[0].recv, s.callArgs(calls[0].args)) })
		if o.panicked {
			vk.Fatalf("original %s panics: %s", s.name, o.msg)
		}
		origCache[s.name] = o.val.(int)
	}
	if c.Replay != "" {
		replay(c, ss)
		return
	}

	var idx int64
	seenClass := map[string]bool{}
	var nConfigs, nPairs, nUndecided, nCfgPanics int64
	perSig := map[string]int64{}
	space := map[string]interface{}{}

	report := func(s *sigSpec, cfg *Config, ct *callT, v verdict) {
		cl := s.class(cfg, ct, v)
		if seenClass[cl] {
			return
		}
		seenClass[cl] = true
		mc, mct, mv := s.minimize(cfg, ct, v)
		cs := Case{Sig: s.name, Config: *mc, Text: s.render(mc), Sweep: "fresh builder; configuration; every call tuple of the domain in order (shortest first, lexicographic), each as a real call then through Eval; the verdict is the one of 'call'; Reset"}
		desc := ""
		if mct != nil {
			cs.HasCall, cs.Call, cs.Recv = true, mct.args, mct.recv
			cs.Text += " ; " + s.renderCall(*mct)
			exp := reference(mc, mct.args)
			want := "a panic containing 'no suitable condition'"
			if exp == expDefault {
				want = fmt.Sprintf("the default %d", dflt)
			} else if exp >= 0 {
				want = fmt.Sprintf("%d (clause %d is the first that matches)", resBase+exp, exp)
			}
			desc = fmt.Sprintf("%s: %s via %s — expected %s; the library %s", cs.Text, mv.kind, mv.via, want, s.describe(mc, mct, mv))
		} else {
			desc = fmt.Sprintf("%s: the well-formed configuration panics while being set up: %s", cs.Text, mv.msg)
		}
		c.Violate(s.key(mc, mct, mv), desc, cs)
	}

	for _, s := range ss {
		calls := s.allCalls()
		plan := s.plan(c.Thorough())
		alph := map[string][]Clause{}
		for L, an := range plan {
			if _, ok := alph[an]; !ok {
				alph[an] = s.alphabet(an)
			}
			space[fmt.Sprintf("space_%s_len%d", s.name, L)] = fmt.Sprintf("alphabet %s (%d clauses) x default{none,Return,Return+Return} x %d calls", an, len(alph[an]), len(calls))
		}
		for L, an := range plan {
			A := alph[an]
			sel := make([]int, L)
			for {
				for _, defN := range []int{0, 1, 2} {
					def := defN > 0
					cfg := Config{Default: def, DefaultTwice: defN == 2, Clauses: make([]Clause, L)}
					if defN == 2 && L == 0 {
						continue
					}
					for i, k := range sel {
						cfg.Clauses[i] = A[k]
					}
					if !wellFormed(&cfg) {
						continue
					}
					mine := c.Mine(idx)
					idx++
					if !mine {
						continue
					}
					if c.Full() || c.Expired() {
						c.Res.Exhaustive = false // stopped early: violation list full or budget used up
						goto done
					}
					und := s.undecided(&cfg)
					rr := s.run(&cfg, calls)
					nConfigs++
					perSig[s.name]++
					c.Res.Traces++
					c.Res.Transitions += int64(rr.ops)
					if rr.matched {
						c.Res.Nontrivial++
					}
					if nConfigs%4096 == 1 {
						c.Sample(Case{Sig: s.name, Config: cfg, Text: s.render(&cfg)})
					}
					if und {
						nUndecided++
						c.Res.Unjudged += int64(2 * len(calls))
						continue
					}
					if rr.cfgPanic != "" {
						nCfgPanics++
						c.Res.Evaluations++
						report(s, &cfg, nil, verdict{kind: "panic", via: "config", msg: vk.Short(rr.cfgPanic, 50), culprit: -1})
						continue
					}
					nPairs += int64(rr.calls)
					c.Res.Evaluations += int64(2*rr.calls - rr.evalOdd)
					c.Res.Unjudged += int64(rr.evalOdd)
					for ci := range rr.verdicts {
						if rr.verdicts[ci].kind != "" {
							ct := calls[ci]
							report(s, &cfg, &ct, rr.verdicts[ci])
						}
					}
				}
				// next selection
				p := L - 1
				for p >= 0 {
					sel[p]++
					if sel[p] < len(A) {
						break
					}
					sel[p] = 0
					p--
				}
				if p < 0 {
					break
				}
			}
		}
	}
done:
	c.Res.States = nPairs
	c.Res.Extra["n_configs"] = nConfigs
	c.Res.Extra["n_config_call_pairs"] = nPairs
	c.Res.Extra["n_undecided_configs"] = nUndecided
	c.Res.Extra["n_config_time_panics"] = nCfgPanics
	for k, v := range perSig {
		c.Res.Extra["n_configs_"+k] = v
	}
	for k, v := range space {
		c.Res.Extra[k] = v
	}
	c.Finish()
}

func (s *sigSpec) describe(cfg *Config, ct *callT, v verdict) string {
	switch v.kind {
	case "panic":
		return "panicked: " + v.msg
	case "missed-match":
		return "passed that clause over (it returned a later clause's result or the default, or panicked with 'no suitable condition')"
	case "default-ignored":
		return "panicked with 'no suitable condition' although a default is configured"
	case "false-match":
		return fmt.Sprintf("returned the result of clause %d, which does not match", v.culprit)
	}
	return "returned a value that was never configured"
}

func replay(c *vk.Ctx, ss []*sigSpec) {
	var cs Case
	c.LoadReplay(&cs)
	for _, s := range ss {
		if s.name != cs.Sig {
			continue
		}
		cfg := cs.Config
		var ct *callT
		if cs.HasCall {
			ct = &callT{cs.Recv, cs.Call}
		}
		fmt.Printf("replay %s\n", s.render(&cfg))
		v := s.verdictOf(&cfg, ct)
		if ct != nil {
			fmt.Printf("call   %s  (reference: %d)\n", s.renderCall(*ct), reference(&cfg, ct.args))
		}
		if v.kind == "" {
			fmt.Println("result: conforms")
		} else {
			fmt.Printf("result: %s via %s %s\n", v.kind, v.via, v.msg)
			c.Violate("replay", fmt.Sprintf("%s via %s %s", v.kind, v.via, v.msg), cs)
		}
		c.Finish()
		return
	}
	vk.Fatalf("unknown signature %q", cs.Sig)
}
