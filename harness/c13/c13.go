// Package c13 — configuration mistakes are rejected up front and leave nothing patched.
//
// Engine E embedded in H: every mistake of a fixed catalogue is issued on the pristine state and
// after every well-formed C12-style history of depth ≤ 2 (quick) / ≤ 3 (thorough); the oracle
// compares the world before and after the rejected call.
package c13

import (
	"bytes"
	"fmt"

	mocker "github.com/tencent/goom"
	"github.com/tencent/goom/arg"
	"github.com/tencent/goom/erro"
	hwd "verifh/hworld"
	"verifh/targets/hw"
	"verifh/vk"
)

type mistake struct {
	name string
	// do issues the ill-formed configuration on builder b; it may panic or return an error.
	do func(b *mocker.Builder) error
}

// chain describes a mistake made on top of a well-formed configuration: pre configures a target no
// history touches and hands its result to doWith (the mistaken call); post checks afterwards that
// the earlier configuration is still in force exactly as made ("" = yes).
type chain struct {
	pre    func(b *mocker.Builder) interface{}
	doWith func(b *mocker.Builder, ctx interface{}) error
	post   func() string
}

// sharedExpr: an expression object that has served one well-formed configuration (an int32
// parameter) and is then used for a parameter of another size.
func sharedExpr(b *mocker.Builder) interface{} {
	e := arg.Equals(int32(7))
	b.Func(hw.P32).Return(1).When(e).Return(2)
	return e
}

func vfStub(b *mocker.Builder) interface{} { return b.Func(hw.VF).Return(5).When(1, "x").Return(6) }

// chains by mistake name (the catalogue entry of such a mistake has no do of its own).
var chains = map[string]chain{
	"func: When with an expression object of another size that has served a well-formed configuration": {sharedExpr, func(b *mocker.Builder, ctx interface{}) error {
		b.Func(hw.N0).When(ctx).Return(5)
		return nil
	}, func() string { return "" }}, // (what the rejected Resolve does to the shared object is the user's sharing, not judged)
	"variadic func: chained When with fewer arguments than fixed parameters": {vfStub, func(b *mocker.Builder, ctx interface{}) error {
		ctx.(*mocker.When).When(1).Return(7)
		return nil
	}, vfStill},
	"variadic func: chained In with fewer arguments than fixed parameters": {vfStub, func(b *mocker.Builder, ctx interface{}) error {
		ctx.(*mocker.When).In([]interface{}{1}).Return(7)
		return nil
	}, vfStill},
}

func fA(a int) int { return a + 1 }

// vfStill: VF is stubbed with default 5 and When(1,"x") → 6, nothing else.
func vfStill() string {
	var a, b2, c int
	msg, p := vk.Try(func() { a, b2, c = hw.VF(1, "x"), hw.VF(2, "y"), hw.VF(1, "x", 4) })
	if p {
		return "calling the stubbed VF panicked: " + vk.Short(msg, 80)
	}
	if a != 6 || b2 != 5 || c != 5 {
		return fmt.Sprintf("VF(1,x)=%d VF(2,y)=%d VF(1,x,4)=%d, configured 6, 5, 5", a, b2, c)
	}
	return ""
}

func catalogue() []mistake {
	return []mistake{
		{"func: non-function target", func(b *mocker.Builder) error { b.Func(42).Apply(fA); return nil }},
		{"func: callback with one parameter too many", func(b *mocker.Builder) error { b.Func(hw.F0).Apply(func(a, x int) int { return a }); return nil }},
		{"func: callback with no parameter", func(b *mocker.Builder) error { b.Func(hw.F0).Apply(func() int { return 1 }); return nil }},
		{"func: callback with one result too many", func(b *mocker.Builder) error { b.Func(hw.F0).Apply(func(a int) (int, int) { return a, a }); return nil }},
		{"func: callback with no result", func(b *mocker.Builder) error { b.Func(hw.F0).Apply(func(a int) {}); return nil }},
		{"func: callback parameter of different size", func(b *mocker.Builder) error { b.Func(hw.F0).Apply(func(a int8) int { return 1 }); return nil }},
		{"func: callback result of different size", func(b *mocker.Builder) error { b.Func(hw.F0).Apply(func(a int) string { return "" }); return nil }},
		{"func: callback is not a function", func(b *mocker.Builder) error { b.Func(hw.F0).Apply(42); return nil }},
		{"func 2 params: callback second parameter of different size", func(b *mocker.Builder) error { b.Func(hw.F2p).Apply(func(a int, x int16) int { return 1 }); return nil }},
		{"func 2 params: When with too few arguments", func(b *mocker.Builder) error { b.Func(hw.F2p).When(1).Return(5); return nil }},
		{"func 2 results: Return with too few values", func(b *mocker.Builder) error { b.Func(hw.R2).Return(5); return nil }},
		// an interface-typed result: a value that is no such interface (and has another size than an interface value)
		{"func with an error result: Return value that does not implement error", func(b *mocker.Builder) error { b.Func(hw.E1).Return(5); return nil }},
		{"func with an error result: Returns with a value that does not implement error in the second group", func(b *mocker.Builder) error {
			b.Func(hw.E1).Returns(nil, 5)
			return nil
		}},
		// zero of n, handed over as the spread of an empty (non-nil) list - a table of conditions sliced down to nothing
		{"func 2 params: When with an empty list of arguments", func(b *mocker.Builder) error {
			b.Func(hw.F2p).When([]interface{}{}...).Return(5)
			return nil
		}},
		{"func 2 results: Return with an empty list of values", func(b *mocker.Builder) error {
			b.Func(hw.R2).Return([]interface{}{}...)
			return nil
		}},
		{"func 2 results: callback with one result", func(b *mocker.Builder) error { b.Func(hw.R2).Apply(func(a int) int { return a }); return nil }},
		{"func 2 results: second return value of different size", func(b *mocker.Builder) error { b.Func(hw.R2).Return(5, "x"); return nil }},
		{"func: return value smaller than the result", func(b *mocker.Builder) error { b.Func(hw.F0).Return(int8(1)); return nil }},
		{"func: return value larger than the result", func(b *mocker.Builder) error { b.Func(hw.F0).Return("x"); return nil }},
		{"func 2 params: first parameter smaller, absorbed by the alignment of the second", func(b *mocker.Builder) error {
			b.Func(hw.F2p).Apply(func(a int32, x int64) int { return 1 })
			return nil
		}},
		{"func 2 params: bool for int", func(b *mocker.Builder) error { b.Func(hw.F2p).Apply(func(a bool, x int) int { return 1 }); return nil }},
		{"func 2 params: sizes swapped (string,int) for (int,string)-like total", func(b *mocker.Builder) error {
			b.Func(hw.F2p).Apply(func(a int8, x [15]byte) int { return 1 })
			return nil
		}},
		{"func 3 params: sizes permuted", func(b *mocker.Builder) error {
			b.Func(hw.F3p).Apply(func(a int64, x int32, c int8) int { return 1 })
			return nil
		}},
		{"func 2 results: first result smaller, absorbed by alignment", func(b *mocker.Builder) error {
			b.Func(hw.R2).Apply(func(a int) (int32, int64) { return 1, 1 })
			return nil
		}},
		{"func: Returns with an ill-sized value in the second group", func(b *mocker.Builder) error { b.Func(hw.F2p).Returns(5, "x"); return nil }},
		{"func 2 results: Returns with a short second group", func(b *mocker.Builder) error {
			b.Func(hw.R2).Returns([]interface{}{1, 2}, []interface{}{3})
			return nil
		}},
		{"method: Returns with an ill-sized value in the third group", func(b *mocker.Builder) error {
			b.Struct(&hw.S{}).Method("Q").Returns(1, 2, int8(3))
			return nil
		}},
		{"interface: As(..).Returns with an ill-sized value in the second group", func(b *mocker.Builder) error {
			b.Interface(&hw.X).Method("B").As(func(ctx *mocker.IContext, a int) int { return 0 }).Returns(1, "x")
			return nil
		}},
		{"func: origin placeholder is not a function", func(b *mocker.Builder) error { b.Func(hw.G).Origin(42).Apply(fA); return nil }},
		// the same callback mistakes combined with a well-formed origin placeholder
		{"func with origin: callback with one parameter too many", func(b *mocker.Builder) error {
			o := hw.OG
			b.Func(hw.G).Origin(&o).Apply(func(a, x int) int { return a })
			return nil
		}},
		{"func with origin: callback with no parameter", func(b *mocker.Builder) error {
			o := hw.OG
			b.Func(hw.G).Origin(&o).Apply(func() int { return 1 })
			return nil
		}},
		{"func with origin: callback with one result too many", func(b *mocker.Builder) error {
			o := hw.OG
			b.Func(hw.G).Origin(&o).Apply(func(a int) (int, int) { return a, a })
			return nil
		}},
		{"func with origin: callback with no result", func(b *mocker.Builder) error {
			o := hw.OG
			b.Func(hw.G).Origin(&o).Apply(func(a int) {})
			return nil
		}},
		{"func with origin: callback parameter of different size", func(b *mocker.Builder) error {
			o := hw.OG
			b.Func(hw.G).Origin(&o).Apply(func(a int8) int { return 1 })
			return nil
		}},
		{"func with origin: callback result of different size", func(b *mocker.Builder) error {
			o := hw.OG
			b.Func(hw.G).Origin(&o).Apply(func(a int) string { return "" })
			return nil
		}},
		{"func with origin: callback is not a function", func(b *mocker.Builder) error {
			o := hw.OG
			b.Func(hw.G).Origin(&o).Apply(42)
			return nil
		}},
		{"method with origin: callback without the receiver parameter", func(b *mocker.Builder) error {
			o := func(s *hw.S, a int) int { return 0 }
			b.Struct(&hw.S{}).Method("Q").Origin(&o).Apply(fA)
			return nil
		}},
		{"method: unknown method name", func(b *mocker.Builder) error {
			b.Struct(&hw.S{}).Method("Nope").Apply(func(s *hw.S, a int) int { return a })
			return nil
		}},
		{"method: empty method name", func(b *mocker.Builder) error { b.Struct(&hw.S{}).Method(""); return nil }},
		{"method: callback without the receiver parameter", func(b *mocker.Builder) error { b.Struct(&hw.S{}).Method("M").Apply(fA); return nil }},
		{"method: callback result of different size", func(b *mocker.Builder) error {
			b.Struct(&hw.S{}).Method("M").Apply(func(s *hw.S, a int) int8 { return 1 })
			return nil
		}},
		{"method: Return value of different size", func(b *mocker.Builder) error { b.Struct(&hw.S{}).Method("M").Return(int8(1)); return nil }},
		{"unexported method: unknown symbol", func(b *mocker.Builder) error {
			b.Struct(&hw.S{}).ExportMethod("nope").Apply(func(s *hw.S, a int) int { return a })
			return nil
		}},
		{"unexported func: unknown symbol (Apply)", func(b *mocker.Builder) error { b.ExportFunc("nope").Apply(fA); return nil }},
		{"unexported func: unknown symbol (As)", func(b *mocker.Builder) error { b.ExportFunc("nope").As(fA).Return(1); return nil }},
		{"unexported func: empty name", func(b *mocker.Builder) error { b.ExportFunc(""); return nil }},
		// a name that is no symbol of the binary but the tail of one (the import path cut at a '/')
		{"unexported func: import path without its first element (Apply)", func(b *mocker.Builder) error {
			b.Pkg("targets/hw").ExportFunc("g2").Apply(fA)
			return nil
		}},
		{"unexported func: last element of the import path only (As)", func(b *mocker.Builder) error {
			b.Pkg("hw").ExportFunc("g2").As(fA).Return(1)
			return nil
		}},
		{"unexported method: import path without its first element", func(b *mocker.Builder) error {
			b.Pkg("targets/hw").ExportStruct("*S").Method("m").Apply(func(s *hw.S, a int) int { return 1 })
			return nil
		}},
		{"unexported func: As(..).Return value of different size", func(b *mocker.Builder) error { b.ExportFunc("g2").As(fA).Return(int8(1)); return nil }},
		{"interface: non-pointer", func(b *mocker.Builder) error { b.Interface(42).Method("A"); return nil }},
		{"interface: pointer to a non-interface", func(b *mocker.Builder) error { b.Interface(&hw.NotIface).Method("A"); return nil }},
		{"interface: unknown method name", func(b *mocker.Builder) error { b.Interface(&hw.X).Method("Nope"); return nil }},
		{"interface: callback without parameters after the context", func(b *mocker.Builder) error {
			b.Interface(&hw.X).Method("A").Apply(func(ctx *mocker.IContext) int { return 1 })
			return nil
		}},
		{"interface: callback with one parameter too many", func(b *mocker.Builder) error {
			b.Interface(&hw.X).Method("A").Apply(func(ctx *mocker.IContext, a, x int) int { return 1 })
			return nil
		}},
		{"interface: callback with one result too many", func(b *mocker.Builder) error {
			b.Interface(&hw.X).Method("A").Apply(func(ctx *mocker.IContext, a int) (int, int) { return 1, 1 })
			return nil
		}},
		{"interface: callback with no result", func(b *mocker.Builder) error {
			b.Interface(&hw.X).Method("A").Apply(func(ctx *mocker.IContext, a int) {})
			return nil
		}},
		{"interface: callback whose first parameter is not the context", func(b *mocker.Builder) error {
			b.Interface(&hw.X).Method("A").Apply(func(a int, x int) int { return 1 })
			return nil
		}},
		{"interface: As(..).Return value of different size", func(b *mocker.Builder) error {
			b.Interface(&hw.X).Method("A").As(func(ctx *mocker.IContext, a int) int { return 0 }).Return(int8(1))
			return nil
		}},
		{"interface: Return before As", func(b *mocker.Builder) error { b.Interface(&hw.X).Method("B").Return(1); return nil }},
		// the same stub mistakes through As(..).Return: the stub is only checked against the interface when the
		// first clause is installed
		{"interface: As(stub without parameters after the context).Return", func(b *mocker.Builder) error {
			b.Interface(&hw.X).Method("B").As(func(ctx *mocker.IContext) int { return 0 }).Return(1)
			return nil
		}},
		{"interface: As(stub whose first parameter is not the context).Return", func(b *mocker.Builder) error {
			b.Interface(&hw.X).Method("B").As(func(a int, x int) int { return 0 }).Return(1)
			return nil
		}},
		{"interface: As(stub with one result too many).Return", func(b *mocker.Builder) error {
			b.Interface(&hw.X).Method("B").As(func(ctx *mocker.IContext, a int) (int, int) { return 0, 0 }).Return(1, 1)
			return nil
		}},
		{"var: non-pointer", func(b *mocker.Builder) error { b.Var(hw.PlainVar).Set(1); return nil }},
		{"var: Apply with a non-function", func(b *mocker.Builder) error { b.Var(&hw.PlainVar).Apply(42); return nil }},
		{"unexported var: unknown name", func(b *mocker.Builder) error { b.UnExportedVar("verifh/targets/hw.nope").Set(1); return nil }},
		{"func: When with an expression object of another size that has served a well-formed configuration", nil},
		// a condition chained onto an existing stub (see chains)
		{"variadic func: chained When with fewer arguments than fixed parameters", nil},
		{"variadic func: chained In with fewer arguments than fixed parameters", nil},
		// struct- and pointer-typed results given a value of another size
		{"func struct result: Return with a smaller struct", func(b *mocker.Builder) error { b.Func(hw.RS3).Return(struct{ A int }{7}); return nil }},
		{"func struct result: Return with a larger struct", func(b *mocker.Builder) error {
			b.Func(hw.RS3).Return(struct{ A, B, C, D int }{7, 8, 9, 10})
			return nil
		}},
		{"func pointer result: Return with an int32", func(b *mocker.Builder) error { b.Func(hw.RPS).Return(int32(5)); return nil }},
		{"func pointer result: Return with a two-word struct", func(b *mocker.Builder) error {
			b.Func(hw.RPS).Return(struct{ A, B int }{1, 2})
			return nil
		}},
	}
}

var allTargets = []hwd.Target{hwd.TF0, hwd.TM, hwd.TXA, hwd.TG2own, hwd.TG2hw, hwd.TG, hwd.TLm, hwd.TF1}

func prefixAlphabet() []hwd.Op {
	var a []hwd.Op
	add := func(t hwd.Target, ks ...hwd.Kind) {
		for _, k := range ks {
			a = append(a, hwd.Op{B: 0, T: t, K: k})
		}
	}
	add(hwd.TF0, hwd.KApplyA, hwd.KReturn, hwd.KWhenReturn, hwd.KCancel)
	add(hwd.TM, hwd.KApplyA, hwd.KReturn, hwd.KCancel)
	add(hwd.TXA, hwd.KApplyA, hwd.KReturn, hwd.KCancel)
	add(hwd.TG2own, hwd.KApplyA, hwd.KReturn)
	add(hwd.TG, hwd.KApplyO)
	a = append(a, hwd.Op{B: 0, K: hwd.KReset})
	return a
}

// extra (never mocked) observables
func extras() string {
	a, b := hw.R2(3)
	return fmt.Sprint(hw.F2p(3, 4), a, b, hw.NotIface, hw.PlainVar, hw.N0(1), (&hw.S{K: 2}).Q(5), hw.F3p(1, 2, 3))
}

// tryVal runs f and returns the recovered panic value.
func tryVal(f func() error) (val interface{}, panicked bool, err error) {
	defer func() {
		if r := recover(); r != nil {
			val, panicked = r, true
		}
	}()
	err = f()
	return
}

// walk checks that the cause chain of e terminates in a non-nil cause without a cycle and
// that CauseBy agrees for every traceable link.
func walk(e error) string {
	seen := 0
	var last error
	for c := e; c != nil; c = erro.Cause(c) {
		last = c
		seen++
		if seen > 64 {
			return "cause-chain: the cause chain does not terminate (more than 64 links)"
		}
		if t, ok := c.(erro.Traceable); ok {
			if !erro.CauseBy(e, t) {
				return fmt.Sprintf("cause-chain: CauseBy does not find link %d (%T) of the chain", seen, c)
			}
		}
	}
	if last == nil {
		return "cause-chain: empty chain"
	}
	if fmt.Sprintf("%T", last) == "<nil>" {
		return "cause-chain: the chain ends in an untyped nil"
	}
	return ""
}

// Case is the replay artefact.
type Case struct {
	Prefix  []hwd.Op `json:"prefix"`
	Text    string   `json:"text"`
	Mistake string   `json:"mistake"`
}

func runCase(prefix []hwd.Op, mk mistake) (fail string, judged int) {
	checker := func(w *hwd.World, m *hwd.Model, hist []hwd.Op) (string, int, int) {
		do := mk.do
		ch, chained := chains[mk.name]
		if chained {
			ctx := ch.pre(w.B[0])
			do = func(b *mocker.Builder) error { return ch.doWith(b, ctx) }
		}
		before := vk.Copy(hwd.Img.Start, len(hwd.Img.Pristine))
		exBefore := extras()
		val, panicked, err := tryVal(func() error { return do(w.B[0]) })
		n := 1
		if !panicked && err == nil {
			// accepted: is anything different now?
			return fmt.Sprintf("accepted: the ill-formed configuration %q was accepted (no panic, no error)", mk.name), n, 0
		}
		var e error
		if panicked {
			if ev, ok := val.(error); ok {
				e = ev
			}
		} else {
			e = err
		}
		if e != nil {
			n++
			if f := walk(e); f != "" {
				return f + fmt.Sprintf(" (mistake %q, error %T)", mk.name, e), n, 0
			}
		}
		n++
		if !bytes.Equal(vk.Raw(hwd.Img.Start, len(before)), before) {
			return fmt.Sprintf("image-changed: the rejected configuration %q changed the executable image", mk.name), n, 0
		}
		n++
		if ex := extras(); ex != exBefore {
			return fmt.Sprintf("untouched-changed: never-mocked functions/variables changed from %s to %s after the rejected %q", exBefore, ex, mk.name), n, 0
		}
		// the same mistake a second time (a test table, a retry after recover): it must be rejected again
		n++
		if _, p2, e2 := tryVal(func() error { return do(w.B[0]) }); !p2 && e2 == nil {
			return fmt.Sprintf("accepted: the ill-formed configuration %q was rejected the first time and accepted when made again", mk.name), n, 0
		}
		n++
		if !bytes.Equal(vk.Raw(hwd.Img.Start, len(before)), before) {
			return fmt.Sprintf("image-changed: the configuration %q, rejected twice, changed the executable image", mk.name), n, 0
		}
		if ex := extras(); ex != exBefore {
			return fmt.Sprintf("untouched-changed: never-mocked functions/variables changed from %s to %s after the twice rejected %q", exBefore, ex, mk.name), n, 0
		}
		if chained {
			n++
			if pf := ch.post(); pf != "" {
				return fmt.Sprintf("behaviour-changed: after the rejected %q the configuration made before it is no longer in force: %s", mk.name, pf), n, 0
			}
		}
		f, j, u := hwd.Behaviour(w, m, allTargets)
		if f != "" {
			f = "behaviour-changed: after the rejected " + fmt.Sprintf("%q: ", mk.name) + f
		}
		return f, n + j, u
	}
	f, j, _ := hwd.Run(prefix, checker)
	return f, j
}

// Run is the worker entry point.
func Run(c *vk.Ctx) {
	hwd.Init()
	cat := catalogue()
	if c.Replay != "" {
		var cs Case
		c.LoadReplay(&cs)
		for _, mk := range cat {
			if mk.name == cs.Mistake {
				f, _ := runCase(cs.Prefix, mk)
				fmt.Printf("replay prefix=[%s] mistake=%q\nresult: %s\n", hwd.OpsString(cs.Prefix), cs.Mistake, orOK(f))
				if f != "" {
					c.Violate("replay", f, cs)
				}
				c.Finish()
				return
			}
		}
		vk.Fatalf("unknown mistake %q", cs.Mistake)
	}
	depth := 2
	if c.Thorough() {
		depth = 3
	}
	var prefixes [][]hwd.Op
	prefixes = append(prefixes, nil)
	hwd.Enumerate(prefixAlphabet(), depth, func(h []hwd.Op) bool {
		prefixes = append(prefixes, append([]hwd.Op(nil), h...))
		return true
	})
	var idx int64
	for _, p := range prefixes {
		for _, mk := range cat {
			if c.Full() || c.Expired() {
				break
			}
			mine := c.Mine(idx)
			idx++
			if !mine {
				continue
			}
			f, j := runCase(p, mk)
			c.Res.Evaluations += int64(j)
			c.Res.Traces++
			c.Res.States++
			c.Res.Transitions += int64(len(p) + 1)
			if len(p) > 0 {
				c.Res.Nontrivial++
			}
			cs := Case{p, hwd.OpsString(p), mk.name}
			if idx%499 == 1 {
				c.Sample(cs)
			}
			if f != "" {
				// minimise the prefix
				min := p
				for changed := true; changed; {
					changed = false
					for i := range min {
						cand := append(append([]hwd.Op(nil), min[:i]...), min[i+1:]...)
						if !hwd.WellFormed(cand) {
							continue
						}
						if g, _ := runCase(cand, mk); g != "" && hwd.Class(g) == hwd.Class(f) {
							min = cand
							changed = true
							break
						}
					}
				}
				g, _ := runCase(min, mk)
				c.Violate(fmt.Sprintf("mistake=%q after=[%s] class=%s", mk.name, hwd.OpsString(min), hwd.Class(g)), g, Case{min, hwd.OpsString(min), mk.name})
			}
		}
	}
	c.Res.Extra["mistakes"] = len(cat)
	c.Res.Extra["prefix_histories"] = len(prefixes)
	c.Res.Extra["prefix_depth"] = depth
	c.Finish()
}

func orOK(s string) string {
	if s == "" {
		return "conforms"
	}
	return s
}
