package c09

// Two functions whose types print the same - func(model.User) string, func(*model.User) *model.User, declared
// in two packages both called "model" - mocked one after the other (in both orders, by builders of their own):
// every value given to When / Return must be compared and delivered as a value of the declared types of the
// function it was given for, not of the namesake configured earlier in the process.

import (
	"fmt"

	mocker "github.com/tencent/goom"
	v1 "verifh/targets/c06dup/v1/model"
	v2 "verifh/targets/c06dup/v2/model"
	"verifh/vk"
)

func runDupSig(order string) (fail string, judged int64) {
	b1, b2 := mocker.Create(), mocker.Create()
	defer func() {
		vk.Try(func() { b1.Reset() })
		vk.Try(func() { b2.Reset() })
	}()
	u1, u2 := &v1.User{N: 7}, &v2.User{N: 7}
	conf1 := func() {
		b1.Func(v1.Lookup).Return("d1").When(v1.User{N: 1}).Return("c1")
		b1.Func(v1.Find).Return(nil).When(u1).Return(u1)
	}
	conf2 := func() {
		b2.Func(v2.Lookup).Return("d2").When(v2.User{N: 1}).Return("c2")
		b2.Func(v2.Find).Return(nil).When(u2).Return(u2)
	}
	msg, p := vk.Try(func() {
		if order == "v1,v2" {
			conf1()
			conf2()
		} else {
			conf2()
			conf1()
		}
	})
	if p {
		return "config-panic: configuring the second namesake panicked: " + vk.Short(msg, 120), 1
	}
	type probe struct {
		what string
		f    func() string
		want string
	}
	ptr := func(p interface{}, isNil bool, same bool) string { return fmt.Sprintf("nil=%v same=%v", isNil, same) }
	probes := []probe{
		{"v1.Lookup(User{1})", func() string { return v1.Lookup(v1.User{N: 1}) }, "c1"},
		{"v1.Lookup(User{2})", func() string { return v1.Lookup(v1.User{N: 2}) }, "d1"},
		{"v2.Lookup(User{1})", func() string { return v2.Lookup(v2.User{N: 1}) }, "c2"},
		{"v2.Lookup(User{2})", func() string { return v2.Lookup(v2.User{N: 2}) }, "d2"},
		{"v1.Find(u1)", func() string { r := v1.Find(u1); return ptr(r, r == nil, r == u1) }, ptr(nil, false, true)},
		{"v1.Find(other)", func() string { r := v1.Find(&v1.User{N: 8}); return ptr(r, r == nil, r == u1) }, ptr(nil, true, false)},
		{"v2.Find(u2)", func() string { r := v2.Find(u2); return ptr(r, r == nil, r == u2) }, ptr(nil, false, true)},
		{"v2.Find(other)", func() string { r := v2.Find(&v2.User{N: 8}); return ptr(r, r == nil, r == u2) }, ptr(nil, true, false)},
	}
	for _, pr := range probes {
		var got string
		msg, p := vk.Try(func() { got = pr.f() })
		judged++
		if p {
			return fmt.Sprintf("call-panic: %s panicked: %s", pr.what, vk.Short(msg, 120)), judged
		}
		if got != pr.want {
			return fmt.Sprintf("wrong-value: %s gave %q, the configuration of that function says %q", pr.what, got, pr.want), judged
		}
	}
	return "", judged
}
