// Package c09 — stubbed values reach callers unaltered and typed as the function declares.
//
// Engine E, exhaustive table: result/parameter kinds × supplied value classes × {Return, Returns,
// When(value), Eval}. The expected outcome of a cell is derived from the property statement only;
// cells the statement leaves open are executed and counted as unjudged.
package c09

import (
	"encoding/json"
	"fmt"
	"math/big"
	"reflect"
	"sort"
	"strconv"
	"strings"
	"unsafe"

	mocker "github.com/tencent/goom"
	"verifh/targets/c09t"
	"verifh/vk"
)

// ---------------------------------------------------------------------------------------------
// kinds

type retObs struct {
	isNil bool        // "r == nil" evaluated on the statically typed result (false for non-nilable kinds)
	boxed interface{} // the result boxed into interface{}
}

type kindSpec struct {
	name    string
	typ     reflect.Type
	iface   bool
	nilable bool
	retFn   interface{}
	parFn   interface{}
	callRet func() retObs
	callPar func(x interface{}) int
}

// stand-ins declared on the caller's side
type twin struct {
	A int64
	B int32
	C bool
}

type hTwin struct {
	X int64
	Y float64
}

type small struct{ A int32 }

type other16 struct {
	A int32
	B int64
}

// stand-ins of identical layout for the single-pointer-word structs
type w1Twin struct{ Q *c09t.S }
type w1mTwin struct{ N map[string]int }

type s8 struct{ A int64 }
type s24 struct{ A, B, C int64 }

func kinds() []*kindSpec {
	var e error
	var st fmt.Stringer
	var i interface{}
	return []*kindSpec{
		{"ptr", reflect.TypeOf((*c09t.S)(nil)), false, true, c09t.RPtr, c09t.PPtr,
			func() retObs { r := c09t.RPtr(0); return retObs{r == nil, r} },
			func(x interface{}) int { v, _ := x.(*c09t.S); return c09t.PPtr(v) }},
		{"error", reflect.TypeOf(&e).Elem(), true, true, c09t.RErr, c09t.PErrF,
			func() retObs { r := c09t.RErr(0); return retObs{r == nil, r} },
			func(x interface{}) int { v, _ := x.(error); return c09t.PErrF(v) }},
		{"interface{}", reflect.TypeOf(&i).Elem(), true, true, c09t.RIface, c09t.PIface,
			func() retObs { r := c09t.RIface(0); return retObs{r == nil, r} },
			func(x interface{}) int { return c09t.PIface(x) }},
		{"Stringer", reflect.TypeOf(&st).Elem(), true, true, c09t.RStringer, c09t.PStringer,
			func() retObs { r := c09t.RStringer(0); return retObs{r == nil, r} },
			func(x interface{}) int { v, _ := x.(fmt.Stringer); return c09t.PStringer(v) }},
		{"[]byte", reflect.TypeOf([]byte(nil)), false, true, c09t.RBytes, c09t.PBytes,
			func() retObs { r := c09t.RBytes(0); return retObs{r == nil, r} },
			func(x interface{}) int { v, _ := x.([]byte); return c09t.PBytes(v) }},
		{"map", reflect.TypeOf(map[string]int(nil)), false, true, c09t.RMap, c09t.PMap,
			func() retObs { r := c09t.RMap(0); return retObs{r == nil, r} },
			func(x interface{}) int { v, _ := x.(map[string]int); return c09t.PMap(v) }},
		{"chan", reflect.TypeOf((chan int)(nil)), false, true, c09t.RChan, c09t.PChan,
			func() retObs { r := c09t.RChan(0); return retObs{r == nil, r} },
			func(x interface{}) int { v, _ := x.(chan int); return c09t.PChan(v) }},
		{"func", reflect.TypeOf((func() int)(nil)), false, true, c09t.RFunc, c09t.PFunc,
			func() retObs { r := c09t.RFunc(0); return retObs{r == nil, r} },
			func(x interface{}) int { v, _ := x.(func() int); return c09t.PFunc(v) }},
		{"int64", reflect.TypeOf(int64(0)), false, false, c09t.RInt64, c09t.PInt64,
			func() retObs { return retObs{false, c09t.RInt64(0)} },
			func(x interface{}) int { v, _ := x.(int64); return c09t.PInt64(v) }},
		{"string", reflect.TypeOf(""), false, false, c09t.RString, c09t.PString,
			func() retObs { return retObs{false, c09t.RString(0)} },
			func(x interface{}) int { v, _ := x.(string); return c09t.PString(v) }},
		{"struct", reflect.TypeOf(c09t.S{}), false, false, c09t.RStruct, c09t.PStruct,
			func() retObs { return retObs{false, c09t.RStruct(0)} },
			func(x interface{}) int { v, _ := x.(c09t.S); return c09t.PStruct(v) }},
		{"struct1ptr", reflect.TypeOf(c09t.W1{}), false, false, c09t.RW1, c09t.PW1,
			func() retObs { return retObs{false, c09t.RW1(0)} },
			func(x interface{}) int { v, _ := x.(c09t.W1); return c09t.PW1(v) }},
		{"struct1map", reflect.TypeOf(c09t.W1m{}), false, false, c09t.RW1m, c09t.PW1m,
			func() retObs { return retObs{false, c09t.RW1m(0)} },
			func(x interface{}) int { v, _ := x.(c09t.W1m); return c09t.PW1m(v) }},
		{"[2]int", reflect.TypeOf([2]int{}), false, false, c09t.RArray, c09t.PArray,
			func() retObs { return retObs{false, c09t.RArray(0)} },
			func(x interface{}) int { v, _ := x.([2]int); return c09t.PArray(v) }},
		{"hidden", reflect.TypeOf(c09t.MakeHidden(0, 0)), false, false, c09t.RHidden, c09t.PHidden,
			func() retObs { return retObs{false, c09t.RHidden(0)} },
			func(x interface{}) int { return c09t.CallPHidden(x) }},
		{"*hidden", reflect.TypeOf(c09t.MakeHiddenPtr(0, 0)), false, true, c09t.RHiddenPtr, c09t.PHiddenPtr,
			func() retObs { r := c09t.RHiddenPtr(0); return retObs{r == nil, r} },
			func(x interface{}) int { return c09t.CallPHiddenPtr(x) }},
	}
}

// ---------------------------------------------------------------------------------------------
// cells

const (
	mDeliver  = iota // the value must be delivered (and compared) as `want`
	mReject          // the configuration must be refused
	mUnjudged        // the statement does not decide; executed, recorded, never reported
	// mUnaltered: a number of the declared type's size but of another numeric type. Whether it is
	// refused, panics at the call or is accepted is not stated; but if a caller does receive a value
	// it must be the supplied number ("unaltered"), and as a condition it must not select calls whose
	// argument is a different number.
	mUnaltered
)

const (
	clUntypedNil = "untyped-nil"
	clTypedNil   = "typed-nil"
	clZero       = "zero"
	clNonZero    = "non-zero"
	clConcrete   = "concrete-in-interface"
	clStandinS   = "standin-struct"
	clStandinP   = "standin-pointer"
	clSameSize   = "same-size-other-type"
	clSmaller    = "smaller"
	clLarger     = "larger"
)

type nilOfKind struct{} // marker inside negs: "the nil of the declared kind"

type cell struct {
	kind    *kindSpec
	class   string
	label   string
	v       interface{}
	mode    int
	wantNil bool          // expected delivery: the typed zero (nil) of the kind
	want    interface{}   // expected delivery otherwise
	negs    []interface{} // arguments that differ from want in every sense: must not select When(v)
	why     string        // why the cell is not judged
}

func (c *cell) id() string { return c.kind.name + "/" + c.class + "/" + c.label }

// Case is the replayable artefact.
type Case struct {
	Kind  string `json:"kind"`
	Class string `json:"class"`
	Label string `json:"label"`
	Via   string `json:"via"`
	Text  string `json:"text"`
}

func cells(ks []*kindSpec) []*cell {
	k := map[string]*kindSpec{}
	for _, x := range ks {
		k[x.name] = x
	}
	var out []*cell
	deliver := func(kind, class, label string, v, want interface{}, negs ...interface{}) {
		out = append(out, &cell{kind: k[kind], class: class, label: label, v: v, mode: mDeliver, want: want, negs: negs})
	}
	deliverNil := func(kind, class, label string, v interface{}, negs ...interface{}) {
		out = append(out, &cell{kind: k[kind], class: class, label: label, v: v, mode: mDeliver, wantNil: true, negs: negs})
	}
	reject := func(kind, class, label string, v interface{}) {
		out = append(out, &cell{kind: k[kind], class: class, label: label, v: v, mode: mReject})
	}
	open := func(kind, class, label string, v interface{}, why string) {
		out = append(out, &cell{kind: k[kind], class: class, label: label, v: v, mode: mUnjudged, why: why})
	}
	const (
		whyNilNonNilable = "nil for a kind the statement's nil rule does not list"
		whySameSize      = "same size, different type: the statement only rules on values whose size differs"
		whyPointee       = "a pointer stand-in whose pointee has another size: pointer sizes are equal, the statement speaks of the value's size"
		whyNotImpl       = "a value that does not implement the interface result: interface results box values, sizes do not apply"
	)
	nilK := nilOfKind{}

	// *S
	p1, p2 := &c09t.S{A: 1, B: 2, C: true}, &c09t.S{A: 9, B: 9}
	tw := &twin{1, 2, true}
	deliverNil("ptr", clUntypedNil, "nil", nil, p1)
	deliverNil("ptr", clTypedNil, "(*S)(nil)", (*c09t.S)(nil), p1)
	deliver("ptr", clNonZero, "&S{1,2,true}", p1, p1, p2, nilK)
	deliver("ptr", clStandinP, "&twin{1,2,true}", tw, (*c09t.S)(unsafe.Pointer(tw)), p2, nilK)
	open("ptr", clStandinP, "&small{}", &small{}, whyPointee)
	open("ptr", clSameSize, "uintptr(0)", uintptr(0), whySameSize)
	open("ptr", clSameSize, "int64(0)", int64(0), whySameSize)
	reject("ptr", clSmaller, "int32(0)", int32(0))
	reject("ptr", clLarger, "[2]int64{}", [2]int64{})

	// error
	pe, pe2 := &c09t.PErr{Code: 5}, &c09t.PErr{Code: 6}
	deliverNil("error", clUntypedNil, "nil", nil, pe)
	deliver("error", clTypedNil, "(*PErr)(nil)", (*c09t.PErr)(nil), (*c09t.PErr)(nil), pe, nilK)
	deliver("error", clNonZero, "&PErr{5}", pe, pe, pe2, nilK)
	deliver("error", clConcrete, "VErr{3}", c09t.VErr{Code: 3}, c09t.VErr{Code: 3}, c09t.VErr{Code: 4}, nilK)
	open("error", clSameSize, "int64(0)", int64(0), whyNotImpl)

	// interface{}
	deliverNil("interface{}", clUntypedNil, "nil", nil, 42)
	deliver("interface{}", clTypedNil, "(*S)(nil)", (*c09t.S)(nil), (*c09t.S)(nil), p1, nilK)
	deliver("interface{}", clNonZero, "42", 42, 42, 43, nilK)
	deliver("interface{}", clConcrete, "\"s\"", "s", "s", "t", nilK)
	deliver("interface{}", clConcrete, "S{1,2,true}", c09t.S{A: 1, B: 2, C: true}, c09t.S{A: 1, B: 2, C: true}, c09t.S{A: 9, B: 9}, nilK)
	deliver("interface{}", clConcrete, "&S{1,2,true}", p1, p1, p2, nilK)
	deliver("interface{}", clConcrete, "2.5", 2.5, 2.5, 3.5, nilK)
	deliver("interface{}", clConcrete, "[2]int{1,2}", [2]int{1, 2}, [2]int{1, 2}, [2]int{3, 4}, nilK)
	deliver("interface{}", clConcrete, "VErr{3}", c09t.VErr{Code: 3}, c09t.VErr{Code: 3}, c09t.VErr{Code: 4}, nilK)
	deliver("interface{}", clConcrete, "int64(0)", int64(0), int64(0), int64(1), nilK)
	deliver("interface{}", clConcrete, "int64(2^60+1)", int64(1<<60+1), int64(1<<60+1), int64(1<<60+2), int64(1<<60), nilK)
	deliver("interface{}", clConcrete, "uint64(max)", uint64(1<<64-1), uint64(1<<64-1), uint64(1<<64-2), nilK)
	deliver("interface{}", clConcrete, "int(2^53+1)", 1<<53+1, 1<<53+1, 1<<53, 1<<53+2, nilK)

	// fmt.Stringer
	ps, ps2 := &c09t.PStr{N: 5}, &c09t.PStr{N: 6}
	deliverNil("Stringer", clUntypedNil, "nil", nil, ps)
	deliver("Stringer", clTypedNil, "(*PStr)(nil)", (*c09t.PStr)(nil), (*c09t.PStr)(nil), ps, nilK)
	deliver("Stringer", clNonZero, "&PStr{5}", ps, ps, ps2, nilK)
	deliver("Stringer", clConcrete, "VStr{3}", c09t.VStr{N: 3}, c09t.VStr{N: 3}, c09t.VStr{N: 4}, nilK)
	open("Stringer", clSameSize, "int64(0)", int64(0), whyNotImpl)

	// []byte
	bb := []byte("abcd") // b1 is a window of a longer array: other windows start at the same element
	b1, b2 := bb[:2], []byte("zz")
	deliverNil("[]byte", clUntypedNil, "nil", nil, b1, []byte{})
	deliverNil("[]byte", clTypedNil, "[]byte(nil)", []byte(nil), b1, []byte{})
	deliver("[]byte", clNonZero, "[]byte(\"ab\")", b1, b1, b2, bb[:1], bb[:4], bb[:0], nilK)
	open("[]byte", clSameSize, "[3]int64{}", [3]int64{}, whySameSize)
	reject("[]byte", clSmaller, "[2]int64{}", [2]int64{})
	reject("[]byte", clLarger, "[4]int64{}", [4]int64{})

	// map
	m1, m2 := map[string]int{"a": 1}, map[string]int{"b": 2}
	deliverNil("map", clUntypedNil, "nil", nil, m1, map[string]int{})
	deliverNil("map", clTypedNil, "map[string]int(nil)", map[string]int(nil), m1, map[string]int{})
	deliver("map", clNonZero, "map{a:1}", m1, m1, m2, nilK)
	open("map", clSameSize, "uintptr(0)", uintptr(0), whySameSize)
	reject("map", clSmaller, "int32(0)", int32(0))
	reject("map", clLarger, "[2]int64{}", [2]int64{})

	// chan
	c1, c2 := make(chan int), make(chan int)
	deliverNil("chan", clUntypedNil, "nil", nil, c1)
	deliverNil("chan", clTypedNil, "(chan int)(nil)", (chan int)(nil), c1)
	deliver("chan", clNonZero, "make(chan int)", c1, c1, c2, nilK)
	open("chan", clSameSize, "uintptr(0)", uintptr(0), whySameSize)
	reject("chan", clSmaller, "int32(0)", int32(0))
	reject("chan", clLarger, "[2]int64{}", [2]int64{})

	// func
	var fa, fb func() int = c09t.FA, c09t.FB
	deliverNil("func", clUntypedNil, "nil", nil, fa)
	deliverNil("func", clTypedNil, "(func() int)(nil)", (func() int)(nil), fa)
	deliver("func", clNonZero, "FA", fa, fa, fb, nilK)
	open("func", clSameSize, "uintptr(0)", uintptr(0), whySameSize)
	reject("func", clSmaller, "int32(0)", int32(0))
	reject("func", clLarger, "[2]int64{}", [2]int64{})

	// int64
	open("int64", clUntypedNil, "nil", nil, whyNilNonNilable)
	deliver("int64", clZero, "int64(0)", int64(0), int64(0), int64(7))
	deliver("int64", clNonZero, "int64(7)", int64(7), int64(7), int64(8), int64(0))
	unaltered := func(kind, label string, v interface{}, negs ...interface{}) {
		out = append(out, &cell{kind: k[kind], class: clSameSize, label: label, v: v, mode: mUnaltered, negs: negs, why: whySameSize})
	}
	// a value that does not implement the interface although its pointer type does: it may be refused, but what
	// reaches a caller must be that value with its dynamic type intact (never a pointer to a copy)
	out = append(out, &cell{kind: k["error"], class: clConcrete, label: "PErr{5} by value (Error is declared on *PErr)", v: c09t.PErr{Code: 5}, mode: mUnaltered,
		why: "a value that does not implement the interface result may be refused; if it is delivered its dynamic type must be intact"})
	unaltered("int64", "int(7)", 7, int64(8), int64(0))
	unaltered("int64", "uint64(7)", uint64(7), int64(8))
	unaltered("int64", "float64(1.5)", 1.5, int64(1), int64(2))
	unaltered("int64", "float64(2.7)", 2.7, int64(2), int64(3))
	unaltered("int64", "uint64(2^63)", uint64(1)<<63, int64(-1<<63), int64(0))
	unaltered("int64", "float64(2^53+2)", float64(1<<53+2), int64(1<<53+1), int64(1<<53+3))
	reject("int64", clSmaller, "int32(7)", int32(7))
	reject("int64", clSmaller, "int8(7)", int8(7))
	reject("int64", clLarger, "[2]int64{1,2}", [2]int64{1, 2})

	// string
	open("string", clUntypedNil, "nil", nil, whyNilNonNilable)
	deliver("string", clZero, "\"\"", "", "", "s")
	deliver("string", clNonZero, "\"s\"", "s", "s", "t", "")
	open("string", clSameSize, "[2]int64{}", [2]int64{}, whySameSize)
	reject("string", clSmaller, "int64(0)", int64(0))
	reject("string", clLarger, "[3]int64{}", [3]int64{})

	// struct S
	sv, sv2 := c09t.S{A: 1, B: 2, C: true}, c09t.S{A: 9, B: 9}
	open("struct", clUntypedNil, "nil", nil, whyNilNonNilable)
	deliver("struct", clZero, "S{}", c09t.S{}, c09t.S{}, sv)
	deliver("struct", clNonZero, "S{1,2,true}", sv, sv, sv2, c09t.S{})
	deliver("struct", clStandinS, "twin{1,2,true}", twin{1, 2, true}, sv, sv2, c09t.S{})
	deliver("struct", clStandinS, "struct{A int64; B int32; C bool}{1,2,true} (unnamed, assignable)", struct {
		A int64
		B int32
		C bool
	}{1, 2, true}, sv, sv2, c09t.S{})
	open("struct", clSameSize, "[2]int64{}", [2]int64{}, whySameSize)
	open("struct", clSameSize, "other16{}", other16{}, whySameSize+" (same size, other field layout)")
	reject("struct", clSmaller, "s8{}", s8{})
	reject("struct", clLarger, "s24{}", s24{})

	// structs consisting of one pointer-shaped word
	w1p, w1q := &c09t.S{A: 7}, &c09t.S{A: 8}
	deliver("struct1ptr", clZero, "W1{}", c09t.W1{}, c09t.W1{}, c09t.W1{P: w1p})
	deliver("struct1ptr", clNonZero, "W1{&S{7}}", c09t.W1{P: w1p}, c09t.W1{P: w1p}, c09t.W1{P: w1q}, c09t.W1{})
	deliver("struct1ptr", clStandinS, "w1Twin{&S{7}}", w1Twin{Q: w1p}, c09t.W1{P: w1p}, c09t.W1{P: w1q}, c09t.W1{})
	deliver("struct1ptr", clStandinS, "w1Twin{nil}", w1Twin{}, c09t.W1{}, c09t.W1{P: w1p})
	reject("struct1ptr", clLarger, "s24{}", s24{})
	w1m, w1n := map[string]int{"a": 1}, map[string]int{"b": 2}
	deliver("struct1map", clNonZero, "W1m{map a}", c09t.W1m{M: w1m}, c09t.W1m{M: w1m}, c09t.W1m{M: w1n})
	deliver("struct1map", clStandinS, "w1mTwin{map a}", w1mTwin{N: w1m}, c09t.W1m{M: w1m}, c09t.W1m{M: w1n})
	reject("struct1map", clLarger, "s24{}", s24{})

	// [2]int
	open("[2]int", clUntypedNil, "nil", nil, whyNilNonNilable)
	deliver("[2]int", clZero, "[2]int{}", [2]int{}, [2]int{}, [2]int{1, 2})
	deliver("[2]int", clNonZero, "[2]int{1,2}", [2]int{1, 2}, [2]int{1, 2}, [2]int{3, 4}, [2]int{})
	open("[2]int", clSameSize, "struct{A,B int}{}", struct{ A, B int }{}, whySameSize)
	open("[2]int", clSameSize, "[2]uint{}", [2]uint{}, whySameSize)
	reject("[2]int", clSmaller, "int64(0)", int64(0))
	reject("[2]int", clSmaller, "[1]int{}", [1]int{})
	reject("[2]int", clLarger, "[3]int{}", [3]int{})

	// hidden (unnameable struct)
	h0, h1, h2 := c09t.MakeHidden(0, 0), c09t.MakeHidden(1, 2.5), c09t.MakeHidden(9, 9)
	open("hidden", clUntypedNil, "nil", nil, whyNilNonNilable)
	deliver("hidden", clZero, "hidden{}", h0, h0, h1)
	deliver("hidden", clNonZero, "hidden{1,2.5}", h1, h1, h2, h0)
	deliver("hidden", clStandinS, "hTwin{1,2.5}", hTwin{1, 2.5}, h1, h2, h0)
	open("hidden", clSameSize, "[2]int64{}", [2]int64{}, whySameSize)
	reject("hidden", clSmaller, "s8{}", s8{})
	reject("hidden", clLarger, "s24{}", s24{})

	// *hidden
	hp1, hp2 := c09t.MakeHiddenPtr(1, 2.5), c09t.MakeHiddenPtr(9, 9)
	ht := &hTwin{1, 2.5}
	hpt := k["*hidden"].typ
	deliverNil("*hidden", clUntypedNil, "nil", nil, hp1)
	deliverNil("*hidden", clTypedNil, "(*hidden)(nil)", reflect.Zero(hpt).Interface(), hp1)
	deliver("*hidden", clNonZero, "&hidden{1,2.5}", hp1, hp1, hp2, nilK)
	deliver("*hidden", clStandinP, "&hTwin{1,2.5}", ht, reflect.NewAt(hpt.Elem(), unsafe.Pointer(ht)).Interface(), hp2, nilK)
	open("*hidden", clStandinP, "&small{}", &small{}, whyPointee)
	open("*hidden", clSameSize, "uintptr(0)", uintptr(0), whySameSize)
	reject("*hidden", clSmaller, "int32(0)", int32(0))
	reject("*hidden", clLarger, "[2]int64{}", [2]int64{})
	return out
}

// ---------------------------------------------------------------------------------------------
// comparison

// same: identical type, then identity for reference kinds (same pointer / map / channel / func,
// same backing store and length for slices), deep equality otherwise.
func same(a, b interface{}) bool {
	if a == nil || b == nil {
		return a == nil && b == nil
	}
	va, vb := reflect.ValueOf(a), reflect.ValueOf(b)
	if va.Type() != vb.Type() {
		return false
	}
	switch va.Kind() {
	case reflect.Func, reflect.Map, reflect.Ptr, reflect.UnsafePointer, reflect.Chan:
		return va.Pointer() == vb.Pointer()
	case reflect.Slice:
		return va.IsNil() == vb.IsNil() && va.Len() == vb.Len() && (va.Len() == 0 || va.Pointer() == vb.Pointer())
	}
	return reflect.DeepEqual(a, b)
}

func describe(a interface{}) string {
	if a == nil {
		return "untyped nil"
	}
	v := reflect.ValueOf(a)
	switch v.Kind() {
	case reflect.Func, reflect.Map, reflect.Ptr, reflect.Chan, reflect.Slice:
		if v.IsNil() {
			return fmt.Sprintf("%T(nil)", a)
		}
	}
	switch v.Kind() {
	case reflect.Func, reflect.Chan:
		return fmt.Sprintf("a non-nil %T", a)
	case reflect.Ptr:
		return fmt.Sprintf("%T -> %+v", a, v.Elem().Interface())
	}
	return fmt.Sprintf("%T(%+v)", a, a)
}

// shallow describes a value without following pointers.
func shallow(a interface{}) string {
	if a == nil {
		return "untyped nil"
	}
	v := reflect.ValueOf(a)
	switch v.Kind() {
	case reflect.Func, reflect.Map, reflect.Ptr, reflect.Chan, reflect.Slice:
		if v.IsNil() {
			return fmt.Sprintf("%T(nil)", a)
		}
		return fmt.Sprintf("a non-nil %T", a)
	}
	return fmt.Sprintf("a %T", a)
}

// checkDelivered: "" or what is wrong with a delivered result.
func (c *cell) checkDelivered(o retObs) string {
	if c.wantNil {
		if !o.isNil {
			return "not-nil"
		}
		return ""
	}
	if o.boxed != nil && c.want != nil && reflect.TypeOf(o.boxed) != reflect.TypeOf(c.want) {
		return "wrong-type:" + reflect.TypeOf(o.boxed).String()
	}
	if !same(o.boxed, c.want) {
		return "wrong-value"
	}
	return ""
}

// checkEvalResult: Eval hands results back as interface{}: a nil result may come back untyped or
// as the typed nil of the kind.
func (c *cell) checkEvalResult(r interface{}) string {
	if c.wantNil {
		if r == nil {
			return ""
		}
		v := reflect.ValueOf(r)
		if v.Type() == c.kind.typ && v.IsNil() {
			return ""
		}
		return "not-nil"
	}
	if r != nil && reflect.TypeOf(r) != reflect.TypeOf(c.want) {
		return "wrong-type:" + reflect.TypeOf(r).String()
	}
	if !same(r, c.want) {
		return "wrong-value"
	}
	return ""
}

// argument values for the parameter side
func (c *cell) posArg() interface{} {
	if c.wantNil {
		return nil // callPar turns it into the typed zero
	}
	return c.want
}

func (c *cell) evalArg(x interface{}) interface{} {
	if _, isNil := x.(nilOfKind); isNil || x == nil {
		if c.kind.iface {
			return nil
		}
		return reflect.Zero(c.kind.typ).Interface()
	}
	return x
}

func (c *cell) callArg(x interface{}) interface{} {
	if _, isNil := x.(nilOfKind); isNil {
		return nil
	}
	return x
}

// ---------------------------------------------------------------------------------------------
// execution

type finding struct {
	via     string
	outcome string // canonical, goes into the key
	detail  string
}

type runner struct {
	c       *vk.Ctx
	origRet map[string]interface{}
	judged  int64
	ops     int64
}

func short(msg string) string { return vk.Short(msg, 60) }

const (
	stubDefault = 100
	stubClause  = 200
)

func (r *runner) sanity(k *kindSpec, where string) {
	o, msg, p := tryRet(k)
	if p || !same(o.boxed, r.origRet[k.name]) {
		vk.Fatalf("after Reset (%s) the result function of kind %s does not run the original (%v %s)", where, k.name, o.boxed, msg)
	}
	n, msg, p := tryPar(k, nil)
	if p || n != -1 {
		vk.Fatalf("after Reset (%s) the parameter function of kind %s does not run the original (%d %s)", where, k.name, n, msg)
	}
}

func tryRet(k *kindSpec) (o retObs, msg string, panicked bool) {
	msg, panicked = vk.Try(func() { o = k.callRet() })
	return
}

func tryPar(k *kindSpec, x interface{}) (n int, msg string, panicked bool) {
	msg, panicked = vk.Try(func() { n = k.callPar(x) })
	return
}

// viaReturn covers Return (seq=false) or Returns (seq=true) and, for Return, Eval of the result.
func (r *runner) viaReturn(c *cell, seq bool) (fs []finding, log []string) {
	via := "Return"
	if seq {
		via = "Returns"
	}
	k := c.kind
	b := mocker.Create()
	defer func() {
		vk.Try(func() { b.Reset() })
		r.ops++
		r.sanity(k, c.id()+" "+via)
	}()
	var w *mocker.When
	msg, p := vk.Try(func() {
		if seq {
			w = b.Func(k.retFn).Returns(c.v, c.v)
		} else {
			w = b.Func(k.retFn).Return(c.v)
		}
	})
	r.ops += 3
	if c.mode == mReject {
		r.judged++
		if p {
			log = append(log, via+": rejected ("+short(msg)+")")
			return
		}
		o, cm, cp := tryRet(k)
		r.ops++
		d := "the call then returned " + describe(o.boxed)
		if cp {
			d = "the call then panicked: " + short(cm)
		}
		fs = append(fs, finding{via, "accepted", "a value whose size differs from the declared type was accepted by " + via + "; " + d})
		return
	}
	if p && c.mode == mUnaltered {
		log = append(log, via+": not accepted")
		return
	}
	if p {
		r.judged++
		log = append(log, via+": panic at configuration: "+short(msg))
		fs = append(fs, finding{via, "panic-at-config:" + short(msg), via + " panicked: " + short(msg)})
		return
	}
	n := 1
	if seq {
		n = 2
	}
	for i := 0; i < n; i++ {
		o, cm, cp := tryRet(k)
		r.ops++
		r.judged++
		if cp && c.mode == mUnaltered {
			log = append(log, via+": panic at call")
			return
		}
		if cp {
			log = append(log, via+": panic at call: "+short(cm))
			fs = append(fs, finding{via, "panic-at-call:" + short(cm), fmt.Sprintf("call %d panicked: %s", i+1, short(cm))})
			return
		}
		if c.mode == mUnaltered {
			log = append(log, via+": delivered")
			if !sameValueOrNumber(c.v, o.boxed) {
				fs = append(fs, finding{via, "altered", fmt.Sprintf("call %d delivered %s for the supplied %s: a different number", i+1, describe(o.boxed), describe(c.v))})
				return
			}
			continue
		}
		if c.mode == mUnjudged {
			log = append(log, via+": delivered "+shallow(o.boxed)) // never look inside a reinterpretation
			continue
		}
		log = append(log, via+": delivered "+describe(o.boxed))
		if c.mode == mDeliver {
			if bad := c.checkDelivered(o); bad != "" {
				fs = append(fs, finding{via, bad, fmt.Sprintf("call %d delivered %s (r == nil: %v), expected %s", i+1, describe(o.boxed), o.isNil, c.wantText())})
				return
			}
		}
	}
	if seq || c.mode == mUnjudged || c.mode == mUnaltered {
		// (no Eval on a cell that is not judged: the stored value may be a reinterpretation that
		// nothing should look into)
		return
	}
	// Eval of the stub: the result converted back
	var res []interface{}
	msg, p = vk.Try(func() { res = w.Eval(0) })
	r.ops++
	r.judged++
	if p {
		log = append(log, "Eval(Return): panic: "+short(msg))
		fs = append(fs, finding{"Eval(Return)", "panic:" + short(msg), "Eval panicked: " + short(msg)})
		return
	}
	if len(res) != 1 {
		fs = append(fs, finding{"Eval(Return)", "wrong-arity", fmt.Sprintf("Eval returned %d results", len(res))})
		return
	}
	log = append(log, "Eval(Return): "+describe(res[0]))
	if c.mode == mDeliver {
		if bad := c.checkEvalResult(res[0]); bad != "" {
			fs = append(fs, finding{"Eval(Return)", bad, fmt.Sprintf("Eval returned %s, expected %s", describe(res[0]), c.wantText())})
		}
	}
	return
}

// sameNumber compares two numeric values of possibly different numeric types exactly.
func sameNumber(a, b interface{}) bool {
	rat := func(x interface{}) *big.Rat {
		v := reflect.ValueOf(x)
		switch v.Kind() {
		case reflect.Int, reflect.Int8, reflect.Int16, reflect.Int32, reflect.Int64:
			return new(big.Rat).SetInt64(v.Int())
		case reflect.Uint, reflect.Uint8, reflect.Uint16, reflect.Uint32, reflect.Uint64, reflect.Uintptr:
			return new(big.Rat).SetInt(new(big.Int).SetUint64(v.Uint()))
		case reflect.Float32, reflect.Float64:
			r, _ := new(big.Rat).SetString(strconv.FormatFloat(v.Float(), 'f', -1, 64))
			return r
		}
		return nil
	}
	ra, rb := rat(a), rat(b)
	return ra != nil && rb != nil && ra.Cmp(rb) == 0
}

func (c *cell) wantText() string {
	if c.wantNil {
		return "the nil of " + c.kind.name
	}
	return describe(c.want)
}

// viaWhen: the value as an argument condition — an equal argument selects the clause, a different
// one does not; both as real calls and through Eval.
func (r *runner) viaWhen(c *cell) (fs []finding, log []string) {
	k := c.kind
	b := mocker.Create()
	defer func() {
		vk.Try(func() { b.Reset() })
		r.ops++
		r.sanity(k, c.id()+" When")
	}()
	var w *mocker.When
	msg, p := vk.Try(func() { w = b.Func(k.parFn).Return(stubDefault).When(c.v).Return(stubClause) })
	r.ops += 5
	if c.mode == mReject {
		r.judged++
		if p {
			log = append(log, "When: rejected ("+short(msg)+")")
			return
		}
		fs = append(fs, finding{"When", "accepted", "a value whose size differs from the declared parameter type was accepted by When"})
		return
	}
	if p && c.mode == mUnaltered {
		log = append(log, "When: not accepted")
		return
	}
	if p {
		r.judged++
		log = append(log, "When: panic at configuration: "+short(msg))
		fs = append(fs, finding{"When", "panic-at-config:" + short(msg), "When panicked: " + short(msg)})
		return
	}
	if c.mode == mUnjudged {
		log = append(log, "When: accepted")
		return
	}
	if c.mode == mUnaltered {
		log = append(log, "When: accepted")
		for _, neg := range c.negs {
			n, _, cp := tryPar(k, neg)
			r.ops++
			r.judged++
			if !cp && n == stubClause {
				fs = append(fs, finding{"When", "different-argument-selected", "a call whose argument is " + describe(neg) + " selected the clause for the condition value " + describe(c.v)})
				return
			}
		}
		return
	}
	// real calls
	n, cm, cp := tryPar(k, c.posArg())
	r.ops++
	r.judged++
	switch {
	case cp:
		fs = append(fs, finding{"When", "panic-at-call:" + short(cm), "the call with the equal argument panicked: " + short(cm)})
		return
	case n == stubDefault:
		fs = append(fs, finding{"When", "equal-argument-not-selected", "a call whose argument is " + c.wantText() + " got the default instead of the clause"})
		return
	case n != stubClause:
		fs = append(fs, finding{"When", "garbage-result", fmt.Sprintf("the call returned %d", n)})
		return
	}
	for _, neg := range c.negs {
		n, cm, cp := tryPar(k, c.callArg(neg))
		r.ops++
		r.judged++
		switch {
		case cp:
			fs = append(fs, finding{"When", "panic-at-call:" + short(cm), "a call with a different argument panicked: " + short(cm)})
			return
		case n == stubClause:
			fs = append(fs, finding{"When", "different-argument-selected", "a call whose argument is " + describe(c.evalArg(neg)) + " selected the clause for " + c.wantText()})
			return
		case n != stubDefault:
			fs = append(fs, finding{"When", "garbage-result", fmt.Sprintf("the call returned %d", n)})
			return
		}
	}
	log = append(log, "When: equal argument selects, different arguments do not")
	// the same through Eval
	ev := func(x interface{}) (int, string, bool) {
		var res []interface{}
		msg, p := vk.Try(func() { res = w.Eval(x) })
		r.ops++
		r.judged++
		if p {
			return 0, msg, true
		}
		if len(res) != 1 {
			return -2, "", false
		}
		v, _ := res[0].(int)
		return v, "", false
	}
	n, cm, cp = ev(c.evalArg(c.posArg()))
	switch {
	case cp:
		fs = append(fs, finding{"Eval(When)", "panic:" + short(cm), "Eval with the equal argument panicked: " + short(cm)})
		return
	case n == stubDefault:
		fs = append(fs, finding{"Eval(When)", "equal-argument-not-selected", "Eval with " + c.wantText() + " got the default"})
		return
	case n != stubClause:
		fs = append(fs, finding{"Eval(When)", "garbage-result", fmt.Sprintf("Eval returned %d", n)})
		return
	}
	for _, neg := range c.negs {
		n, cm, cp := ev(c.evalArg(neg))
		switch {
		case cp:
			fs = append(fs, finding{"Eval(When)", "panic:" + short(cm), "Eval with a different argument panicked: " + short(cm)})
			return
		case n == stubClause:
			fs = append(fs, finding{"Eval(When)", "different-argument-selected", "Eval with " + describe(c.evalArg(neg)) + " selected the clause"})
			return
		case n != stubDefault:
			fs = append(fs, finding{"Eval(When)", "garbage-result", fmt.Sprintf("Eval returned %d", n)})
			return
		}
	}
	log = append(log, "Eval(When): agrees")
	return
}

func (r *runner) runCell(c *cell, only string) (fs []finding, log []string) {
	note, _ := json.Marshal(map[string]string{"__key": fmt.Sprintf("kind=%s class=%s value=%s", c.kind.name, c.class, c.label), "kind": c.kind.name, "class": c.class, "label": c.label})
	r.c.Note(string(note))
	add := func(f []finding, l []string) {
		fs = append(fs, f...)
		log = append(log, l...)
	}
	if only == "" || only == "Return" || only == "Eval(Return)" {
		add(r.viaReturn(c, false))
	}
	if only == "" || only == "Returns" {
		add(r.viaReturn(c, true))
	}
	if only == "" || only == "When" || only == "Eval(When)" {
		add(r.viaWhen(c))
	}
	return
}

// ---------------------------------------------------------------------------------------------
// two results / two parameters: values are converted by position

type pairCase struct {
	label  string
	v1, v2 interface{}
	want1  []byte // nil: the nil slice is expected
	want2  error  // nil: "err == nil" is expected
}

func pairCases() []pairCase {
	b1 := []byte("ab")
	pe := &c09t.PErr{Code: 5}
	return []pairCase{
		{"(nil,nil)", nil, nil, nil, nil},
		{"(nil,&PErr{5})", nil, pe, nil, pe},
		{"([]byte(\"ab\"),nil)", b1, nil, b1, nil},
		{"([]byte(\"ab\"),VErr{3})", b1, c09t.VErr{Code: 3}, b1, c09t.VErr{Code: 3}},
		{"([]byte(nil),(*PErr)(nil))", []byte(nil), (*c09t.PErr)(nil), nil, (*c09t.PErr)(nil)},
	}
}

func (pc *pairCase) check(r1 []byte, r2 error) string {
	if pc.want1 == nil && r1 != nil || pc.want1 != nil && !same(r1, pc.want1) {
		return "first-result-wrong"
	}
	if pc.want2 == nil && r2 != nil || pc.want2 != nil && !same(r2, pc.want2) {
		return "second-result-wrong"
	}
	return ""
}

func (r *runner) runPair(pc *pairCase, only string) (fs []finding) {
	note, _ := json.Marshal(map[string]string{"__key": "kind=pair class=by-position value=" + pc.label, "kind": "pair", "class": "by-position", "label": pc.label})
	r.c.Note(string(note))
	reset := func(b *mocker.Builder) {
		vk.Try(func() { b.Reset() })
		r.ops++
		var n int
		var b0 []byte
		_, p := vk.Try(func() { b0, _ = c09t.RPair(0); n = c09t.PPair(nil, nil) })
		if p || n != -1 || string(b0) != "orig" {
			vk.Fatalf("after Reset (pair %s) the originals are not back", pc.label)
		}
	}
	for _, via := range []string{"Return", "Returns"} {
		if only != "" && only != via {
			continue
		}
		func() {
			b := mocker.Create()
			defer reset(b)
			msg, p := vk.Try(func() {
				if via == "Return" {
					b.Func(c09t.RPair).Return(pc.v1, pc.v2)
				} else {
					b.Func(c09t.RPair).Returns([]interface{}{pc.v1, pc.v2}, []interface{}{pc.v1, pc.v2})
				}
			})
			r.ops += 3
			if p {
				r.judged++
				fs = append(fs, finding{via, "panic-at-config:" + short(msg), via + " panicked: " + short(msg)})
				return
			}
			n := 1
			if via == "Returns" {
				n = 2
			}
			for i := 0; i < n; i++ {
				var r1 []byte
				var r2 error
				msg, p := vk.Try(func() { r1, r2 = c09t.RPair(0) })
				r.ops++
				r.judged++
				if p {
					fs = append(fs, finding{via, "panic-at-call:" + short(msg), "the call panicked: " + short(msg)})
					return
				}
				if bad := pc.check(r1, r2); bad != "" {
					fs = append(fs, finding{via, bad, fmt.Sprintf("call %d delivered (%s, %s)", i+1, describe(r1), describe(r2))})
					return
				}
			}
		}()
	}
	if only == "" || only == "When" {
		func() {
			b := mocker.Create()
			defer reset(b)
			msg, p := vk.Try(func() { b.Func(c09t.PPair).Return(stubDefault).When(pc.v1, pc.v2).Return(stubClause) })
			r.ops += 5
			if p {
				r.judged++
				fs = append(fs, finding{"When", "panic-at-config:" + short(msg), "When panicked: " + short(msg)})
				return
			}
			var n, m int
			msg, p = vk.Try(func() {
				n = c09t.PPair(pc.want1, pc.want2)
				m = c09t.PPair([]byte("zz"), &c09t.PErr{Code: 6})
			})
			r.ops += 2
			r.judged += 2
			switch {
			case p:
				fs = append(fs, finding{"When", "panic-at-call:" + short(msg), "a call panicked: " + short(msg)})
			case n != stubClause:
				fs = append(fs, finding{"When", "equal-arguments-not-selected", fmt.Sprintf("the call with equal arguments returned %d", n)})
			case m != stubDefault:
				fs = append(fs, finding{"When", "different-arguments-selected", fmt.Sprintf("the call with different arguments returned %d", m)})
			}
		}()
	}
	return
}

func key(c *cell, f finding) string {
	return fmt.Sprintf("kind=%s class=%s value=%s via=%s outcome=%s", c.kind.name, c.class, c.label, f.via, f.outcome)
}

// Run is the worker entry point.
func Run(c *vk.Ctx) {
	ks := kinds()
	r := &runner{c: c, origRet: map[string]interface{}{}}
	for _, k := range ks {
		o, msg, p := tryRet(k)
		if p {
			vk.Fatalf("original of %s panics: %s", k.name, msg)
		}
		r.origRet[k.name] = o.boxed
	}
	cs := cells(ks)
	seen := map[string]bool{}
	for _, cl := range cs {
		if cl.kind == nil {
			vk.Fatalf("cell without kind")
		}
		if seen[cl.id()] {
			vk.Fatalf("duplicate cell %s", cl.id())
		}
		seen[cl.id()] = true
	}

	if c.Replay != "" {
		var rc Case
		c.LoadReplay(&rc)
		if rc.Kind == "dupsig" {
			f, _ := runDupSig(rc.Label)
			fmt.Printf("replay kind=dupsig order=%s\nresult: %s\n", rc.Label, map[bool]string{true: "conforms", false: f}[f == ""])
			if f != "" {
				c.Violate("replay dupsig", f, rc)
			}
			c.Finish()
			return
		}
		if rc.Kind == "pair" {
			for _, pc := range pairCases() {
				if pc.label == rc.Label {
					fs := r.runPair(&pc, rc.Via)
					fmt.Printf("replay kind=pair value=%s via=%s\n", rc.Label, rc.Via)
					for _, f := range fs {
						fmt.Printf("result: %s via %s — %s\n", f.outcome, f.via, f.detail)
						c.Violate("replay "+f.via, f.detail, rc)
					}
					if len(fs) == 0 {
						fmt.Println("result: conforms")
					}
					c.Finish()
					return
				}
			}
			vk.Fatalf("unknown pair case %s", rc.Label)
		}
		for _, cl := range cs {
			if cl.kind.name == rc.Kind && cl.class == rc.Class && cl.label == rc.Label {
				fs, log := r.runCell(cl, rc.Via)
				fmt.Printf("replay kind=%s class=%s value=%s via=%s\n", rc.Kind, rc.Class, rc.Label, rc.Via)
				for _, l := range log {
					fmt.Println("  " + l)
				}
				if cl.mode == mUnjudged {
					fmt.Println("result: cell is not judged: " + cl.why)
					fs = nil
				}
				hit := false
				for _, f := range fs {
					if rc.Via == "" || f.via == rc.Via {
						fmt.Printf("result: %s via %s — %s\n", f.outcome, f.via, f.detail)
						c.Violate("replay "+f.via, f.detail, rc)
						hit = true
					}
				}
				if !hit {
					fmt.Println("result: conforms")
				}
				c.Finish()
				return
			}
		}
		vk.Fatalf("unknown cell %s/%s/%s", rc.Kind, rc.Class, rc.Label)
	}

	unj := map[string]string{}
	var nDeliver, nReject, nUnjudged, nChecks int64
	perClass := map[string]int64{}
	for idx, cl := range cs {
		if !c.Mine(int64(idx)) {
			continue
		}
		if c.Full() || c.Expired() {
			break
		}
		before, opsBefore := r.judged, r.ops
		fs, log := r.runCell(cl, "")
		c.Res.Traces += 3
		c.Res.Transitions += r.ops - opsBefore
		perClass[cl.class]++
		cs0 := Case{Kind: cl.kind.name, Class: cl.class, Label: cl.label, Text: fmt.Sprintf("%s result/parameter, supplied %s", cl.kind.name, cl.label)}
		c.Sample(cs0)
		if cl.mode == mUnjudged {
			nUnjudged++
			c.Res.Unjudged += r.judged - before
			sort.Strings(log)
			unj[cl.id()] = cl.why + " — observed: " + strings.Join(log, "; ")
			continue
		}
		c.Res.Evaluations += r.judged - before
		nChecks += r.judged - before
		if cl.mode == mReject {
			c.Res.States += 3 // Return, Returns, When
		} else {
			c.Res.States += 5 // Return, Eval(Return), Returns, When, Eval(When)
		}
		if cl.mode == mDeliver {
			nDeliver++
		} else {
			nReject++
		}
		if len(fs) == 0 && cl.mode == mDeliver {
			c.Distinct(cl.id())
		}
		for _, f := range fs {
			cc := cs0
			cc.Via = f.via
			exp := "must be delivered as " + cl.wantText()
			if cl.mode == mReject {
				exp = "has another size than the declared type and must be rejected at configuration time"
			}
			if cl.mode == mUnaltered {
				exp = "is a number of another numeric type of the same size: it may be refused, but whatever reaches a caller must be that number"
			}
			c.Violate(key(cl, f), fmt.Sprintf("%s %s: supplied %s %s; via %s: %s", cl.kind.name, cl.class, cl.label, exp, f.via, f.detail), cc)
		}
	}
	pcs := pairCases()
	for i := range pcs {
		pc := &pcs[i]
		if !c.Mine(int64(len(cs) + i)) {
			continue
		}
		before, opsBefore := r.judged, r.ops
		fs := r.runPair(pc, "")
		c.Res.Traces += 3
		c.Res.Transitions += r.ops - opsBefore
		c.Res.Evaluations += r.judged - before
		nChecks += r.judged - before
		c.Res.States += 3
		nDeliver++
		perClass["by-position"]++
		cs0 := Case{Kind: "pair", Class: "by-position", Label: pc.label, Text: "([]byte, error) results/parameters, supplied " + pc.label}
		if len(fs) == 0 {
			c.Distinct("pair/" + pc.label)
		}
		for _, f := range fs {
			cc := cs0
			cc.Via = f.via
			c.Violate(fmt.Sprintf("kind=pair class=by-position value=%s via=%s outcome=%s", pc.label, f.via, f.outcome),
				fmt.Sprintf("([]byte, error) supplied %s must be delivered position by position as declared; via %s: %s", pc.label, f.via, f.detail), cc)
		}
	}
	for i, order := range []string{"v1,v2", "v2,v1"} {
		if !c.Mine(int64(len(cs) + len(pcs) + i)) {
			continue
		}
		f, j := runDupSig(order)
		c.Res.Traces++
		c.Res.States++
		c.Res.Transitions += 12
		c.Res.Evaluations += j
		nChecks += j
		perClass["same-printed-signature"]++
		cs0 := Case{Kind: "dupsig", Class: "same-printed-signature", Label: order, Text: "functions of two packages whose types print the same, configured in the order " + order}
		if f == "" {
			c.Distinct("dupsig/" + order)
			continue
		}
		c.Violate(fmt.Sprintf("kind=dupsig class=same-printed-signature order=%s outcome=%s", order, f[:indexColon(f)]), f, cs0)
	}
	c.Res.Extra["n_cells_deliver"] = nDeliver
	c.Res.Extra["n_cells_reject"] = nReject
	c.Res.Extra["n_cells_unjudged"] = nUnjudged
	c.Res.Extra["n_checks"] = nChecks
	for k, v := range perClass {
		c.Res.Extra["n_cells_class_"+k] = v
	}
	for k, v := range unj {
		c.Res.Extra["unjudged "+k] = v
	}
	c.Finish()
}

func indexColon(s string) int {
	for i := 0; i < len(s); i++ {
		if s[i] == ':' {
			return i
		}
	}
	return len(s)
}

// sameValueOrNumber: numbers are compared exactly across numeric types, everything else with same().
func sameValueOrNumber(a, b interface{}) bool {
	isNum := func(x interface{}) bool {
		if x == nil {
			return false
		}
		switch reflect.ValueOf(x).Kind() {
		case reflect.Int, reflect.Int8, reflect.Int16, reflect.Int32, reflect.Int64, reflect.Uint, reflect.Uint8, reflect.Uint16, reflect.Uint32, reflect.Uint64, reflect.Uintptr, reflect.Float32, reflect.Float64:
			return true
		}
		return false
	}
	if isNum(a) && isNum(b) {
		return sameNumber(a, b)
	}
	return same(a, b)
}
