// Package c20 — executable stub space is never handed out twice or outside its reserve.
//
// seq : engine H — every request-size sequence (≤ 4) on the fallback allocator directly and
//
//	through Acquire with the mmap seam answering ok/fail independently per request.
//
// conc: engine S — all interleavings (unbounded, state-cached) of 2–3 requester threads.
package c20

import (
	"bytes"
	"fmt"
	"strings"

	zz "github.com/tencent/goom/zzverif/c20"
	"github.com/tencent/goom/zzverif/sched"
	"github.com/tencent/goom/zzverif/vsys"
	"verifh/sx"
	"verifh/vk"
)

var (
	min, max   uintptr
	R          int
	symLo      uintptr
	symHi      uintptr
	img        *vk.Image
	pristineHo []byte
)

func initWorld() {
	var off uintptr
	min, max, off = zz.Bounds()
	if off != min {
		vk.Fatalf("reserve already used at start (off-min=%d)", off-min)
	}
	R = int(max - min)
	symLo, symHi = vk.FuncExtent(min)
	img = vk.Snapshot()
	pristineHo = vk.Copy(min, R)
}

// sizeName renders a request size relative to R.
func sizes() ([]int, []string) {
	return []int{0, 1, 20, 48, R / 2, R - 48, R, R + 1, 1<<47 + 1}, []string{"0", "1", "20", "48", "R/2", "R-48", "R", "R+1", "2^47+1"}
}

type region struct {
	lo, hi uintptr
}

// liveRegion is a region handed out in this history (space is nil on the direct fallback path).
type liveRegion struct {
	addr  uintptr
	n     int
	space *zz.Space
}

func resetWorld() {
	zz.SetOff(min)
	if !bytes.Equal(vk.Raw(min, R), pristineHo) {
		if err := zz.WriteTo(min, pristineHo); err != nil {
			vk.Fatalf("restore reserve: %v", err)
		}
	}
	// regions obtained through mmap are never given back: the allocator may keep carving the
	// same mapping in later histories (the driver bounds the cases per process instead)
	vsys.ResetLog()
}

// everMapped holds every region the mmap path has handed out in this process, by page.
var everMapped = map[uintptr][]region{}

// claimMapped records r and reports an earlier region (of any history) it overlaps.
func claimMapped(r region) (region, bool) {
	const ps = 4096
	for p := r.lo &^ (ps - 1); p < r.hi; p += ps {
		for _, o := range everMapped[p] {
			if r.lo < o.hi && o.lo < r.hi {
				return o, true
			}
		}
	}
	for p := r.lo &^ (ps - 1); p < r.hi; p += ps {
		everMapped[p] = append(everMapped[p], r)
	}
	return region{}, false
}

// SeqCase is the replay artefact of the sequential part.
type SeqCase struct {
	Sub     string   `json:"sub"`
	Mode    string   `json:"mode"` // "holder" | "acquire"
	Sizes   []string `json:"sizes"`
	MmapOK  []bool   `json:"mmap_ok,omitempty"`
}

func pattern(n int, salt byte) []byte {
	if n > 4096 {
		n = 4096 // write at most one page worth of bytes per region (start) – plus the tail below
	}
	b := make([]byte, n)
	for i := range b {
		b[i] = byte(i)*7 + salt
	}
	return b
}

// runSeq executes one sequence; returns failure text or "".
func runSeq(mode string, reqs []int, mmapOK []bool) (fail string) {
	defer resetWorld()
	resetWorld()
	vsys.MmapFail = nil
	if mode == "acquire" {
		vsys.MmapFail = func(n int) bool { return n < len(mmapOK) && !mmapOK[n] }
	}
	defer func() { vsys.MmapFail = nil }()
	modelOff := min
	var got []region
	var live []liveRegion
	for step, n := range reqs {
		var (
			addr  uintptr
			sp    *[]byte
			err   error
			space *zz.Space
			typ   = zz.TypeHolder
		)
		msg, panicked := vk.Try(func() {
			if mode == "holder" {
				addr, sp, err = zz.AcquireFromHolder(n)
			} else {
				space, err = zz.Acquire(n)
				if err == nil {
					addr, sp, typ = space.Addr, space.Space, zz.Type(space)
				}
			}
		})
		if panicked {
			return fmt.Sprintf("step %d request %d panicked: %s", step, n, vk.Short(msg, 120))
		}
		// model
		expectMmap := mode == "acquire" && mmapOK[step] && n > 0 && n < 1<<40
		fits := n >= 0 && uint64(modelOff-min)+uint64(n) <= uint64(R)
		if err != nil {
			if expectMmap {
				// the kernel itself may refuse; nothing to judge except that no region was returned
				continue
			}
			if fits {
				return fmt.Sprintf("step %d: request of %d bytes fails (%v) although %d bytes of the reserve are free", step, n, err, int(max-modelOff))
			}
			continue
		}
		if typ == zz.TypeHolder {
			if !fits {
				return fmt.Sprintf("step %d: request of %d bytes succeeded although only %d bytes of the reserve are free", step, n, int(max-modelOff))
			}
			modelOff += uintptr(n)
		}
		if sp == nil || len(*sp) < n {
			return fmt.Sprintf("step %d: region shorter than requested (%d)", step, n)
		}
		r := region{addr, addr + uintptr(n)}
		if typ == zz.TypeHolder && n > 0 {
			if r.lo < min || r.hi > max {
				return fmt.Sprintf("step %d: region [min%+d,min%+d) outside the reserve [min,min+%d)", step, int(r.lo)-int(min), int(r.hi)-int(min), R)
			}
			if r.lo < symLo || r.hi > symHi {
				return fmt.Sprintf("step %d: region leaves the Placeholder symbol (extent %d bytes)", step, symHi-symLo)
			}
		}
		for _, o := range got {
			if n > 0 && o.hi > o.lo && r.lo < o.hi && o.lo < r.hi {
				return fmt.Sprintf("step %d: region overlaps an earlier one", step)
			}
		}
		got = append(got, r)
		if n > 0 && n <= 1<<16 {
			live = append(live, liveRegion{addr, n, space})
		}
		if typ != zz.TypeHolder && n > 0 && n <= 1<<20 {
			if o, clash := claimMapped(r); clash {
				return fmt.Sprintf("step %d: region overlaps a region of %d bytes handed out in an earlier history of this process (nothing is ever released)", step, int(o.hi-o.lo))
			}
		}
		if n > 0 {
			if p := vk.PermAt(vk.Maps(), addr); !strings.Contains(p, "x") {
				return fmt.Sprintf("step %d: region not executable (%s)", step, p)
			}
			data := pattern(n, byte(step+1))
			var werr error
			if mode == "holder" {
				werr = zz.WriteTo(addr, data)
			} else {
				werr = zz.Write(space, data)
			}
			if werr != nil {
				return fmt.Sprintf("step %d: write failed: %v", step, werr)
			}
			if !bytes.Equal(vk.Raw(addr, len(data)), data) {
				return fmt.Sprintf("step %d: bytes read back differ from bytes written", step)
			}
			if n > len(data) { // last byte of a large region is writable too
				if mode == "acquire" && typ == zz.TypeMMap {
					(*sp)[n-1] = 0xA5
				}
			}
		}
	}
	// second pass, last region first: every region is filled completely (a writer that spills over the
	// end of its region damages the region behind it, which was written before); then all regions
	// are read back and the part of the reserve that was never handed out must still be pristine
	fills := make([][]byte, len(live))
	for i := len(live) - 1; i >= 0; i-- {
		lr := live[i]
		data := make([]byte, lr.n)
		for j := range data {
			data[j] = byte(j)*13 + byte(i)*29 + 5
		}
		fills[i] = data
		var werr error
		if lr.space != nil {
			werr = zz.Write(lr.space, data)
		} else {
			werr = zz.WriteTo(lr.addr, data)
		}
		if werr != nil {
			return fmt.Sprintf("second pass: writing region %d (%d bytes) failed: %v", i, lr.n, werr)
		}
	}
	for i, lr := range live {
		if got := vk.Raw(lr.addr, lr.n); !bytes.Equal(got, fills[i]) {
			first := 0
			for first < lr.n && got[first] == fills[i][first] {
				first++
			}
			return fmt.Sprintf("second pass: region %d (%d bytes) no longer holds what was written to it (from byte %d on) after the regions before it were written: a write went beyond its own region", i, lr.n, first)
		}
	}
	{
		off := int(modelOff - min)
		if off >= 0 && off < R && !bytes.Equal(vk.Raw(min+uintptr(off), R-off), pristineHo[off:]) {
			return fmt.Sprintf("second pass: bytes of the reserve behind the last region handed out ([min+%d, min+%d)) changed", off, R)
		}
	}
	// nothing outside the reserve changed
	if bad := vk.OutsideAllowed(img.Diff(), []vk.Range{{Lo: min, Hi: max}}); len(bad) > 0 {
		return fmt.Sprintf("bytes outside the reserve changed: %v", relRanges(bad))
	}
	return ""
}

func relRanges(rs []vk.Range) []string {
	var s []string
	for _, r := range rs {
		s = append(s, fmt.Sprintf("[min%+d,min%+d)", int(r.Lo)-int(min), int(r.Hi)-int(min)))
	}
	return s
}

func seq(c *vk.Ctx) {
	sz, names := sizes()
	maxLen := 3
	if c.Thorough() {
		maxLen = 4
	}
	var idx int64
	for _, mode := range []string{"holder", "acquire"} {
		var rec func(prefix []int)
		rec = func(prefix []int) {
			if c.Full() || c.Expired() {
				return
			}
			if len(prefix) > 0 {
				npat := 1
				if mode == "acquire" {
					npat = 1 << len(prefix)
				}
				for pat := 0; pat < npat; pat++ {
					mine := c.Mine(idx)
					idx++
					if !mine {
						continue
					}
					reqs := make([]int, len(prefix))
					rn := make([]string, len(prefix))
					ok := make([]bool, len(prefix))
					for i, p := range prefix {
						reqs[i], rn[i] = sz[p], names[p]
						ok[i] = pat&(1<<i) != 0
					}
					cs := SeqCase{"seq", mode, rn, nil}
					if mode == "acquire" {
						cs.MmapOK = ok
					}
					f := runSeq(mode, reqs, ok)
					c.Res.Evaluations++
					c.Res.Traces++
					c.Res.Transitions += int64(len(prefix))
					c.Res.States++
					nontriv := false
					for _, r := range reqs {
						if r > 0 && r <= R {
							nontriv = true
						}
					}
					if nontriv {
						c.Res.Nontrivial++
					}
					c.Sample(cs)
					if f != "" {
						c.Violate(fmt.Sprintf("seq mode=%s sizes=%s mmap_ok=%v class=%s", mode, strings.Join(rn, ","), cs.MmapOK, sx.Class(stripStep(f))), f, cs)
					}
				}
			}
			if len(prefix) == maxLen {
				return
			}
			for o := range sz {
				rec(append(prefix[:len(prefix):len(prefix)], o))
			}
		}
		rec(nil)
	}
}

func stripStep(f string) string {
	if strings.HasPrefix(f, "step ") {
		if i := strings.Index(f, ": "); i > 0 {
			return f[i+2:]
		}
	}
	return f
}

// ConcCase is the replay artefact of the concurrent part.
type ConcCase struct {
	Sub      string     `json:"sub"`
	Via      string     `json:"via"` // "holder" | "acquire-mmap-fails"
	Threads  [][]string `json:"threads"`
	Schedule []int      `json:"schedule"`
}

type concResult struct {
	n    int
	addr uintptr
	ln   int
	err  bool
	pan  string
}

func concScenario(via string, reqs [][]int) (sched.Scenario, func() [][]concResult) {
	var results [][]concResult
	sc := sched.Scenario{
		Name: fmt.Sprintf("c20/%s/%v", via, reqs),
		Setup: func() []func() {
			resetWorld()
			if via != "holder" {
				vsys.MmapFail = func(int) bool { return true }
			} else {
				vsys.MmapFail = nil
			}
			results = make([][]concResult, len(reqs))
			bodies := make([]func(), len(reqs))
			for ti := range reqs {
				ti := ti
				bodies[ti] = func() {
					for k, n := range reqs[ti] {
						if k > 0 {
							sched.Yield("between-requests")
						}
						var r concResult
						r.n = n
						if via == "holder" {
							a, sp, err := zz.AcquireFromHolder(n)
							r.addr, r.err = a, err != nil
							if sp != nil {
								r.ln = len(*sp)
							}
						} else {
							s, err := zz.Acquire(n)
							r.err = err != nil
							if s != nil {
								r.addr, r.ln = s.Addr, len(*s.Space)
							}
						}
						results[ti] = append(results[ti], r)
					}
				}
			}
			return bodies
		},
		Horizon: 2000,
	}
	sc.Check = func(x *sched.Execution) string {
		for ti, p := range x.Panics {
			if p != "" {
				return fmt.Sprintf("panic: thread %d: %s", ti, vk.Short(p, 160))
			}
		}
		total := 0
		var regs []region
		for _, rs := range results {
			for _, r := range rs {
				total += r.n
			}
		}
		for ti, rs := range results {
			if len(rs) != len(reqs[ti]) {
				return fmt.Sprintf("incomplete: thread %d completed %d of %d requests", ti, len(rs), len(reqs[ti]))
			}
			for k, r := range rs {
				if r.err {
					if total <= R {
						return fmt.Sprintf("spurious-error: thread %d request %d (%d bytes) failed although all requests together (%d) fit the reserve (%d)", ti, k, r.n, total, R)
					}
					continue
				}
				if r.ln < r.n {
					return fmt.Sprintf("short: thread %d request %d: region of %d bytes for a request of %d", ti, k, r.ln, r.n)
				}
				g := region{r.addr, r.addr + uintptr(r.n)}
				if g.lo < min || g.hi > max {
					return fmt.Sprintf("outside: thread %d request %d: region [min%+d,min%+d) leaves the reserve of %d bytes", ti, k, int(g.lo)-int(min), int(g.hi)-int(min), R)
				}
				for _, o := range regs {
					if g.lo < o.hi && o.lo < g.hi {
						return fmt.Sprintf("overlap: thread %d request %d: region [min%+d,min%+d) overlaps a region handed to another request [min%+d,min%+d)", ti, k, int(g.lo)-int(min), int(g.hi)-int(min), int(o.lo)-int(min), int(o.hi)-int(min))
					}
				}
				regs = append(regs, g)
			}
		}
		return ""
	}
	return sc, func() [][]concResult { return results }
}

func conc(c *vk.Ctx) {
	base := []int{48, R / 2, R}
	names := map[int]string{48: "48", R / 2: "R/2", R: "R"}
	// per-thread request lists of length 1..2
	var lists [][]int
	for _, a := range base {
		lists = append(lists, []int{a})
	}
	for _, a := range base {
		for _, b := range base {
			lists = append(lists, []int{a, b})
		}
	}
	type cfgT struct {
		via  string
		reqs [][]int
	}
	var cfgs []cfgT
	vias := []string{"holder"}
	if c.Thorough() {
		vias = append(vias, "acquire-mmap-fails")
	}
	for _, via := range vias {
		for _, a := range lists {
			for _, b := range lists {
				cfgs = append(cfgs, cfgT{via, [][]int{a, b}})
			}
		}
		l3 := lists[:3]
		if c.Thorough() {
			l3 = lists
		}
		for _, a := range l3 {
			for _, b := range l3 {
				for _, d := range l3 {
					cfgs = append(cfgs, cfgT{via, [][]int{a, b, d}})
				}
			}
		}
	}
	outcomes := map[string]bool{}
	for i, cf := range cfgs {
		if c.Full() || c.Expired() {
			break
		}
		if !c.Mine(int64(i)) {
			continue
		}
		sc, results := concScenario(cf.via, cf.reqs)
		tn := make([][]string, len(cf.reqs))
		for ti, l := range cf.reqs {
			for _, n := range l {
				tn[ti] = append(tn[ti], names[n])
			}
		}
		cs := ConcCase{"conc", cf.via, tn, nil}
		c.Sample(cs)
		mk := func(bound int, cache bool) sx.Config {
			return sx.Config{
				Scenario: sc, Bound: bound, Cache: cache,
				Outcome: func(x *sched.Execution) string {
					var sb strings.Builder
					for _, rs := range results() {
						for _, r := range rs {
							if r.err {
								sb.WriteString("E,")
							} else {
								fmt.Fprintf(&sb, "%d,", int(r.addr)-int(min))
							}
						}
						sb.WriteString("|")
					}
					return sb.String()
				},
				Key:  fmt.Sprintf("conc via=%s threads=%v", cf.via, tn),
				Case: func(s []int) interface{} { cc := cs; cc.Schedule = s; return cc },
			}
		}
		// iterated preemption bound first (the first counter-example then has the fewest
		// preemptions), then the complete interleaving space with state caching
		var res sx.Result
		cont := true
		for _, b := range []int{0, 1, 2, -1} {
			res, cont = sx.Explore(c, mk(b, b < 0))
			if res.Failure != "" || !cont {
				break
			}
		}
		for o := range res.Outcomes {
			outcomes[fmt.Sprint(tn)+o] = true
		}
		if !cont {
			break
		}
	}
	c.Res.Extra["n_distinct_outcomes"] = len(outcomes)
	c.Res.Extra["n_scenarios_total"] = 0
	c.Res.Extra["scenarios"] = len(cfgs)
}

// Run is the worker entry point.
func Run(c *vk.Ctx) {
	initWorld()
	c.Res.Extra["reserve_bytes"] = R
	if c.Replay != "" {
		replay(c)
		c.Finish()
		return
	}
	switch c.Sub {
	case "seq":
		seq(c)
	case "conc":
		conc(c)
	default:
		vk.Fatalf("unknown sub %q", c.Sub)
	}
	c.Finish()
}

func parseSize(s string) int {
	sz, names := sizes()
	for i, n := range names {
		if n == s {
			return sz[i]
		}
	}
	vk.Fatalf("bad size %q", s)
	return 0
}

func replay(c *vk.Ctx) {
	var probe struct {
		Sub string `json:"sub"`
	}
	c.LoadReplay(&probe)
	if probe.Sub == "seq" {
		var cs SeqCase
		c.LoadReplay(&cs)
		reqs := make([]int, len(cs.Sizes))
		for i, s := range cs.Sizes {
			reqs[i] = parseSize(s)
		}
		ok := cs.MmapOK
		if ok == nil {
			ok = make([]bool, len(reqs))
		}
		f := runSeq(cs.Mode, reqs, ok)
		fmt.Printf("replay seq mode=%s sizes=%v mmap_ok=%v\nresult: %s\n", cs.Mode, cs.Sizes, cs.MmapOK, orOK(f))
		if f != "" {
			c.Violate("replay", f, cs)
		}
		return
	}
	var cs ConcCase
	c.LoadReplay(&cs)
	reqs := make([][]int, len(cs.Threads))
	for ti, l := range cs.Threads {
		for _, s := range l {
			reqs[ti] = append(reqs[ti], parseSize(s))
		}
	}
	sc, results := concScenario(cs.Via, reqs)
	x, f := sched.RunOnce(sc, cs.Schedule, false)
	fmt.Printf("replay conc via=%s threads=%v schedule=%v\n", cs.Via, cs.Threads, cs.Schedule)
	for i, p := range x.Points {
		fmt.Printf("  point %2d: ran T%d (was at %-28s) enabled=%v\n", i, p.Chosen, p.Kind, p.Enabled)
	}
	for ti, rs := range results() {
		for k, r := range rs {
			fmt.Printf("  T%d request %d (%d bytes): err=%v region=[min%+d,min%+d)\n", ti, k, r.n, r.err, int(r.addr)-int(min), int(r.addr)-int(min)+r.n)
		}
	}
	fmt.Printf("result: %s\n", orOK(f))
	if f != "" {
		c.Violate("replay", f, cs)
	}
}

func orOK(s string) string {
	if s == "" {
		return "conforms"
	}
	return s
}
