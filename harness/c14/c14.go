// Package c14 — a patch touches only the target's entry bytes and leaves pages read+execute.
//
// Engine E, four exhaustive enumerations on the real library (sub-jobs):
//
//	dry    every function of the binary as a prospective target (patch.Ptr, never applied): whenever
//	       goom accepts, entry+jumpLen must not pass the next function's entry; synthetic entries
//	       end−k (k = 1..jumpLen+2) inside the int3 padding of 50 functions: k < jumpLen must be refused.
//	live   ≈ 400 generated functions (1 byte … 6 KiB of code) × operation sequences
//	       (patch/apply/unpatch/…, with and without an origin placeholder): after every operation the
//	       whole .text image is diffed against the pristine snapshot.
//	xpage  memory.WriteTo into the never-executed body of stub.Placeholder around every page
//	       boundary inside it: every offset × every length.
//
// After every operation of every part the permissions of all file-backed mappings of the program
// image (/proc/self/maps) must equal the ones at start-up (text r-x, nothing newly writable).
package c14

import (
	"bytes"
	"encoding/json"
	"fmt"
	"os"
	"reflect"
	"runtime"
	"runtime/debug"
	"sort"
	"strings"
	"syscall"

	g14 "github.com/tencent/goom/zzverif/c14"
	"verifh/targets/c14corpus"
	"verifh/vk"
)

// Case is the replayable artefact.
type Case struct {
	Part string `json:"part"` // dry-func | dry-synth | live | xpage

	// dry-func / dry-synth / live: the function (name + ordinal among equally named table entries)
	Target  string `json:"target,omitempty"`
	Ordinal int    `json:"ordinal,omitempty"`
	K       int    `json:"k,omitempty"` // dry-synth: synthetic entry = end − k

	Seq         string `json:"seq,omitempty"`         // live: sequence name
	Placeholder string `json:"placeholder,omitempty"` // live: origin placeholder function

	Boundary int `json:"boundary,omitempty"` // xpage: index of the page boundary inside the placeholder body
	Off      int `json:"off,omitempty"`      // xpage: start of the write relative to the boundary
	Len      int `json:"len,omitempty"`      // xpage: number of bytes
	Pattern  int `json:"pattern,omitempty"`  // xpage: data pattern

	Bytes string `json:"bytes,omitempty"` // handmade: the instruction head (hex); K = slot size
}

type fn struct {
	entry, next uintptr
	name        string
	ordinal     int
}

type world struct {
	c    *vk.Ctx
	im   *vk.Image
	L    int
	exe  string
	perm []permSeg // permissions of the image's file-backed mappings at start-up
	tab  []fn

	nPermChecks, nDiffs int64
}

// ---------------------------------------------------------------- function table

func (w *world) buildTable() {
	var cur uintptr
	for pc := w.im.Start; pc < w.im.End; pc++ {
		f := runtime.FuncForPC(pc)
		if f == nil {
			continue
		}
		e := f.Entry()
		if e == cur {
			continue
		}
		cur = e
		if e < w.im.Start || e > pc {
			vk.Fatalf("runtime reports entry %#x for pc %#x", e, pc)
		}
		if n := len(w.tab); n > 0 {
			w.tab[n-1].next = e
		}
		w.tab = append(w.tab, fn{entry: e, next: w.im.End, name: runtime.FuncForPC(e).Name()})
	}
	if len(w.tab) < 500 {
		vk.Fatalf("function table walk found only %d functions", len(w.tab))
	}
	seen := map[string]int{}
	for i := range w.tab {
		w.tab[i].ordinal = seen[w.tab[i].name]
		seen[w.tab[i].name]++
	}
}

func (w *world) find(entry uintptr) *fn {
	i := sort.Search(len(w.tab), func(i int) bool { return w.tab[i].entry > entry }) - 1
	if i < 0 || w.tab[i].entry != entry {
		vk.Fatalf("address %#x is not a function entry of the runtime table", entry)
	}
	return &w.tab[i]
}

// ---------------------------------------------------------------- permissions

type permSeg struct {
	lo, hi uintptr
	perm   string
}

func hexField(b []byte) (v uintptr, rest []byte) {
	i := 0
	for ; i < len(b); i++ {
		c := b[i]
		switch {
		case c >= '0' && c <= '9':
			v = v<<4 | uintptr(c-'0')
		case c >= 'a' && c <= 'f':
			v = v<<4 | uintptr(c-'a'+10)
		default:
			return v, b[i:]
		}
	}
	return v, nil
}

// imagePerms returns the permissions of all mappings backed by the executable, merged over
// adjacent ranges of equal permission (the kernel may split and re-merge VMAs freely).
func (w *world) imagePerms() []permSeg {
	data, err := os.ReadFile("/proc/self/maps")
	if err != nil {
		vk.Fatalf("maps: %v", err)
	}
	var out []permSeg
	exe := []byte(w.exe)
	for len(data) > 0 {
		nl := bytes.IndexByte(data, '\n')
		line := data
		if nl >= 0 {
			line, data = data[:nl], data[nl+1:]
		} else {
			data = nil
		}
		if !bytes.HasSuffix(line, exe) {
			continue
		}
		lo, r := hexField(line)
		if len(r) == 0 || r[0] != '-' {
			vk.Fatalf("maps line %q", line)
		}
		hi, r := hexField(r[1:])
		if len(r) < 5 {
			vk.Fatalf("maps line %q", line)
		}
		perm := string(r[1:5])
		if n := len(out); n > 0 && out[n-1].hi == lo && out[n-1].perm == perm {
			out[n-1].hi = hi
		} else {
			out = append(out, permSeg{lo, hi, perm})
		}
	}
	return out
}

func permString(p []permSeg) string {
	var sb strings.Builder
	for _, s := range p {
		fmt.Fprintf(&sb, "%x-%x %s;", s.lo, s.hi, s.perm)
	}
	return sb.String()
}

// permProblem compares the current permissions with the start-up ones ("" = identical).
func (w *world) permProblem() string {
	w.nPermChecks++
	cur := w.imagePerms()
	if len(cur) == len(w.perm) {
		same := true
		for i := range cur {
			same = same && cur[i] == w.perm[i]
		}
		if same {
			return ""
		}
	}
	// describe the first differing page relative to the text image
	var parts []string
	for _, s := range cur {
		if s.hi <= w.im.Start&^4095 || s.lo >= (w.im.End+4095)&^4095 {
			continue
		}
		if s.perm != "r-xp" {
			parts = append(parts, fmt.Sprintf(".text+%#x..+%#x is %s", int64(s.lo)-int64(w.im.Start&^4095), int64(s.hi)-int64(w.im.Start&^4095), s.perm))
		}
	}
	if len(parts) == 0 {
		return "mappings of the image outside .text changed: " + permString(cur) + " (start-up: " + permString(w.perm) + ")"
	}
	return strings.Join(parts, ", ")
}

// forceClean puts the text image and its permissions back (harness's own mprotect, not goom's),
// so that one violation does not contaminate the following cases.
func (w *world) forceClean() {
	lo := w.im.Start &^ 4095
	hi := (w.im.End + 4095) &^ 4095
	if len(w.diff()) > 0 {
		if err := syscall.Mprotect(vk.Raw(lo, int(hi-lo)), syscall.PROT_READ|syscall.PROT_WRITE|syscall.PROT_EXEC); err != nil {
			vk.Fatalf("mprotect rwx: %v", err)
		}
		for _, d := range w.diff() {
			copy(vk.Raw(d.Lo, int(d.Hi-d.Lo)), w.im.PristineAt(d.Lo, int(d.Hi-d.Lo)))
		}
	}
	if err := syscall.Mprotect(vk.Raw(lo, int(hi-lo)), syscall.PROT_READ|syscall.PROT_EXEC); err != nil {
		vk.Fatalf("mprotect rx: %v", err)
	}
	if p := w.permProblem(); p != "" {
		vk.Fatalf("cannot re-establish the start-up permissions: %s", p)
	}
	if d := w.diff(); len(d) > 0 {
		vk.Fatalf("cannot re-establish the pristine image: %v", d)
	}
}

// diff is the whole-image comparison: maximal runs of bytes that differ from the pristine
// snapshot (page-wise bytes.Equal first, byte loop only inside unequal pages).
func (w *world) diff() []vk.Range {
	w.nDiffs++
	cur := vk.Raw(w.im.Start, len(w.im.Pristine))
	pri := w.im.Pristine
	var out []vk.Range
	const chunk = 4096
	for off := 0; off < len(pri); off += chunk {
		end := off + chunk
		if end > len(pri) {
			end = len(pri)
		}
		if bytes.Equal(cur[off:end], pri[off:end]) {
			continue
		}
		for i := off; i < end; i++ {
			if cur[i] == pri[i] {
				continue
			}
			a := w.im.Start + uintptr(i)
			if n := len(out); n > 0 && out[n-1].Hi == a {
				out[n-1].Hi = a + 1
			} else {
				out = append(out, vk.Range{Lo: a, Hi: a + 1})
			}
		}
	}
	return out
}

// rel renders ranges relative to base (addresses never enter a transcript).
func rel(rs []vk.Range, base uintptr) string {
	var parts []string
	for i, r := range rs {
		if i == 6 {
			parts = append(parts, fmt.Sprintf("… (%d ranges)", len(rs)))
			break
		}
		parts = append(parts, fmt.Sprintf("[%+d,%+d)", int64(r.Lo)-int64(base), int64(r.Hi)-int64(base)))
	}
	return strings.Join(parts, " ")
}

func (w *world) violate(key, desc string, cs Case) {
	n, _ := w.c.Res.Extra["n_violating_observations"].(int)
	w.c.Res.Extra["n_violating_observations"] = n + 1
	w.c.Violate(key, desc, cs)
}

func note(c *vk.Ctx, cs Case, key string) {
	b, _ := json.Marshal(cs)
	var m map[string]interface{}
	_ = json.Unmarshal(b, &m)
	m["__key"] = key
	b, _ = json.Marshal(m)
	c.Note(string(b))
}

// ---------------------------------------------------------------- dry

// trailingPad is the length of the int3 run that ends at f.next.
func trailingPad(f *fn) int {
	n := 0
	for a := f.next; a > f.entry+1 && vk.Raw(a-1, 1)[0] == 0xCC; a-- {
		n++
	}
	return n
}

func (w *world) dryFunc(cs Case, f *fn) {
	c := w.c
	c.Res.Evaluations++
	c.Res.Traces++
	c.Res.States++
	slot := int(f.next - f.entry)
	note(c, cs, "dry-func")
	size, serr := g14.GetFuncSize(f.entry)
	var err error
	msg, panicked := vk.Try(func() { _, err = g14.Ptr(f.entry, c14corpus.Repl(1, 0)) })
	c.Res.Transitions += 2
	accepted := !panicked && err == nil
	ex := c.Res.Extra
	bump := func(k string) { n, _ := ex[k].(int); ex[k] = n + 1 }
	switch {
	case serr != nil:
		bump("n_dry_size_error")
	case size > slot:
		bump("n_dry_scanned_size_exceeds_slot")
	case size < slot:
		bump("n_dry_scanned_size_short_of_slot")
	default:
		bump("n_dry_scanned_size_equals_slot")
	}
	if slot <= w.L+3 {
		bump("n_dry_slots_within_3_of_jump")
	}
	if accepted {
		bump("n_dry_accepted")
		c.Distinct(fmt.Sprintf("%s#%d", f.name, f.ordinal))
		if w.L > slot {
			w.violate("dry class=accepted-but-jump-exceeds-function-slot",
				fmt.Sprintf("patch.Ptr accepts %s (slot of %d bytes up to the next function's entry, scanned size %d) although the %d-byte jump overruns into the next function",
					f.name, slot, size, w.L), cs)
		}
	} else {
		bump("n_dry_refused")
		if slot < w.L {
			bump("n_dry_refused_too_short")
		}
		why := msg
		if err != nil {
			why = err.Error()
		}
		if l, _ := ex["dry_refused_examples"].([]string); len(l) < 8 {
			ex["dry_refused_examples"] = append(l, fmt.Sprintf("%s (slot %d, scanned %d): %s", f.name, slot, size, vk.Short(why, 120)))
		}
	}
	w.afterDry(cs, "dry", f.name)
}

// afterDry: nothing was applied, so nothing may have changed.
func (w *world) afterDry(cs Case, part, name string) {
	if d := w.diff(); len(d) > 0 {
		w.violate(part+" class=image-changed-without-apply",
			fmt.Sprintf("patch.Ptr on %s (never applied) changed the text image at %s relative to the address handed in", name, rel(d, w.find0(cs))), cs)
		g14.UnpatchAll()
		w.forceClean()
		return
	}
	if p := w.permProblem(); p != "" {
		w.violate(part+" class=permissions-changed-without-apply", fmt.Sprintf("patch.Ptr on %s (never applied) left: %s", name, p), cs)
		w.forceClean()
	}
	g14.UnpatchAll()
	w.c.Res.Transitions++
	if d := w.diff(); len(d) > 0 {
		w.violate(part+" class=unpatchall-of-unapplied-patch-writes",
			fmt.Sprintf("UnpatchAll after a never-applied patch.Ptr on %s changed the text image at %s", name, rel(d, w.find0(cs))), cs)
		w.forceClean()
	}
}

func (w *world) find0(cs Case) uintptr {
	for i := range w.tab {
		if w.tab[i].name == cs.Target && w.tab[i].ordinal == cs.Ordinal {
			if cs.Part == "dry-synth" {
				return w.tab[i].next - uintptr(cs.K)
			}
			return w.tab[i].entry
		}
	}
	return w.im.Start
}

func (w *world) drySynth(cs Case, f *fn) {
	c := w.c
	c.Res.Evaluations++
	c.Res.Traces++
	c.Res.States++
	addr := f.next - uintptr(cs.K)
	note(c, cs, "dry-synth")
	var err error
	_, panicked := vk.Try(func() { _, err = g14.Ptr(addr, c14corpus.Repl(1, 0)) })
	c.Res.Transitions++
	refused := panicked || err != nil
	ex := c.Res.Extra
	bump := func(k string) { n, _ := ex[k].(int); ex[k] = n + 1 }
	switch {
	case cs.K < w.L:
		c.Distinct(fmt.Sprintf("%s#%d/%d", f.name, f.ordinal, cs.K))
		if !refused {
			w.violate(fmt.Sprintf("dry-synth k=%d class=too-short-function-accepted", cs.K),
				fmt.Sprintf("a synthetic function of %d bytes (the last %d bytes of the int3 padding after %s, directly followed by the next function) cannot hold the %d-byte jump but patch.Ptr accepts it",
					cs.K, cs.K, f.name, w.L), cs)
		} else {
			bump("n_synth_refused_as_required")
		}
	case cs.K == w.L:
		// exactly as long as the jump: the statement does not decide
		c.Res.Unjudged++
	default:
		if refused {
			bump("n_synth_longer_but_refused")
		} else {
			bump("n_synth_longer_accepted")
		}
	}
	w.afterDry(cs, "dry-synth", fmt.Sprintf("end-of-%s−%d", f.name, cs.K))
}

func (w *world) runDry(replay *Case) {
	c := w.c
	var idx int64
	rep := c.Replay != ""
	for i := range w.tab {
		f := &w.tab[i]
		my := idx
		idx++
		cs := Case{Part: "dry-func", Target: f.name, Ordinal: f.ordinal}
		if rep {
			if *replay != cs {
				continue
			}
		} else if c.Full() || c.TimedOut || !c.Mine(my) || my%256 == 0 && c.Expired() {
			continue
		}
		w.dryFunc(cs, f)
		if i%257 == 0 {
			c.Sample(cs)
		}
	}
	// synthetic entries: 50 functions, evenly spread, with at least L+2 bytes of int3 padding
	var cand []*fn
	for i := range w.tab {
		f := &w.tab[i]
		if i+1 < len(w.tab) && trailingPad(f) >= w.L+2 {
			cand = append(cand, f)
		}
	}
	c.Res.Extra["synth_candidates"] = len(cand)
	if len(cand) < 50 {
		vk.Fatalf("only %d functions with ≥ %d bytes of padding", len(cand), w.L+2)
	}
	for j := 0; j < 50; j++ {
		f := cand[j*len(cand)/50]
		for k := 1; k <= w.L+2; k++ {
			my := idx
			idx++
			cs := Case{Part: "dry-synth", Target: f.name, Ordinal: f.ordinal, K: k}
			if rep {
				if *replay != cs {
					continue
				}
			} else if c.Full() || c.TimedOut || !c.Mine(my) {
				continue
			}
			w.drySynth(cs, f)
			if k == 1 && j%10 == 0 {
				c.Sample(cs)
			}
		}
	}
}

// ---------------------------------------------------------------- live

type seqDef struct {
	name string
	ops  []string
	tier string // "" = both tiers, "thorough" = thorough only
}

var seqs = []seqDef{
	{"patch-apply-unpatch", []string{"patch", "apply", "unpatch", "unpatch-all"}, ""},
	{"patch-apply-unpatchall", []string{"patch", "apply", "unpatch-all"}, ""},
	{"trampoline-apply-unpatch", []string{"tramp", "apply", "unpatch", "unpatch-all"}, ""},
	{"repatch", []string{"patch", "apply", "patch2", "apply", "unpatch-all"}, "thorough"},
	{"restore", []string{"patch", "apply", "unpatch", "restore", "unpatch", "unpatch-all"}, "thorough"},
	{"unpatch-by-target", []string{"patch", "apply", "unpatch-target", "unpatch-all"}, "thorough"},
	{"apply-twice", []string{"patch", "apply", "apply", "unpatch", "unpatch-all"}, "thorough"},
}

func (w *world) live(cs Case, t *c14corpus.Target, ph *c14corpus.Target, sq *seqDef) {
	c := w.c
	c.Res.Evaluations++
	c.Res.Traces++
	c.Res.States++
	entry := reflect.ValueOf(t.Fn).Pointer()
	f := w.find(entry)
	slot := int(f.next - f.entry)
	allowed := []vk.Range{{Lo: entry, Hi: entry + uintptr(w.L)}}
	var phFn *fn
	if ph != nil {
		phFn = w.find(reflect.ValueOf(ph.Fn).Pointer())
	}
	keyp := "live seq=" + sq.name
	note(c, cs, keyp)
	if w.L > slot {
		w.violate("live class=jump-longer-than-function-slot", fmt.Sprintf("%s has a slot of %d bytes", t.Name, slot), cs)
	}
	var g *g14.Guard
	jump := false // the entry jump may legitimately be present
	changed := false
	for step, op := range sq.ops {
		var err error
		var msg string
		var panicked bool
		c.Res.Transitions++
		switch op {
		case "patch", "patch2", "tramp":
			which := 0
			if op == "patch2" {
				which = 1
			}
			var ng *g14.Guard
			msg, panicked = vk.Try(func() {
				if op == "tramp" {
					ng, err = g14.Trampoline(t.Fn, c14corpus.Repl(t.Sig, which), ph.Fn)
				} else {
					ng, err = g14.Patch(t.Fn, c14corpus.Repl(t.Sig, which))
				}
			})
			if panicked || err != nil {
				// refusal: not decided by the statement for a function that can hold the jump; the
				// image must still be confined
				c.Res.Unjudged++
				n, _ := c.Res.Extra["n_live_refused"].(int)
				c.Res.Extra["n_live_refused"] = n + 1
				ng = nil
			}
			if ng != nil {
				g = ng
			} else if op != "patch2" {
				g = nil
			}
		case "apply":
			if g == nil {
				continue
			}
			msg, panicked = vk.Try(func() { g.Apply() })
			jump = true
		case "restore":
			if g == nil {
				continue
			}
			msg, panicked = vk.Try(func() { g.Restore() })
			jump = true
		case "unpatch":
			if g == nil {
				continue
			}
			msg, panicked = vk.Try(func() { g.UnpatchWithLock() })
			jump = false
		case "unpatch-target":
			msg, panicked = vk.Try(func() { g14.Unpatch(t.Fn) })
			jump = false
		case "unpatch-all":
			msg, panicked = vk.Try(func() { g14.UnpatchAll() })
			jump = false
		}
		where := fmt.Sprintf("%s, step %d (%s) of %v", t.Name, step+1, op, sq.ops)
		if panicked && op != "patch" && op != "patch2" && op != "tramp" {
			w.violate(keyp+" op="+op+" class=write-panicked", fmt.Sprintf("%s: %s", where, vk.Short(msg, 200)), cs)
		}
		d := w.diff()
		al := allowed
		if phFn != nil {
			al = append(al[:1:1], vk.Range{Lo: phFn.entry, Hi: phFn.next})
		}
		if bad := vk.OutsideAllowed(d, al); len(bad) > 0 {
			cls := "bytes-outside-entry-jump"
			if bad[0].Lo >= f.next || bad[0].Hi <= f.entry {
				cls = "bytes-outside-target-function"
				if phFn != nil && bad[0].Lo >= phFn.next && bad[0].Lo < phFn.next+64 {
					cls = "bytes-beyond-placeholder-end"
				}
			}
			w.violate(keyp+" op="+op+" class="+cls,
				fmt.Sprintf("%s: bytes changed outside [entry, entry+%d)%s: %s relative to the target's entry (its slot is %d bytes)",
					where, w.L, map[bool]string{true: " and outside the placeholder body", false: ""}[phFn != nil], rel(bad, entry), slot), cs)
		}
		removal := op == "unpatch" || op == "unpatch-all" || op == "unpatch-target"
		if removal {
			// after a removal the entry bytes are the original ones again
			if in := within(d, allowed[0]); len(in) > 0 {
				w.violate(keyp+" op="+op+" class=entry-bytes-not-restored",
					fmt.Sprintf("%s: after removing the patch the entry still differs from the pristine image at %s", where, rel(in, entry)), cs)
			}
		} else if jump && len(within(d, allowed[0])) > 0 {
			changed = true
		}
		if phFn != nil && op == "tramp" && len(within(d, vk.Range{Lo: phFn.entry, Hi: phFn.next})) > 0 {
			n, _ := c.Res.Extra["n_live_placeholder_written"].(int)
			c.Res.Extra["n_live_placeholder_written"] = n + 1
		}
		if p := w.permProblem(); p != "" {
			w.violate(keyp+" op="+op+" class=permissions-changed", fmt.Sprintf("%s: afterwards %s", where, p), cs)
			w.forceCleanPermsOnly()
		}
	}
	if changed {
		c.Distinct(cs.Target + "/" + cs.Seq + "/" + cs.Placeholder)
	}
	// the placeholder body legitimately keeps the relocated origin; put everything back for the next case
	g14.UnpatchAll()
	if n := g14.Patches(); n != 0 {
		vk.Fatalf("patch registry not empty after UnpatchAll: %d", n)
	}
	w.forceClean()
}

// within returns the parts of the differing ranges that lie inside r.
func within(d []vk.Range, r vk.Range) []vk.Range {
	var out []vk.Range
	for _, x := range d {
		lo, hi := x.Lo, x.Hi
		if lo < r.Lo {
			lo = r.Lo
		}
		if hi > r.Hi {
			hi = r.Hi
		}
		if lo < hi {
			out = append(out, vk.Range{Lo: lo, Hi: hi})
		}
	}
	return out
}

func (w *world) forceCleanPermsOnly() {
	lo := w.im.Start &^ 4095
	hi := (w.im.End + 4095) &^ 4095
	if err := syscall.Mprotect(vk.Raw(lo, int(hi-lo)), syscall.PROT_READ|syscall.PROT_EXEC); err != nil {
		vk.Fatalf("mprotect rx: %v", err)
	}
}

func (w *world) runLive(replay *Case) {
	c := w.c
	targets := c14corpus.Targets()
	phs := c14corpus.AllPlaceholders()
	if len(targets) != c14corpus.NTargets || len(targets) < 380 {
		vk.Fatalf("corpus has %d targets", len(targets))
	}
	targets = append(targets, c14corpus.ExtraTargets()...)
	// corpus statistics (sizes as the function table sees them)
	minSlot, maxSlot := 1<<30, 0
	pads := map[int]bool{}
	codes := map[int]bool{}
	pageCross := 0
	for i := range targets {
		f := w.find(reflect.ValueOf(targets[i].Fn).Pointer())
		s := int(f.next - f.entry)
		p := trailingPad(f)
		pads[p] = true
		codes[s-p] = true
		if s-p < minSlot {
			minSlot = s - p
		}
		if s-p > maxSlot {
			maxSlot = s - p
		}
		if f.entry&^4095 != (f.next-1)&^4095 {
			pageCross++
		}
	}
	ex := c.Res.Extra
	ex["corpus_targets"] = len(targets)
	ex["corpus_min_code_bytes"] = minSlot
	ex["corpus_max_code_bytes"] = maxSlot
	ex["corpus_distinct_code_sizes"] = len(codes)
	ex["corpus_distinct_padding_lengths"] = len(pads)
	ex["corpus_targets_spanning_a_page_boundary"] = pageCross

	var idx int64
	rep := c.Replay != ""
	for si := range seqs {
		sq := &seqs[si]
		if sq.tier == "thorough" && !c.Thorough() && !rep {
			continue
		}
		for ti := range targets {
			t := &targets[ti]
			var choices []*c14corpus.Target
			if sq.ops[0] == "tramp" {
				if c.Thorough() || rep {
					for pi := range phs {
						choices = append(choices, &phs[pi])
					}
				} else {
					choices = []*c14corpus.Target{&phs[ti%len(phs)]}
				}
			} else {
				choices = []*c14corpus.Target{nil}
			}
			for _, ph := range choices {
				my := idx
				idx++
				cs := Case{Part: "live", Target: t.Name, Seq: sq.name}
				if ph != nil {
					cs.Placeholder = ph.Name
				}
				if rep {
					if *replay != cs {
						continue
					}
				} else if c.Full() || c.TimedOut || !c.Mine(my) || c.Expired() {
					continue
				}
				w.live(cs, t, ph, sq)
				if ti%97 == 0 {
					c.Sample(cs)
				}
			}
		}
	}
}

// ---------------------------------------------------------------- xpage

func pattern(p int, orig []byte) []byte {
	out := make([]byte, len(orig))
	for i := range orig {
		switch p {
		case 0:
			out[i] = ^orig[i]
		case 1:
			out[i] = 0xCC
		default:
			out[i] = orig[i] + byte(1+i%200)
		}
	}
	return out
}

func (w *world) xpage(cs Case, b uintptr) {
	c := w.c
	c.Res.Evaluations++
	c.Res.Traces++
	c.Res.States++
	addr := uintptr(int64(b) + int64(cs.Off))
	orig := append([]byte(nil), w.im.PristineAt(addr, cs.Len)...)
	data := pattern(cs.Pattern, orig)
	want := append([]byte(nil), data...)
	crosses := cs.Len > 0 && addr < b && addr+uintptr(cs.Len) > b
	if crosses {
		c.Distinct(fmt.Sprintf("%d/%d/%d/%d", cs.Boundary, cs.Off, cs.Len, cs.Pattern))
	}
	keyp := "xpage"
	kind := "within-one-page"
	if crosses {
		kind = "straddling"
	}
	note(c, cs, keyp+" write="+kind)
	where := fmt.Sprintf("WriteTo(boundary%+d, %d bytes) [%s write, boundary #%d inside stub.Placeholder]", cs.Off, cs.Len, kind, cs.Boundary)
	dirty := false
	for phase := 0; phase < 2; phase++ {
		// phase 0: write the pattern; phase 1: write the original bytes back
		src := data
		ph := "write"
		if phase == 1 {
			src = append([]byte(nil), orig...)
			ph = "write-back"
		}
		var err error
		msg, panicked := vk.Try(func() { err = g14.WriteTo(addr, src) })
		c.Res.Transitions++
		if panicked {
			w.violate(fmt.Sprintf("%s write=%s phase=%s class=write-panicked", keyp, kind, ph), where+": "+vk.Short(msg, 200), cs)
		} else if err != nil {
			w.violate(fmt.Sprintf("%s write=%s phase=%s class=write-error", keyp, kind, ph), where+": "+err.Error(), cs)
		}
		if !bytes.Equal(src, map[bool][]byte{false: want, true: orig}[phase == 1]) {
			w.violate(fmt.Sprintf("%s write=%s phase=%s class=source-slice-modified", keyp, kind, ph), where+": WriteTo modified the caller's data", cs)
		}
		d := w.diff()
		dirty = len(d) > 0
		if phase == 0 {
			exp := []vk.Range(nil)
			if cs.Len > 0 {
				exp = []vk.Range{{Lo: addr, Hi: addr + uintptr(cs.Len)}}
			}
			if bad := vk.OutsideAllowed(d, exp); len(bad) > 0 {
				w.violate(fmt.Sprintf("%s write=%s phase=%s class=bytes-outside-the-written-range", keyp, kind, ph),
					fmt.Sprintf("%s: bytes changed at %s relative to the first written byte", where, rel(bad, addr)), cs)
			} else if !bytes.Equal(vk.Raw(addr, cs.Len), want) {
				first := 0
				for first < cs.Len && vk.Raw(addr, cs.Len)[first] == want[first] {
					first++
				}
				side := "first"
				if addr+uintptr(first) >= b {
					side = "second"
				}
				w.violate(fmt.Sprintf("%s write=%s phase=%s class=bytes-did-not-land", keyp, kind, ph),
					fmt.Sprintf("%s: memory differs from the data from byte %d on (on the %s page)", where, first, side), cs)
			}
		} else if len(d) > 0 {
			w.violate(fmt.Sprintf("%s write=%s phase=%s class=image-not-restored", keyp, kind, ph),
				fmt.Sprintf("%s: after writing the original bytes back the image differs at %s relative to the first written byte", where, rel(d, addr)), cs)
		}
		if p := w.permProblem(); p != "" {
			w.violate(fmt.Sprintf("%s write=%s phase=%s class=permissions-changed", keyp, kind, ph), fmt.Sprintf("%s: afterwards %s", where, p), cs)
			w.forceCleanPermsOnly()
		}
	}
	if dirty {
		w.forceClean()
	}
}

func (w *world) runXpage(replay *Case) {
	c := w.c
	// the real body of the assembly placeholder (the Go-visible function value is an ABI wrapper)
	var body *fn
	for i := range w.tab {
		f := &w.tab[i]
		if strings.Contains(f.name, "internal/bytecode/stub.Placeholder") && (body == nil || f.next-f.entry > body.next-body.entry) {
			body = f
		}
	}
	if body == nil || body.next-body.entry < 3*4096 {
		vk.Fatalf("stub.Placeholder body not found or too small")
	}
	wrapper := runtime.FuncForPC(g14.PlaceholderAddr())
	if wrapper == nil || !strings.Contains(wrapper.Name(), "stub.Placeholder") {
		vk.Fatalf("bridge does not point at stub.Placeholder")
	}
	codeEnd := body.next - uintptr(trailingPad(body))
	lim, maxLen, npat := 48, 64, 1
	if c.Thorough() || c.Replay != "" {
		lim, maxLen, npat = 80, 128, 3
	}
	var bounds []uintptr
	for b := (body.entry + 4095) &^ 4095; b < codeEnd; b += 4096 {
		// the usable boundaries are chosen with the thorough tier's margins so that their indices are tier-independent
		if b-80 >= body.entry+64 && b+80+128+64 <= codeEnd {
			bounds = append(bounds, b)
		}
	}
	ex := c.Res.Extra
	ex["placeholder_body_bytes"] = int(codeEnd - body.entry)
	ex["page_boundaries_inside_placeholder"] = len(bounds)
	ex["offsets"] = fmt.Sprintf("%d..+%d", -lim, lim)
	ex["lengths"] = fmt.Sprintf("0..%d", maxLen)
	ex["patterns"] = npat
	if len(bounds) < 2 {
		vk.Fatalf("only %d usable page boundaries inside stub.Placeholder", len(bounds))
	}
	var idx int64
	rep := c.Replay != ""
	// simplest first: short writes before long ones, starts close to the boundary before distant ones
	var offs []int
	for a := 0; a <= lim; a++ {
		if a == 0 {
			offs = append(offs, 0)
		} else {
			offs = append(offs, -a, a)
		}
	}
	for n := 0; n <= maxLen; n++ {
		for _, off := range offs {
			for bi, b := range bounds {
				for p := 0; p < npat; p++ {
					my := idx
					idx++
					cs := Case{Part: "xpage", Boundary: bi, Off: off, Len: n, Pattern: p}
					if rep {
						if *replay != cs {
							continue
						}
					} else if c.Full() || c.TimedOut || !c.Mine(my) || my%512 == 0 && c.Expired() {
						continue
					}
					w.xpage(cs, b)
					if (off == -lim || off == lim) && (n == maxLen || n == 1) && p == 0 && bi == 0 {
						c.Sample(cs)
					}
				}
			}
		}
	}
	// writes that cover whole pages: three and four pages touched, boundaries #0..#2 crossed at once
	for _, lw := range [][2]int{{-8, 4096 + 16}, {-1, 4096 + 2}, {0, 4096 + 1}, {-8, 8192 + 16}, {-4000, 4000 + 4096 + 8}, {0, 8192}, {-1, 8192 + 2}} {
		for p := 0; p < npat; p++ {
			my := idx
			idx++
			cs := Case{Part: "xpage", Boundary: 0, Off: lw[0], Len: lw[1], Pattern: p}
			b := bounds[0]
			if uintptr(int64(b)+int64(lw[0])) < body.entry+64 || uintptr(int64(b)+int64(lw[0]+lw[1]))+64 > codeEnd {
				continue
			}
			if rep {
				if *replay != cs {
					continue
				}
			} else if c.Full() || c.TimedOut || !c.Mine(my) {
				continue
			}
			w.xpage(cs, b)
			c.Sample(cs)
		}
	}
	ex["long_writes"] = "7 writes of 4 KiB..8 KiB+16 touching three or four pages"
}

// ---------------------------------------------------------------- entry point

// Run is the worker entry point.
func Run(c *vk.Ctx) {
	debug.SetPanicOnFault(true) // a write into a page that was not made writable becomes a recoverable panic
	w := &world{c: c}
	exe, err := os.Readlink("/proc/self/exe")
	if err != nil {
		vk.Fatalf("readlink: %v", err)
	}
	w.exe = exe
	w.im = vk.Snapshot()
	w.L = g14.JumpLen()
	if w.L < 5 || w.L > 32 {
		vk.Fatalf("implausible jump length %d", w.L)
	}
	w.perm = w.imagePerms()
	textOK := false
	for _, s := range w.perm {
		if s.lo <= w.im.Start && s.hi >= w.im.End {
			textOK = s.perm == "r-xp"
		}
		if strings.Contains(s.perm, "w") && strings.Contains(s.perm, "x") {
			vk.Fatalf("image has a writable+executable mapping at start-up: %s", permString(w.perm))
		}
	}
	if !textOK {
		vk.Fatalf(".text is not one r-xp range at start-up: %s", permString(w.perm))
	}
	w.buildTable()
	c.Res.Extra["jump_len"] = w.L
	c.Res.Extra["text_bytes"] = int(w.im.End - w.im.Start)
	c.Res.Extra["functions_in_table"] = len(w.tab)

	var replay *Case
	sub := c.Sub
	if c.Replay != "" {
		replay = &Case{}
		c.LoadReplay(replay)
		switch replay.Part {
		case "dry-func", "dry-synth":
			sub = "dry"
		default:
			sub = replay.Part
		}
	}
	switch sub {
	case "dry":
		w.runDry(replay)
	case "live":
		w.runLive(replay)
	case "xpage":
		w.runXpage(replay)
	case "handmade":
		w.runHandmade(replay)
	case "protlog":
		runProtlog(c)
	default:
		vk.Fatalf("unknown sub %q", sub)
	}
	if replay != nil && c.Res.Evaluations == 0 {
		vk.Fatalf("replay case not found in the enumeration: %+v", *replay)
	}
	c.Res.Extra["n_permission_checks"] = int(w.nPermChecks)
	c.Res.Extra["n_image_diffs"] = int(w.nDiffs)
	c.Finish()
}
