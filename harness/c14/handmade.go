package c14

// Part "handmade": hand-made functions shorter than the jump, laid out byte by byte in a private
// executable mapping (every one at a fresh address: goom caches measured sizes by address), directly
// followed by a neighbour function. The body starts with an instruction head — ordinary ones and
// encodings newer than both decoders — then RET and int3 padding up to the slot size.
// patch.Ptr must refuse every slot shorter than the jump, whatever the bytes are; the refusal (or
// a wrong acceptance) must leave the neighbour's bytes alone. Nothing here is ever executed.

import (
	"encoding/hex"
	"fmt"
	"syscall"
	"unsafe"

	g14 "github.com/tencent/goom/zzverif/c14"
	g16 "github.com/tencent/goom/zzverif/c16"
	ref "verifh/ref/x86asm"
	"verifh/targets/c14corpus"
	"verifh/vk"
)

var hmArena []byte
var hmNext int

var neighbour = []byte{0xb8, 0x2a, 0x00, 0x00, 0x00, 0xc3, 0xcc, 0xcc, 0xcc, 0xcc, 0xcc, 0xcc, 0xcc, 0xcc, 0xcc, 0xcc, 0xb8, 0x2b, 0x00, 0x00, 0x00, 0xc3, 0xcc, 0xcc, 0xcc, 0xcc, 0xcc, 0xcc, 0xcc, 0xcc, 0xcc, 0xcc}

// heads: the first bytes of the hand-made body.
func hmHeads() [][]byte {
	hs := [][]byte{
		{0x31, 0xc0}, {0x90}, {0x48, 0x89, 0xc8}, {0x48, 0x8d, 0x04, 0x00},
		{0x0f, 0xc7, 0xf8},       // rdseed eax
		{0x0f, 0xc7, 0xf0},       // rdrand eax
		{0x0f, 0x01, 0xee},       // rdpkru
		{0x0f, 0x01, 0xd0},       // xgetbv
		{0x0f, 0x01, 0xca},       // clac
		{0xf3, 0x0f, 0x1e, 0xfa}, // endbr64
		{0x0f, 0x38, 0xc8, 0xc1}, // sha1nexte xmm0, xmm1
		{0x0f, 0x38, 0xcb, 0xc1}, // sha256rnds2
		{0xc5, 0xf8, 0x77},       // vzeroupper
		{0xc5, 0xf9, 0x6f, 0xc1}, // vmovdqa xmm0, xmm1
		{0x62, 0xf1, 0x7c, 0x48}, // an EVEX prefix
		{0x0f, 0x0b},             // ud2
		{0x0f, 0xff, 0xc0},       // ud0
		{0xf1},                   // int1
	}
	// every two-byte opcode 0F xx and every one-byte opcode with a register-register ModRM — kept
	// where the reference decoder reads exactly these bytes as one complete instruction (otherwise
	// the RET and the padding behind them would be operand bytes and the slot no function at all)
	complete := func(h []byte) bool {
		buf := append(append([]byte{}, h...), 0xc3, 0xcc, 0xcc, 0xcc, 0xcc, 0xcc, 0xcc, 0xcc, 0xcc, 0xcc, 0xcc, 0xcc, 0xcc)
		inst, err := ref.Decode(buf, 64)
		if err != nil || inst.Len != len(h) || inst.Opcode == 0 {
			return false
		}
		// where the bundled decoder reads another length than the reference the two disagree about
		// what the bytes are: that is C16's subject (and outside compiler-emitted code), not this check's
		gi, gerr := g16.Decode(buf, 64)
		return gerr == nil && gi.Len == inst.Len
	}
	for x := 0; x < 256; x++ {
		if h := []byte{0x0f, byte(x), 0xc0}; complete(h) {
			hs = append(hs, h)
		}
	}
	for x := 0; x < 256; x++ {
		if h := []byte{byte(x), 0xc0}; complete(h) {
			hs = append(hs, h)
		}
	}
	return hs
}

func (w *world) handmade(cs Case, head []byte, slot int) {
	c := w.c
	n := (slot + len(neighbour) + 15) &^ 15
	if hmArena == nil {
		var err error
		hmArena, err = syscall.Mmap(-1, 0, 64<<20, syscall.PROT_READ|syscall.PROT_WRITE|syscall.PROT_EXEC, syscall.MAP_PRIVATE|syscall.MAP_ANON|syscall.MAP_NORESERVE)
		if err != nil {
			vk.Fatalf("mmap: %v", err)
		}
	}
	if hmNext+n+64 > len(hmArena) {
		vk.Fatalf("hand-made arena used up")
	}
	b := hmArena[hmNext : hmNext+n]
	hmNext += n
	i := copy(b, head)
	if i < slot {
		b[i] = 0xc3
		i++
	}
	for ; i < slot; i++ {
		b[i] = 0xcc
	}
	copy(b[slot:], neighbour)
	for j := slot + len(neighbour); j < n; j++ {
		b[j] = 0xcc
	}
	want := append([]byte(nil), b...)
	addr := uintptr(unsafe.Pointer(&b[0]))
	c.Res.Evaluations++
	c.Res.Traces++
	c.Res.States++
	note(c, cs, "handmade")
	var err error
	_, panicked := vk.Try(func() { _, err = g14.Ptr(addr, c14corpus.Repl(1, 0)) })
	c.Res.Transitions++
	refused := panicked || err != nil
	vk.Try(func() { g14.UnpatchAll() })
	if string(b) != string(want) {
		w.violate(fmt.Sprintf("handmade slot=%d class=bytes-changed", slot),
			fmt.Sprintf("a hand-made function (%s, slot of %d bytes before the next function): patch.Ptr, never applied, changed bytes of the mapping", hex.EncodeToString(b[:slot]), slot), cs)
		return
	}
	if slot < w.L && !refused {
		c.Distinct(cs.Bytes)
		w.violate(fmt.Sprintf("handmade slot=%d class=too-short-function-accepted", slot),
			fmt.Sprintf("a hand-made function of %d bytes (%s, directly followed by the next function) cannot hold the %d-byte jump but patch.Ptr accepts it", slot, hex.EncodeToString(b[:slot]), w.L), cs)
		return
	}
	if slot < w.L {
		c.Distinct(cs.Bytes + fmt.Sprint(slot))
	}
}

func (w *world) runHandmade(replay *Case) {
	c := w.c
	var idx int64
	heads := hmHeads()
	for _, h := range heads {
		for slot := len(h) + 2; slot <= w.L+1; slot++ { // head, RET and at least one byte of int3 padding
			if slot < 4 {
				continue
			}
			my := idx
			idx++
			cs := Case{Part: "handmade", Bytes: hex.EncodeToString(h), K: slot}
			if replay != nil {
				if *replay != cs {
					continue
				}
			} else if c.Full() || c.TimedOut || !c.Mine(my) {
				continue
			}
			w.handmade(cs, h, slot)
			if my%97 == 0 {
				c.Sample(cs)
			}
		}
	}
	c.Res.Extra["handmade_heads"] = len(heads)
}
