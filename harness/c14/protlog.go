package c14

import (
	"fmt"
	"reflect"
	"syscall"

	zz "github.com/tencent/goom/zzverif/c14"
	"github.com/tencent/goom/zzverif/vsys"
	corpus "verifh/targets/c14corpus"
	"verifh/vk"
)

// ProtCase is the replay artefact of the protection-log part.
type ProtCase struct {
	Part   string `json:"part"` // "protlog"
	Target string `json:"target"`
	Op     string `json:"op"`
}

// runProtlog (binary built with the syscall shim): every mprotect request goom issues while
// installing / removing a patch or writing across a page boundary is logged by the environment
// seam; every request must keep PROT_EXEC ("pages remain executable throughout so other threads
// can keep running code in them") and the last request per page must be exactly r-x.
func runProtlog(c *vk.Ctx) {
	vsys.Logging = true
	defer func() { vsys.Logging = false }()
	judge := func(name, op string) {
		c.Res.Evaluations++
		c.Res.Traces++
		c.Res.States++
		c.Res.Transitions += int64(len(vsys.ProtLog))
		if len(vsys.ProtLog) > 0 {
			c.Res.Nontrivial++
		}
		for i, pc := range vsys.ProtLog {
			if pc.Prot&syscall.PROT_EXEC == 0 {
				c.Violate("protlog class=request-without-exec op="+op, fmt.Sprintf("%s of %s: mprotect request #%d (of %d) for a code page asks for prot=%d, i.e. without PROT_EXEC: other threads executing code in that page fault", op, name, i, len(vsys.ProtLog), pc.Prot), ProtCase{"protlog", name, op})
				break
			}
		}
		for _, prot := range vsys.Pages {
			if prot != syscall.PROT_READ|syscall.PROT_EXEC {
				c.Violate("protlog class=page-left-not-rx op="+op, fmt.Sprintf("after %s of %s the last protection requested for a code page is %d, not r-x", op, name, prot), ProtCase{"protlog", name, op})
				break
			}
		}
		vsys.ResetLog()
	}
	targets := corpus.Targets()
	for i := range targets {
		if !c.Mine(int64(i)) || c.Full() || c.Expired() {
			continue
		}
		tg := targets[i]
		vsys.ResetLog()
		g, err := zz.Patch(tg.Fn, corpus.Repl(tg.Sig, 0))
		if err != nil {
			continue // refused (too short): nothing written
		}
		g.Apply()
		judge(tg.Name, "apply")
		g.UnpatchWithLock()
		judge(tg.Name, "unpatch")
		if i%7 == 0 {
			c.Sample(ProtCase{"protlog", tg.Name, "apply+unpatch"})
		}
	}
	zz.UnpatchAll()
	// cross-page writes into the (never executed) stub placeholder body
	if c.Shard == 0 {
		base := zz.PlaceholderAddr()
		ps := uintptr(syscall.Getpagesize())
		first := (base + ps) &^ (ps - 1)
		for b := first; b < first+2*ps; b += ps {
			for off := -16; off <= 0; off += 4 {
				for ln := 1; ln <= 33; ln += 8 {
					addr := uintptr(int(b) + off)
					cur := vk.Copy(addr, ln)
					vsys.ResetLog()
					_ = zz.WriteTo(addr, cur)
					judge(fmt.Sprintf("placeholder@boundary%+d len %d", off, ln), "write-across-page")
				}
			}
		}
	}
	c.Res.Extra["protlog_targets"] = len(targets)
	_ = reflect.TypeOf
}
