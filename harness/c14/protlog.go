package c14

import (
	"fmt"
	"reflect"
	"syscall"
	"unsafe"

	zz "github.com/tencent/goom/zzverif/c14"
	"github.com/tencent/goom/zzverif/vsys"
	corpus "verifh/targets/c14corpus"
	"verifh/vk"
)

// protCells are fabricated function values the stubs of the reserve part point to.
var protCells [][2]uintptr

// ProtCase is the replay artefact of the protection-log part.
type ProtCase struct {
	Part   string `json:"part"` // "protlog"
	Target string `json:"target"`
	Op     string `json:"op"`
}

// runProtlog (binary built with the syscall shim): every mprotect request goom issues while
// installing / removing a patch or writing across a page boundary is logged by the environment
// seam; every request must keep PROT_EXEC ("pages remain executable throughout so other threads
// can keep running code in them") and the last request per page must be exactly r-x.
func runProtlog(c *vk.Ctx) {
	vsys.Logging = true
	defer func() { vsys.Logging = false }()
	judge := func(name, op string) {
		c.Res.Evaluations++
		c.Res.Traces++
		c.Res.States++
		c.Res.Transitions += int64(len(vsys.ProtLog))
		if len(vsys.ProtLog) > 0 {
			c.Res.Nontrivial++
		}
		for i, pc := range vsys.ProtLog {
			if pc.Prot&syscall.PROT_EXEC == 0 {
				c.Violate("protlog class=request-without-exec op="+op, fmt.Sprintf("%s of %s: mprotect request #%d (of %d) for a code page asks for prot=%d, i.e. without PROT_EXEC: other threads executing code in that page fault", op, name, i, len(vsys.ProtLog), pc.Prot), ProtCase{"protlog", name, op})
				break
			}
		}
		for _, prot := range vsys.Pages {
			if prot != syscall.PROT_READ|syscall.PROT_EXEC {
				c.Violate("protlog class=page-left-not-rx op="+op, fmt.Sprintf("after %s of %s the last protection requested for a code page is %d, not r-x", op, name, prot), ProtCase{"protlog", name, op})
				break
			}
		}
		vsys.ResetLog()
	}
	targets := corpus.Targets()
	for i := range targets {
		if !c.Mine(int64(i)) || c.Full() || c.Expired() {
			continue
		}
		tg := targets[i]
		vsys.ResetLog()
		g, err := zz.Patch(tg.Fn, corpus.Repl(tg.Sig, 0))
		if err != nil {
			continue // refused (too short): nothing written
		}
		g.Apply()
		judge(tg.Name, "apply")
		g.UnpatchWithLock()
		judge(tg.Name, "unpatch")
		if i%7 == 0 {
			c.Sample(ProtCase{"protlog", tg.Name, "apply+unpatch"})
		}
	}
	zz.UnpatchAll()
	// cross-page writes into the (never executed) stub placeholder body
	if c.Shard == 0 {
		base := zz.PlaceholderAddr()
		ps := uintptr(syscall.Getpagesize())
		first := (base + ps) &^ (ps - 1)
		for b := first; b < first+2*ps; b += ps {
			for off := -16; off <= 0; off += 4 {
				for ln := 1; ln <= 33; ln += 8 {
					addr := uintptr(int(b) + off)
					cur := vk.Copy(addr, ln)
					vsys.ResetLog()
					_ = zz.WriteTo(addr, cur)
					judge(fmt.Sprintf("placeholder@boundary%+d len %d", off, ln), "write-across-page")
				}
			}
		}
	}
	// the same writes under a W^X policy: every request for write+execute is refused, goom has to
	// take its write-then-execute path; the bytes must land, nothing may fault and the pages must
	// be r-x again afterwards (the X-bit clause cannot hold on this path and is not judged here)
	if c.Shard == 1%c.NShards {
		vsys.MprotectDeny = func(prot int) bool {
			return prot&syscall.PROT_WRITE != 0 && prot&syscall.PROT_EXEC != 0
		}
		base := zz.PlaceholderAddr()
		ps := uintptr(syscall.Getpagesize())
		first := (base + ps) &^ (ps - 1)
		for b := first; b < first+2*ps; b += ps {
			for off := -40; off <= 8; off += 4 {
				for _, ln := range []int{1, 13, 33, 64} {
					addr := uintptr(int(b) + off)
					orig := vk.Copy(addr, ln)
					data := make([]byte, ln)
					for i := range data {
						data[i] = orig[i] ^ 0x5a
					}
					name := fmt.Sprintf("placeholder@boundary%+d len %d", off, ln)
					cs := ProtCase{"protlog", name, "write-under-w^x"}
					c.Res.Evaluations++
					c.Res.Traces++
					c.Res.States++
					for phase, src := range [][]byte{data, orig} {
						var werr error
						msg, p := vk.Try(func() { werr = zz.WriteTo(addr, src) })
						c.Res.Transitions++
						switch {
						case p:
							c.Violate("protlog class=w^x-write-panicked", fmt.Sprintf("write-under-w^x %s (phase %d): %s", name, phase, vk.Short(msg, 160)), cs)
						case werr != nil:
							c.Violate("protlog class=w^x-write-error", fmt.Sprintf("write-under-w^x %s (phase %d): %v", name, phase, werr), cs)
						case string(vk.Raw(addr, ln)) != string(src):
							c.Violate("protlog class=w^x-bytes-did-not-land", fmt.Sprintf("write-under-w^x %s (phase %d): memory differs from the data written", name, phase), cs)
						}
						maps := vk.Maps()
						for pg := addr &^ (ps - 1); pg < addr+uintptr(ln); pg += ps {
							if perm := vk.PermAt(maps, pg); perm != "r-xp" {
								c.Violate("protlog class=w^x-page-left-"+perm, fmt.Sprintf("write-under-w^x %s (phase %d): afterwards the page at boundary%+d is %s", name, phase, int(pg)-int(b), perm), cs)
								_ = syscall.Mprotect(vk.Raw(pg, int(ps)), syscall.PROT_READ|syscall.PROT_EXEC)
							}
						}
					}
					if string(vk.Raw(addr, ln)) != string(orig) {
						// put the original bytes back ourselves
						_ = syscall.Mprotect(vk.Raw(addr&^(ps-1), int(2*ps)), syscall.PROT_READ|syscall.PROT_WRITE|syscall.PROT_EXEC)
						copy(vk.Raw(addr, ln), orig)
						_ = syscall.Mprotect(vk.Raw(addr&^(ps-1), int(2*ps)), syscall.PROT_READ|syscall.PROT_EXEC)
					}
				}
			}
		}
		vsys.MprotectDeny = nil
		vsys.ResetLog()
	}
	// environment-answer histories: each of three consecutive writes either meets the W^X refusal or does not
	// (all 8 patterns), followed by an ordinary install/removal. A write that is not refused is judged like any
	// other - whatever the environment answered earlier, it must keep the pages executable throughout.
	if c.Shard == 2%c.NShards {
		deny := func(prot int) bool { return prot&syscall.PROT_WRITE != 0 && prot&syscall.PROT_EXEC != 0 }
		base := zz.PlaceholderAddr()
		ps := uintptr(syscall.Getpagesize())
		first := (base + ps) &^ (ps - 1)
		addr := first - 5
		cur := vk.Copy(addr, 13)
		var tg0 *corpus.Target
		for i := range targets {
			if _, err := zz.Patch(targets[i].Fn, corpus.Repl(targets[i].Sig, 0)); err == nil {
				tg0 = &targets[i]
				break
			}
		}
		zz.UnpatchAll()
		for pat := 0; pat < 8; pat++ {
			for k := 0; k < 3; k++ {
				denied := pat>>k&1 == 1
				if denied {
					vsys.MprotectDeny = deny
				}
				vsys.ResetLog()
				_, _ = vk.Try(func() { _ = zz.WriteTo(addr, cur) })
				vsys.MprotectDeny = nil
				if denied {
					vsys.ResetLog()
					continue
				}
				judge(fmt.Sprintf("placeholder@boundary-5 len 13 (write %d of refusal pattern %03b)", k, pat), "write-after-refusals")
			}
			if tg0 != nil {
				vsys.ResetLog()
				if g, err := zz.Patch(tg0.Fn, corpus.Repl(tg0.Sig, 0)); err == nil {
					g.Apply()
					judge(fmt.Sprintf("%s (after refusal pattern %03b)", tg0.Name, pat), "apply-after-refusals")
					g.UnpatchWithLock()
					judge(fmt.Sprintf("%s (after refusal pattern %03b)", tg0.Name, pat), "unpatch-after-refusals")
				}
				zz.UnpatchAll()
			}
		}
		vsys.ResetLog()
	}
	// interface-method stubs written into the reserve inside the text segment (the executable mmap is refused):
	// installing such a mock writes into image pages that hold earlier, live stubs (and goom's own code)
	if c.Shard == 3%c.NShards {
		vsys.MmapFail = func(int) bool { return true }
		for i := 0; i < 40; i++ {
			protCells = append(protCells, [2]uintptr{zz.PlaceholderAddr(), 0})
			cell := unsafe.Pointer(&protCells[len(protCells)-1])
			vsys.ResetLog()
			var err error
			_, p := vk.Try(func() { _, err = zz.MakeMethodCaller(cell) })
			if p || err != nil {
				c.Res.Unjudged++ // out of reserve: C20's subject
				vsys.ResetLog()
				break
			}
			judge(fmt.Sprintf("interface stub #%d in the reserve", i), "stub-write-in-reserve")
		}
		vsys.MmapFail = nil
		vsys.ResetLog()
	}
	c.Res.Extra["protlog_targets"] = len(targets)
	_ = reflect.TypeOf
}
