// Command gen emits the C01 corpus:
//
//	targets/c01corpus        one //go:noinline function per signature of the bounded grammar
//	targets/c01corpus/lib    "library code": generic helpers that invoke a function value passed to them
//	targets/c01corpus/glue   per function: every call form, recording callbacks, descriptor table
//
// Run from /verif/harness:  go run ./c01/gen
// The output is committed; the generator is deterministic.
package main

import (
	"bytes"
	"fmt"
	"go/format"
	"os"
	"path/filepath"
	"sort"
	"strings"
)

// type codes (shared with the harness through glue.T* constants)
const (
	tI8 = iota
	tI64
	tUp
	tF32
	tF64
	tStr
	tByt
	tS2
	tS3
	tArr
	tPtr
	tAny
	tErr
	tFn
	tInt
	tU64
	tVInt // ...int
	tVF64 // ...float64
	tVAny // ...interface{}
	tVStr // ...string
	nTypes
)

type ty struct {
	short string // used in function names
	goC   string // type expression inside package c01corpus
	goG   string // type expression inside package glue
	elemC string // variadic element type (corpus)
	elemG string
	fold  string
	mk    string
	cname string
}

var tys = [nTypes]ty{
	tI8:   {"i8", "int8", "int8", "", "", "fI8", "mI8", "TI8"},
	tI64:  {"i64", "int64", "int64", "", "", "fI64", "mI64", "TI64"},
	tUp:   {"up", "uintptr", "uintptr", "", "", "fUp", "mUp", "TUp"},
	tF32:  {"f32", "float32", "float32", "", "", "fF32", "mF32", "TF32"},
	tF64:  {"f64", "float64", "float64", "", "", "fF64", "mF64", "TF64"},
	tStr:  {"str", "string", "string", "", "", "fStr", "mStr", "TStr"},
	tByt:  {"byt", "[]byte", "[]byte", "", "", "fByt", "mByt", "TByt"},
	tS2:   {"s2", "S2", "corpus.S2", "", "", "fS2", "mS2", "TS2"},
	tS3:   {"s3", "S3", "corpus.S3", "", "", "fS3", "mS3", "TS3"},
	tArr:  {"arr", "[2]int32", "[2]int32", "", "", "fArr", "mArr", "TArr"},
	tPtr:  {"ptr", "*int", "*int", "", "", "fPtr", "mPtr", "TPtr"},
	tAny:  {"any", "interface{}", "interface{}", "", "", "fAny", "mAny", "TAny"},
	tErr:  {"err", "error", "error", "", "", "fErr", "mErr", "TErr"},
	tFn:   {"fn", "func(int) int", "func(int) int", "", "", "fFn", "mFn", "TFn"},
	tInt:  {"int", "int", "int", "", "", "fInt", "mInt", "TInt"},
	tU64:  {"u64", "uint64", "uint64", "", "", "fU64", "mU64", "TU64"},
	tVInt: {"vint", "[]int", "[]int", "int", "int", "fVInt", "", "TVInt"},
	tVF64: {"vf64", "[]float64", "[]float64", "float64", "float64", "fVF64", "", "TVF64"},
	tVAny: {"vany", "[]interface{}", "[]interface{}", "interface{}", "interface{}", "fVAny", "", "TVAny"},
	tVStr: {"vstr", "[]string", "[]string", "string", "string", "fVStr", "", "TVStr"},
}

// alphabet T of the design (14 types)
var alphabet = []int{tI8, tI64, tUp, tF32, tF64, tStr, tByt, tS2, tS3, tArr, tPtr, tAny, tErr, tFn}

type fn struct {
	name     string
	family   string
	quick    bool
	params   []int
	variadic bool
	results  []int
}

func rep(t, n int) []int {
	r := make([]int, n)
	for i := range r {
		r[i] = t
	}
	return r
}

func cat(parts ...[]int) []int {
	var r []int
	for _, p := range parts {
		r = append(r, p...)
	}
	return r
}

func names(ts []int) string {
	if len(ts) == 0 {
		return "void"
	}
	// run-length encode
	var sb []string
	for i := 0; i < len(ts); {
		j := i
		for j < len(ts) && ts[j] == ts[i] {
			j++
		}
		if j-i >= 3 {
			sb = append(sb, fmt.Sprintf("%sx%d", tys[ts[i]].short, j-i))
		} else {
			for k := i; k < j; k++ {
				sb = append(sb, tys[ts[k]].short)
			}
		}
		i = j
	}
	return strings.Join(sb, "_")
}

func corpusList() []fn {
	var fs []fn
	u64 := []int{tU64}
	// family P: every parameter list over T of length <= 2, result = fold of the arguments
	fs = append(fs, fn{name: "P_void", family: "P", quick: true, results: u64})
	for _, a := range alphabet {
		fs = append(fs, fn{name: "P_" + names([]int{a}), family: "P", quick: true, params: []int{a}, results: u64})
	}
	for _, a := range alphabet {
		for _, b := range alphabet {
			fs = append(fs, fn{name: "P_" + tys[a].short + "_" + tys[b].short, family: "P", quick: true, params: []int{a, b}, results: u64})
		}
	}
	// the signature func(): sync.Once-shaped library call form
	fs = append(fs, fn{name: "P0R0", family: "P", quick: true})
	// family H: homogeneous int^n n=0..12, float64^n n=0..17
	for n := 0; n <= 12; n++ {
		fs = append(fs, fn{name: fmt.Sprintf("H_int_%d", n), family: "H", quick: n >= 8 && n <= 10, params: rep(tInt, n), results: u64})
	}
	for n := 0; n <= 17; n++ {
		fs = append(fs, fn{name: fmt.Sprintf("H_f64_%d", n), family: "H", quick: n >= 14 && n <= 16, params: rep(tF64, n), results: u64})
	}
	// family M: mixed threshold shapes (9 integer registers, 15 float registers)
	mixed := [][]int{
		cat(rep(tInt, 7), []int{tStr}),
		cat(rep(tInt, 8), []int{tStr}),
		cat(rep(tInt, 9), []int{tStr}),
		cat(rep(tInt, 8), []int{tF64}),
		cat(rep(tInt, 9), []int{tF64}),
		cat(rep(tF64, 15), []int{tInt}),
		cat(rep(tF64, 16), []int{tInt}),
		cat(rep(tInt, 6), []int{tByt}),
		cat(rep(tInt, 7), []int{tByt}),
		cat(rep(tInt, 7), []int{tS2}),
		cat(rep(tInt, 8), []int{tS2}),
		cat([]int{tS3}, rep(tInt, 9)),
		cat(rep(tInt, 7), []int{tAny}),
		cat(rep(tInt, 8), []int{tAny}),
		cat(rep(tInt, 8), []int{tErr}),
		cat(rep(tInt, 9), []int{tPtr}),
		cat(rep(tInt, 9), []int{tFn}),
		cat(rep(tInt, 8), []int{tFn}),
		cat(rep(tF64, 14), []int{tF32, tF64}),
		cat(rep(tInt, 9), rep(tF64, 15), []int{tStr, tByt}),
		cat(rep(tI8, 10), []int{tI64, tI8}),
		cat([]int{tArr}, rep(tInt, 9), []int{tArr}),
		rep(tS2, 5),
		rep(tStr, 5),
		rep(tByt, 4),
		// 22-parameter mixed signature
		{tI8, tF32, tStr, tI64, tF64, tByt, tS2, tUp, tS3, tArr, tPtr, tAny, tErr, tFn, tI64, tF64, tStr, tI8, tF32, tInt, tS2, tF64},
	}
	for _, m := range mixed {
		fs = append(fs, fn{name: "M_" + names(m), family: "M", quick: true, params: m, results: u64})
	}
	// family V: variadics
	fs = append(fs, fn{name: "V_vint", family: "V", quick: true, params: []int{tVInt}, variadic: true, results: u64})
	fs = append(fs, fn{name: "V_str_vf64", family: "V", quick: true, params: []int{tStr, tVF64}, variadic: true, results: u64})
	fs = append(fs, fn{name: "V_vany", family: "V", quick: true, params: []int{tVAny}, variadic: true, results: u64})
	fs = append(fs, fn{name: "V_i64_vstr", family: "V", quick: true, params: []int{tI64, tVStr}, variadic: true, results: u64})
	fs = append(fs, fn{name: "V_intx9_vint", family: "V", quick: true, params: cat(rep(tInt, 9), []int{tVInt}), variadic: true, results: u64})
	// family R: result lists over T of length 0..2 (all), a selection of length 3, threshold shapes
	x := []int{tI64}
	fs = append(fs, fn{name: "R_void", family: "R", quick: true, params: x})
	for _, a := range alphabet {
		fs = append(fs, fn{name: "R_" + tys[a].short, family: "R", quick: true, params: x, results: []int{a}})
	}
	for _, a := range alphabet {
		for _, b := range alphabet {
			fs = append(fs, fn{name: "R_" + tys[a].short + "_" + tys[b].short, family: "R", quick: true, params: x, results: []int{a, b}})
		}
	}
	seen := map[string]bool{}
	add3 := func(r []int) {
		n := "R3_" + tys[r[0]].short + "_" + tys[r[1]].short + "_" + tys[r[2]].short
		if !seen[n] {
			seen[n] = true
			fs = append(fs, fn{name: n, family: "R3", quick: false, params: x, results: r})
		}
	}
	k := len(alphabet)
	for i := range alphabet {
		add3([]int{alphabet[i], alphabet[i], alphabet[i]})
		add3([]int{alphabet[i], alphabet[(i+1)%k], alphabet[(i+2)%k]})
		add3([]int{alphabet[i], alphabet[(i+5)%k], alphabet[(i+9)%k]})
	}
	rts := [][]int{
		rep(tInt, 9), rep(tInt, 10), rep(tF64, 15), rep(tF64, 16), rep(tStr, 5), {tS3, tI64},
		cat(rep(tInt, 4), rep(tS2, 3)), cat(rep(tI8, 10), []int{tI64}), {tI64, tF64, tStr, tByt, tS2, tPtr, tAny, tErr, tFn},
	}
	for _, r := range rts {
		fs = append(fs, fn{name: "RT_" + names(r), family: "RT", quick: true, params: x, results: r})
	}
	// one with many parameters and many results
	fs = append(fs, fn{name: "MR_intx10_f64x16__intx10", family: "RT", quick: true, params: cat(rep(tInt, 10), rep(tF64, 16)), results: rep(tInt, 10)})
	// uniqueness
	u := map[string]bool{}
	for _, f := range fs {
		if u[f.name] {
			panic("duplicate " + f.name)
		}
		u[f.name] = true
	}
	return fs
}

func paramDeclC(f fn) string {
	var s []string
	for i, p := range f.params {
		if f.variadic && i == len(f.params)-1 {
			s = append(s, fmt.Sprintf("a%d ...%s", i, tys[p].elemC))
		} else {
			s = append(s, fmt.Sprintf("a%d %s", i, tys[p].goC))
		}
	}
	return strings.Join(s, ", ")
}

func paramDeclG(f fn, named bool) string {
	var s []string
	for i, p := range f.params {
		n := ""
		if named {
			n = fmt.Sprintf("a%d ", i)
		}
		if f.variadic && i == len(f.params)-1 {
			s = append(s, n+"..."+tys[p].elemG)
		} else {
			s = append(s, n+tys[p].goG)
		}
	}
	return strings.Join(s, ", ")
}

func resultDecl(f fn, named bool, corpus bool) string {
	if len(f.results) == 0 {
		return ""
	}
	var s []string
	for i, r := range f.results {
		t := tys[r].goG
		if corpus {
			t = tys[r].goC
		}
		if named {
			s = append(s, fmt.Sprintf("r%d %s", i, t))
		} else {
			s = append(s, t)
		}
	}
	return " (" + strings.Join(s, ", ") + ")"
}

func funcTypeG(f fn) string {
	return "func(" + paramDeclG(f, false) + ")" + resultDecl(f, false, false)
}

func argList(f fn) string {
	var s []string
	for i := range f.params {
		if f.variadic && i == len(f.params)-1 {
			s = append(s, fmt.Sprintf("a%d...", i))
		} else {
			s = append(s, fmt.Sprintf("a%d", i))
		}
	}
	return strings.Join(s, ", ")
}

func resList(f fn) string {
	var s []string
	for i := range f.results {
		s = append(s, fmt.Sprintf("r%d", i))
	}
	return strings.Join(s, ", ")
}

func assign(f fn, call string) string {
	if len(f.results) == 0 {
		return call
	}
	return resList(f) + " = " + call
}

func genCorpus(fs []fn) []byte {
	var b bytes.Buffer
	b.WriteString("// Code generated by verifh/c01/gen. DO NOT EDIT.\n\npackage c01corpus\n\n")
	for i, f := range fs {
		seed := uint64(i+1)*0x9E3779B97F4A7C15 | 1
		fmt.Fprintf(&b, "//go:noinline\nfunc %s(%s)%s {\n", f.name, paramDeclC(f), resultDecl(f, true, true))
		fmt.Fprintf(&b, "\tOrig++\n\tSink ^= %#x\n", seed)
		if f.family == "P" || f.family == "H" || f.family == "M" || f.family == "V" {
			if len(f.results) == 1 {
				fmt.Fprintf(&b, "\th := uint64(%#x)\n", seed)
				for j, p := range f.params {
					fmt.Fprintf(&b, "\th = h*prime ^ %s(a%d)\n", tys[p].fold, j)
				}
				b.WriteString("\treturn h\n")
			}
		} else {
			// results derived from the arguments
			b.WriteString("\tx := int64(0)\n")
			for j, p := range f.params {
				fmt.Fprintf(&b, "\tx = x*31 + int64(%s(a%d))\n", tys[p].fold, j)
			}
			for j, r := range f.results {
				fmt.Fprintf(&b, "\tr%d = %s(x + %d)\n", j, tys[r].mk, j*7+i%5)
			}
			if len(f.results) == 0 {
				b.WriteString("\tSink += uint64(x)\n")
			}
			b.WriteString("\treturn\n")
		}
		b.WriteString("}\n\n")
	}
	return gofmt(b.Bytes())
}

type shape struct {
	n, m     int
	variadic bool
}

func (s shape) name() string {
	if s.variadic {
		return fmt.Sprintf("Call%dv%d", s.n, s.m)
	}
	return fmt.Sprintf("Call%dx%d", s.n, s.m)
}

func shapeOf(f fn) shape { return shape{len(f.params), len(f.results), f.variadic} }

func genLib(fs []fn) []byte {
	var b bytes.Buffer
	b.WriteString("// Code generated by verifh/c01/gen. DO NOT EDIT.\n\n")
	b.WriteString("// Package lib plays the role of third-party library code that is handed a function value and\n// invokes it (the shape of slices.SortFunc, sync.Once.Do, http handlers …).\npackage lib\n\n")
	b.WriteString("// Depth counts nested library invocations (keeps the helpers from being trivial tail calls).\nvar Depth int\n\n//go:noinline\nfunc enter() { Depth++ }\n\n//go:noinline\nfunc leave() { Depth-- }\n\n")
	set := map[shape]bool{}
	for _, f := range fs {
		set[shapeOf(f)] = true
	}
	var shapes []shape
	for s := range set {
		shapes = append(shapes, s)
	}
	sort.Slice(shapes, func(i, j int) bool {
		a, c := shapes[i], shapes[j]
		if a.variadic != c.variadic {
			return !a.variadic
		}
		if a.n != c.n {
			return a.n < c.n
		}
		return a.m < c.m
	})
	for _, s := range shapes {
		var tps, ps, ftps, args, rts, rs []string
		for i := 0; i < s.n; i++ {
			if s.variadic && i == s.n-1 {
				tps = append(tps, "E")
				ps = append(ps, fmt.Sprintf("a%d []E", i))
				ftps = append(ftps, "...E")
				args = append(args, fmt.Sprintf("a%d...", i))
			} else {
				tps = append(tps, fmt.Sprintf("A%d", i))
				ps = append(ps, fmt.Sprintf("a%d A%d", i, i))
				ftps = append(ftps, fmt.Sprintf("A%d", i))
				args = append(args, fmt.Sprintf("a%d", i))
			}
		}
		for i := 0; i < s.m; i++ {
			tps = append(tps, fmt.Sprintf("R%d", i))
			rts = append(rts, fmt.Sprintf("R%d", i))
			rs = append(rs, fmt.Sprintf("r%d", i))
		}
		tp := ""
		if len(tps) > 0 {
			tp = "[" + strings.Join(tps, ", ") + " any]"
		}
		res := ""
		if s.m > 0 {
			res = " (" + strings.Join(rts, ", ") + ")"
		}
		fmt.Fprintf(&b, "// %s invokes f on the given arguments.\n//\n//go:noinline\nfunc %s%s(f func(%s)%s", s.name(), s.name(), tp, strings.Join(ftps, ", "), res)
		for _, p := range ps {
			b.WriteString(", " + p)
		}
		fmt.Fprintf(&b, ")%s {\n\tenter()\n", res)
		if s.m > 0 {
			fmt.Fprintf(&b, "\t%s := f(%s)\n\tleave()\n\treturn %s\n", strings.Join(rs, ", "), strings.Join(args, ", "), strings.Join(rs, ", "))
		} else {
			fmt.Fprintf(&b, "\tf(%s)\n\tleave()\n", strings.Join(args, ", "))
		}
		b.WriteString("}\n\n")
	}
	return gofmt(b.Bytes())
}

func unbox(f fn) string {
	var b strings.Builder
	for i, p := range f.params {
		switch p {
		case tAny:
			fmt.Fprintf(&b, "\ta%d := a[%d]\n", i, i)
		case tErr:
			fmt.Fprintf(&b, "\tvar a%d error\n\tif a[%d] != nil {\n\t\ta%d = a[%d].(error)\n\t}\n", i, i, i, i)
		default:
			fmt.Fprintf(&b, "\ta%d := a[%d].(%s)\n", i, i, tys[p].goG)
		}
	}
	return b.String()
}

func retFromRec(f fn) string {
	var b strings.Builder
	for i, r := range f.results {
		switch r {
		case tAny:
			fmt.Fprintf(&b, "\tr%d = rec.Ret[%d]\n", i, i)
		case tErr:
			fmt.Fprintf(&b, "\tif rec.Ret[%d] != nil {\n\t\tr%d = rec.Ret[%d].(error)\n\t}\n", i, i, i)
		default:
			fmt.Fprintf(&b, "\tr%d = rec.Ret[%d].(%s)\n", i, i, tys[r].goG)
		}
	}
	return b.String()
}

func boxList(prefix string, n int) string {
	var s []string
	for i := 0; i < n; i++ {
		s = append(s, fmt.Sprintf("%s%d", prefix, i))
	}
	return strings.Join(s, ", ")
}

func genGlueFile(fs []fn, lo, hi int) []byte {
	var b bytes.Buffer
	b.WriteString("// Code generated by verifh/c01/gen. DO NOT EDIT.\n\npackage glue\n\n")
	b.WriteString("import (\n\t\"reflect\"\n\t\"sync\"\n\n\tcorpus \"verifh/targets/c01corpus\"\n\t\"verifh/targets/c01corpus/lib\"\n)\n\n")
	b.WriteString("var _ = reflect.ValueOf\nvar _ sync.Once\nvar _ = lib.Depth\nvar _ = corpus.Orig\n\n")
	for i := lo; i < hi; i++ {
		f := fs[i]
		target := "corpus." + f.name
		call := target + "(" + argList(f) + ")"
		// ---- call forms
		fmt.Fprintf(&b, "func call_%d(form int, a []interface{}) []interface{} {\n", i)
		b.WriteString(unbox(f))
		for j, r := range f.results {
			fmt.Fprintf(&b, "\tvar r%d %s\n", j, tys[r].goG)
		}
		b.WriteString("\tswitch form {\n")
		fmt.Fprintf(&b, "\tcase FDirect:\n\t\t%s\n", assign(f, call))
		fmt.Fprintf(&b, "\tcase FValue:\n\t\tf := FnVals[%d].(%s)\n\t\t%s\n", i, funcTypeG(f), assign(f, "f("+argList(f)+")"))
		fmt.Fprintf(&b, "\tcase FDefer:\n\t\tfunc() {\n\t\t\tfor i := 0; i < One; i++ {\n\t\t\t\tdefer func() { %s }()\n\t\t\t}\n\t\t}()\n", assign(f, call))
		fmt.Fprintf(&b, "\tcase FGo:\n\t\tvar perr interface{}\n\t\tdone := make(chan struct{})\n\t\tgo func() {\n\t\t\tdefer func() {\n\t\t\t\tperr = recover()\n\t\t\t\tclose(done)\n\t\t\t}()\n\t\t\tGoEnter()\n\t\t\t%s\n\t\t}()\n\t\t<-done\n\t\tif perr != nil {\n\t\t\tpanic(perr)\n\t\t}\n", assign(f, call))
		// reflect
		var rargs []string
		for j := range f.params {
			rargs = append(rargs, fmt.Sprintf("reflect.ValueOf(&a%d).Elem()", j))
		}
		callm := "Call"
		if f.variadic {
			callm = "CallSlice"
		}
		fmt.Fprintf(&b, "\tcase FReflect:\n\t\tout := reflect.ValueOf(%s).%s([]reflect.Value{%s})\n", target, callm, strings.Join(rargs, ", "))
		if len(f.results) == 0 {
			b.WriteString("\t\t_ = out\n")
		} else {
			b.WriteString("\t\tres := make([]interface{}, len(out))\n\t\tfor i := range out {\n\t\t\tres[i] = out[i].Interface()\n\t\t}\n\t\treturn res\n")
		}
		// library
		if len(f.params) == 0 && len(f.results) == 0 {
			fmt.Fprintf(&b, "\tcase FLib:\n\t\tvar once sync.Once\n\t\tonce.Do(%s)\n", target)
		} else {
			args := target
			for j := range f.params {
				args += fmt.Sprintf(", a%d", j)
			}
			fmt.Fprintf(&b, "\tcase FLib:\n\t\t%s\n", assign(f, "lib."+shapeOf(f).name()+"("+args+")"))
		}
		b.WriteString("\tdefault:\n\t\tpanic(\"bad form\")\n\t}\n")
		fmt.Fprintf(&b, "\treturn []interface{}{%s}\n}\n\n", boxList("r", len(f.results)))
		// ---- recording callbacks
		body := func() string {
			var s strings.Builder
			s.WriteString("\t\trec.Enter()\n")
			fmt.Fprintf(&s, "\t\trec.Args = []interface{}{%s}\n", boxList("a", len(f.params)))
			s.WriteString(strings.ReplaceAll(retFromRec(f), "\t", "\t\t"))
			s.WriteString("\t\treturn\n")
			return s.String()
		}
		fmt.Fprintf(&b, "func recC_%d(rec *Rec) interface{} {\n\treturn func(%s)%s {\n%s\t}\n}\n\n", i, paramDeclG(f, true), resultDecl(f, true, false), body())
		fmt.Fprintf(&b, "func recT_%d(%s)%s {\n\trec := Cur\n\t{\n%s\t}\n}\n\n", i, paramDeclG(f, true), resultDecl(f, true, false), body())
	}
	return gofmt(b.Bytes())
}

func intsLit(x []int) string {
	if len(x) == 0 {
		return "nil"
	}
	var s []string
	for _, v := range x {
		s = append(s, tys[v].cname)
	}
	return "[]int{" + strings.Join(s, ", ") + "}"
}

func genGlueTable(fs []fn) []byte {
	var b bytes.Buffer
	b.WriteString("// Code generated by verifh/c01/gen. DO NOT EDIT.\n\npackage glue\n\nimport corpus \"verifh/targets/c01corpus\"\n\n")
	b.WriteString("// type codes\nconst (\n")
	for i, t := range tys {
		if i == 0 {
			fmt.Fprintf(&b, "\t%s = iota\n", t.cname)
		} else {
			fmt.Fprintf(&b, "\t%s\n", t.cname)
		}
	}
	b.WriteString("\tNTypes\n)\n\n")
	b.WriteString("// TypeNames gives the Go spelling of each type code.\nvar TypeNames = [NTypes]string{\n")
	for _, t := range tys {
		g := t.goC
		if t.elemC != "" {
			g = "..." + t.elemC
		}
		fmt.Fprintf(&b, "\t%q,\n", g)
	}
	b.WriteString("}\n\n")
	b.WriteString("// FnVals holds every corpus function as a func value (used by the func-value call form).\nvar FnVals = [...]interface{}{\n")
	for _, f := range fs {
		fmt.Fprintf(&b, "\tcorpus.%s,\n", f.name)
	}
	b.WriteString("}\n\n")
	b.WriteString("// Fns is the corpus table.\nvar Fns = []*Fn{\n")
	for i, f := range fs {
		fmt.Fprintf(&b, "\t{Name: %q, Family: %q, Quick: %v, Params: %s, Results: %s, Variadic: %v, Fn: FnVals[%d], Call: call_%d, RecClosure: recC_%d, RecTop: recT_%d},\n",
			f.name, f.family, f.quick, intsLit(f.params), intsLit(f.results), f.variadic, i, i, i, i)
	}
	b.WriteString("}\n")
	return gofmt(b.Bytes())
}

func gofmt(src []byte) []byte {
	out, err := format.Source(src)
	if err != nil {
		os.WriteFile("/tmp/c01gen_bad.go", src, 0644)
		panic(fmt.Sprintf("gofmt: %v (source in /tmp/c01gen_bad.go)", err))
	}
	return out
}

func write(path string, data []byte) {
	if err := os.MkdirAll(filepath.Dir(path), 0755); err != nil {
		panic(err)
	}
	if err := os.WriteFile(path, data, 0644); err != nil {
		panic(err)
	}
}

func main() {
	root := "targets/c01corpus"
	if len(os.Args) > 1 {
		root = os.Args[1]
	}
	fs := corpusList()
	write(filepath.Join(root, "corpus_gen.go"), genCorpus(fs))
	write(filepath.Join(root, "base.go"), gofmt([]byte(corpusBase)))
	write(filepath.Join(root, "lib", "lib_gen.go"), genLib(fs))
	write(filepath.Join(root, "glue", "rt.go"), gofmt([]byte(glueBase)))
	write(filepath.Join(root, "glue", "table_gen.go"), genGlueTable(fs))
	const per = 100
	old, _ := filepath.Glob(filepath.Join(root, "glue", "glue_gen_*.go"))
	for _, o := range old {
		os.Remove(o)
	}
	for lo, k := 0, 0; lo < len(fs); lo, k = lo+per, k+1 {
		hi := lo + per
		if hi > len(fs) {
			hi = len(fs)
		}
		write(filepath.Join(root, "glue", fmt.Sprintf("glue_gen_%02d.go", k)), genGlueFile(fs, lo, hi))
	}
	fmt.Printf("c01 corpus: %d functions\n", len(fs))
}
