// Package c01 — a mocked function runs the replacement with exact arguments and results.
//
// Engine E+H: bounded-exhaustive enumeration of (signature, argument vector, result vector, replacement
// kind, call form, environment event) over the generated corpus verifh/targets/c01corpus; each case is
// the fixed history  call; apply; event; call; call(event inside the replacement); reset; call  executed on
// the real library and compared with the obvious reference (the replacement sees the caller's values bit
// for bit, the caller sees the replacement's results, the original body does not run while mocked and runs
// again after reset).
package c01

import (
	"encoding/json"
	"errors"
	"fmt"
	"math"
	"os"
	"reflect"
	"runtime"
	"runtime/debug"
	"runtime/pprof"
	"strconv"
	"strings"
	"unsafe"

	mocker "github.com/tencent/goom"
	corpus "verifh/targets/c01corpus"
	"verifh/targets/c01corpus/glue"
	"verifh/vk"
)

// ---------------------------------------------------------------- value domain

const (
	kZero = iota
	kBoundary
	kPattern
)

var kindNames = []string{"zero", "boundary", "pattern"}

type valKey struct{ tc, kind, pos int }

var valCache = map[valKey]interface{}{}

var globalInt = 424242

// val returns the value of type code tc, domain element kind, for position pos. Values are created once
// and kept, so the "caller's value" has a stable identity.
func val(tc, kind, pos int) interface{} {
	k := valKey{tc, kind, pos}
	if v, ok := valCache[k]; ok {
		return v
	}
	v := mkVal(tc, kind, pos)
	valCache[k] = v
	return v
}

func mkVal(tc, kind, pos int) interface{} {
	p := int64(pos)
	switch tc {
	case glue.TI8:
		return [...]int8{0, -128, int8(0x11 + pos*7)}[kind]
	case glue.TI64:
		return [...]int64{0, math.MinInt64, 0x0123456789ABCDEF + p*0x0101010101010101}[kind]
	case glue.TInt:
		return [...]int{0, math.MinInt64, int(0x1122334455667788 + p*0x0101010101010101)}[kind]
	case glue.TU64:
		return [...]uint64{0, math.MaxUint64, 0xA5A5A5A5A5A5A5A5 + uint64(p)*0x0101010101010101}[kind]
	case glue.TUp:
		return [...]uintptr{0, ^uintptr(0), uintptr(0xFEDCBA9876543210 - uint64(p)*0x1111)}[kind]
	case glue.TF32:
		return [...]float32{0, math.Float32frombits(0x7fc12345), math.Float32frombits(0x3fc00000 + uint32(pos)*0x111)}[kind]
	case glue.TF64:
		return [...]float64{0, math.Float64frombits(0x7ff8000000012345), math.Float64frombits(0xC0934A456D5CFAAD + uint64(p)*0x10001)}[kind]
	case glue.TStr:
		return [...]string{"", string([]byte{0}), fmt.Sprintf("pattern-%02d-héllo", pos)}[kind]
	case glue.TByt:
		switch kind {
		case kZero:
			return []byte(nil)
		case kBoundary:
			return make([]byte, 0, 5)
		}
		b := make([]byte, 3+pos%3, 8+pos)
		for i := range b {
			b[i] = byte(0xC0 + pos + i)
		}
		return b
	case glue.TS2:
		return [...]corpus.S2{{}, {A: math.MinInt64, B: math.MaxInt64}, {A: 0x1111111111111111 + p, B: 0x2222222222222222 + p}}[kind]
	case glue.TS3:
		return [...]corpus.S3{{}, {A: [3]int64{math.MinInt64, -1, math.MaxInt64}}, {A: [3]int64{0x3333333333333333 + p, 0x4444444444444444 + p, 0x5555555555555555 + p}}}[kind]
	case glue.TArr:
		return [...][2]int32{{}, {math.MinInt32, math.MaxInt32}, {0x12345678 + int32(pos), -0x12345678 - int32(pos)}}[kind]
	case glue.TPtr:
		switch kind {
		case kZero:
			return (*int)(nil)
		case kBoundary:
			return &globalInt
		}
		x := new(int)
		*x = 1000 + pos
		return x
	case glue.TAny:
		switch kind {
		case kZero:
			return nil
		case kBoundary:
			return int64(-1 - p)
		}
		if pos%2 == 0 {
			x := new(int)
			*x = 2000 + pos
			return x
		}
		return fmt.Sprintf("any-%02d", pos)
	case glue.TErr:
		switch kind {
		case kZero:
			return nil
		case kBoundary:
			return corpus.ErrV{Code: pos % 10}
		}
		return errors.New(fmt.Sprintf("pattern error %02d", pos))
	case glue.TFn:
		switch kind {
		case kZero:
			return (func(int) int)(nil)
		case kBoundary:
			return corpus.Inc
		}
		add := 100 + pos
		return func(x int) int { return x + add }
	case glue.TVInt:
		return [...][]int{nil, {math.MinInt64}, {1 + pos, -2, 0x7766554433221100}}[kind]
	case glue.TVF64:
		return [...][]float64{nil, {math.Float64frombits(0x7ff8000000054321)}, {1.5 + float64(pos), -2.25, 1e300}}[kind]
	case glue.TVAny:
		switch kind {
		case kZero:
			return []interface{}(nil)
		case kBoundary:
			return []interface{}{nil}
		}
		x := new(int)
		*x = 3000 + pos
		return []interface{}{int64(pos), "s", x}
	case glue.TVStr:
		return [...][]string{nil, {""}, {"a", "bb", fmt.Sprintf("ccc-%02d", pos)}}[kind]
	}
	vk.Fatalf("mkVal: bad type code %d", tc)
	return nil
}

func isIface(tc int) bool { return tc == glue.TAny || tc == glue.TErr }

func dataWord(a interface{}) unsafe.Pointer { return (*[2]unsafe.Pointer)(unsafe.Pointer(&a))[1] }

func strData(s string) unsafe.Pointer { return unsafe.Pointer(unsafe.StringData(s)) }

// sameBits: is b the very value a (bit-identical; floats by bits, strings and slices by data pointer,
// length (and capacity), pointers and funcs by identity, interfaces by dynamic type and value)?
func sameBits(tc int, a, b interface{}) (same bool) {
	// a received value may be garbage (that is what is being tested): never let a fault escape
	defer func() {
		if recover() != nil {
			same = false
		}
	}()
	if isIface(tc) {
		if *(*[2]uintptr)(unsafe.Pointer(&a)) == *(*[2]uintptr)(unsafe.Pointer(&b)) {
			return true // same dynamic type word, same data word
		}
		if a == nil || b == nil {
			return a == nil && b == nil
		}
		if reflect.TypeOf(a) != reflect.TypeOf(b) {
			return false
		}
		return a == b
	}
	if a == nil || b == nil || reflect.TypeOf(a) != reflect.TypeOf(b) {
		return false
	}
	switch x := a.(type) {
	case float32:
		return math.Float32bits(x) == math.Float32bits(b.(float32))
	case float64:
		return math.Float64bits(x) == math.Float64bits(b.(float64))
	case string:
		y := b.(string)
		return len(x) == len(y) && (len(x) == 0 || strData(x) == strData(y))
	case func(int) int:
		return dataWord(a) == dataWord(b)
	}
	va, vb := reflect.ValueOf(a), reflect.ValueOf(b)
	if va.Kind() == reflect.Slice {
		return va.Pointer() == vb.Pointer() && va.Len() == vb.Len() && va.Cap() == vb.Cap()
	}
	return a == b
}

// sameFuncBehaviour: same code pointer and same answer (used for func results delivered by Return).
func sameFuncBehaviour(a, b interface{}) (same bool) {
	defer func() {
		if recover() != nil {
			same = false
		}
	}()
	fa, ok1 := a.(func(int) int)
	fb, ok2 := b.(func(int) int)
	if !ok1 || !ok2 {
		return false
	}
	if fa == nil || fb == nil {
		return fa == nil && fb == nil
	}
	return reflect.ValueOf(fa).Pointer() == reflect.ValueOf(fb).Pointer() && fa(1) == fb(1)
}

// sameDeep compares two results of the original function (content equality).
func sameDeep(tc int, a, b interface{}) (same bool) {
	defer func() {
		if recover() != nil {
			same = false
		}
	}()
	if isIface(tc) {
		if a == nil || b == nil {
			return a == nil && b == nil
		}
		return reflect.TypeOf(a) == reflect.TypeOf(b) && a == b
	}
	if a == nil || b == nil || reflect.TypeOf(a) != reflect.TypeOf(b) {
		return false
	}
	switch x := a.(type) {
	case float32:
		return math.Float32bits(x) == math.Float32bits(b.(float32))
	case float64:
		return math.Float64bits(x) == math.Float64bits(b.(float64))
	case func(int) int:
		y := b.(func(int) int)
		if x == nil || y == nil {
			return x == nil && y == nil
		}
		return reflect.ValueOf(x).Pointer() == reflect.ValueOf(y).Pointer()
	case []byte:
		y := b.([]byte)
		return (x == nil) == (y == nil) && len(x) == len(y) && cap(x) == cap(y) && string(x) == string(y)
	}
	return reflect.DeepEqual(a, b)
}

func render(tc int, a interface{}) (out string) {
	defer func() {
		if recover() != nil {
			out = "<value cannot be read without faulting>"
		}
	}()
	if a == nil {
		return "nil"
	}
	switch x := a.(type) {
	case float32:
		return fmt.Sprintf("float32(bits %#x)", math.Float32bits(x))
	case float64:
		return fmt.Sprintf("float64(bits %#x)", math.Float64bits(x))
	case string:
		return fmt.Sprintf("string(len %d %q)", len(x), vk.Short(x, 24))
	case func(int) int:
		if x == nil {
			return "func(nil)"
		}
		return fmt.Sprintf("func(f(1)=%d)", safeCall(x))
	case *int:
		if x == nil {
			return "*int(nil)"
		}
		return "*int(non-nil)"
	case int8, int64, int, uint64, uintptr:
		return fmt.Sprintf("%T(%#x)", a, a)
	}
	v := reflect.ValueOf(a)
	if v.Kind() == reflect.Slice {
		return fmt.Sprintf("%T(nil=%v len=%d cap=%d)", a, v.IsNil(), v.Len(), v.Cap())
	}
	if v.Kind() == reflect.Ptr {
		return fmt.Sprintf("%T(pointer)", a)
	}
	return vk.Short(fmt.Sprintf("%T(%v)", a, a), 80)
}

func safeCall(f func(int) int) (r int) {
	defer func() {
		if recover() != nil {
			r = -1
		}
	}()
	return f(1)
}

// ---------------------------------------------------------------- vectors

// vectors enumerates the domain-kind vectors for n positions: all 3^n for n <= 2; all-pattern, all-zero
// and one boundary per position (others pattern) for larger n.
func vectors(n int) [][]int {
	if n == 0 {
		return [][]int{{}}
	}
	if n <= 2 {
		var out [][]int
		total := 1
		for i := 0; i < n; i++ {
			total *= 3
		}
		for x := 0; x < total; x++ {
			v := make([]int, n)
			y := x
			for i := n - 1; i >= 0; i-- {
				v[i] = y % 3
				y /= 3
			}
			out = append(out, v)
		}
		// simplest first is zero…; put the all-pattern vector first: it is the most discriminating one
		out[0], out[total-1] = out[total-1], out[0]
		return out
	}
	pat := make([]int, n)
	zero := make([]int, n)
	for i := range pat {
		pat[i] = kPattern
	}
	out := [][]int{pat, zero}
	for i := 0; i < n; i++ {
		v := append([]int(nil), pat...)
		v[i] = kBoundary
		out = append(out, v)
	}
	if thoroughVectors {
		// thorough tier: also all-boundary and one zero per position
		bnd := make([]int, n)
		for i := range bnd {
			bnd[i] = kBoundary
		}
		out = append(out, bnd)
		for i := 0; i < n; i++ {
			v := append([]int(nil), pat...)
			v[i] = kZero
			out = append(out, v)
		}
	}
	return out
}

// thoroughVectors is set in the thorough tier.
var thoroughVectors bool

type vecPair struct{ args, rets []int }

// groups lists the (argument vector, result vector) pairs of a function. Families whose point is the
// parameter list vary the arguments and return the pattern results; the result families fix the argument
// and vary the results.
func groups(f *glue.Fn) []vecPair {
	patN := func(n int) []int {
		v := make([]int, n)
		for i := range v {
			v[i] = kPattern
		}
		return v
	}
	var out []vecPair
	switch f.Family {
	case "R", "R3":
		for _, r := range vectors(len(f.Results)) {
			out = append(out, vecPair{patN(len(f.Params)), r})
		}
	case "RT":
		for _, r := range vectors(len(f.Results)) {
			out = append(out, vecPair{patN(len(f.Params)), r})
		}
		if len(f.Params) > 2 {
			for _, a := range vectors(len(f.Params))[1:] {
				out = append(out, vecPair{a, patN(len(f.Results))})
			}
		}
	default:
		for _, a := range vectors(len(f.Params)) {
			out = append(out, vecPair{a, patN(len(f.Results))})
		}
	}
	return out
}

const retPosBase = 30

func argValues(f *glue.Fn, kinds []int) []interface{} {
	a := make([]interface{}, len(f.Params))
	for i, tc := range f.Params {
		a[i] = val(tc, kinds[i], i)
	}
	return a
}

func retValues(f *glue.Fn, kinds []int) []interface{} {
	r := make([]interface{}, len(f.Results))
	for i, tc := range f.Results {
		r[i] = val(tc, kinds[i], retPosBase+i)
	}
	return r
}

// ---------------------------------------------------------------- environment events

var (
	churnBytes [][]byte
	churnPtrs  []*[2]*int
	churnBig   []*[8]*int
)

// churn allocates small objects of the size classes closures and reflect.MakeFunc records live in, so
// that memory freed by the preceding collection is reused (on top of GODEBUG=clobberfree=1).
//
//go:noinline
func churn() {
	churnBytes, churnPtrs, churnBig = churnBytes[:0], churnPtrs[:0], churnBig[:0]
	for i := 0; i < 256; i++ {
		churnBytes = append(churnBytes, make([]byte, 16+(i%8)*16))
		churnPtrs = append(churnPtrs, &[2]*int{&globalInt, nil})
		churnBig = append(churnBig, &[8]*int{nil, &globalInt})
	}
}

func gcEvent() {
	runtime.GC()
	churn()
	runtime.GC()
	churn()
}

//go:noinline
func addrOf(p *int) uintptr { return uintptr(unsafe.Pointer(p)) }

//go:noinline
func grow(n int) int {
	var buf [512]byte
	buf[n&511] = byte(n)
	if n == 0 {
		return int(buf[0])
	}
	return grow(n-1) + int(buf[(n*7)&511])
}

// moveStack recurses on the calling goroutine until its stack has been copied to a new place (observed
// through the address of a local variable). It reports whether that happened.
//
//go:noinline
func moveStack() bool {
	var probe int
	before := addrOf(&probe)
	for depth := 32; depth <= 1<<17; depth *= 4 {
		probe += grow(depth)
		if addrOf(&probe) != before {
			return true
		}
	}
	return false
}

var events = []string{"none", "GC", "MoveStack", "GC+MoveStack", "Drop+GC"}
var modes = []string{"apply-func", "apply-closure", "return"}

func doEvent(ev string, stats *runStats, inside bool) {
	if strings.Contains(ev, "GC") {
		if inside {
			// inside the replacement: one full collection (mark + sweep + clobber) and reuse of freed slots
			runtime.GC()
			churn()
		} else {
			gcEvent()
		}
	}
	if strings.Contains(ev, "MoveStack") {
		if moveStack() {
			stats.moved++
		} else {
			stats.notMoved++
		}
	}
}

// ---------------------------------------------------------------- one case

// Case is the replayable artefact.
type Case struct {
	Fn    string `json:"fn"`
	Sig   string `json:"sig,omitempty"`
	Mode  string `json:"mode"`
	Form  string `json:"form"`
	Event string `json:"event"`
	Args  []int  `json:"args"` // per parameter: 0 zero, 1 boundary, 2 pattern (see val)
	Rets  []int  `json:"rets"` // per result, same coding: what the replacement returns
}

func (cs Case) id() string {
	return fmt.Sprintf("%s|%s|%s|%s|%v|%v", cs.Fn, cs.Mode, cs.Form, cs.Event, cs.Args, cs.Rets)
}

func sig(f *glue.Fn) string {
	var p, r []string
	for _, t := range f.Params {
		p = append(p, glue.TypeNames[t])
	}
	for _, t := range f.Results {
		r = append(r, glue.TypeNames[t])
	}
	return "func(" + strings.Join(p, ", ") + ") (" + strings.Join(r, ", ") + ")"
}

type failure struct {
	kind string // canonical class, includes the position for mismatches
	desc string
}

type runStats struct {
	moved, notMoved int
	entered         bool // the replacement took effect at least once
	judged          bool
	ops             int64
	poisoned        bool // the function may have been left patched
}

func formIndex(name string) int {
	for i, n := range glue.FormNames {
		if n == name {
			return i
		}
	}
	vk.Fatalf("unknown form %q", name)
	return 0
}

// applyMock installs the replacement and returns the builder (in its own frame so that no reference to
// the callback survives in the caller).
//
//go:noinline
func applyMock(f *glue.Fn, mode string, rec *glue.Rec, rets []interface{}) *mocker.Builder {
	b := mocker.Create()
	switch mode {
	case "apply-func":
		glue.Cur = rec
		b.Func(f.Fn).Apply(f.RecTop)
	case "apply-closure":
		b.Func(f.Fn).Apply(f.RecClosure(rec))
	case "return":
		b.Func(f.Fn).Return(rets...)
	default:
		vk.Fatalf("unknown mode %q", mode)
	}
	return b
}

//go:noinline
func cleanupDropped(f *glue.Fn) {
	scratch := &glue.Rec{}
	scratch.Ret = retValues(f, make([]int, len(f.Results)))
	glue.Cur = scratch
	b := mocker.Create()
	b.Func(f.Fn).Apply(f.RecTop)
	b.Reset()
}

// runCase executes one case on a fresh goroutine.
func runCase(f *glue.Fn, cs *Case) (*failure, runStats) {
	var fl *failure
	var st runStats
	done := make(chan struct{})
	go func() {
		defer close(done)
		debug.SetPanicOnFault(true)
		fl = runCaseHere(f, cs, &st)
	}()
	<-done
	return fl, st
}

func runCaseHere(f *glue.Fn, cs *Case, st *runStats) (fl *failure) {
	form := formIndex(cs.Form)
	args := argValues(f, cs.Args)
	rets := retValues(f, cs.Rets)
	st.judged = true
	apply := cs.Mode != "return"
	if !apply && len(f.Results) == 0 {
		// Return() without values: the statement speaks of "stubbed return" values; executed, not judged
		st.judged = false
	}
	fail := func(kind, format string, a ...interface{}) *failure {
		return &failure{kind, fmt.Sprintf(format, a...)}
	}
	call := func() (res []interface{}, pmsg string, panicked bool) {
		pmsg, panicked = vk.Try(func() { res = f.Call(form, args) })
		st.ops++
		return
	}

	// 0. before: the original
	o0 := corpus.Orig
	pre, msg, p := call()
	if p {
		vk.Fatalf("%s: the original panicked before any mock: %s", cs.id(), msg)
	}
	if corpus.Orig != o0+1 {
		vk.Fatalf("%s: original counter moved by %d on an unmocked call", cs.id(), corpus.Orig-o0)
	}

	// 1. apply
	rec := &glue.Rec{Ret: rets}
	var b *mocker.Builder
	if msg, p := vk.Try(func() { b = applyMock(f, cs.Mode, rec, rets) }); p {
		vk.Fatalf("%s: goom refused to mock a generated target: %s", cs.id(), msg)
	}
	st.ops++
	resetDone := false
	dropped := false
	reset := func() (string, bool) {
		resetDone = true
		st.ops++
		if dropped {
			return vk.Try(func() { cleanupDropped(f) })
		}
		return vk.Try(func() { b.Reset() })
	}
	defer func() {
		if !resetDone {
			if msg, p := reset(); p {
				st.poisoned = true
				if fl == nil {
					fl = fail("reset-panicked", "reset panicked: %s", vk.Short(msg, 200))
				}
			}
		}
	}()

	// 2. event
	if strings.HasPrefix(cs.Event, "Drop") {
		b = nil
		dropped = true
	}
	doEvent(cs.Event, st, false)

	// 3./4. two calls while mocked; during the second one the event also happens inside the replacement
	for n := 1; n <= 2; n++ {
		if n == 2 && apply && cs.Event != "none" {
			ev := cs.Event
			rec.Hook = func() { doEvent(ev, st, true) }
		}
		rec.Args = nil
		calls0, orig0 := rec.Calls, corpus.Orig
		res, msg, p := call()
		rec.Hook = nil
		if p {
			return fail("call-panicked", "call %d while mocked panicked: %s", n, vk.Short(msg, 200))
		}
		if !st.judged {
			continue
		}
		if corpus.Orig != orig0 {
			return fail("original-executed", "call %d while mocked executed the original body (%d times)", n, corpus.Orig-orig0)
		}
		if apply {
			if rec.Calls != calls0+1 {
				return fail("replacement-not-called", "call %d while mocked entered the replacement %d times", n, rec.Calls-calls0)
			}
			st.entered = true
			if len(rec.Args) != len(args) {
				return fail("arg-count", "call %d: replacement saw %d arguments, caller passed %d", n, len(rec.Args), len(args))
			}
			for i, tc := range f.Params {
				if !sameBits(tc, args[i], rec.Args[i]) {
					return fail(fmt.Sprintf("arg-mismatch pos=%d", i), "call %d: argument %d (%s): caller passed %s, replacement saw %s",
						n, i, glue.TypeNames[tc], render(tc, args[i]), render(tc, rec.Args[i]))
				}
			}
		}
		if len(res) != len(rets) {
			return fail("result-count", "call %d: caller got %d results, replacement returned %d", n, len(res), len(rets))
		}
		for i, tc := range f.Results {
			ok := sameBits(tc, rets[i], res[i])
			if !ok && !apply && tc == glue.TFn {
				ok = sameFuncBehaviour(rets[i], res[i])
			}
			if !ok {
				return fail(fmt.Sprintf("result-mismatch pos=%d", i), "call %d: result %d (%s): replacement returned %s, caller got %s",
					n, i, glue.TypeNames[tc], render(tc, rets[i]), render(tc, res[i]))
			}
		}
		if !apply {
			st.entered = true
		}
	}

	// 5. reset
	if msg, p := reset(); p {
		st.poisoned = true
		return fail("reset-panicked", "reset panicked: %s", vk.Short(msg, 200))
	}

	// 6. after: the original again
	calls0, orig0 := rec.Calls, corpus.Orig
	post, msg, p := call()
	if p {
		st.poisoned = true
		return fail("after-reset-panicked", "call after reset panicked: %s", vk.Short(msg, 200))
	}
	if rec.Calls != calls0 {
		st.poisoned = true
		return fail("after-reset-replacement-called", "call after reset still entered the replacement")
	}
	if corpus.Orig != orig0+1 {
		st.poisoned = true
		return fail("after-reset-original-not-executed", "call after reset executed the original body %d times", corpus.Orig-orig0)
	}
	if len(post) != len(pre) {
		return fail("after-reset-result-count", "call after reset returned %d results, before the mock %d", len(post), len(pre))
	}
	for i, tc := range f.Results {
		if !sameDeep(tc, pre[i], post[i]) {
			return fail(fmt.Sprintf("after-reset-mismatch pos=%d", i), "result %d (%s) after reset is %s, before the mock it was %s",
				i, glue.TypeNames[tc], render(tc, post[i]), render(tc, pre[i]))
		}
	}
	return nil
}

// ---------------------------------------------------------------- worker

func findFn(name string) *glue.Fn {
	for _, f := range glue.Fns {
		if f.Name == name {
			return f
		}
	}
	return nil
}

func key(cs *Case, kind string) string {
	return fmt.Sprintf("sig=%s mode=%s form=%s event=%s kind=%s", cs.Fn, cs.Mode, cs.Form, cs.Event, kind)
}

// crashBudget bounds the number of process deaths one shard goes through (each one is reported by the
// driver as a violation of its own); afterwards the shard stops with exhaustive=false.
const crashBudget = 12

func crashesSoFar(c *vk.Ctx) int {
	if c.Side == "" || c.Start == 0 || c.Count != 0 {
		return 0
	}
	p := c.Side + ".crashes"
	n := 0
	if b, err := os.ReadFile(p); err == nil {
		n, _ = strconv.Atoi(strings.TrimSpace(string(b)))
	}
	n++
	_ = os.WriteFile(p, []byte(strconv.Itoa(n)), 0644)
	return n
}

// flushPartial writes the counters and violations collected so far to the result file (done=false), so
// that they survive if a later case kills the process; the driver merges such partial results.
func flushPartial(c *vk.Ctx) {
	if c.Out == "" {
		return
	}
	b, err := json.Marshal(&c.Res)
	if err != nil {
		return
	}
	if os.WriteFile(c.Out+".part", b, 0644) == nil {
		_ = os.Rename(c.Out+".part", c.Out)
	}
}

// Run is the worker entry point.
func Run(c *vk.Ctx) {
	runtime.GOMAXPROCS(1)
	if pf := os.Getenv("VERIF_PPROF"); pf != "" {
		if fh, err := os.Create(pf); err == nil {
			_ = pprof.StartCPUProfile(fh)
			defer pprof.StopCPUProfile()
		}
	}
	if c.Replay != "" {
		var lc LitCase
		c.LoadReplay(&lc)
		if lc.Literal {
			f := runLiteral(lc)
			fmt.Printf("replay literal %+v\nresult: %s\n", lc, f)
			if f != "" {
				c.Violate("replay", f, lc)
			}
			c.Finish()
			return
		}
		var cs Case
		c.LoadReplay(&cs)
		f := findFn(cs.Fn)
		if f == nil {
			vk.Fatalf("unknown corpus function %q", cs.Fn)
		}
		if len(cs.Args) != len(f.Params) || len(cs.Rets) != len(f.Results) {
			vk.Fatalf("replay case does not fit %s", sig(f))
		}
		fmt.Printf("replay %s %s mode=%s form=%s event=%s args=%v rets=%v\n", cs.Fn, sig(f), cs.Mode, cs.Form, cs.Event, cs.Args, cs.Rets)
		fl, st := runCase(f, &cs)
		if fl != nil {
			fmt.Printf("result: %s: %s\n", fl.kind, fl.desc)
			c.Violate("replay", fl.desc, cs)
		} else {
			fmt.Printf("result: conforms (judged=%v)\n", st.judged)
		}
		c.Finish()
		return
	}

	if n := crashesSoFar(c); n >= crashBudget {
		c.Res.Exhaustive = false
		c.Res.Extra["stopped"] = fmt.Sprintf("shard stopped after %d process deaths (each reported separately)", n)
		c.Finish()
		return
	}

	thoroughVectors = c.Thorough()
	reported := map[string]bool{}
	poisoned := map[string]bool{}
	var idx int64
	var nFns, nMoved, nNotMoved, nSkipped, nGroups int64
	families := map[string]int{}
	for _, f := range glue.Fns {
		if !c.Thorough() && !f.Quick {
			continue
		}
		nFns++
		families[f.Family]++
		grp := groups(f)
		for _, g := range grp {
			mine := c.Mine(idx)
			idx++
			if !mine {
				continue
			}
			if c.Full() || c.Expired() {
				continue
			}
			if nGroups++; nGroups%100 == 0 {
				flushPartial(c)
			}
			for _, mode := range modes {
				for form := 0; form < glue.NForms; form++ {
					for _, ev := range events {
						cs := Case{Fn: f.Name, Mode: mode, Form: glue.FormNames[form], Event: ev, Args: g.args, Rets: g.rets}
						if poisoned[f.Name] {
							nSkipped++
							c.Res.Exhaustive = false
							continue
						}
						note, _ := json.Marshal(struct {
							Case
							Key string `json:"__key"`
						}{cs, key(&cs, "died")})
						c.Note(string(note))
						fl, st := runCase(f, &cs)
						c.Res.Evaluations++
						c.Res.Traces++
						c.Res.States++
						c.Res.Transitions += st.ops
						nMoved += int64(st.moved)
						nNotMoved += int64(st.notMoved)
						if !st.judged {
							c.Res.Unjudged++
						}
						if st.entered {
							c.Res.Nontrivial++ // cases are pairwise distinct by construction of the enumeration
						}
						cs.Sig = sig(f)
						c.Sample(cs)
						if st.poisoned {
							poisoned[f.Name] = true
						}
						if fl == nil {
							continue
						}
						rk := f.Name + "|" + mode + "|" + fl.kind
						if reported[rk] {
							continue
						}
						reported[rk] = true
						mc, mfl := cs, fl
						if !st.poisoned {
							mc, mfl = minimise(f, cs, fl, grp, poisoned)
						}
						mc.Sig = sig(f)
						c.Violate(key(&mc, mfl.kind), mfl.desc, mc)
						flushPartial(c)
					}
				}
			}
		}
	}
	if nNotMoved > 0 {
		vk.Fatalf("MoveStack did not move the stack in %d of %d attempts", nNotMoved, nMoved+nNotMoved)
	}
	c.Res.Extra["functions"] = nFns
	c.Res.Extra["families"] = fmt.Sprint(families)
	c.Res.Extra["modes"] = strings.Join(modes, ",")
	c.Res.Extra["forms"] = strings.Join(glue.FormNames[:], ",")
	c.Res.Extra["events"] = strings.Join(events, ",")
	literalPart(c, idx+1000)
	c.Res.Extra["n_stack_moves_observed"] = nMoved
	c.Res.Extra["n_cases_skipped_after_poisoning"] = nSkipped
	c.Finish()
}

// minimise looks for the simplest case of the same function and replacement kind that fails in the same
// way: no event, direct call, earliest vector.
func minimise(f *glue.Fn, cs Case, fl *failure, grp []vecPair, poisoned map[string]bool) (Case, *failure) {
	try := func(cand Case) bool {
		if poisoned[f.Name] {
			return false
		}
		g, st := runCase(f, &cand)
		if st.poisoned {
			poisoned[f.Name] = true
		}
		if g != nil && g.kind == fl.kind {
			cs, fl = cand, g
			return true
		}
		return false
	}
	if cs.Event != "none" {
		cand := cs
		cand.Event = "none"
		try(cand)
	}
	if cs.Form != glue.FormNames[glue.FDirect] {
		cand := cs
		cand.Form = glue.FormNames[glue.FDirect]
		try(cand)
	}
	for _, g := range grp {
		if fmt.Sprint(g.args) == fmt.Sprint(cs.Args) && fmt.Sprint(g.rets) == fmt.Sprint(cs.Rets) {
			break
		}
		cand := cs
		cand.Args, cand.Rets = g.args, g.rets
		if try(cand) {
			break
		}
	}
	return cs, fl
}
