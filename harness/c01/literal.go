package c01

// Function-literal and closure targets: a function value whose code is a func literal (named
// "pkg.glob..func1", "pkg.outer.func1" by the compiler) is mocked like any other function; its
// callees are not touched.

import (
	"fmt"

	mocker "github.com/tencent/goom"
	"verifh/vk"
)

//go:noinline
func litHelper(a int) int {
	if a > 1<<40 {
		return a * 3
	}
	return a + 40
}

//go:noinline
func litHelper2(a int) int {
	if a > 1<<41 {
		return a * 5
	}
	return a + 50
}

// litCall is a literal whose body calls another function first.
var litCall = func(a int) int {
	if a > 1<<42 {
		return a * 7
	}
	return litHelper(a) + 1
}

// litLeaf is a literal without calls.
var litLeaf = func(a int) int {
	if a > 1<<43 {
		return a * 11
	}
	return a*2 + 1
}

// mkAdder returns closures of one literal (they share their code; mocking one mocks the code).
func mkAdder(k int) func(int) int {
	return func(a int) int {
		if a > 1<<44 {
			return a * 13
		}
		return litHelper2(a) + k
	}
}

var litAdd3 = mkAdder(3)

// LitCase is the replay artefact.
type LitCase struct {
	Literal bool   `json:"literal"`
	Target  string `json:"target"` // litCall | litLeaf | litAdd3
	How     string `json:"how"`    // apply | return
}

func runLiteral(cs LitCase) string {
	tg := map[string]func(int) int{"litCall": litCall, "litLeaf": litLeaf, "litAdd3": litAdd3}[cs.Target]
	orig := tg(5)
	h1, h2 := litHelper(5), litHelper2(5)
	b := mocker.Create()
	defer func() { vk.Try(func() { b.Reset() }) }()
	seen := -1
	msg, p := vk.Try(func() {
		if cs.How == "apply" {
			b.Func(tg).Apply(func(a int) int { seen = a; return 9007 })
		} else {
			b.Func(tg).Return(9100)
		}
	})
	if p {
		return "panic: mocking the function literal panicked: " + vk.Short(msg, 120)
	}
	want := 9100
	if cs.How == "apply" {
		want = 9007
	}
	var got int
	if msg, p := vk.Try(func() { got = tg(5) }); p {
		return "panic: calling the mocked literal panicked: " + vk.Short(msg, 120)
	}
	if got != want {
		return fmt.Sprintf("not-replaced: %s(5) returned %d while mocked, expected the replacement's %d", cs.Target, got, want)
	}
	if cs.How == "apply" && seen != 5 {
		return fmt.Sprintf("argument: the replacement saw %d, the caller passed 5", seen)
	}
	var g1, g2 int
	if msg, p := vk.Try(func() { g1, g2 = litHelper(5), litHelper2(5) }); p {
		return "other-affected: calling a function the literal calls panicked: " + vk.Short(msg, 120)
	}
	if g1 != h1 || g2 != h2 {
		return fmt.Sprintf("other-affected: functions called by the literal changed: litHelper(5)=%d (was %d), litHelper2(5)=%d (was %d)", g1, h1, g2, h2)
	}
	b.Reset()
	if got := tg(5); got != orig {
		return fmt.Sprintf("not-restored: %s(5) returns %d after Reset, originally %d", cs.Target, got, orig)
	}
	return ""
}

func literalPart(c *vk.Ctx, base int64) {
	idx := base
	for _, t := range []string{"litCall", "litLeaf", "litAdd3"} {
		for _, how := range []string{"apply", "return"} {
			mine := c.Mine(idx)
			idx++
			if !mine || c.Full() {
				continue
			}
			cs := LitCase{true, t, how}
			f := runLiteral(cs)
			c.Res.Evaluations++
			c.Res.Traces++
			c.Res.States++
			c.Res.Transitions += 6
			c.Res.Nontrivial++
			if f != "" {
				cls := f
				for i := range f {
					if f[i] == ':' {
						cls = f[:i]
						break
					}
				}
				c.Violate(fmt.Sprintf("literal target=%s how=%s class=%s", t, how, cls), f, cs)
			}
		}
	}
}
