// Package c08 — variable mocks take effect for every type and restore the pre-mock value.
//
// Engine H: every history ≤ d over {Set1, Set2, Apply3, Lookup, Cancel, Reset} (× 2 builders in
// the thorough tier) on 16 variable types, addressed by pointer and by name, against the
// "value before the first mock in that builder" model, checked after every step.
package c08

import (
	"errors"
	"fmt"
	"reflect"
	"runtime"
	"runtime/debug"
	"sort"
	"strings"

	mocker "github.com/tencent/goom"
	"verifh/targets/vars"
	"verifh/vk"
)

type varSpec struct {
	name   string // variable name inside package vars
	ptr    interface{}
	read   func() interface{}
	v      [3]interface{}
	apply  interface{} // func() T returning v[2]
	byName bool        // by-name addressing is defined for this type (value type == variable type)
}

// wrongType is never the type of a mocked variable.
type wrongType struct{ X int }

// heapVars: the original is a heap object referenced only by the variable; GC is in their alphabet
var heapVars = map[string]bool{"vHeapMap": true, "vHeapPtr": true, "vHeapSlice": true, "vHeapIface": true}

var ifaceVars = map[string]bool{"vINil": true, "vI7": true, "vErr": true, "vHeapIface": true, "vErrTNil": true, "vITNil": true}

var errA, errB, errC = errors.New("a"), errors.New("b"), errors.New("c")

func specs() []varSpec {
	p1, p2, p3 := &vars.S{A: 1}, &vars.S{A: 2}, &vars.S{A: 3}
	m1, m2, m3 := map[string]int{"a": 1}, map[string]int{"b": 2}, map[string]int{}
	return []varSpec{
		{"vInt", vars.PInt(), vars.GInt, [3]interface{}{1, 2, 0}, func() int { return 0 }, true},
		{"vString", vars.PString(), vars.GString, [3]interface{}{"one", "two", ""}, func() string { return "" }, true},
		{"vBool", vars.PBool(), vars.GBool, [3]interface{}{true, false, true}, func() bool { return true }, true},
		{"vFloat", vars.PFloat(), vars.GFloat, [3]interface{}{1.25, -2.5, 0.0}, func() float64 { return 0 }, true},
		{"vSlice", vars.PSlice(), vars.GSlice, [3]interface{}{[]int{1}, []int{2, 2}, []int(nil)}, func() []int { return nil }, true},
		{"vMap", vars.PMap(), vars.GMap, [3]interface{}{m1, m2, m3}, func() map[string]int { return m3 }, true},
		{"vStruct", vars.PStruct(), vars.GStruct, [3]interface{}{vars.NewS(1, "a", 1), vars.NewS(2, "b", 2), vars.S{}}, func() vars.S { return vars.S{} }, true},
		{"vPtr", vars.PPtr(), vars.GPtr, [3]interface{}{p1, p2, p3}, func() *vars.S { return p3 }, true},
		{"vFunc", vars.PFunc(), vars.GFunc, [3]interface{}{vars.F1, vars.F2, vars.F3}, func() func() int { return vars.F3 }, true},
		{"vINil", vars.PINil(), vars.GINil, [3]interface{}{1, "two", 3.5}, func() interface{} { return 3.5 }, false},
		{"vI7", vars.PI7(), vars.GI7, [3]interface{}{1, "two", 3.5}, func() interface{} { return 3.5 }, false},
		{"vArr", vars.PArr(), vars.GArr, [3]interface{}{[2]int{1, 1}, [2]int{2, 2}, [2]int{}}, func() [2]int { return [2]int{} }, true},
		{"vErr", vars.PErr(), vars.GErr, [3]interface{}{errA, errB, errC}, func() error { return errC }, false},
		{"vNilPtr", vars.PNilPtr(), vars.GNilPtr, [3]interface{}{p1, p2, p3}, func() *vars.S { return p3 }, true},
		{"vNilMap", vars.PNilMap(), vars.GNilMap, [3]interface{}{m1, m2, m3}, func() map[string]int { return m3 }, true},
		{"vU8", vars.PU8(), vars.GU8, [3]interface{}{uint8(1), uint8(255), uint8(0)}, func() uint8 { return 0 }, true},
		{"vErrTNil", vars.PErrTNil(), vars.GErrTNil, [3]interface{}{errA, errB, errC}, func() error { return errC }, false},
		{"vITNil", vars.PITNil(), vars.GITNil, [3]interface{}{1, "two", 3.5}, func() interface{} { return 3.5 }, false},
		{"vHeapMap", vars.PHeapMap(), vars.GHeapMap, [3]interface{}{m1, m2, m3}, func() map[string]int { return m3 }, true},
		{"vHeapPtr", vars.PHeapPtr(), vars.GHeapPtr, [3]interface{}{p1, p2, p3}, func() *vars.S { return p3 }, true},
		{"vHeapSlice", vars.PHeapSlice(), vars.GHeapSlice, [3]interface{}{[]int{1}, []int{2, 2}, []int(nil)}, func() []int { return nil }, true},
		{"vHeapIface", vars.PHeapIface(), vars.GHeapIface, [3]interface{}{1, "two", 3.5}, func() interface{} { return 3.5 }, false},
	}
}

// origRef stands for "the variable's original value" without holding a GC-visible reference to
// it (only its address and a rendering of its content), so that the harness itself does not keep
// a heap original alive.
type origRef struct {
	addr    uintptr
	isNil   bool
	content string
}

func refOf(v interface{}) origRef {
	r := origRef{content: content(v)}
	if v == nil {
		r.isNil = true
		return r
	}
	rv := reflect.ValueOf(v)
	switch rv.Kind() {
	case reflect.Map, reflect.Ptr, reflect.Slice, reflect.Func, reflect.Chan, reflect.UnsafePointer:
		r.addr = rv.Pointer()
	}
	return r
}

// isOrig tells whether v is the original: same object (address) with intact content.
func (r origRef) isOrig(v interface{}) (bool, string) {
	if r.isNil {
		return v == nil, "<nil>"
	}
	if v == nil {
		return false, "<nil>"
	}
	g := refOf(v)
	if g.addr != r.addr {
		return false, "another object: " + g.content
	}
	if g.content != r.content {
		return false, "the original object with content " + g.content + " (originally " + r.content + "; freed while mocked?)"
	}
	return true, g.content
}

// same compares two observed values: identity for funcs, maps, pointers and slices (same
// backing store and length), deep equality otherwise; two nil interfaces are the same.
func same(a, b interface{}) bool {
	if a == nil || b == nil {
		return a == nil && b == nil
	}
	va, vb := reflect.ValueOf(a), reflect.ValueOf(b)
	if va.Type() != vb.Type() {
		return false
	}
	switch va.Kind() {
	case reflect.Func, reflect.Map, reflect.Ptr, reflect.UnsafePointer, reflect.Chan:
		return va.Pointer() == vb.Pointer()
	case reflect.Slice:
		return va.Pointer() == vb.Pointer() && va.Len() == vb.Len() && va.IsNil() == vb.IsNil()
	}
	return reflect.DeepEqual(a, b)
}

func render(a interface{}) string {
	if a == nil {
		return "<nil>"
	}
	v := reflect.ValueOf(a)
	switch v.Kind() {
	case reflect.Func, reflect.Map, reflect.Ptr, reflect.Slice:
		if v.IsNil() {
			return fmt.Sprintf("%T(nil)", a)
		}
		if v.Kind() == reflect.Func {
			return fmt.Sprintf("func@%s", funcName(v))
		}
		return fmt.Sprintf("%T%v", a, a)
	}
	return fmt.Sprintf("%T(%v)", a, a)
}

func funcName(v reflect.Value) string {
	switch v.Pointer() {
	case reflect.ValueOf(vars.F1).Pointer():
		return "F1"
	case reflect.ValueOf(vars.F2).Pointer():
		return "F2"
	case reflect.ValueOf(vars.F3).Pointer():
		return "F3"
	}
	return "orig"
}

const (
	opSet1 = iota
	opSet2
	opApply3
	opLookup
	opCancel
	opReset
	opSetBad  // Set with a value of another type through a by-pointer mocker: rejected (panic), must change nothing
	opForeign // the program itself assigns the variable (not through goom)
	// opApplyK: Apply with a callback made by one factory (reflect.MakeFunc: one code pointer for
	// all of them) that returns v[0] on its 1st, 3rd, … use in the history and v[1] on the others
	opApplyK
	nOps
	opGC = 100 // builder-independent; only in the alphabet of heap-original variables
)

var opNames = []string{"Set1", "Set2", "Apply3", "Lookup", "Cancel", "Reset", "SetWrongType", "ForeignWrite", "ApplyNext"}

// Case is the replayable artefact.
type Case struct {
	Var    string   `json:"var"`
	ByName bool     `json:"by_name"`
	Ops    []string `json:"ops"` // "b0.Set1" …
}

func opString(op int) string {
	if op == opGC {
		return "GC"
	}
	return fmt.Sprintf("b%d.%s", op/nOps, opNames[op%nOps])
}

func parseOp(s string) int {
	if s == "GC" {
		return opGC
	}
	var b int
	var n string
	if _, err := fmt.Sscanf(strings.Replace(s, ".", " ", 1), "b%d %s", &b, &n); err != nil {
		vk.Fatalf("bad op %q", s)
	}
	for i, x := range opNames {
		if x == n {
			return b*nOps + i
		}
	}
	vk.Fatalf("bad op %q", s)
	return 0
}

type builderModel struct {
	recorded   bool        // a Set/Apply happened since the last Cancel/Reset of this builder
	origin     interface{} // value before the first mock of the current epoch
	everMocked bool
	first      interface{} // value before the very first mock in this builder (literal reading)
}

// run replays the history on the real library and the model; returns a failure description
// ("" = conforms) and whether the outcome was judged.
func run(sp *varSpec, byName bool, ops []int) (fail string, judged bool) {
	heap := heapVars[sp.name]
	if heap {
		vars.ResetHeap()
	}
	var orig interface{} = sp.read()
	origContent := content(orig)
	oref := refOf(orig)
	if heap {
		orig = oref // from here on only the address and the content rendering are kept
		defer vars.ResetHeap()
	} else {
		keep := orig
		defer func() { reflect.ValueOf(sp.ptr).Elem().Set(origValue(sp, keep)) }()
	}
	// eq compares an observed value with an expected one; the expected value may be the original
	eq := func(got, want interface{}) (bool, string) {
		if r, ok := want.(origRef); ok {
			return r.isOrig(got)
		}
		return same(got, want), render(got)
	}
	show := func(want interface{}) string {
		if r, ok := want.(origRef); ok {
			return "the original (" + r.content + ")"
		}
		return render(want)
	}
	isO := func(v interface{}) bool { _, ok := v.(origRef); return ok }
	_ = origContent

	path := "verifh/targets/vars." + sp.name
	var b [2]*mocker.Builder
	var h [2]mocker.VarMock
	lookup := func(i int) {
		if b[i] == nil {
			b[i] = mocker.Create()
		}
		if byName {
			h[i] = b[i].UnExportedVar(path)
		} else {
			h[i] = b[i].Var(sp.ptr)
		}
	}
	var m [2]builderModel
	nApplyK := 0
	cur := orig    // epoch reading
	curLit := orig // literal reading ("before its first mock in that builder")
	judged = true
	for step, op := range ops {
		if op == opGC {
			forceGC()
			if isO(cur) {
				if ok, how := eq(sp.read(), cur); !ok {
					return fmt.Sprintf("after step %d GC the variable no longer holds its original: %s", step, how), true
				}
			}
			continue
		}
		bi, o := op/nOps, op%nOps
		msg, panicked := vk.Try(func() {
			if h[bi] == nil || (h[bi].Canceled() && o != opCancel) {
				lookup(bi)
			}
			switch o {
			case opSet1:
				h[bi].Set(sp.v[0])
			case opSet2:
				h[bi].Set(sp.v[1])
			case opApply3:
				h[bi].Apply(sp.apply)
			case opLookup:
				lookup(bi)
			case opCancel:
				h[bi].Cancel()
			case opReset:
				b[bi].Reset()
			case opSetBad:
				// rejected by reflect (panic): recovered here, like a test using assert.Panics would
				vk.Try(func() { h[bi].Set(wrongType{1}) })
			case opForeign:
				reflect.ValueOf(sp.ptr).Elem().Set(reflect.ValueOf(sp.v[2]))
			case opApplyK:
				typ := reflect.TypeOf(sp.ptr).Elem()
				ret := reflect.New(typ).Elem()
				if v := sp.v[nApplyK%2]; v != nil {
					ret.Set(reflect.ValueOf(v))
				}
				if v := sp.v[nApplyK%2]; v != nil && step%2 == 1 {
					// a callback declared with the empty interface as its result (the natural shape in a
					// table-driven test): only the dynamic type of what it returns counts
					h[bi].Apply(func() interface{} { return v })
					break
				}
				h[bi].Apply(reflect.MakeFunc(reflect.FuncOf(nil, []reflect.Type{typ}, false), func([]reflect.Value) []reflect.Value {
					return []reflect.Value{ret}
				}).Interface())
			}
		})
		if panicked {
			return fmt.Sprintf("step %d %s panicked: %s", step, opString(op), vk.Short(msg, 160)), true
		}
		switch o {
		case opSet1, opSet2, opApply3, opApplyK:
			if !m[bi].recorded {
				m[bi].recorded, m[bi].origin = true, cur
			}
			if !m[bi].everMocked {
				m[bi].everMocked, m[bi].first = true, curLit
			}
			if o == opApplyK {
				cur, curLit = sp.v[nApplyK%2], sp.v[nApplyK%2]
				nApplyK++
			} else {
				cur, curLit = sp.v[o], sp.v[o]
			}
		case opForeign:
			cur, curLit = sp.v[2], sp.v[2]
		case opCancel, opReset:
			if m[bi].recorded {
				cur = m[bi].origin
				curLit = m[bi].first
				m[bi].recorded = false
			} else if m[bi].everMocked {
				// a repeated Cancel/Reset: "changes nothing" (cur) vs. the literal "holds the value
				// before its first mock in that builder" (curLit); judged only if both agree
				curLit = m[bi].first
			}
		}
		if !(isO(cur) && isO(curLit)) && (isO(cur) != isO(curLit) || !same(cur, curLit)) {
			// the two readings of "its first mock in that builder" disagree from here on: unjudged
			return "", false
		}
		got := sp.read()
		if ok, how := eq(got, cur); !ok {
			return fmt.Sprintf("after step %d %s the variable reads %s, expected %s", step, opString(op), how, show(cur)), true
		}
		direct := reflect.ValueOf(sp.ptr).Elem().Interface()
		if ok, how := eq(direct, cur); !ok {
			return fmt.Sprintf("after step %d %s a direct read gives %s, expected %s", step, opString(op), how, show(cur)), true
		}
		got, direct = nil, nil
	}
	return "", judged
}

func origValue(sp *varSpec, orig interface{}) reflect.Value {
	t := reflect.TypeOf(sp.ptr).Elem()
	if orig == nil {
		return reflect.Zero(t)
	}
	return reflect.ValueOf(orig)
}

func failClass(f string) string {
	switch {
	case strings.Contains(f, "panicked"):
		i := strings.Index(f, "panicked: ")
		return "panic:" + vk.Short(f[i+10:], 60)
	case strings.Contains(f, "direct read"):
		return "wrong-value-direct"
	default:
		return "wrong-value"
	}
}

func opsToStrings(ops []int) []string {
	s := make([]string, len(ops))
	for i, o := range ops {
		s[i] = opString(o)
	}
	return s
}

// Run is the worker entry point.
func Run(c *vk.Ctx) {
	sps := specs()
	if c.Replay != "" {
		var cs Case
		c.LoadReplay(&cs)
		for i := range sps {
			if sps[i].name == cs.Var {
				ops := make([]int, len(cs.Ops))
				for j, s := range cs.Ops {
					ops[j] = parseOp(s)
				}
				f, judged := run(&sps[i], cs.ByName, ops)
				fmt.Printf("replay var=%s by_name=%v ops=%v judged=%v\nresult: %s\n", cs.Var, cs.ByName, cs.Ops, judged, orOK(f))
				if f != "" {
					c.Violate("replay", f, cs)
				}
				c.Finish()
				return
			}
		}
		vk.Fatalf("unknown var %s", cs.Var)
	}

	// passes: (depth, builders, depth for heap-original variables, shortest history judged in this pass)
	type pass struct{ depth, nb, heapDepth, minLen int }
	passes := []pass{{5, 1, 4, 1}}
	if c.Thorough() {
		// two builders up to depth 5, one builder at depth 6 (its shorter histories are part of the first pass)
		passes = []pass{{5, 2, 5, 1}, {6, 1, 5, 6}}
	}
	var idx int64
	for _, ps := range passes {
		depth, nb, heapDepth, minLen := ps.depth, ps.nb, ps.heapDepth, ps.minLen
		alpha := nOps * nb
		for si := range sps {
			sp := &sps[si]
			for _, byName := range []bool{false, true} {
				if byName && !sp.byName {
					continue
				}
				var rec func(prefix []int)
				rec = func(prefix []int) {
					if c.Full() || c.Expired() {
						return
					}
					mine := false
					if len(prefix) >= minLen {
						mine = c.Mine(idx)
						idx++
					}
					if mine && len(prefix) > 0 {
						c.Res.Evaluations++
						c.Res.Traces++
						c.Res.Transitions += int64(len(prefix))
						if heapVars[sp.name] {
							c.Note(fmt.Sprintf(`{"__key":"var=%s by_name=%v ops=%s","var":%q,"by_name":%v,"ops":["%s"]}`, sp.name, byName, strings.Join(opsToStrings(prefix), ","), sp.name, byName, strings.Join(opsToStrings(prefix), `","`)))
						}
						f, judged := run(sp, byName, prefix)
						if !judged {
							c.Res.Unjudged++
						}
						cs := Case{sp.name, byName, opsToStrings(prefix)}
						mocked := false
						for _, o := range prefix {
							if o != opGC && (o%nOps <= opApply3 || o%nOps == opForeign || o%nOps == opApplyK) {
								mocked = true
							}
						}
						if mocked {
							c.Res.Nontrivial++ // every enumerated history is distinct by construction
						}
						c.Sample(cs)
						if f != "" {
							cls := failClass(f)
							min := vk.Minimize(prefix, func(s []int) bool {
								g, _ := run(sp, byName, s)
								return g != "" && failClass(g) == cls
							})
							g, _ := run(sp, byName, min)
							mc := Case{sp.name, byName, opsToStrings(min)}
							if g == "" {
								// not reproducible from a fresh start: the failure needs state left behind by earlier
								// histories of this process (a process-wide cache, say); report it as observed
								mc = cs
								g = f + " (this history conforms when nothing ran before it: the failure depends on state left in the library by earlier histories of the process, all of which ended with the variable restored)"
								cls += "-after-earlier-histories"
							}
							c.Violate(fmt.Sprintf("var=%s by_name=%v ops=%s class=%s", sp.name, byName, strings.Join(mc.Ops, ","), cls), g, mc)
						}
					}
					if len(prefix) == depth || heapVars[sp.name] && len(prefix) == heapDepth {
						return // heap-original variables (with the GC operation): depth 4 quick, 5 thorough
					}
					for o := 0; o < alpha; o++ {
						if o%nOps == opSetBad && (byName || ifaceVars[sp.name]) {
							continue // by name a mismatching type is documented as undefined; an interface variable accepts any type
						}
						if o%nOps == opForeign && o/nOps > 0 {
							continue // the foreign write does not belong to a builder: enumerate it once
						}
						rec(append(prefix[:len(prefix):len(prefix)], o))
					}
					if heapVars[sp.name] && len(prefix) > 0 && !hasGC(prefix) {
						rec(append(prefix[:len(prefix):len(prefix)], opGC))
					}
				}
				rec(nil)
			}
		}
	}
	c.Res.States = c.Res.Nontrivial
	c.Res.Extra["passes_depth_builders_heapdepth_minlen"] = fmt.Sprint(passes)
	c.Res.Extra["ops"] = nOps
	c.Res.Extra["variables"] = len(sps)
	c.Finish()
}

func orOK(s string) string {
	if s == "" {
		return "conforms"
	}
	return s
}

func hasGC(ops []int) bool {
	for _, o := range ops {
		if o == opGC {
			return true
		}
	}
	return false
}

var gcSink [][]byte

// forceGC collects and churns the heap so that freed objects are clobbered / reused.
func forceGC() {
	runtime.GC()
	for j := 0; j < 48; j++ {
		gcSink = append(gcSink, make([]byte, 32+j*16))
	}
	gcSink = nil
	runtime.GC()
}

// content renders the object a value refers to (deep, without addresses).
func content(v interface{}) (out string) {
	if v == nil {
		return "<nil>"
	}
	// a dangling original must show up as a violation, not kill the worker
	old := debug.SetPanicOnFault(true)
	defer func() {
		debug.SetPanicOnFault(old)
		if r := recover(); r != nil {
			out = fmt.Sprintf("unreadable (%v)", r)
		}
	}()
	rv := reflect.ValueOf(v)
	switch rv.Kind() {
	case reflect.Func:
		return "func"
	case reflect.Map:
		keys := rv.MapKeys()
		parts := make([]string, 0, len(keys))
		for _, k := range keys {
			parts = append(parts, fmt.Sprintf("%v=%v", k, rv.MapIndex(k)))
		}
		sort.Strings(parts)
		return fmt.Sprintf("map%v", parts)
	case reflect.Ptr:
		if rv.IsNil() {
			return fmt.Sprintf("nil %T", v)
		}
		return fmt.Sprintf("&%+v", rv.Elem().Interface())
	}
	return fmt.Sprintf("%+v", v)
}
