// Package c20bb — the stub-space allocator through its exported API only, one fresh process per
// trial (free-running; a side pass of C20).
//
// Every mmap is refused through the syscall seam, so stub.Acquire serves from the built-in reserve.
// The very first use of the allocator in the process is made by 8 goroutines released together
// (two requests each); afterwards the process requests 48-byte regions until the allocator reports
// exhaustion. All regions handed out must be pairwise disjoint and lie inside the slot of the
// assembly function stub.Placeholder as the runtime's function table describes it (a bound that
// does not come from the allocator), each must take a full-length write that reads back, and
// exhaustion must be reported — not earlier than one region before the slot is used up.
package c20bb

import (
	"bytes"
	"fmt"
	"runtime"
	"sort"
	"strings"
	"sync"
	"sync/atomic"

	zz "github.com/tencent/goom/zzverif/c20bb"
	"github.com/tencent/goom/zzverif/vsys"
	"verifh/vk"
)

// Case is the replay artefact (a trial is a whole process; nothing to parametrise).
type Case struct {
	Sub string `json:"sub"`
}

type region struct{ lo, hi uintptr }

// reserveSlot finds the body of the assembly function stub.Placeholder in the function table.
func reserveSlot() (lo, hi uintptr) {
	tlo, thi := vk.TextRange()
	for pc := tlo; pc < thi; {
		e, end := vk.FuncExtentFast(pc)
		if e == 0 {
			pc += 16
			continue
		}
		if strings.HasSuffix(vk.FuncName(e), "internal/bytecode/stub.Placeholder") && end-e > hi-lo {
			lo, hi = e, end
		}
		pc = end
	}
	if hi-lo < 4096 {
		vk.Fatalf("stub.Placeholder body not found in the function table")
	}
	return
}

// Run is the worker entry point.
func Run(c *vk.Ctx) {
	lo, hi := reserveSlot()
	vsys.MmapFail = func(int) bool { return true }
	c.Note(`{"__key":"blackbox first use + exhaustion","case":{"sub":"blackbox"}}`)
	var mu sync.Mutex
	var got []region
	fail := ""
	bad := func(f string, a ...interface{}) {
		mu.Lock()
		if fail == "" {
			fail = fmt.Sprintf(f, a...)
		}
		mu.Unlock()
	}
	take := func(who string) bool {
		s, err := zz.Acquire(48)
		if err != nil {
			return false
		}
		if s == nil || s.Space == nil || len(*s.Space) < 48 {
			bad("%s: Acquire(48) returned no error and no usable region", who)
			return false
		}
		data := bytes.Repeat([]byte{byte(len(who))*7 + 1}, 48)
		if werr := zz.Write(s, data); werr != nil {
			bad("%s: writing the region failed: %v", who, werr)
		} else if !bytes.Equal(vk.Raw(s.Addr, 48), data) {
			bad("%s: the region does not read back what was written", who)
		}
		mu.Lock()
		got = append(got, region{s.Addr, s.Addr + 48})
		mu.Unlock()
		return true
	}
	// first use of the allocator in this process: 8 goroutines released together
	var wg sync.WaitGroup
	var ready int32
	for g := 0; g < 8; g++ {
		g := g
		wg.Add(1)
		go func() {
			defer wg.Done()
			atomic.AddInt32(&ready, 1)
			for atomic.LoadInt32(&ready) < 8 {
				runtime.Gosched()
			}
			for k := 0; k < 2; k++ {
				if !take(fmt.Sprintf("first-use goroutine %d", g)) {
					bad("first-use goroutine %d: the fallback allocator failed on a fresh reserve", g)
				}
			}
		}()
	}
	wg.Wait()
	nFirst := len(got)
	// then sequentially until exhaustion is reported
	limit := int(hi-lo)/48 + 64
	n := 0
	for ; n < limit; n++ {
		if !take("sequential") {
			break
		}
	}
	if n == limit && fail == "" {
		bad("exhaustion is never reported: %d regions of 48 bytes were handed out, the reserve (stub.Placeholder, %d bytes up to the next function) holds %d", len(got), hi-lo, int(hi-lo)/48)
	}
	sort.Slice(got, func(i, j int) bool { return got[i].lo < got[j].lo })
	for i, r := range got {
		if fail != "" {
			break
		}
		if r.lo < lo || r.hi > hi {
			bad("a region [slot%+d, slot%+d) lies outside stub.Placeholder's slot of %d bytes", int(r.lo)-int(lo), int(r.hi)-int(lo), hi-lo)
		}
		if i > 0 && r.lo < got[i-1].hi {
			bad("two regions overlap: [slot%+d,+48) and [slot%+d,+48) (%d handed out during the concurrent first use)", int(got[i-1].lo)-int(lo), int(r.lo)-int(lo), nFirst)
		}
	}
	if fail == "" && len(got) < int(hi-lo)/48-16 {
		bad("exhaustion was reported after %d regions although the reserve of %d bytes holds about %d", len(got), hi-lo, int(hi-lo)/48)
	}
	c.Res.Evaluations = int64(len(got)) + 1
	c.Res.Traces = 1
	c.Res.States = 1
	c.Res.Transitions = int64(len(got)) + 1
	c.Res.Nontrivial = 1
	c.Res.Extra["sampled_side_pass"] = true
	c.Res.Extra["regions_handed_out"] = len(got)
	c.Res.Extra["reserve_slot_bytes"] = int(hi - lo)
	if fail != "" {
		c.Violate("blackbox class="+strings.SplitN(fail, ":", 2)[0], "fresh process, every mmap refused: "+fail, Case{Sub: "blackbox"})
	}
	c.Finish()
}
