// Copyright 2017 The Go Authors. All rights reserved.
// Use of this source code is governed by a BSD-style
// license that can be found in the LICENSE file.

package arm64asm

import (
	"encoding/binary"
	"fmt"
)

type instArgs [5]instArg

// An instFormat describes the format of an instruction encoding.
// An instruction with 32-bit value x matches the format if x&mask == value
// and the predicator: canDecode(x) return true.
type instFormat struct {
	mask  uint32
	value uint32
	op    Op
	// args describe how to decode the instruction arguments.
	// args is stored as a fixed-size array.
	// if there are fewer than len(args) arguments, args[i] == 0 marks
	// the end of the argument list.
	args      instArgs
	canDecode func(instr uint32) bool
}

var (
	errShort   = fmt.Errorf("truncated instruction")
	errUnknown = fmt.Errorf("unknown instruction")
)

var decoderCover []bool

func init() {
	decoderCover = make([]bool, len(instFormats))
}

// Decode decodes the 4 bytes in src as a single instruction.
func Decode(src []byte) (inst Inst, err error) {
	if len(src) < 4 {
		return Inst{}, errShort
	}

	x := binary.LittleEndian.Uint32(src)

Search:
	for i := range instFormats {
		f := &instFormats[i]
		if x&f.mask != f.value {
			continue
		}
		if f.canDecode != nil && !f.canDecode(x) {
			continue
		}
		// Decode args.
		var args Args
		for j, aop := range f.args {
			if aop == 0 {
				break
			}
			arg := decodeArg(aop, x)
			if arg == nil { // Cannot decode argument
				continue Search
			}
			args[j] = arg
		}
		decoderCover[i] = true
		inst = Inst{
			Op:   f.op,
			Args: args,
			Enc:  x,
		}
		return inst, nil
	}
	return Inst{}, errUnknown
}

// decodeArg decodes the arg described by aop from the instruction bits x.
// It returns nil if x cannot be decoded according to aop.
func decodeArg(aop instArg, x uint32) Arg {
	switch aop {
	default:
		return nil

	case arg_Da:
		return D0 + Reg((x>>10)&(1<<5-1))

	case arg_Dd:
		return D0 + Reg(x&(1<<5-1))

	case arg_Dm:
		return D0 + Reg((x>>16)&(1<<5-1))

	case arg_Dn:
		return D0 + Reg((x>>5)&(1<<5-1))

	case arg_Hd:
		return H0 + Reg(x&(1<<5-1))

	case arg_Hn:
		return H0 + Reg((x>>5)&(1<<5-1))

	case arg_IAddSub:
		imm12 := (x >> 10) & (1<<12 - 1)
		shift := (x >> 22) & (1<<2 - 1)
		if shift > 1 {
			return nil
		}
		shift = shift * 12
		return ImmShift{uint16(imm12), uint8(shift)}

	case arg_Sa:
		return S0 + Reg((x>>10)&(1<<5-1))

	case arg_Sd:
		return S0 + Reg(x&(1<<5-1))

	case arg_Sm:
		return S0 + Reg((x>>16)&(1<<5-1))

	case arg_Sn:
		return S0 + Reg((x>>5)&(1<<5-1))

	case arg_Wa:
		return W0 + Reg((x>>10)&(1<<5-1))

	case arg_Wd:
		return W0 + Reg(x&(1<<5-1))

	case arg_Wds:
		return RegSP(W0) + RegSP(x&(1<<5-1))

	case arg_Wm:
		return W0 + Reg((x>>16)&(1<<5-1))

	case arg_Rm_extend__UXTB_0__UXTH_1__UXTW_2__LSL_UXTX_3__SXTB_4__SXTH_5__SXTW_6__SXTX_7__0_4:
		return handle_ExtendedRegister(x, true)

	case arg_Wm_extend__UXTB_0__UXTH_1__LSL_UXTW_2__UXTX_3__SXTB_4__SXTH_5__SXTW_6__SXTX_7__0_4:
		return handle_ExtendedRegister(x, false)

	case arg_Wn:
		return W0 + Reg((x>>5)&(1<<5-1))

	case arg_Wns:
		return RegSP(W0) + RegSP((x>>5)&(1<<5-1))

	case arg_Xa:
		return X0 + Reg((x>>10)&(1<<5-1))

	case arg_Xd:
		return X0 + Reg(x&(1<<5-1))

	case arg_Xds:
		return RegSP(X0) + RegSP(x&(1<<5-1))

	case arg_Xm:
		return X0 + Reg((x>>16)&(1<<5-1))

	case arg_Wm_shift__LSL_0__LSR_1__ASR_2__0_31:
		return handle_ImmediateShiftedRegister(x, 31, true, false)

	case arg_Wm_shift__LSL_0__LSR_1__ASR_2__ROR_3__0_31:
		return handle_ImmediateShiftedRegister(x, 31, true, true)

	case arg_Xm_shift__LSL_0__LSR_1__ASR_2__0_63:
		return handle_ImmediateShiftedRegister(x, 63, false, false)

	case arg_Xm_shift__LSL_0__LSR_1__ASR_2__ROR_3__0_63:
		return handle_ImmediateShiftedRegister(x, 63, false, true)

	case arg_Xn:
		return X0 + Reg((x>>5)&(1<<5-1))

	case arg_Xns:
		return RegSP(X0) + RegSP((x>>5)&(1<<5-1))

	case arg_slabel_imm14_2:
		imm14 := ((x >> 5) & (1<<14 - 1))
		return PCRel(((int64(imm14) << 2) << 48) >> 48)

	case arg_slabel_imm19_2:
		imm19 := ((x >> 5) & (1<<19 - 1))
		return PCRel(((int64(imm19) << 2) << 43) >> 43)

	case arg_slabel_imm26_2:
		imm26 := (x & (1<<26 - 1))
		return PCRel(((int64(imm26) << 2) << 36) >> 36)

	case arg_slabel_immhi_immlo_0:
		immhi := ((x >> 5) & (1<<19 - 1))
		immlo := ((x >> 29) & (1<<2 - 1))
		immhilo := (immhi)<<2 | immlo
		return PCRel((int64(immhilo) << 43) >> 43)

	case arg_slabel_immhi_immlo_12:
		immhi := ((x >> 5) & (1<<19 - 1))
		immlo := ((x >> 29) & (1<<2 - 1))
		immhilo := (immhi)<<2 | immlo
		return PCRel(((int64(immhilo) << 12) << 31) >> 31)

	case arg_Xns_mem:
		Rn := RegSP(X0) + RegSP(x>>5&(1<<5-1))
		return MemImmediate{Rn, AddrOffset, 0}

	case arg_Xns_mem_extend_m__UXTW_2__LSL_3__SXTW_6__SXTX_7__0_0__1_1:
		return handle_MemExtend(x, 1, false)

	case arg_Xns_mem_extend_m__UXTW_2__LSL_3__SXTW_6__SXTX_7__0_0__2_1:
		return handle_MemExtend(x, 2, false)

	case arg_Xns_mem_extend_m__UXTW_2__LSL_3__SXTW_6__SXTX_7__0_0__3_1:
		return handle_MemExtend(x, 3, false)

	case arg_Xns_mem_extend_m__UXTW_2__LSL_3__SXTW_6__SXTX_7__absent_0__0_1:
		return handle_MemExtend(x, 1, true)

	case arg_Xns_mem_optional_imm12_1_unsigned:
		Rn := RegSP(X0) + RegSP(x>>5&(1<<5-1))
		imm12 := (x >> 10) & (1<<12 - 1)
		return MemImmediate{Rn, AddrOffset, int32(imm12)}

	case arg_Xns_mem_optional_imm12_2_unsigned:
		Rn := RegSP(X0) + RegSP(x>>5&(1<<5-1))
		imm12 := (x >> 10) & (1<<12 - 1)
		return MemImmediate{Rn, AddrOffset, int32(imm12 << 1)}

	case arg_Xns_mem_optional_imm12_4_unsigned:
		Rn := RegSP(X0) + RegSP(x>>5&(1<<5-1))
		imm12 := (x >> 10) & (1<<12 - 1)
		return MemImmediate{Rn, AddrOffset, int32(imm12 << 2)}

	case arg_Xns_mem_optional_imm12_8_unsigned:
		Rn := RegSP(X0) + RegSP(x>>5&(1<<5-1))
		imm12 := (x >> 10) & (1<<12 - 1)
		return MemImmediate{Rn, AddrOffset, int32(imm12 << 3)}

	case arg_Xns_mem_optional_imm7_4_signed:
		Rn := RegSP(X0) + RegSP(x>>5&(1<<5-1))
		imm7 := (x >> 15) & (1<<7 - 1)
		return MemImmediate{Rn, AddrOffset, ((int32(imm7 << 2)) << 23) >> 23}

	case arg_Xns_mem_optional_imm7_8_signed:
		Rn := RegSP(X0) + RegSP(x>>5&(1<<5-1))
		imm7 := (x >> 15) & (1<<7 - 1)
		return MemImmediate{Rn, AddrOffset, ((int32(imm7 << 3)) << 22) >> 22}

	case arg_Xns_mem_optional_imm9_1_signed:
		Rn := RegSP(X0) + RegSP(x>>5&(1<<5-1))
		imm9 := (x >> 12) & (1<<9 - 1)
		return MemImmediate{Rn, AddrOffset, (int32(imm9) << 23) >> 23}

	case arg_Xns_mem_post_imm7_4_signed:
		Rn := RegSP(X0) + RegSP(x>>5&(1<<5-1))
		imm7 := (x >> 15) & (1<<7 - 1)
		return MemImmediate{Rn, AddrPostIndex, ((int32(imm7 << 2)) << 23) >> 23}

	case arg_Xns_mem_post_imm7_8_signed:
		Rn := RegSP(X0) + RegSP(x>>5&(1<<5-1))
		imm7 := (x >> 15) & (1<<7 - 1)
		return MemImmediate{Rn, AddrPostIndex, ((int32(imm7 << 3)) << 22) >> 22}

	case arg_Xns_mem_post_imm9_1_signed:
		Rn := RegSP(X0) + RegSP(x>>5&(1<<5-1))
		imm9 := (x >> 12) & (1<<9 - 1)
		return MemImmediate{Rn, AddrPostIndex, ((int32(imm9)) << 23) >> 23}

	case arg_Xns_mem_wb_imm7_4_signed:
		Rn := RegSP(X0) + RegSP(x>>5&(1<<5-1))
		imm7 := (x >> 15) & (1<<7 - 1)
		return MemImmediate{Rn, AddrPreIndex, ((int32(imm7 << 2)) << 23) >> 23}

	case arg_Xns_mem_wb_imm7_8_signed:
		Rn := RegSP(X0) + RegSP(x>>5&(1<<5-1))
		imm7 := (x >> 15) & (1<<7 - 1)
		return MemImmediate{Rn, AddrPreIndex, ((int32(imm7 << 3)) << 22) >> 22}

	case arg_Xns_mem_wb_imm9_1_signed:
		Rn := RegSP(X0) + RegSP(x>>5&(1<<5-1))
		imm9 := (x >> 12) & (1<<9 - 1)
		return MemImmediate{Rn, AddrPreIndex, ((int32(imm9)) << 23) >> 23}

	case arg_Ws:
		return W0 + Reg((x>>16)&(1<<5-1))

	case arg_Wt:
		return W0 + Reg(x&(1<<5-1))

	case arg_Wt2:
		return W0 + Reg((x>>10)&(1<<5-1))

	case arg_Xs:
		return X0 + Reg((x>>16)&(1<<5-1))

	case arg_Xt:
		return X0 + Reg(x&(1<<5-1))

	case arg_Xt2:
		return X0 + Reg((x>>10)&(1<<5-1))

	case arg_immediate_0_127_CRm_op2:
		crm_op2 := (x >> 5) & (1<<7 - 1)
		return Imm_hint(crm_op2)

	case arg_immediate_0_15_CRm:
		crm := (x >> 8) & (1<<4 - 1)
		return Imm{crm, false}

	case arg_immediate_0_15_nzcv:
		nzcv := x & (1<<4 - 1)
		return Imm{nzcv, false}

	case arg_immediate_0_31_imm5:
		imm5 := (x >> 16) & (1<<5 - 1)
		return Imm{imm5, false}

	case arg_immediate_0_31_immr:
		immr := (x >> 16) & (1<<6 - 1)
		if immr > 31 {
			return nil
		}
		return Imm{immr, false}

	case arg_immediate_0_31_imms:
		imms := (x >> 10) & (1<<6 - 1)
		if imms > 31 {
			return nil
		}
		return Imm{imms, true}

	case arg_immediate_0_63_b5_b40:
		b5 := (x >> 31) & 1
		b40 := (x >> 19) & (1<<5 - 1)
		return Imm{(b5 << 5) | b40, true}

	case arg_immediate_0_63_immr:
		immr := (x >> 16) & (1<<6 - 1)
		return Imm{immr, false}

	case arg_immediate_0_63_imms:
		imms := (x >> 10) & (1<<6 - 1)
		return Imm{imms, true}

	case arg_immediate_0_65535_imm16:
		imm16 := (x >> 5) & (1<<16 - 1)
		return Imm{imm16, false}

	case arg_immediate_0_7_op1:
		op1 := (x >> 16) & (1<<3 - 1)
		return Imm{op1, true}

	case arg_immediate_0_7_op2:
		op2 := (x >> 5) & (1<<3 - 1)
		return Imm{op2, true}

	case arg_immediate_ASR_SBFM_32M_bitfield_0_31_immr:
		immr := (x >> 16) & (1<<6 - 1)
		if immr > 31 {
			return nil
		}
		return Imm{immr, true}

	case arg_immediate_ASR_SBFM_64M_bitfield_0_63_immr:
		immr := (x >> 16) & (1<<6 - 1)
		return Imm{immr, true}

	case arg_immediate_BFI_BFM_32M_bitfield_lsb_32_immr:
		immr := (x >> 16) & (1<<6 - 1)
		if immr > 31 {
			return nil
		}
		return Imm{32 - immr, true}

	case arg_immediate_BFI_BFM_32M_bitfield_width_32_imms:
		imms := (x >> 10) & (1<<6 - 1)
		if imms > 31 {
			return nil
		}
		return Imm{imms + 1, true}

	case arg_immediate_BFI_BFM_64M_bitfield_lsb_64_immr:
		immr := (x >> 16) & (1<<6 - 1)
		return Imm{64 - immr, true}

	case arg_immediate_BFI_BFM_64M_bitfield_width_64_imms:
		imms := (x >> 10) & (1<<6 - 1)
		return Imm{imms + 1, true}

	case arg_immediate_BFXIL_BFM_32M_bitfield_lsb_32_immr:
		immr := (x >> 16) & (1<<6 - 1)
		if immr > 31 {
			return nil
		}
		return Imm{immr, true}

	case arg_immediate_BFXIL_BFM_32M_bitfield_width_32_imms:
		immr := (x >> 16) & (1<<6 - 1)
		imms := (x >> 10) & (1<<6 - 1)
		width := imms - immr + 1
		if width < 1 || width > 32-immr {
			return nil
		}
		return Imm{width, true}

	case arg_immediate_BFXIL_BFM_64M_bitfield_lsb_64_immr:
		immr := (x >> 16) & (1<<6 - 1)
		return Imm{immr, true}

	case arg_immediate_BFXIL_BFM_64M_bitfield_width_64_imms:
		immr := (x >> 16) & (1<<6 - 1)
		imms := (x >> 10) & (1<<6 - 1)
		width := imms - immr + 1
		if width < 1 || width > 64-immr {
			return nil
		}
		return Imm{width, true}

	case arg_immediate_bitmask_32_imms_immr:
		return handle_bitmasks(x, 32)

	case arg_immediate_bitmask_64_N_imms_immr:
		return handle_bitmasks(x, 64)

	case arg_immediate_LSL_UBFM_32M_bitfield_0_31_immr:
		imms := (x >> 10) & (1<<6 - 1)
		shift := 31 - imms
		if shift > 31 {
			return nil
		}
		return Imm{shift, true}

	case arg_immediate_LSL_UBFM_64M_bitfield_0_63_immr:
		imms := (x >> 10) & (1<<6 - 1)
		shift := 63 - imms
		if shift > 63 {
			return nil
		}
		return Imm{shift, true}

	case arg_immediate_LSR_UBFM_32M_bitfield_0_31_immr:
		immr := (x >> 16) & (1<<6 - 1)
		if immr > 31 {
			return nil
		}
		return Imm{immr, true}

	case arg_immediate_LSR_UBFM_64M_bitfield_0_63_immr:
		immr := (x >> 16) & (1<<6 - 1)
		return Imm{immr, true}

	case arg_immediate_optional_0_15_CRm:
		crm := (x >> 8) & (1<<4 - 1)
		return Imm_clrex(crm)

	case arg_immediate_optional_0_65535_imm16:
		imm16 := (x >> 5) & (1<<16 - 1)
		return Imm_dcps(imm16)

	case arg_immediate_OptLSL_amount_16_0_16:
		imm16 := (x >> 5) & (1<<16 - 1)
		hw := (x >> 21) & (1<<2 - 1)
		shift := hw * 16
		if shift > 16 {
			return nil
		}
		return ImmShift{uint16(imm16), uint8(shift)}

	case arg_immediate_OptLSL_amount_16_0_48:
		imm16 := (x >> 5) & (1<<16 - 1)
		hw := (x >> 21) & (1<<2 - 1)
		shift := hw * 16
		return ImmShift{uint16(imm16), uint8(shift)}

	case arg_immediate_SBFIZ_SBFM_32M_bitfield_lsb_32_immr:
		immr := (x >> 16) & (1<<6 - 1)
		if immr > 31 {
			return nil
		}
		return Imm{32 - immr, true}

	case arg_immediate_SBFIZ_SBFM_32M_bitfield_width_32_imms:
		imms := (x >> 10) & (1<<6 - 1)
		if imms > 31 {
			return nil
		}
		return Imm{imms + 1, true}

	case arg_immediate_SBFIZ_SBFM_64M_bitfield_lsb_64_immr:
		immr := (x >> 16) & (1<<6 - 1)
		return Imm{64 - immr, true}

	case arg_immediate_SBFIZ_SBFM_64M_bitfield_width_64_imms:
		imms := (x >> 10) & (1<<6 - 1)
		return Imm{imms + 1, true}

	case arg_immediate_SBFX_SBFM_32M_bitfield_lsb_32_immr:
		immr := (x >> 16) & (1<<6 - 1)
		if immr > 31 {
			return nil
		}
		return Imm{immr, true}

	case arg_immediate_SBFX_SBFM_32M_bitfield_width_32_imms:
		immr := (x >> 16) & (1<<6 - 1)
		imms := (x >> 10) & (1<<6 - 1)
		width := imms - immr + 1
		if width < 1 || width > 32-immr {
			return nil
		}
		return Imm{width, true}

	case arg_immediate_SBFX_SBFM_64M_bitfield_lsb_64_immr:
		immr := (x >> 16) & (1<<6 - 1)
		return Imm{immr, true}

	case arg_immediate_SBFX_SBFM_64M_bitfield_width_64_imms:
		immr := (x >> 16) & (1<<6 - 1)
		imms := (x >> 10) & (1<<6 - 1)
		width := imms - immr + 1
		if width < 1 || width > 64-immr {
			return nil
		}
		return Imm{width, true}

	case arg_immediate_shift_32_implicit_imm16_hw:
		imm16 := (x >> 5) & (1<<16 - 1)
		hw := (x >> 21) & (1<<2 - 1)
		shift := hw * 16
		if shift > 16 {
			return nil
		}
		result := uint32(imm16) << shift
		return Imm{result, false}

	case arg_immediate_shift_32_implicit_inverse_imm16_hw:
		imm16 := (x >> 5) & (1<<16 - 1)
		hw := (x >> 21) & (1<<2 - 1)
		shift := hw * 16
		if shift > 16 {
			return nil
		}
		result := uint32(imm16) << shift
		return Imm{^result, false}

	case arg_immediate_shift_64_implicit_imm16_hw:
		imm16 := (x >> 5) & (1<<16 - 1)
		hw := (x >> 21) & (1<<2 - 1)
		shift := hw * 16
		result := uint64(imm16) << shift
		return Imm64{result, false}

	case arg_immediate_shift_64_implicit_inverse_imm16_hw:
		imm16 := (x >> 5) & (1<<16 - 1)
		hw := (x >> 21) & (1<<2 - 1)
		shift := hw * 16
		result := uint64(imm16) << shift
		return Imm64{^result, false}

	case arg_immediate_UBFIZ_UBFM_32M_bitfield_lsb_32_immr:
		immr := (x >> 16) & (1<<6 - 1)
		if immr > 31 {
			return nil
		}
		return Imm{32 - immr, true}

	case arg_immediate_UBFIZ_UBFM_32M_bitfield_width_32_imms:
		imms := (x >> 10) & (1<<6 - 1)
		if imms > 31 {
			return nil
		}
		return Imm{imms + 1, true}

	case arg_immediate_UBFIZ_UBFM_64M_bitfield_lsb_64_immr:
		immr := (x >> 16) & (1<<6 - 1)
		return Imm{64 - immr, true}

	case arg_immediate_UBFIZ_UBFM_64M_bitfield_width_64_imms:
		imms := (x >> 10) & (1<<6 - 1)
		return Imm{imms + 1, true}

	case arg_immediate_UBFX_UBFM_32M_bitfield_lsb_32_immr:
		immr := (x >> 16) & (1<<6 - 1)
		if immr > 31 {
			return nil
		}
		return Imm{immr, true}

	case arg_immediate_UBFX_UBFM_32M_bitfield_width_32_imms:
		immr := (x >> 16) & (1<<6 - 1)
		imms := (x >> 10) & (1<<6 - 1)
		width := imms - immr + 1
		if width < 1 || width > 32-immr {
			return nil
		}
		return Imm{width, true}

	case arg_immediate_UBFX_UBFM_64M_bitfield_lsb_64_immr:
		immr := (x >> 16) & (1<<6 - 1)
		return Imm{immr, true}

	case arg_immediate_UBFX_UBFM_64M_bitfield_width_64_imms:
		immr := (x >> 16) & (1<<6 - 1)
		imms := (x >> 10) & (1<<6 - 1)
		width := imms - immr + 1
		if width < 1 || width > 64-immr {
			return nil
		}
		return Imm{width, true}

	case arg_Rt_31_1__W_0__X_1:
		b5 := (x >> 31) & 1
		Rt := x & (1<<5 - 1)
		if b5 == 0 {
			return W0 + Reg(Rt)
		} else {
			return X0 + Reg(Rt)
		}

	case arg_cond_AllowALNV_Normal:
		cond := (x >> 12) & (1<<4 - 1)
		return Cond{uint8(cond), false}

	case arg_conditional:
		cond := x & (1<<4 - 1)
		return Cond{uint8(cond), false}

	case arg_cond_NotAllowALNV_Invert:
		cond := (x >> 12) & (1<<4 - 1)
		if (cond >> 1) == 7 {
			return nil
		}
		return Cond{uint8(cond), true}

	case arg_Cm:
		CRm := (x >> 8) & (1<<4 - 1)
		return Imm_c(CRm)

	case arg_Cn:
		CRn := (x >> 12) & (1<<4 - 1)
		return Imm_c(CRn)

	case arg_option_DMB_BO_system_CRm:
		CRm := (x >> 8) & (1<<4 - 1)
		return Imm_option(CRm)

	case arg_option_DSB_BO_system_CRm:
		CRm := (x >> 8) & (1<<4 - 1)
		return Imm_option(CRm)

	case arg_option_ISB_BI_system_CRm:
		CRm := (x >> 8) & (1<<4 - 1)
		if CRm == 15 {
			return Imm_option(CRm)
		}
		return Imm{CRm, false}

	case arg_prfop_Rt:
		Rt := x & (1<<5 - 1)
		return Imm_prfop(Rt)

	case arg_pstatefield_op1_op2__SPSel_05__DAIFSet_36__DAIFClr_37:
		op1 := (x >> 16) & (1<<3 - 1)
		op2 := (x >> 5) & (1<<3 - 1)
		if (op1 == 0) && (op2 == 5) {
			return SPSel
		} else if (op1 == 3) && (op2 == 6) {
			return DAIFSet
		} else if (op1 == 3) && (op2 == 7) {
			return DAIFClr
		}
		return nil

	case arg_sysreg_o0_op1_CRn_CRm_op2:
		op0 := (x >> 19) & (1<<2 - 1)
		op1 := (x >> 16) & (1<<3 - 1)
		CRn := (x >> 12) & (1<<4 - 1)
		CRm := (x >> 8) & (1<<4 - 1)
		op2 := (x >> 5) & (1<<3 - 1)
		return Systemreg{uint8(op0), uint8(op1), uint8(CRn), uint8(CRm), uint8(op2)}

	case arg_sysop_AT_SYS_CR_system:
		//TODO: system instruction
		return nil

	case arg_sysop_SYS_CR_system:
		//TODO: system instruction
		return nil

	case arg_sysop_DC_SYS_CR_system, arg_sysop_TLBI_SYS_CR_system:
		op1 := (x >> 16) & 7
		cn := (x >> 12) & 15
		cm := (x >> 8) & 15
		op2 := (x >> 5) & 7
		sysInst := sysInstFields{uint8(op1), uint8(cn), uint8(cm), uint8(op2)}
		attrs := sysInst.getAttrs()
		reg := int(x & 31)
		if !attrs.hasOperand2 {
			if reg == 31 {
				return sysOp{sysInst, 0, false}
			}
			// This instruction is undefined if the Rt field is not set to 31.
			return nil
		}
		return sysOp{sysInst, X0 + Reg(reg), true}

	case arg_Bt:
		return B0 + Reg(x&(1<<5-1))

	case arg_Dt:
		return D0 + Reg(x&(1<<5-1))

	case arg_Dt2:
		return D0 + Reg((x>>10)&(1<<5-1))

	case arg_Ht:
		return H0 + Reg(x&(1<<5-1))

	case arg_immediate_0_63_immh_immb__UIntimmhimmb64_8:
		immh := (x >> 19) & (1<<4 - 1)
		if (immh & 8) == 0 {
			return nil
		}
		immb := (x >> 16) & (1<<3 - 1)
		return Imm{(immh << 3) + immb - 64, true}

	case arg_immediate_0_width_immh_immb__SEEAdvancedSIMDmodifiedimmediate_0__UIntimmhimmb8_1__UIntimmhimmb16_2__UIntimmhimmb32_4:
		immh := (x >> 19) & (1<<4 - 1)
		immb := (x >> 16) & (1<<3 - 1)
		if immh == 1 {
			return Imm{(immh << 3) + immb - 8, true}
		} else if (immh >> 1) == 1 {
			return Imm{(immh << 3) + immb - 16, true}
		} else if (immh >> 2) == 1 {
			return Imm{(immh << 3) + immb - 32, true}
		} else {
			return nil
		}

	case arg_immediate_0_width_immh_immb__SEEAdvancedSIMDmodifiedimmediate_0__UIntimmhimmb8_1__UIntimmhimmb16_2__UIntimmhimmb32_4__UIntimmhimmb64_8:
		fallthrough

	case arg_immediate_0_width_m1_immh_immb__UIntimmhimmb8_1__UIntimmhimmb16_2__UIntimmhimmb32_4__UIntimmhimmb64_8:
		immh := (x >> 19) & (1<<4 - 1)
		immb := (x >> 16) & (1<<3 - 1)
		if immh == 1 {
			return Imm{(immh << 3) + immb - 8, true}
		} else if (immh >> 1) == 1 {
			return Imm{(immh << 3) + immb - 16, true}
		} else if (immh >> 2) == 1 {
			return Imm{(immh << 3) + immb - 32, true}
		} else if (immh >> 3) == 1 {
			return Imm{(immh << 3) + immb - 64, true}
		} else {
			return nil
		}

	case arg_immediate_0_width_size__8_0__16_1__32_2:
		size := (x >> 22) & (1<<2 - 1)
		switch size {
		case 0:
			return Imm{8, true}
		case 1:
			return Imm{16, true}
		case 2:
			return Imm{32, true}
		default:
			return nil
		}

	case arg_immediate_1_64_immh_immb__128UIntimmhimmb_8:
		immh := (x >> 19) & (1<<4 - 1)
		if (immh & 8) == 0 {
			return nil
		}
		immb := (x >> 16) & (1<<3 - 1)
		return Imm{128 - ((immh << 3) + immb), true}

	case arg_immediate_1_width_immh_immb__16UIntimmhimmb_1__32UIntimmhimmb_2__64UIntimmhimmb_4:
		fallthrough

	case arg_immediate_1_width_immh_immb__SEEAdvancedSIMDmodifiedimmediate_0__16UIntimmhimmb_1__32UIntimmhimmb_2__64UIntimmhimmb_4:
		immh := (x >> 19) & (1<<4 - 1)
		immb := (x >> 16) & (1<<3 - 1)
		if immh == 1 {
			return Imm{16 - ((immh << 3) + immb), true}
		} else if (immh >> 1) == 1 {
			return Imm{32 - ((immh << 3) + immb), true}
		} else if (immh >> 2) == 1 {
			return Imm{64 - ((immh << 3) + immb), true}
		} else {
			return nil
		}

	case arg_immediate_1_width_immh_immb__SEEAdvancedSIMDmodifiedimmediate_0__16UIntimmhimmb_1__32UIntimmhimmb_2__64UIntimmhimmb_4__128UIntimmhimmb_8:
		immh := (x >> 19) & (1<<4 - 1)
		immb := (x >> 16) & (1<<3 - 1)
		if immh == 1 {
			return Imm{16 - ((immh << 3) + immb), true}
		} else if (immh >> 1) == 1 {
			return Imm{32 - ((immh << 3) + immb), true}
		} else if (immh >> 2) == 1 {
			return Imm{64 - ((immh << 3) + immb), true}
		} else if (immh >> 3) == 1 {
			return Imm{128 - ((immh << 3) + immb), true}
		} else {
			return nil
		}

	case arg_immediate_8x8_a_b_c_d_e_f_g_h:
		var imm uint64
		if x&(1<<5) != 0 {
			imm = (1 << 8) - 1
		} else {
			imm = 0
		}
		if x&(1<<6) != 0 {
			imm += ((1 << 8) - 1) << 8
		}
		if x&(1<<7) != 0 {
			imm += ((1 << 8) - 1) << 16
		}
		if x&(1<<8) != 0 {
			imm += ((1 << 8) - 1) << 24
		}
		if x&(1<<9) != 0 {
			imm += ((1 << 8) - 1) << 32
		}
		if x&(1<<16) != 0 {
			imm += ((1 << 8) - 1) << 40
		}
		if x&(1<<17) != 0 {
			imm += ((1 << 8) - 1) << 48
		}
		if x&(1<<18) != 0 {
			imm += ((1 << 8) - 1) << 56
		}
		return Imm64{imm, false}

	case arg_immediate_exp_3_pre_4_a_b_c_d_e_f_g_h:
		pre := (x >> 5) & (1<<4 - 1)
		exp := 1 - ((x >> 17) & 1)
		exp = (exp << 2) + (((x >> 16) & 1) << 1) + ((x >> 9) & 1)
		s := ((x >> 18) & 1)
		return Imm_fp{uint8(s), int8(exp) - 3, uint8(pre)}

	case arg_immediate_exp_3_pre_4_imm8:
		pre := (x >> 13) & (1<<4 - 1)
		exp := 1 - ((x >> 19) & 1)
		exp = (exp << 2) + ((x >> 17) & (1<<2 - 1))
		s := ((x >> 20) & 1)
		return Imm_fp{uint8(s), int8(exp) - 3, uint8(pre)}

	case arg_immediate_fbits_min_1_max_0_sub_0_immh_immb__64UIntimmhimmb_4__128UIntimmhimmb_8:
		fallthrough

	case arg_immediate_fbits_min_1_max_0_sub_0_immh_immb__SEEAdvancedSIMDmodifiedimmediate_0__64UIntimmhimmb_4__128UIntimmhimmb_8:
		immh := (x >> 19) & (1<<4 - 1)
		immb := (x >> 16) & (1<<3 - 1)
		if (immh >> 2) == 1 {
			return Imm{64 - ((immh << 3) + immb), true}
		} else if (immh >> 3) == 1 {
			return Imm{128 - ((immh << 3) + immb), true}
		} else {
			return nil
		}

	case arg_immediate_fbits_min_1_max_32_sub_64_scale:
		scale := (x >> 10) & (1<<6 - 1)
		fbits := 64 - scale
		if fbits > 32 {
			return nil
		}
		return Imm{fbits, true}

	case arg_immediate_fbits_min_1_max_64_sub_64_scale:
		scale := (x >> 10) & (1<<6 - 1)
		fbits := 64 - scale
		return Imm{fbits, true}

	case arg_immediate_floatzero:
		return Imm{0, true}

	case arg_immediate_index_Q_imm4__imm4lt20gt_00__imm4_10:
		Q := (x >> 30) & 1
		imm4 := (x >> 11) & (1<<4 - 1)
		if Q == 1 || (imm4>>3) == 0 {
			return Imm{imm4, true}
		} else {
			return nil
		}

	case arg_immediate_MSL__a_b_c_d_e_f_g_h_cmode__8_0__16_1:
		var shift uint8
		imm8 := (x >> 16) & (1<<3 - 1)
		imm8 = (imm8 << 5) | ((x >> 5) & (1<<5 - 1))
		if (x>>12)&1 == 0 {
			shift = 8 + 128
		} else {
			shift = 16 + 128
		}
		return ImmShift{uint16(imm8), shift}

	case arg_immediate_OptLSL__a_b_c_d_e_f_g_h_cmode__0_0__8_1:
		imm8 := (x >> 16) & (1<<3 - 1)
		imm8 = (imm8 << 5) | ((x >> 5) & (1<<5 - 1))
		cmode1 := (x >> 13) & 1
		shift := 8 * cmode1
		return ImmShift{uint16(imm8), uint8(shift)}

	case arg_immediate_OptLSL__a_b_c_d_e_f_g_h_cmode__0_0__8_1__16_2__24_3:
		imm8 := (x >> 16) & (1<<3 - 1)
		imm8 = (imm8 << 5) | ((x >> 5) & (1<<5 - 1))
		cmode1 := (x >> 13) & (1<<2 - 1)
		shift := 8 * cmode1
		return ImmShift{uint16(imm8), uint8(shift)}

	case arg_immediate_OptLSLZero__a_b_c_d_e_f_g_h:
		imm8 := (x >> 16) & (1<<3 - 1)
		imm8 = (imm8 << 5) | ((x >> 5) & (1<<5 - 1))
		return ImmShift{uint16(imm8), 0}

	case arg_immediate_zero:
		return Imm{0, true}

	case arg_Qd:
		return Q0 + Reg(x&(1<<5-1))

	case arg_Qn:
		return Q0 + Reg((x>>5)&(1<<5-1))

	case arg_Qt:
		return Q0 + Reg(x&(1<<5-1))

	case arg_Qt2:
		return Q0 + Reg((x>>10)&(1<<5-1))

	case arg_Rn_16_5__W_1__W_2__W_4__X_8:
		imm5 := (x >> 16) & (1<<5 - 1)
		if ((imm5 & 1) == 1) || ((imm5 & 2) == 2) || ((imm5 & 4) == 4) {
			return W0 + Reg((x>>5)&(1<<5-1))
		} else if (imm5 & 8) == 8 {
			return X0 + Reg((x>>5)&(1<<5-1))
		} else {
			return nil
		}

	case arg_St:
		return S0 + Reg(x&(1<<5-1))

	case arg_St2:
		return S0 + Reg((x>>10)&(1<<5-1))

	case arg_Vd_16_5__B_1__H_2__S_4__D_8:
		imm5 := (x >> 16) & (1<<5 - 1)
		Rd := x & (1<<5 - 1)
		if imm5&1 == 1 {
			return B0 + Reg(Rd)
		} else if imm5&2 == 2 {
			return H0 + Reg(Rd)
		} else if imm5&4 == 4 {
			return S0 + Reg(Rd)
		} else if imm5&8 == 8 {
			return D0 + Reg(Rd)
		} else {
			return nil
		}

	case arg_Vd_19_4__B_1__H_2__S_4:
		immh := (x >> 19) & (1<<4 - 1)
		Rd := x & (1<<5 - 1)
		if immh == 1 {
			return B0 + Reg(Rd)
		} else if immh>>1 == 1 {
			return H0 + Reg(Rd)
		} else if immh>>2 == 1 {
			return S0 + Reg(Rd)
		} else {
			return nil
		}

	case arg_Vd_19_4__B_1__H_2__S_4__D_8:
		immh := (x >> 19) & (1<<4 - 1)
		Rd := x & (1<<5 - 1)
		if immh == 1 {
			return B0 + Reg(Rd)
		} else if immh>>1 == 1 {
			return H0 + Reg(Rd)
		} else if immh>>2 == 1 {
			return S0 + Reg(Rd)
		} else if immh>>3 == 1 {
			return D0 + Reg(Rd)
		} else {
			return nil
		}

	case arg_Vd_19_4__D_8:
		immh := (x >> 19) & (1<<4 - 1)
		Rd := x & (1<<5 - 1)
		if immh>>3 == 1 {
			return D0 + Reg(Rd)
		} else {
			return nil
		}

	case arg_Vd_19_4__S_4__D_8:
		immh := (x >> 19) & (1<<4 - 1)
		Rd := x & (1<<5 - 1)
		if immh>>2 == 1 {
			return S0 + Reg(Rd)
		} else if immh>>3 == 1 {
			return D0 + Reg(Rd)
		} else {
			return nil
		}

	case arg_Vd_22_1__S_0:
		sz := (x >> 22) & 1
		Rd := x & (1<<5 - 1)
		if sz == 0 {
			return S0 + Reg(Rd)
		} else {
			return nil
		}

	case arg_Vd_22_1__S_0__D_1:
		sz := (x >> 22) & 1
		Rd := x & (1<<5 - 1)
		if sz == 0 {
			return S0 + Reg(Rd)
		} else {
			return D0 + Reg(Rd)
		}

	case arg_Vd_22_1__S_1:
		sz := (x >> 22) & 1
		Rd := x & (1<<5 - 1)
		if sz == 1 {
			return S0 + Reg(Rd)
		} else {
			return nil
		}

	case arg_Vd_22_2__B_0__H_1__S_2:
		size := (x >> 22) & (1<<2 - 1)
		Rd := x & (1<<5 - 1)
		if size == 0 {
			return B0 + Reg(Rd)
		} else if size == 1 {
			return H0 + Reg(Rd)
		} else if size == 2 {
			return S0 + Reg(Rd)
		} else {
			return nil
		}

	case arg_Vd_22_2__B_0__H_1__S_2__D_3:
		size := (x >> 22) & (1<<2 - 1)
		Rd := x & (1<<5 - 1)
		if size == 0 {
			return B0 + Reg(Rd)
		} else if size == 1 {
			return H0 + Reg(Rd)
		} else if size == 2 {
			return S0 + Reg(Rd)
		} else {
			return D0 + Reg(Rd)
		}

	case arg_Vd_22_2__D_3:
		size := (x >> 22) & (1<<2 - 1)
		Rd := x & (1<<5 - 1)
		if size == 3 {
			return D0 + Reg(Rd)
		} else {
			return nil
		}

	case arg_Vd_22_2__H_0__S_1__D_2:
		size := (x >> 22) & (1<<2 - 1)
		Rd := x & (1<<5 - 1)
		if size == 0 {
			return H0 + Reg(Rd)
		} else if size == 1 {
			return S0 + Reg(Rd)
		} else if size == 2 {
			return D0 + Reg(Rd)
		} else {
			return nil
		}

	case arg_Vd_22_2__H_1__S_2:
		size := (x >> 22) & (1<<2 - 1)
		Rd := x & (1<<5 - 1)
		if size == 1 {
			return H0 + Reg(Rd)
		} else if size == 2 {
			return S0 + Reg(Rd)
		} else {
			return nil
		}

	case arg_Vd_22_2__S_1__D_2:
		size := (x >> 22) & (1<<2 - 1)
		Rd := x & (1<<5 - 1)
		if size == 1 {
			return S0 + Reg(Rd)
		} else if size == 2 {
			return D0 + Reg(Rd)
		} else {
			return nil
		}

	case arg_Vd_arrangement_16B:
		Rd := x & (1<<5 - 1)
		return RegisterWithArrangement{V0 + Reg(Rd), Arrangement16B, 0}

	case arg_Vd_arrangement_2D:
		Rd := x & (1<<5 - 1)
		return RegisterWithArrangement{V0 + Reg(Rd), Arrangement2D, 0}

	case arg_Vd_arrangement_4S:
		Rd := x & (1<<5 - 1)
		return RegisterWithArrangement{V0 + Reg(Rd), Arrangement4S, 0}

	case arg_Vd_arrangement_D_index__1:
		Rd := x & (1<<5 - 1)
		return RegisterWithArrangementAndIndex{V0 + Reg(Rd), ArrangementD, 1, 0}

	case arg_Vd_arrangement_imm5___B_1__H_2__S_4__D_8_index__imm5__imm5lt41gt_1__imm5lt42gt_2__imm5lt43gt_4__imm5lt4gt_8_1:
		var a Arrangement
		var index uint32
		Rd := x & (1<<5 - 1)
		imm5 := (x >> 16) & (1<<5 - 1)
		if imm5&1 == 1 {
			a = ArrangementB
			index = imm5 >> 1
		} else if imm5&2 == 2 {
			a = ArrangementH
			index = imm5 >> 2
		} else if imm5&4 == 4 {
			a = ArrangementS
			index = imm5 >> 3
		} else if imm5&8 == 8 {
			a = ArrangementD
			index = imm5 >> 4
		} else {
			return nil
		}
		return RegisterWithArrangementAndIndex{V0 + Reg(Rd), a, uint8(index), 0}

	case arg_Vd_arrangement_imm5_Q___8B_10__16B_11__4H_20__8H_21__2S_40__4S_41__2D_81:
		Rd := x & (1<<5 - 1)
		imm5 := (x >> 16) & (1<<5 - 1)
		Q := (x >> 30) & 1
		if imm5&1 == 1 {
			if Q == 0 {
				return RegisterWithArrangement{V0 + Reg(Rd), Arrangement8B, 0}
			} else {
				return RegisterWithArrangement{V0 + Reg(Rd), Arrangement16B, 0}
			}
		} else if imm5&2 == 2 {
			if Q == 0 {
				return RegisterWithArrangement{V0 + Reg(Rd), Arrangement4H, 0}
			} else {
				return RegisterWithArrangement{V0 + Reg(Rd), Arrangement8H, 0}
			}
		} else if imm5&4 == 4 {
			if Q == 0 {
				return RegisterWithArrangement{V0 + Reg(Rd), Arrangement2S, 0}
			} else {
				return RegisterWithArrangement{V0 + Reg(Rd), Arrangement4S, 0}
			}
		} else if (imm5&8 == 8) && (Q == 1) {
			return RegisterWithArrangement{V0 + Reg(Rd), Arrangement2D, 0}
		} else {
			return nil
		}

	case arg_Vd_arrangement_immh_Q___SEEAdvancedSIMDmodifiedimmediate_00__2S_40__4S_41__2D_81:
		Rd := x & (1<<5 - 1)
		immh := (x >> 19) & (1<<4 - 1)
		Q := (x >> 30) & 1
		if immh>>2 == 1 {
			if Q == 0 {
				return RegisterWithArrangement{V0 + Reg(Rd), Arrangement2S, 0}
			} else {
				return RegisterWithArrangement{V0 + Reg(Rd), Arrangement4S, 0}
			}
		} else if immh>>3 == 1 {
			if Q == 1 {
				return RegisterWithArrangement{V0 + Reg(Rd), Arrangement2D, 0}
			}
		}
		return nil

	case arg_Vd_arrangement_immh_Q___SEEAdvancedSIMDmodifiedimmediate_00__8B_10__16B_11__4H_20__8H_21__2S_40__4S_41:
		Rd := x & (1<<5 - 1)
		immh := (x >> 19) & (1<<4 - 1)
		Q := (x >> 30) & 1
		if immh == 1 {
			if Q == 0 {
				return RegisterWithArrangement{V0 + Reg(Rd), Arrangement8B, 0}
			} else {
				return RegisterWithArrangement{V0 + Reg(Rd), Arrangement16B, 0}
			}
		} else if immh>>1 == 1 {
			if Q == 0 {
				return RegisterWithArrangement{V0 + Reg(Rd), Arrangement4H, 0}
			} else {
				return RegisterWithArrangement{V0 + Reg(Rd), Arrangement8H, 0}
			}
		} else if immh>>2 == 1 {
			if Q == 0 {
				return RegisterWithArrangement{V0 + Reg(Rd), Arrangement2S, 0}
			} else {
				return RegisterWithArrangement{V0 + Reg(Rd), Arrangement4S, 0}
			}
		}
		return nil

	case arg_Vd_arrangement_immh_Q___SEEAdvancedSIMDmodifiedimmediate_00__8B_10__16B_11__4H_20__8H_21__2S_40__4S_41__2D_81:
		Rd := x & (1<<5 - 1)
		immh := (x >> 19) & (1<<4 - 1)
		Q := (x >> 30) & 1
		if immh == 1 {
			if Q == 0 {
				return RegisterWithArrangement{V0 + Reg(Rd), Arrangement8B, 0}
			} else {
				return RegisterWithArrangement{V0 + Reg(Rd), Arrangement16B, 0}
			}
		} else if immh>>1 == 1 {
			if Q == 0 {
				return RegisterWithArrangement{V0 + Reg(Rd), Arrangement4H, 0}
			} else {
				return RegisterWithArrangement{V0 + Reg(Rd), Arrangement8H, 0}
			}
		} else if immh>>2 == 1 {
			if Q == 0 {
				return RegisterWithArrangement{V0 + Reg(Rd), Arrangement2S, 0}
			} else {
				return RegisterWithArrangement{V0 + Reg(Rd), Arrangement4S, 0}
			}
		} else if immh>>3 == 1 {
			if Q == 1 {
				return RegisterWithArrangement{V0 + Reg(Rd), Arrangement2D, 0}
			}
		}
		return nil

	case arg_Vd_arrangement_immh___SEEAdvancedSIMDmodifiedimmediate_0__8H_1__4S_2__2D_4:
		Rd := x & (1<<5 - 1)
		immh := (x >> 19) & (1<<4 - 1)
		if immh == 1 {
			return RegisterWithArrangement{V0 + Reg(Rd), Arrangement8H, 0}
		} else if immh>>1 == 1 {
			return RegisterWithArrangement{V0 + Reg(Rd), Arrangement4S, 0}
		} else if immh>>2 == 1 {
			return RegisterWithArrangement{V0 + Reg(Rd), Arrangement2D, 0}
		}
		return nil

	case arg_Vd_arrangement_Q___2S_0__4S_1:
		Rd := x & (1<<5 - 1)
		Q := (x >> 30) & 1
		if Q == 0 {
			return RegisterWithArrangement{V0 + Reg(Rd), Arrangement2S, 0}
		} else {
			return RegisterWithArrangement{V0 + Reg(Rd), Arrangement4S, 0}
		}

	case arg_Vd_arrangement_Q___4H_0__8H_1:
		Rd := x & (1<<5 - 1)
		Q := (x >> 30) & 1
		if Q == 0 {
			return RegisterWithArrangement{V0 + Reg(Rd), Arrangement4H, 0}
		} else {
			return RegisterWithArrangement{V0 + Reg(Rd), Arrangement8H, 0}
		}

	case arg_Vd_arrangement_Q___8B_0__16B_1:
		Rd := x & (1<<5 - 1)
		Q := (x >> 30) & 1
		if Q == 0 {
			return RegisterWithArrangement{V0 + Reg(Rd), Arrangement8B, 0}
		} else {
			return RegisterWithArrangement{V0 + Reg(Rd), Arrangement16B, 0}
		}

	case arg_Vd_arrangement_Q_sz___2S_00__4S_10__2D_11:
		Rd := x & (1<<5 - 1)
		Q := (x >> 30) & 1
		sz := (x >> 22) & 1
		if sz == 0 && Q == 0 {
			return RegisterWithArrangement{V0 + Reg(Rd), Arrangement2S, 0}
		} else if sz == 0 && Q == 1 {
			return RegisterWithArrangement{V0 + Reg(Rd), Arrangement4S, 0}
		} else if sz == 1 && Q == 1 {
			return RegisterWithArrangement{V0 + Reg(Rd), Arrangement2D, 0}
		}
		return nil

	case arg_Vd_arrangement_size___4S_1__2D_2:
		Rd := x & (1<<5 - 1)
		size := (x >> 22) & 3
		if size == 1 {
			return RegisterWithArrangement{V0 + Reg(Rd), Arrangement4S, 0}
		} else if size == 2 {
			return RegisterWithArrangement{V0 + Reg(Rd), Arrangement2D, 0}
		}
		return nil

	case arg_Vd_arrangement_size___8H_0__1Q_3:
		Rd := x & (1<<5 - 1)
		size := (x >> 22) & 3
		if size == 0 {
			return RegisterWithArrangement{V0 + Reg(Rd), Arrangement8H, 0}
		} else if size == 3 {
			return RegisterWithArrangement{V0 + Reg(Rd), Arrangement1Q, 0}
		}
		return nil

	case arg_Vd_arrangement_size___8H_0__4S_1__2D_2:
		Rd := x & (1<<5 - 1)
		size := (x >> 22) & 3
		if size == 0 {
			return RegisterWithArrangement{V0 + Reg(Rd), Arrangement8H, 0}
		} else if size == 1 {
			return RegisterWithArrangement{V0 + Reg(Rd), Arrangement4S, 0}
		} else if size == 2 {
			return RegisterWithArrangement{V0 + Reg(Rd), Arrangement2D, 0}
		}
		return nil

	case arg_Vd_arrangement_size_Q___4H_00__8H_01__2S_10__4S_11__1D_20__2D_21:
		Rd := x & (1<<5 - 1)
		size := (x >> 22) & 3
		Q := (x >> 30) & 1
		if size == 0 && Q == 0 {
			return RegisterWithArrangement{V0 + Reg(Rd), Arrangement4H, 0}
		} else if size == 0 && Q == 1 {
			return RegisterWithArrangement{V0 + Reg(Rd), Arrangement8H, 0}
		} else if size == 1 && Q == 0 {
			return RegisterWithArrangement{V0 + Reg(Rd), Arrangement2S, 0}
		} else if size == 1 && Q == 1 {
			return RegisterWithArrangement{V0 + Reg(Rd), Arrangement4S, 0}
		} else if size == 2 && Q == 0 {
			return RegisterWithArrangement{V0 + Reg(Rd), Arrangement1D, 0}
		} else if size == 2 && Q == 1 {
			return RegisterWithArrangement{V0 + Reg(Rd), Arrangement2D, 0}
		}
		return nil

	case arg_Vd_arrangement_size_Q___4H_10__8H_11__2S_20__4S_21:
		Rd := x & (1<<5 - 1)
		size := (x >> 22) & 3
		Q := (x >> 30) & 1
		if size == 1 && Q == 0 {
			return RegisterWithArrangement{V0 + Reg(Rd), Arrangement4H, 0}
		} else if size == 1 && Q == 1 {
			return RegisterWithArrangement{V0 + Reg(Rd), Arrangement8H, 0}
		} else if size == 2 && Q == 0 {
			return RegisterWithArrangement{V0 + Reg(Rd), Arrangement2S, 0}
		} else if size == 2 && Q == 1 {
			return RegisterWithArrangement{V0 + Reg(Rd), Arrangement4S, 0}
		}
		return nil

	case arg_Vd_arrangement_size_Q___8B_00__16B_01:
		Rd := x & (1<<5 - 1)
		size := (x >> 22) & 3
		Q := (x >> 30) & 1
		if size == 0 && Q == 0 {
			return RegisterWithArrangement{V0 + Reg(Rd), Arrangement8B, 0}
		} else if size == 0 && Q == 1 {
			return RegisterWithArrangement{V0 + Reg(Rd), Arrangement16B, 0}
		}
		return nil

	case arg_Vd_arrangement_size_Q___8B_00__16B_01__4H_10__8H_11:
		Rd := x & (1<<5 - 1)
		size := (x >> 22) & 3
		Q := (x >> 30) & 1
		if size == 0 && Q == 0 {
			return RegisterWithArrangement{V0 + Reg(Rd), Arrangement8B, 0}
		} else if size == 0 && Q == 1 {
			return RegisterWithArrangement{V0 + Reg(Rd), Arrangement16B, 0}
		} else if size == 1 && Q == 0 {
			return RegisterWithArrangement{V0 + Reg(Rd), Arrangement4H, 0}
		} else if size == 1 && Q == 1 {
			return RegisterWithArrangement{V0 + Reg(Rd), Arrangement8H, 0}
		}
		return nil

	case arg_Vd_arrangement_size_Q___8B_00__16B_01__4H_10__8H_11__2S_20__4S_21:
		Rd := x & (1<<5 - 1)
		size := (x >> 22) & 3
		Q := (x >> 30) & 1
		if size == 0 && Q == 0 {
			return RegisterWithArrangement{V0 + Reg(Rd), Arrangement8B, 0}
		} else if size == 0 && Q == 1 {
			return RegisterWithArrangement{V0 + Reg(Rd), Arrangement16B, 0}
		} else if size == 1 && Q == 0 {
			return RegisterWithArrangement{V0 + Reg(Rd), Arrangement4H, 0}
		} else if size == 1 && Q == 1 {
			return RegisterWithArrangement{V0 + Reg(Rd), Arrangement8H, 0}
		} else if size == 2 && Q == 0 {
			return RegisterWithArrangement{V0 + Reg(Rd), Arrangement2S, 0}
		} else if size == 2 && Q == 1 {
			return RegisterWithArrangement{V0 + Reg(Rd), Arrangement4S, 0}
		}
		return nil

	case arg_Vd_arrangement_size_Q___8B_00__16B_01__4H_10__8H_11__2S_20__4S_21__2D_31:
		Rd := x & (1<<5 - 1)
		size := (x >> 22) & 3
		Q := (x >> 30) & 1
		if size == 0 && Q == 0 {
			return RegisterWithArrangement{V0 + Reg(Rd), Arrangement8B, 0}
		} else if size == 0 && Q == 1 {
			return RegisterWithArrangement{V0 + Reg(Rd), Arrangement16B, 0}
		} else if size == 1 && Q == 0 {
			return RegisterWithArrangement{V0 + Reg(Rd), Arrangement4H, 0}
		} else if size == 1 && Q == 1 {
			return RegisterWithArrangement{V0 + Reg(Rd), Arrangement8H, 0}
		} else if size == 2 && Q == 0 {
			return RegisterWithArrangement{V0 + Reg(Rd), Arrangement2S, 0}
		} else if size == 2 && Q == 1 {
			return RegisterWithArrangement{V0 + Reg(Rd), Arrangement4S, 0}
		} else if size == 3 && Q == 1 {
			return RegisterWithArrangement{V0 + Reg(Rd), Arrangement2D, 0}
		}
		return nil

	case arg_Vd_arrangement_sz___4S_0__2D_1:
		Rd := x & (1<<5 - 1)
		sz := (x >> 22) & 1
		if sz == 0 {
			return RegisterWithArrangement{V0 + Reg(Rd), Arrangement4S, 0}
		} else {
			return RegisterWithArrangement{V0 + Reg(Rd), Arrangement2D, 0}
		}

	case arg_Vd_arrangement_sz_Q___2S_00__4S_01:
		Rd := x & (1<<5 - 1)
		sz := (x >> 22) & 1
		Q := (x >> 30) & 1
		if sz == 0 && Q == 0 {
			return RegisterWithArrangement{V0 + Reg(Rd), Arrangement2S, 0}
		} else if sz == 0 && Q == 1 {
			return RegisterWithArrangement{V0 + Reg(Rd), Arrangement4S, 0}
		}
		return nil

	case arg_Vd_arrangement_sz_Q___2S_00__4S_01__2D_11:
		Rd := x & (1<<5 - 1)
		sz := (x >> 22) & 1
		Q := (x >> 30) & 1
		if sz == 0 && Q == 0 {
			return RegisterWithArrangement{V0 + Reg(Rd), Arrangement2S, 0}
		} else if sz == 0 && Q == 1 {
			return RegisterWithArrangement{V0 + Reg(Rd), Arrangement4S, 0}
		} else if sz == 1 && Q == 1 {
			return RegisterWithArrangement{V0 + Reg(Rd), Arrangement2D, 0}
		}
		return nil

	case arg_Vd_arrangement_sz_Q___2S_10__4S_11:
		Rd := x & (1<<5 - 1)
		sz := (x >> 22) & 1
		Q := (x >> 30) & 1
		if sz == 1 && Q == 0 {
			return RegisterWithArrangement{V0 + Reg(Rd), Arrangement2S, 0}
		} else if sz == 1 && Q == 1 {
			return RegisterWithArrangement{V0 + Reg(Rd), Arrangement4S, 0}
		}
		return nil

	case arg_Vd_arrangement_sz_Q___4H_00__8H_01__2S_10__4S_11:
		Rd := x & (1<<5 - 1)
		sz := (x >> 22) & 1
		Q := (x >> 30) & 1
		if sz == 0 && Q == 0 {
			return RegisterWithArrangement{V0 + Reg(Rd), Arrangement4H, 0}
		} else if sz == 0 && Q == 1 {
			return RegisterWithArrangement{V0 + Reg(Rd), Arrangement8H, 0}
		} else if sz == 1 && Q == 0 {
			return RegisterWithArrangement{V0 + Reg(Rd), Arrangement2S, 0}
		} else /* sz == 1 && Q == 1 */ {
			return RegisterWithArrangement{V0 + Reg(Rd), Arrangement4S, 0}
		}

	case arg_Vm_22_1__S_0__D_1:
		sz := (x >> 22) & 1
		Rm := (x >> 16) & (1<<5 - 1)
		if sz == 0 {
			return S0 + Reg(Rm)
		} else {
			return D0 + Reg(Rm)
		}

	case arg_Vm_22_2__B_0__H_1__S_2__D_3:
		size := (x >> 22) & (1<<2 - 1)
		Rm := (x >> 16) & (1<<5 - 1)
		if size == 0 {
			return B0 + Reg(Rm)
		} else if size == 1 {
			return H0 + Reg(Rm)
		} else if size == 2 {
			return S0 + Reg(Rm)
		} else {
			return D0 + Reg(Rm)
		}

	case arg_Vm_22_2__D_3:
		size := (x >> 22) & (1<<2 - 1)
		Rm := (x >> 16) & (1<<5 - 1)
		if size == 3 {
			return D0 + Reg(Rm)
		} else {
			return nil
		}

	case arg_Vm_22_2__H_1__S_2:
		size := (x >> 22) & (1<<2 - 1)
		Rm := (x >> 16) & (1<<5 - 1)
		if size == 1 {
			return H0 + Reg(Rm)
		} else if size == 2 {
			return S0 + Reg(Rm)
		} else {
			return nil
		}

	case arg_Vm_arrangement_4S:
		Rm := (x >> 16) & (1<<5 - 1)
		return RegisterWithArrangement{V0 + Reg(Rm), Arrangement4S, 0}

	case arg_Vm_arrangement_Q___8B_0__16B_1:
		Rm := (x >> 16) & (1<<5 - 1)
		Q := (x >> 30) & 1
		if Q == 0 {
			return RegisterWithArrangement{V0 + Reg(Rm), Arrangement8B, 0}
		} else {
			return RegisterWithArrangement{V0 + Reg(Rm), Arrangement16B, 0}
		}

	case arg_Vm_arrangement_size___8H_0__4S_1__2D_2:
		Rm := (x >> 16) & (1<<5 - 1)
		size := (x >> 22) & 3
		if size == 0 {
			return RegisterWithArrangement{V0 + Reg(Rm), Arrangement8H, 0}
		} else if size == 1 {
			return RegisterWithArrangement{V0 + Reg(Rm), Arrangement4S, 0}
		} else if size == 2 {
			return RegisterWithArrangement{V0 + Reg(Rm), Arrangement2D, 0}
		}
		return nil

	case arg_Vm_arrangement_size___H_1__S_2_index__size_L_H_M__HLM_1__HL_2_1:
		var a Arrangement
		var index uint32
		var vm uint32
		Rm := (x >> 16) & (1<<4 - 1)
		size := (x >> 22) & 3
		H := (x >> 11) & 1
		L := (x >> 21) & 1
		M := (x >> 20) & 1
		if size == 1 {
			a = ArrangementH
			index = (H << 2) | (L << 1) | M
			vm = Rm
		} else if size == 2 {
			a = ArrangementS
			index = (H << 1) | L
			vm = (M << 4) | Rm
		} else {
			return nil
		}
		return RegisterWithArrangementAndIndex{V0 + Reg(vm), a, uint8(index), 0}

	case arg_Vm_arrangement_size_Q___4H_10__8H_11__2S_20__4S_21:
		Rm := (x >> 16) & (1<<5 - 1)
		size := (x >> 22) & 3
		Q := (x >> 30) & 1
		if size == 1 && Q == 0 {
			return RegisterWithArrangement{V0 + Reg(Rm), Arrangement4H, 0}
		} else if size == 1 && Q == 1 {
			return RegisterWithArrangement{V0 + Reg(Rm), Arrangement8H, 0}
		} else if size == 2 && Q == 0 {
			return RegisterWithArrangement{V0 + Reg(Rm), Arrangement2S, 0}
		} else if size == 2 && Q == 1 {
			return RegisterWithArrangement{V0 + Reg(Rm), Arrangement4S, 0}
		}
		return nil

	case arg_Vm_arrangement_size_Q___8B_00__16B_01:
		Rm := (x >> 16) & (1<<5 - 1)
		size := (x >> 22) & 3
		Q := (x >> 30) & 1
		if size == 0 && Q == 0 {
			return RegisterWithArrangement{V0 + Reg(Rm), Arrangement8B, 0}
		} else if size == 0 && Q == 1 {
			return RegisterWithArrangement{V0 + Reg(Rm), Arrangement16B, 0}
		}
		return nil

	case arg_Vm_arrangement_size_Q___8B_00__16B_01__1D_30__2D_31:
		Rm := (x >> 16) & (1<<5 - 1)
		size := (x >> 22) & 3
		Q := (x >> 30) & 1
		if size == 0 && Q == 0 {
			return RegisterWithArrangement{V0 + Reg(Rm), Arrangement8B, 0}
		} else if size == 0 && Q == 1 {
			return RegisterWithArrangement{V0 + Reg(Rm), Arrangement16B, 0}
		} else if size == 3 && Q == 0 {
			return RegisterWithArrangement{V0 + Reg(Rm), Arrangement1D, 0}
		} else if size == 3 && Q == 1 {
			return RegisterWithArrangement{V0 + Reg(Rm), Arrangement2D, 0}
		}
		return nil

	case arg_Vm_arrangement_size_Q___8B_00__16B_01__4H_10__8H_11__2S_20__4S_21:
		Rm := (x >> 16) & (1<<5 - 1)
		size := (x >> 22) & 3
		Q := (x >> 30) & 1
		if size == 0 && Q == 0 {
			return RegisterWithArrangement{V0 + Reg(Rm), Arrangement8B, 0}
		} else if size == 0 && Q == 1 {
			return RegisterWithArrangement{V0 + Reg(Rm), Arrangement16B, 0}
		} else if size == 1 && Q == 0 {
			return RegisterWithArrangement{V0 + Reg(Rm), Arrangement4H, 0}
		} else if size == 1 && Q == 1 {
			return RegisterWithArrangement{V0 + Reg(Rm), Arrangement8H, 0}
		} else if size == 2 && Q == 0 {
			return RegisterWithArrangement{V0 + Reg(Rm), Arrangement2S, 0}
		} else if size == 2 && Q == 1 {
			return RegisterWithArrangement{V0 + Reg(Rm), Arrangement4S, 0}
		}
		return nil

	case arg_Vm_arrangement_size_Q___8B_00__16B_01__4H_10__8H_11__2S_20__4S_21__2D_31:
		Rm := (x >> 16) & (1<<5 - 1)
		size := (x >> 22) & 3
		Q := (x >> 30) & 1
		if size == 0 && Q == 0 {
			return RegisterWithArrangement{V0 + Reg(Rm), Arrangement8B, 0}
		} else if size == 0 && Q == 1 {
			return RegisterWithArrangement{V0 + Reg(Rm), Arrangement16B, 0}
		} else if size == 1 && Q == 0 {
			return RegisterWithArrangement{V0 + Reg(Rm), Arrangement4H, 0}
		} else if size == 1 && Q == 1 {
			return RegisterWithArrangement{V0 + Reg(Rm), Arrangement8H, 0}
		} else if size == 2 && Q == 0 {
			return RegisterWithArrangement{V0 + Reg(Rm), Arrangement2S, 0}
		} else if size == 2 && Q == 1 {
			return RegisterWithArrangement{V0 + Reg(Rm), Arrangement4S, 0}
		} else if size == 3 && Q == 1 {
			return RegisterWithArrangement{V0 + Reg(Rm), Arrangement2D, 0}
		}
		return nil

	case arg_Vm_arrangement_sz_Q___2S_00__4S_01__2D_11:
		Rm := (x >> 16) & (1<<5 - 1)
		sz := (x >> 22) & 1
		Q := (x >> 30) & 1
		if sz == 0 && Q == 0 {
			return RegisterWithArrangement{V0 + Reg(Rm), Arrangement2S, 0}
		} else if sz == 0 && Q == 1 {
			return RegisterWithArrangement{V0 + Reg(Rm), Arrangement4S, 0}
		} else if sz == 1 && Q == 1 {
			return RegisterWithArrangement{V0 + Reg(Rm), Arrangement2D, 0}
		}
		return nil

	case arg_Vm_arrangement_sz___S_0__D_1_index__sz_L_H__HL_00__H_10_1:
		var a Arrangement
		var index uint32
		Rm := (x >> 16) & (1<<5 - 1)
		sz := (x >> 22) & 1
		H := (x >> 11) & 1
		L := (x >> 21) & 1
		if sz == 0 {
			a = ArrangementS
			index = (H << 1) | L
		} else if sz == 1 && L == 0 {
			a = ArrangementD
			index = H
		} else {
			return nil
		}
		return RegisterWithArrangementAndIndex{V0 + Reg(Rm), a, uint8(index), 0}

	case arg_Vn_19_4__B_1__H_2__S_4__D_8:
		immh := (x >> 19) & (1<<4 - 1)
		Rn := (x >> 5) & (1<<5 - 1)
		if immh == 1 {
			return B0 + Reg(Rn)
		} else if immh>>1 == 1 {
			return H0 + Reg(Rn)
		} else if immh>>2 == 1 {
			return S0 + Reg(Rn)
		} else if immh>>3 == 1 {
			return D0 + Reg(Rn)
		} else {
			return nil
		}

	case arg_Vn_19_4__D_8:
		immh := (x >> 19) & (1<<4 - 1)
		Rn := (x >> 5) & (1<<5 - 1)
		if immh>>3 == 1 {
			return D0 + Reg(Rn)
		} else {
			return nil
		}

	case arg_Vn_19_4__H_1__S_2__D_4:
		immh := (x >> 19) & (1<<4 - 1)
		Rn := (x >> 5) & (1<<5 - 1)
		if immh == 1 {
			return H0 + Reg(Rn)
		} else if immh>>1 == 1 {
			return S0 + Reg(Rn)
		} else if immh>>2 == 1 {
			return D0 + Reg(Rn)
		} else {
			return nil
		}

	case arg_Vn_19_4__S_4__D_8:
		immh := (x >> 19) & (1<<4 - 1)
		Rn := (x >> 5) & (1<<5 - 1)
		if immh>>2 == 1 {
			return S0 + Reg(Rn)
		} else if immh>>3 == 1 {
			return D0 + Reg(Rn)
		} else {
			return nil
		}

	case arg_Vn_1_arrangement_16B:
		Rn := (x >> 5) & (1<<5 - 1)
		return RegisterWithArrangement{V0 + Reg(Rn), Arrangement16B, 1}

	case arg_Vn_22_1__D_1:
		sz := (x >> 22) & 1
		Rn := (x >> 5) & (1<<5 - 1)
		if sz == 1 {
			return D0 + Reg(Rn)
		}
		return nil

	case arg_Vn_22_1__S_0__D_1:
		sz := (x >> 22) & 1
		Rn := (x >> 5) & (1<<5 - 1)
		if sz == 0 {
			return S0 + Reg(Rn)
		} else {
			return D0 + Reg(Rn)
		}

	case arg_Vn_22_2__B_0__H_1__S_2__D_3:
		size := (x >> 22) & (1<<2 - 1)
		Rn := (x >> 5) & (1<<5 - 1)
		if size == 0 {
			return B0 + Reg(Rn)
		} else if size == 1 {
			return H0 + Reg(Rn)
		} else if size == 2 {
			return S0 + Reg(Rn)
		} else {
			return D0 + Reg(Rn)
		}

	case arg_Vn_22_2__D_3:
		size := (x >> 22) & (1<<2 - 1)
		Rn := (x >> 5) & (1<<5 - 1)
		if size == 3 {
			return D0 + Reg(Rn)
		} else {
			return nil
		}

	case arg_Vn_22_2__H_0__S_1__D_2:
		size := (x >> 22) & (1<<2 - 1)
		Rn := (x >> 5) & (1<<5 - 1)
		if size == 0 {
			return H0 + Reg(Rn)
		} else if size == 1 {
			return S0 + Reg(Rn)
		} else if size == 2 {
			return D0 + Reg(Rn)
		} else {
			return nil
		}

	case arg_Vn_22_2__H_1__S_2:
		size := (x >> 22) & (1<<2 - 1)
		Rn := (x >> 5) & (1<<5 - 1)
		if size == 1 {
			return H0 + Reg(Rn)
		} else if size == 2 {
			return S0 + Reg(Rn)
		} else {
			return nil
		}

	case arg_Vn_2_arrangement_16B:
		Rn := (x >> 5) & (1<<5 - 1)
		return RegisterWithArrangement{V0 + Reg(Rn), Arrangement16B, 2}

	case arg_Vn_3_arrangement_16B:
		Rn := (x >> 5) & (1<<5 - 1)
		return RegisterWithArrangement{V0 + Reg(Rn), Arrangement16B, 3}

	case arg_Vn_4_arrangement_16B:
		Rn := (x >> 5) & (1<<5 - 1)
		return RegisterWithArrangement{V0 + Reg(Rn), Arrangement16B, 4}

	case arg_Vn_arrangement_16B:
		Rn := (x >> 5) & (1<<5 - 1)
		return RegisterWithArrangement{V0 + Reg(Rn), Arrangement16B, 0}

	case arg_Vn_arrangement_4S:
		Rn := (x >> 5) & (1<<5 - 1)
		return RegisterWithArrangement{V0 + Reg(Rn), Arrangement4S, 0}

	case arg_Vn_arrangement_D_index__1:
		Rn := (x >> 5) & (1<<5 - 1)
		return RegisterWithArrangementAndIndex{V0 + Reg(Rn), ArrangementD, 1, 0}

	case arg_Vn_arrangement_D_index__imm5_1:
		Rn := (x >> 5) & (1<<5 - 1)
		index := (x >> 20) & 1
		return RegisterWithArrangementAndIndex{V0 + Reg(Rn), ArrangementD, uint8(index), 0}

	case arg_Vn_arrangement_imm5___B_1__H_2_index__imm5__imm5lt41gt_1__imm5lt42gt_2_1:
		var a Arrangement
		var index uint32
		Rn := (x >> 5) & (1<<5 - 1)
		imm5 := (x >> 16) & (1<<5 - 1)
		if imm5&1 == 1 {
			a = ArrangementB
			index = imm5 >> 1
		} else if imm5&2 == 2 {
			a = ArrangementH
			index = imm5 >> 2
		} else {
			return nil
		}
		return RegisterWithArrangementAndIndex{V0 + Reg(Rn), a, uint8(index), 0}

	case arg_Vn_arrangement_imm5___B_1__H_2__S_4__D_8_index__imm5_imm4__imm4lt30gt_1__imm4lt31gt_2__imm4lt32gt_4__imm4lt3gt_8_1:
		var a Arrangement
		var index uint32
		Rn := (x >> 5) & (1<<5 - 1)
		imm5 := (x >> 16) & (1<<5 - 1)
		imm4 := (x >> 11) & (1<<4 - 1)
		if imm5&1 == 1 {
			a = ArrangementB
			index = imm4
		} else if imm5&2 == 2 {
			a = ArrangementH
			index = imm4 >> 1
		} else if imm5&4 == 4 {
			a = ArrangementS
			index = imm4 >> 2
		} else if imm5&8 == 8 {
			a = ArrangementD
			index = imm4 >> 3
		} else {
			return nil
		}
		return RegisterWithArrangementAndIndex{V0 + Reg(Rn), a, uint8(index), 0}

	case arg_Vn_arrangement_imm5___B_1__H_2__S_4__D_8_index__imm5__imm5lt41gt_1__imm5lt42gt_2__imm5lt43gt_4__imm5lt4gt_8_1:
		var a Arrangement
		var index uint32
		Rn := (x >> 5) & (1<<5 - 1)
		imm5 := (x >> 16) & (1<<5 - 1)
		if imm5&1 == 1 {
			a = ArrangementB
			index = imm5 >> 1
		} else if imm5&2 == 2 {
			a = ArrangementH
			index = imm5 >> 2
		} else if imm5&4 == 4 {
			a = ArrangementS
			index = imm5 >> 3
		} else if imm5&8 == 8 {
			a = ArrangementD
			index = imm5 >> 4
		} else {
			return nil
		}
		return RegisterWithArrangementAndIndex{V0 + Reg(Rn), a, uint8(index), 0}

	case arg_Vn_arrangement_imm5___B_1__H_2__S_4_index__imm5__imm5lt41gt_1__imm5lt42gt_2__imm5lt43gt_4_1:
		var a Arrangement
		var index uint32
		Rn := (x >> 5) & (1<<5 - 1)
		imm5 := (x >> 16) & (1<<5 - 1)
		if imm5&1 == 1 {
			a = ArrangementB
			index = imm5 >> 1
		} else if imm5&2 == 2 {
			a = ArrangementH
			index = imm5 >> 2
		} else if imm5&4 == 4 {
			a = ArrangementS
			index = imm5 >> 3
		} else {
			return nil
		}
		return RegisterWithArrangementAndIndex{V0 + Reg(Rn), a, uint8(index), 0}

	case arg_Vn_arrangement_imm5___D_8_index__imm5_1:
		var a Arrangement
		var index uint32
		Rn := (x >> 5) & (1<<5 - 1)
		imm5 := (x >> 16) & (1<<5 - 1)
		if imm5&15 == 8 {
			a = ArrangementD
			index = imm5 >> 4
		} else {
			return nil
		}
		return RegisterWithArrangementAndIndex{V0 + Reg(Rn), a, uint8(index), 0}

	case arg_Vn_arrangement_immh_Q___SEEAdvancedSIMDmodifiedimmediate_00__2S_40__4S_41__2D_81:
		Rn := (x >> 5) & (1<<5 - 1)
		immh := (x >> 19) & (1<<4 - 1)
		Q := (x >> 30) & 1
		if immh>>2 == 1 {
			if Q == 0 {
				return RegisterWithArrangement{V0 + Reg(Rn), Arrangement2S, 0}
			} else {
				return RegisterWithArrangement{V0 + Reg(Rn), Arrangement4S, 0}
			}
		} else if immh>>3 == 1 {
			if Q == 1 {
				return RegisterWithArrangement{V0 + Reg(Rn), Arrangement2D, 0}
			}
		}
		return nil

	case arg_Vn_arrangement_immh_Q___SEEAdvancedSIMDmodifiedimmediate_00__8B_10__16B_11__4H_20__8H_21__2S_40__4S_41:
		Rn := (x >> 5) & (1<<5 - 1)
		immh := (x >> 19) & (1<<4 - 1)
		Q := (x >> 30) & 1
		if immh == 1 {
			if Q == 0 {
				return RegisterWithArrangement{V0 + Reg(Rn), Arrangement8B, 0}
			} else {
				return RegisterWithArrangement{V0 + Reg(Rn), Arrangement16B, 0}
			}
		} else if immh>>1 == 1 {
			if Q == 0 {
				return RegisterWithArrangement{V0 + Reg(Rn), Arrangement4H, 0}
			} else {
				return RegisterWithArrangement{V0 + Reg(Rn), Arrangement8H, 0}
			}
		} else if immh>>2 == 1 {
			if Q == 0 {
				return RegisterWithArrangement{V0 + Reg(Rn), Arrangement2S, 0}
			} else {
				return RegisterWithArrangement{V0 + Reg(Rn), Arrangement4S, 0}
			}
		}
		return nil

	case arg_Vn_arrangement_immh_Q___SEEAdvancedSIMDmodifiedimmediate_00__8B_10__16B_11__4H_20__8H_21__2S_40__4S_41__2D_81:
		Rn := (x >> 5) & (1<<5 - 1)
		immh := (x >> 19) & (1<<4 - 1)
		Q := (x >> 30) & 1
		if immh == 1 {
			if Q == 0 {
				return RegisterWithArrangement{V0 + Reg(Rn), Arrangement8B, 0}
			} else {
				return RegisterWithArrangement{V0 + Reg(Rn), Arrangement16B, 0}
			}
		} else if immh>>1 == 1 {
			if Q == 0 {
				return RegisterWithArrangement{V0 + Reg(Rn), Arrangement4H, 0}
			} else {
				return RegisterWithArrangement{V0 + Reg(Rn), Arrangement8H, 0}
			}
		} else if immh>>2 == 1 {
			if Q == 0 {
				return RegisterWithArrangement{V0 + Reg(Rn), Arrangement2S, 0}
			} else {
				return RegisterWithArrangement{V0 + Reg(Rn), Arrangement4S, 0}
			}
		} else if immh>>3 == 1 {
			if Q == 1 {
				return RegisterWithArrangement{V0 + Reg(Rn), Arrangement2D, 0}
			}
		}
		return nil

	case arg_Vn_arrangement_immh___SEEAdvancedSIMDmodifiedimmediate_0__8H_1__4S_2__2D_4:
		Rn := (x >> 5) & (1<<5 - 1)
		immh := (x >> 19) & (1<<4 - 1)
		if immh == 1 {
			return RegisterWithArrangement{V0 + Reg(Rn), Arrangement8H, 0}
		} else if immh>>1 == 1 {
			return RegisterWithArrangement{V0 + Reg(Rn), Arrangement4S, 0}
		} else if immh>>2 == 1 {
			return RegisterWithArrangement{V0 + Reg(Rn), Arrangement2D, 0}
		}
		return nil

	case arg_Vn_arrangement_Q___8B_0__16B_1:
		Rn := (x >> 5) & (1<<5 - 1)
		Q := (x >> 30) & 1
		if Q == 0 {
			return RegisterWithArrangement{V0 + Reg(Rn), Arrangement8B, 0}
		} else {
			return RegisterWithArrangement{V0 + Reg(Rn), Arrangement16B, 0}
		}

	case arg_Vn_arrangement_Q_sz___2S_00__4S_10__2D_11:
		Rn := (x >> 5) & (1<<5 - 1)
		Q := (x >> 30) & 1
		sz := (x >> 22) & 1
		if sz == 0 && Q == 0 {
			return RegisterWithArrangement{V0 + Reg(Rn), Arrangement2S, 0}
		} else if sz == 0 && Q == 1 {
			return RegisterWithArrangement{V0 + Reg(Rn), Arrangement4S, 0}
		} else if sz == 1 && Q == 1 {
			return RegisterWithArrangement{V0 + Reg(Rn), Arrangement2D, 0}
		}
		return nil

	case arg_Vn_arrangement_Q_sz___4S_10:
		Rn := (x >> 5) & (1<<5 - 1)
		Q := (x >> 30) & 1
		sz := (x >> 22) & 1
		if sz == 0 && Q == 1 {
			return RegisterWithArrangement{V0 + Reg(Rn), Arrangement4S, 0}
		}
		return nil

	case arg_Vn_arrangement_S_index__imm5__imm5lt41gt_1__imm5lt42gt_2__imm5lt43gt_4_1:
		var index uint32
		Rn := (x >> 5) & (1<<5 - 1)
		imm5 := (x >> 16) & (1<<5 - 1)
		index = imm5 >> 3
		return RegisterWithArrangementAndIndex{V0 + Reg(Rn), ArrangementS, uint8(index), 0}

	case arg_Vn_arrangement_size___2D_3:
		Rn := (x >> 5) & (1<<5 - 1)
		size := (x >> 22) & 3
		if size == 3 {
			return RegisterWithArrangement{V0 + Reg(Rn), Arrangement2D, 0}
		}
		return nil

	case arg_Vn_arrangement_size___8H_0__4S_1__2D_2:
		Rn := (x >> 5) & (1<<5 - 1)
		size := (x >> 22) & 3
		if size == 0 {
			return RegisterWithArrangement{V0 + Reg(Rn), Arrangement8H, 0}
		} else if size == 1 {
			return RegisterWithArrangement{V0 + Reg(Rn), Arrangement4S, 0}
		} else if size == 2 {
			return RegisterWithArrangement{V0 + Reg(Rn), Arrangement2D, 0}
		}
		return nil

	case arg_Vn_arrangement_size_Q___4H_10__8H_11__2S_20__4S_21:
		Rn := (x >> 5) & (1<<5 - 1)
		size := (x >> 22) & 3
		Q := (x >> 30) & 1
		if size == 1 && Q == 0 {
			return RegisterWithArrangement{V0 + Reg(Rn), Arrangement4H, 0}
		} else if size == 1 && Q == 1 {
			return RegisterWithArrangement{V0 + Reg(Rn), Arrangement8H, 0}
		} else if size == 2 && Q == 0 {
			return RegisterWithArrangement{V0 + Reg(Rn), Arrangement2S, 0}
		} else if size == 2 && Q == 1 {
			return RegisterWithArrangement{V0 + Reg(Rn), Arrangement4S, 0}
		}
		return nil

	case arg_Vn_arrangement_size_Q___8B_00__16B_01:
		Rn := (x >> 5) & (1<<5 - 1)
		size := (x >> 22) & 3
		Q := (x >> 30) & 1
		if size == 0 && Q == 0 {
			return RegisterWithArrangement{V0 + Reg(Rn), Arrangement8B, 0}
		} else if size == 0 && Q == 1 {
			return RegisterWithArrangement{V0 + Reg(Rn), Arrangement16B, 0}
		}
		return nil

	case arg_Vn_arrangement_size_Q___8B_00__16B_01__1D_30__2D_31:
		Rn := (x >> 5) & (1<<5 - 1)
		size := (x >> 22) & 3
		Q := (x >> 30) & 1
		if size == 0 && Q == 0 {
			return RegisterWithArrangement{V0 + Reg(Rn), Arrangement8B, 0}
		} else if size == 0 && Q == 1 {
			return RegisterWithArrangement{V0 + Reg(Rn), Arrangement16B, 0}
		} else if size == 3 && Q == 0 {
			return RegisterWithArrangement{V0 + Reg(Rn), Arrangement1D, 0}
		} else if size == 3 && Q == 1 {
			return RegisterWithArrangement{V0 + Reg(Rn), Arrangement2D, 0}
		}
		return nil

	case arg_Vn_arrangement_size_Q___8B_00__16B_01__4H_10__8H_11:
		Rn := (x >> 5) & (1<<5 - 1)
		size := (x >> 22) & 3
		Q := (x >> 30) & 1
		if size == 0 && Q == 0 {
			return RegisterWithArrangement{V0 + Reg(Rn), Arrangement8B, 0}
		} else if size == 0 && Q == 1 {
			return RegisterWithArrangement{V0 + Reg(Rn), Arrangement16B, 0}
		} else if size == 1 && Q == 0 {
			return RegisterWithArrangement{V0 + Reg(Rn), Arrangement4H, 0}
		} else if size == 1 && Q == 1 {
			return RegisterWithArrangement{V0 + Reg(Rn), Arrangement8H, 0}
		}
		return nil

	case arg_Vn_arrangement_size_Q___8B_00__16B_01__4H_10__8H_11__2S_20__4S_21:
		Rn := (x >> 5) & (1<<5 - 1)
		size := (x >> 22) & 3
		Q := (x >> 30) & 1
		if size == 0 && Q == 0 {
			return RegisterWithArrangement{V0 + Reg(Rn), Arrangement8B, 0}
		} else if size == 0 && Q == 1 {
			return RegisterWithArrangement{V0 + Reg(Rn), Arrangement16B, 0}
		} else if size == 1 && Q == 0 {
			return RegisterWithArrangement{V0 + Reg(Rn), Arrangement4H, 0}
		} else if size == 1 && Q == 1 {
			return RegisterWithArrangement{V0 + Reg(Rn), Arrangement8H, 0}
		} else if size == 2 && Q == 0 {
			return RegisterWithArrangement{V0 + Reg(Rn), Arrangement2S, 0}
		} else if size == 2 && Q == 1 {
			return RegisterWithArrangement{V0 + Reg(Rn), Arrangement4S, 0}
		}
		return nil

	case arg_Vn_arrangement_size_Q___8B_00__16B_01__4H_10__8H_11__2S_20__4S_21__2D_31:
		Rn := (x >> 5) & (1<<5 - 1)
		size := (x >> 22) & 3
		Q := (x >> 30) & 1
		if size == 0 && Q == 0 {
			return RegisterWithArrangement{V0 + Reg(Rn), Arrangement8B, 0}
		} else if size == 0 && Q == 1 {
			return RegisterWithArrangement{V0 + Reg(Rn), Arrangement16B, 0}
		} else if size == 1 && Q == 0 {
			return RegisterWithArrangement{V0 + Reg(Rn), Arrangement4H, 0}
		} else if size == 1 && Q == 1 {
			return RegisterWithArrangement{V0 + Reg(Rn), Arrangement8H, 0}
		} else if size == 2 && Q == 0 {
			return RegisterWithArrangement{V0 + Reg(Rn), Arrangement2S, 0}
		} else if size == 2 && Q == 1 {
			return RegisterWithArrangement{V0 + Reg(Rn), Arrangement4S, 0}
		} else if size == 3 && Q == 1 {
			return RegisterWithArrangement{V0 + Reg(Rn), Arrangement2D, 0}
		}
		return nil

	case arg_Vn_arrangement_size_Q___8B_00__16B_01__4H_10__8H_11__4S_21:
		Rn := (x >> 5) & (1<<5 - 1)
		size := (x >> 22) & 3
		Q := (x >> 30) & 1
		if size == 0 && Q == 0 {
			return RegisterWithArrangement{V0 + Reg(Rn), Arrangement8B, 0}
		} else if size == 0 && Q == 1 {
			return RegisterWithArrangement{V0 + Reg(Rn), Arrangement16B, 0}
		} else if size == 1 && Q == 0 {
			return RegisterWithArrangement{V0 + Reg(Rn), Arrangement4H, 0}
		} else if size == 1 && Q == 1 {
			return RegisterWithArrangement{V0 + Reg(Rn), Arrangement8H, 0}
		} else if size == 2 && Q == 1 {
			return RegisterWithArrangement{V0 + Reg(Rn), Arrangement4S, 0}
		}
		return nil

	case arg_Vn_arrangement_sz___2D_1:
		Rn := (x >> 5) & (1<<5 - 1)
		sz := (x >> 22) & 1
		if sz == 1 {
			return RegisterWithArrangement{V0 + Reg(Rn), Arrangement2D, 0}
		}
		return nil

	case arg_Vn_arrangement_sz___2S_0__2D_1:
		Rn := (x >> 5) & (1<<5 - 1)
		sz := (x >> 22) & 1
		if sz == 0 {
			return RegisterWithArrangement{V0 + Reg(Rn), Arrangement2S, 0}
		} else {
			return RegisterWithArrangement{V0 + Reg(Rn), Arrangement2D, 0}
		}

	case arg_Vn_arrangement_sz___4S_0__2D_1:
		Rn := (x >> 5) & (1<<5 - 1)
		sz := (x >> 22) & 1
		if sz == 0 {
			return RegisterWithArrangement{V0 + Reg(Rn), Arrangement4S, 0}
		} else {
			return RegisterWithArrangement{V0 + Reg(Rn), Arrangement2D, 0}
		}

	case arg_Vn_arrangement_sz_Q___2S_00__4S_01:
		Rn := (x >> 5) & (1<<5 - 1)
		sz := (x >> 22) & 1
		Q := (x >> 30) & 1
		if sz == 0 && Q == 0 {
			return RegisterWithArrangement{V0 + Reg(Rn), Arrangement2S, 0}
		} else if sz == 0 && Q == 1 {
			return RegisterWithArrangement{V0 + Reg(Rn), Arrangement4S, 0}
		}
		return nil

	case arg_Vn_arrangement_sz_Q___2S_00__4S_01__2D_11:
		Rn := (x >> 5) & (1<<5 - 1)
		sz := (x >> 22) & 1
		Q := (x >> 30) & 1
		if sz == 0 && Q == 0 {
			return RegisterWithArrangement{V0 + Reg(Rn), Arrangement2S, 0}
		} else if sz == 0 && Q == 1 {
			return RegisterWithArrangement{V0 + Reg(Rn), Arrangement4S, 0}
		} else if sz == 1 && Q == 1 {
			return RegisterWithArrangement{V0 + Reg(Rn), Arrangement2D, 0}
		}
		return nil

	case arg_Vn_arrangement_sz_Q___4H_00__8H_01__2S_10__4S_11:
		Rn := (x >> 5) & (1<<5 - 1)
		sz := (x >> 22) & 1
		Q := (x >> 30) & 1
		if sz == 0 && Q == 0 {
			return RegisterWithArrangement{V0 + Reg(Rn), Arrangement4H, 0}
		} else if sz == 0 && Q == 1 {
			return RegisterWithArrangement{V0 + Reg(Rn), Arrangement8H, 0}
		} else if sz == 1 && Q == 0 {
			return RegisterWithArrangement{V0 + Reg(Rn), Arrangement2S, 0}
		} else /* sz == 1 && Q == 1 */ {
			return RegisterWithArrangement{V0 + Reg(Rn), Arrangement4S, 0}
		}

	case arg_Vt_1_arrangement_B_index__Q_S_size_1:
		Rt := x & (1<<5 - 1)
		Q := (x >> 30) & 1
		S := (x >> 12) & 1
		size := (x >> 10) & 3
		index := (Q << 3) | (S << 2) | (size)
		return RegisterWithArrangementAndIndex{V0 + Reg(Rt), ArrangementB, uint8(index), 1}

	case arg_Vt_1_arrangement_D_index__Q_1:
		Rt := x & (1<<5 - 1)
		index := (x >> 30) & 1
		return RegisterWithArrangementAndIndex{V0 + Reg(Rt), ArrangementD, uint8(index), 1}

	case arg_Vt_1_arrangement_H_index__Q_S_size_1:
		Rt := x & (1<<5 - 1)
		Q := (x >> 30) & 1
		S := (x >> 12) & 1
		size := (x >> 11) & 1
		index := (Q << 2) | (S << 1) | (size)
		return RegisterWithArrangementAndIndex{V0 + Reg(Rt), ArrangementH, uint8(index), 1}

	case arg_Vt_1_arrangement_S_index__Q_S_1:
		Rt := x & (1<<5 - 1)
		Q := (x >> 30) & 1
		S := (x >> 12) & 1
		index := (Q << 1) | S
		return RegisterWithArrangementAndIndex{V0 + Reg(Rt), ArrangementS, uint8(index), 1}

	case arg_Vt_1_arrangement_size_Q___8B_00__16B_01__4H_10__8H_11__2S_20__4S_21__1D_30__2D_31:
		Rt := x & (1<<5 - 1)
		Q := (x >> 30) & 1
		size := (x >> 10) & 3
		if size == 0 && Q == 0 {
			return RegisterWithArrangement{V0 + Reg(Rt), Arrangement8B, 1}
		} else if size == 0 && Q == 1 {
			return RegisterWithArrangement{V0 + Reg(Rt), Arrangement16B, 1}
		} else if size == 1 && Q == 0 {
			return RegisterWithArrangement{V0 + Reg(Rt), Arrangement4H, 1}
		} else if size == 1 && Q == 1 {
			return RegisterWithArrangement{V0 + Reg(Rt), Arrangement8H, 1}
		} else if size == 2 && Q == 0 {
			return RegisterWithArrangement{V0 + Reg(Rt), Arrangement2S, 1}
		} else if size == 2 && Q == 1 {
			return RegisterWithArrangement{V0 + Reg(Rt), Arrangement4S, 1}
		} else if size == 3 && Q == 0 {
			return RegisterWithArrangement{V0 + Reg(Rt), Arrangement1D, 1}
		} else /* size == 3 && Q == 1 */ {
			return RegisterWithArrangement{V0 + Reg(Rt), Arrangement2D, 1}
		}

	case arg_Vt_2_arrangement_B_index__Q_S_size_1:
		Rt := x & (1<<5 - 1)
		Q := (x >> 30) & 1
		S := (x >> 12) & 1
		size := (x >> 10) & 3
		index := (Q << 3) | (S << 2) | (size)
		return RegisterWithArrangementAndIndex{V0 + Reg(Rt), ArrangementB, uint8(index), 2}

	case arg_Vt_2_arrangement_D_index__Q_1:
		Rt := x & (1<<5 - 1)
		index := (x >> 30) & 1
		return RegisterWithArrangementAndIndex{V0 + Reg(Rt), ArrangementD, uint8(index), 2}

	case arg_Vt_2_arrangement_H_index__Q_S_size_1:
		Rt := x & (1<<5 - 1)
		Q := (x >> 30) & 1
		S := (x >> 12) & 1
		size := (x >> 11) & 1
		index := (Q << 2) | (S << 1) | (size)
		return RegisterWithArrangementAndIndex{V0 + Reg(Rt), ArrangementH, uint8(index), 2}

	case arg_Vt_2_arrangement_S_index__Q_S_1:
		Rt := x & (1<<5 - 1)
		Q := (x >> 30) & 1
		S := (x >> 12) & 1
		index := (Q << 1) | S
		return RegisterWithArrangementAndIndex{V0 + Reg(Rt), ArrangementS, uint8(index), 2}

	case arg_Vt_2_arrangement_size_Q___8B_00__16B_01__4H_10__8H_11__2S_20__4S_21__1D_30__2D_31:
		Rt := x & (1<<5 - 1)
		Q := (x >> 30) & 1
		size := (x >> 10) & 3
		if size == 0 && Q == 0 {
			return RegisterWithArrangement{V0 + Reg(Rt), Arrangement8B, 2}
		} else if size == 0 && Q == 1 {
			return RegisterWithArrangement{V0 + Reg(Rt), Arrangement16B, 2}
		} else if size == 1 && Q == 0 {
			return RegisterWithArrangement{V0 + Reg(Rt), Arrangement4H, 2}
		} else if size == 1 && Q == 1 {
			return RegisterWithArrangement{V0 + Reg(Rt), Arrangement8H, 2}
		} else if size == 2 && Q == 0 {
			return RegisterWithArrangement{V0 + Reg(Rt), Arrangement2S, 2}
		} else if size == 2 && Q == 1 {
			return RegisterWithArrangement{V0 + Reg(Rt), Arrangement4S, 2}
		} else if size == 3 && Q == 0 {
			return RegisterWithArrangement{V0 + Reg(Rt), Arrangement1D, 2}
		} else /* size == 3 && Q == 1 */ {
			return RegisterWithArrangement{V0 + Reg(Rt), Arrangement2D, 2}
		}

	case arg_Vt_2_arrangement_size_Q___8B_00__16B_01__4H_10__8H_11__2S_20__4S_21__2D_31:
		Rt := x & (1<<5 - 1)
		Q := (x >> 30) & 1
		size := (x >> 10) & 3
		if size == 0 && Q == 0 {
			return RegisterWithArrangement{V0 + Reg(Rt), Arrangement8B, 2}
		} else if size == 0 && Q == 1 {
			return RegisterWithArrangement{V0 + Reg(Rt), Arrangement16B, 2}
		} else if size == 1 && Q == 0 {
			return RegisterWithArrangement{V0 + Reg(Rt), Arrangement4H, 2}
		} else if size == 1 && Q == 1 {
			return RegisterWithArrangement{V0 + Reg(Rt), Arrangement8H, 2}
		} else if size == 2 && Q == 0 {
			return RegisterWithArrangement{V0 + Reg(Rt), Arrangement2S, 2}
		} else if size == 2 && Q == 1 {
			return RegisterWithArrangement{V0 + Reg(Rt), Arrangement4S, 2}
		} else if size == 3 && Q == 1 {
			return RegisterWithArrangement{V0 + Reg(Rt), Arrangement2D, 2}
		}
		return nil

	case arg_Vt_3_arrangement_B_index__Q_S_size_1:
		Rt := x & (1<<5 - 1)
		Q := (x >> 30) & 1
		S := (x >> 12) & 1
		size := (x >> 10) & 3
		index := (Q << 3) | (S << 2) | (size)
		return RegisterWithArrangementAndIndex{V0 + Reg(Rt), ArrangementB, uint8(index), 3}

	case arg_Vt_3_arrangement_D_index__Q_1:
		Rt := x & (1<<5 - 1)
		index := (x >> 30) & 1
		return RegisterWithArrangementAndIndex{V0 + Reg(Rt), ArrangementD, uint8(index), 3}

	case arg_Vt_3_arrangement_H_index__Q_S_size_1:
		Rt := x & (1<<5 - 1)
		Q := (x >> 30) & 1
		S := (x >> 12) & 1
		size := (x >> 11) & 1
		index := (Q << 2) | (S << 1) | (size)
		return RegisterWithArrangementAndIndex{V0 + Reg(Rt), ArrangementH, uint8(index), 3}

	case arg_Vt_3_arrangement_S_index__Q_S_1:
		Rt := x & (1<<5 - 1)
		Q := (x >> 30) & 1
		S := (x >> 12) & 1
		index := (Q << 1) | S
		return RegisterWithArrangementAndIndex{V0 + Reg(Rt), ArrangementS, uint8(index), 3}

	case arg_Vt_3_arrangement_size_Q___8B_00__16B_01__4H_10__8H_11__2S_20__4S_21__1D_30__2D_31:
		Rt := x & (1<<5 - 1)
		Q := (x >> 30) & 1
		size := (x >> 10) & 3
		if size == 0 && Q == 0 {
			return RegisterWithArrangement{V0 + Reg(Rt), Arrangement8B, 3}
		} else if size == 0 && Q == 1 {
			return RegisterWithArrangement{V0 + Reg(Rt), Arrangement16B, 3}
		} else if size == 1 && Q == 0 {
			return RegisterWithArrangement{V0 + Reg(Rt), Arrangement4H, 3}
		} else if size == 1 && Q == 1 {
			return RegisterWithArrangement{V0 + Reg(Rt), Arrangement8H, 3}
		} else if size == 2 && Q == 0 {
			return RegisterWithArrangement{V0 + Reg(Rt), Arrangement2S, 3}
		} else if size == 2 && Q == 1 {
			return RegisterWithArrangement{V0 + Reg(Rt), Arrangement4S, 3}
		} else if size == 3 && Q == 0 {
			return RegisterWithArrangement{V0 + Reg(Rt), Arrangement1D, 3}
		} else /* size == 3 && Q == 1 */ {
			return RegisterWithArrangement{V0 + Reg(Rt), Arrangement2D, 3}
		}

	case arg_Vt_3_arrangement_size_Q___8B_00__16B_01__4H_10__8H_11__2S_20__4S_21__2D_31:
		Rt := x & (1<<5 - 1)
		Q := (x >> 30) & 1
		size := (x >> 10) & 3
		if size == 0 && Q == 0 {
			return RegisterWithArrangement{V0 + Reg(Rt), Arrangement8B, 3}
		} else if size == 0 && Q == 1 {
			return RegisterWithArrangement{V0 + Reg(Rt), Arrangement16B, 3}
		} else if size == 1 && Q == 0 {
			return RegisterWithArrangement{V0 + Reg(Rt), Arrangement4H, 3}
		} else if size == 1 && Q == 1 {
			return RegisterWithArrangement{V0 + Reg(Rt), Arrangement8H, 3}
		} else if size == 2 && Q == 0 {
			return RegisterWithArrangement{V0 + Reg(Rt), Arrangement2S, 3}
		} else if size == 2 && Q == 1 {
			return RegisterWithArrangement{V0 + Reg(Rt), Arrangement4S, 3}
		} else if size == 3 && Q == 1 {
			return RegisterWithArrangement{V0 + Reg(Rt), Arrangement2D, 3}
		}
		return nil

	case arg_Vt_4_arrangement_B_index__Q_S_size_1:
		Rt := x & (1<<5 - 1)
		Q := (x >> 30) & 1
		S := (x >> 12) & 1
		size := (x >> 10) & 3
		index := (Q << 3) | (S << 2) | (size)
		return RegisterWithArrangementAndIndex{V0 + Reg(Rt), ArrangementB, uint8(index), 4}

	case arg_Vt_4_arrangement_D_index__Q_1:
		Rt := x & (1<<5 - 1)
		index := (x >> 30) & 1
		return RegisterWithArrangementAndIndex{V0 + Reg(Rt), ArrangementD, uint8(index), 4}

	case arg_Vt_4_arrangement_H_index__Q_S_size_1:
		Rt := x & (1<<5 - 1)
		Q := (x >> 30) & 1
		S := (x >> 12) & 1
		size := (x >> 11) & 1
		index := (Q << 2) | (S << 1) | (size)
		return RegisterWithArrangementAndIndex{V0 + Reg(Rt), ArrangementH, uint8(index), 4}

	case arg_Vt_4_arrangement_S_index__Q_S_1:
		Rt := x & (1<<5 - 1)
		Q := (x >> 30) & 1
		S := (x >> 12) & 1
		index := (Q << 1) | S
		return RegisterWithArrangementAndIndex{V0 + Reg(Rt), ArrangementS, uint8(index), 4}

	case arg_Vt_4_arrangement_size_Q___8B_00__16B_01__4H_10__8H_11__2S_20__4S_21__1D_30__2D_31:
		Rt := x & (1<<5 - 1)
		Q := (x >> 30) & 1
		size := (x >> 10) & 3
		if size == 0 && Q == 0 {
			return RegisterWithArrangement{V0 + Reg(Rt), Arrangement8B, 4}
		} else if size == 0 && Q == 1 {
			return RegisterWithArrangement{V0 + Reg(Rt), Arrangement16B, 4}
		} else if size == 1 && Q == 0 {
			return RegisterWithArrangement{V0 + Reg(Rt), Arrangement4H, 4}
		} else if size == 1 && Q == 1 {
			return RegisterWithArrangement{V0 + Reg(Rt), Arrangement8H, 4}
		} else if size == 2 && Q == 0 {
			return RegisterWithArrangement{V0 + Reg(Rt), Arrangement2S, 4}
		} else if size == 2 && Q == 1 {
			return RegisterWithArrangement{V0 + Reg(Rt), Arrangement4S, 4}
		} else if size == 3 && Q == 0 {
			return RegisterWithArrangement{V0 + Reg(Rt), Arrangement1D, 4}
		} else /* size == 3 && Q == 1 */ {
			return RegisterWithArrangement{V0 + Reg(Rt), Arrangement2D, 4}
		}

	case arg_Vt_4_arrangement_size_Q___8B_00__16B_01__4H_10__8H_11__2S_20__4S_21__2D_31:
		Rt := x & (1<<5 - 1)
		Q := (x >> 30) & 1
		size := (x >> 10) & 3
		if size == 0 && Q == 0 {
			return RegisterWithArrangement{V0 + Reg(Rt), Arrangement8B, 4}
		} else if size == 0 && Q == 1 {
			return RegisterWithArrangement{V0 + Reg(Rt), Arrangement16B, 4}
		} else if size == 1 && Q == 0 {
			return RegisterWithArrangement{V0 + Reg(Rt), Arrangement4H, 4}
		} else if size == 1 && Q == 1 {
			return RegisterWithArrangement{V0 + Reg(Rt), Arrangement8H, 4}
		} else if size == 2 && Q == 0 {
			return RegisterWithArrangement{V0 + Reg(Rt), Arrangement2S, 4}
		} else if size == 2 && Q == 1 {
			return RegisterWithArrangement{V0 + Reg(Rt), Arrangement4S, 4}
		} else if size == 3 && Q == 1 {
			return RegisterWithArrangement{V0 + Reg(Rt), Arrangement2D, 4}
		}
		return nil

	case arg_Xns_mem_extend_m__UXTW_2__LSL_3__SXTW_6__SXTX_7__0_0__4_1:
		return handle_MemExtend(x, 4, false)

	case arg_Xns_mem_offset:
		Rn := RegSP(X0) + RegSP(x>>5&(1<<5-1))
		return MemImmediate{Rn, AddrOffset, 0}

	case arg_Xns_mem_optional_imm12_16_unsigned:
		Rn := RegSP(X0) + RegSP(x>>5&(1<<5-1))
		imm12 := (x >> 10) & (1<<12 - 1)
		return MemImmediate{Rn, AddrOffset, int32(imm12 << 4)}

	case arg_Xns_mem_optional_imm7_16_signed:
		Rn := RegSP(X0) + RegSP(x>>5&(1<<5-1))
		imm7 := (x >> 15) & (1<<7 - 1)
		return MemImmediate{Rn, AddrOffset, ((int32(imm7 << 4)) << 21) >> 21}

	case arg_Xns_mem_post_fixedimm_1:
		Rn := RegSP(X0) + RegSP(x>>5&(1<<5-1))
		return MemImmediate{Rn, AddrPostIndex, 1}

	case arg_Xns_mem_post_fixedimm_12:
		Rn := RegSP(X0) + RegSP(x>>5&(1<<5-1))
		return MemImmediate{Rn, AddrPostIndex, 12}

	case arg_Xns_mem_post_fixedimm_16:
		Rn := RegSP(X0) + RegSP(x>>5&(1<<5-1))
		return MemImmediate{Rn, AddrPostIndex, 16}

	case arg_Xns_mem_post_fixedimm_2:
		Rn := RegSP(X0) + RegSP(x>>5&(1<<5-1))
		return MemImmediate{Rn, AddrPostIndex, 2}

	case arg_Xns_mem_post_fixedimm_24:
		Rn := RegSP(X0) + RegSP(x>>5&(1<<5-1))
		return MemImmediate{Rn, AddrPostIndex, 24}

	case arg_Xns_mem_post_fixedimm_3:
		Rn := RegSP(X0) + RegSP(x>>5&(1<<5-1))
		return MemImmediate{Rn, AddrPostIndex, 3}

	case arg_Xns_mem_post_fixedimm_32:
		Rn := RegSP(X0) + RegSP(x>>5&(1<<5-1))
		return MemImmediate{Rn, AddrPostIndex, 32}

	case arg_Xns_mem_post_fixedimm_4:
		Rn := RegSP(X0) + RegSP(x>>5&(1<<5-1))
		return MemImmediate{Rn, AddrPostIndex, 4}

	case arg_Xns_mem_post_fixedimm_6:
		Rn := RegSP(X0) + RegSP(x>>5&(1<<5-1))
		return MemImmediate{Rn, AddrPostIndex, 6}

	case arg_Xns_mem_post_fixedimm_8:
		Rn := RegSP(X0) + RegSP(x>>5&(1<<5-1))
		return MemImmediate{Rn, AddrPostIndex, 8}

	case arg_Xns_mem_post_imm7_16_signed:
		Rn := RegSP(X0) + RegSP(x>>5&(1<<5-1))
		imm7 := (x >> 15) & (1<<7 - 1)
		return MemImmediate{Rn, AddrPostIndex, ((int32(imm7 << 4)) << 21) >> 21}

	case arg_Xns_mem_post_Q__16_0__32_1:
		Rn := RegSP(X0) + RegSP(x>>5&(1<<5-1))
		Q := (x >> 30) & 1
		return MemImmediate{Rn, AddrPostIndex, int32((Q + 1) * 16)}

	case arg_Xns_mem_post_Q__24_0__48_1:
		Rn := RegSP(X0) + RegSP(x>>5&(1<<5-1))
		Q := (x >> 30) & 1
		return MemImmediate{Rn, AddrPostIndex, int32((Q + 1) * 24)}

	case arg_Xns_mem_post_Q__32_0__64_1:
		Rn := RegSP(X0) + RegSP(x>>5&(1<<5-1))
		Q := (x >> 30) & 1
		return MemImmediate{Rn, AddrPostIndex, int32((Q + 1) * 32)}

	case arg_Xns_mem_post_Q__8_0__16_1:
		Rn := RegSP(X0) + RegSP(x>>5&(1<<5-1))
		Q := (x >> 30) & 1
		return MemImmediate{Rn, AddrPostIndex, int32((Q + 1) * 8)}

	case arg_Xns_mem_post_size__1_0__2_1__4_2__8_3:
		Rn := RegSP(X0) + RegSP(x>>5&(1<<5-1))
		size := (x >> 10) & 3
		return MemImmediate{Rn, AddrPostIndex, int32(1 << size)}

	case arg_Xns_mem_post_size__2_0__4_1__8_2__16_3:
		Rn := RegSP(X0) + RegSP(x>>5&(1<<5-1))
		size := (x >> 10) & 3
		return MemImmediate{Rn, AddrPostIndex, int32(2 << size)}

	case arg_Xns_mem_post_size__3_0__6_1__12_2__24_3:
		Rn := RegSP(X0) + RegSP(x>>5&(1<<5-1))
		size := (x >> 10) & 3
		return MemImmediate{Rn, AddrPostIndex, int32(3 << size)}

	case arg_Xns_mem_post_size__4_0__8_1__16_2__32_3:
		Rn := RegSP(X0) + RegSP(x>>5&(1<<5-1))
		size := (x >> 10) & 3
		return MemImmediate{Rn, AddrPostIndex, int32(4 << size)}

	case arg_Xns_mem_post_Xm:
		Rn := RegSP(X0) + RegSP(x>>5&(1<<5-1))
		Rm := (x >> 16) & (1<<5 - 1)
		return MemImmediate{Rn, AddrPostReg, int32(Rm)}

	case arg_Xns_mem_wb_imm7_16_signed:
		Rn := RegSP(X0) + RegSP(x>>5&(1<<5-1))
		imm7 := (x >> 15) & (1<<7 - 1)
		return MemImmediate{Rn, AddrPreIndex, ((int32(imm7 << 4)) << 21) >> 21}
	}
}

func handle_ExtendedRegister(x uint32, has_width bool) Arg {
	s := (x >> 29) & 1
	rm := (x >> 16) & (1<<5 - 1)
	option := (x >> 13) & (1<<3 - 1)
	imm3 := (x >> 10) & (1<<3 - 1)
	rn := (x >> 5) & (1<<5 - 1)
	rd := x & (1<<5 - 1)
	is_32bit := !has_width
	var rea RegExtshiftAmount
	if has_width {
		if option&0x3 != 0x3 {
			rea.reg = W0 + Reg(rm)
		} else {
			rea.reg = X0 + Reg(rm)
		}
	} else {
		rea.reg = W0 + Reg(rm)
	}
	switch option {
	case 0:
		rea.extShift = uxtb
	case 1:
		rea.extShift = uxth
	case 2:
		if is_32bit && (rn == 31 || (s == 0 && rd == 31)) {
			if imm3 != 0 {
				rea.extShift = lsl
			} else {
				rea.extShift = ExtShift(0)
			}
		} else {
			rea.extShift = uxtw
		}
	case 3:
		if !is_32bit && (rn == 31 || (s == 0 && rd == 31)) {
			if imm3 != 0 {
				rea.extShift = lsl
			} else {
				rea.extShift = ExtShift(0)
			}
		} else {
			rea.extShift = uxtx
		}
	case 4:
		rea.extShift = sxtb
	case 5:
		rea.extShift = sxth
	case 6:
		rea.extShift = sxtw
	case 7:
		rea.extShift = sxtx
	}
	rea.show_zero = false
	rea.amount = uint8(imm3)
	return rea
}

func handle_ImmediateShiftedRegister(x uint32, max uint8, is_w, has_ror bool) Arg {
	var rsa RegExtshiftAmount
	if is_w {
		rsa.reg = W0 + Reg((x>>16)&(1<<5-1))
	} else {
		rsa.reg = X0 + Reg((x>>16)&(1<<5-1))
	}
	switch (x >> 22) & 0x3 {
	case 0:
		rsa.extShift = lsl
	case 1:
		rsa.extShift = lsr
	case 2:
		rsa.extShift = asr
	case 3:
		if has_ror {
			rsa.extShift = ror
		} else {
			return nil
		}
	}
	rsa.show_zero = true
	rsa.amount = uint8((x >> 10) & (1<<6 - 1))
	if rsa.amount == 0 && rsa.extShift == lsl {
		rsa.extShift = ExtShift(0)
	} else if rsa.amount > max {
		return nil
	}
	return rsa
}

func handle_MemExtend(x uint32, mult uint8, absent bool) Arg {
	var extend ExtShift
	var Rm Reg
	option := (x >> 13) & (1<<3 - 1)
	Rn := RegSP(X0) + RegSP(x>>5&(1<<5-1))
	if (option & 1) != 0 {
		Rm = Reg(X0) + Reg(x>>16&(1<<5-1))
	} else {
		Rm = Reg(W0) + Reg(x>>16&(1<<5-1))
	}
	switch option {
	default:
		return nil
	case 2:
		extend = uxtw
	case 3:
		extend = lsl
	case 6:
		extend = sxtw
	case 7:
		extend = sxtx
	}
	amount := (uint8((x >> 12) & 1)) * mult
	return MemExtend{Rn, Rm, extend, amount, absent}
}

func handle_bitmasks(x uint32, datasize uint8) Arg {
	var length, levels, esize, i uint8
	var welem, wmask uint64
	n := (x >> 22) & 1
	imms := uint8((x >> 10) & (1<<6 - 1))
	immr := uint8((x >> 16) & (1<<6 - 1))
	if n != 0 {
		length = 6
	} else if (imms & 32) == 0 {
		length = 5
	} else if (imms & 16) == 0 {
		length = 4
	} else if (imms & 8) == 0 {
		length = 3
	} else if (imms & 4) == 0 {
		length = 2
	} else if (imms & 2) == 0 {
		length = 1
	} else {
		return nil
	}
	levels = 1<<length - 1
	s := imms & levels
	r := immr & levels
	esize = 1 << length
	if esize > datasize {
		return nil
	}
	welem = 1<<(s+1) - 1
	ror := (welem >> r) | (welem << (esize - r))
	ror &= ((1 << esize) - 1)
	wmask = 0
	for i = 0; i < datasize; i += esize {
		wmask = (wmask << esize) | ror
	}
	return Imm64{wmask, false}
}
