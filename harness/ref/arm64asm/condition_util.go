// Copyright 2017 The Go Authors. All rights reserved.
// Use of this source code is governed by a BSD-style
// license that can be found in the LICENSE file.

package arm64asm

func extract_bit(value, bit uint32) uint32 {
	return (value >> bit) & 1
}

func bfxpreferred_4(sf, opc1, imms, immr uint32) bool {
	if imms < immr {
		return false
	}
	if (imms>>5 == sf) && (imms&0x1f == 0x1f) {
		return false
	}
	if immr == 0 {
		if sf == 0 && (imms == 7 || imms == 15) {
			return false
		}
		if sf == 1 && opc1 == 0 && (imms == 7 ||
			imms == 15 || imms == 31) {
			return false
		}
	}
	return true
}

func move_wide_preferred_4(sf, N, imms, immr uint32) bool {
	if sf == 1 && N != 1 {
		return false
	}
	if sf == 0 && !(N == 0 && ((imms>>5)&1) == 0) {
		return false
	}
	if imms < 16 {
		return (-immr)%16 <= (15 - imms)
	}
	width := uint32(32)
	if sf == 1 {
		width = uint32(64)
	}
	if imms >= (width - 15) {
		return (immr % 16) <= (imms - (width - 15))
	}
	return false
}

type sys uint8

const (
	sys_AT sys = iota
	sys_DC
	sys_IC
	sys_TLBI
	sys_SYS
)

func sys_op_4(op1, crn, crm, op2 uint32) sys {
	sysInst := sysInstFields{uint8(op1), uint8(crn), uint8(crm), uint8(op2)}
	return sysInst.getType()
}

func is_zero(x uint32) bool {
	return x == 0
}

func is_ones_n16(x uint32) bool {
	return x == 0xffff
}

func bit_count(x uint32) uint8 {
	var count uint8
	for count = 0; x > 0; x >>= 1 {
		if (x & 1) == 1 {
			count++
		}
	}
	return count
}
