// Copyright 2017 The Go Authors. All rights reserved.
// Use of this source code is governed by a BSD-style
// license that can be found in the LICENSE file.

package arm64asm

import (
	"fmt"
	"strings"
)

// An Op is an ARM64 opcode.
type Op uint16

// NOTE: The actual Op values are defined in tables.go.
// They are chosen to simplify instruction decoding and
// are not a dense packing from 0 to N, although the
// density is high, probably at least 90%.

func (op Op) String() string {
	if op >= Op(len(opstr)) || opstr[op] == "" {
		return fmt.Sprintf("Op(%d)", int(op))
	}
	return opstr[op]
}

// An Inst is a single instruction.
type Inst struct {
	Op   Op     // Opcode mnemonic
	Enc  uint32 // Raw encoding bits.
	Args Args   // Instruction arguments, in ARM manual order.
}

func (i Inst) String() string {
	var args []string
	for _, arg := range i.Args {
		if arg == nil {
			break
		}
		args = append(args, arg.String())
	}
	return i.Op.String() + " " + strings.Join(args, ", ")
}

// An Args holds the instruction arguments.
// If an instruction has fewer than 5 arguments,
// the final elements in the array are nil.
type Args [5]Arg

// An Arg is a single instruction argument, one of these types:
// Reg, RegSP, ImmShift, RegExtshiftAmount, PCRel, MemImmediate,
// MemExtend, Imm, Imm64, Imm_hint, Imm_clrex, Imm_dcps, Cond,
// Imm_c, Imm_option, Imm_prfop, Pstatefield, Systemreg, Imm_fp
// RegisterWithArrangement, RegisterWithArrangementAndIndex.
type Arg interface {
	isArg()
	String() string
}

// A Reg is a single register.
// The zero value denotes W0, not the absence of a register.
type Reg uint16

const (
	W0 Reg = iota
	W1
	W2
	W3
	W4
	W5
	W6
	W7
	W8
	W9
	W10
	W11
	W12
	W13
	W14
	W15
	W16
	W17
	W18
	W19
	W20
	W21
	W22
	W23
	W24
	W25
	W26
	W27
	W28
	W29
	W30
	WZR

	X0
	X1
	X2
	X3
	X4
	X5
	X6
	X7
	X8
	X9
	X10
	X11
	X12
	X13
	X14
	X15
	X16
	X17
	X18
	X19
	X20
	X21
	X22
	X23
	X24
	X25
	X26
	X27
	X28
	X29
	X30
	XZR

	B0
	B1
	B2
	B3
	B4
	B5
	B6
	B7
	B8
	B9
	B10
	B11
	B12
	B13
	B14
	B15
	B16
	B17
	B18
	B19
	B20
	B21
	B22
	B23
	B24
	B25
	B26
	B27
	B28
	B29
	B30
	B31

	H0
	H1
	H2
	H3
	H4
	H5
	H6
	H7
	H8
	H9
	H10
	H11
	H12
	H13
	H14
	H15
	H16
	H17
	H18
	H19
	H20
	H21
	H22
	H23
	H24
	H25
	H26
	H27
	H28
	H29
	H30
	H31

	S0
	S1
	S2
	S3
	S4
	S5
	S6
	S7
	S8
	S9
	S10
	S11
	S12
	S13
	S14
	S15
	S16
	S17
	S18
	S19
	S20
	S21
	S22
	S23
	S24
	S25
	S26
	S27
	S28
	S29
	S30
	S31

	D0
	D1
	D2
	D3
	D4
	D5
	D6
	D7
	D8
	D9
	D10
	D11
	D12
	D13
	D14
	D15
	D16
	D17
	D18
	D19
	D20
	D21
	D22
	D23
	D24
	D25
	D26
	D27
	D28
	D29
	D30
	D31

	Q0
	Q1
	Q2
	Q3
	Q4
	Q5
	Q6
	Q7
	Q8
	Q9
	Q10
	Q11
	Q12
	Q13
	Q14
	Q15
	Q16
	Q17
	Q18
	Q19
	Q20
	Q21
	Q22
	Q23
	Q24
	Q25
	Q26
	Q27
	Q28
	Q29
	Q30
	Q31

	V0
	V1
	V2
	V3
	V4
	V5
	V6
	V7
	V8
	V9
	V10
	V11
	V12
	V13
	V14
	V15
	V16
	V17
	V18
	V19
	V20
	V21
	V22
	V23
	V24
	V25
	V26
	V27
	V28
	V29
	V30
	V31

	WSP = WZR // These are different registers with the same encoding.
	SP  = XZR // These are different registers with the same encoding.
)

func (Reg) isArg() {}

func (r Reg) String() string {
	switch {
	case r == WZR:
		return "WZR"
	case r == XZR:
		return "XZR"
	case W0 <= r && r <= W30:
		return fmt.Sprintf("W%d", int(r-W0))
	case X0 <= r && r <= X30:
		return fmt.Sprintf("X%d", int(r-X0))

	case B0 <= r && r <= B31:
		return fmt.Sprintf("B%d", int(r-B0))
	case H0 <= r && r <= H31:
		return fmt.Sprintf("H%d", int(r-H0))
	case S0 <= r && r <= S31:
		return fmt.Sprintf("S%d", int(r-S0))
	case D0 <= r && r <= D31:
		return fmt.Sprintf("D%d", int(r-D0))
	case Q0 <= r && r <= Q31:
		return fmt.Sprintf("Q%d", int(r-Q0))

	case V0 <= r && r <= V31:
		return fmt.Sprintf("V%d", int(r-V0))
	default:
		return fmt.Sprintf("Reg(%d)", int(r))
	}
}

// A RegSP represent a register and X31/W31 is regarded as SP/WSP.
type RegSP Reg

func (RegSP) isArg() {}

func (r RegSP) String() string {
	switch Reg(r) {
	case WSP:
		return "WSP"
	case SP:
		return "SP"
	default:
		return Reg(r).String()
	}
}

type ImmShift struct {
	imm   uint16
	shift uint8
}

func (ImmShift) isArg() {}

func (is ImmShift) String() string {
	if is.shift == 0 {
		return fmt.Sprintf("#%#x", is.imm)
	}
	if is.shift < 128 {
		return fmt.Sprintf("#%#x, LSL #%d", is.imm, is.shift)
	}
	return fmt.Sprintf("#%#x, MSL #%d", is.imm, is.shift-128)
}

type ExtShift uint8

const (
	_ ExtShift = iota
	uxtb
	uxth
	uxtw
	uxtx
	sxtb
	sxth
	sxtw
	sxtx
	lsl
	lsr
	asr
	ror
)

func (extShift ExtShift) String() string {
	switch extShift {
	case uxtb:
		return "UXTB"

	case uxth:
		return "UXTH"

	case uxtw:
		return "UXTW"

	case uxtx:
		return "UXTX"

	case sxtb:
		return "SXTB"

	case sxth:
		return "SXTH"

	case sxtw:
		return "SXTW"

	case sxtx:
		return "SXTX"

	case lsl:
		return "LSL"

	case lsr:
		return "LSR"

	case asr:
		return "ASR"

	case ror:
		return "ROR"
	}
	return ""
}

type RegExtshiftAmount struct {
	reg       Reg
	extShift  ExtShift
	amount    uint8
	show_zero bool
}

func (RegExtshiftAmount) isArg() {}

func (rea RegExtshiftAmount) String() string {
	buf := rea.reg.String()
	if rea.extShift != ExtShift(0) {
		buf += ", " + rea.extShift.String()
		if rea.amount != 0 {
			buf += fmt.Sprintf(" #%d", rea.amount)
		} else {
			if rea.show_zero == true {
				buf += fmt.Sprintf(" #%d", rea.amount)
			}
		}
	}
	return buf
}

// A PCRel describes a memory address (usually a code label)
// as a distance relative to the program counter.
type PCRel int64

func (PCRel) isArg() {}

func (r PCRel) String() string {
	return fmt.Sprintf(".%+#x", uint64(r))
}

// An AddrMode is an ARM addressing mode.
type AddrMode uint8

const (
	_             AddrMode = iota
	AddrPostIndex          // [R], X - use address R, set R = R + X
	AddrPreIndex           // [R, X]! - use address R + X, set R = R + X
	AddrOffset             // [R, X] - use address R + X
	AddrPostReg            // [Rn], Rm - - use address Rn, set Rn = Rn + Rm
)

// A MemImmediate is a memory reference made up of a base R and immediate X.
// The effective memory address is R or R+X depending on AddrMode.
type MemImmediate struct {
	Base RegSP
	Mode AddrMode
	imm  int32
}

func (MemImmediate) isArg() {}

func (m MemImmediate) String() string {
	R := m.Base.String()
	X := fmt.Sprintf("#%d", m.imm)

	switch m.Mode {
	case AddrOffset:
		if X == "#0" {
			return fmt.Sprintf("[%s]", R)
		}
		return fmt.Sprintf("[%s,%s]", R, X)
	case AddrPreIndex:
		return fmt.Sprintf("[%s,%s]!", R, X)
	case AddrPostIndex:
		return fmt.Sprintf("[%s],%s", R, X)
	case AddrPostReg:
		post := Reg(X0) + Reg(m.imm)
		postR := post.String()
		return fmt.Sprintf("[%s], %s", R, postR)
	}
	return fmt.Sprintf("unimplemented!")
}

// A MemExtend is a memory reference made up of a base R and index expression X.
// The effective memory address is R or R+X depending on Index, Extend and Amount.
type MemExtend struct {
	Base   RegSP
	Index  Reg
	Extend ExtShift
	// Amount indicates the index shift amount (but also see ShiftMustBeZero field below).
	Amount uint8
	// Refer to ARM reference manual, for byte load/store(register), the index
	// shift amount must be 0, encoded in "S" as 0 if omitted, or as 1 if present.
	// a.ShiftMustBeZero is set true indicates the index shift amount must be 0.
	// In GNU syntax, a #0 shift amount is printed if Amount is 1 but ShiftMustBeZero
	// is true; #0 is not printed if Amount is 0 and ShiftMustBeZero is true.
	// Both cases represent shift by 0 bit.
	ShiftMustBeZero bool
}

func (MemExtend) isArg() {}

func (m MemExtend) String() string {
	Rbase := m.Base.String()
	RIndex := m.Index.String()
	if m.ShiftMustBeZero {
		if m.Amount != 0 {
			return fmt.Sprintf("[%s,%s,%s #0]", Rbase, RIndex, m.Extend.String())
		} else {
			if m.Extend != lsl {
				return fmt.Sprintf("[%s,%s,%s]", Rbase, RIndex, m.Extend.String())
			} else {
				return fmt.Sprintf("[%s,%s]", Rbase, RIndex)
			}
		}
	} else {
		if m.Amount != 0 {
			return fmt.Sprintf("[%s,%s,%s #%d]", Rbase, RIndex, m.Extend.String(), m.Amount)
		} else {
			if m.Extend != lsl {
				return fmt.Sprintf("[%s,%s,%s]", Rbase, RIndex, m.Extend.String())
			} else {
				return fmt.Sprintf("[%s,%s]", Rbase, RIndex)
			}
		}
	}
}

// An Imm is an integer constant.
type Imm struct {
	Imm     uint32
	Decimal bool
}

func (Imm) isArg() {}

func (i Imm) String() string {
	if !i.Decimal {
		return fmt.Sprintf("#%#x", i.Imm)
	} else {
		return fmt.Sprintf("#%d", i.Imm)
	}
}

type Imm64 struct {
	Imm     uint64
	Decimal bool
}

func (Imm64) isArg() {}

func (i Imm64) String() string {
	if !i.Decimal {
		return fmt.Sprintf("#%#x", i.Imm)
	} else {
		return fmt.Sprintf("#%d", i.Imm)
	}
}

// An Imm_hint is an integer constant for HINT instruction.
type Imm_hint uint8

func (Imm_hint) isArg() {}

func (i Imm_hint) String() string {
	return fmt.Sprintf("#%#x", uint32(i))
}

// An Imm_clrex is an integer constant for CLREX instruction.
type Imm_clrex uint8

func (Imm_clrex) isArg() {}

func (i Imm_clrex) String() string {
	if i == 15 {
		return ""
	}
	return fmt.Sprintf("#%#x", uint32(i))
}

// An Imm_dcps is an integer constant for DCPS[123] instruction.
type Imm_dcps uint16

func (Imm_dcps) isArg() {}

func (i Imm_dcps) String() string {
	if i == 0 {
		return ""
	}
	return fmt.Sprintf("#%#x", uint32(i))
}

// Standard conditions.
type Cond struct {
	Value  uint8
	Invert bool
}

func (Cond) isArg() {}

func (c Cond) String() string {
	cond31 := c.Value >> 1
	invert := bool((c.Value & 1) == 1)
	invert = (invert != c.Invert)
	switch cond31 {
	case 0:
		if invert {
			return "NE"
		} else {
			return "EQ"
		}
	case 1:
		if invert {
			return "CC"
		} else {
			return "CS"
		}
	case 2:
		if invert {
			return "PL"
		} else {
			return "MI"
		}
	case 3:
		if invert {
			return "VC"
		} else {
			return "VS"
		}
	case 4:
		if invert {
			return "LS"
		} else {
			return "HI"
		}
	case 5:
		if invert {
			return "LT"
		} else {
			return "GE"
		}
	case 6:
		if invert {
			return "LE"
		} else {
			return "GT"
		}
	case 7:
		return "AL"
	}
	return ""
}

// An Imm_c is an integer constant for SYS/SYSL/TLBI instruction.
type Imm_c uint8

func (Imm_c) isArg() {}

func (i Imm_c) String() string {
	return fmt.Sprintf("C%d", uint8(i))
}

// An Imm_option is an integer constant for DMB/DSB/ISB instruction.
type Imm_option uint8

func (Imm_option) isArg() {}

func (i Imm_option) String() string {
	switch uint8(i) {
	case 15:
		return "SY"
	case 14:
		return "ST"
	case 13:
		return "LD"
	case 11:
		return "ISH"
	case 10:
		return "ISHST"
	case 9:
		return "ISHLD"
	case 7:
		return "NSH"
	case 6:
		return "NSHST"
	case 5:
		return "NSHLD"
	case 3:
		return "OSH"
	case 2:
		return "OSHST"
	case 1:
		return "OSHLD"
	}
	return fmt.Sprintf("#%#02x", uint8(i))
}

// An Imm_prfop is an integer constant for PRFM instruction.
type Imm_prfop uint8

func (Imm_prfop) isArg() {}

func (i Imm_prfop) String() string {
	prf_type := (i >> 3) & (1<<2 - 1)
	prf_target := (i >> 1) & (1<<2 - 1)
	prf_policy := i & 1
	var result string

	switch prf_type {
	case 0:
		result = "PLD"
	case 1:
		result = "PLI"
	case 2:
		result = "PST"
	case 3:
		return fmt.Sprintf("#%#02x", uint8(i))
	}
	switch prf_target {
	case 0:
		result += "L1"
	case 1:
		result += "L2"
	case 2:
		result += "L3"
	case 3:
		return fmt.Sprintf("#%#02x", uint8(i))
	}
	if prf_policy == 0 {
		result += "KEEP"
	} else {
		result += "STRM"
	}
	return result
}

type Pstatefield uint8

const (
	SPSel Pstatefield = iota
	DAIFSet
	DAIFClr
)

func (Pstatefield) isArg() {}

func (p Pstatefield) String() string {
	switch p {
	case SPSel:
		return "SPSel"
	case DAIFSet:
		return "DAIFSet"
	case DAIFClr:
		return "DAIFClr"
	default:
		return "unimplemented"
	}
}

type Systemreg struct {
	op0 uint8
	op1 uint8
	cn  uint8
	cm  uint8
	op2 uint8
}

func (Systemreg) isArg() {}

func (s Systemreg) String() string {
	return fmt.Sprintf("S%d_%d_C%d_C%d_%d",
		s.op0, s.op1, s.cn, s.cm, s.op2)
}

// An Imm_fp is a signed floating-point constant.
type Imm_fp struct {
	s   uint8
	exp int8
	pre uint8
}

func (Imm_fp) isArg() {}

func (i Imm_fp) String() string {
	var s, pre, numerator, denominator int16
	var result float64
	if i.s == 0 {
		s = 1
	} else {
		s = -1
	}
	pre = s * int16(16+i.pre)
	if i.exp > 0 {
		numerator = (pre << uint8(i.exp))
		denominator = 16
	} else {
		numerator = pre
		denominator = (16 << uint8(-1*i.exp))
	}
	result = float64(numerator) / float64(denominator)
	return fmt.Sprintf("#%.18e", result)
}

type Arrangement uint8

const (
	_ Arrangement = iota
	ArrangementB
	Arrangement8B
	Arrangement16B
	ArrangementH
	Arrangement4H
	Arrangement8H
	ArrangementS
	Arrangement2S
	Arrangement4S
	ArrangementD
	Arrangement1D
	Arrangement2D
	Arrangement1Q
)

func (a Arrangement) String() (result string) {
	switch a {
	case ArrangementB:
		result = ".B"
	case Arrangement8B:
		result = ".8B"
	case Arrangement16B:
		result = ".16B"
	case ArrangementH:
		result = ".H"
	case Arrangement4H:
		result = ".4H"
	case Arrangement8H:
		result = ".8H"
	case ArrangementS:
		result = ".S"
	case Arrangement2S:
		result = ".2S"
	case Arrangement4S:
		result = ".4S"
	case ArrangementD:
		result = ".D"
	case Arrangement1D:
		result = ".1D"
	case Arrangement2D:
		result = ".2D"
	case Arrangement1Q:
		result = ".1Q"
	}
	return
}

// Register with arrangement: <Vd>.<T>, { <Vt>.8B, <Vt2>.8B},
type RegisterWithArrangement struct {
	r   Reg
	a   Arrangement
	cnt uint8
}

func (RegisterWithArrangement) isArg() {}

func (r RegisterWithArrangement) String() string {
	result := r.r.String()
	result += r.a.String()
	if r.cnt > 0 {
		result = "{" + result
		if r.cnt == 2 {
			r1 := V0 + Reg((uint16(r.r)-uint16(V0)+1)&31)
			result += ", " + r1.String() + r.a.String()
		} else if r.cnt > 2 {
			if (uint16(r.cnt) + ((uint16(r.r) - uint16(V0)) & 31)) > 32 {
				for i := 1; i < int(r.cnt); i++ {
					cur := V0 + Reg((uint16(r.r)-uint16(V0)+uint16(i))&31)
					result += ", " + cur.String() + r.a.String()
				}
			} else {
				r1 := V0 + Reg((uint16(r.r)-uint16(V0)+uint16(r.cnt)-1)&31)
				result += "-" + r1.String() + r.a.String()
			}
		}
		result += "}"
	}
	return result
}

// Register with arrangement and index:
//
//	<Vm>.<Ts>[<index>],
//	{ <Vt>.B, <Vt2>.B }[<index>].
type RegisterWithArrangementAndIndex struct {
	r     Reg
	a     Arrangement
	index uint8
	cnt   uint8
}

func (RegisterWithArrangementAndIndex) isArg() {}

func (r RegisterWithArrangementAndIndex) String() string {
	result := r.r.String()
	result += r.a.String()
	if r.cnt > 0 {
		result = "{" + result
		if r.cnt == 2 {
			r1 := V0 + Reg((uint16(r.r)-uint16(V0)+1)&31)
			result += ", " + r1.String() + r.a.String()
		} else if r.cnt > 2 {
			if (uint16(r.cnt) + ((uint16(r.r) - uint16(V0)) & 31)) > 32 {
				for i := 1; i < int(r.cnt); i++ {
					cur := V0 + Reg((uint16(r.r)-uint16(V0)+uint16(i))&31)
					result += ", " + cur.String() + r.a.String()
				}
			} else {
				r1 := V0 + Reg((uint16(r.r)-uint16(V0)+uint16(r.cnt)-1)&31)
				result += "-" + r1.String() + r.a.String()
			}
		}
		result += "}"
	}
	return fmt.Sprintf("%s[%d]", result, r.index)
}

type sysOp struct {
	op          sysInstFields
	r           Reg
	hasOperand2 bool
}

func (s sysOp) isArg() {}

func (s sysOp) String() string {
	result := s.op.String()
	// If s.hasOperand2 is false, the value in the register
	// specified by s.r is ignored.
	if s.hasOperand2 {
		result += ", " + s.r.String()
	}
	return result
}

type sysInstFields struct {
	op1 uint8
	cn  uint8
	cm  uint8
	op2 uint8
}

type sysInstAttrs struct {
	typ         sys
	name        string
	hasOperand2 bool
}

func (s sysInstFields) isArg() {}

func (s sysInstFields) getAttrs() sysInstAttrs {
	attrs, ok := sysInstsAttrs[sysInstFields{s.op1, s.cn, s.cm, s.op2}]
	if !ok {
		return sysInstAttrs{typ: sys_SYS}
	}
	return attrs
}

func (s sysInstFields) String() string {
	return s.getAttrs().name
}

func (s sysInstFields) getType() sys {
	return s.getAttrs().typ
}

var sysInstsAttrs = map[sysInstFields]sysInstAttrs{
	sysInstFields{0, 8, 3, 0}:  {sys_TLBI, "VMALLE1IS", false},
	sysInstFields{0, 8, 3, 1}:  {sys_TLBI, "VAE1IS", true},
	sysInstFields{0, 8, 3, 2}:  {sys_TLBI, "ASIDE1IS", true},
	sysInstFields{0, 8, 3, 3}:  {sys_TLBI, "VAAE1IS", true},
	sysInstFields{0, 8, 3, 5}:  {sys_TLBI, "VALE1IS", true},
	sysInstFields{0, 8, 3, 7}:  {sys_TLBI, "VAALE1IS", true},
	sysInstFields{0, 8, 7, 0}:  {sys_TLBI, "VMALLE1", false},
	sysInstFields{0, 8, 7, 1}:  {sys_TLBI, "VAE1", true},
	sysInstFields{0, 8, 7, 2}:  {sys_TLBI, "ASIDE1", true},
	sysInstFields{0, 8, 7, 3}:  {sys_TLBI, "VAAE1", true},
	sysInstFields{0, 8, 7, 5}:  {sys_TLBI, "VALE1", true},
	sysInstFields{0, 8, 7, 7}:  {sys_TLBI, "VAALE1", true},
	sysInstFields{4, 8, 0, 1}:  {sys_TLBI, "IPAS2E1IS", true},
	sysInstFields{4, 8, 0, 5}:  {sys_TLBI, "IPAS2LE1IS", true},
	sysInstFields{4, 8, 3, 0}:  {sys_TLBI, "ALLE2IS", false},
	sysInstFields{4, 8, 3, 1}:  {sys_TLBI, "VAE2IS", true},
	sysInstFields{4, 8, 3, 4}:  {sys_TLBI, "ALLE1IS", false},
	sysInstFields{4, 8, 3, 5}:  {sys_TLBI, "VALE2IS", true},
	sysInstFields{4, 8, 3, 6}:  {sys_TLBI, "VMALLS12E1IS", false},
	sysInstFields{4, 8, 4, 1}:  {sys_TLBI, "IPAS2E1", true},
	sysInstFields{4, 8, 4, 5}:  {sys_TLBI, "IPAS2LE1", true},
	sysInstFields{4, 8, 7, 0}:  {sys_TLBI, "ALLE2", false},
	sysInstFields{4, 8, 7, 1}:  {sys_TLBI, "VAE2", true},
	sysInstFields{4, 8, 7, 4}:  {sys_TLBI, "ALLE1", false},
	sysInstFields{4, 8, 7, 5}:  {sys_TLBI, "VALE2", true},
	sysInstFields{4, 8, 7, 6}:  {sys_TLBI, "VMALLS12E1", false},
	sysInstFields{6, 8, 3, 0}:  {sys_TLBI, "ALLE3IS", false},
	sysInstFields{6, 8, 3, 1}:  {sys_TLBI, "VAE3IS", true},
	sysInstFields{6, 8, 3, 5}:  {sys_TLBI, "VALE3IS", true},
	sysInstFields{6, 8, 7, 0}:  {sys_TLBI, "ALLE3", false},
	sysInstFields{6, 8, 7, 1}:  {sys_TLBI, "VAE3", true},
	sysInstFields{6, 8, 7, 5}:  {sys_TLBI, "VALE3", true},
	sysInstFields{0, 8, 1, 0}:  {sys_TLBI, "VMALLE1OS", false},
	sysInstFields{0, 8, 1, 1}:  {sys_TLBI, "VAE1OS", true},
	sysInstFields{0, 8, 1, 2}:  {sys_TLBI, "ASIDE1OS", true},
	sysInstFields{0, 8, 1, 3}:  {sys_TLBI, "VAAE1OS", true},
	sysInstFields{0, 8, 1, 5}:  {sys_TLBI, "VALE1OS", true},
	sysInstFields{0, 8, 1, 7}:  {sys_TLBI, "VAALE1OS", true},
	sysInstFields{0, 8, 2, 1}:  {sys_TLBI, "RVAE1IS", true},
	sysInstFields{0, 8, 2, 3}:  {sys_TLBI, "RVAAE1IS", true},
	sysInstFields{0, 8, 2, 5}:  {sys_TLBI, "RVALE1IS", true},
	sysInstFields{0, 8, 2, 7}:  {sys_TLBI, "RVAALE1IS", true},
	sysInstFields{0, 8, 5, 1}:  {sys_TLBI, "RVAE1OS", true},
	sysInstFields{0, 8, 5, 3}:  {sys_TLBI, "RVAAE1OS", true},
	sysInstFields{0, 8, 5, 5}:  {sys_TLBI, "RVALE1OS", true},
	sysInstFields{0, 8, 5, 7}:  {sys_TLBI, "RVAALE1OS", true},
	sysInstFields{0, 8, 6, 1}:  {sys_TLBI, "RVAE1", true},
	sysInstFields{0, 8, 6, 3}:  {sys_TLBI, "RVAAE1", true},
	sysInstFields{0, 8, 6, 5}:  {sys_TLBI, "RVALE1", true},
	sysInstFields{0, 8, 6, 7}:  {sys_TLBI, "RVAALE1", true},
	sysInstFields{4, 8, 0, 2}:  {sys_TLBI, "RIPAS2E1IS", true},
	sysInstFields{4, 8, 0, 6}:  {sys_TLBI, "RIPAS2LE1IS", true},
	sysInstFields{4, 8, 1, 0}:  {sys_TLBI, "ALLE2OS", false},
	sysInstFields{4, 8, 1, 1}:  {sys_TLBI, "VAE2OS", true},
	sysInstFields{4, 8, 1, 4}:  {sys_TLBI, "ALLE1OS", false},
	sysInstFields{4, 8, 1, 5}:  {sys_TLBI, "VALE2OS", true},
	sysInstFields{4, 8, 1, 6}:  {sys_TLBI, "VMALLS12E1OS", false},
	sysInstFields{4, 8, 2, 1}:  {sys_TLBI, "RVAE2IS", true},
	sysInstFields{4, 8, 2, 5}:  {sys_TLBI, "RVALE2IS", true},
	sysInstFields{4, 8, 4, 0}:  {sys_TLBI, "IPAS2E1OS", true},
	sysInstFields{4, 8, 4, 2}:  {sys_TLBI, "RIPAS2E1", true},
	sysInstFields{4, 8, 4, 3}:  {sys_TLBI, "RIPAS2E1OS", true},
	sysInstFields{4, 8, 4, 4}:  {sys_TLBI, "IPAS2LE1OS", true},
	sysInstFields{4, 8, 4, 6}:  {sys_TLBI, "RIPAS2LE1", true},
	sysInstFields{4, 8, 4, 7}:  {sys_TLBI, "RIPAS2LE1OS", true},
	sysInstFields{4, 8, 5, 1}:  {sys_TLBI, "RVAE2OS", true},
	sysInstFields{4, 8, 5, 5}:  {sys_TLBI, "RVALE2OS", true},
	sysInstFields{4, 8, 6, 1}:  {sys_TLBI, "RVAE2", true},
	sysInstFields{4, 8, 6, 5}:  {sys_TLBI, "RVALE2", true},
	sysInstFields{6, 8, 1, 0}:  {sys_TLBI, "ALLE3OS", false},
	sysInstFields{6, 8, 1, 1}:  {sys_TLBI, "VAE3OS", true},
	sysInstFields{6, 8, 1, 5}:  {sys_TLBI, "VALE3OS", true},
	sysInstFields{6, 8, 2, 1}:  {sys_TLBI, "RVAE3IS", true},
	sysInstFields{6, 8, 2, 5}:  {sys_TLBI, "RVALE3IS", true},
	sysInstFields{6, 8, 5, 1}:  {sys_TLBI, "RVAE3OS", true},
	sysInstFields{6, 8, 5, 5}:  {sys_TLBI, "RVALE3OS", true},
	sysInstFields{6, 8, 6, 1}:  {sys_TLBI, "RVAE3", true},
	sysInstFields{6, 8, 6, 5}:  {sys_TLBI, "RVALE3", true},
	sysInstFields{0, 7, 6, 1}:  {sys_DC, "IVAC", true},
	sysInstFields{0, 7, 6, 2}:  {sys_DC, "ISW", true},
	sysInstFields{0, 7, 10, 2}: {sys_DC, "CSW", true},
	sysInstFields{0, 7, 14, 2}: {sys_DC, "CISW", true},
	sysInstFields{3, 7, 4, 1}:  {sys_DC, "ZVA", true},
	sysInstFields{3, 7, 10, 1}: {sys_DC, "CVAC", true},
	sysInstFields{3, 7, 11, 1}: {sys_DC, "CVAU", true},
	sysInstFields{3, 7, 14, 1}: {sys_DC, "CIVAC", true},
	sysInstFields{0, 7, 6, 3}:  {sys_DC, "IGVAC", true},
	sysInstFields{0, 7, 6, 4}:  {sys_DC, "IGSW", true},
	sysInstFields{0, 7, 6, 5}:  {sys_DC, "IGDVAC", true},
	sysInstFields{0, 7, 6, 6}:  {sys_DC, "IGDSW", true},
	sysInstFields{0, 7, 10, 4}: {sys_DC, "CGSW", true},
	sysInstFields{0, 7, 10, 6}: {sys_DC, "CGDSW", true},
	sysInstFields{0, 7, 14, 4}: {sys_DC, "CIGSW", true},
	sysInstFields{0, 7, 14, 6}: {sys_DC, "CIGDSW", true},
	sysInstFields{3, 7, 4, 3}:  {sys_DC, "GVA", true},
	sysInstFields{3, 7, 4, 4}:  {sys_DC, "GZVA", true},
	sysInstFields{3, 7, 10, 3}: {sys_DC, "CGVAC", true},
	sysInstFields{3, 7, 10, 5}: {sys_DC, "CGDVAC", true},
	sysInstFields{3, 7, 12, 3}: {sys_DC, "CGVAP", true},
	sysInstFields{3, 7, 12, 5}: {sys_DC, "CGDVAP", true},
	sysInstFields{3, 7, 13, 3}: {sys_DC, "CGVADP", true},
	sysInstFields{3, 7, 13, 5}: {sys_DC, "CGDVADP", true},
	sysInstFields{3, 7, 14, 3}: {sys_DC, "CIGVAC", true},
	sysInstFields{3, 7, 14, 5}: {sys_DC, "CIGDVAC", true},
	sysInstFields{3, 7, 12, 1}: {sys_DC, "CVAP", true},
	sysInstFields{3, 7, 13, 1}: {sys_DC, "CVADP", true},
}
