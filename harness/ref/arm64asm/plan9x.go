// Copyright 2017 The Go Authors. All rights reserved.
// Use of this source code is governed by a BSD-style
// license that can be found in the LICENSE file.

package arm64asm

import (
	"fmt"
	"io"
	"sort"
	"strings"
)

// GoSyntax returns the Go assembler syntax for the instruction.
// The syntax was originally defined by Plan 9.
// The pc is the program counter of the instruction, used for
// expanding PC-relative addresses into absolute ones.
// The symname function queries the symbol table for the program
// being disassembled. Given a target address it returns the name
// and base address of the symbol containing the target, if any;
// otherwise it returns "", 0.
// The reader text should read from the text segment using text addresses
// as offsets; it is used to display pc-relative loads as constant loads.
func GoSyntax(inst Inst, pc uint64, symname func(uint64) (string, uint64), text io.ReaderAt) string {
	if symname == nil {
		symname = func(uint64) (string, uint64) { return "", 0 }
	}

	var args []string
	for _, a := range inst.Args {
		if a == nil {
			break
		}
		args = append(args, plan9Arg(&inst, pc, symname, a))
	}

	op := inst.Op.String()

	switch inst.Op {
	case LDR, LDRB, LDRH, LDRSB, LDRSH, LDRSW:
		// Check for PC-relative load.
		if offset, ok := inst.Args[1].(PCRel); ok {
			addr := pc + uint64(offset)
			if _, ok := inst.Args[0].(Reg); !ok {
				break
			}
			if s, base := symname(addr); s != "" && addr == base {
				args[1] = fmt.Sprintf("$%s(SB)", s)
			}
		}
	}

	// Move addressing mode into opcode suffix.
	suffix := ""
	switch inst.Op {
	case LDR, LDRB, LDRH, LDRSB, LDRSH, LDRSW, STR, STRB, STRH, STUR, STURB, STURH, LD1, ST1:
		switch mem := inst.Args[1].(type) {
		case MemImmediate:
			switch mem.Mode {
			case AddrOffset:
				// no suffix
			case AddrPreIndex:
				suffix = ".W"
			case AddrPostIndex, AddrPostReg:
				suffix = ".P"
			}
		}

	case STP, LDP:
		switch mem := inst.Args[2].(type) {
		case MemImmediate:
			switch mem.Mode {
			case AddrOffset:
				// no suffix
			case AddrPreIndex:
				suffix = ".W"
			case AddrPostIndex:
				suffix = ".P"
			}
		}
	}

	switch inst.Op {
	case BL:
		return "CALL " + args[0]

	case BLR:
		r := inst.Args[0].(Reg)
		regno := uint16(r) & 31
		return fmt.Sprintf("CALL (R%d)", regno)

	case RET:
		if r, ok := inst.Args[0].(Reg); ok && r == X30 {
			return "RET"
		}

	case B:
		if cond, ok := inst.Args[0].(Cond); ok {
			return "B" + cond.String() + " " + args[1]
		}
		return "JMP" + " " + args[0]

	case BR:
		r := inst.Args[0].(Reg)
		regno := uint16(r) & 31
		return fmt.Sprintf("JMP (R%d)", regno)

	case MOV:
		rno := -1
		switch a := inst.Args[0].(type) {
		case Reg:
			rno = int(a)
		case RegSP:
			rno = int(a)
		case RegisterWithArrangementAndIndex:
			op = "VMOV"
		case RegisterWithArrangement:
			op = "VMOV"
		}
		if rno >= 0 && rno <= int(WZR) {
			op = "MOVW"
		} else if rno >= int(X0) && rno <= int(XZR) {
			op = "MOVD"
		}
		if _, ok := inst.Args[1].(RegisterWithArrangementAndIndex); ok {
			op = "VMOV"
		}

	case LDR, LDUR:
		var rno uint16
		if r, ok := inst.Args[0].(Reg); ok {
			rno = uint16(r)
		} else {
			rno = uint16(inst.Args[0].(RegSP))
		}
		if rno <= uint16(WZR) {
			op = "MOVWU" + suffix
		} else if rno >= uint16(B0) && rno <= uint16(B31) {
			op = "FMOVB" + suffix
			args[0] = fmt.Sprintf("F%d", rno&31)
		} else if rno >= uint16(H0) && rno <= uint16(H31) {
			op = "FMOVH" + suffix
			args[0] = fmt.Sprintf("F%d", rno&31)
		} else if rno >= uint16(S0) && rno <= uint16(S31) {
			op = "FMOVS" + suffix
			args[0] = fmt.Sprintf("F%d", rno&31)
		} else if rno >= uint16(D0) && rno <= uint16(D31) {
			op = "FMOVD" + suffix
			args[0] = fmt.Sprintf("F%d", rno&31)
		} else if rno >= uint16(Q0) && rno <= uint16(Q31) {
			op = "FMOVQ" + suffix
			args[0] = fmt.Sprintf("F%d", rno&31)
		} else {
			op = "MOVD" + suffix
		}

	case LDRB:
		op = "MOVBU" + suffix

	case LDRH:
		op = "MOVHU" + suffix

	case LDRSW:
		op = "MOVW" + suffix

	case LDRSB:
		if r, ok := inst.Args[0].(Reg); ok {
			rno := uint16(r)
			if rno <= uint16(WZR) {
				op = "MOVBW" + suffix
			} else {
				op = "MOVB" + suffix
			}
		}
	case LDRSH:
		if r, ok := inst.Args[0].(Reg); ok {
			rno := uint16(r)
			if rno <= uint16(WZR) {
				op = "MOVHW" + suffix
			} else {
				op = "MOVH" + suffix
			}
		}
	case STR, STUR:
		var rno uint16
		if r, ok := inst.Args[0].(Reg); ok {
			rno = uint16(r)
		} else {
			rno = uint16(inst.Args[0].(RegSP))
		}
		if rno <= uint16(WZR) {
			op = "MOVW" + suffix
		} else if rno >= uint16(B0) && rno <= uint16(B31) {
			op = "FMOVB" + suffix
			args[0] = fmt.Sprintf("F%d", rno&31)
		} else if rno >= uint16(H0) && rno <= uint16(H31) {
			op = "FMOVH" + suffix
			args[0] = fmt.Sprintf("F%d", rno&31)
		} else if rno >= uint16(S0) && rno <= uint16(S31) {
			op = "FMOVS" + suffix
			args[0] = fmt.Sprintf("F%d", rno&31)
		} else if rno >= uint16(D0) && rno <= uint16(D31) {
			op = "FMOVD" + suffix
			args[0] = fmt.Sprintf("F%d", rno&31)
		} else if rno >= uint16(Q0) && rno <= uint16(Q31) {
			op = "FMOVQ" + suffix
			args[0] = fmt.Sprintf("F%d", rno&31)
		} else {
			op = "MOVD" + suffix
		}
		args[0], args[1] = args[1], args[0]

	case STRB, STURB:
		op = "MOVB" + suffix
		args[0], args[1] = args[1], args[0]

	case STRH, STURH:
		op = "MOVH" + suffix
		args[0], args[1] = args[1], args[0]

	case TBNZ, TBZ:
		args[0], args[1], args[2] = args[2], args[0], args[1]

	case MADD, MSUB, SMADDL, SMSUBL, UMADDL, UMSUBL:
		if r, ok := inst.Args[0].(Reg); ok {
			rno := uint16(r)
			if rno <= uint16(WZR) {
				op += "W"
			}
		}
		args[2], args[3] = args[3], args[2]
	case STLR:
		if r, ok := inst.Args[0].(Reg); ok {
			rno := uint16(r)
			if rno <= uint16(WZR) {
				op += "W"
			}
		}
		args[0], args[1] = args[1], args[0]

	case STLRB, STLRH:
		args[0], args[1] = args[1], args[0]

	case STLXR, STXR:
		if r, ok := inst.Args[1].(Reg); ok {
			rno := uint16(r)
			if rno <= uint16(WZR) {
				op += "W"
			}
		}
		args[1], args[2] = args[2], args[1]

	case STLXRB, STLXRH, STXRB, STXRH:
		args[1], args[2] = args[2], args[1]

	case BFI, BFXIL, SBFIZ, SBFX, UBFIZ, UBFX:
		if r, ok := inst.Args[0].(Reg); ok {
			rno := uint16(r)
			if rno <= uint16(WZR) {
				op += "W"
			}
		}
		args[1], args[2], args[3] = args[3], args[1], args[2]

	case LDAXP, LDXP:
		if r, ok := inst.Args[0].(Reg); ok {
			rno := uint16(r)
			if rno <= uint16(WZR) {
				op += "W"
			}
		}
		args[0] = fmt.Sprintf("(%s, %s)", args[0], args[1])
		args[1] = args[2]
		return op + " " + args[1] + ", " + args[0]

	case STP, LDP:
		args[0] = fmt.Sprintf("(%s, %s)", args[0], args[1])
		args[1] = args[2]

		rno, ok := inst.Args[0].(Reg)
		if !ok {
			rno = Reg(inst.Args[0].(RegSP))
		}
		if rno <= WZR {
			op = op + "W"
		} else if rno >= S0 && rno <= S31 {
			op = "F" + op + "S"
		} else if rno >= D0 && rno <= D31 {
			op = "F" + op + "D"
		} else if rno >= Q0 && rno <= Q31 {
			op = "F" + op + "Q"
		}
		op = op + suffix
		if inst.Op.String() == "STP" {
			return op + " " + args[0] + ", " + args[1]
		} else {
			return op + " " + args[1] + ", " + args[0]
		}

	case STLXP, STXP:
		if r, ok := inst.Args[1].(Reg); ok {
			rno := uint16(r)
			if rno <= uint16(WZR) {
				op += "W"
			}
		}
		args[1] = fmt.Sprintf("(%s, %s)", args[1], args[2])
		args[2] = args[3]
		return op + " " + args[1] + ", " + args[2] + ", " + args[0]

	case FCCMP, FCCMPE:
		args[0], args[1] = args[1], args[0]
		fallthrough

	case FCMP, FCMPE:
		if _, ok := inst.Args[1].(Imm); ok {
			args[1] = "$(0.0)"
		}
		fallthrough

	case FADD, FSUB, FMUL, FNMUL, FDIV, FMAX, FMIN, FMAXNM, FMINNM, FCSEL, FMADD, FMSUB, FNMADD, FNMSUB:
		if strings.HasSuffix(op, "MADD") || strings.HasSuffix(op, "MSUB") {
			args[2], args[3] = args[3], args[2]
		}
		if r, ok := inst.Args[0].(Reg); ok {
			rno := uint16(r)
			if rno >= uint16(S0) && rno <= uint16(S31) {
				op = fmt.Sprintf("%sS", op)
			} else if rno >= uint16(D0) && rno <= uint16(D31) {
				op = fmt.Sprintf("%sD", op)
			}
		}

	case FCVT:
		for i := 1; i >= 0; i-- {
			if r, ok := inst.Args[i].(Reg); ok {
				rno := uint16(r)
				if rno >= uint16(H0) && rno <= uint16(H31) {
					op = fmt.Sprintf("%sH", op)
				} else if rno >= uint16(S0) && rno <= uint16(S31) {
					op = fmt.Sprintf("%sS", op)
				} else if rno >= uint16(D0) && rno <= uint16(D31) {
					op = fmt.Sprintf("%sD", op)
				}
			}
		}

	case FABS, FNEG, FSQRT, FRINTN, FRINTP, FRINTM, FRINTZ, FRINTA, FRINTX, FRINTI:
		if r, ok := inst.Args[1].(Reg); ok {
			rno := uint16(r)
			if rno >= uint16(S0) && rno <= uint16(S31) {
				op = fmt.Sprintf("%sS", op)
			} else if rno >= uint16(D0) && rno <= uint16(D31) {
				op = fmt.Sprintf("%sD", op)
			}
		}

	case FCVTZS, FCVTZU, SCVTF, UCVTF:
		if _, ok := inst.Args[2].(Imm); !ok {
			for i := 1; i >= 0; i-- {
				if r, ok := inst.Args[i].(Reg); ok {
					rno := uint16(r)
					if rno >= uint16(S0) && rno <= uint16(S31) {
						op = fmt.Sprintf("%sS", op)
					} else if rno >= uint16(D0) && rno <= uint16(D31) {
						op = fmt.Sprintf("%sD", op)
					} else if rno <= uint16(WZR) {
						op += "W"
					}
				}
			}
		}

	case FMOV:
		for i := 0; i <= 1; i++ {
			if r, ok := inst.Args[i].(Reg); ok {
				rno := uint16(r)
				if rno >= uint16(S0) && rno <= uint16(S31) {
					op = fmt.Sprintf("%sS", op)
					break
				} else if rno >= uint16(D0) && rno <= uint16(D31) {
					op = fmt.Sprintf("%sD", op)
					break
				}
			}
		}

	case SYSL:
		op1 := int(inst.Args[1].(Imm).Imm)
		cn := int(inst.Args[2].(Imm_c))
		cm := int(inst.Args[3].(Imm_c))
		op2 := int(inst.Args[4].(Imm).Imm)
		sysregno := int32(op1<<16 | cn<<12 | cm<<8 | op2<<5)
		args[1] = fmt.Sprintf("$%d", sysregno)
		return op + " " + args[1] + ", " + args[0]

	case CBNZ, CBZ:
		if r, ok := inst.Args[0].(Reg); ok {
			rno := uint16(r)
			if rno <= uint16(WZR) {
				op += "W"
			}
		}
		args[0], args[1] = args[1], args[0]

	case ADR, ADRP:
		addr := int64(inst.Args[1].(PCRel))
		args[1] = fmt.Sprintf("%d(PC)", addr)

	case MSR:
		args[0] = inst.Args[0].String()

	case ST1:
		op = fmt.Sprintf("V%s", op) + suffix
		args[0], args[1] = args[1], args[0]

	case LD1:
		op = fmt.Sprintf("V%s", op) + suffix

	case UMOV:
		op = "VMOV"
	case NOP:
		op = "NOOP"

	default:
		index := sort.SearchStrings(noSuffixOpSet, op)
		if !(index < len(noSuffixOpSet) && noSuffixOpSet[index] == op) {
			rno := -1
			switch a := inst.Args[0].(type) {
			case Reg:
				rno = int(a)
			case RegSP:
				rno = int(a)
			case RegisterWithArrangement:
				op = fmt.Sprintf("V%s", op)
			}

			if rno >= int(B0) && rno <= int(Q31) && !strings.HasPrefix(op, "F") {
				op = fmt.Sprintf("V%s", op)
			}
			if rno >= 0 && rno <= int(WZR) {
				// Add "w" to opcode suffix.
				op += "W"
			}
		}
		op = op + suffix
	}

	// conditional instructions, replace args.
	if _, ok := inst.Args[3].(Cond); ok {
		if _, ok := inst.Args[2].(Reg); ok {
			args[1], args[2] = args[2], args[1]
		} else {
			args[0], args[2] = args[2], args[0]
		}
	}
	// Reverse args, placing dest last.
	for i, j := 0, len(args)-1; i < j; i, j = i+1, j-1 {
		args[i], args[j] = args[j], args[i]
	}

	if args != nil {
		op += " " + strings.Join(args, ", ")
	}

	return op
}

// No need add "W" to opcode suffix.
// Opcode must be inserted in ascending order.
var noSuffixOpSet = strings.Fields(`
AESD
AESE
AESIMC
AESMC
CRC32B
CRC32CB
CRC32CH
CRC32CW
CRC32CX
CRC32H
CRC32W
CRC32X
LDARB
LDARH
LDAXRB
LDAXRH
LDTRH
LDXRB
LDXRH
SHA1C
SHA1H
SHA1M
SHA1P
SHA1SU0
SHA1SU1
SHA256H
SHA256H2
SHA256SU0
SHA256SU1
`)

// floating point instructions without "F" prefix.
var fOpsWithoutFPrefix = map[Op]bool{
	LDP: true,
	STP: true,
}

func plan9Arg(inst *Inst, pc uint64, symname func(uint64) (string, uint64), arg Arg) string {
	switch a := arg.(type) {
	case Imm:
		return fmt.Sprintf("$%d", uint32(a.Imm))

	case Imm64:
		return fmt.Sprintf("$%d", int64(a.Imm))

	case ImmShift:
		if a.shift == 0 {
			return fmt.Sprintf("$%d", a.imm)
		}
		return fmt.Sprintf("$(%d<<%d)", a.imm, a.shift)

	case PCRel:
		addr := int64(pc) + int64(a)
		if s, base := symname(uint64(addr)); s != "" && uint64(addr) == base {
			return fmt.Sprintf("%s(SB)", s)
		}
		return fmt.Sprintf("%d(PC)", a/4)

	case Reg:
		regenum := uint16(a)
		regno := uint16(a) & 31

		if regenum >= uint16(B0) && regenum <= uint16(Q31) {
			if strings.HasPrefix(inst.Op.String(), "F") || strings.HasSuffix(inst.Op.String(), "CVTF") || fOpsWithoutFPrefix[inst.Op] {
				// FP registers are the same ones as SIMD registers
				// Print Fn for scalar variant to align with assembler (e.g., FCVT, SCVTF, UCVTF, etc.)
				return fmt.Sprintf("F%d", regno)
			} else {
				// Print Vn to align with assembler (e.g., SHA256H)
				return fmt.Sprintf("V%d", regno)
			}

		}
		return plan9gpr(a)

	case RegSP:
		regno := uint16(a) & 31
		if regno == 31 {
			return "RSP"
		}
		return fmt.Sprintf("R%d", regno)

	case RegExtshiftAmount:
		reg := plan9gpr(a.reg)
		extshift := ""
		amount := ""
		if a.extShift != ExtShift(0) {
			switch a.extShift {
			default:
				extshift = "." + a.extShift.String()

			case lsl:
				extshift = "<<"
				amount = fmt.Sprintf("%d", a.amount)
				return reg + extshift + amount

			case lsr:
				extshift = ">>"
				amount = fmt.Sprintf("%d", a.amount)
				return reg + extshift + amount

			case asr:
				extshift = "->"
				amount = fmt.Sprintf("%d", a.amount)
				return reg + extshift + amount
			case ror:
				extshift = "@>"
				amount = fmt.Sprintf("%d", a.amount)
				return reg + extshift + amount
			}
			if a.amount != 0 {
				amount = fmt.Sprintf("<<%d", a.amount)
			}
		}
		return reg + extshift + amount

	case MemImmediate:
		off := ""
		base := ""
		regno := uint16(a.Base) & 31
		if regno == 31 {
			base = "(RSP)"
		} else {
			base = fmt.Sprintf("(R%d)", regno)
		}
		if a.imm != 0 && a.Mode != AddrPostReg {
			off = fmt.Sprintf("%d", a.imm)
		} else if a.Mode == AddrPostReg {
			postR := fmt.Sprintf("(R%d)", a.imm)
			return base + postR
		}
		return off + base

	case MemExtend:
		base := ""
		index := ""
		regno := uint16(a.Base) & 31
		if regno == 31 {
			base = "(RSP)"
		} else {
			base = fmt.Sprintf("(R%d)", regno)
		}
		indexreg := plan9gpr(a.Index)

		if a.Extend == lsl {
			// Refer to ARM reference manual, for byte load/store(register), the index
			// shift amount must be 0, encoded in "S" as 0 if omitted, or as 1 if present.
			// a.Amount indicates the index shift amount, encoded in "S" field.
			// a.ShiftMustBeZero is set true indicates the index shift amount must be 0.
			// When a.ShiftMustBeZero is true, GNU syntax prints "[Xn, Xm lsl #0]" if "S"
			// equals to 1, or prints "[Xn, Xm]" if "S" equals to 0.
			if a.Amount != 0 && !a.ShiftMustBeZero {
				index = fmt.Sprintf("(%s<<%d)", indexreg, a.Amount)
			} else if a.ShiftMustBeZero && a.Amount == 1 {
				// When a.ShiftMustBeZero is ture, Go syntax prints "(Rm<<0)" if "a.Amount"
				// equals to 1.
				index = fmt.Sprintf("(%s<<0)", indexreg)
			} else {
				index = fmt.Sprintf("(%s)", indexreg)
			}
		} else {
			if a.Amount != 0 && !a.ShiftMustBeZero {
				index = fmt.Sprintf("(%s.%s<<%d)", indexreg, a.Extend.String(), a.Amount)
			} else {
				index = fmt.Sprintf("(%s.%s)", indexreg, a.Extend.String())
			}
		}

		return base + index

	case Cond:
		switch arg.String() {
		case "CS":
			return "HS"
		case "CC":
			return "LO"
		}

	case Imm_clrex:
		return fmt.Sprintf("$%d", uint32(a))

	case Imm_dcps:
		return fmt.Sprintf("$%d", uint32(a))

	case Imm_option:
		return fmt.Sprintf("$%d", uint8(a))

	case Imm_hint:
		return fmt.Sprintf("$%d", uint8(a))

	case Imm_fp:
		var s, pre, numerator, denominator int16
		var result float64
		if a.s == 0 {
			s = 1
		} else {
			s = -1
		}
		pre = s * int16(16+a.pre)
		if a.exp > 0 {
			numerator = (pre << uint8(a.exp))
			denominator = 16
		} else {
			numerator = pre
			denominator = (16 << uint8(-1*a.exp))
		}
		result = float64(numerator) / float64(denominator)
		return strings.TrimRight(fmt.Sprintf("$%f", result), "0")

	case RegisterWithArrangement:
		result := a.r.String()
		arrange := a.a.String()
		c := []rune(arrange)
		switch len(c) {
		case 3:
			c[1], c[2] = c[2], c[1] // .8B -> .B8
		case 4:
			c[1], c[2], c[3] = c[3], c[1], c[2] // 16B -> B16
		}
		arrange = string(c)
		result += arrange
		if a.cnt > 0 {
			result = "[" + result
			for i := 1; i < int(a.cnt); i++ {
				cur := V0 + Reg((uint16(a.r)-uint16(V0)+uint16(i))&31)
				result += ", " + cur.String() + arrange
			}
			result += "]"
		}
		return result

	case RegisterWithArrangementAndIndex:
		result := a.r.String()
		arrange := a.a.String()
		result += arrange
		if a.cnt > 1 {
			result = "[" + result
			for i := 1; i < int(a.cnt); i++ {
				cur := V0 + Reg((uint16(a.r)-uint16(V0)+uint16(i))&31)
				result += ", " + cur.String() + arrange
			}
			result += "]"
		}
		return fmt.Sprintf("%s[%d]", result, a.index)

	case Systemreg:
		return fmt.Sprintf("$%d", uint32(a.op0&1)<<14|uint32(a.op1&7)<<11|uint32(a.cn&15)<<7|uint32(a.cm&15)<<3|uint32(a.op2)&7)

	case Imm_prfop:
		if strings.Contains(a.String(), "#") {
			return fmt.Sprintf("$%d", a)
		}
	case sysOp:
		result := a.op.String()
		if a.r != 0 {
			result += ", " + plan9gpr(a.r)
		}
		return result
	}

	return strings.ToUpper(arg.String())
}

// Convert a general-purpose register to plan9 assembly format.
func plan9gpr(r Reg) string {
	regno := uint16(r) & 31
	if regno == 31 {
		return "ZR"
	}
	return fmt.Sprintf("R%d", regno)
}
