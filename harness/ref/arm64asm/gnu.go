// Copyright 2017 The Go Authors. All rights reserved.
// Use of this source code is governed by a BSD-style
// license that can be found in the LICENSE file.

package arm64asm

import (
	"strings"
)

// GNUSyntax returns the GNU assembler syntax for the instruction, as defined by GNU binutils.
// This form typically matches the syntax defined in the ARM Reference Manual.
func GNUSyntax(inst Inst) string {
	switch inst.Op {
	case RET:
		if r, ok := inst.Args[0].(Reg); ok && r == X30 {
			return "ret"
		}
	case B:
		if _, ok := inst.Args[0].(Cond); ok {
			return strings.ToLower("b." + inst.Args[0].String() + " " + inst.Args[1].String())
		}
	case SYSL:
		result := strings.ToLower(inst.String())
		return strings.Replace(result, "c", "C", -1)
	case DCPS1, DCPS2, DCPS3, CLREX:
		return strings.ToLower(strings.TrimSpace(inst.String()))
	case ISB:
		if strings.Contains(inst.String(), "SY") {
			result := strings.TrimSuffix(inst.String(), " SY")
			return strings.ToLower(result)
		}
	}
	return strings.ToLower(inst.String())
}
