// Copyright 2014 The Go Authors.  All rights reserved.
// Use of this source code is governed by a BSD-style
// license that can be found in the LICENSE file.

package x86asm

import (
	"fmt"
	"strings"
)

// IntelSyntax returns the Intel assembler syntax for the instruction, as defined by Intel's XED tool.
func IntelSyntax(inst Inst, pc uint64, symname SymLookup) string {
	if symname == nil {
		symname = func(uint64) (string, uint64) { return "", 0 }
	}

	var iargs []Arg
	for _, a := range inst.Args {
		if a == nil {
			break
		}
		iargs = append(iargs, a)
	}

	switch inst.Op {
	case INSB, INSD, INSW, OUTSB, OUTSD, OUTSW, LOOPNE, JCXZ, JECXZ, JRCXZ, LOOP, LOOPE, MOV, XLATB:
		if inst.Op == MOV && (inst.Opcode>>16)&0xFFFC != 0x0F20 {
			break
		}
		for i, p := range inst.Prefix {
			if p&0xFF == PrefixAddrSize {
				inst.Prefix[i] &^= PrefixImplicit
			}
		}
	}

	switch inst.Op {
	case MOV:
		dst, _ := inst.Args[0].(Reg)
		src, _ := inst.Args[1].(Reg)
		if ES <= dst && dst <= GS && EAX <= src && src <= R15L {
			src -= EAX - AX
			iargs[1] = src
		}
		if ES <= dst && dst <= GS && RAX <= src && src <= R15 {
			src -= RAX - AX
			iargs[1] = src
		}

		if inst.Opcode>>24&^3 == 0xA0 {
			for i, p := range inst.Prefix {
				if p&0xFF == PrefixAddrSize {
					inst.Prefix[i] |= PrefixImplicit
				}
			}
		}
	}

	switch inst.Op {
	case AAM, AAD:
		if imm, ok := iargs[0].(Imm); ok {
			if inst.DataSize == 32 {
				iargs[0] = Imm(uint32(int8(imm)))
			} else if inst.DataSize == 16 {
				iargs[0] = Imm(uint16(int8(imm)))
			}
		}

	case PUSH:
		if imm, ok := iargs[0].(Imm); ok {
			iargs[0] = Imm(uint32(imm))
		}
	}

	for _, p := range inst.Prefix {
		if p&PrefixImplicit != 0 {
			for j, pj := range inst.Prefix {
				if pj&0xFF == p&0xFF {
					inst.Prefix[j] |= PrefixImplicit
				}
			}
		}
	}

	if inst.Op != 0 {
		for i, p := range inst.Prefix {
			switch p &^ PrefixIgnored {
			case PrefixData16, PrefixData32, PrefixCS, PrefixDS, PrefixES, PrefixSS:
				inst.Prefix[i] |= PrefixImplicit
			}
			if p.IsREX() {
				inst.Prefix[i] |= PrefixImplicit
			}
			if p.IsVEX() {
				if p == PrefixVEX3Bytes {
					inst.Prefix[i+2] |= PrefixImplicit
				}
				inst.Prefix[i] |= PrefixImplicit
				inst.Prefix[i+1] |= PrefixImplicit
			}
		}
	}

	if isLoop[inst.Op] || inst.Op == JCXZ || inst.Op == JECXZ || inst.Op == JRCXZ {
		for i, p := range inst.Prefix {
			if p == PrefixPT || p == PrefixPN {
				inst.Prefix[i] |= PrefixImplicit
			}
		}
	}

	switch inst.Op {
	case AAA, AAS, CBW, CDQE, CLC, CLD, CLI, CLTS, CMC, CPUID, CQO, CWD, DAA, DAS,
		FDECSTP, FINCSTP, FNCLEX, FNINIT, FNOP, FWAIT, HLT,
		ICEBP, INSB, INSD, INSW, INT, INTO, INVD, IRET, IRETQ,
		LAHF, LEAVE, LRET, MONITOR, MWAIT, NOP, OUTSB, OUTSD, OUTSW,
		PAUSE, POPA, POPF, POPFQ, PUSHA, PUSHF, PUSHFQ,
		RDMSR, RDPMC, RDTSC, RDTSCP, RET, RSM,
		SAHF, STC, STD, STI, SYSENTER, SYSEXIT, SYSRET,
		UD2, WBINVD, WRMSR, XEND, XLATB, XTEST:

		if inst.Op == NOP && inst.Opcode>>24 != 0x90 {
			break
		}
		if inst.Op == RET && inst.Opcode>>24 != 0xC3 {
			break
		}
		if inst.Op == INT && inst.Opcode>>24 != 0xCC {
			break
		}
		if inst.Op == LRET && inst.Opcode>>24 != 0xcb {
			break
		}
		for i, p := range inst.Prefix {
			if p&0xFF == PrefixDataSize {
				inst.Prefix[i] &^= PrefixImplicit | PrefixIgnored
			}
		}

	case 0:
		// ok
	}

	switch inst.Op {
	case INSB, INSD, INSW, OUTSB, OUTSD, OUTSW, MONITOR, MWAIT, XLATB:
		iargs = nil

	case STOSB, STOSW, STOSD, STOSQ:
		iargs = iargs[:1]

	case LODSB, LODSW, LODSD, LODSQ, SCASB, SCASW, SCASD, SCASQ:
		iargs = iargs[1:]
	}

	const (
		haveData16 = 1 << iota
		haveData32
		haveAddr16
		haveAddr32
		haveXacquire
		haveXrelease
		haveLock
		haveHintTaken
		haveHintNotTaken
		haveBnd
	)
	var prefixBits uint32
	prefix := ""
	for _, p := range inst.Prefix {
		if p == 0 {
			break
		}
		if p&0xFF == 0xF3 {
			prefixBits &^= haveBnd
		}
		if p&(PrefixImplicit|PrefixIgnored) != 0 {
			continue
		}
		switch p {
		default:
			prefix += strings.ToLower(p.String()) + " "
		case PrefixCS, PrefixDS, PrefixES, PrefixFS, PrefixGS, PrefixSS:
			if inst.Op == 0 {
				prefix += strings.ToLower(p.String()) + " "
			}
		case PrefixREPN:
			prefix += "repne "
		case PrefixLOCK:
			prefixBits |= haveLock
		case PrefixData16, PrefixDataSize:
			prefixBits |= haveData16
		case PrefixData32:
			prefixBits |= haveData32
		case PrefixAddrSize, PrefixAddr16:
			prefixBits |= haveAddr16
		case PrefixAddr32:
			prefixBits |= haveAddr32
		case PrefixXACQUIRE:
			prefixBits |= haveXacquire
		case PrefixXRELEASE:
			prefixBits |= haveXrelease
		case PrefixPT:
			prefixBits |= haveHintTaken
		case PrefixPN:
			prefixBits |= haveHintNotTaken
		case PrefixBND:
			prefixBits |= haveBnd
		}
	}
	switch inst.Op {
	case JMP:
		if inst.Opcode>>24 == 0xEB {
			prefixBits &^= haveBnd
		}
	case RET, LRET:
		prefixBits &^= haveData16 | haveData32
	}

	if prefixBits&haveXacquire != 0 {
		prefix += "xacquire "
	}
	if prefixBits&haveXrelease != 0 {
		prefix += "xrelease "
	}
	if prefixBits&haveLock != 0 {
		prefix += "lock "
	}
	if prefixBits&haveBnd != 0 {
		prefix += "bnd "
	}
	if prefixBits&haveHintTaken != 0 {
		prefix += "hint-taken "
	}
	if prefixBits&haveHintNotTaken != 0 {
		prefix += "hint-not-taken "
	}
	if prefixBits&haveAddr16 != 0 {
		prefix += "addr16 "
	}
	if prefixBits&haveAddr32 != 0 {
		prefix += "addr32 "
	}
	if prefixBits&haveData16 != 0 {
		prefix += "data16 "
	}
	if prefixBits&haveData32 != 0 {
		prefix += "data32 "
	}

	if inst.Op == 0 {
		if prefix == "" {
			return "<no instruction>"
		}
		return prefix[:len(prefix)-1]
	}

	var args []string
	for _, a := range iargs {
		if a == nil {
			break
		}
		args = append(args, intelArg(&inst, pc, symname, a))
	}

	var op string
	switch inst.Op {
	case NOP:
		if inst.Opcode>>24 == 0x0F {
			if inst.DataSize == 16 {
				args = append(args, "ax")
			} else {
				args = append(args, "eax")
			}
		}

	case BLENDVPD, BLENDVPS, PBLENDVB:
		args = args[:2]

	case INT:
		if inst.Opcode>>24 == 0xCC {
			args = nil
			op = "int3"
		}

	case LCALL, LJMP:
		if len(args) == 2 {
			args[0], args[1] = args[1], args[0]
		}

	case FCHS, FABS, FTST, FLDPI, FLDL2E, FLDLG2, F2XM1, FXAM, FLD1, FLDL2T, FSQRT, FRNDINT, FCOS, FSIN:
		if len(args) == 0 {
			args = append(args, "st0")
		}

	case FPTAN, FSINCOS, FUCOMPP, FCOMPP, FYL2X, FPATAN, FXTRACT, FPREM1, FPREM, FYL2XP1, FSCALE:
		if len(args) == 0 {
			args = []string{"st0", "st1"}
		}

	case FST, FSTP, FISTTP, FIST, FISTP, FBSTP:
		if len(args) == 1 {
			args = append(args, "st0")
		}

	case FLD, FXCH, FCOM, FCOMP, FIADD, FIMUL, FICOM, FICOMP, FISUBR, FIDIV, FUCOM, FUCOMP, FILD, FBLD, FADD, FMUL, FSUB, FSUBR, FISUB, FDIV, FDIVR, FIDIVR:
		if len(args) == 1 {
			args = []string{"st0", args[0]}
		}

	case MASKMOVDQU, MASKMOVQ, XLATB, OUTSB, OUTSW, OUTSD:
	FixSegment:
		for i := len(inst.Prefix) - 1; i >= 0; i-- {
			p := inst.Prefix[i] & 0xFF
			switch p {
			case PrefixCS, PrefixES, PrefixFS, PrefixGS, PrefixSS:
				if inst.Mode != 64 || p == PrefixFS || p == PrefixGS {
					args = append(args, strings.ToLower((inst.Prefix[i] & 0xFF).String()))
					break FixSegment
				}
			case PrefixDS:
				if inst.Mode != 64 {
					break FixSegment
				}
			}
		}
	}

	if op == "" {
		op = intelOp[inst.Op]
	}
	if op == "" {
		op = strings.ToLower(inst.Op.String())
	}
	if args != nil {
		op += " " + strings.Join(args, ", ")
	}
	return prefix + op
}

func intelArg(inst *Inst, pc uint64, symname SymLookup, arg Arg) string {
	switch a := arg.(type) {
	case Imm:
		if s, base := symname(uint64(a)); s != "" {
			suffix := ""
			if uint64(a) != base {
				suffix = fmt.Sprintf("%+d", uint64(a)-base)
			}
			return fmt.Sprintf("$%s%s", s, suffix)
		}
		if inst.Mode == 32 {
			return fmt.Sprintf("%#x", uint32(a))
		}
		if Imm(int32(a)) == a {
			return fmt.Sprintf("%#x", int64(a))
		}
		return fmt.Sprintf("%#x", uint64(a))
	case Mem:
		if a.Base == EIP {
			a.Base = RIP
		}
		prefix := ""
		switch inst.MemBytes {
		case 1:
			prefix = "byte "
		case 2:
			prefix = "word "
		case 4:
			prefix = "dword "
		case 8:
			prefix = "qword "
		case 16:
			prefix = "xmmword "
		case 32:
			prefix = "ymmword "
		}
		switch inst.Op {
		case INVLPG:
			prefix = "byte "
		case STOSB, MOVSB, CMPSB, LODSB, SCASB:
			prefix = "byte "
		case STOSW, MOVSW, CMPSW, LODSW, SCASW:
			prefix = "word "
		case STOSD, MOVSD, CMPSD, LODSD, SCASD:
			prefix = "dword "
		case STOSQ, MOVSQ, CMPSQ, LODSQ, SCASQ:
			prefix = "qword "
		case LAR:
			prefix = "word "
		case BOUND:
			if inst.Mode == 32 {
				prefix = "qword "
			} else {
				prefix = "dword "
			}
		case PREFETCHW, PREFETCHNTA, PREFETCHT0, PREFETCHT1, PREFETCHT2, CLFLUSH:
			prefix = "zmmword "
		}
		switch inst.Op {
		case MOVSB, MOVSW, MOVSD, MOVSQ, CMPSB, CMPSW, CMPSD, CMPSQ, STOSB, STOSW, STOSD, STOSQ, SCASB, SCASW, SCASD, SCASQ, LODSB, LODSW, LODSD, LODSQ:
			switch a.Base {
			case DI, EDI, RDI:
				if a.Segment == ES {
					a.Segment = 0
				}
			case SI, ESI, RSI:
				if a.Segment == DS {
					a.Segment = 0
				}
			}
		case LEA:
			a.Segment = 0
		default:
			switch a.Base {
			case SP, ESP, RSP, BP, EBP, RBP:
				if a.Segment == SS {
					a.Segment = 0
				}
			default:
				if a.Segment == DS {
					a.Segment = 0
				}
			}
		}

		if inst.Mode == 64 && a.Segment != FS && a.Segment != GS {
			a.Segment = 0
		}

		prefix += "ptr "
		if s, disp := memArgToSymbol(a, pc, inst.Len, symname); s != "" {
			suffix := ""
			if disp != 0 {
				suffix = fmt.Sprintf("%+d", disp)
			}
			return prefix + fmt.Sprintf("[%s%s]", s, suffix)
		}
		if a.Segment != 0 {
			prefix += strings.ToLower(a.Segment.String()) + ":"
		}
		prefix += "["
		if a.Base != 0 {
			prefix += intelArg(inst, pc, symname, a.Base)
		}
		if a.Scale != 0 && a.Index != 0 {
			if a.Base != 0 {
				prefix += "+"
			}
			prefix += fmt.Sprintf("%s*%d", intelArg(inst, pc, symname, a.Index), a.Scale)
		}
		if a.Disp != 0 {
			if prefix[len(prefix)-1] == '[' && (a.Disp >= 0 || int64(int32(a.Disp)) != a.Disp) {
				prefix += fmt.Sprintf("%#x", uint64(a.Disp))
			} else {
				prefix += fmt.Sprintf("%+#x", a.Disp)
			}
		}
		prefix += "]"
		return prefix
	case Rel:
		if pc == 0 {
			return fmt.Sprintf(".%+#x", int64(a))
		} else {
			addr := pc + uint64(inst.Len) + uint64(a)
			if s, base := symname(addr); s != "" && addr == base {
				return fmt.Sprintf("%s", s)
			} else {
				addr := pc + uint64(inst.Len) + uint64(a)
				return fmt.Sprintf("%#x", addr)
			}
		}
	case Reg:
		if int(a) < len(intelReg) && intelReg[a] != "" {
			switch inst.Op {
			case VMOVDQA, VMOVDQU, VMOVNTDQA, VMOVNTDQ:
				return strings.Replace(intelReg[a], "xmm", "ymm", -1)
			default:
				return intelReg[a]
			}
		}
	}
	return strings.ToLower(arg.String())
}

var intelOp = map[Op]string{
	JAE:       "jnb",
	JA:        "jnbe",
	JGE:       "jnl",
	JNE:       "jnz",
	JG:        "jnle",
	JE:        "jz",
	SETAE:     "setnb",
	SETA:      "setnbe",
	SETGE:     "setnl",
	SETNE:     "setnz",
	SETG:      "setnle",
	SETE:      "setz",
	CMOVAE:    "cmovnb",
	CMOVA:     "cmovnbe",
	CMOVGE:    "cmovnl",
	CMOVNE:    "cmovnz",
	CMOVG:     "cmovnle",
	CMOVE:     "cmovz",
	LCALL:     "call far",
	LJMP:      "jmp far",
	LRET:      "ret far",
	ICEBP:     "int1",
	MOVSD_XMM: "movsd",
	XLATB:     "xlat",
}

var intelReg = [...]string{
	F0:  "st0",
	F1:  "st1",
	F2:  "st2",
	F3:  "st3",
	F4:  "st4",
	F5:  "st5",
	F6:  "st6",
	F7:  "st7",
	M0:  "mmx0",
	M1:  "mmx1",
	M2:  "mmx2",
	M3:  "mmx3",
	M4:  "mmx4",
	M5:  "mmx5",
	M6:  "mmx6",
	M7:  "mmx7",
	X0:  "xmm0",
	X1:  "xmm1",
	X2:  "xmm2",
	X3:  "xmm3",
	X4:  "xmm4",
	X5:  "xmm5",
	X6:  "xmm6",
	X7:  "xmm7",
	X8:  "xmm8",
	X9:  "xmm9",
	X10: "xmm10",
	X11: "xmm11",
	X12: "xmm12",
	X13: "xmm13",
	X14: "xmm14",
	X15: "xmm15",

	// TODO: Maybe the constants are named wrong.
	SPB: "spl",
	BPB: "bpl",
	SIB: "sil",
	DIB: "dil",

	R8L:  "r8d",
	R9L:  "r9d",
	R10L: "r10d",
	R11L: "r11d",
	R12L: "r12d",
	R13L: "r13d",
	R14L: "r14d",
	R15L: "r15d",
}
