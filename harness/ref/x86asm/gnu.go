// Copyright 2014 The Go Authors.  All rights reserved.
// Use of this source code is governed by a BSD-style
// license that can be found in the LICENSE file.

package x86asm

import (
	"fmt"
	"strings"
)

// GNUSyntax returns the GNU assembler syntax for the instruction, as defined by GNU binutils.
// This general form is often called “AT&T syntax” as a reference to AT&T System V Unix.
func GNUSyntax(inst Inst, pc uint64, symname SymLookup) string {
	// Rewrite instruction to mimic GNU peculiarities.
	// Note that inst has been passed by value and contains
	// no pointers, so any changes we make here are local
	// and will not propagate back out to the caller.

	if symname == nil {
		symname = func(uint64) (string, uint64) { return "", 0 }
	}

	// Adjust opcode [sic].
	switch inst.Op {
	case FDIV, FDIVR, FSUB, FSUBR, FDIVP, FDIVRP, FSUBP, FSUBRP:
		// DC E0, DC F0: libopcodes swaps FSUBR/FSUB and FDIVR/FDIV, at least
		// if you believe the Intel manual is correct (the encoding is irregular as given;
		// libopcodes uses the more regular expected encoding).
		// TODO(rsc): Test to ensure Intel manuals are correct and report to libopcodes maintainers?
		// NOTE: iant thinks this is deliberate, but we can't find the history.
		_, reg1 := inst.Args[0].(Reg)
		_, reg2 := inst.Args[1].(Reg)
		if reg1 && reg2 && (inst.Opcode>>24 == 0xDC || inst.Opcode>>24 == 0xDE) {
			switch inst.Op {
			case FDIV:
				inst.Op = FDIVR
			case FDIVR:
				inst.Op = FDIV
			case FSUB:
				inst.Op = FSUBR
			case FSUBR:
				inst.Op = FSUB
			case FDIVP:
				inst.Op = FDIVRP
			case FDIVRP:
				inst.Op = FDIVP
			case FSUBP:
				inst.Op = FSUBRP
			case FSUBRP:
				inst.Op = FSUBP
			}
		}

	case MOVNTSD:
		// MOVNTSD is F2 0F 2B /r.
		// MOVNTSS is F3 0F 2B /r (supposedly; not in manuals).
		// Usually inner prefixes win for display,
		// so that F3 F2 0F 2B 11 is REP MOVNTSD
		// and F2 F3 0F 2B 11 is REPN MOVNTSS.
		// Libopcodes always prefers MOVNTSS regardless of prefix order.
		if countPrefix(&inst, 0xF3) > 0 {
			found := false
			for i := len(inst.Prefix) - 1; i >= 0; i-- {
				switch inst.Prefix[i] & 0xFF {
				case 0xF3:
					if !found {
						found = true
						inst.Prefix[i] |= PrefixImplicit
					}
				case 0xF2:
					inst.Prefix[i] &^= PrefixImplicit
				}
			}
			inst.Op = MOVNTSS
		}
	}

	// Add implicit arguments.
	switch inst.Op {
	case MONITOR:
		inst.Args[0] = EDX
		inst.Args[1] = ECX
		inst.Args[2] = EAX
		if inst.AddrSize == 16 {
			inst.Args[2] = AX
		}

	case MWAIT:
		if inst.Mode == 64 {
			inst.Args[0] = RCX
			inst.Args[1] = RAX
		} else {
			inst.Args[0] = ECX
			inst.Args[1] = EAX
		}
	}

	// Adjust which prefixes will be displayed.
	// The rule is to display all the prefixes not implied by
	// the usual instruction display, that is, all the prefixes
	// except the ones with PrefixImplicit set.
	// However, of course, there are exceptions to the rule.
	switch inst.Op {
	case CRC32:
		// CRC32 has a mandatory F2 prefix.
		// If there are multiple F2s and no F3s, the extra F2s do not print.
		// (And Decode has already marked them implicit.)
		// However, if there is an F3 anywhere, then the extra F2s do print.
		// If there are multiple F2 prefixes *and* an (ignored) F3,
		// then libopcodes prints the extra F2s as REPNs.
		if countPrefix(&inst, 0xF2) > 1 {
			unmarkImplicit(&inst, 0xF2)
			markLastImplicit(&inst, 0xF2)
		}

		// An unused data size override should probably be shown,
		// to distinguish DATA16 CRC32B from plain CRC32B,
		// but libopcodes always treats the final override as implicit
		// and the others as explicit.
		unmarkImplicit(&inst, PrefixDataSize)
		markLastImplicit(&inst, PrefixDataSize)

	case CVTSI2SD, CVTSI2SS:
		if !isMem(inst.Args[1]) {
			markLastImplicit(&inst, PrefixDataSize)
		}

	case CVTSD2SI, CVTSS2SI, CVTTSD2SI, CVTTSS2SI,
		ENTER, FLDENV, FNSAVE, FNSTENV, FRSTOR, LGDT, LIDT, LRET,
		POP, PUSH, RET, SGDT, SIDT, SYSRET, XBEGIN:
		markLastImplicit(&inst, PrefixDataSize)

	case LOOP, LOOPE, LOOPNE, MONITOR:
		markLastImplicit(&inst, PrefixAddrSize)

	case MOV:
		// The 16-bit and 32-bit forms of MOV Sreg, dst and MOV src, Sreg
		// cannot be distinguished when src or dst refers to memory, because
		// Sreg is always a 16-bit value, even when we're doing a 32-bit
		// instruction. Because the instruction tables distinguished these two,
		// any operand size prefix has been marked as used (to decide which
		// branch to take). Unmark it, so that it will show up in disassembly,
		// so that the reader can tell the size of memory operand.
		// up with the same arguments
		dst, _ := inst.Args[0].(Reg)
		src, _ := inst.Args[1].(Reg)
		if ES <= src && src <= GS && isMem(inst.Args[0]) || ES <= dst && dst <= GS && isMem(inst.Args[1]) {
			unmarkImplicit(&inst, PrefixDataSize)
		}

	case MOVDQU:
		if countPrefix(&inst, 0xF3) > 1 {
			unmarkImplicit(&inst, 0xF3)
			markLastImplicit(&inst, 0xF3)
		}

	case MOVQ2DQ:
		markLastImplicit(&inst, PrefixDataSize)

	case SLDT, SMSW, STR, FXRSTOR, XRSTOR, XSAVE, XSAVEOPT, CMPXCHG8B:
		if isMem(inst.Args[0]) {
			unmarkImplicit(&inst, PrefixDataSize)
		}

	case SYSEXIT:
		unmarkImplicit(&inst, PrefixDataSize)
	}

	if isCondJmp[inst.Op] || isLoop[inst.Op] || inst.Op == JCXZ || inst.Op == JECXZ || inst.Op == JRCXZ {
		if countPrefix(&inst, PrefixCS) > 0 && countPrefix(&inst, PrefixDS) > 0 {
			for i, p := range inst.Prefix {
				switch p & 0xFFF {
				case PrefixPN, PrefixPT:
					inst.Prefix[i] &= 0xF0FF // cut interpretation bits, producing original segment prefix
				}
			}
		}
	}

	// XACQUIRE/XRELEASE adjustment.
	if inst.Op == MOV {
		// MOV into memory is a candidate for turning REP into XRELEASE.
		// However, if the REP is followed by a REPN, that REPN blocks the
		// conversion.
		haveREPN := false
		for i := len(inst.Prefix) - 1; i >= 0; i-- {
			switch inst.Prefix[i] &^ PrefixIgnored {
			case PrefixREPN:
				haveREPN = true
			case PrefixXRELEASE:
				if haveREPN {
					inst.Prefix[i] = PrefixREP
				}
			}
		}
	}

	// We only format the final F2/F3 as XRELEASE/XACQUIRE.
	haveXA := false
	haveXR := false
	for i := len(inst.Prefix) - 1; i >= 0; i-- {
		switch inst.Prefix[i] &^ PrefixIgnored {
		case PrefixXRELEASE:
			if !haveXR {
				haveXR = true
			} else {
				inst.Prefix[i] = PrefixREP
			}

		case PrefixXACQUIRE:
			if !haveXA {
				haveXA = true
			} else {
				inst.Prefix[i] = PrefixREPN
			}
		}
	}

	// Determine opcode.
	op := strings.ToLower(inst.Op.String())
	if alt := gnuOp[inst.Op]; alt != "" {
		op = alt
	}

	// Determine opcode suffix.
	// Libopcodes omits the suffix if the width of the operation
	// can be inferred from a register arguments. For example,
	// add $1, %ebx has no suffix because you can tell from the
	// 32-bit register destination that it is a 32-bit add,
	// but in addl $1, (%ebx), the destination is memory, so the
	// size is not evident without the l suffix.
	needSuffix := true
SuffixLoop:
	for i, a := range inst.Args {
		if a == nil {
			break
		}
		switch a := a.(type) {
		case Reg:
			switch inst.Op {
			case MOVSX, MOVZX:
				continue

			case SHL, SHR, RCL, RCR, ROL, ROR, SAR:
				if i == 1 {
					// shift count does not tell us operand size
					continue
				}

			case CRC32:
				// The source argument does tell us operand size,
				// but libopcodes still always puts a suffix on crc32.
				continue

			case PUSH, POP:
				// Even though segment registers are 16-bit, push and pop
				// can save/restore them from 32-bit slots, so they
				// do not imply operand size.
				if ES <= a && a <= GS {
					continue
				}

			case CVTSI2SD, CVTSI2SS:
				// The integer register argument takes priority.
				if X0 <= a && a <= X15 {
					continue
				}
			}

			if AL <= a && a <= R15 || ES <= a && a <= GS || X0 <= a && a <= X15 || M0 <= a && a <= M7 {
				needSuffix = false
				break SuffixLoop
			}
		}
	}

	if needSuffix {
		switch inst.Op {
		case CMPXCHG8B, FLDCW, FNSTCW, FNSTSW, LDMXCSR, LLDT, LMSW, LTR, PCLMULQDQ,
			SETA, SETAE, SETB, SETBE, SETE, SETG, SETGE, SETL, SETLE, SETNE, SETNO, SETNP, SETNS, SETO, SETP, SETS,
			SLDT, SMSW, STMXCSR, STR, VERR, VERW:
			// For various reasons, libopcodes emits no suffix for these instructions.

		case CRC32:
			op += byteSizeSuffix(argBytes(&inst, inst.Args[1]))

		case LGDT, LIDT, SGDT, SIDT:
			op += byteSizeSuffix(inst.DataSize / 8)

		case MOVZX, MOVSX:
			// Integer size conversions get two suffixes.
			op = op[:4] + byteSizeSuffix(argBytes(&inst, inst.Args[1])) + byteSizeSuffix(argBytes(&inst, inst.Args[0]))

		case LOOP, LOOPE, LOOPNE:
			// Add w suffix to indicate use of CX register instead of ECX.
			if inst.AddrSize == 16 {
				op += "w"
			}

		case CALL, ENTER, JMP, LCALL, LEAVE, LJMP, LRET, RET, SYSRET, XBEGIN:
			// Add w suffix to indicate use of 16-bit target.
			// Exclude JMP rel8.
			if inst.Opcode>>24 == 0xEB {
				break
			}
			if inst.DataSize == 16 && inst.Mode != 16 {
				markLastImplicit(&inst, PrefixDataSize)
				op += "w"
			} else if inst.Mode == 64 {
				op += "q"
			}

		case FRSTOR, FNSAVE, FNSTENV, FLDENV:
			// Add s suffix to indicate shortened FPU state (I guess).
			if inst.DataSize == 16 {
				op += "s"
			}

		case PUSH, POP:
			if markLastImplicit(&inst, PrefixDataSize) {
				op += byteSizeSuffix(inst.DataSize / 8)
			} else if inst.Mode == 64 {
				op += "q"
			} else {
				op += byteSizeSuffix(inst.MemBytes)
			}

		default:
			if isFloat(inst.Op) {
				// I can't explain any of this, but it's what libopcodes does.
				switch inst.MemBytes {
				default:
					if (inst.Op == FLD || inst.Op == FSTP) && isMem(inst.Args[0]) {
						op += "t"
					}
				case 4:
					if isFloatInt(inst.Op) {
						op += "l"
					} else {
						op += "s"
					}
				case 8:
					if isFloatInt(inst.Op) {
						op += "ll"
					} else {
						op += "l"
					}
				}
				break
			}

			op += byteSizeSuffix(inst.MemBytes)
		}
	}

	// Adjust special case opcodes.
	switch inst.Op {
	case 0:
		if inst.Prefix[0] != 0 {
			return strings.ToLower(inst.Prefix[0].String())
		}

	case INT:
		if inst.Opcode>>24 == 0xCC {
			inst.Args[0] = nil
			op = "int3"
		}

	case CMPPS, CMPPD, CMPSD_XMM, CMPSS:
		imm, ok := inst.Args[2].(Imm)
		if ok && 0 <= imm && imm < 8 {
			inst.Args[2] = nil
			op = cmppsOps[imm] + op[3:]
		}

	case PCLMULQDQ:
		imm, ok := inst.Args[2].(Imm)
		if ok && imm&^0x11 == 0 {
			inst.Args[2] = nil
			op = pclmulqOps[(imm&0x10)>>3|(imm&1)]
		}

	case XLATB:
		if markLastImplicit(&inst, PrefixAddrSize) {
			op = "xlat" // not xlatb
		}
	}

	// Build list of argument strings.
	var (
		usedPrefixes bool     // segment prefixes consumed by Mem formatting
		args         []string // formatted arguments
	)
	for i, a := range inst.Args {
		if a == nil {
			break
		}
		switch inst.Op {
		case MOVSB, MOVSW, MOVSD, MOVSQ, OUTSB, OUTSW, OUTSD:
			if i == 0 {
				usedPrefixes = true // disable use of prefixes for first argument
			} else {
				usedPrefixes = false
			}
		}
		if a == Imm(1) && (inst.Opcode>>24)&^1 == 0xD0 {
			continue
		}
		args = append(args, gnuArg(&inst, pc, symname, a, &usedPrefixes))
	}

	// The default is to print the arguments in reverse Intel order.
	// A few instructions inhibit this behavior.
	switch inst.Op {
	case BOUND, LCALL, ENTER, LJMP:
		// no reverse
	default:
		// reverse args
		for i, j := 0, len(args)-1; i < j; i, j = i+1, j-1 {
			args[i], args[j] = args[j], args[i]
		}
	}

	// Build prefix string.
	// Must be after argument formatting, which can turn off segment prefixes.
	var (
		prefix       = "" // output string
		numAddr      = 0
		numData      = 0
		implicitData = false
	)
	for _, p := range inst.Prefix {
		if p&0xFF == PrefixDataSize && p&PrefixImplicit != 0 {
			implicitData = true
		}
	}
	for _, p := range inst.Prefix {
		if p == 0 || p.IsVEX() {
			break
		}
		if p&PrefixImplicit != 0 {
			continue
		}
		switch p &^ (PrefixIgnored | PrefixInvalid) {
		default:
			if p.IsREX() {
				if p&0xFF == PrefixREX {
					prefix += "rex "
				} else {
					prefix += "rex." + p.String()[4:] + " "
				}
				break
			}
			prefix += strings.ToLower(p.String()) + " "

		case PrefixPN:
			op += ",pn"
			continue

		case PrefixPT:
			op += ",pt"
			continue

		case PrefixAddrSize, PrefixAddr16, PrefixAddr32:
			// For unknown reasons, if the addr16 prefix is repeated,
			// libopcodes displays all but the last as addr32, even though
			// the addressing form used in a memory reference is clearly
			// still 16-bit.
			n := 32
			if inst.Mode == 32 {
				n = 16
			}
			numAddr++
			if countPrefix(&inst, PrefixAddrSize) > numAddr {
				n = inst.Mode
			}
			prefix += fmt.Sprintf("addr%d ", n)
			continue

		case PrefixData16, PrefixData32:
			if implicitData && countPrefix(&inst, PrefixDataSize) > 1 {
				// Similar to the addr32 logic above, but it only kicks in
				// when something used the data size prefix (one is implicit).
				n := 16
				if inst.Mode == 16 {
					n = 32
				}
				numData++
				if countPrefix(&inst, PrefixDataSize) > numData {
					if inst.Mode == 16 {
						n = 16
					} else {
						n = 32
					}
				}
				prefix += fmt.Sprintf("data%d ", n)
				continue
			}
			prefix += strings.ToLower(p.String()) + " "
		}
	}

	// Finally! Put it all together.
	text := prefix + op
	if args != nil {
		text += " "
		// Indirect call/jmp gets a star to distinguish from direct jump address.
		if (inst.Op == CALL || inst.Op == JMP || inst.Op == LJMP || inst.Op == LCALL) && (isMem(inst.Args[0]) || isReg(inst.Args[0])) {
			text += "*"
		}
		text += strings.Join(args, ",")
	}
	return text
}

// gnuArg returns the GNU syntax for the argument x from the instruction inst.
// If *usedPrefixes is false and x is a Mem, then the formatting
// includes any segment prefixes and sets *usedPrefixes to true.
func gnuArg(inst *Inst, pc uint64, symname SymLookup, x Arg, usedPrefixes *bool) string {
	if x == nil {
		return "<nil>"
	}
	switch x := x.(type) {
	case Reg:
		switch inst.Op {
		case CVTSI2SS, CVTSI2SD, CVTSS2SI, CVTSD2SI, CVTTSD2SI, CVTTSS2SI:
			if inst.DataSize == 16 && EAX <= x && x <= R15L {
				x -= EAX - AX
			}

		case IN, INSB, INSW, INSD, OUT, OUTSB, OUTSW, OUTSD:
			// DX is the port, but libopcodes prints it as if it were a memory reference.
			if x == DX {
				return "(%dx)"
			}
		case VMOVDQA, VMOVDQU, VMOVNTDQA, VMOVNTDQ:
			return strings.Replace(gccRegName[x], "xmm", "ymm", -1)
		}
		return gccRegName[x]
	case Mem:
		if s, disp := memArgToSymbol(x, pc, inst.Len, symname); s != "" {
			suffix := ""
			if disp != 0 {
				suffix = fmt.Sprintf("%+d", disp)
			}
			return fmt.Sprintf("%s%s", s, suffix)
		}
		seg := ""
		var haveCS, haveDS, haveES, haveFS, haveGS, haveSS bool
		switch x.Segment {
		case CS:
			haveCS = true
		case DS:
			haveDS = true
		case ES:
			haveES = true
		case FS:
			haveFS = true
		case GS:
			haveGS = true
		case SS:
			haveSS = true
		}
		switch inst.Op {
		case INSB, INSW, INSD, STOSB, STOSW, STOSD, STOSQ, SCASB, SCASW, SCASD, SCASQ:
			// These do not accept segment prefixes, at least in the GNU rendering.
		default:
			if *usedPrefixes {
				break
			}
			for i := len(inst.Prefix) - 1; i >= 0; i-- {
				p := inst.Prefix[i] &^ PrefixIgnored
				if p == 0 {
					continue
				}
				switch p {
				case PrefixCS:
					if !haveCS {
						haveCS = true
						inst.Prefix[i] |= PrefixImplicit
					}
				case PrefixDS:
					if !haveDS {
						haveDS = true
						inst.Prefix[i] |= PrefixImplicit
					}
				case PrefixES:
					if !haveES {
						haveES = true
						inst.Prefix[i] |= PrefixImplicit
					}
				case PrefixFS:
					if !haveFS {
						haveFS = true
						inst.Prefix[i] |= PrefixImplicit
					}
				case PrefixGS:
					if !haveGS {
						haveGS = true
						inst.Prefix[i] |= PrefixImplicit
					}
				case PrefixSS:
					if !haveSS {
						haveSS = true
						inst.Prefix[i] |= PrefixImplicit
					}
				}
			}
			*usedPrefixes = true
		}
		if haveCS {
			seg += "%cs:"
		}
		if haveDS {
			seg += "%ds:"
		}
		if haveSS {
			seg += "%ss:"
		}
		if haveES {
			seg += "%es:"
		}
		if haveFS {
			seg += "%fs:"
		}
		if haveGS {
			seg += "%gs:"
		}
		disp := ""
		if x.Disp != 0 {
			disp = fmt.Sprintf("%#x", x.Disp)
		}
		if x.Scale == 0 || x.Index == 0 && x.Scale == 1 && (x.Base == ESP || x.Base == RSP || x.Base == 0 && inst.Mode == 64) {
			if x.Base == 0 {
				return seg + disp
			}
			return fmt.Sprintf("%s%s(%s)", seg, disp, gccRegName[x.Base])
		}
		base := gccRegName[x.Base]
		if x.Base == 0 {
			base = ""
		}
		index := gccRegName[x.Index]
		if x.Index == 0 {
			if inst.AddrSize == 64 {
				index = "%riz"
			} else {
				index = "%eiz"
			}
		}
		if AX <= x.Base && x.Base <= DI {
			// 16-bit addressing - no scale
			return fmt.Sprintf("%s%s(%s,%s)", seg, disp, base, index)
		}
		return fmt.Sprintf("%s%s(%s,%s,%d)", seg, disp, base, index, x.Scale)
	case Rel:
		if pc == 0 {
			return fmt.Sprintf(".%+#x", int64(x))
		} else {
			addr := pc + uint64(inst.Len) + uint64(x)
			if s, base := symname(addr); s != "" && addr == base {
				return fmt.Sprintf("%s", s)
			} else {
				addr := pc + uint64(inst.Len) + uint64(x)
				return fmt.Sprintf("%#x", addr)
			}
		}
	case Imm:
		if s, base := symname(uint64(x)); s != "" {
			suffix := ""
			if uint64(x) != base {
				suffix = fmt.Sprintf("%+d", uint64(x)-base)
			}
			return fmt.Sprintf("$%s%s", s, suffix)
		}
		if inst.Mode == 32 {
			return fmt.Sprintf("$%#x", uint32(x))
		}
		return fmt.Sprintf("$%#x", int64(x))
	}
	return x.String()
}

var gccRegName = [...]string{
	0:    "REG0",
	AL:   "%al",
	CL:   "%cl",
	BL:   "%bl",
	DL:   "%dl",
	AH:   "%ah",
	CH:   "%ch",
	BH:   "%bh",
	DH:   "%dh",
	SPB:  "%spl",
	BPB:  "%bpl",
	SIB:  "%sil",
	DIB:  "%dil",
	R8B:  "%r8b",
	R9B:  "%r9b",
	R10B: "%r10b",
	R11B: "%r11b",
	R12B: "%r12b",
	R13B: "%r13b",
	R14B: "%r14b",
	R15B: "%r15b",
	AX:   "%ax",
	CX:   "%cx",
	BX:   "%bx",
	DX:   "%dx",
	SP:   "%sp",
	BP:   "%bp",
	SI:   "%si",
	DI:   "%di",
	R8W:  "%r8w",
	R9W:  "%r9w",
	R10W: "%r10w",
	R11W: "%r11w",
	R12W: "%r12w",
	R13W: "%r13w",
	R14W: "%r14w",
	R15W: "%r15w",
	EAX:  "%eax",
	ECX:  "%ecx",
	EDX:  "%edx",
	EBX:  "%ebx",
	ESP:  "%esp",
	EBP:  "%ebp",
	ESI:  "%esi",
	EDI:  "%edi",
	R8L:  "%r8d",
	R9L:  "%r9d",
	R10L: "%r10d",
	R11L: "%r11d",
	R12L: "%r12d",
	R13L: "%r13d",
	R14L: "%r14d",
	R15L: "%r15d",
	RAX:  "%rax",
	RCX:  "%rcx",
	RDX:  "%rdx",
	RBX:  "%rbx",
	RSP:  "%rsp",
	RBP:  "%rbp",
	RSI:  "%rsi",
	RDI:  "%rdi",
	R8:   "%r8",
	R9:   "%r9",
	R10:  "%r10",
	R11:  "%r11",
	R12:  "%r12",
	R13:  "%r13",
	R14:  "%r14",
	R15:  "%r15",
	IP:   "%ip",
	EIP:  "%eip",
	RIP:  "%rip",
	F0:   "%st",
	F1:   "%st(1)",
	F2:   "%st(2)",
	F3:   "%st(3)",
	F4:   "%st(4)",
	F5:   "%st(5)",
	F6:   "%st(6)",
	F7:   "%st(7)",
	M0:   "%mm0",
	M1:   "%mm1",
	M2:   "%mm2",
	M3:   "%mm3",
	M4:   "%mm4",
	M5:   "%mm5",
	M6:   "%mm6",
	M7:   "%mm7",
	X0:   "%xmm0",
	X1:   "%xmm1",
	X2:   "%xmm2",
	X3:   "%xmm3",
	X4:   "%xmm4",
	X5:   "%xmm5",
	X6:   "%xmm6",
	X7:   "%xmm7",
	X8:   "%xmm8",
	X9:   "%xmm9",
	X10:  "%xmm10",
	X11:  "%xmm11",
	X12:  "%xmm12",
	X13:  "%xmm13",
	X14:  "%xmm14",
	X15:  "%xmm15",
	CS:   "%cs",
	SS:   "%ss",
	DS:   "%ds",
	ES:   "%es",
	FS:   "%fs",
	GS:   "%gs",
	GDTR: "%gdtr",
	IDTR: "%idtr",
	LDTR: "%ldtr",
	MSW:  "%msw",
	TASK: "%task",
	CR0:  "%cr0",
	CR1:  "%cr1",
	CR2:  "%cr2",
	CR3:  "%cr3",
	CR4:  "%cr4",
	CR5:  "%cr5",
	CR6:  "%cr6",
	CR7:  "%cr7",
	CR8:  "%cr8",
	CR9:  "%cr9",
	CR10: "%cr10",
	CR11: "%cr11",
	CR12: "%cr12",
	CR13: "%cr13",
	CR14: "%cr14",
	CR15: "%cr15",
	DR0:  "%db0",
	DR1:  "%db1",
	DR2:  "%db2",
	DR3:  "%db3",
	DR4:  "%db4",
	DR5:  "%db5",
	DR6:  "%db6",
	DR7:  "%db7",
	TR0:  "%tr0",
	TR1:  "%tr1",
	TR2:  "%tr2",
	TR3:  "%tr3",
	TR4:  "%tr4",
	TR5:  "%tr5",
	TR6:  "%tr6",
	TR7:  "%tr7",
}

var gnuOp = map[Op]string{
	CBW:       "cbtw",
	CDQ:       "cltd",
	CMPSD:     "cmpsl",
	CMPSD_XMM: "cmpsd",
	CWD:       "cwtd",
	CWDE:      "cwtl",
	CQO:       "cqto",
	INSD:      "insl",
	IRET:      "iretw",
	IRETD:     "iret",
	IRETQ:     "iretq",
	LODSB:     "lods",
	LODSD:     "lods",
	LODSQ:     "lods",
	LODSW:     "lods",
	MOVSD:     "movsl",
	MOVSD_XMM: "movsd",
	OUTSD:     "outsl",
	POPA:      "popaw",
	POPAD:     "popa",
	POPF:      "popfw",
	POPFD:     "popf",
	PUSHA:     "pushaw",
	PUSHAD:    "pusha",
	PUSHF:     "pushfw",
	PUSHFD:    "pushf",
	SCASB:     "scas",
	SCASD:     "scas",
	SCASQ:     "scas",
	SCASW:     "scas",
	STOSB:     "stos",
	STOSD:     "stos",
	STOSQ:     "stos",
	STOSW:     "stos",
	XLATB:     "xlat",
}

var cmppsOps = []string{
	"cmpeq",
	"cmplt",
	"cmple",
	"cmpunord",
	"cmpneq",
	"cmpnlt",
	"cmpnle",
	"cmpord",
}

var pclmulqOps = []string{
	"pclmullqlqdq",
	"pclmulhqlqdq",
	"pclmullqhqdq",
	"pclmulhqhqdq",
}

func countPrefix(inst *Inst, target Prefix) int {
	n := 0
	for _, p := range inst.Prefix {
		if p&0xFF == target&0xFF {
			n++
		}
	}
	return n
}

func markLastImplicit(inst *Inst, prefix Prefix) bool {
	for i := len(inst.Prefix) - 1; i >= 0; i-- {
		p := inst.Prefix[i]
		if p&0xFF == prefix {
			inst.Prefix[i] |= PrefixImplicit
			return true
		}
	}
	return false
}

func unmarkImplicit(inst *Inst, prefix Prefix) {
	for i := len(inst.Prefix) - 1; i >= 0; i-- {
		p := inst.Prefix[i]
		if p&0xFF == prefix {
			inst.Prefix[i] &^= PrefixImplicit
		}
	}
}

func byteSizeSuffix(b int) string {
	switch b {
	case 1:
		return "b"
	case 2:
		return "w"
	case 4:
		return "l"
	case 8:
		return "q"
	}
	return ""
}

func argBytes(inst *Inst, arg Arg) int {
	if isMem(arg) {
		return inst.MemBytes
	}
	return regBytes(arg)
}

func isFloat(op Op) bool {
	switch op {
	case FADD, FCOM, FCOMP, FDIV, FDIVR, FIADD, FICOM, FICOMP, FIDIV, FIDIVR, FILD, FIMUL, FIST, FISTP, FISTTP, FISUB, FISUBR, FLD, FMUL, FST, FSTP, FSUB, FSUBR:
		return true
	}
	return false
}

func isFloatInt(op Op) bool {
	switch op {
	case FIADD, FICOM, FICOMP, FIDIV, FIDIVR, FILD, FIMUL, FIST, FISTP, FISTTP, FISUB, FISUBR:
		return true
	}
	return false
}
