// Copyright 2014 The Go Authors.  All rights reserved.
// Use of this source code is governed by a BSD-style
// license that can be found in the LICENSE file.

// Package x86asm implements decoding of x86 machine code.
package x86asm

import (
	"bytes"
	"fmt"
)

// An Inst is a single instruction.
type Inst struct {
	Prefix   Prefixes // Prefixes applied to the instruction.
	Op       Op       // Opcode mnemonic
	Opcode   uint32   // Encoded opcode bits, left aligned (first byte is Opcode>>24, etc)
	Args     Args     // Instruction arguments, in Intel order
	Mode     int      // processor mode in bits: 16, 32, or 64
	AddrSize int      // address size in bits: 16, 32, or 64
	DataSize int      // operand size in bits: 16, 32, or 64
	MemBytes int      // size of memory argument in bytes: 1, 2, 4, 8, 16, and so on.
	Len      int      // length of encoded instruction in bytes
	PCRel    int      // length of PC-relative address in instruction encoding
	PCRelOff int      // index of start of PC-relative address in instruction encoding
}

// Prefixes is an array of prefixes associated with a single instruction.
// The prefixes are listed in the same order as found in the instruction:
// each prefix byte corresponds to one slot in the array. The first zero
// in the array marks the end of the prefixes.
type Prefixes [14]Prefix

// A Prefix represents an Intel instruction prefix.
// The low 8 bits are the actual prefix byte encoding,
// and the top 8 bits contain distinguishing bits and metadata.
type Prefix uint16

const (
	// Metadata about the role of a prefix in an instruction.
	PrefixImplicit Prefix = 0x8000 // prefix is implied by instruction text
	PrefixIgnored  Prefix = 0x4000 // prefix is ignored: either irrelevant or overridden by a later prefix
	PrefixInvalid  Prefix = 0x2000 // prefix makes entire instruction invalid (bad LOCK)

	// Memory segment overrides.
	PrefixES Prefix = 0x26 // ES segment override
	PrefixCS Prefix = 0x2E // CS segment override
	PrefixSS Prefix = 0x36 // SS segment override
	PrefixDS Prefix = 0x3E // DS segment override
	PrefixFS Prefix = 0x64 // FS segment override
	PrefixGS Prefix = 0x65 // GS segment override

	// Branch prediction.
	PrefixPN Prefix = 0x12E // predict not taken (conditional branch only)
	PrefixPT Prefix = 0x13E // predict taken (conditional branch only)

	// Size attributes.
	PrefixDataSize Prefix = 0x66 // operand size override
	PrefixData16   Prefix = 0x166
	PrefixData32   Prefix = 0x266
	PrefixAddrSize Prefix = 0x67 // address size override
	PrefixAddr16   Prefix = 0x167
	PrefixAddr32   Prefix = 0x267

	// One of a kind.
	PrefixLOCK     Prefix = 0xF0 // lock
	PrefixREPN     Prefix = 0xF2 // repeat not zero
	PrefixXACQUIRE Prefix = 0x1F2
	PrefixBND      Prefix = 0x2F2
	PrefixREP      Prefix = 0xF3 // repeat
	PrefixXRELEASE Prefix = 0x1F3

	// The REX prefixes must be in the range [PrefixREX, PrefixREX+0x10).
	// the other bits are set or not according to the intended use.
	PrefixREX       Prefix = 0x40 // REX 64-bit extension prefix
	PrefixREXW      Prefix = 0x08 // extension bit W (64-bit instruction width)
	PrefixREXR      Prefix = 0x04 // extension bit R (r field in modrm)
	PrefixREXX      Prefix = 0x02 // extension bit X (index field in sib)
	PrefixREXB      Prefix = 0x01 // extension bit B (r/m field in modrm or base field in sib)
	PrefixVEX2Bytes Prefix = 0xC5 // Short form of vex prefix
	PrefixVEX3Bytes Prefix = 0xC4 // Long form of vex prefix
)

// IsREX reports whether p is a REX prefix byte.
func (p Prefix) IsREX() bool {
	return p&0xF0 == PrefixREX
}

func (p Prefix) IsVEX() bool {
	return p&0xFF == PrefixVEX2Bytes || p&0xFF == PrefixVEX3Bytes
}

func (p Prefix) String() string {
	p &^= PrefixImplicit | PrefixIgnored | PrefixInvalid
	if s := prefixNames[p]; s != "" {
		return s
	}

	if p.IsREX() {
		s := "REX."
		if p&PrefixREXW != 0 {
			s += "W"
		}
		if p&PrefixREXR != 0 {
			s += "R"
		}
		if p&PrefixREXX != 0 {
			s += "X"
		}
		if p&PrefixREXB != 0 {
			s += "B"
		}
		return s
	}

	return fmt.Sprintf("Prefix(%#x)", int(p))
}

// An Op is an x86 opcode.
type Op uint32

func (op Op) String() string {
	i := int(op)
	if i < 0 || i >= len(opNames) || opNames[i] == "" {
		return fmt.Sprintf("Op(%d)", i)
	}
	return opNames[i]
}

// An Args holds the instruction arguments.
// If an instruction has fewer than 4 arguments,
// the final elements in the array are nil.
type Args [4]Arg

// An Arg is a single instruction argument,
// one of these types: Reg, Mem, Imm, Rel.
type Arg interface {
	String() string
	isArg()
}

// Note that the implements of Arg that follow are all sized
// so that on a 64-bit machine the data can be inlined in
// the interface value instead of requiring an allocation.

// A Reg is a single register.
// The zero Reg value has no name but indicates “no register.”
type Reg uint8

const (
	_ Reg = iota

	// 8-bit
	AL
	CL
	DL
	BL
	AH
	CH
	DH
	BH
	SPB
	BPB
	SIB
	DIB
	R8B
	R9B
	R10B
	R11B
	R12B
	R13B
	R14B
	R15B

	// 16-bit
	AX
	CX
	DX
	BX
	SP
	BP
	SI
	DI
	R8W
	R9W
	R10W
	R11W
	R12W
	R13W
	R14W
	R15W

	// 32-bit
	EAX
	ECX
	EDX
	EBX
	ESP
	EBP
	ESI
	EDI
	R8L
	R9L
	R10L
	R11L
	R12L
	R13L
	R14L
	R15L

	// 64-bit
	RAX
	RCX
	RDX
	RBX
	RSP
	RBP
	RSI
	RDI
	R8
	R9
	R10
	R11
	R12
	R13
	R14
	R15

	// Instruction pointer.
	IP  // 16-bit
	EIP // 32-bit
	RIP // 64-bit

	// 387 floating point registers.
	F0
	F1
	F2
	F3
	F4
	F5
	F6
	F7

	// MMX registers.
	M0
	M1
	M2
	M3
	M4
	M5
	M6
	M7

	// XMM registers.
	X0
	X1
	X2
	X3
	X4
	X5
	X6
	X7
	X8
	X9
	X10
	X11
	X12
	X13
	X14
	X15

	// Segment registers.
	ES
	CS
	SS
	DS
	FS
	GS

	// System registers.
	GDTR
	IDTR
	LDTR
	MSW
	TASK

	// Control registers.
	CR0
	CR1
	CR2
	CR3
	CR4
	CR5
	CR6
	CR7
	CR8
	CR9
	CR10
	CR11
	CR12
	CR13
	CR14
	CR15

	// Debug registers.
	DR0
	DR1
	DR2
	DR3
	DR4
	DR5
	DR6
	DR7
	DR8
	DR9
	DR10
	DR11
	DR12
	DR13
	DR14
	DR15

	// Task registers.
	TR0
	TR1
	TR2
	TR3
	TR4
	TR5
	TR6
	TR7
)

const regMax = TR7

func (Reg) isArg() {}

func (r Reg) String() string {
	i := int(r)
	if i < 0 || i >= len(regNames) || regNames[i] == "" {
		return fmt.Sprintf("Reg(%d)", i)
	}
	return regNames[i]
}

// A Mem is a memory reference.
// The general form is Segment:[Base+Scale*Index+Disp].
type Mem struct {
	Segment Reg
	Base    Reg
	Scale   uint8
	Index   Reg
	Disp    int64
}

func (Mem) isArg() {}

func (m Mem) String() string {
	var base, plus, scale, index, disp string

	if m.Base != 0 {
		base = m.Base.String()
	}
	if m.Scale != 0 {
		if m.Base != 0 {
			plus = "+"
		}
		if m.Scale > 1 {
			scale = fmt.Sprintf("%d*", m.Scale)
		}
		index = m.Index.String()
	}
	if m.Disp != 0 || m.Base == 0 && m.Scale == 0 {
		disp = fmt.Sprintf("%+#x", m.Disp)
	}
	return "[" + base + plus + scale + index + disp + "]"
}

// A Rel is an offset relative to the current instruction pointer.
type Rel int32

func (Rel) isArg() {}

func (r Rel) String() string {
	return fmt.Sprintf(".%+d", r)
}

// An Imm is an integer constant.
type Imm int64

func (Imm) isArg() {}

func (i Imm) String() string {
	return fmt.Sprintf("%#x", int64(i))
}

func (i Inst) String() string {
	var buf bytes.Buffer
	for _, p := range i.Prefix {
		if p == 0 {
			break
		}
		if p&PrefixImplicit != 0 {
			continue
		}
		fmt.Fprintf(&buf, "%v ", p)
	}
	fmt.Fprintf(&buf, "%v", i.Op)
	sep := " "
	for _, v := range i.Args {
		if v == nil {
			break
		}
		fmt.Fprintf(&buf, "%s%v", sep, v)
		sep = ", "
	}
	return buf.String()
}

func isReg(a Arg) bool {
	_, ok := a.(Reg)
	return ok
}

func isSegReg(a Arg) bool {
	r, ok := a.(Reg)
	return ok && ES <= r && r <= GS
}

func isMem(a Arg) bool {
	_, ok := a.(Mem)
	return ok
}

func isImm(a Arg) bool {
	_, ok := a.(Imm)
	return ok
}

func regBytes(a Arg) int {
	r, ok := a.(Reg)
	if !ok {
		return 0
	}
	if AL <= r && r <= R15B {
		return 1
	}
	if AX <= r && r <= R15W {
		return 2
	}
	if EAX <= r && r <= R15L {
		return 4
	}
	if RAX <= r && r <= R15 {
		return 8
	}
	return 0
}

func isSegment(p Prefix) bool {
	switch p {
	case PrefixCS, PrefixDS, PrefixES, PrefixFS, PrefixGS, PrefixSS:
		return true
	}
	return false
}

// The Op definitions and string list are in tables.go.

var prefixNames = map[Prefix]string{
	PrefixCS:       "CS",
	PrefixDS:       "DS",
	PrefixES:       "ES",
	PrefixFS:       "FS",
	PrefixGS:       "GS",
	PrefixSS:       "SS",
	PrefixLOCK:     "LOCK",
	PrefixREP:      "REP",
	PrefixREPN:     "REPN",
	PrefixAddrSize: "ADDRSIZE",
	PrefixDataSize: "DATASIZE",
	PrefixAddr16:   "ADDR16",
	PrefixData16:   "DATA16",
	PrefixAddr32:   "ADDR32",
	PrefixData32:   "DATA32",
	PrefixBND:      "BND",
	PrefixXACQUIRE: "XACQUIRE",
	PrefixXRELEASE: "XRELEASE",
	PrefixREX:      "REX",
	PrefixPT:       "PT",
	PrefixPN:       "PN",
}

var regNames = [...]string{
	AL:   "AL",
	CL:   "CL",
	BL:   "BL",
	DL:   "DL",
	AH:   "AH",
	CH:   "CH",
	BH:   "BH",
	DH:   "DH",
	SPB:  "SPB",
	BPB:  "BPB",
	SIB:  "SIB",
	DIB:  "DIB",
	R8B:  "R8B",
	R9B:  "R9B",
	R10B: "R10B",
	R11B: "R11B",
	R12B: "R12B",
	R13B: "R13B",
	R14B: "R14B",
	R15B: "R15B",
	AX:   "AX",
	CX:   "CX",
	BX:   "BX",
	DX:   "DX",
	SP:   "SP",
	BP:   "BP",
	SI:   "SI",
	DI:   "DI",
	R8W:  "R8W",
	R9W:  "R9W",
	R10W: "R10W",
	R11W: "R11W",
	R12W: "R12W",
	R13W: "R13W",
	R14W: "R14W",
	R15W: "R15W",
	EAX:  "EAX",
	ECX:  "ECX",
	EDX:  "EDX",
	EBX:  "EBX",
	ESP:  "ESP",
	EBP:  "EBP",
	ESI:  "ESI",
	EDI:  "EDI",
	R8L:  "R8L",
	R9L:  "R9L",
	R10L: "R10L",
	R11L: "R11L",
	R12L: "R12L",
	R13L: "R13L",
	R14L: "R14L",
	R15L: "R15L",
	RAX:  "RAX",
	RCX:  "RCX",
	RDX:  "RDX",
	RBX:  "RBX",
	RSP:  "RSP",
	RBP:  "RBP",
	RSI:  "RSI",
	RDI:  "RDI",
	R8:   "R8",
	R9:   "R9",
	R10:  "R10",
	R11:  "R11",
	R12:  "R12",
	R13:  "R13",
	R14:  "R14",
	R15:  "R15",
	IP:   "IP",
	EIP:  "EIP",
	RIP:  "RIP",
	F0:   "F0",
	F1:   "F1",
	F2:   "F2",
	F3:   "F3",
	F4:   "F4",
	F5:   "F5",
	F6:   "F6",
	F7:   "F7",
	M0:   "M0",
	M1:   "M1",
	M2:   "M2",
	M3:   "M3",
	M4:   "M4",
	M5:   "M5",
	M6:   "M6",
	M7:   "M7",
	X0:   "X0",
	X1:   "X1",
	X2:   "X2",
	X3:   "X3",
	X4:   "X4",
	X5:   "X5",
	X6:   "X6",
	X7:   "X7",
	X8:   "X8",
	X9:   "X9",
	X10:  "X10",
	X11:  "X11",
	X12:  "X12",
	X13:  "X13",
	X14:  "X14",
	X15:  "X15",
	CS:   "CS",
	SS:   "SS",
	DS:   "DS",
	ES:   "ES",
	FS:   "FS",
	GS:   "GS",
	GDTR: "GDTR",
	IDTR: "IDTR",
	LDTR: "LDTR",
	MSW:  "MSW",
	TASK: "TASK",
	CR0:  "CR0",
	CR1:  "CR1",
	CR2:  "CR2",
	CR3:  "CR3",
	CR4:  "CR4",
	CR5:  "CR5",
	CR6:  "CR6",
	CR7:  "CR7",
	CR8:  "CR8",
	CR9:  "CR9",
	CR10: "CR10",
	CR11: "CR11",
	CR12: "CR12",
	CR13: "CR13",
	CR14: "CR14",
	CR15: "CR15",
	DR0:  "DR0",
	DR1:  "DR1",
	DR2:  "DR2",
	DR3:  "DR3",
	DR4:  "DR4",
	DR5:  "DR5",
	DR6:  "DR6",
	DR7:  "DR7",
	DR8:  "DR8",
	DR9:  "DR9",
	DR10: "DR10",
	DR11: "DR11",
	DR12: "DR12",
	DR13: "DR13",
	DR14: "DR14",
	DR15: "DR15",
	TR0:  "TR0",
	TR1:  "TR1",
	TR2:  "TR2",
	TR3:  "TR3",
	TR4:  "TR4",
	TR5:  "TR5",
	TR6:  "TR6",
	TR7:  "TR7",
}
