// Copyright 2014 The Go Authors.  All rights reserved.
// Use of this source code is governed by a BSD-style
// license that can be found in the LICENSE file.

package x86asm

import (
	"fmt"
	"strings"
)

type SymLookup func(uint64) (string, uint64)

// GoSyntax returns the Go assembler syntax for the instruction.
// The syntax was originally defined by Plan 9.
// The pc is the program counter of the instruction, used for expanding
// PC-relative addresses into absolute ones.
// The symname function queries the symbol table for the program
// being disassembled. Given a target address it returns the name and base
// address of the symbol containing the target, if any; otherwise it returns "", 0.
func GoSyntax(inst Inst, pc uint64, symname SymLookup) string {
	if symname == nil {
		symname = func(uint64) (string, uint64) { return "", 0 }
	}
	var args []string
	for i := len(inst.Args) - 1; i >= 0; i-- {
		a := inst.Args[i]
		if a == nil {
			continue
		}
		args = append(args, plan9Arg(&inst, pc, symname, a))
	}

	var rep string
	var last Prefix
	for _, p := range inst.Prefix {
		if p == 0 || p.IsREX() || p.IsVEX() {
			break
		}

		switch {
		// Don't show prefixes implied by the instruction text.
		case p&0xFF00 == PrefixImplicit:
			continue
		// Only REP and REPN are recognized repeaters. Plan 9 syntax
		// treats them as separate opcodes.
		case p&0xFF == PrefixREP:
			rep = "REP; "
		case p&0xFF == PrefixREPN:
			rep = "REPNE; "
		default:
			last = p
		}
	}

	prefix := ""
	switch last & 0xFF {
	case 0, 0x66, 0x67:
		// ignore
	default:
		prefix += last.String() + " "
	}

	op := inst.Op.String()
	if plan9Suffix[inst.Op] {
		s := inst.DataSize
		if inst.MemBytes != 0 {
			s = inst.MemBytes * 8
		} else if inst.Args[1] == nil { // look for register-only 64-bit instruction, like PUSHQ AX
			if r, ok := inst.Args[0].(Reg); ok && RAX <= r && r <= R15 {
				s = 64
			}
		}
		switch s {
		case 8:
			op += "B"
		case 16:
			op += "W"
		case 32:
			op += "L"
		case 64:
			op += "Q"
		}
	}

	if inst.Op == CMP {
		// Use reads-left-to-right ordering for comparisons.
		// See issue 60920.
		args[0], args[1] = args[1], args[0]
	}

	if args != nil {
		op += " " + strings.Join(args, ", ")
	}

	return rep + prefix + op
}

func plan9Arg(inst *Inst, pc uint64, symname func(uint64) (string, uint64), arg Arg) string {
	switch a := arg.(type) {
	case Reg:
		return plan9Reg[a]
	case Rel:
		if pc == 0 {
			break
		}
		// If the absolute address is the start of a symbol, use the name.
		// Otherwise use the raw address, so that things like relative
		// jumps show up as JMP 0x123 instead of JMP f+10(SB).
		// It is usually easier to search for 0x123 than to do the mental
		// arithmetic to find f+10.
		addr := pc + uint64(inst.Len) + uint64(a)
		if s, base := symname(addr); s != "" && addr == base {
			return fmt.Sprintf("%s(SB)", s)
		}
		return fmt.Sprintf("%#x", addr)

	case Imm:
		if s, base := symname(uint64(a)); s != "" {
			suffix := ""
			if uint64(a) != base {
				suffix = fmt.Sprintf("%+d", uint64(a)-base)
			}
			return fmt.Sprintf("$%s%s(SB)", s, suffix)
		}
		if inst.Mode == 32 {
			return fmt.Sprintf("$%#x", uint32(a))
		}
		if Imm(int32(a)) == a {
			return fmt.Sprintf("$%#x", int64(a))
		}
		return fmt.Sprintf("$%#x", uint64(a))
	case Mem:
		if s, disp := memArgToSymbol(a, pc, inst.Len, symname); s != "" {
			suffix := ""
			if disp != 0 {
				suffix = fmt.Sprintf("%+d", disp)
			}
			return fmt.Sprintf("%s%s(SB)", s, suffix)
		}
		s := ""
		if a.Segment != 0 {
			s += fmt.Sprintf("%s:", plan9Reg[a.Segment])
		}
		if a.Disp != 0 {
			s += fmt.Sprintf("%#x", a.Disp)
		} else {
			s += "0"
		}
		if a.Base != 0 {
			s += fmt.Sprintf("(%s)", plan9Reg[a.Base])
		}
		if a.Index != 0 && a.Scale != 0 {
			s += fmt.Sprintf("(%s*%d)", plan9Reg[a.Index], a.Scale)
		}
		return s
	}
	return arg.String()
}

func memArgToSymbol(a Mem, pc uint64, instrLen int, symname SymLookup) (string, int64) {
	if a.Segment != 0 || a.Disp == 0 || a.Index != 0 || a.Scale != 0 {
		return "", 0
	}

	var disp uint64
	switch a.Base {
	case IP, EIP, RIP:
		disp = uint64(a.Disp + int64(pc) + int64(instrLen))
	case 0:
		disp = uint64(a.Disp)
	default:
		return "", 0
	}

	s, base := symname(disp)
	return s, int64(disp) - int64(base)
}

var plan9Suffix = [maxOp + 1]bool{
	ADC:       true,
	ADD:       true,
	AND:       true,
	BSF:       true,
	BSR:       true,
	BT:        true,
	BTC:       true,
	BTR:       true,
	BTS:       true,
	CMP:       true,
	CMPXCHG:   true,
	CVTSI2SD:  true,
	CVTSI2SS:  true,
	CVTSD2SI:  true,
	CVTSS2SI:  true,
	CVTTSD2SI: true,
	CVTTSS2SI: true,
	DEC:       true,
	DIV:       true,
	FLDENV:    true,
	FRSTOR:    true,
	IDIV:      true,
	IMUL:      true,
	IN:        true,
	INC:       true,
	LEA:       true,
	MOV:       true,
	MOVNTI:    true,
	MUL:       true,
	NEG:       true,
	NOP:       true,
	NOT:       true,
	OR:        true,
	OUT:       true,
	POP:       true,
	POPA:      true,
	POPCNT:    true,
	PUSH:      true,
	PUSHA:     true,
	RCL:       true,
	RCR:       true,
	ROL:       true,
	ROR:       true,
	SAR:       true,
	SBB:       true,
	SHL:       true,
	SHLD:      true,
	SHR:       true,
	SHRD:      true,
	SUB:       true,
	TEST:      true,
	XADD:      true,
	XCHG:      true,
	XOR:       true,
}

var plan9Reg = [...]string{
	AL:   "AL",
	CL:   "CL",
	BL:   "BL",
	DL:   "DL",
	AH:   "AH",
	CH:   "CH",
	BH:   "BH",
	DH:   "DH",
	SPB:  "SP",
	BPB:  "BP",
	SIB:  "SI",
	DIB:  "DI",
	R8B:  "R8",
	R9B:  "R9",
	R10B: "R10",
	R11B: "R11",
	R12B: "R12",
	R13B: "R13",
	R14B: "R14",
	R15B: "R15",
	AX:   "AX",
	CX:   "CX",
	BX:   "BX",
	DX:   "DX",
	SP:   "SP",
	BP:   "BP",
	SI:   "SI",
	DI:   "DI",
	R8W:  "R8",
	R9W:  "R9",
	R10W: "R10",
	R11W: "R11",
	R12W: "R12",
	R13W: "R13",
	R14W: "R14",
	R15W: "R15",
	EAX:  "AX",
	ECX:  "CX",
	EDX:  "DX",
	EBX:  "BX",
	ESP:  "SP",
	EBP:  "BP",
	ESI:  "SI",
	EDI:  "DI",
	R8L:  "R8",
	R9L:  "R9",
	R10L: "R10",
	R11L: "R11",
	R12L: "R12",
	R13L: "R13",
	R14L: "R14",
	R15L: "R15",
	RAX:  "AX",
	RCX:  "CX",
	RDX:  "DX",
	RBX:  "BX",
	RSP:  "SP",
	RBP:  "BP",
	RSI:  "SI",
	RDI:  "DI",
	R8:   "R8",
	R9:   "R9",
	R10:  "R10",
	R11:  "R11",
	R12:  "R12",
	R13:  "R13",
	R14:  "R14",
	R15:  "R15",
	IP:   "IP",
	EIP:  "IP",
	RIP:  "IP",
	F0:   "F0",
	F1:   "F1",
	F2:   "F2",
	F3:   "F3",
	F4:   "F4",
	F5:   "F5",
	F6:   "F6",
	F7:   "F7",
	M0:   "M0",
	M1:   "M1",
	M2:   "M2",
	M3:   "M3",
	M4:   "M4",
	M5:   "M5",
	M6:   "M6",
	M7:   "M7",
	X0:   "X0",
	X1:   "X1",
	X2:   "X2",
	X3:   "X3",
	X4:   "X4",
	X5:   "X5",
	X6:   "X6",
	X7:   "X7",
	X8:   "X8",
	X9:   "X9",
	X10:  "X10",
	X11:  "X11",
	X12:  "X12",
	X13:  "X13",
	X14:  "X14",
	X15:  "X15",
	CS:   "CS",
	SS:   "SS",
	DS:   "DS",
	ES:   "ES",
	FS:   "FS",
	GS:   "GS",
	GDTR: "GDTR",
	IDTR: "IDTR",
	LDTR: "LDTR",
	MSW:  "MSW",
	TASK: "TASK",
	CR0:  "CR0",
	CR1:  "CR1",
	CR2:  "CR2",
	CR3:  "CR3",
	CR4:  "CR4",
	CR5:  "CR5",
	CR6:  "CR6",
	CR7:  "CR7",
	CR8:  "CR8",
	CR9:  "CR9",
	CR10: "CR10",
	CR11: "CR11",
	CR12: "CR12",
	CR13: "CR13",
	CR14: "CR14",
	CR15: "CR15",
	DR0:  "DR0",
	DR1:  "DR1",
	DR2:  "DR2",
	DR3:  "DR3",
	DR4:  "DR4",
	DR5:  "DR5",
	DR6:  "DR6",
	DR7:  "DR7",
	DR8:  "DR8",
	DR9:  "DR9",
	DR10: "DR10",
	DR11: "DR11",
	DR12: "DR12",
	DR13: "DR13",
	DR14: "DR14",
	DR15: "DR15",
	TR0:  "TR0",
	TR1:  "TR1",
	TR2:  "TR2",
	TR3:  "TR3",
	TR4:  "TR4",
	TR5:  "TR5",
	TR6:  "TR6",
	TR7:  "TR7",
}
