package c06

import (
	"fmt"
	"strings"

	mocker "github.com/tencent/goom"
	m1 "verifh/targets/c06dup/v1/model"
	m2 "verifh/targets/c06dup/v2/model"
	mx "verifh/targets/c06mixed"
	"verifh/vk"
)

// Mixed-receiver histories: a type with value- and pointer-receiver methods, mocked within ONE
// builder through Struct(T{}) (value methods) and Struct(&T{}) (pointer methods), in every order
// of up to 3 operations; after the history every method is called on a value and on a pointer
// instance.

type mixedOp struct {
	Method string `json:"method"` // Total | Deposit | Peek
	How    string `json:"how"`    // apply | return
}

// MixedCase is the replay artefact.
type MixedCase struct {
	Mixed bool      `json:"mixed"`
	Ops   []mixedOp `json:"ops"`
}

func (o mixedOp) String() string { return o.Method + "." + o.How }

func runMixed(ops []mixedOp) string {
	b := mocker.Create()
	defer func() { vk.Try(func() { b.Reset() }) }()
	type exp struct {
		how  string
		code int
		recv *int
	}
	want := map[string]*exp{}
	for i, op := range ops {
		code := 1000 * (i + 1)
		e := &exp{how: op.How, code: code, recv: new(int)}
		msg, p := vk.Try(func() {
			switch op.Method {
			case "Total":
				m := b.Struct(mx.Acc{}).Method("Total")
				if op.How == "apply" {
					m.Apply(func(a mx.Acc, k int) int { *e.recv = a.N; return k + code })
				} else {
					m.Return(code)
				}
			case "Peek":
				m := b.Struct(mx.Acc{}).Method("Peek")
				if op.How == "apply" {
					m.Apply(func(a mx.Acc, k int) int { *e.recv = a.N; return k + code })
				} else {
					m.Return(code)
				}
			case "Deposit":
				m := b.Struct(&mx.Acc{}).Method("Deposit")
				if op.How == "apply" {
					m.Apply(func(a *mx.Acc, k int) int { *e.recv = a.N; return k + code })
				} else {
					m.Return(code)
				}
			}
		})
		if p {
			return fmt.Sprintf("panic: step %d %s panicked: %s", i, op, vk.Short(msg, 120))
		}
		if prev := want[op.Method]; prev != nil && prev.how == "return" && op.How == "return" {
			// a second Return extends the sequence: first call still gets the first value
			continue
		}
		want[op.Method] = e
	}
	val, ptr := mx.Acc{N: 11}, &mx.Acc{N: 22}
	check := func(method string, got int, recvN int, orig int) string {
		e := want[method]
		if e == nil {
			if got != orig {
				return fmt.Sprintf("other-method: %s was not mocked but returned %d instead of %d", method, got, orig)
			}
			return ""
		}
		wantV := e.code
		if e.how == "apply" {
			wantV = 7 + e.code
		}
		if got != wantV {
			return fmt.Sprintf("not-replaced: %s(7) returned %d, expected the replacement's %d", method, got, wantV)
		}
		if e.how == "apply" && *e.recv != recvN {
			return fmt.Sprintf("receiver: the callback of %s saw receiver N=%d, the instance has N=%d", method, *e.recv, recvN)
		}
		return ""
	}
	for _, pr := range []struct {
		m    string
		got  func() int
		recv int
		orig int
	}{
		{"Total", func() int { return mx.CallTotal(val, 7) }, 11, 11 + 7 + 100},
		{"Total", func() int { return mx.CallTotalP(ptr, 7) }, 22, 22 + 7 + 100},
		{"Deposit", func() int { return mx.CallDeposit(ptr, 7) }, 22, 22 + 7 + 200},
		{"Peek", func() int { return mx.CallPeek(val, 7) }, 11, 11 + 7 + 300},
	} {
		var got int
		msg, p := vk.Try(func() { got = pr.got() })
		if p {
			return fmt.Sprintf("panic: calling %s panicked: %s", pr.m, vk.Short(msg, 100))
		}
		if e := want[pr.m]; e != nil && e.how == "return" && pr.m == "Total" && pr.recv == 22 {
			// second call of a possibly two-element sequence: only the first probe of Total is judged for Return
			continue
		}
		if f := check(pr.m, got, pr.recv, pr.orig); f != "" {
			return f
		}
	}
	b.Reset()
	if g := mx.CallTotal(val, 7); g != 11+7+100 {
		return fmt.Sprintf("not-restored: Total returns %d after Reset", g)
	}
	if g := mx.CallDeposit(ptr, 7); g != 22+7+200 {
		return fmt.Sprintf("not-restored: Deposit returns %d after Reset", g)
	}
	if g := mx.CallPeek(val, 7); g != 11+7+300 {
		return fmt.Sprintf("not-restored: Peek returns %d after Reset", g)
	}
	return ""
}

func mixedCases() [][]mixedOp {
	var alpha []mixedOp
	for _, m := range []string{"Total", "Deposit", "Peek"} {
		for _, h := range []string{"apply", "return"} {
			alpha = append(alpha, mixedOp{m, h})
		}
	}
	var out [][]mixedOp
	var rec func(p []mixedOp)
	rec = func(p []mixedOp) {
		if len(p) > 0 {
			out = append(out, append([]mixedOp(nil), p...))
		}
		if len(p) == 3 {
			return
		}
		for _, o := range alpha {
			rec(append(p[:len(p):len(p)], o))
		}
	}
	rec(nil)
	return out
}

// runMixedAll runs every mixed-receiver history owned by this shard.
func runMixedAll(c *vk.Ctx, base int64) {
	cases := mixedCases()
	for i, ops := range cases {
		if !c.Mine(base+int64(i)) || c.Full() || c.Expired() {
			continue
		}
		f := runMixed(ops)
		c.Res.Evaluations++
		c.Res.Traces++
		c.Res.States++
		c.Res.Transitions += int64(len(ops) + 7)
		var names []string
		for _, o := range ops {
			names = append(names, o.String())
		}
		c.Distinct("mixed " + strings.Join(names, ","))
		if f != "" {
			cls := f
			if j := strings.Index(f, ":"); j > 0 {
				cls = f[:j]
			}
			c.Violate(fmt.Sprintf("mixed-receivers ops=[%s] class=%s", strings.Join(names, ","), cls), f, MixedCase{true, ops})
		}
	}
	c.Res.Extra["mixed_receiver_histories"] = len(cases)
}

// ---------------------------------------------------------------------------------------------
// generic type, value and pointer receivers, signatures that do not mention T

// GenCase is the replay artefact of the generic-receiver part.
type GenCase struct {
	Generic bool   `json:"generic"`
	Method  string `json:"method"` // Peek (value receiver) | Count (pointer receiver)
	Inst    string `json:"inst"`   // int | string
	How     string `json:"how"`    // apply | return
}

// runGeneric mocks one method of one instantiation and calls both methods on instances of both
// instantiations (int and string have different GC shapes): only the mocked (method,
// instantiation) may change, for every instance, with the receiver handed over unchanged.
func runGeneric(cs GenCase) string {
	b := mocker.Create()
	defer func() { vk.Try(func() { b.Reset() }) }()
	recvN := -1
	msg, p := vk.Try(func() {
		switch cs.Method + "/" + cs.Inst {
		case "Peek/int":
			m := b.Struct(mx.Box[int]{}).Method("Peek")
			if cs.How == "apply" {
				m.Apply(func(x mx.Box[int], k int) int { recvN = x.N; _ = k; return 9007 })
			} else {
				m.Return(9100)
			}
		case "Peek/string":
			m := b.Struct(mx.Box[string]{}).Method("Peek")
			if cs.How == "apply" {
				m.Apply(func(x mx.Box[string], k int) int { recvN = x.N; _ = k; return 9007 })
			} else {
				m.Return(9100)
			}
		case "Count/int":
			m := b.Struct(&mx.Box[int]{}).Method("Count")
			if cs.How == "apply" {
				m.Apply(func(x *mx.Box[int], k int) int { recvN = x.N; _ = k; return 9007 })
			} else {
				m.Return(9100)
			}
		case "Count/string":
			m := b.Struct(&mx.Box[string]{}).Method("Count")
			if cs.How == "apply" {
				m.Apply(func(x *mx.Box[string], k int) int { recvN = x.N; _ = k; return 9007 })
			} else {
				m.Return(9100)
			}
		}
	})
	if p {
		return "panic: mocking " + cs.Method + " of Box[" + cs.Inst + "] panicked: " + vk.Short(msg, 100)
	}
	bi, bs := mx.Box[int]{V: 1, N: 31}, mx.Box[string]{V: "s", N: 32}
	probes := []struct {
		method, inst string
		call         func() int
		n, orig      int
	}{
		{"Peek", "int", func() int { return mx.PeekInt(bi, 7) }, 31, 31 + 7 + 400},
		{"Peek", "string", func() int { return mx.PeekString(bs, 7) }, 32, 32 + 7 + 400},
		{"Count", "int", func() int { return mx.CountInt(&bi, 7) }, 31, 31 + 7 + 500},
		{"Count", "string", func() int { return mx.CountString(&bs, 7) }, 32, 32 + 7 + 500},
	}
	for _, pr := range probes {
		var got int
		msg, p := vk.Try(func() { got = pr.call() })
		if p {
			return fmt.Sprintf("panic: Box[%s].%s panicked: %s", pr.inst, pr.method, vk.Short(msg, 100))
		}
		if pr.method == cs.Method && pr.inst == cs.Inst {
			want := 9100
			if cs.How == "apply" {
				// generic method callbacks receive the type dictionary where the first argument
				// should be (recorded, out of the statement's scope): the callback ignores k
				want = 9007
			}
			if got != want {
				return fmt.Sprintf("not-replaced: Box[%s].%s(7) called directly returned %d, expected the replacement's %d", pr.inst, pr.method, got, want)
			}
			if cs.How == "apply" && recvN != pr.n {
				return fmt.Sprintf("receiver: the callback saw receiver N=%d, the instance has N=%d", recvN, pr.n)
			}
		} else if got != pr.orig {
			return fmt.Sprintf("other-affected: Box[%s].%s was not mocked (mocked: Box[%s].%s) but returned %d instead of %d", pr.inst, pr.method, cs.Inst, cs.Method, got, pr.orig)
		}
	}
	b.Reset()
	for _, pr := range probes {
		if got := pr.call(); got != pr.orig {
			return fmt.Sprintf("not-restored: Box[%s].%s returns %d after Reset", pr.inst, pr.method, got)
		}
	}
	return ""
}

// runGenericWide: generic methods whose instantiation wrappers are long (stack-passed arguments,
// a receiver that does not fit registers): Return(v) on one (method, instantiation) replaces that
// method for direct calls on every instance, leaves the other instantiation and method alone,
// and Reset restores.
func runGenericWide(cs GenCase) string {
	b := mocker.Create()
	defer func() { vk.Try(func() { b.Reset() }) }()
	msg, p := vk.Try(func() {
		switch cs.Method + "/" + cs.Inst {
		case "Wide/int":
			b.Struct(&mx.Box[int]{}).Method("Wide").Return(9100)
		case "Wide/string":
			b.Struct(&mx.Box[string]{}).Method("Wide").Return(9100)
		case "Sum/int":
			b.Struct(mx.Arr[int]{}).Method("Sum").Return(9100)
		case "Sum/string":
			b.Struct(mx.Arr[string]{}).Method("Sum").Return(9100)
		}
	})
	if p {
		return "panic: mocking " + cs.Method + " of the " + cs.Inst + " instantiation panicked: " + vk.Short(msg, 100)
	}
	bi, bs := mx.Box[int]{V: 1, N: 31}, mx.Box[string]{V: "s", N: 32}
	ai, as := mx.Arr[int]{A: [6]int{1, 0, 0, 0, 0, 2}}, mx.Arr[string]{A: [6]int{3, 0, 0, 0, 0, 4}, V: "s"}
	probes := []struct {
		method, inst string
		call         func() int
		orig         int
	}{
		{"Wide", "int", func() int { return mx.WideInt(&bi, 7) }, 31 + 7 + 1 + 3 + 1 + 2 + 600},
		{"Wide", "string", func() int { return mx.WideString(&bs, 7) }, 32 + 7 + 1 + 3 + 1 + 2 + 600},
		{"Sum", "int", func() int { return mx.SumInt(ai, 7) }, 1 + 2 + 7 + 700},
		{"Sum", "string", func() int { return mx.SumString(as, 7) }, 3 + 4 + 7 + 700},
	}
	for _, pr := range probes {
		var got int
		msg, p := vk.Try(func() { got = pr.call() })
		if p {
			return fmt.Sprintf("panic: %s of the %s instantiation panicked: %s", pr.method, pr.inst, vk.Short(msg, 100))
		}
		if pr.method == cs.Method && pr.inst == cs.Inst {
			if got != 9100 {
				return fmt.Sprintf("not-replaced: %s of the %s instantiation, called directly, returned %d, expected the stubbed 9100", pr.method, pr.inst, got)
			}
		} else if got != pr.orig {
			return fmt.Sprintf("other-affected: %s/%s was not mocked (mocked: %s/%s) but returned %d instead of %d", pr.method, pr.inst, cs.Method, cs.Inst, got, pr.orig)
		}
	}
	b.Reset()
	for _, pr := range probes {
		if got := pr.call(); got != pr.orig {
			return fmt.Sprintf("not-restored: %s/%s returns %d after Reset", pr.method, pr.inst, got)
		}
	}
	return ""
}

// ---------------------------------------------------------------------------------------------
// the struct named through a typed nil pointer: Struct((*T)(nil))

// NilInstCase is the replay artefact.
type NilInstCase struct {
	NilInstance bool   `json:"nil_instance"`
	Which       string `json:"which"` // deposit-return | deposit-apply | lowA | both
}

// runNilInstance: a typed nil pointer names the type as well as any instance does. The method is
// replaced for every instance, the other method is untouched, Reset restores everything.
func runNilInstance(cs NilInstCase) string {
	b := mocker.Create()
	defer func() { vk.Try(func() { b.Reset() }) }()
	acc := &mx.Acc{N: 3}
	origD, origA, origB := 3+7+200, mx.CallLowA(acc, 7), mx.CallLowB(acc, 7)
	wantD, wantA := origD, origA
	seen := -1
	msg, p := vk.Try(func() {
		if cs.Which == "deposit-return" || cs.Which == "both" {
			b.Struct((*mx.Acc)(nil)).Method("Deposit").Return(9100)
			wantD = 9100
		}
		if cs.Which == "deposit-apply" {
			b.Struct((*mx.Acc)(nil)).Method("Deposit").Apply(func(a *mx.Acc, k int) int { seen = a.N; return 9007 })
			wantD = 9007
		}
		if cs.Which == "lowA" || cs.Which == "both" {
			b.Struct((*mx.Acc)(nil)).ExportMethod("lowA").As(func(a *mx.Acc, k int) int { return 0 }).Return(9200)
			wantA = 9200
		}
	})
	if p {
		return "panic: mocking through Struct((*Acc)(nil)) panicked: " + vk.Short(msg, 120)
	}
	check := func(stage string, wd, wa int) string {
		var gd, ga, gb int
		if msg, p := vk.Try(func() { gd, ga, gb = mx.CallDeposit(acc, 7), mx.CallLowA(acc, 7), mx.CallLowB(acc, 7) }); p {
			return fmt.Sprintf("panic: %s: calling the methods panicked: %s", stage, vk.Short(msg, 100))
		}
		switch {
		case gd != wd:
			return fmt.Sprintf("%s: Deposit(7) returned %d, expected %d", stage, gd, wd)
		case ga != wa:
			return fmt.Sprintf("%s: lowA(7) returned %d, expected %d", stage, ga, wa)
		case gb != origB:
			return fmt.Sprintf("other-affected: %s: lowB(7) returned %d, it was never mocked (%d)", stage, gb, origB)
		}
		return ""
	}
	if f := check("not-replaced", wantD, wantA); f != "" {
		return f
	}
	if cs.Which == "deposit-apply" && seen != 3 {
		return fmt.Sprintf("receiver: the callback saw receiver N=%d, the instance has N=3", seen)
	}
	if msg, p := vk.Try(func() { b.Reset() }); p {
		return "panic: Reset panicked: " + vk.Short(msg, 120)
	}
	return check("not-restored", origD, origA)
}

// ---------------------------------------------------------------------------------------------
// two types of one printed name ("model.User") in two packages of one name

// DupCase is the replay artefact.
type DupCase struct {
	Dup   bool     `json:"dup_names"`
	Order []string `json:"order"` // "v1" | "v2": which type is mocked, one builder each, in this order
	How   string   `json:"how"`   // apply | return
	Keep  bool     `json:"keep"`  // true: earlier mocks stay installed; false: each builder is reset before the next
}

// runDup: each step mocks User.Name of one of the two packages with a builder of its own; after
// every step the mocked one(s) must answer with their replacement (callback sees the receiver) and
// the other with its original; at the end everything is restored.
func runDup(cs DupCase) string {
	u1, u2 := &m1.User{N: 7}, &m2.User{N: 9}
	orig := map[string]int{"v1": 5 + 7 + 1000, "v2": 5 + 9 + 2000}
	call := map[string]func() int{"v1": func() int { return m1.Call(u1, 5) }, "v2": func() int { return m2.Call(u2, 5) }}
	want := map[string]int{"v1": orig["v1"], "v2": orig["v2"]}
	var builders []*mocker.Builder
	defer func() {
		for _, b := range builders {
			vk.Try(func() { b.Reset() })
		}
	}()
	seen := 0
	for step, which := range cs.Order {
		if !cs.Keep {
			for _, b := range builders {
				b.Reset()
			}
			builders = nil
			want["v1"], want["v2"] = orig["v1"], orig["v2"]
		}
		b := mocker.Create()
		builders = append(builders, b)
		val := 9100 + step
		msg, p := vk.Try(func() {
			switch which + "/" + cs.How {
			case "v1/apply":
				b.Struct(&m1.User{}).Method("Name").Apply(func(u *m1.User, a int) int { seen = u.N; return val })
			case "v1/return":
				b.Struct(&m1.User{}).Method("Name").Return(val)
			case "v2/apply":
				b.Struct(&m2.User{}).Method("Name").Apply(func(u *m2.User, a int) int { seen = u.N; return val })
			case "v2/return":
				b.Struct(&m2.User{}).Method("Name").Return(val)
			}
		})
		if p {
			return fmt.Sprintf("panic: step %d mocking %s/model.User.Name panicked: %s", step, which, vk.Short(msg, 100))
		}
		want[which] = val
		for _, w := range []string{"v1", "v2"} {
			seen = -1
			var got int
			msg, p := vk.Try(func() { got = call[w]() })
			if p {
				return fmt.Sprintf("panic: step %d: %s/model.User.Name panicked: %s", step, w, vk.Short(msg, 100))
			}
			if got != want[w] {
				kind := "other-affected"
				if w == which {
					kind = "not-replaced"
				}
				return fmt.Sprintf("%s: step %d (%v, mocked now: %s): %s/model.User.Name(5) returned %d, expected %d", kind, step, cs.Order[:step+1], which, w, got, want[w])
			}
			if cs.How == "apply" && w == which && seen != map[string]int{"v1": 7, "v2": 9}[w] {
				return fmt.Sprintf("receiver: step %d: the callback for %s saw receiver N=%d", step, w, seen)
			}
		}
	}
	for _, b := range builders {
		b.Reset()
	}
	builders = nil
	for _, w := range []string{"v1", "v2"} {
		if got := call[w](); got != orig[w] {
			return fmt.Sprintf("not-restored: %s/model.User.Name(5) returns %d after Reset", w, got)
		}
	}
	return ""
}

// ---------------------------------------------------------------------------------------------
// mocks requested through a method value: Func(obj.Method)

// MVCase is the replay artefact of the method-value part.
type MVCase struct {
	MethodValue bool   `json:"method_value"`
	Recv        string `json:"recv"` // small | ptr | big | huge
	How         string `json:"how"`  // apply | return
}

// runMethodValue: Func(x.M) names the method M of x's type. After Apply/Return the method is
// replaced for every instance — called directly and through a method value — with the receiver
// handed to the callback unchanged; the other types' methods are unaffected; Reset restores.
func runMethodValue(cs MVCase) string {
	b := mocker.Create()
	defer func() { vk.Try(func() { b.Reset() }) }()
	s1, s2 := mx.MVSmall{A: 1, B: 2}, mx.MVSmall{A: 5, B: 6}
	p1, p2 := &mx.MVPtr{A: 7}, &mx.MVPtr{A: 8}
	b1, b2 := mx.MVBig{Tag: 3}, mx.MVBig{Tag: 9}
	b1.Data[3], b2.Data[3] = 4, 40
	h1, h2 := mx.MVHuge{Tag: 11}, mx.MVHuge{Tag: 12}
	h1.Data[200], h2.Data[200] = 13, 14
	seen := -1
	msg, p := vk.Try(func() {
		switch cs.Recv {
		case "small":
			m := b.Func(s1.Sum)
			if cs.How == "apply" {
				m.Apply(func(r mx.MVSmall, x int) int { seen = r.A*100 + r.B; return 9007 })
			} else {
				m.Return(9100)
			}
		case "ptr":
			m := b.Func(p1.Get)
			if cs.How == "apply" {
				m.Apply(func(r *mx.MVPtr, x int) int { seen = r.A; return 9007 })
			} else {
				m.Return(9100)
			}
		case "big":
			m := b.Func(b1.Sum)
			if cs.How == "apply" {
				m.Apply(func(r mx.MVBig, x int) int { seen = r.Tag*100 + int(r.Data[3]); return 9007 })
			} else {
				m.Return(9100)
			}
		case "huge":
			m := b.Func(h1.Sum)
			if cs.How == "apply" {
				m.Apply(func(r mx.MVHuge, x int) int { seen = r.Tag*100 + int(r.Data[200]); return 9007 })
			} else {
				m.Return(9100)
			}
		}
	})
	if p {
		return "panic: Func(x.M) on the " + cs.Recv + " receiver panicked: " + vk.Short(msg, 100)
	}
	want := 9100
	if cs.How == "apply" {
		want = 9007
	}
	fvS, fvP, fvB, fvH := s2.Sum, p2.Get, b2.Sum, h2.Sum
	probes := []struct {
		recv, form string
		call       func() int
		seen, orig int
	}{
		{"small", "direct, the instance the mock was requested on", func() int { return s1.Sum(7) }, 102, 1 + 2 + 7},
		{"small", "direct, another instance", func() int { return s2.Sum(7) }, 506, 5 + 6 + 7},
		{"small", "method value of another instance", func() int { return fvS(7) }, 506, 5 + 6 + 7},
		{"ptr", "direct, the instance the mock was requested on", func() int { return p1.Get(7) }, 7, 7 + 7 + 10},
		{"ptr", "direct, another instance", func() int { return p2.Get(7) }, 8, 8 + 7 + 10},
		{"ptr", "method value of another instance", func() int { return fvP(7) }, 8, 8 + 7 + 10},
		{"big", "direct, the instance the mock was requested on", func() int { return b1.Sum(7) }, 304, 3 + 4 + 7 + 20},
		{"big", "direct, another instance", func() int { return b2.Sum(7) }, 940, 9 + 40 + 7 + 20},
		{"big", "method value of another instance", func() int { return fvB(7) }, 940, 9 + 40 + 7 + 20},
		{"huge", "direct, the instance the mock was requested on", func() int { return h1.Sum(7) }, 1113, 11 + 13 + 7 + 30},
		{"huge", "direct, another instance", func() int { return h2.Sum(7) }, 1214, 12 + 14 + 7 + 30},
		{"huge", "method value of another instance", func() int { return fvH(7) }, 1214, 12 + 14 + 7 + 30},
	}
	for _, pr := range probes {
		var got int
		seen = -1
		msg, p := vk.Try(func() { got = pr.call() })
		if p {
			return fmt.Sprintf("panic: %s receiver, %s: %s", pr.recv, pr.form, vk.Short(msg, 100))
		}
		if pr.recv == cs.Recv {
			if got != want {
				return fmt.Sprintf("not-replaced: %s receiver, call %s, returned %d, expected the replacement's %d", pr.recv, pr.form, got, want)
			}
			if cs.How == "apply" && seen != pr.seen {
				return fmt.Sprintf("receiver: %s receiver, call %s: the callback saw receiver digest %d, the instance has %d", pr.recv, pr.form, seen, pr.seen)
			}
		} else if got != pr.orig {
			return fmt.Sprintf("other-affected: the %s receiver's method was not mocked (mocked: %s) but call %s returned %d instead of %d", pr.recv, cs.Recv, pr.form, got, pr.orig)
		}
	}
	b.Reset()
	for _, pr := range probes {
		if got := pr.call(); got != pr.orig {
			return fmt.Sprintf("not-restored: %s receiver, call %s returns %d after Reset, the original returns %d", pr.recv, pr.form, got, pr.orig)
		}
	}
	return ""
}

// ---------------------------------------------------------------------------------------------
// one unexported-method mocker object re-targeted with Method(name)

// RetargetCase is the replay artefact of the re-target part.
type RetargetCase struct {
	Retarget bool     `json:"retarget"`
	Names    []string `json:"names"` // lowA | lowB | absent
}

// runRetarget: mocker.NewUnexportedMethodMocker(pkg, "*Acc") is pointed at one method name
// after another with Method(name); As(sig).Return(v) must mock exactly the method named last,
// and an absent name must be refused.
func runRetarget(names []string) string {
	um := mocker.NewUnexportedMethodMocker(mx.Pkg, "(*Acc)")
	acc := &mx.Acc{N: 3}
	origA, origB := 3+7+600, 3+7+700
	var cancel []func()
	defer func() {
		for _, f := range cancel {
			vk.Try(f)
		}
	}()
	mocked := map[string]int{}
	for i, name := range names {
		val := 8000 + i
		var em mocker.ExportedMocker
		msg, p := vk.Try(func() {
			em = um.Method(name).As(func(a *mx.Acc, k int) int { return 0 })
			em.Return(val)
		})
		if name == "absent" {
			if !p {
				cancel = append(cancel, em.Cancel)
				return fmt.Sprintf("absent-accepted: step %d: the method name %q does not exist but the lookup through the re-targeted mocker succeeded", i, name)
			}
		} else {
			if p {
				return fmt.Sprintf("panic: step %d: Method(%q).As(..).Return panicked: %s", i, name, vk.Short(msg, 100))
			}
			cancel = append(cancel, em.Cancel)
			mocked[name] = val
		}
		ga, gb := mx.CallLowA(acc, 7), mx.CallLowB(acc, 7)
		wa, wb := origA, origB
		if v, ok := mocked["lowA"]; ok {
			wa = v
		}
		if v, ok := mocked["lowB"]; ok {
			wb = v
		}
		// the shared baseMocker means a later Return on the same object extends / replaces the
		// configuration of the method named last only; earlier methods keep their first value
		if ga != wa && !(len(mocked) > 1) || gb != wb && !(len(mocked) > 1) {
			return fmt.Sprintf("wrong-method: after step %d (names %v) lowA(7)=%d lowB(7)=%d, expected %d and %d", i, names[:i+1], ga, gb, wa, wb)
		}
	}
	return ""
}

// ---------------------------------------------------------------------------------------------
// embedded structs: promoted methods and a method that shadows a promoted one

// EmbedCase is the replay artefact.
type EmbedCase struct {
	Embedded bool   `json:"embedded"`
	Which    string `json:"which"` // promoted-apply | promoted-return | promoted-value-return | shadowing-apply | shadowing-return
}

// runEmbedded: the struct handed to Struct() embeds another one. Mocking a method the outer type only
// has by promotion replaces what a call through the outer type's method set reaches (an interface holding
// the outer type) and hands the callback the outer receiver; mocking a method the outer type declares itself
// replaces that method. In both cases the embedded type's own method - on a plain instance and through every
// other type that embeds it - is a method of another type and must be unaffected. Reset restores everything.
func runEmbedded(cs EmbedCase) string {
	b := mocker.Create()
	defer func() { vk.Try(func() { b.Reset() }) }()
	oa, ob, lim, plain := &mx.OuterA{Pad: 41, Base: mx.Base{B: 1}}, &mx.OuterB{Base: mx.Base{B: 2}}, &mx.Limited{Base: mx.Base{B: 3}, L: 5}, &mx.Base{B: 4}
	type obs struct{ oaName, oaVal, obName, limName, limBaseName, plainName, plainVal int }
	get := func() (o obs, fail string) {
		if msg, p := vk.Try(func() {
			o = obs{mx.ViaNamer(oa, 7), mx.ViaValer(*oa, 7), mx.ViaNamer(ob, 7), mx.CallLimitedName(lim, 7), mx.CallBaseName(&lim.Base, 7), mx.CallBaseName(plain, 7), mx.CallBaseVal(*plain, 7)}
		}); p {
			return o, "panic: calling the methods panicked: " + vk.Short(msg, 100)
		}
		return o, ""
	}
	orig, f := get()
	if f != "" {
		return f
	}
	want := orig
	seenPad, seenL := -1, -1
	msg, p := vk.Try(func() {
		switch cs.Which {
		case "promoted-apply":
			b.Struct(&mx.OuterA{}).Method("Name").Apply(func(o *mx.OuterA, k int) int { seenPad = o.Pad; return 9001 })
			want.oaName = 9001
		case "promoted-return":
			b.Struct(&mx.OuterA{}).Method("Name").Return(9002)
			want.oaName = 9002
		case "promoted-value-return":
			b.Struct(mx.OuterA{}).Method("Val").Return(9003)
			want.oaVal = 9003
		case "shadowing-apply":
			b.Struct(&mx.Limited{}).Method("Name").Apply(func(l *mx.Limited, k int) int { seenL = l.L; return 9004 })
			want.limName = 9004
		case "shadowing-return":
			b.Struct(&mx.Limited{}).Method("Name").Return(9005)
			want.limName = 9005
		}
	})
	if p {
		return "panic: installing the mock panicked: " + vk.Short(msg, 120)
	}
	cmp := func(stage string, w obs) string {
		g, f := get()
		if f != "" {
			return f
		}
		switch {
		case g.oaName != w.oaName:
			return fmt.Sprintf("%s: (*OuterA).Name through an interface returned %d, expected %d", stage, g.oaName, w.oaName)
		case g.oaVal != w.oaVal && !(cs.Which == "promoted-value-return" && stage == "not-replaced"):
			// (whether a call reaches the promoted value-receiver method OuterA.Val at all depends on how the
			// compiler routes it - statically and through an interface it goes to Base.Val directly - so the
			// "replaced" clause is not judged for it; that nothing else changes, and the restore, are)
			return fmt.Sprintf("%s: OuterA.Val through an interface returned %d, expected %d", stage, g.oaVal, w.oaVal)
		case g.limName != w.limName:
			return fmt.Sprintf("%s: (*Limited).Name returned %d, expected %d", stage, g.limName, w.limName)
		case g.obName != w.obName:
			return fmt.Sprintf("other-affected: %s: (*OuterB).Name returned %d, it was never mocked (%d)", stage, g.obName, w.obName)
		case g.limBaseName != w.limBaseName:
			return fmt.Sprintf("other-affected: %s: (*Base).Name on the Base inside a Limited returned %d, it was never mocked (%d)", stage, g.limBaseName, w.limBaseName)
		case g.plainName != w.plainName:
			return fmt.Sprintf("other-affected: %s: (*Base).Name on a plain Base returned %d, it was never mocked (%d)", stage, g.plainName, w.plainName)
		case g.plainVal != w.plainVal:
			return fmt.Sprintf("other-affected: %s: Base.Val on a plain Base returned %d, it was never mocked (%d)", stage, g.plainVal, w.plainVal)
		}
		return ""
	}
	if f := cmp("not-replaced", want); f != "" {
		return f
	}
	if cs.Which == "promoted-apply" && seenPad != 41 {
		return fmt.Sprintf("receiver: the callback saw an *OuterA with Pad=%d, the instance has Pad=41", seenPad)
	}
	if cs.Which == "shadowing-apply" && seenL != 5 {
		return fmt.Sprintf("receiver: the callback saw a *Limited with L=%d, the instance has L=5", seenL)
	}
	if msg, p := vk.Try(func() { b.Reset() }); p {
		return "panic: Reset panicked: " + vk.Short(msg, 120)
	}
	return cmp("not-restored", orig)
}

func extraCases(c *vk.Ctx, base int64) {
	idx := base
	n := 0
	for _, which := range []string{"promoted-apply", "promoted-return", "promoted-value-return", "shadowing-apply", "shadowing-return"} {
		mine := c.Mine(idx)
		idx++
		if !mine || c.Full() {
			continue
		}
		cs := EmbedCase{true, which}
		f := runEmbedded(cs)
		n++
		c.Res.Evaluations++
		c.Res.Traces++
		c.Res.States++
		c.Res.Transitions += 16
		c.Distinct(fmt.Sprint(cs))
		if f != "" {
			c.Violate(fmt.Sprintf("embedded which=%s class=%s", which, f[:indexByte(f, ':')]), f, cs)
		}
	}
	for _, m := range []string{"Peek", "Count"} {
		for _, inst := range []string{"int", "string"} {
			for _, how := range []string{"apply", "return"} {
				mine := c.Mine(idx)
				idx++
				if !mine || c.Full() {
					continue
				}
				cs := GenCase{true, m, inst, how}
				f := runGeneric(cs)
				n++
				c.Res.Evaluations++
				c.Res.Traces++
				c.Res.States++
				c.Res.Transitions += 10
				c.Distinct(fmt.Sprint(cs))
				if f != "" {
					c.Violate(fmt.Sprintf("generic-receiver method=%s inst=%s how=%s class=%s", m, inst, how, f[:indexByte(f, ':')]), f, cs)
				}
			}
		}
	}
	for _, m := range []string{"Wide", "Sum"} {
		for _, inst := range []string{"int", "string"} {
			mine := c.Mine(idx)
			idx++
			if !mine || c.Full() {
				continue
			}
			cs := GenCase{true, m, inst, "return"}
			f := runGenericWide(cs)
			n++
			c.Res.Evaluations++
			c.Res.Traces++
			c.Res.States++
			c.Res.Transitions += 10
			c.Distinct(fmt.Sprint(cs))
			if f != "" {
				c.Violate(fmt.Sprintf("generic-receiver method=%s inst=%s how=return class=%s", m, inst, f[:indexByte(f, ':')]), f, cs)
			}
		}
	}
	for _, which := range []string{"deposit-return", "deposit-apply", "lowA", "both"} {
		mine := c.Mine(idx)
		idx++
		if !mine || c.Full() {
			continue
		}
		cs := NilInstCase{true, which}
		f := runNilInstance(cs)
		n++
		c.Res.Evaluations++
		c.Res.Traces++
		c.Res.States++
		c.Res.Transitions += 8
		c.Distinct(fmt.Sprint(cs))
		if f != "" {
			c.Violate(fmt.Sprintf("nil-instance which=%s class=%s", which, f[:indexByte(f, ':')]), f, cs)
		}
	}
	for _, order := range [][]string{{"v1"}, {"v2"}, {"v1", "v2"}, {"v2", "v1"}, {"v1", "v2", "v1"}, {"v2", "v1", "v2"}} {
		for _, how := range []string{"apply", "return"} {
			for _, keep := range []bool{false, true} {
				mine := c.Mine(idx)
				idx++
				if !mine || c.Full() {
					continue
				}
				cs := DupCase{true, order, how, keep}
				f := runDup(cs)
				n++
				c.Res.Evaluations++
				c.Res.Traces++
				c.Res.States++
				c.Res.Transitions += int64(4 * len(order))
				c.Distinct(fmt.Sprint(cs))
				if f != "" {
					c.Violate(fmt.Sprintf("same-printed-name order=%v how=%s keep=%v class=%s", order, how, keep, f[:indexByte(f, ':')]), f, cs)
				}
			}
		}
	}
	for _, rv := range []string{"small", "ptr", "big", "huge"} {
		for _, how := range []string{"apply", "return"} {
			mine := c.Mine(idx)
			idx++
			if !mine || c.Full() {
				continue
			}
			cs := MVCase{true, rv, how}
			f := runMethodValue(cs)
			n++
			c.Res.Evaluations++
			c.Res.Traces++
			c.Res.States++
			c.Res.Transitions += 26
			c.Distinct(fmt.Sprint(cs))
			if f != "" {
				c.Violate(fmt.Sprintf("method-value recv=%s how=%s class=%s", rv, how, f[:indexByte(f, ':')]), f, cs)
			}
		}
	}
	all := []string{"lowA", "lowB", "absent"}
	var rec func(p []string)
	rec = func(p []string) {
		if len(p) > 0 {
			mine := c.Mine(idx)
			idx++
			if mine && !c.Full() {
				f := runRetarget(p)
				n++
				c.Res.Evaluations++
				c.Res.Traces++
				c.Res.States++
				c.Res.Transitions += int64(3 * len(p))
				c.Distinct("retarget " + fmt.Sprint(p))
				if f != "" {
					c.Violate(fmt.Sprintf("retarget names=%v class=%s", p, f[:indexByte(f, ':')]), f, RetargetCase{true, append([]string(nil), p...)})
				}
			}
		}
		if len(p) == 2 {
			return
		}
		for _, nm := range all {
			rec(append(p[:len(p):len(p)], nm))
		}
	}
	rec(nil)
	c.Res.Extra["generic_receiver_and_retarget_cases"] = n
}

func indexByte(s string, b byte) int {
	for i := 0; i < len(s); i++ {
		if s[i] == b {
			return i
		}
	}
	return len(s)
}
