package c06

import (
	"fmt"
	"strings"

	mocker "github.com/tencent/goom"
	mx "verifh/targets/c06mixed"
	"verifh/vk"
)

// Mixed-receiver histories: a type with value- and pointer-receiver methods, mocked within ONE
// builder through Struct(T{}) (value methods) and Struct(&T{}) (pointer methods), in every order
// of up to 3 operations; after the history every method is called on a value and on a pointer
// instance.

type mixedOp struct {
	Method string `json:"method"` // Total | Deposit | Peek
	How    string `json:"how"`    // apply | return
}

// MixedCase is the replay artefact.
type MixedCase struct {
	Mixed bool      `json:"mixed"`
	Ops   []mixedOp `json:"ops"`
}

func (o mixedOp) String() string { return o.Method + "." + o.How }

func runMixed(ops []mixedOp) string {
	b := mocker.Create()
	defer func() { vk.Try(func() { b.Reset() }) }()
	type exp struct {
		how  string
		code int
		recv *int
	}
	want := map[string]*exp{}
	for i, op := range ops {
		code := 1000 * (i + 1)
		e := &exp{how: op.How, code: code, recv: new(int)}
		msg, p := vk.Try(func() {
			switch op.Method {
			case "Total":
				m := b.Struct(mx.Acc{}).Method("Total")
				if op.How == "apply" {
					m.Apply(func(a mx.Acc, k int) int { *e.recv = a.N; return k + code })
				} else {
					m.Return(code)
				}
			case "Peek":
				m := b.Struct(mx.Acc{}).Method("Peek")
				if op.How == "apply" {
					m.Apply(func(a mx.Acc, k int) int { *e.recv = a.N; return k + code })
				} else {
					m.Return(code)
				}
			case "Deposit":
				m := b.Struct(&mx.Acc{}).Method("Deposit")
				if op.How == "apply" {
					m.Apply(func(a *mx.Acc, k int) int { *e.recv = a.N; return k + code })
				} else {
					m.Return(code)
				}
			}
		})
		if p {
			return fmt.Sprintf("panic: step %d %s panicked: %s", i, op, vk.Short(msg, 120))
		}
		if prev := want[op.Method]; prev != nil && prev.how == "return" && op.How == "return" {
			// a second Return extends the sequence: first call still gets the first value
			continue
		}
		want[op.Method] = e
	}
	val, ptr := mx.Acc{N: 11}, &mx.Acc{N: 22}
	check := func(method string, got int, recvN int, orig int) string {
		e := want[method]
		if e == nil {
			if got != orig {
				return fmt.Sprintf("other-method: %s was not mocked but returned %d instead of %d", method, got, orig)
			}
			return ""
		}
		wantV := e.code
		if e.how == "apply" {
			wantV = 7 + e.code
		}
		if got != wantV {
			return fmt.Sprintf("not-replaced: %s(7) returned %d, expected the replacement's %d", method, got, wantV)
		}
		if e.how == "apply" && *e.recv != recvN {
			return fmt.Sprintf("receiver: the callback of %s saw receiver N=%d, the instance has N=%d", method, *e.recv, recvN)
		}
		return ""
	}
	for _, pr := range []struct {
		m    string
		got  func() int
		recv int
		orig int
	}{
		{"Total", func() int { return mx.CallTotal(val, 7) }, 11, 11 + 7 + 100},
		{"Total", func() int { return mx.CallTotalP(ptr, 7) }, 22, 22 + 7 + 100},
		{"Deposit", func() int { return mx.CallDeposit(ptr, 7) }, 22, 22 + 7 + 200},
		{"Peek", func() int { return mx.CallPeek(val, 7) }, 11, 11 + 7 + 300},
	} {
		var got int
		msg, p := vk.Try(func() { got = pr.got() })
		if p {
			return fmt.Sprintf("panic: calling %s panicked: %s", pr.m, vk.Short(msg, 100))
		}
		if e := want[pr.m]; e != nil && e.how == "return" && pr.m == "Total" && pr.recv == 22 {
			// second call of a possibly two-element sequence: only the first probe of Total is judged for Return
			continue
		}
		if f := check(pr.m, got, pr.recv, pr.orig); f != "" {
			return f
		}
	}
	b.Reset()
	if g := mx.CallTotal(val, 7); g != 11+7+100 {
		return fmt.Sprintf("not-restored: Total returns %d after Reset", g)
	}
	if g := mx.CallDeposit(ptr, 7); g != 22+7+200 {
		return fmt.Sprintf("not-restored: Deposit returns %d after Reset", g)
	}
	if g := mx.CallPeek(val, 7); g != 11+7+300 {
		return fmt.Sprintf("not-restored: Peek returns %d after Reset", g)
	}
	return ""
}

func mixedCases() [][]mixedOp {
	var alpha []mixedOp
	for _, m := range []string{"Total", "Deposit", "Peek"} {
		for _, h := range []string{"apply", "return"} {
			alpha = append(alpha, mixedOp{m, h})
		}
	}
	var out [][]mixedOp
	var rec func(p []mixedOp)
	rec = func(p []mixedOp) {
		if len(p) > 0 {
			out = append(out, append([]mixedOp(nil), p...))
		}
		if len(p) == 3 {
			return
		}
		for _, o := range alpha {
			rec(append(p[:len(p):len(p)], o))
		}
	}
	rec(nil)
	return out
}

// runMixedAll runs every mixed-receiver history owned by this shard.
func runMixedAll(c *vk.Ctx, base int64) {
	cases := mixedCases()
	for i, ops := range cases {
		if !c.Mine(base+int64(i)) || c.Full() || c.Expired() {
			continue
		}
		f := runMixed(ops)
		c.Res.Evaluations++
		c.Res.Traces++
		c.Res.States++
		c.Res.Transitions += int64(len(ops) + 7)
		var names []string
		for _, o := range ops {
			names = append(names, o.String())
		}
		c.Distinct("mixed " + strings.Join(names, ","))
		if f != "" {
			cls := f
			if j := strings.Index(f, ":"); j > 0 {
				cls = f[:j]
			}
			c.Violate(fmt.Sprintf("mixed-receivers ops=[%s] class=%s", strings.Join(names, ","), cls), f, MixedCase{true, ops})
		}
	}
	c.Res.Extra["mixed_receiver_histories"] = len(cases)
}
