// Package c06 — method mocks replace exactly the named method, for every instance.
//
// Engine E: for every target method of the generated package verifh/targets/c06types (8 struct types x 5
// prefix-related method names, a generic type and a generic function at 5 instantiations) and every entry
// point of the API that can address it, and for all (ordered) pairs of targets in one builder: call EVERY
// method of EVERY type on a stack, a heap and a slice-element instance (directly and through interfaces)
// before the mock, while it is installed and after Reset, and compare with the reference "only the named
// method changes, for all instances, and the replacement receives the instance as its first argument".
package c06

import (
	"encoding/json"
	"fmt"
	"runtime/debug"
	"strings"

	mocker "github.com/tencent/goom"
	"github.com/tencent/goom/zzverif/base"
	t6 "verifh/targets/c06types"
	"verifh/vk"
)

const pkgPath = "verifh/targets/c06types"

// entry points
const (
	eStructMethodApply   = "struct-method-apply"           // b.Struct(x).Method(n).Apply(cb)
	eStructMethodReturn  = "struct-method-return"          // b.Struct(x).Method(n).Return(v)
	eStructExportApply   = "struct-exportmethod-apply"     // b.Struct(x).ExportMethod(n).Apply(cb)
	eStructExportAsRet   = "struct-exportmethod-as-return" // b.Struct(x).ExportMethod(n).As(sig).Return(v)
	ePkgExportStructAppl = "pkg-exportstruct-apply"        // b.Pkg(p).ExportStruct("*t").Method(n).Apply(cb)
	ePkgExportStructRet  = "pkg-exportstruct-as-return"    // b.Pkg(p).ExportStruct("*t").Method(n).As(sig).Return(v)
	eFuncApply           = "func-apply"                    // b.Func(GF[T]).Apply(cb)
)

// MockSpec names one mock of a case.
type MockSpec struct {
	Type   string `json:"type"`
	Method string `json:"method"`
	Entry  string `json:"entry"`
}

func (m MockSpec) String() string {
	if m.Type == "" {
		return m.Method + "/" + m.Entry
	}
	return m.Type + "." + m.Method + "/" + m.Entry
}

// Case is the replayable artefact: the mocks installed (in this order, in one builder) and the argument.
type Case struct {
	Mocks []MockSpec `json:"mocks"`
	K     int64      `json:"k"`
}

func (c Case) id() string {
	s := make([]string, len(c.Mocks))
	for i, m := range c.Mocks {
		s[i] = m.String()
	}
	return strings.Join(s, "+")
}

func findTarget(typ, method string) *t6.MethodDesc {
	for i := range t6.Methods {
		m := &t6.Methods[i]
		if m.Type == typ && m.Name == method {
			return m
		}
	}
	return nil
}

func entriesFor(m *t6.MethodDesc) []string {
	switch m.Generic {
	case "gmethod":
		return []string{eStructMethodApply}
	case "gfunc":
		return []string{eFuncApply}
	}
	var e []string
	if m.ExportedMethod {
		e = append(e, eStructMethodApply, eStructMethodReturn)
	}
	return append(e, eStructExportApply, eStructExportAsRet, ePkgExportStructAppl, ePkgExportStructRet)
}

func isApply(entry string) bool {
	return entry == eStructMethodApply || entry == eStructExportApply || entry == ePkgExportStructAppl || entry == eFuncApply
}

func retVal(mock int) int64 { return t6.MockBase + 500000 + int64(mock)*1000 }

func install(b *mocker.Builder, m *t6.MethodDesc, entry string, rec *t6.Rec, mock int) {
	switch entry {
	case eStructMethodApply:
		b.Struct(m.NewInst()).Method(m.Name).Apply(m.NewCb(rec, mock))
	case eStructMethodReturn:
		b.Struct(m.NewInst()).Method(m.Name).Return(retVal(mock))
	case eStructExportApply:
		b.Struct(m.NewInst()).ExportMethod(m.Name).Apply(m.NewCb(rec, mock))
	case eStructExportAsRet:
		b.Struct(m.NewInst()).ExportMethod(m.Name).As(m.Sig).Return(retVal(mock))
	case ePkgExportStructAppl:
		b.Pkg(pkgPath).ExportStruct(m.StructName).Method(m.Name).Apply(m.NewCb(rec, mock))
	case ePkgExportStructRet:
		b.Pkg(pkgPath).ExportStruct(m.StructName).Method(m.Name).As(m.Sig).Return(retVal(mock))
	case eFuncApply:
		b.Func(m.FuncVal).Apply(m.NewCb(rec, mock))
	default:
		vk.Fatalf("unknown entry %q", entry)
	}
}

type failure struct {
	phase, probe, kind, desc string
}

type mockInfo struct {
	mock  int
	entry string
}

type stats struct {
	ops        int64
	unjudged   int64
	effective  bool // some probe of a mocked target returned the replacement's value
	gmReplaced int64
	gmRecvOK   int64
	gfReplaced int64
}

func probeName(i int) string {
	d := &t6.Probes[i]
	if d.Type == "" {
		return fmt.Sprintf("%s(%s)", d.Method, d.Form)
	}
	return fmt.Sprintf("%s.%s(%s,%s)", d.Type, d.Method, d.Inst, d.Form)
}

// sameShapeMocked: is a generic target of the same family and GC shape mocked (possibly this very one)?
func sameShapeMocked(m *t6.MethodDesc, mocked map[int]mockInfo) bool {
	for id := range mocked {
		o := &t6.Methods[id]
		if o.Generic != "" && o.Generic == m.Generic && o.Shape == m.Shape {
			return true
		}
	}
	return false
}

// phase runs ProbeAll and compares with the reference. touched = generic targets (by family+shape) that
// were mocked at some point of this case: they stay unjudged after Reset as well.
func phase(name string, k int64, rec *t6.Rec, mocked, touched map[int]mockInfo, st *stats) *failure {
	rec.Events = rec.Events[:0]
	var orig0 [t6.NMethods]int64 = t6.Orig
	var obs []t6.Obs
	msg, panicked := vk.Try(func() { obs = t6.ProbeAll(k) })
	st.ops += t6.NProbes
	if panicked {
		return &failure{name, "-", "probe-panicked", "calling the methods panicked: " + vk.Short(msg, 200)}
	}
	if len(obs) != t6.NProbes {
		vk.Fatalf("ProbeAll returned %d observations", len(obs))
	}
	evByProbe := map[int][]t6.Event{}
	for _, e := range rec.Events {
		evByProbe[e.Probe] = append(evByProbe[e.Probe], e)
	}
	var expectOrig [t6.NMethods]int64
	judgedTarget := [t6.NMethods]bool{}
	for i := range judgedTarget {
		judgedTarget[i] = true
	}
	for i := 0; i < t6.NProbes; i++ {
		d := &t6.Probes[i]
		m := &t6.Methods[d.Target]
		o := obs[i]
		mi, isMocked := mocked[d.Target]
		if m.Generic != "" && (sameShapeMocked(m, mocked) || sameShapeMocked(m, touched)) {
			// generic targets: the mocked instantiation and those sharing its GC shape are not judged
			st.unjudged++
			judgedTarget[d.Target] = false
			if isMocked && name == "during" {
				if o.Result != d.Expect0+k {
					st.effective = true
					if m.Generic == "gmethod" {
						st.gmReplaced++
						for _, e := range evByProbe[i] {
							if e.Mock == mi.mock && (o.Addr != o.Addr2 || e.Addr == o.Addr) && e.F == o.F {
								st.gmRecvOK++
								break
							}
						}
					} else {
						st.gfReplaced++
					}
				}
			}
			continue
		}
		if !isMocked {
			expectOrig[d.Target]++
			if o.Result != d.Expect0+k {
				kind := "other-method-changed"
				if len(mocked) == 0 {
					kind = "not-original"
				}
				return &failure{name, probeName(i), kind, fmt.Sprintf("%s returned %d, the original returns %d", probeName(i), o.Result, d.Expect0+k)}
			}
			if ev := evByProbe[i]; len(ev) > 0 {
				return &failure{name, probeName(i), "replacement-ran-for-other-method", fmt.Sprintf("%s (not mocked) entered replacement #%d", probeName(i), ev[0].Mock)}
			}
			continue
		}
		// a mocked, judged target
		want := retVal(mi.mock)
		if isApply(mi.entry) {
			want = t6.MockBase + int64(mi.mock)*1000 + k
		}
		if o.Result != want {
			kind := "wrong-result"
			if o.Result == d.Expect0+k {
				kind = "target-not-replaced"
			}
			return &failure{name, probeName(i), kind, fmt.Sprintf("%s is mocked (#%d, %s) but returned %d, expected %d (original would be %d)", probeName(i), mi.mock, mi.entry, o.Result, want, d.Expect0+k)}
		}
		st.effective = true
		if isApply(mi.entry) {
			ev := evByProbe[i]
			if len(ev) != 1 || ev[0].Mock != mi.mock {
				return &failure{name, probeName(i), "replacement-call-count", fmt.Sprintf("%s: replacement #%d entered %d times (events %v)", probeName(i), mi.mock, len(ev), ev)}
			}
			e := ev[0]
			if e.K != k {
				return &failure{name, probeName(i), "argument-mismatch", fmt.Sprintf("%s: replacement saw k=%d, caller passed %d", probeName(i), e.K, k)}
			}
			if e.F != o.F {
				return &failure{name, probeName(i), "receiver-mismatch", fmt.Sprintf("%s: replacement saw receiver fields %v, the instance has %v", probeName(i), e.F, o.F)}
			}
			if m.PtrRecv && o.Addr == o.Addr2 && e.Addr != o.Addr {
				return &failure{name, probeName(i), "receiver-identity", fmt.Sprintf("%s: replacement received a pointer different from the instance's address", probeName(i))}
			}
		} else if len(evByProbe[i]) != 0 {
			return &failure{name, probeName(i), "replacement-ran-for-other-method", fmt.Sprintf("%s (stubbed by Return) entered a recording replacement", probeName(i))}
		}
	}
	for id := 0; id < t6.NMethods; id++ {
		if !judgedTarget[id] {
			continue
		}
		if got := t6.Orig[id] - orig0[id]; got != expectOrig[id] {
			m := &t6.Methods[id]
			kind := "original-executed"
			if got < expectOrig[id] {
				kind = "original-not-executed"
			}
			return &failure{name, m.Type + "." + m.Name, kind, fmt.Sprintf("original body of %s.%s ran %d times during the probes, expected %d", m.Type, m.Name, got, expectOrig[id])}
		}
	}
	return nil
}

// dirty is set when a case ended with targets possibly still patched (failed Reset / not original after
// Reset); the next case first removes every patch goom knows about and re-checks the baseline.
var dirty bool

// errPoisoned is returned when the baseline cannot be re-established after an earlier violation.
var errPoisoned = &failure{"before", "-", "poisoned", "targets are not original although no mock is installed (left over from an earlier violation)"}

// run executes one case.
func run(cs *Case) (fl *failure, st stats) {
	rec := &t6.Rec{}
	none := map[int]mockInfo{}
	if dirty {
		vk.Try(base.UnpatchAll)
	}
	if f := phase("before", cs.K, rec, none, none, &st); f != nil {
		if dirty {
			return errPoisoned, st
		}
		vk.Fatalf("harness: the unmocked targets do not behave as generated: %s", f.desc)
	}
	dirty = false
	defer func() {
		if fl != nil && fl.phase != "apply" && fl.phase != "during" {
			dirty = true
		}
	}()
	b := mocker.Create()
	resetDone := false
	defer func() {
		if !resetDone {
			if msg, p := vk.Try(func() { b.Reset() }); p && fl == nil {
				fl = &failure{"reset", "-", "reset-panicked", "Reset panicked: " + vk.Short(msg, 200)}
			}
		}
	}()
	mocked := map[int]mockInfo{}
	for i, ms := range cs.Mocks {
		m := findTarget(ms.Type, ms.Method)
		if m == nil {
			vk.Fatalf("unknown target %s", ms)
		}
		msg, panicked := vk.Try(func() { install(b, m, ms.Entry, rec, i) })
		st.ops++
		if panicked {
			if strings.Contains(msg, "jumpInstSize") {
				vk.Fatalf("goom refused a generated target as too small: %s", msg)
			}
			if m.Generic != "" {
				st.unjudged++
				continue
			}
			return &failure{"apply", ms.String(), "apply-panicked", fmt.Sprintf("installing mock #%d (%s) panicked: %s", i, ms, vk.Short(msg, 240))}, st
		}
		mocked[m.ID] = mockInfo{i, ms.Entry}
	}
	if f := phase("during", cs.K, rec, mocked, none, &st); f != nil {
		return f, st
	}
	msg, panicked := vk.Try(func() { b.Reset() })
	resetDone = true
	st.ops++
	if panicked {
		return &failure{"reset", "-", "reset-panicked", "Reset panicked: " + vk.Short(msg, 200)}, st
	}
	if f := phase("after", cs.K, rec, none, mocked, &st); f != nil {
		return f, st
	}
	return nil, st
}

func key(cs *Case, f *failure) string {
	return fmt.Sprintf("mocks=%s phase=%s probe=%s kind=%s", cs.id(), f.phase, f.probe, f.kind)
}

func cases(thorough bool) []Case {
	var out []Case
	const k = 7
	for i := range t6.Methods {
		m := &t6.Methods[i]
		for _, e := range entriesFor(m) {
			out = append(out, Case{Mocks: []MockSpec{{m.Type, m.Name, e}}, K: k})
		}
	}
	// ordered pairs of (target, entry point) with distinct targets, both installed in one builder
	singles := append([]Case(nil), out...)
	for _, x := range singles {
		for _, y := range singles {
			a, b := findTarget(x.Mocks[0].Type, x.Mocks[0].Method), findTarget(y.Mocks[0].Type, y.Mocks[0].Method)
			if a.ID == b.ID {
				continue
			}
			within := a.Generic == b.Generic && (a.Generic != "" || a.Type == b.Type)
			if !thorough && !within {
				continue
			}
			out = append(out, Case{Mocks: []MockSpec{x.Mocks[0], y.Mocks[0]}, K: k})
		}
	}
	return out
}

// Run is the worker entry point.
func Run(c *vk.Ctx) {
	debug.SetPanicOnFault(true)
	if c.Replay != "" {
		var gc GenCase
		c.LoadReplay(&gc)
		if gc.Generic {
			f := ""
			if gc.Method == "Wide" || gc.Method == "Sum" {
				f = runGenericWide(gc)
			} else {
				f = runGeneric(gc)
			}
			fmt.Printf("replay generic receiver %+v\nresult: %s\n", gc, f)
			if f != "" {
				c.Violate("replay", f, gc)
			}
			c.Finish()
			return
		}
		var ec EmbedCase
		c.LoadReplay(&ec)
		if ec.Embedded {
			f := runEmbedded(ec)
			fmt.Printf("replay embedded %+v\nresult: %s\n", ec, f)
			if f != "" {
				c.Violate("replay", f, ec)
			}
			c.Finish()
			return
		}
		var ni NilInstCase
		c.LoadReplay(&ni)
		if ni.NilInstance {
			f := runNilInstance(ni)
			fmt.Printf("replay nil instance %+v\nresult: %s\n", ni, f)
			if f != "" {
				c.Violate("replay", f, ni)
			}
			c.Finish()
			return
		}
		var dc DupCase
		c.LoadReplay(&dc)
		if dc.Dup {
			f := runDup(dc)
			fmt.Printf("replay same printed name %+v\nresult: %s\n", dc, f)
			if f != "" {
				c.Violate("replay", f, dc)
			}
			c.Finish()
			return
		}
		var mv MVCase
		c.LoadReplay(&mv)
		if mv.MethodValue {
			f := runMethodValue(mv)
			fmt.Printf("replay method value %+v\nresult: %s\n", mv, f)
			if f != "" {
				c.Violate("replay", f, mv)
			}
			c.Finish()
			return
		}
		var rc RetargetCase
		c.LoadReplay(&rc)
		if rc.Retarget {
			f := runRetarget(rc.Names)
			fmt.Printf("replay retarget %v\nresult: %s\n", rc.Names, f)
			if f != "" {
				c.Violate("replay", f, rc)
			}
			c.Finish()
			return
		}
		var mc MixedCase
		c.LoadReplay(&mc)
		if mc.Mixed {
			f := runMixed(mc.Ops)
			fmt.Printf("replay mixed-receivers ops=%v\nresult: %s\n", mc.Ops, f)
			if f != "" {
				c.Violate("replay", f, mc)
			}
			c.Finish()
			return
		}
		var cs Case
		c.LoadReplay(&cs)
		fmt.Printf("replay mocks=%s k=%d\n", cs.id(), cs.K)
		fl, _ := run(&cs)
		if fl != nil {
			fmt.Printf("result: phase=%s probe=%s kind=%s: %s\n", fl.phase, fl.probe, fl.kind, fl.desc)
			c.Violate("replay", fl.desc, cs)
		} else {
			fmt.Println("result: conforms")
		}
		c.Finish()
		return
	}
	all := cases(c.Thorough())
	singleFails := map[string]string{} // mock spec -> failure class, for attributing pair failures
	var gmRepl, gmRecv, gfRepl int64
	for idx := range all {
		cs := all[idx]
		if !c.Mine(int64(idx)) || c.Full() || c.Expired() {
			continue
		}
		note, _ := json.Marshal(struct {
			Case
			Key string `json:"__key"`
		}{cs, "mocks=" + cs.id()})
		c.Note(string(note))
		fl, st := run(&cs)
		if fl == errPoisoned {
			c.Res.Exhaustive = false
			c.Res.Extra["stopped"] = "baseline could not be re-established after an earlier violation; remaining cases of this shard not executed"
			break
		}
		c.Res.Evaluations++
		c.Res.Traces++
		c.Res.States++
		c.Res.Transitions += st.ops
		c.Res.Unjudged += st.unjudged
		gmRepl += st.gmReplaced
		gmRecv += st.gmRecvOK
		gfRepl += st.gfReplaced
		if st.effective {
			c.Distinct(cs.id())
		}
		c.Sample(cs)
		if fl == nil {
			continue
		}
		if len(cs.Mocks) == 2 {
			// minimise: does one of the two mocks alone fail in the same way?
			reduced := false
			for _, ms := range cs.Mocks {
				single := Case{Mocks: []MockSpec{ms}, K: cs.K}
				cls, ok := singleFails[ms.String()]
				if !ok {
					g, _ := run(&single)
					cls = ""
					if g != nil {
						cls = g.phase + "|" + g.probe + "|" + g.kind
						c.Violate(key(&single, g), g.desc, single)
					}
					singleFails[ms.String()] = cls
				}
				if cls == fl.phase+"|"+fl.probe+"|"+fl.kind {
					reduced = true
				}
			}
			if reduced {
				continue
			}
		}
		c.Violate(key(&cs, fl), fl.desc, cs)
	}
	runMixedAll(c, int64(len(all)))
	extraCases(c, int64(len(all))+1000)
	c.Res.Extra["targets"] = t6.NMethods
	c.Res.Extra["probes_per_phase"] = t6.NProbes
	c.Res.Extra["cases"] = len(all)
	c.Res.Extra["n_generic_method_probes_replaced"] = gmRepl
	c.Res.Extra["n_generic_method_probes_receiver_ok"] = gmRecv
	c.Res.Extra["n_generic_func_probes_replaced"] = gfRepl
	c.Finish()
}
