// Package c05 — result sequences are served in order and stick at the last element.
//
// seq : engine H — every call sequence of length L over {call(1), call(2), call(9)} for every
//       triple of sequence lengths of stubs A (When(1)), B (When(2)) and the default, built by
//       Return/AndReturn and by Returns, on function, method and interface-method mocks.
// conc: engine S — all interleavings (unbounded, state-cached) of 2–3 caller threads of one stub.
// race: the conc thread bodies free-running in a -race build (side pass, sampled).
package c05

import (
	"fmt"
	"strings"
	"sync"

	mocker "github.com/tencent/goom"
	"github.com/tencent/goom/arg"
	"github.com/tencent/goom/zzverif/sched"
	t "verifh/targets/c05t"
	"verifh/sx"
	"verifh/vk"
)

// ---------------------------------------------------------------------------------------------
// configuration of a stub set

type config struct {
	Target string `json:"target"` // func | method | iface
	Build  string `json:"build"`  // chain (Return.AndReturn) | returns (Returns(...))
	LA     int    `json:"la"`     // length of the sequence of When(1); 0 = clause absent
	LB     int    `json:"lb"`     // length of the sequence of When(2); 0 = clause absent
	LD     int    `json:"ld"`     // length of the default sequence
	// BAny: the second clause is When(Any()) instead of When(2): it overlaps the first one (a call
	// with 1 still selects the first-registered clause) and also takes the calls with 9
	BAny bool `json:"b_any,omitempty"`
	// Dup: the configured values repeat in adjacent pairs (b, b, b+1, b+1, …) instead of
	// being all different: a position is still a position when its value equals its neighbour's
	Dup bool `json:"dup,omitempty"`
}

func vals(base, n int) []interface{} {
	v := make([]interface{}, n)
	for i := range v {
		v[i] = base + i
	}
	return v
}

// valsOf are the configured values of a sequence under cf.
func valsOf(cf config, base, n int) []interface{} {
	v := vals(base, n)
	if cf.Dup {
		for i := range v {
			v[i] = base + i/2
		}
	}
	return v
}

type world struct {
	b    *mocker.Builder
	call func(n int) int
}

var recv = &t.S{K: 5}

// install builds the stub configuration on a fresh builder.
func install(cf config) *world {
	w := &world{b: mocker.Create()}
	var m mocker.ExportedMocker
	switch cf.Target {
	case "func":
		m = w.b.Func(t.F)
		w.call = t.F
	case "method":
		m = w.b.Struct(recv).Method("M")
		w.call = recv.M
	case "funcany":
		m = w.b.Func(t.FA)
		w.call = t.CallFA
	case "iface":
		t.X = nil
		m = w.b.Interface(&t.X).Method("A").As(func(ctx *mocker.IContext, n int) int { return 0 })
		w.call = t.CallX
	default:
		vk.Fatalf("bad target %q", cf.Target)
	}
	seq := func(first func(...interface{}) *mocker.When, vs []interface{}) *mocker.When {
		// first is Return of a mocker or of a When positioned on a clause
		wh := first(vs[0])
		for _, v := range vs[1:] {
			wh = wh.AndReturn(v)
		}
		return wh
	}
	var wh *mocker.When
	if cf.Build == "chain" {
		wh = seq(m.Return, valsOf(cf, 100, cf.LD))
		if cf.LA > 0 {
			wh = seq(wh.When(1).Return, valsOf(cf, 200, cf.LA))
		}
		if cf.LB > 0 {
			wh = seq(wh.When(condB(cf)).Return, valsOf(cf, 300, cf.LB))
		}
	} else {
		wh = m.Returns(valsOf(cf, 100, cf.LD)...)
		if cf.LA > 0 {
			wh = wh.When(1).Returns(valsOf(cf, 200, cf.LA)...)
		}
		if cf.LB > 0 {
			wh = wh.When(condB(cf)).Returns(valsOf(cf, 300, cf.LB)...)
		}
	}
	_ = wh
	return w
}

func condB(cf config) interface{} {
	if cf.BAny {
		return arg.Any()
	}
	return 2
}

func (w *world) reset() {
	w.b.Reset()
	t.X = nil
}

// expected result of the k-th (0-based) selection of a stub with n elements starting at base.
func expect(base, n, k int) int {
	if k >= n {
		k = n - 1
	}
	return base + k
}

func expectOf(cf config, base, n, k int) int {
	if !cf.Dup {
		return expect(base, n, k)
	}
	if k >= n {
		k = n - 1
	}
	return base + k/2
}

// SeqCase is the replay artefact of the sequential part.
type SeqCase struct {
	Sub   string `json:"sub"`
	Cfg   config `json:"cfg"`
	Calls []int  `json:"calls"`
}

var argOf = []int{1, 2, 9}

func runSeq(cf config, calls []int) string {
	w := install(cf)
	defer w.reset()
	var kA, kB, kD int
	before := t.Calls
	for i, ci := range calls {
		a := argOf[ci]
		var got int
		msg, panicked := vk.Try(func() { got = w.call(a) })
		if panicked {
			return fmt.Sprintf("call %d (arg %d) panicked: %s", i, a, vk.Short(msg, 120))
		}
		var want int
		switch {
		case a == 1 && cf.LA > 0:
			want = expectOf(cf, 200, cf.LA, kA)
			kA++
		case (a == 2 || cf.BAny) && cf.LB > 0:
			want = expectOf(cf, 300, cf.LB, kB)
			kB++
		default:
			want = expectOf(cf, 100, cf.LD, kD)
			kD++
		}
		if got != want {
			return fmt.Sprintf("call %d (arg %d) returned %d, expected %d (cursors A=%d B=%d D=%d before the call)", i, a, got, want, kA, kB, kD)
		}
	}
	if t.Calls != before {
		return "the original ran while the stub was installed"
	}
	return ""
}

func seq(c *vk.Ctx) {
	L, maxLen := 6, 3
	if c.Thorough() {
		L, maxLen = 9, 4
	}
	var cfgs []config
	for _, build := range []string{"chain", "returns"} {
		for la := 0; la <= maxLen; la++ {
			for lb := 0; lb <= maxLen; lb++ {
				for ld := 1; ld <= maxLen; ld++ {
					cfgs = append(cfgs, config{Target: "func", Build: build, LA: la, LB: lb, LD: ld})
					if la > 0 && lb > 0 {
						cfgs = append(cfgs, config{Target: "func", Build: build, LA: la, LB: lb, LD: ld, BAny: true})
					}
					if la >= 3 || lb >= 3 || ld >= 3 {
						cfgs = append(cfgs, config{Target: "func", Build: build, LA: la, LB: lb, LD: ld, Dup: true})
					}
				}
			}
		}
		for _, tg := range []string{"method", "iface", "funcany"} {
			for la := 0; la <= 3; la++ {
				for ld := 1; ld <= 3; ld++ {
					cfgs = append(cfgs, config{Target: tg, Build: build, LA: la, LD: ld})
				}
			}
		}
	}
	var idx int64
	for _, cf := range cfgs {
		alpha := 3
		l := L
		if cf.Target != "func" {
			alpha, l = 2, L // calls {1, 9}; index 1 of argOf is 2 → map below
		}
		total := 1
		for i := 0; i < l; i++ {
			total *= alpha
		}
		for s := 0; s < total; s++ {
			if c.Full() || c.Expired() {
				return
			}
			mine := c.Mine(idx)
			idx++
			if !mine {
				continue
			}
			calls := make([]int, l)
			x := s
			for i := 0; i < l; i++ {
				calls[i] = x % alpha
				if alpha == 2 && calls[i] == 1 {
					calls[i] = 2 // arg 9
				}
				x /= alpha
			}
			f := runSeq(cf, calls)
			c.Res.Evaluations++
			c.Res.Traces++
			c.Res.Transitions += int64(l + 3)
			c.Res.States += int64(l)
			if cf.LA+cf.LB+cf.LD > 2 {
				c.Res.Nontrivial++
			}
			cs := SeqCase{"seq", cf, calls}
			c.Sample(cs)
			if f != "" {
				// minimise the call sequence (prefix up to the failing call, then drop calls)
				min := vk.Minimize(calls, func(s []int) bool { return runSeq(cf, s) != "" })
				g := runSeq(cf, min)
				cs.Calls = min
				c.Violate(fmt.Sprintf("seq target=%s build=%s la=%d lb=%d%s ld=%d calls=%v class=%s", cf.Target, cf.Build, cf.LA, cf.LB, map[bool]string{true: "(Any)", false: ""}[cf.BAny]+map[bool]string{true: " dup", false: ""}[cf.Dup], cf.LD, argsOf(min), cls(g)), g, cs)
			}
		}
	}
	c.Res.Extra["call_sequence_length"] = L
	c.Res.Extra["configs"] = len(cfgs)
	extendPart(c, &idx)
	matchesPart(c, &idx)
}

// ---------------------------------------------------------------------------------------------
// extending a sequence after calls have been made

// ExtCase is the replay artefact of the extend-after-calls part.
type ExtCase struct {
	Sub    string `json:"sub"` // "extend"
	Stub   string `json:"stub"` // default | when
	N      int    `json:"n"`      // initial sequence length
	K      int    `json:"k"`      // calls made before the extension
	E      int    `json:"e"`      // elements added
	How    string `json:"how"`    // AndReturn (retained When) | Return (fresh lookup) | Returns (fresh lookup)
	After  int    `json:"after"`  // calls made after the extension
}

// runExtend: a stub with n results serves k calls, is then extended by e results, and serves
// `after` more calls. Two readings of "the k-th call receives the k-th result" exist once calls
// beyond the end were made before the extension (cursor stuck at the end vs. counting every
// call); a call is judged only where both give the same element.
func runExtend(cs ExtCase) (fail string, judged, unjudged int) {
	b := mocker.Create()
	defer b.Reset()
	base, arg := 100, 9
	var wh *mocker.When
	if cs.Stub == "default" {
		wh = b.Func(t.F).Return(base)
		for i := 1; i < cs.N; i++ {
			wh = wh.AndReturn(base + i)
		}
	} else {
		base, arg = 200, 1
		wh = b.Func(t.F).Return(99).When(1).Return(base)
		for i := 1; i < cs.N; i++ {
			wh = wh.AndReturn(base + i)
		}
	}
	list := make([]int, cs.N)
	for i := range list {
		list[i] = base + i
	}
	curA, calls := 0, 0 // reading A: the cursor advances only while elements remain; reading B: every call counts
	check := func(phase string) string {
		got := t.F(arg)
		a := list[minInt(curA, len(list)-1)]
		if curA < len(list) {
			curA++
		}
		bv := list[minInt(calls, len(list)-1)]
		calls++
		if a != bv {
			unjudged++
			if got != a && got != bv {
				return fmt.Sprintf("extend: %s call #%d returned %d, neither reading of the sequence %v allows it", phase, calls, got, list)
			}
			return ""
		}
		judged++
		if got != a {
			return fmt.Sprintf("extend: %s call #%d returned %d, expected %d (sequence %v)", phase, calls, got, a, list)
		}
		return ""
	}
	for i := 0; i < cs.K; i++ {
		if f := check("before the extension,"); f != "" {
			return f, judged, unjudged
		}
	}
	ext := make([]interface{}, cs.E)
	for i := range ext {
		ext[i] = base + cs.N + i
		list = append(list, base+cs.N+i)
	}
	msg, p := vk.Try(func() {
		switch cs.How {
		case "AndReturn":
			for _, v := range ext {
				wh = wh.AndReturn(v)
			}
		case "Return":
			if cs.Stub == "default" {
				for _, v := range ext {
					b.Func(t.F).Return(v)
				}
			} else {
				for _, v := range ext {
					wh = wh.AndReturn(v) // a bare Return after a clause is not in the alphabet
				}
			}
		case "Returns":
			if cs.Stub == "default" {
				b.Func(t.F).Returns(ext...)
			} else {
				wh = wh.When(1) // not used: see alphabet filter in extendPart
			}
		}
	})
	if p {
		return "extend: the extension panicked: " + vk.Short(msg, 100), judged + 1, unjudged
	}
	for i := 0; i < cs.After; i++ {
		if f := check("after the extension,"); f != "" {
			return f, judged, unjudged
		}
	}
	return "", judged, unjudged
}

func minInt(a, b int) int {
	if a < b {
		return a
	}
	return b
}

func extendPart(c *vk.Ctx, idx *int64) {
	n0 := int64(0)
	for _, stub := range []string{"default", "when"} {
		for _, how := range []string{"AndReturn", "Return", "Returns"} {
			if stub == "when" && how != "AndReturn" {
				continue
			}
			for n := 1; n <= 3; n++ {
				for k := 0; k <= n+2; k++ {
					for e := 1; e <= 2; e++ {
						if c.Full() || c.Expired() {
							return
						}
						mine := c.Mine(*idx)
						*idx++
						if !mine {
							continue
						}
						cs := ExtCase{"extend", stub, n, k, e, how, 4}
						f, j, u := runExtend(cs)
						c.Res.Evaluations++
						c.Res.Traces++
						c.Res.States++
						c.Res.Transitions += int64(k + 4 + e + n)
						c.Res.Unjudged += int64(u)
						_ = j
						c.Res.Nontrivial++
						n0++
						if f != "" {
							c.Violate(fmt.Sprintf("extend stub=%s how=%s n=%d calls-before=%d added=%d class=%s", stub, how, n, k, e, cls2(f)), f, cs)
						}
					}
				}
			}
		}
	}
	c.Res.Extra["n_extend_cases"] = n0
}

func cls2(f string) string {
	if strings.Contains(f, "panicked") {
		return "panic"
	}
	return "wrong-element"
}

// ---------------------------------------------------------------------------------------------
// conditions given as pairs (When.Matches)

// MatchesCase is the replay artefact of the Matches part.
type MatchesCase struct {
	Sub   string `json:"sub"` // "matches"
	Pairs int    `json:"pairs"`
	Calls []int  `json:"calls"` // index of the pair each call selects
}

// runMatches: conditions registered with Matches(pairs...) each carry a one-element sequence;
// calls selecting pair i must always receive pair i's result, however often and in whatever
// order (sequences attached to different conditions are independent; a one-element sequence
// sticks at its element). Calls never fall through to the default here.
func runMatches(cs MatchesCase) string {
	b := mocker.Create()
	defer b.Reset()
	pairs := make([]arg.Pair, cs.Pairs)
	for i := range pairs {
		pairs[i] = arg.Pair{Args: 10 + i, Return: 500 + i}
	}
	msg, p := vk.Try(func() { b.Func(t.F).When(999).Return(7).Matches(pairs...) })
	if p {
		return "matches: configuration panicked: " + vk.Short(msg, 100)
	}
	for n, pi := range cs.Calls {
		var got int
		msg, p := vk.Try(func() { got = t.F(10 + pi) })
		if p {
			return fmt.Sprintf("matches: call %d (pair %d) panicked: %s", n, pi, vk.Short(msg, 100))
		}
		if got != 500+pi {
			return fmt.Sprintf("matches: call %d selects pair %d and returned %d, expected %d (calls so far %v)", n, pi, got, 500+pi, cs.Calls[:n+1])
		}
	}
	return ""
}

func matchesPart(c *vk.Ctx, idx *int64) {
	n0 := int64(0)
	for np := 2; np <= 3; np++ {
		L := 4
		total := 1
		for i := 0; i < L; i++ {
			total *= np
		}
		for s := 0; s < total; s++ {
			if c.Full() || c.Expired() {
				return
			}
			mine := c.Mine(*idx)
			*idx++
			if !mine {
				continue
			}
			calls := make([]int, L)
			x := s
			for i := range calls {
				calls[i] = x % np
				x /= np
			}
			cs := MatchesCase{"matches", np, calls}
			f := runMatches(cs)
			c.Res.Evaluations++
			c.Res.Traces++
			c.Res.States++
			c.Res.Transitions += int64(L + 2)
			c.Res.Nontrivial++
			n0++
			if f != "" {
				c.Violate(fmt.Sprintf("matches pairs=%d calls=%v class=%s", np, calls, cls2(f)), f, cs)
			}
		}
	}
	c.Res.Extra["n_matches_cases"] = n0
}

func argsOf(calls []int) []int {
	o := make([]int, len(calls))
	for i, ci := range calls {
		o[i] = argOf[ci]
	}
	return o
}

func cls(f string) string {
	switch {
	case strings.Contains(f, "panicked"):
		return "panic"
	case strings.Contains(f, "original ran"):
		return "original-ran"
	default:
		return "wrong-element"
	}
}

// ---------------------------------------------------------------------------------------------
// concurrent part

// ConcCase is the replay artefact of the concurrent part.
type ConcCase struct {
	Sub      string `json:"sub"`
	Stub     string `json:"stub"` // default | when
	N        int    `json:"n"`    // sequence length
	Threads  []int  `json:"threads"` // calls per thread
	Schedule []int  `json:"schedule"`
}

type callRec struct {
	thread   int
	invoke   int // log position
	ret      int // log position (-1: did not return)
	val      int
	panicMsg string
}

func concScenario(stub string, n int, threads []int) (sched.Scenario, func() []callRec) {
	var (
		w     *world
		recs  []callRec
		clock int
	)
	base, arg := 100, 9
	cf := config{Target: "func", Build: "chain", LD: n}
	if stub == "when" {
		base, arg = 200, 1
		cf = config{Target: "func", Build: "chain", LA: n, LD: 1}
	}
	sc := sched.Scenario{
		Name:    fmt.Sprintf("c05/%s/n=%d/%v", stub, n, threads),
		Horizon: 5000,
		Setup: func() []func() {
			if w != nil {
				w.reset()
			}
			w = install(cf)
			recs = nil
			clock = 0
			bodies := make([]func(), len(threads))
			for ti := range threads {
				ti := ti
				bodies[ti] = func() {
					for k := 0; k < threads[ti]; k++ {
						if k > 0 {
							sched.Yield("between-calls")
						}
						clock++
						recs = append(recs, callRec{thread: ti, invoke: clock, ret: -1})
						me := len(recs) - 1
						var v int
						msg, panicked := vk.Try(func() { v = w.call(arg) })
						clock++
						recs[me].ret = clock
						recs[me].val = v
						if panicked {
							recs[me].panicMsg = msg
						}
					}
				}
			}
			return bodies
		},
	}
	sc.Check = func(x *sched.Execution) string {
		for ti, p := range x.Panics {
			if p != "" {
				return fmt.Sprintf("panic: thread %d: %s", ti, vk.Short(p, 160))
			}
		}
		last := base + n - 1
		for i, r := range recs {
			if r.panicMsg != "" {
				return fmt.Sprintf("panic: call %d of thread %d panicked: %s", i, r.thread, vk.Short(r.panicMsg, 120))
			}
			if r.ret < 0 {
				return fmt.Sprintf("incomplete: call %d of thread %d did not return", i, r.thread)
			}
			if r.val < base || r.val > last {
				return fmt.Sprintf("not-an-element: call of thread %d returned %d, not an element of the sequence %d..%d", r.thread, r.val, base, last)
			}
		}
		for _, a := range recs {
			for _, b := range recs {
				if a.ret < b.invoke { // a returned before b was invoked
					if a.val > b.val {
						return fmt.Sprintf("backwards: a call returned element #%d and a call invoked after it had returned got the earlier element #%d", a.val-base, b.val-base)
					}
					if a.val == last && b.val != last {
						return fmt.Sprintf("not-sticky: the last element had been returned, yet a later call got element #%d", b.val-base)
					}
				}
			}
		}
		return ""
	}
	return sc, func() []callRec { return recs }
}

func threadConfigs(thorough bool) [][]int {
	var out [][]int
	maxCalls := 2
	if thorough {
		maxCalls = 3
	}
	for a := 1; a <= maxCalls; a++ {
		for b := 1; b <= maxCalls; b++ {
			out = append(out, []int{a, b})
		}
	}
	m3 := 1
	if thorough {
		m3 = 2
	}
	for a := 1; a <= m3; a++ {
		for b := 1; b <= m3; b++ {
			for d := 1; d <= m3; d++ {
				out = append(out, []int{a, b, d})
			}
		}
	}
	if thorough {
		out = append(out, []int{3, 3, 1}, []int{1, 1, 1, 1})
	} else {
		// one caller stalled in the middle of a call while another walks through the whole sequence
		out = append(out, []int{2, 3}, []int{3, 2}, []int{1, 3, 1})
	}
	return out
}

func conc(c *vk.Ctx) {
	var idx int64
	outcomes := 0
	scen := 0
	for _, stub := range []string{"default", "when"} {
		for n := 2; n <= 4; n++ {
			for _, th := range threadConfigs(c.Thorough()) {
				if c.Full() || c.Expired() {
					return
				}
				mine := c.Mine(idx)
				idx++
				if !mine {
					continue
				}
				scen++
				sc, recs := concScenario(stub, n, th)
				cs := ConcCase{"conc", stub, n, th, nil}
				c.Sample(cs)
				mk := func(bound int) sx.Config {
					return sx.Config{
						Scenario: sc, Bound: bound, Cache: bound < 0,
						Outcome: func(x *sched.Execution) string {
							var sb strings.Builder
							for _, r := range recs() {
								fmt.Fprintf(&sb, "T%d:%d ", r.thread, r.val)
							}
							return sb.String()
						},
						Key:  fmt.Sprintf("conc stub=%s n=%d threads=%v", stub, n, th),
						Case: func(s []int) interface{} { cc := cs; cc.Schedule = s; return cc },
					}
				}
				for _, b := range []int{0, 1, 2, -1} {
					res, cont := sx.Explore(c, mk(b))
					if b < 0 {
						outcomes += len(res.Outcomes)
					}
					if res.Failure != "" || !cont {
						break
					}
				}
			}
		}
	}
	c.Res.Extra["n_distinct_outcomes"] = outcomes
	c.Res.Extra["n_scenarios"] = scen
}

// race runs the same bodies free (real goroutines) in a -race build.
func race(c *vk.Ctx) {
	rounds := 60
	if c.Thorough() {
		rounds = 400
	}
	for _, stub := range []string{"default", "when"} {
		for n := 2; n <= 4; n++ {
			for _, nt := range []int{2, 4, 8} {
				for r := 0; r < rounds; r++ {
					base, arg := 100, 9
					cf := config{Target: "func", Build: "chain", LD: n}
					if stub == "when" {
						base, arg = 200, 1
						cf = config{Target: "func", Build: "chain", LA: n, LD: 1}
					}
					w := install(cf)
					var wg sync.WaitGroup
					bad := make([]string, nt)
					for ti := 0; ti < nt; ti++ {
						ti := ti
						wg.Add(1)
						go func() {
							defer wg.Done()
							for k := 0; k < 3; k++ {
								msg, p := vk.Try(func() {
									v := w.call(arg)
									if v < base || v >= base+n {
										bad[ti] = fmt.Sprintf("returned %d", v)
									}
								})
								if p {
									bad[ti] = "panic: " + msg
								}
							}
						}()
					}
					wg.Wait()
					w.reset()
					c.Res.Evaluations++
					c.Res.Traces++
					c.Res.Transitions += int64(nt * 3)
					c.Res.Nontrivial++
					for _, bmsg := range bad {
						if bmsg != "" {
							c.Violate(fmt.Sprintf("race stub=%s class=%s", stub, sx.Class(bmsg)), "free-running callers: "+bmsg, map[string]interface{}{"sub": "race", "stub": stub, "n": n, "threads": nt})
						}
					}
				}
			}
		}
	}
	// conditions with several alternatives and callers that pass different ones at the same time:
	// In(1, 2) → one-element stub 500, In(3, 4) → 600, default 100; every call must get the result of
	// the condition its own argument selects
	for r := 0; r < rounds; r++ {
		b := mocker.Create()
		b.Func(t.F).Return(100).In(1, 2).Return(500).In(3, 4).Return(600)
		want := map[int]int{1: 500, 2: 500, 3: 600, 4: 600, 9: 100}
		args := []int{1, 2, 3, 4, 9}
		var wg sync.WaitGroup
		bad := make([]string, 8)
		for ti := 0; ti < 8; ti++ {
			ti := ti
			wg.Add(1)
			go func() {
				defer wg.Done()
				for k := 0; k < 40; k++ {
					a := args[(ti+k)%len(args)]
					msg, p := vk.Try(func() {
						if v := t.F(a); v != want[a] && bad[ti] == "" {
							bad[ti] = fmt.Sprintf("In-stub: F(%d) returned %d, the condition it selects returns %d", a, v, want[a])
						}
					})
					if p && bad[ti] == "" {
						bad[ti] = "panic: " + msg
					}
				}
			}()
		}
		wg.Wait()
		b.Reset()
		c.Res.Evaluations++
		c.Res.Traces++
		c.Res.Transitions += 8 * 40
		for _, bmsg := range bad {
			if bmsg != "" {
				c.Violate("race stub=in class="+sx.Class(bmsg), "free-running callers: "+bmsg, map[string]interface{}{"sub": "race", "stub": "in"})
				break
			}
		}
	}
	c.Res.States = 1
	c.Res.Extra["sampled_side_pass"] = true
	c.Res.Extra["race_pass"] = "sampled (free-running goroutines under the race detector; precondition check for the explorer, not the decider)"
}

// Run is the worker entry point.
func Run(c *vk.Ctx) {
	if c.Replay != "" {
		replay(c)
		c.Finish()
		return
	}
	switch c.Sub {
	case "seq":
		seq(c)
	case "conc":
		conc(c)
	case "race":
		race(c)
	default:
		vk.Fatalf("unknown sub %q", c.Sub)
	}
	c.Finish()
}

func replay(c *vk.Ctx) {
	var probe struct {
		Sub string `json:"sub"`
	}
	c.LoadReplay(&probe)
	switch probe.Sub {
	case "extend":
		var cs ExtCase
		c.LoadReplay(&cs)
		f, _, _ := runExtend(cs)
		fmt.Printf("replay extend %+v\nresult: %s\n", cs, orOK(f))
		if f != "" {
			c.Violate("replay", f, cs)
		}
	case "matches":
		var cs MatchesCase
		c.LoadReplay(&cs)
		f := runMatches(cs)
		fmt.Printf("replay matches %+v\nresult: %s\n", cs, orOK(f))
		if f != "" {
			c.Violate("replay", f, cs)
		}
	case "seq":
		var cs SeqCase
		c.LoadReplay(&cs)
		f := runSeq(cs.Cfg, cs.Calls)
		fmt.Printf("replay seq cfg=%+v calls(args)=%v\nresult: %s\n", cs.Cfg, argsOf(cs.Calls), orOK(f))
		if f != "" {
			c.Violate("replay", f, cs)
		}
	case "conc":
		var cs ConcCase
		c.LoadReplay(&cs)
		sc, recs := concScenario(cs.Stub, cs.N, cs.Threads)
		x, f := sched.RunOnce(sc, cs.Schedule, false)
		fmt.Printf("replay conc stub=%s n=%d threads=%v schedule=%v\n", cs.Stub, cs.N, cs.Threads, cs.Schedule)
		for i, p := range x.Points {
			fmt.Printf("  point %2d: ran T%d (was at %-24s) enabled=%v\n", i, p.Chosen, p.Kind, p.Enabled)
		}
		for _, r := range recs() {
			fmt.Printf("  T%d call: invoked@%d returned@%d value=%d %s\n", r.thread, r.invoke, r.ret, r.val, r.panicMsg)
		}
		fmt.Printf("result: %s\n", orOK(f))
		if f != "" {
			c.Violate("replay", f, cs)
		}
	default:
		fmt.Println("race-pass findings are not replayable deterministically; re-run the check")
	}
}

func orOK(s string) string {
	if s == "" {
		return "conforms"
	}
	return s
}
