package hworld

import (
	"fmt"
	"strings"

	zz "github.com/tencent/goom/zzverif/base"
	"verifh/vk"
)

// Case is the replay artefact of a history property.
type Case struct {
	Ops  []Op   `json:"ops"`
	Text string `json:"text"`
}

// Checker judges the state after the last operation of a history. It returns a failure
// ("" = conforms), and how many observations were judged / left unjudged.
type Checker func(w *World, m *Model, hist []Op) (fail string, judged, unjudged int)

// Img is the pristine text image (taken by Init).
var Img *vk.Image

// Init must be called before any mock is installed.
func Init() {
	Img = vk.Snapshot()
	// resolve by-name targets once (outside histories)
	for t := Target(0); t < NTargets; t++ {
		EntryPC(t)
	}
}

// Run replays hist from scratch on a fresh world and model; every operation must succeed
// (the alphabets contain well-formed operations only); check judges the final state.
func Run(hist []Op, check Checker) (fail string, judged, unjudged int) {
	w := NewWorld()
	m := &Model{}
	defer func() {
		w.Cleanup()
		zz.UnpatchAll()
		if d := Img.ForceRestore(); len(d) > 0 {
			// only placeholders may still differ after Reset of everything
			if bad := vk.OutsideAllowed(d, PlaceholderRanges()); len(bad) > 0 && fail == "" {
				fail = fmt.Sprintf("restore: after resetting every builder and UnpatchAll the image still differs at %s", Where(bad))
			}
		}
	}()
	for i, op := range hist {
		if !m.Enabled(op) {
			vk.Fatalf("history contains a disabled op at %d: %s", i, OpsString(hist))
		}
		msg, p := w.Do(op)
		if p {
			return fmt.Sprintf("panic: step %d %s panicked: %s", i, op, vk.Short(msg, 140)), 1, 0
		}
		m.Do(op)
	}
	return check(w, m, hist)
}

// Behaviour compares every target's probe sequence with the model (where judged).
func Behaviour(w *World, m *Model, targets []Target) (fail string, judged, unjudged int) {
	for _, t := range targets {
		if !m.Judged(t) {
			unjudged += len(ProbeArgs)
			// still execute the probes: they must not crash the process
			for _, a := range ProbeArgs {
				Probe(t, a)
			}
			continue
		}
		want := m.Expect(t)
		for i, a := range ProbeArgs {
			got := Probe(t, a)
			judged++
			ok := false
			if strings.HasPrefix(want[i], "panic:") {
				ok = got.Panic != "" && strings.Contains(got.Panic, want[i][6:])
			} else {
				ok = got.Panic == "" && fmt.Sprint(got.Val) == want[i]
			}
			if !ok && fail == "" {
				fail = fmt.Sprintf("behaviour: %s(%d) (probe #%d of %v) gave %s, expected %s", TargetNames[t], a, i, ProbeArgs, got, want[i])
			}
		}
	}
	return
}

// Where renders address ranges relative to the known targets.
func Where(rs []vk.Range) string {
	var s []string
	for _, r := range rs {
		name := vk.FuncName(r.Lo)
		e, _ := vk.FuncExtentFast(r.Lo)
		s = append(s, fmt.Sprintf("%s+%d(%d bytes)", name, r.Lo-e, r.Hi-r.Lo))
	}
	return strings.Join(s, ",")
}

// Enumerate calls visit for every well-formed history of length 1..depth over the alphabet, in
// depth-first (shortlex-by-prefix) order.
func Enumerate(alphabet []Op, depth int, visit func(hist []Op) bool) {
	var rec func(prefix []Op, m Model) bool
	rec = func(prefix []Op, m Model) bool {
		for _, op := range alphabet {
			if !m.Enabled(op) {
				continue
			}
			// retained handles only exist after a lookup in the same epoch
			h := append(prefix[:len(prefix):len(prefix)], op)
			if !visit(h) {
				return false
			}
			if len(h) < depth {
				m2 := m
				m2 = cloneModel(m)
				m2.Do(op)
				if !rec(h, m2) {
					return false
				}
			}
		}
		return true
	}
	rec(nil, Model{})
}

func cloneModel(m Model) Model {
	c := m
	for b := 0; b < 2; b++ {
		for t := range c.Cfg[b] {
			c.Cfg[b][t].Def = append([]int(nil), m.Cfg[b][t].Def...)
			cl := make([][]int, len(m.Cfg[b][t].Clauses))
			for i := range cl {
				cl[i] = append([]int(nil), m.Cfg[b][t].Clauses[i]...)
			}
			c.Cfg[b][t].Clauses = cl
		}
	}
	return c
}

// Minimize1 returns a 1-minimal sub-history that still fails with the same class (keeps
// well-formedness: candidates containing a disabled op are skipped).
func Minimize1(hist []Op, check Checker, class func(string) string) ([]Op, string) {
	f0, _, _ := Run(hist, check)
	cls := class(f0)
	cur := append([]Op(nil), hist...)
	for changed := true; changed; {
		changed = false
		for i := 0; i < len(cur); i++ {
			cand := append(append([]Op(nil), cur[:i]...), cur[i+1:]...)
			if len(cand) == 0 || !WellFormed(cand) {
				continue
			}
			if f, _, _ := Run(cand, check); f != "" && class(f) == cls {
				cur = cand
				changed = true
				i--
			}
		}
	}
	f, _, _ := Run(cur, check)
	return cur, f
}

// WellFormed replays hist on the model only.
func WellFormed(hist []Op) bool {
	m := Model{}
	for _, op := range hist {
		if !m.Enabled(op) {
			return false
		}
		m.Do(op)
	}
	return true
}

// Class reduces a failure to its class word (text before the first colon).
func Class(f string) string {
	if i := strings.Index(f, ":"); i > 0 {
		return f[:i]
	}
	return f
}
