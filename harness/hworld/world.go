// Package hworld is the shared world + reference model of the history-explorer properties
// C02 (restore), C12 (last instruction wins) and C13 (rejected configurations leave nothing).
package hworld

import (
	"fmt"
	"reflect"
	"strings"

	mocker "github.com/tencent/goom"
	"verifh/targets/hw"
	"verifh/vk"
)

// Target identifies a mock target.
type Target int

// Targets.
const (
	TF0 Target = iota
	TF1
	TM
	TLm
	TG
	TG2hw  // hw.g2, reached with Pkg(hw.Pkg).ExportFunc("g2")
	TG2own // hworld.g2, reached with ExportFunc("g2") without override
	TXA
	TVv // hw.V.ValM, reached with Struct(hw.V{}) (value instance)
	TVp // (*hw.V).PtrM, reached with Struct(&hw.V{}) (pointer instance)
	TLm2 // (*hw.S).m2, a second unexported method of S
	TLoop // hw.Loop: mockable, but an apply with an origin placeholder must be refused
	TXB   // X.B: a second method of the interface variable, of the same signature as X.A
	TGen  // hw.GenF[int]: a generic instantiation, mocked through its function value (stubs only)
	NTargets
)

// TargetNames for printing.
var TargetNames = []string{"F0", "F1", "(*S).M", "(*S).m", "G", "hw.g2", "own.g2", "X.A", "V.ValM", "(*V).PtrM", "(*S).m2", "Loop", "X.B", "GenF[int]"}

//go:noinline
func g2(a int) int {
	if a > 1<<39 {
		return a*19 - 1
	}
	return a + 650
}

// CallOwnG2 calls this package's g2.
//
//go:noinline
func CallOwnG2(a int) int { return g2(a) }

// Original results: a + Orig[t]; X.A unmocked panics (nil interface).
var Orig = []int{100, 200, 300, 400, 500, 600, 650, 0, 150, 250, 450, 0, 0, 700}

// OrigOf is the original result of target t for argument a.
func OrigOf(t Target, a int) int {
	if t == TLoop {
		for a&1 == 0 && a != 0 {
			a >>= 1
		}
		return a*3 + 18
	}
	return a + Orig[t]
}

// Call calls target t with argument a.
func Call(t Target, a int) int {
	switch t {
	case TF0:
		return hw.F0(a)
	case TF1:
		return hw.F1(a)
	case TM:
		return (&hw.S{K: 1}).M(a)
	case TLm:
		return hw.CallLowerM(&hw.S{K: 1}, a)
	case TG:
		return hw.G(a)
	case TG2hw:
		return hw.CallG2(a)
	case TG2own:
		return CallOwnG2(a)
	case TXA:
		return hw.CallXA(a)
	case TVv:
		return hw.V{K: 1}.ValM(a)
	case TVp:
		return (&hw.V{K: 1}).PtrM(a)
	case TLm2:
		return hw.CallLowerM2(&hw.S{K: 1}, a)
	case TLoop:
		return hw.Loop(a)
	case TXB:
		return hw.CallXB(a)
	case TGen:
		return hw.CallGen(a)
	}
	panic("bad target")
}

// EntryPC returns the entry address of a patchable target (0 for the interface target).
func EntryPC(t Target) uintptr {
	switch t {
	case TF0:
		return reflect.ValueOf(hw.F0).Pointer()
	case TF1:
		return reflect.ValueOf(hw.F1).Pointer()
	case TM:
		m, _ := reflect.TypeOf(&hw.S{}).MethodByName("M")
		return m.Func.Pointer()
	case TLm:
		return pcByName(hw.Pkg + ".(*S).m")
	case TG:
		return reflect.ValueOf(hw.G).Pointer()
	case TG2hw:
		return pcByName(hw.Pkg + ".g2")
	case TG2own:
		return reflect.ValueOf(g2).Pointer()
	case TVv:
		return pcByName(hw.Pkg + ".V.ValM")
	case TVp:
		return pcByName(hw.Pkg + ".(*V).PtrM")
	case TLm2:
		return pcByName(hw.Pkg + ".(*S).m2")
	case TLoop:
		return reflect.ValueOf(hw.Loop).Pointer()
	}
	return 0
}

var pcCache = map[string]uintptr{}

// GenEntries are the entries of every function the runtime lists as hw.GenF[...] (the instantiation wrapper
// and the shape body: goom diverts the body, and may divert the wrapper).
func GenEntries() []uintptr {
	if genEntries == nil {
		lo, hi := vk.TextRange()
		for pc := lo; pc < hi; {
			e, end := vk.FuncExtentFast(pc)
			if e == 0 {
				pc += 16
				continue
			}
			if vk.FuncName(e) == hw.Pkg+".GenF[...]" {
				genEntries = append(genEntries, e)
			}
			pc = end
		}
		if len(genEntries) == 0 {
			vk.Fatalf("no function named %s.GenF[...] in the runtime table", hw.Pkg)
		}
	}
	return genEntries
}

var genEntries []uintptr

// pcByName finds a function entry by scanning the runtime's own function table (independent
// of goom's symbol lookup).
func pcByName(name string) uintptr {
	if pc, ok := pcCache[name]; ok {
		return pc
	}
	lo, hi := vk.TextRange()
	for pc := lo; pc < hi; {
		e, end := vk.FuncExtentFast(pc)
		if e == 0 {
			pc += 16
			continue
		}
		if vk.FuncName(e) == name {
			pcCache[name] = e
			return e
		}
		pc = end
	}
	vk.Fatalf("function %s not found in the runtime table", name)
	return 0
}

// Kind of operation.
type Kind int

// Operation kinds.
const (
	KApplyA Kind = iota
	KApplyB
	KApplyO // Origin(&og).Apply(cb calling og) — G only
	KReturn
	KWhenReturn
	KCancel
	KReset // builder-wide; T ignored
	KPkg   // builder.Pkg(hw.Pkg); T ignored
	// KApplyORefused: Origin(&placeholder).Apply(cb) on Loop while nobody mocks it: the prologue cannot
	// be relocated, so the apply has to be refused (a panic, recovered like a test would) and to leave
	// everything as it was
	KApplyORefused
	NKinds
)

// KindNames for printing.
var KindNames = []string{"ApplyA", "ApplyB", "OriginApply", "Return", "When(1).Return", "Cancel", "Reset", "Pkg", "OriginApply(must be refused)"}

// Op is one operation of a history.
type Op struct {
	B        int    `json:"b"`
	T        Target `json:"t"`
	K        Kind   `json:"k"`
	Retained bool   `json:"retained,omitempty"` // through the handle kept from the previous lookup
	// Kept: through the handle obtained by the first lookup of (builder, target) in this history,
	// even across a Cancel/Reset (re-apply through a kept handle); Apply kinds only.
	Kept bool `json:"kept,omitempty"`
	// Outer: through the struct-level handle (Builder.Struct) this builder handed out first in
	// the history, kept in a variable ever since — also across Reset; methods only. It names the
	// same configuration as a fresh Struct(..) lookup.
	Outer bool `json:"outer,omitempty"`
}

func (o Op) String() string {
	switch o.K {
	case KReset:
		return fmt.Sprintf("b%d.Reset", o.B)
	case KPkg:
		return fmt.Sprintf("b%d.Pkg(hw)", o.B)
	}
	h := ""
	if o.Retained {
		h = "[retained]"
	}
	if o.Kept {
		h = "[kept]"
	}
	if o.Outer {
		h = "[via the first Struct() handle]"
	}
	return fmt.Sprintf("b%d.%s%s.%s", o.B, TargetNames[o.T], h, KindNames[o.K])
}

// OpsString renders a history.
func OpsString(ops []Op) string {
	s := make([]string, len(ops))
	for i, o := range ops {
		s[i] = o.String()
	}
	return strings.Join(s, "; ")
}

// ---------------------------------------------------------------------------------------------
// real world

type handle struct {
	exported   mocker.ExportedMocker   // Func / Struct.Method / (As applied lazily)
	unexported mocker.UnExportedMocker // ExportMethod / ExportFunc
	iface      mocker.InterfaceMocker
}

// World is the real library state of one history.
type World struct {
	B       [2]*mocker.Builder
	handles [2][NTargets]*handle
	kept    [2][NTargets]*handle
	outer   [2]*mocker.CachedMethodMocker
	nAs     int
	nRet    [2][NTargets]int
	nWhen   [2][NTargets]int
	og      func(int) int
	og1     func(int) int
}

// NewWorld creates fresh builders.
func NewWorld() *World {
	w := &World{og: hw.OG, og1: hw.OF1}
	w.B[0] = mocker.Create()
	w.B[1] = mocker.Create()
	return w
}

func (w *World) lookup(b int, t Target) *handle {
	bd := w.B[b]
	h := &handle{}
	if (t == TM || t == TLm || t == TLm2) && w.outer[b] == nil {
		w.outer[b] = bd.Struct(&hw.S{})
	}
	switch t {
	case TF0:
		h.exported = bd.Func(hw.F0)
	case TF1:
		h.exported = bd.Func(hw.F1)
	case TG:
		h.exported = bd.Func(hw.G)
	case TM:
		h.exported = bd.Struct(&hw.S{}).Method("M")
	case TLm:
		h.unexported = bd.Struct(&hw.S{}).ExportMethod("m")
	case TLm2:
		h.unexported = bd.Struct(&hw.S{}).ExportMethod("m2")
	case TLoop:
		h.exported = bd.Func(hw.Loop)
	case TG2hw, TG2own:
		// which g2 is resolved depends on the builder's package override (model decides t)
		h.unexported = bd.ExportFunc("g2")
	case TXA:
		h.iface = bd.Interface(&hw.X).Method("A")
	case TXB:
		h.iface = bd.Interface(&hw.X).Method("B")
	case TGen:
		h.exported = bd.Func(hw.GenInt)
	case TVv:
		h.exported = bd.Struct(hw.V{}).Method("ValM")
	case TVp:
		h.exported = bd.Struct(&hw.V{}).Method("PtrM")
	}
	w.handles[b][t] = h
	if w.kept[b][t] == nil {
		w.kept[b][t] = h
	}
	return h
}

func asFunc(t Target) interface{} {
	if t == TLm || t == TLm2 {
		return func(s *hw.S, a int) int { return 0 }
	}
	return func(a int) int { return 0 }
}

// Do executes op on the real library; a panic is returned as text.
func (w *World) Do(op Op) (panicMsg string, panicked bool) {
	return vk.Try(func() {
		bd := w.B[op.B]
		switch op.K {
		case KReset:
			bd.Reset()
			w.handles[op.B] = [NTargets]*handle{}
			return
		case KPkg:
			bd.Pkg(hw.Pkg)
			return
		}
		var h *handle
		if op.Outer && w.outer[op.B] != nil && (op.T == TM || op.T == TLm || op.T == TLm2) {
			h = &handle{}
			switch op.T {
			case TM:
				h.exported = w.outer[op.B].Method("M")
			case TLm:
				h.unexported = w.outer[op.B].ExportMethod("m")
			default:
				h.unexported = w.outer[op.B].ExportMethod("m2")
			}
			w.handles[op.B][op.T] = h
		} else if op.Kept && w.kept[op.B][op.T] != nil {
			h = w.kept[op.B][op.T]
		} else if op.Retained && w.handles[op.B][op.T] != nil {
			h = w.handles[op.B][op.T]
		} else {
			h = w.lookup(op.B, op.T)
		}
		t := op.T
		// the three faces of a handle
		var em mocker.ExportedMocker
		switch {
		case h.exported != nil:
			em = h.exported
		case h.unexported != nil:
			if op.K == KReturn || op.K == KWhenReturn {
				em = h.unexported.As(asFunc(t))
			}
		case h.iface != nil:
			if op.K == KReturn || op.K == KWhenReturn {
				// the method's signature is given by a func literal written at the call site: two
				// call sites give two function values of one type
				w.nAs++
				if w.nAs%2 == 1 {
					em = h.iface.As(func(ctx *mocker.IContext, a int) int { return 0 })
				} else {
					em = h.iface.As(func(ctx *mocker.IContext, a int) int { return -1 })
				}
			}
		}
		switch op.K {
		case KApplyA, KApplyB:
			add := 10000
			if op.K == KApplyB {
				add = 20000
			}
			switch {
			case t == TVv:
				h.exported.Apply(func(v hw.V, a int) int { return a + add })
			case t == TVp:
				h.exported.Apply(func(v *hw.V, a int) int { return a + add })
			case t == TM || t == TLm || t == TLm2:
				cb := func(s *hw.S, a int) int { return a + add }
				if h.exported != nil {
					h.exported.Apply(cb)
				} else {
					h.unexported.Apply(cb)
				}
			case t == TXA || t == TXB:
				h.iface.Apply(func(ctx *mocker.IContext, a int) int { return a + add })
			case h.exported != nil:
				h.exported.Apply(func(a int) int { return a + add })
			default:
				h.unexported.Apply(func(a int) int { return a + add })
			}
		case KApplyO:
			if t == TF1 {
				h.exported.Origin(&w.og1).Apply(func(a int) int {
					if vk.InCallAlready() {
						return bigStack(func() int { return w.og1(a) })
					}
					return bigStack(func() int { return w.og1(a) }) + 30000
				})
			} else {
				h.exported.Origin(&w.og).Apply(func(a int) int {
					if vk.InCallAlready() {
						return bigStack(func() int { return w.og(a) })
					}
					return bigStack(func() int { return w.og(a) }) + 30000
				})
			}
		case KApplyORefused:
			o := hw.OLoop
			_, refused := vk.Try(func() {
				h.exported.Origin(&o).Apply(func(a int) int { return o(a) + 30000 })
			})
			if !refused {
				panic("an apply with an origin placeholder on a function whose first 13 bytes are a branch target was accepted")
			}
		case KReturn:
			v := 700 + w.nRet[op.B][t]
			w.nRet[op.B][t]++
			em.Return(v)
		case KWhenReturn:
			v := 800 + w.nWhen[op.B][t]
			w.nWhen[op.B][t]++
			if t == TLm || t == TLm2 {
				// As() yields a function-style mocker: the receiver is an ordinary first parameter
				em.When(anyArg(), 1).Return(v)
			} else {
				em.When(1).Return(v)
			}
		case KCancel:
			switch {
			case h.exported != nil:
				h.exported.Cancel()
			case h.unexported != nil:
				h.unexported.Cancel()
			default:
				h.iface.Cancel()
			}
			w.handles[op.B][op.T] = nil
		}
	})
}

// Cleanup resets both builders (panics ignored) and clears the interface variable.
func (w *World) Cleanup() {
	vk.Try(func() { w.B[0].Reset() })
	vk.Try(func() { w.B[1].Reset() })
	hw.X = nil
}

// Obs is one probe result.
type Obs struct {
	Val   int
	Panic string
}

func (o Obs) String() string {
	if o.Panic != "" {
		return "panic(" + vk.Short(o.Panic, 60) + ")"
	}
	return fmt.Sprint(o.Val)
}

// Probe calls target t with argument a.
func Probe(t Target, a int) Obs {
	var v int
	msg, p := vk.Try(func() { v = Call(t, a) })
	if p {
		return Obs{0, msg}
	}
	return Obs{v, ""}
}

// ProbeArgs is the probe sequence issued on every target after the last step of a history.
var ProbeArgs = []int{2, 1, 2, 1, 9}

func pcOG() uintptr { return reflect.ValueOf(hw.OG).Pointer() }

//go:noinline
func growStack(n int) int {
	var b [256]byte
	b[n%256] = byte(n)
	if n == 0 {
		return int(b[0])
	}
	return growStack(n-1) + int(b[n%256])
}

// bigStack runs f with plenty of stack below it, so that an origin call never runs near the
// stack guard (that behaviour is C03's known finding and must not leak into other properties).
func bigStack(f func() int) int {
	growStack(96)
	return f()
}

// PlaceholderRanges are the extents of the origin placeholders (G's and F1's).
func PlaceholderRanges() []vk.Range {
	lo, hi := vk.FuncExtentFast(pcOG())
	lo1, hi1 := vk.FuncExtentFast(reflect.ValueOf(hw.OF1).Pointer())
	return []vk.Range{{Lo: lo, Hi: hi}, {Lo: lo1, Hi: hi1}}
}

// PlaceholderRange is the extent of G's origin placeholder.
func PlaceholderRange() vk.Range {
	lo, hi := vk.FuncExtentFast(pcOG())
	return vk.Range{Lo: lo, Hi: hi}
}
