package hworld

import (
	"fmt"

	"github.com/tencent/goom/arg"
)

func anyArg() interface{} { return arg.Any() }

// Cfg is what one builder has configured for one target in the current epoch (since the last
// Cancel/Reset of that builder on that target).
type Cfg struct {
	Kind    int    // 0 none, 1 callback, 2 stub
	CB      Kind   // KApplyA | KApplyB | KApplyO
	Def     []int  // default sequence
	Clauses [][]int // clauses on argument 1, in registration order, each with its sequence
}

// Model is the reference model of a history.
type Model struct {
	Cfg      [2][NTargets]Cfg
	Dirty    [NTargets]bool // two builders have had a configuration on the target at the same time
	PkgOver  [2]bool        // builder has a pending package override
	nRet     [2][NTargets]int
	nWhen    [2][NTargets]int
	OriginOn bool // the placeholder OG has been handed to Origin at least once
	// Touched[t] is set when the last operation reset/cancelled target t for some builder.
	JustRestored [NTargets]bool
	// Ever[b][t]: builder b has configured t at some point of the history.
	Ever [2][NTargets]bool
	// HasHandle[b][t]: a handle from a lookup in the current epoch exists (for retained use).
	HasHandle [2][NTargets]bool
	// KeptOK[b][t]: the handle of the first lookup exists and has not been superseded by a fresh
	// lookup made while the mocker was cancelled (which creates a new mocker in the builder).
	KeptOK    [2][NTargets]bool
	firstSeen [2][NTargets]bool
	cancelled [2][NTargets]bool // the builder's current mocker for t carries the cancelled flag
	zombie    [2][NTargets]bool // re-applied through the kept handle after a Cancel/Reset
	outerSeen [2]bool           // the builder has been asked for Struct(&S{}) (a struct-level handle exists)
	// loopTainted[b]: builder b's mocker of Loop went through a refused origin apply; what the mocker
	// object remembers of that attempt is not specified, so b leaves Loop alone until its next Reset
	loopTainted [2]bool
}

// Resolve maps the g2 targets according to the builder's pending override.
func (m *Model) Resolve(op Op) Target {
	if op.T == TG2hw || op.T == TG2own {
		if m.PkgOver[op.B] {
			return TG2hw
		}
		return TG2own
	}
	return op.T
}

// Enabled tells whether op is in the well-formed alphabet in the current state.
func (m *Model) Enabled(op Op) bool {
	switch op.K {
	case KReset, KPkg:
		return true
	case KApplyO:
		if op.T != TG && op.T != TF1 {
			return false
		}
	case KApplyORefused:
		// only while nobody mocks Loop (goom unpatches a live mock before it tries the new one, and what
		// a refusal then leaves of the old mock is C13's subject); the builder's own mocker must be fresh
		// or cancelled, and the handle is a fresh lookup
		if op.T != TLoop || op.Retained || op.Kept || op.Outer || len(m.Owners(TLoop)) > 0 {
			return false
		}
	}
	if op.T == TLoop && (op.K == KApplyO || m.loopTainted[op.B]) {
		return false
	}
	t := m.Resolve(op)
	c := &m.Cfg[op.B][t]
	if op.Kept && (!m.KeptOK[op.B][op.T] || op.K > KApplyO || op.Retained) {
		return false
	}
	if op.Outer && (op.Kept || op.Retained || (op.T != TM && op.T != TLm && op.T != TLm2) || !m.outerSeen[op.B]) {
		return false // the struct-level handle exists once Struct(..) has been asked for
	}
	if !op.Kept && m.zombie[op.B][op.T] {
		// after a re-apply through a kept, cancelled handle a fresh lookup would create a second
		// mocker for the same target; which of the two a later Cancel addresses is not specified
		return false
	}
	if op.Retained && (!m.HasHandle[op.B][op.T] || op.K == KCancel) {
		return false // a retained handle exists only after a lookup in the same epoch
	}
	if op.K == KReturn && c.Kind == 2 && len(c.Clauses) > 0 {
		return false // bare Return after a clause exists: not in any alphabet (DESIGN §3.7)
	}
	if op.T == TG2hw || op.T == TG2own {
		// one symbolic op "ExportFunc(g2)": only the TG2own spelling is enumerated
		return op.T == TG2own
	}
	return true
}

// Owners returns the builders that currently have a configuration on t.
func (m *Model) Owners(t Target) []int {
	var o []int
	for b := 0; b < 2; b++ {
		if m.Cfg[b][t].Kind != 0 {
			o = append(o, b)
		}
	}
	return o
}

// Do applies op to the model.
func (m *Model) Do(op Op) {
	for i := range m.JustRestored {
		m.JustRestored[i] = false
	}
	switch op.K {
	case KReset:
		for t := Target(0); t < NTargets; t++ {
			if m.Cfg[op.B][t].Kind != 0 {
				m.JustRestored[t] = true
			} else if m.Ever[op.B][t] && len(m.Owners(t)) > 0 {
				// a repeated Reset by a builder that mocked t earlier, while another builder mocks
				// it now: the statement does not say who wins
				m.Dirty[t] = true
			}
			m.Cfg[op.B][t] = Cfg{}
			m.HasHandle[op.B][t] = false
			if m.firstSeen[op.B][t] {
				m.cancelled[op.B][t] = true
			}
			m.zombie[op.B][t] = false
			m.clean(t)
		}
		m.loopTainted[op.B] = false
		return
	case KPkg:
		m.PkgOver[op.B] = true
		return
	}
	t := m.Resolve(op)
	if op.T == TM || op.T == TLm || op.T == TLm2 {
		m.outerSeen[op.B] = true
	}
	if !op.Retained && !op.Kept {
		if !op.Outer {
			m.PkgOver[op.B] = false // every lookup through the builder consumes the override
		}
		if !m.firstSeen[op.B][op.T] {
			m.firstSeen[op.B][op.T], m.KeptOK[op.B][op.T] = true, true
		} else if m.cancelled[op.B][op.T] {
			// a fresh lookup of a cancelled mocker creates a new one: the kept handle is orphaned
			m.KeptOK[op.B][op.T] = false
		}
		m.cancelled[op.B][op.T] = false
	}
	if op.Kept && m.cancelled[op.B][op.T] {
		m.zombie[op.B][op.T] = true
	}
	if op.K == KCancel {
		m.cancelled[op.B][op.T] = true
	}
	m.HasHandle[op.B][op.T] = op.K != KCancel
	if op.K == KApplyORefused {
		m.loopTainted[op.B] = true
		m.HasHandle[op.B][op.T] = false
	}
	c := &m.Cfg[op.B][t]
	switch op.K {
	case KApplyA, KApplyB, KApplyO:
		*c = Cfg{Kind: 1, CB: op.K}
		if op.K == KApplyO {
			m.OriginOn = true
		}
	case KReturn:
		v := 700 + m.nRet[op.B][op.T]
		m.nRet[op.B][op.T]++
		if c.Kind != 2 {
			*c = Cfg{Kind: 2}
		}
		c.Def = append(c.Def, v)
	case KWhenReturn:
		v := 800 + m.nWhen[op.B][op.T]
		m.nWhen[op.B][op.T]++
		if c.Kind != 2 {
			*c = Cfg{Kind: 2}
		}
		c.Clauses = append(c.Clauses, []int{v})
	case KCancel:
		if c.Kind != 0 {
			m.JustRestored[t] = true
		} else if m.Ever[op.B][t] && len(m.Owners(t)) > 0 {
			m.Dirty[t] = true
		}
		*c = Cfg{}
		// cancelling one method of the interface variable: what becomes of the sibling method's mock is not
		// settled by the statements (goom restores the whole variable)
		if sib := map[Target]Target{TXA: TXB, TXB: TXA}[t]; (t == TXA || t == TXB) && len(m.Owners(sib)) > 0 {
			m.Dirty[sib] = true
		}
	}
	if c.Kind != 0 {
		m.Ever[op.B][t] = true
	}
	if len(m.Owners(t)) > 1 {
		m.Dirty[t] = true
	}
	m.clean(t)
}

func (m *Model) clean(t Target) {
	if t == TXA || t == TXB {
		// the two methods belong to one variable: the variable is the target builders compete for
		own := map[int]bool{}
		for _, b := range append(m.Owners(TXA), m.Owners(TXB)...) {
			own[b] = true
		}
		if len(own) > 1 {
			// two builders have configured the variable at the same time: the statements do not order them
			m.Dirty[TXA], m.Dirty[TXB] = true, true
		}
		if len(own) == 0 {
			m.Dirty[TXA], m.Dirty[TXB] = false, false
		}
		return
	}
	if len(m.Owners(t)) == 0 {
		m.Dirty[t] = false
	}
}

// Judged tells whether the behaviour of t is determined by the statements.
func (m *Model) Judged(t Target) bool {
	// (a method of the interface variable that is not mocked while its sibling is answers as C07 says: a
	// 'method not implements' panic - see Expect; after a Cancel of the sibling it is Dirty)
	if (t == TXA || t == TXB) && m.Dirty[map[Target]Target{TXA: TXB, TXB: TXA}[t]] && len(m.Owners(t)) == 0 {
		return false
	}
	if (t == TXA || t == TXB) && m.Dirty[t] {
		return false // the variable has been configured by two builders at once, or a sibling was cancelled
	}
	if m.JustRestored[t] {
		return true
	}
	return !m.Dirty[t] && len(m.Owners(t)) <= 1
}

// Expect predicts the probe sequence on target t (ProbeArgs) as strings; "panic:<substr>" for an
// expected panic.
func (m *Model) Expect(t Target) []string {
	out := make([]string, len(ProbeArgs))
	var c *Cfg
	if !m.JustRestored[t] {
		if o := m.Owners(t); len(o) == 1 {
			c = &m.Cfg[o[0]][t]
		}
	}
	curD := 0
	curC := make([]int, 8)
	for i, a := range ProbeArgs {
		switch {
		case c == nil || c.Kind == 0:
			if sib := map[Target]Target{TXA: TXB, TXB: TXA}[t]; (t == TXA || t == TXB) && len(m.Owners(sib)) > 0 {
				out[i] = "panic:not implements" // the variable holds the mock of the sibling method
			} else if t == TXA || t == TXB {
				out[i] = "panic:nil pointer"
			} else {
				out[i] = fmt.Sprint(OrigOf(t, a))
			}
		case c.Kind == 1:
			switch c.CB {
			case KApplyA:
				out[i] = fmt.Sprint(a + 10000)
			case KApplyB:
				out[i] = fmt.Sprint(a + 20000)
			case KApplyO:
				out[i] = fmt.Sprint(OrigOf(t, a) + 30000)
			}
		default:
			if a == 1 && len(c.Clauses) > 0 {
				seq := c.Clauses[0]
				k := curC[0]
				if k >= len(seq) {
					k = len(seq) - 1
				}
				curC[0]++
				out[i] = fmt.Sprint(seq[k])
			} else if len(c.Def) > 0 {
				k := curD
				if k >= len(c.Def) {
					k = len(c.Def) - 1
				}
				curD++
				out[i] = fmt.Sprint(c.Def[k])
			} else {
				out[i] = "panic:no suitable condition"
			}
		}
	}
	return out
}
