// Package c12 — within a builder the most recent instruction for a target wins.
//
// Engine H: every well-formed history ≤ d of lookups (fresh and through a retained handle)
// combined with Apply / Return / When..Return / Cancel / Reset / Pkg on a function, a method,
// an interface method and an unexported function (resolved by package), against the
// last-writer-wins reference model; every target is probed after the last step.
package c12

import (
	"fmt"

	hwd "verifh/hworld"
	"verifh/vk"
)

var targets = []hwd.Target{hwd.TF0, hwd.TG, hwd.TM, hwd.TXA, hwd.TXB, hwd.TG2own, hwd.TG2hw, hwd.TVv, hwd.TVp, hwd.TLm, hwd.TLm2}

const ownPkg = "verifh/hworld"

func alphabet() []hwd.Op {
	var a []hwd.Op
	add := func(t hwd.Target, retained bool, ks ...hwd.Kind) {
		for _, k := range ks {
			a = append(a, hwd.Op{B: 0, T: t, K: k, Retained: retained})
		}
	}
	add(hwd.TF0, false, hwd.KApplyA, hwd.KApplyB, hwd.KReturn, hwd.KWhenReturn, hwd.KCancel)
	add(hwd.TF0, true, hwd.KApplyA, hwd.KReturn, hwd.KWhenReturn)
	a = append(a, hwd.Op{B: 0, T: hwd.TF0, K: hwd.KApplyB, Kept: true}) // re-apply through a handle kept across Cancel/Reset
	add(hwd.TM, false, hwd.KApplyA, hwd.KReturn, hwd.KWhenReturn, hwd.KCancel)
	for _, k := range []hwd.Kind{hwd.KApplyA, hwd.KReturn, hwd.KWhenReturn} {
		a = append(a, hwd.Op{B: 0, T: hwd.TM, K: k, Outer: true}) // through the struct-level handle of the first Struct(..) lookup
	}
	// two unexported methods of one struct
	add(hwd.TLm, false, hwd.KApplyA, hwd.KReturn)
	add(hwd.TLm2, false, hwd.KReturn)
	// one type through a value instance and through a pointer instance
	add(hwd.TVv, false, hwd.KApplyA, hwd.KReturn)
	add(hwd.TVp, false, hwd.KReturn)
	add(hwd.TXA, false, hwd.KApplyA, hwd.KReturn, hwd.KWhenReturn, hwd.KCancel)
	add(hwd.TXA, true, hwd.KReturn)
	// a second method of the same interface variable, with the same signature
	add(hwd.TXB, false, hwd.KReturn, hwd.KWhenReturn)
	add(hwd.TG2own, false, hwd.KApplyA, hwd.KReturn, hwd.KCancel)
	// a function with an origin placeholder: the callback that calls the original is itself superseded and supersedes
	add(hwd.TG, false, hwd.KApplyO, hwd.KApplyA, hwd.KReturn)
	a = append(a, hwd.Op{B: 0, K: hwd.KReset}, hwd.Op{B: 0, K: hwd.KPkg})
	return a
}

func check(w *hwd.World, m *hwd.Model, hist []hwd.Op) (fail string, judged, unjudged int) {
	f, j, u := hwd.Behaviour(w, m, targets)
	if f != "" {
		return f, j, u
	}
	want := ownPkg
	if m.PkgOver[0] {
		want = "verifh/targets/hw"
	}
	j++
	if got := w.B[0].PkgName(); got != want {
		return fmt.Sprintf("pkg: builder's package is %q after the history, expected %q (an override applies to the next lookup only)", got, want), j, u
	}
	return "", j, u
}

// Run is the worker entry point.
func Run(c *vk.Ctx) {
	hwd.Init()
	if c.Replay != "" {
		var cs hwd.Case
		c.LoadReplay(&cs)
		f, _, _ := hwd.Run(cs.Ops, check)
		fmt.Printf("replay %s\nresult: %s\n", hwd.OpsString(cs.Ops), orOK(f))
		if f != "" {
			c.Violate("replay", f, cs)
		}
		c.Finish()
		return
	}
	depth := 4
	if c.Thorough() {
		depth = 5
	}
	alpha := alphabet()
	var idx int64
	hwd.Enumerate(alpha, depth, func(hist []hwd.Op) bool {
		if c.Full() || c.Expired() {
			return false
		}
		mine := c.Mine(idx)
		idx++
		if !mine {
			return true
		}
		f, j, u := hwd.Run(hist, check)
		c.Res.Evaluations += int64(j)
		c.Res.Unjudged += int64(u)
		c.Res.Traces++
		c.Res.States++
		c.Res.Transitions += int64(len(hist))
		n := 0
		for _, o := range hist {
			if o.K <= hwd.KWhenReturn {
				n++
			}
		}
		if n >= 2 {
			c.Res.Nontrivial++
		}
		if idx%997 == 1 {
			c.Sample(hwd.Case{Ops: hist, Text: hwd.OpsString(hist)})
		}
		if f != "" {
			min, g := hwd.Minimize1(hist, check, hwd.Class)
			c.Violate(fmt.Sprintf("hist=[%s] class=%s", hwd.OpsString(min), hwd.Class(g)), g, hwd.Case{Ops: min, Text: hwd.OpsString(min)})
		}
		return true
	})
	c.Res.Extra["depth"] = depth
	c.Res.Extra["alphabet"] = len(alpha)
	c.Finish()
}

func orOK(s string) string {
	if s == "" {
		return "conforms"
	}
	return s
}
