//go:build amd64

package iface

// In-package export for property C15 (presented by the build overlay as
// internal/iface/zz_verif_c15.go; nothing is written under the repository).

// VerifC15JmpWithRdx exposes jmpWithRdx.
func VerifC15JmpWithRdx(dx uintptr) []byte { return jmpWithRdx(dx) }
