package patch

import "fmt"

// VerifC03Fix calls the (pure) prologue relocation; a panic counts as a refusal.
func VerifC03Fix(from uintptr, code []byte, tramp uintptr, funcSize, least int) (fixed []byte, n int, err error) {
	defer func() {
		if r := recover(); r != nil {
			err = fmt.Errorf("panic: %v", r)
		}
	}()
	return fixRelativeAddr(from, code, tramp, funcSize, least)
}

// VerifC03JumpBack emits the jump appended after the relocated prologue.
func VerifC03JumpBack(from, to uintptr) []byte { return jmpToOriginFunctionValue(from, to) }
