//go:build amd64

package patch

// In-package exports for property C15 (presented by the build overlay as
// internal/patch/zz_verif_c15.go; nothing is written under the repository).

// VerifC15JmpToFunctionValue exposes jmpToFunctionValue.
func VerifC15JmpToFunctionValue(from, to uintptr) []byte { return jmpToFunctionValue(from, to) }

// VerifC15JmpToOriginFunctionValue exposes jmpToOriginFunctionValue.
func VerifC15JmpToOriginFunctionValue(from, to uintptr) []byte {
	return jmpToOriginFunctionValue(from, to)
}

// VerifC15Relative exposes relative.
func VerifC15Relative(from, to uintptr) bool { return relative(from, to) }

// VerifC15CheckAlreadyPatch exposes checkAlreadyPatch (the NOP marker test).
func VerifC15CheckAlreadyPatch(code []byte) bool { return checkAlreadyPatch(code) }
