//go:build amd64

package patch

// In-package exports for property C14 (presented by the build overlay as
// internal/patch/zz_verif_c14.go; nothing is written under the repository).

// VerifC14JumpLen is the length of the entry jump goom writes (taken from the emitter itself).
func VerifC14JumpLen() int { return len(jmpToFunctionValue(0, 0)) }

// VerifC14ArchMod is the decode mode genJumpData hands to bytecode.GetFuncSize.
func VerifC14ArchMod() int { return defaultArchMod }

// VerifC14Patches is the number of entries in the patch registry.
func VerifC14Patches() int {
	lock()
	defer unlock()
	return len(patches)
}
