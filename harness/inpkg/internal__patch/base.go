package patch

// VerifBaseJumpLen is the length of the entry jump goom writes (asked from the emitter).
func VerifBaseJumpLen() int { return len(jmpToFunctionValue(0, 0)) }
