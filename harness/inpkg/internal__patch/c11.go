package patch

// VerifC11ForgetPatches empties the patch table without touching memory (the harness restores
// the image itself after an aborted execution).
func VerifC11ForgetPatches() {
	for k := range patches {
		delete(patches, k)
	}
}

// VerifC11PatchCount returns the number of registered patches.
func VerifC11PatchCount() int { return len(patches) }
