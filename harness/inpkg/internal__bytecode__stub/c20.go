package stub

// VerifC20Bounds returns the fallback reserve's bounds and current offset.
func VerifC20Bounds() (min, max, off uintptr) {
	return placeHolderIns.min, placeHolderIns.max, placeHolderIns.off
}

// VerifC20SetOff resets the bump pointer (between explored executions).
func VerifC20SetOff(off uintptr) { placeHolderIns.off = off }

// VerifC20AcquireFromHolder calls the fallback allocator directly.
func VerifC20AcquireFromHolder(n int) (uintptr, *[]byte, error) { return acquireFromHolder(n) }

// VerifC20Type exposes the space type.
func VerifC20Type(s *Space) int { return s.typ }
