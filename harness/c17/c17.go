// Package c17 — the bundled arm64 decoder is total and agrees with the reference decoder.
//
// Engine E: goom's arm64asm.Decode (through the bridge package zzverif/c17) and the vendored
// reference decoder (verifh/ref/arm64asm, the Go toolchain's copy) are run on instruction words.
//
//	thorough: every one of the 2^32 words (65536 blocks of 2^16 consecutive words, block b is
//	          executed by shard b mod nshards) — complete, exhaustive:true;
//	quick   : every word w with w mod 257 == VERIF_SEED mod 257, plus the PC-relative classes
//	          (see branchClasses) — declared exhaustive:false.
//
// Judged on every word: no panic in Decode, no panic in Inst.String() of a decoded instruction.
// Judged on every word outside the frozen SYS class (w & sysMask == sysVal): same decodability,
// same opcode (by mnemonic string), and at every argument position a PC-relative argument in
// one decoder is a PC-relative argument with the same displacement in the other.
// Inside the SYS class only totality is judged (counted under unjudged).
package c17

import (
	"encoding/binary"
	"fmt"
	"sort"
	"strconv"

	g "github.com/tencent/goom/zzverif/c17"
	ref "verifh/ref/arm64asm"
	"verifh/vk"
)

// The excluded class, frozen. goom's copy of the decoder stubs out the system-instruction
// alias table (sys_op_4 always answers "plain SYS"; the DC and TLBI operand decoders are two
// "TODO: system instruction" stubs that return nil), so inside the SYS encoding space
// (1101 0101 0000 1 op1 CRn CRm op2 Rt, L=0) it leaves words undecoded that the reference decodes.
// Determined from a complete 2^32 run with the tighter of the two candidate masks
// {0xFFF80000 (SYS), 0xFFD80000 (SYS+SYSL)}: 0 disagreements outside w&0xFFF80000==0xD5080000
// (so none in the SYSL half 0xD5280000 either), 2927 inside it — 896 words the reference
// decodes as DC and 2031 as TLBI, goom "unknown instruction" on all of them, i.e. exactly the
// two stubs. It is a constant of the harness: a change in goom cannot widen it.
const (
	sysMask uint32 = 0xFFF80000
	sysVal  uint32 = 0xD5080000
)

const residueMod = 257

// Case is the replayable artefact.
type Case struct {
	Word  string `json:"word"` // 0x%08x
	Field string `json:"field,omitempty"`
	Goom  string `json:"goom,omitempty"`
	Ref   string `json:"ref,omitempty"`
}

type group struct {
	word uint32
	desc string
	cs   Case
}

const (
	phDecode = iota
	phString
	phRef
	phCompare
)

type checker struct {
	c      *vk.Ctx
	buf    [4]byte
	cur    uint32
	phase  int
	groups map[string]*group

	words, compared, sys, sysDis, gDecoded, rDecoded, calls, strCalls, pcrel int64
}

const maxGroups = 40

func (k *checker) full() bool { return len(k.groups) >= maxGroups }

func (k *checker) report(w uint32, field, goom, refs, desc string) {
	key := fmt.Sprintf("arm64 field=%s goom=%s ref=%s", field, goom, refs)
	gr := k.groups[key]
	if gr != nil && gr.word <= w {
		return
	}
	if gr == nil {
		if k.full() {
			return
		}
		gr = &group{}
		k.groups[key] = gr
	}
	gr.word = w
	gr.cs = Case{Word: fmt.Sprintf("0x%08x", w), Field: field, Goom: goom, Ref: refs}
	gr.desc = fmt.Sprintf("word 0x%08x: %s", w, desc)
}

// one runs both decoders on w and judges the outcome. A panic escapes to span().
func (k *checker) one(w uint32) {
	k.cur, k.phase = w, phDecode
	binary.LittleEndian.PutUint32(k.buf[:], w)
	k.words++
	gi, gerr := g.Decode(k.buf[:])
	k.calls++
	if gerr == nil {
		k.phase = phString
		_ = gi.String()
		k.strCalls++
		k.gDecoded++
	}
	k.phase = phRef
	ri, rerr := ref.Decode(k.buf[:])
	k.phase = phCompare
	if rerr == nil {
		k.rDecoded++
	}
	insys := w&sysMask == sysVal
	if insys {
		k.sys++
	} else {
		k.compared++
	}
	if (gerr == nil) != (rerr == nil) {
		if insys {
			k.sysDis++
			return
		}
		gs, rs := "undecodable", "undecodable"
		if gerr == nil {
			gs = gi.Op.String()
		}
		if rerr == nil {
			rs = ri.Op.String()
		}
		k.report(w, "decodable", gs, rs, fmt.Sprintf("goom Decode: %s, reference Decode: %s", orErr(gerr, gs), orErr(rerr, rs)))
		return
	}
	if gerr != nil {
		return
	}
	gs, rs := gi.Op.String(), ri.Op.String()
	if gs != rs {
		if insys {
			k.sysDis++
			return
		}
		k.report(w, "op", gs, rs, fmt.Sprintf("goom decodes %s, the reference decodes %s (%s)", gs, rs, ri.String()))
		return
	}
	if insys {
		return
	}
	for j := range gi.Args {
		gp, gok := gi.Args[j].(g.PCRel)
		rp, rok := ri.Args[j].(ref.PCRel)
		if !gok && !rok {
			continue
		}
		k.pcrel++
		if gok != rok {
			k.report(w, "pcrel", gs+argKind(gok, j), rs+argKind(rok, j),
				fmt.Sprintf("%s argument %d: PC-relative in goom=%v, in the reference=%v", rs, j, gok, rok))
			return
		}
		if int64(gp) != int64(rp) {
			k.report(w, "pcrel", gs, rs, fmt.Sprintf("%s argument %d: goom displacement %d, reference displacement %d", rs, j, int64(gp), int64(rp)))
			return
		}
	}
}

func argKind(pcrel bool, j int) string {
	if pcrel {
		return fmt.Sprintf("/arg%d=pcrel", j)
	}
	return fmt.Sprintf("/arg%d=other", j)
}

func orErr(err error, s string) string {
	if err != nil {
		return "error " + strconv.Quote(err.Error())
	}
	return s
}

// batch is a finite indexed family of words.
type batch struct {
	n    uint64
	word func(i uint64) uint32
	skip func(w uint32) bool // words already covered elsewhere (keeps the distinct counts exact)
}

// span runs b[from:to); a panic of the code under test is recorded and the loop resumes behind it.
func (k *checker) span(b *batch, from, to uint64) {
	for from < to {
		from = k.span1(b, from, to)
	}
}

func (k *checker) span1(b *batch, from, to uint64) (next uint64) {
	i := from
	defer func() {
		if r := recover(); r != nil {
			k.panicked(r)
			next = i + 1
		}
	}()
	for ; i < to; i++ {
		w := b.word(i)
		if b.skip != nil && b.skip(w) {
			continue
		}
		k.one(w)
	}
	return to
}

func (k *checker) panicked(r interface{}) {
	msg := vk.Short(fmt.Sprint(r), 80)
	switch k.phase {
	case phDecode:
		k.calls++
		k.report(k.cur, "panic-decode", strconv.Quote(msg), "-", "goom Decode panicked: "+msg)
	case phString:
		k.strCalls++
		k.gDecoded++
		k.report(k.cur, "panic-string", strconv.Quote(msg), "-", "Inst.String() of the instruction goom decoded panicked: "+msg)
	default:
		vk.Fatalf("the reference decoder or the harness panicked on word 0x%08x (phase %d): %v", k.cur, k.phase, r)
	}
}

// immList is the strided selection of an n-bit immediate field: every multiple of 2^7, 0..64,
// the 64 values below 2^n (−64..−1), and 2^(n−1)−64 .. 2^(n−1)+64 (the sign boundary, which
// contains both extremes of the signed range).
func immList(bits uint) []uint32 {
	set := map[uint32]struct{}{}
	top := uint32(1) << bits
	for v := uint32(0); v < top; v += 128 {
		set[v] = struct{}{}
	}
	for v := uint32(0); v <= 64; v++ {
		set[v] = struct{}{}
		set[top-1-v] = struct{}{}
		set[top/2+v] = struct{}{}
		set[top/2-1-v] = struct{}{}
	}
	l := make([]uint32, 0, len(set))
	for v := range set {
		l = append(l, v)
	}
	sort.Slice(l, func(i, j int) bool { return l[i] < l[j] })
	return l
}

type class struct {
	name    string
	batches []batch
}

// branchClasses are the PC-relative encoding classes of the quick tier. The fixed bit patterns of
// the classes and of the settings inside a class are pairwise different, so no word occurs twice.
func branchClasses() []class {
	full := func(base uint32, bits, shift uint) batch {
		return batch{n: 1 << bits, word: func(i uint64) uint32 { return base | uint32(i)<<shift }}
	}
	listed := func(base uint32, l []uint32, place func(v uint32) uint32) batch {
		return batch{n: uint64(len(l)), word: func(i uint64) uint32 { return base | place(l[i]) }}
	}
	var cs []class
	// B.cond: 0101 0100 imm19 o0 cond — four conditions, plus o0=1 (not an ARMv8.0 encoding)
	bc := class{name: "B.cond"}
	for _, low := range []uint32{0x0, 0x1, 0xe, 0xf, 0x10} {
		bc.batches = append(bc.batches, full(0x54000000|low, 19, 5))
	}
	cs = append(cs, bc)
	// CBZ/CBNZ: sf 011010 op imm19 Rt
	for _, op := range []uint32{0, 1} {
		cl := class{name: []string{"CBZ", "CBNZ"}[op]}
		for _, s := range [][2]uint32{{0, 0}, {1, 1}, {0, 30}, {1, 31}} {
			cl.batches = append(cl.batches, full(0x34000000|op<<24|s[0]<<31|s[1], 19, 5))
		}
		cs = append(cs, cl)
	}
	// LDR (literal) family: opc 011 V 00 imm19 Rt — all eight (opc,V) including PRFM and the unallocated one
	ll := class{name: "LDR-literal"}
	for _, s := range [][3]uint32{{0, 0, 0}, {1, 0, 1}, {2, 0, 30}, {3, 0, 31}, {0, 1, 0}, {1, 1, 5}, {2, 1, 31}, {3, 1, 0}} {
		ll.batches = append(ll.batches, full(0x18000000|s[0]<<30|s[1]<<26|s[2], 19, 5))
	}
	cs = append(cs, ll)
	// TBZ/TBNZ: b5 011011 op b40 imm14 Rt
	for _, op := range []uint32{0, 1} {
		cl := class{name: []string{"TBZ", "TBNZ"}[op]}
		for _, s := range [][3]uint32{{0, 0, 0}, {0, 31, 1}, {1, 0, 30}, {1, 31, 31}} {
			cl.batches = append(cl.batches, full(0x36000000|op<<24|s[0]<<31|s[1]<<19|s[2], 14, 5))
		}
		cs = append(cs, cl)
	}
	// B/BL: op 00101 imm26
	l26 := immList(26)
	for _, op := range []uint32{0, 1} {
		cs = append(cs, class{name: []string{"B", "BL"}[op], batches: []batch{
			listed(0x14000000|op<<31, l26, func(v uint32) uint32 { return v }),
		}})
	}
	// ADR/ADRP: op immlo 10000 immhi Rd, imm21 = immhi:immlo
	l21 := immList(21)
	for _, op := range []uint32{0, 1} {
		cl := class{name: []string{"ADR", "ADRP"}[op]}
		for _, rd := range []uint32{0, 31} {
			cl.batches = append(cl.batches, listed(0x10000000|op<<31|rd, l21, func(v uint32) uint32 { return (v&3)<<29 | (v>>2)<<5 }))
		}
		cs = append(cs, cl)
	}
	return cs
}

// branchMember is the membership predicate of the words enumerated by branchClasses.
func branchMember() func(w uint32) bool {
	in := func(l []uint32) map[uint32]bool {
		m := make(map[uint32]bool, len(l))
		for _, v := range l {
			m[v] = true
		}
		return m
	}
	l26, l21 := in(immList(26)), in(immList(21))
	return func(w uint32) bool {
		rt := w & 31
		switch {
		case w&0xFF000000 == 0x54000000:
			return rt == 0 || rt == 1 || rt == 0xe || rt == 0xf || rt == 0x10
		case w&0x7E000000 == 0x34000000:
			sf := w >> 31
			return sf == 0 && (rt == 0 || rt == 30) || sf == 1 && (rt == 1 || rt == 31)
		case w&0x3B000000 == 0x18000000:
			opc, v := w>>30, w>>26&1
			for _, s := range [][3]uint32{{0, 0, 0}, {1, 0, 1}, {2, 0, 30}, {3, 0, 31}, {0, 1, 0}, {1, 1, 5}, {2, 1, 31}, {3, 1, 0}} {
				if s[0] == opc && s[1] == v && s[2] == rt {
					return true
				}
			}
			return false
		case w&0x7E000000 == 0x36000000:
			b5, b40 := w>>31, w>>19&31
			for _, s := range [][3]uint32{{0, 0, 0}, {0, 31, 1}, {1, 0, 30}, {1, 31, 31}} {
				if s[0] == b5 && s[1] == b40 && s[2] == rt {
					return true
				}
			}
			return false
		case w&0x7C000000 == 0x14000000:
			return l26[w&0x3FFFFFF]
		case w&0x1F000000 == 0x10000000:
			return (rt == 0 || rt == 31) && l21[(w>>5&0x7FFFF)<<2|w>>29&3]
		}
		return false
	}
}

// runPatterns lists the 21-bit values that consist of at most maxRuns runs of equal bits
// (0…01…1, 1…10…01…1, …): every field of the low 21 bits at all-zeros / all-ones, in all
// combinations of up to maxRuns field boundaries.
func runPatterns(maxRuns int) []uint32 {
	set := map[uint32]struct{}{}
	var rec func(pos uint, bit uint32, runs int, v uint32)
	rec = func(pos uint, bit uint32, runs int, v uint32) {
		if pos == 21 {
			set[v] = struct{}{}
			return
		}
		// continue the current run
		rec(pos+1, bit, runs, v|bit<<pos)
		if pos > 0 && runs < maxRuns {
			rec(pos+1, bit^1, runs+1, v|(bit^1)<<pos)
		}
	}
	rec(0, 0, 1, 0)
	rec(0, 1, 1, 0)
	l := make([]uint32, 0, len(set))
	for v := range set {
		l = append(l, v)
	}
	sort.Slice(l, func(i, j int) bool { return l[i] < l[j] })
	return l
}

// structuredClasses are the further complete sub-spaces of the quick tier: the whole
// system-instruction space (hints, barriers, PSTATE, SYS/SYSL, MSR/MRS — dense with special
// cases) and, for every value of the 11 opcode bits 31..21, every low-21-bit value made of at
// most 4 runs of equal bits (register fields at 0 / 31, immediates at 0 / all-ones, in all
// combinations).
func structuredClasses() []class {
	pats := runPatterns(4)
	np := uint64(len(pats))
	return []class{
		{name: "system-space", batches: []batch{{n: 1 << 22, word: func(i uint64) uint32 { return 0xD5000000 | uint32(i) }}}},
		{name: "field-boundary-patterns", batches: []batch{{n: 2048 * np, word: func(i uint64) uint32 { return uint32(i/np)<<21 | pats[i%np] }}}},
	}
}

// Run is the worker entry point.
func Run(c *vk.Ctx) {
	k := &checker{c: c, groups: map[string]*group{}}
	if c.Replay != "" {
		var cs Case
		c.LoadReplay(&cs)
		w, err := strconv.ParseUint(cs.Word, 0, 32)
		if err != nil {
			vk.Fatalf("bad word %q", cs.Word)
		}
		b := batch{n: 1, word: func(uint64) uint32 { return uint32(w) }}
		k.span(&b, 0, 1)
		binary.LittleEndian.PutUint32(k.buf[:], uint32(w))
		ri, rerr := ref.Decode(k.buf[:])
		fmt.Printf("replay word=0x%08x in_sys_class=%v reference: %s\n", w, uint32(w)&sysMask == sysVal, orErr(rerr, ri.String()))
		if msg, p := vk.Try(func() {
			gi, gerr := g.Decode(k.buf[:])
			fmt.Printf("goom     : %s\n", orErr(gerr, gi.Op.String()))
			if gerr == nil {
				fmt.Printf("goom text: %s\n", gi.String())
			}
		}); p {
			fmt.Printf("goom     : panic %s\n", msg)
		}
		if len(k.groups) == 0 {
			fmt.Println("result: conforms")
		}
		for _, gr := range k.groups {
			fmt.Println("result: " + gr.desc)
			c.Violate("replay", gr.desc, gr.cs)
		}
		c.Finish()
		return
	}

	var idx int64
	expired := false
	runBatch := func(b *batch, blk uint64) {
		for lo := uint64(0); lo < b.n; lo += blk {
			if !expired && !k.full() && c.Expired() {
				expired = true
			}
			mine := !expired && !k.full() && c.Mine(idx)
			idx++
			if !mine {
				continue
			}
			hi := lo + blk
			if hi > b.n {
				hi = b.n
			}
			c.Sample(Case{Word: fmt.Sprintf("0x%08x", b.word(lo))})
			k.span(b, lo, hi)
		}
	}

	var nResidue, nBranch int64
	if c.Thorough() {
		all := batch{n: 1 << 32, word: func(i uint64) uint32 { return uint32(i) }}
		runBatch(&all, 1<<16)
		c.Res.Extra["space"] = "all 2^32 words"
	} else {
		r := uint32(((c.Seed % residueMod) + residueMod) % residueMod)
		n := (uint64(1)<<32-1-uint64(r))/residueMod + 1
		res := batch{n: n, word: func(i uint64) uint32 { return r + uint32(i)*residueMod }}
		runBatch(&res, 1<<12)
		nResidue = k.words
		inRes := func(w uint32) bool { return w%residueMod == r }
		for _, cl := range branchClasses() {
			before := k.words
			for i := range cl.batches {
				b := cl.batches[i]
				b.skip = inRes
				runBatch(&b, 1<<12)
			}
			c.Res.Extra["n_class_"+cl.name] = k.words - before
		}
		nBranch = k.words - nResidue
		inBranch := branchMember()
		for ci, cl := range structuredClasses() {
			before := k.words
			ci := ci
			for i := range cl.batches {
				b := cl.batches[i]
				b.skip = func(w uint32) bool { return inRes(w) || inBranch(w) || ci == 1 && w>>22 == 0x354 }
				runBatch(&b, 1<<12)
			}
			c.Res.Extra["n_class_"+cl.name] = k.words - before
		}
		c.Res.Exhaustive = false
		c.Res.Extra["space"] = fmt.Sprintf("words = %d mod %d, plus PC-relative classes, the system-instruction space 0xD5000000-0xD53FFFFF and opcode bits x low-21-bit run patterns", r, residueMod)
		c.Res.Extra["residue"] = r
	}

	keys := make([]string, 0, len(k.groups))
	for key := range k.groups {
		keys = append(keys, key)
	}
	sort.Strings(keys)
	for _, key := range keys {
		c.Violate(key, k.groups[key].desc, k.groups[key].cs)
	}
	c.Res.Evaluations = k.compared
	c.Res.Unjudged = k.sys
	c.Res.States = k.words
	c.Res.Traces = k.words
	c.Res.Transitions = k.calls + k.strCalls
	c.Res.Nontrivial = k.gDecoded
	c.Res.Extra["n_words"] = k.words
	c.Res.Extra["n_residue_words"] = nResidue
	c.Res.Extra["n_branch_class_words"] = nBranch
	c.Res.Extra["n_sys_class_words"] = k.sys
	c.Res.Extra["n_sys_class_disagreements_not_judged"] = k.sysDis
	c.Res.Extra["n_goom_decoded"] = k.gDecoded
	c.Res.Extra["n_ref_decoded"] = k.rDecoded
	c.Res.Extra["n_goom_decode_calls"] = k.calls
	c.Res.Extra["n_goom_string_calls"] = k.strCalls
	c.Res.Extra["n_pcrel_args_compared"] = k.pcrel
	c.Res.Extra["sys_class"] = fmt.Sprintf("w & 0x%08X == 0x%08X", sysMask, sysVal)
	c.Finish()
}
