package main

import (
	"verifh/c01"
	"verifh/vk"
)

func main() { c01.Run(vk.Parse()) }
