package main

import (
	"verifh/c03"
	"verifh/vk"
)

func main() { c03.Run(vk.Parse()) }
