package main

import (
	"verifh/c13"
	"verifh/vk"
)

func main() { c13.Run(vk.Parse()) }
