package main

import (
	"verifh/c02"
	"verifh/vk"
)

func main() { c02.Run(vk.Parse()) }
