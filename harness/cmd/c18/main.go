package main

import (
	"verifh/c18"
	"verifh/vk"
)

func main() { c18.Run(vk.Parse()) }
