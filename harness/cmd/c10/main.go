package main

import (
	"verifh/c10"
	"verifh/vk"
)

func main() { c10.Run(vk.Parse()) }
