package main

import (
	"verifh/c14"
	"verifh/vk"
)

func main() { c14.Run(vk.Parse()) }
