package main

import (
	"verifh/c05"
	"verifh/vk"
)

func main() { c05.Run(vk.Parse()) }
