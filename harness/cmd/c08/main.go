package main

import (
	"verifh/c08"
	"verifh/vk"
)

func main() { c08.Run(vk.Parse()) }
