package main

import (
	"verifh/c15arm"
	"verifh/vk"
)

func main() { c15arm.Run(vk.Parse()) }
