package main

import (
	"verifh/c16"
	"verifh/vk"
)

func main() { c16.Run(vk.Parse()) }
