package main

import (
	"verifh/c20bb"
	"verifh/vk"
)

func main() { c20bb.Run(vk.Parse()) }
