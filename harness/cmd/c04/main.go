package main

import (
	"verifh/c04"
	"verifh/vk"
)

func main() { c04.Run(vk.Parse()) }
