package main

import (
	"verifh/c19"
	"verifh/vk"
)

func main() { c19.Run(vk.Parse()) }
