package main

import (
	"verifh/c06"
	"verifh/vk"
)

func main() { c06.Run(vk.Parse()) }
