package main

import (
	"verifh/c12"
	"verifh/vk"
)

func main() { c12.Run(vk.Parse()) }
