package main

import (
	"verifh/c15"
	"verifh/vk"
)

func main() { c15.Run(vk.Parse()) }
