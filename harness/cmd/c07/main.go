package main

import (
	"verifh/c07"
	"verifh/vk"
)

func main() { c07.Run(vk.Parse()) }
