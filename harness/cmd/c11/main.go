package main

import (
	"verifh/c11"
	"verifh/vk"
)

func main() { c11.Run(vk.Parse()) }
