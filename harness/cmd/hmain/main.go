// Command hmain is the worker binary for the checks that run on the plain (non-shimmed) build.
package main

import (
	"verifh/c08"
	"verifh/vk"
)

var props = map[string]func(*vk.Ctx){
	"C08": c08.Run,
}

func main() {
	c := vk.Parse()
	f, ok := props[c.Prop]
	if !ok {
		vk.Fatalf("unknown property %q", c.Prop)
	}
	f(c)
}
