package main

import (
	"verifh/c10"
	"verifh/targets/cgoon"
	"verifh/vk"
)

func main() {
	if !cgoon.On() {
		vk.Fatalf("cgo not linked")
	}
	c10.Run(vk.Parse())
}
