package main

import (
	"verifh/c17"
	"verifh/vk"
)

func main() { c17.Run(vk.Parse()) }
