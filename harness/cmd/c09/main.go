package main

import (
	"verifh/c09"
	"verifh/vk"
)

func main() { c09.Run(vk.Parse()) }
