package main

import (
	"verifh/c20"
	"verifh/vk"
)

func main() { c20.Run(vk.Parse()) }
