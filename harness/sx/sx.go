// Package sx glues the controlled scheduler (zzverif/sched) to the worker kit: determinism
// guards, counter-example confirmation, statistics.
package sx

import (
	"encoding/json"
	"fmt"
	"sort"
	"strings"

	"github.com/tencent/goom/zzverif/sched"
	"verifh/vk"
)

// Config of one exploration.
type Config struct {
	Scenario sched.Scenario
	Bound    int  // preemption bound (<0 unbounded)
	Cache    bool // state caching (unbounded only)
	// Outcome renders the observable outcome of an execution (no addresses); used for the
	// determinism guard and the distinct-outcome count.
	Outcome func(x *sched.Execution) string
	// Key is the canonical identity of a violation of this scenario (without the schedule).
	Key string
	// Case builds the replay artefact from the failing schedule.
	Case func(schedule []int) interface{}
	// ShardTop distributes top-level branches over the worker shards.
	ShardTop bool
	// NoteDeath: record every schedule prefix in the side file before it runs, so that a schedule
	// that kills the process is known to the driver (the case carries "__key").
	NoteDeath bool
}

// Result of one exploration.
type Result struct {
	Stats    sched.Stats
	Outcomes map[string]int64
	Failure  string
	Schedule []int
}

// Explore runs the scenario within the bound and records statistics and violations in c.
// It returns false if exploration should stop (violation list full or budget expired).
func Explore(c *vk.Ctx, cfg Config) (Result, bool) {
	res := Result{Outcomes: map[string]int64{}}
	e := &sched.Explorer{Bound: cfg.Bound, Cache: cfg.Cache}
	if cfg.ShardTop {
		e.Shard, e.NShards, e.ShardDepth = c.Shard, c.NShards, 1
	}
	e.Stop = func() bool { return c.Expired() }
	if cfg.NoteDeath {
		e.BeforeExec = func(prefix []int) {
			b, _ := json.Marshal(map[string]interface{}{"__key": cfg.Key, "case": cfg.Case(prefix)})
			c.Note(string(b))
		}
	}
	guard := 0
	e.OnExec = func(x *sched.Execution, failure string) bool {
		out := ""
		if cfg.Outcome != nil {
			out = cfg.Outcome(x)
			res.Outcomes[out]++
		}
		if strings.HasPrefix(failure, "DIVERGENCE") {
			vk.Fatalf("scheduler divergence in %s: %s (schedule %v)", cfg.Scenario.Name, failure, x.Choices)
		}
		// determinism guard: the first 50 schedules are executed twice
		if guard < 50 {
			guard++
			y, f2 := sched.RunOnce(cfg.Scenario, x.Choices, false)
			o2 := ""
			if cfg.Outcome != nil {
				o2 = cfg.Outcome(y)
			}
			// (a schedule that fails the same way both times is left to the confirmation below even if the two
			// runs passed different scheduling points: state left behind by the failure itself may do that)
			if (f2 != failure || o2 != out || fmt.Sprint(y.Choices) != fmt.Sprint(x.Choices)) && !(failure != "" && f2 == failure) {
				vk.Fatalf("non-deterministic replay in %s: schedule %v gave (%q,%q) then (%q,%q)", cfg.Scenario.Name, x.Choices, failure, out, f2, o2)
			}
		}
		if failure != "" && res.Failure == "" {
			// confirm 5x before believing it
			for i := 0; i < 5; i++ {
				_, f2 := sched.RunOnce(cfg.Scenario, x.Choices, false)
				if f2 != failure {
					vk.Fatalf("counter-example not reproducible in %s: schedule %v gave %q then %q", cfg.Scenario.Name, x.Choices, failure, f2)
				}
			}
			res.Failure = failure
			res.Schedule = append([]int(nil), x.Choices...)
			return false // first counter-example has the fewest deviations on this DFS path; stop this scenario
		}
		return true
	}
	e.Explore(cfg.Scenario)
	res.Stats = e.Stats
	c.Res.Evaluations += e.Stats.Executions
	c.Res.Traces += e.Stats.Executions
	c.Res.Transitions += e.Stats.Points
	c.Res.Nontrivial += e.Stats.WithPreemption
	c.Res.States += int64(e.Stats.DistinctStates)
	if !cfg.Cache {
		c.Res.States += e.Stats.Executions // stateless search: one distinct schedule per execution
	}
	if !e.Stats.Complete && res.Failure == "" {
		c.Res.Exhaustive = false
	}
	if res.Failure != "" {
		full := c.Violate(cfg.Key+" class="+Class(res.Failure), fmt.Sprintf("%s: %s (schedule %v, %d preemptions)", cfg.Scenario.Name, res.Failure, res.Schedule, countPre(cfg, res.Schedule)), cfg.Case(res.Schedule))
		return res, !full
	}
	return res, !c.TimedOut
}

func countPre(cfg Config, schedule []int) int {
	x, _ := sched.RunOnce(cfg.Scenario, schedule, false)
	return x.Preemptions()
}

// Class reduces a failure message to a stable class (no numbers that vary with addresses).
func Class(f string) string {
	f = strings.SplitN(f, "\n", 2)[0]
	if i := strings.Index(f, ":"); i > 0 && i < 40 {
		return strings.TrimSpace(f[:i])
	}
	if len(f) > 40 {
		f = f[:40]
	}
	return f
}

// OutcomeSummary renders the outcome histogram deterministically.
func OutcomeSummary(m map[string]int64) []string {
	keys := make([]string, 0, len(m))
	for k := range m {
		keys = append(keys, k)
	}
	sort.Strings(keys)
	out := make([]string, 0, len(keys))
	for _, k := range keys {
		out = append(out, fmt.Sprintf("%s x%d", k, m[k]))
	}
	return out
}
