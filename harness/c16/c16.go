// Package c16 — the bundled x86-64 decoder is total and exact on compiler-emitted code.
//
// Engine E. goom's x86asm.Decode (through the bridge package zzverif/c16) against
//
//	agreement: the vendored reference decoder (verifh/ref/x86asm, the Go toolchain's copy) on every
//	           instruction of the text of the harness binary itself and of Go toolchain binaries,
//	           walked function by function (pclntab), instruction boundaries from the reference:
//	           Len, Op (mnemonic string), PCRel and PCRelOff must be equal;
//	totality : the invariants of the property statement on three enumerated spaces, every buffer
//	           decoded at 16 bytes and truncated to every shorter length (16,15,…,0):
//	           (1) every 1-/2-byte head (thorough: 3-byte head) × 4 tails;
//	           (2) every single-byte substitution inside every distinct corpus encoding (padded with 25…);
//	           (3) (thorough) every distinct corpus encoding behind 1 or 2 prefix bytes.
//
// Invariants: no panic; success ⇒ 1 ≤ Len ≤ min(15,len(src)), PCRel ∈ {0,1,2,4,8},
// PCRel>0 ⇒ PCRelOff>0 ∧ PCRelOff+PCRel ≤ Len; error ⇒ no instruction is reported, a length that
// comes with the error must still be within 0..min(15,len(src)).
package c16

import (
	"bytes"
	"debug/elf"
	"debug/gosym"
	"encoding/hex"
	"fmt"
	"os"
	"os/exec"
	"path/filepath"
	"regexp"
	"runtime"
	"sort"
	"strings"

	g "github.com/tencent/goom/zzverif/c16"
	ref "verifh/ref/x86asm"
	"verifh/vk"
)

// Case is the replayable artefact.
type Case struct {
	Space string `json:"space"`           // agree | heads | subst | prefix
	Bytes string `json:"bytes,omitempty"` // hex of the exact decoder input
	Field string `json:"field,omitempty"`
	Goom  string `json:"goom,omitempty"`
	Ref   string `json:"ref,omitempty"`
	Where string `json:"where,omitempty"` // first corpus occurrence (diagnostics only)
}

type group struct {
	src  []byte
	desc string
	cs   Case
}

const maxGroups = 40

type checker struct {
	c      *vk.Ctx
	groups map[string]*group

	agreeCmp, totalDecodes, totalOK, totalErr, totalBuffers int64
	refFailFuncs, funcs, instrs, pcrelInstr                 int64
}

func (k *checker) full() bool { return len(k.groups) >= maxGroups }

func smaller(a, b []byte) bool {
	if len(a) != len(b) {
		return len(a) < len(b)
	}
	return bytes.Compare(a, b) < 0
}

func (k *checker) report(space string, src []byte, key, field, goom, refs, desc, where string) {
	gr := k.groups[key]
	if gr != nil && !smaller(src, gr.src) {
		return
	}
	if gr == nil {
		if k.full() {
			return
		}
		gr = &group{}
		k.groups[key] = gr
	}
	gr.src = append([]byte(nil), src...)
	gr.cs = Case{Space: space, Bytes: hex.EncodeToString(src), Field: field, Goom: goom, Ref: refs, Where: where}
	gr.desc = fmt.Sprintf("bytes %s: %s", hex.EncodeToString(src), desc)
}

// decode calls goom's decoder, converting a panic into a value.
func decode(src []byte) (inst g.Inst, err error, pmsg string, panicked bool) {
	defer func() {
		if r := recover(); r != nil {
			panicked = true
			pmsg = fmt.Sprint(r)
		}
	}()
	inst, err = g.Decode(src, 64)
	return
}

var digits = regexp.MustCompile(`[0-9]+`)

// invariant judges one decoder result against the statement; "" = holds.
func invariant(inst *g.Inst, err error, n int) (name, desc string) {
	max := n
	if max > 15 {
		max = 15
	}
	if err != nil {
		if inst.Len < 0 || inst.Len > max {
			return "len-with-error", fmt.Sprintf("error %q comes with Len=%d for %d supplied bytes", err.Error(), inst.Len, n)
		}
		return "", ""
	}
	if inst.Len < 1 || inst.Len > max {
		return "len-range", fmt.Sprintf("decoded %s with Len=%d for %d supplied bytes (allowed 1..%d)", inst.Op.String(), inst.Len, n, max)
	}
	switch inst.PCRel {
	case 0:
		return "", ""
	case 1, 2, 4, 8:
	default:
		return "pcrel-width", fmt.Sprintf("decoded %s with PCRel=%d", inst.Op.String(), inst.PCRel)
	}
	if inst.PCRelOff <= 0 || inst.PCRelOff+inst.PCRel > inst.Len {
		return "pcrel-inside", fmt.Sprintf("decoded %s with PCRel=%d PCRelOff=%d Len=%d: the PC-relative field is not inside the instruction", inst.Op.String(), inst.PCRel, inst.PCRelOff, inst.Len)
	}
	return "", ""
}

// total runs goom on src and judges totality.
func (k *checker) total(space string, src []byte) {
	k.totalDecodes++
	inst, err, pmsg, panicked := decode(src)
	if panicked {
		cls := digits.ReplaceAllString(vk.Short(pmsg, 70), "#")
		k.report(space, src, fmt.Sprintf("x86 total panic=%q", cls), "panic", pmsg, "", "goom Decode panicked: "+pmsg, "")
		return
	}
	if err == nil {
		k.totalOK++
	} else {
		k.totalErr++
	}
	if name, desc := invariant(&inst, err, len(src)); name != "" {
		k.report(space, src, fmt.Sprintf("x86 total inv=%s op=%s", name, inst.Op.String()), name, fmt.Sprintf("Len=%d PCRel=%d PCRelOff=%d", inst.Len, inst.PCRel, inst.PCRelOff), "", desc, "")
	}
}

// allLens decodes buf (16 bytes) at every length 16..0.
func (k *checker) allLens(space string, buf []byte) { k.lensFrom(space, buf, 0) }

// lensFrom decodes buf at every length 16..min.
func (k *checker) lensFrom(space string, buf []byte, min int) {
	k.totalBuffers++
	for n := len(buf); n >= min; n-- {
		k.total(space, buf[:n])
	}
}

// agree compares goom with the reference result ri on the window src.
func (k *checker) agree(src []byte, ri *ref.Inst, im *image, f *fn, pos int) {
	k.agreeAt(src, ri, func() string { return fmt.Sprintf("%s:%s+%#x", imageName(im.path), f.name, pos-f.lo) })
}

func (k *checker) agreeAt(src []byte, ri *ref.Inst, where func() string) {
	k.agreeCmp++
	inst, err, pmsg, panicked := decode(src)
	rop := ri.Op.String()
	if panicked {
		cls := digits.ReplaceAllString(vk.Short(pmsg, 70), "#")
		k.report("agree", src, fmt.Sprintf("x86 agree panic=%q op=%s", cls, rop), "panic", pmsg, rop, "goom Decode panicked: "+pmsg, where())
		return
	}
	refs := func() string {
		return fmt.Sprintf("%s Len=%d PCRel=%d PCRelOff=%d", rop, ri.Len, ri.PCRel, ri.PCRelOff)
	}
	if err != nil {
		k.report("agree", src, fmt.Sprintf("x86 agree field=decodable op=%s goom=error ref=ok", rop), "decodable", "error "+err.Error(), refs(),
			fmt.Sprintf("goom fails with %q on an instruction the reference decodes as %s", err.Error(), refs()), where())
		return
	}
	if name, desc := invariant(&inst, err, len(src)); name != "" {
		k.report("agree", src, fmt.Sprintf("x86 total inv=%s op=%s", name, inst.Op.String()), name, "", refs(), desc, where())
	}
	gop := inst.Op.String()
	cmp := func(field string, differ bool, gv, rv interface{}) {
		if differ {
			k.report("agree", src, fmt.Sprintf("x86 agree field=%s op=%s goom=%v ref=%v", field, rop, gv, rv), field, fmt.Sprint(gv), fmt.Sprint(rv),
				fmt.Sprintf("%s differs: goom %s Len=%d PCRel=%d PCRelOff=%d, reference %s", field, gop, inst.Len, inst.PCRel, inst.PCRelOff, refs()), where())
		}
	}
	cmp("Len", inst.Len != ri.Len, inst.Len, ri.Len)
	cmp("Op", gop != rop, gop, rop)
	cmp("PCRel", inst.PCRel != ri.PCRel, inst.PCRel, ri.PCRel)
	cmp("PCRelOff", inst.PCRelOff != ri.PCRelOff, inst.PCRelOff, ri.PCRelOff)
}

// ---- corpus ----

type fn struct {
	lo, hi int
	name   string
}

type image struct {
	path  string
	base  uint64
	text  []byte
	funcs []fn
}

func loadImage(path string) *image {
	f, err := elf.Open(path)
	if err != nil {
		vk.Fatalf("corpus %s: %v", path, err)
	}
	defer f.Close()
	ts, ps := f.Section(".text"), f.Section(".gopclntab")
	if ts == nil || ps == nil {
		vk.Fatalf("corpus %s: no .text/.gopclntab section", path)
	}
	text, err := ts.Data()
	if err != nil {
		vk.Fatalf("corpus %s: %v", path, err)
	}
	pcln, err := ps.Data()
	if err != nil {
		vk.Fatalf("corpus %s: %v", path, err)
	}
	var symdat []byte
	if ss := f.Section(".gosymtab"); ss != nil {
		symdat, _ = ss.Data()
	}
	tab, err := gosym.NewTable(symdat, gosym.NewLineTable(pcln, ts.Addr))
	if err != nil {
		vk.Fatalf("corpus %s: pclntab: %v", path, err)
	}
	im := &image{path: path, base: ts.Addr, text: text}
	for i := range tab.Funcs {
		fu := &tab.Funcs[i]
		if fu.Entry < ts.Addr || fu.End > ts.Addr+uint64(len(text)) || fu.End <= fu.Entry {
			continue
		}
		im.funcs = append(im.funcs, fn{int(fu.Entry - ts.Addr), int(fu.End - ts.Addr), fu.Name})
	}
	sort.Slice(im.funcs, func(i, j int) bool { return im.funcs[i].lo < im.funcs[j].lo })
	if len(im.funcs) < 100 {
		vk.Fatalf("corpus %s: only %d functions found", path, len(im.funcs))
	}
	return im
}

func imageName(path string) string {
	if path == "/proc/self/exe" {
		return "harness"
	}
	return filepath.Base(path)
}

func goroot() string {
	if out, err := exec.Command("go", "env", "GOROOT").Output(); err == nil && strings.TrimSpace(string(out)) != "" {
		return strings.TrimSpace(string(out))
	}
	if r := os.Getenv("GOROOT"); r != "" {
		return r
	}
	return runtime.GOROOT()
}

func corpusPaths(thorough bool) []string {
	root := goroot()
	tool := filepath.Join(root, "pkg", "tool", runtime.GOOS+"_"+runtime.GOARCH)
	p := []string{"/proc/self/exe", filepath.Join(root, "bin", "go")}
	if thorough {
		p = append(p, filepath.Join(root, "bin", "gofmt"))
		for _, t := range []string{"compile", "link", "asm", "cover", "vet"} {
			p = append(p, filepath.Join(tool, t))
		}
	}
	return p
}

type enc [16]byte // bytes 0..14 instruction, byte 15 = length

func mkEnc(b []byte) (e enc) {
	copy(e[:15], b)
	e[15] = byte(len(b))
	return
}

func (e *enc) bytes() []byte { return e[:e[15]] }

var tails = []byte{0x00, 0xff, 0x25, 0x8d}

// prefix bytes of space 3: legacy groups 1-4, REX, and the VEX escapes
var prefixBytes = func() []byte {
	p := []byte{0xf0, 0xf2, 0xf3, 0x2e, 0x36, 0x3e, 0x26, 0x64, 0x65, 0x66, 0x67}
	for b := 0x40; b <= 0x4f; b++ {
		p = append(p, byte(b))
	}
	return append(p, 0xc4, 0xc5)
}()

const substMod = 16 // quick: encodings with sorted index ≡ VERIF_SEED mod substMod

const substPad = 0x25 // filler behind a corpus encoding in space 2 (as ModRM/SIB it asks for a disp32)

// Run is the worker entry point.
func Run(c *vk.Ctx) {
	k := &checker{c: c, groups: map[string]*group{}}
	if c.Replay != "" {
		replay(c, k)
		return
	}
	thorough := c.Thorough()
	var idx int64
	expired := false
	mine := func() bool {
		if !expired && !k.full() && c.Expired() {
			expired = true
		}
		m := !expired && !k.full() && c.Mine(idx)
		idx++
		return m
	}

	// ---- agreement: walk the corpus; every shard walks all of it with the reference (the set of
	// distinct encodings must be the same in every shard), goom is compared on this shard's functions.
	distinct := map[enc]struct{}{}
	var corpusDesc []string
	var nfuncs, ninstr int64
	for _, path := range corpusPaths(thorough) {
		im := loadImage(path)
		var imInstr int64
		for fi := range im.funcs {
			f := &im.funcs[fi]
			my := mine()
			if my {
				k.funcs++
				if fi%256 == 0 {
					c.Sample(Case{Space: "agree", Where: imageName(im.path) + ":" + f.name})
				}
			}
			nfuncs++
			for pos := f.lo; pos < f.hi; {
				end := pos + 16
				if end > len(im.text) {
					end = len(im.text)
				}
				src := im.text[pos:end]
				ri, rerr := ref.Decode(src, 64)
				// Op==0 without an error is the decoder's "bare prefix byte" answer for an encoding it does
				// not know (e.g. VEX forms missing from the tables): the reference cannot decode it either.
				if rerr != nil || ri.Op == 0 || ri.Len <= 0 || pos+ri.Len > f.hi {
					if my {
						k.refFailFuncs++
					}
					break
				}
				distinct[mkEnc(src[:ri.Len])] = struct{}{}
				imInstr++
				if my {
					k.instrs++
					if ri.PCRel > 0 {
						k.pcrelInstr++
					}
					k.agree(src, &ri, im, f, pos)
				}
				pos += ri.Len
			}
		}
		ninstr += imInstr
		corpusDesc = append(corpusDesc, fmt.Sprintf("%s:%d funcs,%d instrs", imageName(im.path), len(im.funcs), imInstr))
	}
	encs := make([]enc, 0, len(distinct))
	for e := range distinct {
		encs = append(encs, e)
	}
	distinct = nil
	sort.Slice(encs, func(i, j int) bool {
		a, b := encs[i].bytes(), encs[j].bytes()
		return bytes.Compare(a, b) < 0
	})
	runtime.GC()

	// distinct encodings are attributed to shards by sorted index, so the sums are exact
	var myDistinct, myDistinctOK int64
	for ei := range encs {
		if c.NShards > 1 && ei%c.NShards != c.Shard {
			continue
		}
		myDistinct++
		if _, err, _, p := decode(encs[ei].bytes()); err == nil && !p {
			myDistinctOK++
		}
	}

	// ---- totality space 1: heads × tails
	var buf [16]byte
	headBlock := func(head []byte) { // head = fixed leading bytes, the next byte runs over 0..255
		if !mine() {
			return
		}
		h := len(head)
		copy(buf[:], head)
		for b := 0; b < 256; b++ {
			buf[h] = byte(b)
			for _, t := range tails {
				for i := h + 1; i < 16; i++ {
					buf[i] = t
				}
				k.allLens("heads", buf[:])
			}
		}
	}
	headBlock(nil)
	for a := 0; a < 256; a++ {
		headBlock([]byte{byte(a)})
	}
	if thorough {
		for a := 0; a < 256; a++ {
			for b := 0; b < 256; b++ {
				headBlock([]byte{byte(a), byte(b)})
			}
		}
	}
	nHeads := k.totalBuffers

	// ---- totality space 2: single-byte substitutions in distinct corpus encodings
	sel := int(((c.Seed % substMod) + substMod) % substMod)
	var nSubstEnc int64
	for ei := range encs {
		if !thorough && ei%substMod != sel {
			continue
		}
		if !mine() {
			continue
		}
		nSubstEnc++
		e := encs[ei].bytes()
		if nSubstEnc%4096 == 1 {
			c.Sample(Case{Space: "subst", Bytes: hex.EncodeToString(e)})
		}
		copy(buf[:], e)
		for i := len(e); i < 16; i++ {
			buf[i] = substPad
		}
		k.allLens("subst", buf[:]) // the unmodified encoding
		for p := range e {
			for v := 1; v < 256; v++ {
				buf[p] = e[p] ^ byte(v)
				// a truncation to p bytes or fewer does not contain the substituted byte: it is one of
				// the inputs of the unmodified encoding above, so only lengths 16..p+1 are new inputs
				k.lensFrom("subst", buf[:], p+1)
			}
			buf[p] = e[p]
		}
	}
	nSubst := k.totalBuffers - nHeads

	// ---- totality space 3: prefixes (thorough)
	var nPrefEnc int64
	if thorough {
		put := func(pre []byte, e []byte) {
			n := copy(buf[:], pre)
			n += copy(buf[n:], e)
			for i := n; i < 16; i++ {
				buf[i] = 0
			}
			k.allLens("prefix", buf[:])
		}
		for ei := range encs {
			if !mine() {
				continue
			}
			nPrefEnc++
			e := encs[ei].bytes()
			for _, p1 := range prefixBytes {
				put([]byte{p1}, e)
				for _, p2 := range prefixBytes {
					put([]byte{p1, p2}, e)
				}
			}
		}
	}
	nPref := k.totalBuffers - nHeads - nSubst

	// ---- totality space 4: runs of legacy prefixes (1..15 bytes: one prefix repeated, or two
	// alternating) followed by every byte value, then the tails — the bookkeeping of the prefix array
	legacy := prefixBytes[:11]
	runBlock := func(run []byte) {
		if !mine() {
			return
		}
		h := copy(buf[:], run)
		if h >= 16 {
			return
		}
		for b := 0; b < 256; b++ {
			buf[h] = byte(b)
			for _, t := range tails {
				for i := h + 1; i < 16; i++ {
					buf[i] = t
				}
				k.allLens("prefix-runs", buf[:])
			}
		}
	}
	for n := 1; n <= 15; n++ {
		run := make([]byte, n)
		for i, p := range legacy {
			for j := range run {
				run[j] = p
			}
			runBlock(run)
			for _, q := range legacy[i+1:] {
				for j := range run {
					run[j] = p
					if j%2 == 1 {
						run[j] = q
					}
				}
				runBlock(run)
			}
		}
	}
	nRuns := k.totalBuffers - nHeads - nSubst - nPref

	keys := make([]string, 0, len(k.groups))
	for key := range k.groups {
		keys = append(keys, key)
	}
	sort.Strings(keys)
	for _, key := range keys {
		c.Violate(key, k.groups[key].desc, k.groups[key].cs)
	}
	if !thorough {
		c.Res.Exhaustive = false // space 2 runs on a residue class of the encodings, the corpus is two binaries
	}
	c.Res.Evaluations = k.agreeCmp + k.totalDecodes
	c.Res.Transitions = k.agreeCmp + k.totalDecodes + myDistinct
	c.Res.Traces = k.agreeCmp + k.totalDecodes
	c.Res.States = myDistinct
	c.Res.Nontrivial = myDistinctOK
	x := c.Res.Extra
	x["corpus"] = strings.Join(corpusDesc, "; ")
	x["corpus_functions"] = nfuncs
	x["corpus_instructions"] = ninstr
	x["corpus_distinct_encodings"] = len(encs)
	x["n_agree_functions"] = k.funcs
	x["n_agree_functions_cut_short_reference_cannot_decode"] = k.refFailFuncs
	x["n_agree_instructions_compared"] = k.agreeCmp
	x["n_agree_pcrel_instructions"] = k.pcrelInstr
	x["n_distinct_encodings"] = myDistinct
	x["n_distinct_encodings_goom_decodes"] = myDistinctOK
	x["n_total_decodes"] = k.totalDecodes
	x["n_total_decodes_ok"] = k.totalOK
	x["n_total_decodes_error"] = k.totalErr
	x["n_total_buffers_heads"] = nHeads
	x["n_total_buffers_subst"] = nSubst
	x["n_total_buffers_prefix"] = nPref
	x["n_total_buffers_prefix_runs"] = nRuns
	x["n_subst_encodings"] = nSubstEnc
	x["n_prefix_encodings"] = nPrefEnc
	if !thorough {
		x["subst_selection"] = fmt.Sprintf("encodings with sorted index = %d mod %d", sel, substMod)
	}
	c.Finish()
}

func replay(c *vk.Ctx, k *checker) {
	var cs Case
	c.LoadReplay(&cs)
	src, err := hex.DecodeString(cs.Bytes)
	if err != nil {
		vk.Fatalf("bad bytes %q", cs.Bytes)
	}
	ri, rerr := ref.Decode(src, 64)
	fmt.Printf("replay space=%s bytes=%s\nreference: ", cs.Space, cs.Bytes)
	if rerr != nil {
		fmt.Printf("error %v\n", rerr)
	} else {
		fmt.Printf("%s Len=%d PCRel=%d PCRelOff=%d (%s)\n", ri.Op.String(), ri.Len, ri.PCRel, ri.PCRelOff, ri.String())
	}
	inst, gerr, pmsg, p := decode(src)
	switch {
	case p:
		fmt.Printf("goom     : panic %s\n", pmsg)
	case gerr != nil:
		fmt.Printf("goom     : error %v (Len=%d)\n", gerr, inst.Len)
	default:
		fmt.Printf("goom     : %s Len=%d PCRel=%d PCRelOff=%d\n", inst.Op.String(), inst.Len, inst.PCRel, inst.PCRelOff)
	}
	if cs.Space == "agree" {
		if rerr != nil {
			vk.Fatalf("the reference cannot decode the recorded corpus instruction")
		}
		k.agreeAt(src, &ri, func() string { return cs.Where })
	} else {
		k.total(cs.Space, src)
	}
	if len(k.groups) == 0 {
		fmt.Println("result: conforms")
	}
	for _, gr := range k.groups {
		fmt.Println("result: " + gr.desc)
		c.Violate("replay", gr.desc, gr.cs)
	}
	c.Finish()
}
