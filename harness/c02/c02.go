// Package c02 — Reset/Cancel restores original behaviour and the exact original code bytes.
//
// Engine H: every well-formed history ≤ d of apply / re-apply / Return / When..Return /
// Origin+Apply / Cancel / Reset over function and method targets and two builders; after the
// last step of every history the whole text image is diffed against the pristine snapshot and
// every target is probed.
package c02

import (
	"fmt"

	zz "github.com/tencent/goom/zzverif/base"
	hwd "verifh/hworld"
	"verifh/vk"
)

var jumpLen = zz.JumpLen()

var patchTargets = []hwd.Target{hwd.TF0, hwd.TF1, hwd.TM, hwd.TLm, hwd.TG, hwd.TG2own, hwd.TG2hw, hwd.TLoop}

var behaviourTargets = append(append([]hwd.Target{}, patchTargets...), hwd.TXA, hwd.TXB, hwd.TGen)

func alphabet(thorough bool) []hwd.Op {
	var a []hwd.Op
	add := func(b int, t hwd.Target, ks ...hwd.Kind) {
		for _, k := range ks {
			a = append(a, hwd.Op{B: b, T: t, K: k})
		}
	}
	if !thorough {
		add(0, hwd.TF0, hwd.KApplyA, hwd.KApplyB, hwd.KReturn, hwd.KWhenReturn, hwd.KCancel)
		add(0, hwd.TM, hwd.KApplyA, hwd.KReturn, hwd.KCancel)
		add(0, hwd.TLm, hwd.KApplyA, hwd.KCancel)
		add(0, hwd.TG, hwd.KApplyO, hwd.KReturn, hwd.KCancel)
		add(1, hwd.TF0, hwd.KApplyA, hwd.KReturn, hwd.KCancel)
		add(1, hwd.TF1, hwd.KApplyA, hwd.KApplyO, hwd.KCancel) // a second function with its own origin placeholder
		add(0, hwd.TG2own, hwd.KApplyA, hwd.KCancel) // unexported function by name; own.g2 or, after Pkg, hw.g2
		add(0, hwd.TLoop, hwd.KApplyA, hwd.KApplyORefused) // a plain mock works, an apply with an origin placeholder must be refused
		add(0, hwd.TXA, hwd.KApplyA, hwd.KReturn) // an interface method: its stubs live outside the image, which must stay pristine however many are made
		add(0, hwd.TGen, hwd.KReturn, hwd.KCancel) // a generic instantiation (registered under its shape body, named through its wrapper)
		a = append(a, hwd.Op{B: 0, K: hwd.KPkg})
		a = append(a, hwd.Op{B: 0, T: hwd.TF0, K: hwd.KApplyA, Kept: true}, hwd.Op{B: 0, T: hwd.TM, K: hwd.KApplyA, Kept: true})
		a = append(a, hwd.Op{B: 0, K: hwd.KReset}, hwd.Op{B: 1, K: hwd.KReset})
		return a
	}
	for b := 0; b < 2; b++ {
		add(b, hwd.TF0, hwd.KApplyA, hwd.KApplyB, hwd.KReturn, hwd.KWhenReturn, hwd.KCancel)
		add(b, hwd.TM, hwd.KApplyA, hwd.KReturn, hwd.KCancel)
		add(b, hwd.TG, hwd.KApplyO, hwd.KApplyA, hwd.KReturn, hwd.KCancel)
		a = append(a, hwd.Op{B: b, K: hwd.KReset})
	}
	add(0, hwd.TLm, hwd.KApplyA, hwd.KReturn, hwd.KCancel)
	add(1, hwd.TF1, hwd.KApplyA, hwd.KApplyO, hwd.KCancel)
	add(0, hwd.TG2own, hwd.KApplyA, hwd.KReturn, hwd.KCancel)
	add(0, hwd.TLoop, hwd.KApplyA, hwd.KCancel, hwd.KApplyORefused)
	add(0, hwd.TXA, hwd.KApplyA, hwd.KReturn)
	add(0, hwd.TGen, hwd.KReturn, hwd.KCancel)
	// interface stubs requested by both builders, and a second method of the variable: a stub region must
	// never be handed to a second live owner, however often a builder that used it before is reset
	add(1, hwd.TXA, hwd.KReturn)
	add(0, hwd.TXB, hwd.KReturn)
	a = append(a, hwd.Op{B: 0, K: hwd.KPkg})
	a = append(a, hwd.Op{B: 0, T: hwd.TF0, K: hwd.KApplyA, Kept: true}, hwd.Op{B: 0, T: hwd.TM, K: hwd.KApplyA, Kept: true}, hwd.Op{B: 1, T: hwd.TF0, K: hwd.KApplyA, Kept: true})
	return a
}

// check: byte clause on the whole image, then behaviour of every patchable target.
func check(w *hwd.World, m *hwd.Model, hist []hwd.Op) (fail string, judged, unjudged int) {
	var allowed []vk.Range
	for _, t := range patchTargets {
		if len(m.Owners(t)) > 0 {
			e := hwd.EntryPC(t)
			allowed = append(allowed, vk.Range{Lo: e, Hi: e + uintptr(jumpLen)})
		}
	}
	if len(m.Owners(hwd.TGen)) > 0 {
		for _, e := range hwd.GenEntries() {
			allowed = append(allowed, vk.Range{Lo: e, Hi: e + uintptr(jumpLen)})
		}
	}
	if m.OriginOn {
		allowed = append(allowed, hwd.PlaceholderRanges()...)
	}
	judged++
	if bad := vk.OutsideAllowed(hwd.Img.Diff(), allowed); len(bad) > 0 {
		return fmt.Sprintf("bytes: the image differs from the pristine image outside the entry jumps of currently mocked functions and the placeholder: %s", hwd.Where(bad)), judged, 0
	}
	f, j, u := hwd.Behaviour(w, m, behaviourTargets)
	return f, judged + j, u
}

// Run is the worker entry point.
func Run(c *vk.Ctx) {
	hwd.Init()
	if c.Replay != "" {
		var cs hwd.Case
		c.LoadReplay(&cs)
		f, _, _ := hwd.Run(cs.Ops, check)
		fmt.Printf("replay %s\nresult: %s\n", hwd.OpsString(cs.Ops), orOK(f))
		if f != "" {
			c.Violate("replay", f, cs)
		}
		c.Finish()
		return
	}
	// quick: depth 4 over the 24-operation alphabet; thorough: depth 5 over the same alphabet plus
	// depth 4 over the full 34-operation alphabet (two symmetric builders)
	type pass struct {
		alpha []hwd.Op
		depth int
	}
	passes := []pass{{alphabet(false), 4}}
	if c.Thorough() {
		passes = []pass{{alphabet(false), 5}, {alphabet(true), 4}}
	}
	depth, alpha := passes[0].depth, passes[0].alpha
	var idx int64
	for _, ps := range passes {
		hwd.Enumerate(ps.alpha, ps.depth, func(hist []hwd.Op) bool {
			if c.Full() || c.Expired() {
				return false
			}
			mine := c.Mine(idx)
			idx++
			if !mine {
				return true
			}
			f, j, u := hwd.Run(hist, check)
			c.Res.Evaluations += int64(j)
			c.Res.Unjudged += int64(u)
			c.Res.Traces++
			c.Res.States++
			c.Res.Transitions += int64(len(hist))
			mocked := false
			for _, o := range hist {
				if o.K <= hwd.KWhenReturn {
					mocked = true
				}
			}
			if mocked {
				c.Res.Nontrivial++
			}
			if idx%997 == 1 {
				c.Sample(hwd.Case{Ops: hist, Text: hwd.OpsString(hist)})
			}
			if f != "" {
				min, g := hwd.Minimize1(hist, check, hwd.Class)
				c.Violate(fmt.Sprintf("hist=[%s] class=%s", hwd.OpsString(min), hwd.Class(g)), g, hwd.Case{Ops: min, Text: hwd.OpsString(min)})
			}
			return true
		})
	}
	c.Res.Extra["depth"] = depth
	c.Res.Extra["alphabet"] = len(alpha)
	c.Res.Extra["passes"] = fmt.Sprint(len(passes))
	c.Res.Extra["jump_len"] = jumpLen
	c.Finish()
}

func orOK(s string) string {
	if s == "" {
		return "conforms"
	}
	return s
}
