package c03

// Sub-check "capacity" (used by C14: "for an origin placeholder, only inside the placeholder's own
// body"). For every function of the corpus the real apply path (fixOriginFuncToTrampoline, reached
// through VerifC03Compose) first builds the complete trampoline in a roomy scratch placeholder;
// the number of bytes it used is U. Then the placeholder is rebuilt with a body of exactly k bytes
// and p bytes of int3 padding (which goom counts as usable room) for every k+p in [U-14, U] and p in {1,16} (thorough {1,2,3,16}), a neighbour's code behind it, and the apply is
// repeated: whatever goom decides, no byte of the neighbour may change, and a
// refused apply changes nothing at all.

import (
	"encoding/hex"
	"fmt"
	"sort"
	"syscall"
	"unsafe"

	zz "github.com/tencent/goom/zzverif/c03"
	"verifh/vk"
)

// CapCase is the replay artefact.
type CapCase struct {
	Sub  string `json:"sub"`
	Bin  string `json:"bin"`
	Func string `json:"func"`
	Code string `json:"code_hex"`
	Body int    `json:"placeholder_body_bytes"`
	Pad  int    `json:"padding_bytes"`
	Used int    `json:"bytes_used_in_a_roomy_placeholder"`
}

// Placeholders are carved from one large mapping and never reused: goom caches the measured size
// of a function by its start address, as it may for real functions, whose code never changes.
var (
	capArena []byte
	capNext  int
	capSlot  []byte // the current placeholder slot: body, padding, neighbour
	capWant  []byte
)

const (
	capArenaSize = 1 << 30
	capNeighbour = 48
	capRoomy     = 510
)

func capInit() {
	var err error
	capArena, err = syscall.Mmap(-1, 0, capArenaSize, syscall.PROT_READ|syscall.PROT_WRITE|syscall.PROT_EXEC, syscall.MAP_PRIVATE|syscall.MAP_ANON|syscall.MAP_NORESERVE)
	if err != nil {
		vk.Fatalf("mmap arena: %v", err)
	}
}

// newPlaceholder carves a fresh placeholder with a body of k bytes followed by pad int3 bytes and
// a neighbour function; false when the arena is used up.
func newPlaceholder(k, pad int) bool {
	n := (k + pad + capNeighbour + 15) &^ 15
	if capNext+n+4096 > len(capArena) {
		return false
	}
	capSlot = capArena[capNext : capNext+n]
	capNext += n
	// goom leaves the pages it wrote r-x
	lo := uintptr(unsafe.Pointer(&capSlot[0])) &^ 4095
	hi := (uintptr(unsafe.Pointer(&capSlot[0])) + uintptr(n) + 4095) &^ 4095
	base := uintptr(unsafe.Pointer(&capArena[0]))
	if err := syscall.Mprotect(capArena[lo-base:hi-base], syscall.PROT_READ|syscall.PROT_WRITE|syscall.PROT_EXEC); err != nil {
		vk.Fatalf("mprotect arena: %v", err)
	}
	capWant = capWant[:0]
	i := 0
	for ; i+2 < k; i += 3 {
		capWant = append(capWant, 0x48, 0x89, 0xc9) // mov rcx, rcx
	}
	for ; i < k; i++ {
		capWant = append(capWant, 0x90)
	}
	for ; i < k+pad; i++ {
		capWant = append(capWant, 0xcc)
	}
	for ; i < n-2; i++ {
		capWant = append(capWant, 0x90) // the neighbour
	}
	capWant = append(capWant, 0xcc, 0xcc)
	copy(capSlot, capWant)
	return true
}

// changed returns the extent [lo,hi) of the bytes of the slot that differ from what newPlaceholder wrote.
func changed() (lo, hi int) {
	lo = -1
	for i := range capSlot {
		if capSlot[i] != capWant[i] {
			if lo < 0 {
				lo = i
			}
			hi = i + 1
		}
	}
	return
}

var capPads = []int{1, 16}

// capOne runs the boundary sweep of one function; returns the first failure.
func capOne(from uintptr, L int, onlyBody, onlyPad int) (evals, accepted int, used int, clause, detail string, body, padding int) {
	if !newPlaceholder(capRoomy, 16) {
		return 0, 0, 0, "arena", "", 0, 0
	}
	if _, err := zz.Compose(from, uintptr(unsafe.Pointer(&capSlot[0])), L); err != nil {
		return
	}
	_, used = changed()
	if used == 0 || used > capRoomy {
		return
	}
	for _, pad := range capPads {
		if onlyPad > 0 && pad != onlyPad {
			continue
		}
		// room = body + padding (goom counts the int3 padding behind a function as usable) from used-14 to used
		for room := used; room >= used-14 && room-pad >= 1; room-- {
			k := room - pad
			if onlyBody > 0 && k != onlyBody {
				continue
			}
			if !newPlaceholder(k, pad) {
				return evals, accepted, used, "arena", "", 0, 0
			}
			_, err := zz.Compose(from, uintptr(unsafe.Pointer(&capSlot[0])), L)
			evals++
			clo, chi := changed()
			switch {
			case chi > room:
				return evals, accepted, used, "placeholder-overrun", fmt.Sprintf("an origin placeholder with a body of %d bytes and %d bytes of int3 padding before the next function (the complete trampoline needs %d): the apply (err=%v) wrote bytes [%d,%d) — %d byte(s) of the next function changed", k, pad, used, err, clo, chi, chi-room), k, pad
			case err != nil && clo >= 0:
				return evals, accepted, used, "refused-but-placeholder-written", fmt.Sprintf("an origin placeholder with a body of %d bytes and %d bytes of padding: the apply was refused (%v) but bytes [%d,%d) changed", k, pad, err, clo, chi), k, pad
			}
			if err == nil {
				accepted++
			}
		}
	}
	return evals, accepted, used, "", "", 0, 0
}

func capacity(c *vk.Ctx) {
	L := zz.JumpLen()
	capInit()
	if c.Thorough() {
		capPads = []int{1, 2, 3, 16}
	}
	arenaFull := false
	var keep [][]byte
	var all []fn
	for _, b := range corpusBinaries(c.Thorough()) {
		fs, buf := loadBinary(b)
		keep = append(keep, buf)
		all = append(all, fs...)
	}
	_ = keep
	type agg struct {
		count int
		cs    CapCase
		det   string
	}
	viol := map[string]*agg{}
	var nFuncs, nSwept, nAccepted, nWidened int64
	for i, f := range all {
		if c.Expired() {
			break
		}
		if !c.Mine(int64(i)) {
			continue
		}
		nFuncs++
		size, err := zz.GetFuncSize(f.entry)
		if err != nil || size <= L {
			continue
		}
		evals, acc, used, clause, detail, body, pad := capOne(f.entry, L, 0, 0)
		if clause == "arena" {
			arenaFull = true
			break
		}
		if evals == 0 {
			continue
		}
		nSwept++
		nAccepted += int64(acc)
		c.Res.Evaluations += int64(evals)
		c.Res.Transitions += int64(evals) + 1
		c.Res.Traces++
		c.Res.States += int64(evals)
		if used > L+5+4 {
			nWidened++ // more than a plain copy of the head plus a rel32 jump: something grew or the far form was used
		}
		if i%4001 == 0 {
			c.Sample(map[string]interface{}{"bin": f.bin, "func": f.name, "bytes_used": used})
		}
		if clause == "" {
			continue
		}
		if size > f.slot+64 {
			size = f.slot
		}
		cs := CapCase{"capacity", f.bin, f.name, hex.EncodeToString(vk.Copy(f.entry, size)), body, pad, used}
		key := "capacity clause=" + clause
		a := viol[key]
		if a == nil {
			viol[key] = &agg{1, cs, detail}
		} else {
			a.count++
			if len(cs.Code) < len(a.cs.Code) {
				a.cs, a.det = cs, detail
			}
		}
	}
	keys := make([]string, 0, len(viol))
	for k := range viol {
		keys = append(keys, k)
	}
	sort.Strings(keys)
	for _, k := range keys {
		a := viol[k]
		c.Violate(k, fmt.Sprintf("%s — smallest example %s:%s (%d functions in this shard)", a.det, a.cs.Bin, a.cs.Func, a.count), a.cs)
	}
	if arenaFull {
		c.Res.Extra["stopped"] = "placeholder arena used up"
		c.Res.Exhaustive = false
	}
	c.Res.Extra["padding_lengths"] = fmt.Sprint(capPads)
	c.Res.Nontrivial = nWidened
	c.Res.Extra["n_functions"] = nFuncs
	c.Res.Extra["n_functions_swept"] = nSwept
	c.Res.Extra["n_applies_accepted_in_sweeps"] = nAccepted
	c.Res.Extra["n_functions_whose_trampoline_exceeds_head_plus_rel32_jump"] = nWidened
}

func replayCapacity(c *vk.Ctx) {
	var cs CapCase
	c.LoadReplay(&cs)
	code, _ := hex.DecodeString(cs.Code)
	buf, err := syscall.Mmap(-1, 0, len(code)+4096, syscall.PROT_READ|syscall.PROT_WRITE, syscall.MAP_PRIVATE|syscall.MAP_ANON)
	if err != nil {
		vk.Fatalf("mmap: %v", err)
	}
	copy(buf, code)
	for i := len(code); i < len(buf); i++ {
		buf[i] = 0xcc
	}
	capInit()
	capPads = []int{1, 2, 3, 16}
	_, _, used, clause, detail, _, _ := capOne(uintptr(unsafe.Pointer(&buf[0])), zz.JumpLen(), cs.Body, cs.Pad)
	fmt.Printf("replay capacity %s:%s body=%d padding=%d (roomy placeholder: %d bytes used)\n", cs.Bin, cs.Func, cs.Body, cs.Pad, used)
	if clause != "" {
		fmt.Printf("result: %s: %s\n", clause, detail)
		c.Violate("replay", clause+": "+detail, cs)
		return
	}
	fmt.Println("result: conforms")
}

func uintptrOf(b []byte) uintptr { return uintptr(unsafe.Pointer(&b[0])) }
