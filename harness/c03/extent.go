package c03

// Sub-check "extent" (used by C16: "so that prologue copying and function-extent scanning see the
// true instruction stream"). For every function of the corpus goom's own extent scan
// (bytecode.GetFuncSize, which walks the function with the bundled decoder) is compared with the
// same walk done one instruction at a time with the reference decoder on full 16-byte windows:
// instructions up to and including the int3 padding behind the function, or up to the first byte
// sequence that is not an instruction.

import (
	"encoding/hex"
	"fmt"
	"sort"
	"syscall"

	zz "github.com/tencent/goom/zzverif/c03"
	ref "verifh/ref/x86asm"
	"verifh/vk"
)

// ExtCase is the replay artefact.
type ExtCase struct {
	Sub  string `json:"sub"`
	Bin  string `json:"bin"`
	Func string `json:"func"`
	Code string `json:"code_hex"` // the function's slot (up to the next symbol) plus the following 32 bytes
}

// refExtent walks the instruction stream at start with the reference decoder; limit bounds the walk.
func refExtent(start uintptr, limit int) (n int, ok bool) {
	int3 := false
	for n < limit {
		code := vk.Raw(start+uintptr(n), 16)
		inst, err := ref.Decode(code, 64)
		if err != nil || inst.Opcode == 0 && inst.Len == 1 && inst.Prefix[0] == ref.Prefix(code[0]) {
			return n, true
		}
		if inst.Len == 1 && code[0] == 0xcc {
			int3 = true
		} else if int3 {
			return n, true
		}
		n += inst.Len
	}
	return n, false
}

func extent(c *vk.Ctx) {
	var keep [][]byte
	var all []fn
	for _, b := range corpusBinaries(c.Thorough()) {
		fs, buf := loadBinary(b)
		keep = append(keep, buf)
		all = append(all, fs...)
	}
	_ = keep
	type agg struct {
		count int
		cs    ExtCase
		det   string
	}
	viol := map[string]*agg{}
	var nCmp, nSkipped, nLong int64
	for i, f := range all {
		if c.Expired() {
			break
		}
		if !c.Mine(int64(i)) {
			continue
		}
		want, ok := refExtent(f.entry, f.slot+64)
		if !ok {
			nSkipped++ // the walk runs on into the following functions (no padding, nothing undecodable)
			continue
		}
		got, err := zz.GetFuncSize(f.entry)
		nCmp++
		c.Res.Evaluations++
		c.Res.Traces++
		c.Res.States++
		c.Res.Transitions += 2
		if want > 64 {
			nLong++
		}
		if i%3001 == 0 {
			c.Sample(map[string]interface{}{"bin": f.bin, "func": f.name, "extent": want})
		}
		if err == nil && got == want {
			continue
		}
		n := f.slot + 32
		cs := ExtCase{"extent", f.bin, f.name, hex.EncodeToString(vk.Copy(f.entry, n))}
		det := fmt.Sprintf("goom measures the function as %d bytes (err=%v); walking it one instruction at a time with the reference decoder gives %d bytes", got, err, want)
		key := "extent class=differs"
		a := viol[key]
		if a == nil {
			viol[key] = &agg{1, cs, det}
		} else {
			a.count++
			if len(cs.Code) < len(a.cs.Code) {
				a.cs, a.det = cs, det
			}
		}
	}
	keys := make([]string, 0, len(viol))
	for k := range viol {
		keys = append(keys, k)
	}
	sort.Strings(keys)
	for _, k := range keys {
		a := viol[k]
		c.Violate(k, fmt.Sprintf("%s — smallest example %s:%s (%d functions in this shard)", a.det, a.cs.Bin, a.cs.Func, a.count), a.cs)
	}
	c.Res.Nontrivial = nLong
	c.Res.Extra["n_functions_compared"] = nCmp
	c.Res.Extra["n_functions_longer_than_64_bytes"] = nLong
	c.Res.Extra["n_functions_skipped_walk_runs_into_the_next_function"] = nSkipped
}

func replayExtent(c *vk.Ctx) {
	var cs ExtCase
	c.LoadReplay(&cs)
	code, _ := hex.DecodeString(cs.Code)
	buf, err := syscall.Mmap(-1, 0, len(code)+4096, syscall.PROT_READ|syscall.PROT_WRITE, syscall.MAP_PRIVATE|syscall.MAP_ANON)
	if err != nil {
		vk.Fatalf("mmap: %v", err)
	}
	copy(buf, code)
	start := uintptrOf(buf)
	want, _ := refExtent(start, len(code)+64)
	got, gerr := zz.GetFuncSize(start)
	fmt.Printf("replay extent %s:%s goom=%d (err=%v) reference walk=%d\n", cs.Bin, cs.Func, got, gerr, want)
	if gerr != nil || got != want {
		c.Violate("replay", fmt.Sprintf("goom measures %d bytes (err=%v), the reference walk %d", got, gerr, want), cs)
		return
	}
	fmt.Println("result: conforms")
}
