// Package c03 — calling the origin placeholder runs the unmodified original function.
//
// static : engine E — goom's (pure) prologue relocation is run on every function of the worker
//
//	binary and of Go toolchain binaries for a set of placeholder positions and validated
//	with an independent decoder.
//
// dynamic: engine H/E — a zoo of function shapes is mocked with an origin placeholder and the
//
//	placeholder is called at every stack depth around the point where the stack grows.
package c03

import (
	"fmt"

	"verifh/vk"
)

// Run is the worker entry point.
func Run(c *vk.Ctx) {
	if c.Replay != "" {
		var probe struct {
			Sub string `json:"sub"`
		}
		c.LoadReplay(&probe)
		if probe.Sub == "static" {
			replayStatic(c)
		} else if probe.Sub == "capacity" {
			replayCapacity(c)
		} else if probe.Sub == "extent" {
			replayExtent(c)
		} else {
			replayDynamic(c)
		}
		c.Finish()
		return
	}
	switch c.Sub {
	case "static":
		static(c)
	case "dynamic":
		dynamic(c)
	case "capacity":
		capacity(c)
	case "extent":
		extent(c)
	default:
		vk.Fatalf("unknown sub %q", c.Sub)
	}
	c.Finish()
}

func orOK(s string) string {
	if s == "" {
		return "conforms"
	}
	return s
}

var _ = fmt.Sprint
