package c03

import (
	"encoding/json"
	"fmt"
	"os"
	"reflect"
	"runtime"
	"sort"
	"strings"
	"unsafe"

	mocker "github.com/tencent/goom"
	zoo "verifh/targets/c03zoo"
	"verifh/vk"
)

// ---------------------------------------------------------------------------------------------
// stack-depth machinery: a probe runs in a fresh goroutine after `n` frames of descend and one
// pad frame of variant k, so that the stack used at the moment of the call takes every
// 8-byte-aligned value in the enumerated window.

//go:noinline
func descend(n int, f func()) uintptr {
	var pad [3]uintptr
	pad[n%3] = uintptr(n)
	if n == 0 {
		f()
	} else {
		pad[0] += descend(n-1, f)
	}
	return pad[0] + pad[1] + pad[2]
}

//go:noinline
func pad0(f func()) uintptr { var p [1]uintptr; p[0] = 1; f(); return p[0] }

//go:noinline
func pad1(f func()) uintptr { var p [2]uintptr; p[1] = 1; f(); return p[0] + p[1] }

//go:noinline
func pad2(f func()) uintptr { var p [3]uintptr; p[2] = 1; f(); return p[0] + p[2] }

//go:noinline
func pad3(f func()) uintptr { var p [4]uintptr; p[3] = 1; f(); return p[0] + p[3] }

//go:noinline
func pad4(f func()) uintptr { var p [5]uintptr; p[4] = 1; f(); return p[0] + p[4] }

//go:noinline
func pad5(f func()) uintptr { var p [6]uintptr; p[5] = 1; f(); return p[0] + p[5] }

//go:noinline
func pad6(f func()) uintptr { var p [7]uintptr; p[6] = 1; f(); return p[0] + p[6] }

//go:noinline
func pad7(f func()) uintptr { var p [8]uintptr; p[7] = 1; f(); return p[0] + p[7] }

//go:noinline
func pad8(f func()) uintptr { var p [9]uintptr; p[8] = 1; f(); return p[0] + p[8] }

//go:noinline
func pad9(f func()) uintptr { var p [10]uintptr; p[9] = 1; f(); return p[0] + p[9] }

//go:noinline
func pad10(f func()) uintptr { var p [11]uintptr; p[10] = 1; f(); return p[0] + p[10] }

//go:noinline
func pad11(f func()) uintptr { var p [12]uintptr; p[11] = 1; f(); return p[0] + p[11] }

var pads = []func(func()) uintptr{pad0, pad1, pad2, pad3, pad4, pad5, pad6, pad7, pad8, pad9, pad10, pad11}

// probeResult of one call at one stack depth.
type probeResult struct {
	used   int  // bytes of stack in use at the call (relative to the goroutine's first frame)
	moved  bool // the goroutine's stack was moved during the call
	result int
	calls  int
	panic  string
}

// frame geometry, measured once on a pre-grown stack (where nothing moves)
var (
	frameDescend int
	padExtra     []int // stack used by pad variant k beyond pad variant 0
	baseUsed     int
)

//go:noinline
func grow(n int) int {
	var b [512]byte
	b[n%512] = byte(n)
	if n == 0 {
		return int(b[0])
	}
	return grow(n-1) + int(b[n%512])
}

func markerAt(n, k int) uintptr {
	var at uintptr
	descend(n, func() {
		pads[k](func() {
			var marker int
			at = uintptr(unsafe.Pointer(&marker))
		})
	})
	return at
}

func measureFrames() {
	done := make(chan struct{})
	go func() {
		defer close(done)
		grow(64) // 32 KiB: no further growth during the measurement
		var top int
		t0 := uintptr(unsafe.Pointer(&top))
		for rep := 0; rep < 2; rep++ {
			a00 := markerAt(0, 0)
			f := int(a00 - markerAt(1, 0))
			f2 := int(markerAt(1, 0) - markerAt(2, 0))
			if f != f2 || f <= 0 || f%8 != 0 {
				vk.Fatalf("descend frame size not stable: %d %d", f, f2)
			}
			ex := make([]int, len(pads))
			for k := range pads {
				ex[k] = int(a00 - markerAt(0, k))
			}
			if rep == 1 && (f != frameDescend || fmt.Sprint(ex) != fmt.Sprint(padExtra)) {
				vk.Fatalf("frame measurement not reproducible")
			}
			frameDescend, padExtra = f, ex
			baseUsed = int(t0 - a00)
		}
	}()
	<-done
}

// usedAt is the number of bytes between the goroutine's first frame and the frame that issues
// the call, for probe (n,k).
func usedAt(n, k int) int { return baseUsed + n*frameDescend + padExtra[k] }

// probe runs call() in a fresh goroutine at depth (n,k); calls points at the callback counter.
func probe(n, k int, call func() int, calls *int) probeResult {
	var pr probeResult
	done := make(chan struct{})
	go func() {
		defer close(done)
		descend(n, func() {
			pads[k](func() {
				var marker int
				p1 := uintptr(unsafe.Pointer(&marker))
				*calls = 0
				msg, panicked := vk.Try(func() { pr.result = call() })
				p2 := uintptr(unsafe.Pointer(&marker))
				pr.used = usedAt(n, k)
				pr.moved = p1 != p2
				pr.calls = *calls
				if panicked {
					pr.panic = msg
				}
			})
		})
	}()
	<-done
	return pr
}

// ---------------------------------------------------------------------------------------------

const bonus = 100000

type shapeT struct {
	name string
	// install mocks the shape with its origin placeholder and a callback `calls++; return origin(args)+bonus`.
	install func(b *mocker.Builder, calls *int)
	call    func(arg int) int
	entry   uintptr
	ph      uintptr
}

var (
	oInts12 = zoo.OInts12
	oFloats = zoo.OFloats
	oMethod = zoo.OMethod
	oUni    = map[string]*func(int) int{}
)

func shapes() []shapeT {
	var out []shapeT
	for _, name := range zoo.Order {
		name := name
		f := zoo.Shapes[name]
		o := zoo.Placeholders[name]
		oUni[name] = &o
		out = append(out, shapeT{
			name: name,
			install: func(b *mocker.Builder, calls *int) {
				op := oUni[name]
				b.Func(f).Origin(op).Apply(func(a int) int { *calls++; return (*op)(a) + bonus })
			},
			call:  f,
			entry: reflect.ValueOf(f).Pointer(),
			ph:    reflect.ValueOf(zoo.Placeholders[name]).Pointer(),
		})
	}
	out = append(out, shapeT{
		name: "Ints12",
		install: func(b *mocker.Builder, calls *int) {
			b.Func(zoo.Ints12).Origin(&oInts12).Apply(func(a, b2, c, d, e, f, g, h, i, j, k, l int) int {
				*calls++
				return oInts12(a, b2, c, d, e, f, g, h, i, j, k, l) + bonus
			})
		},
		call:  func(a int) int { return zoo.Ints12(a, 2, 3, 4, 5, 6, 7, 8, 9, 10, 11, 12) },
		entry: reflect.ValueOf(zoo.Ints12).Pointer(),
		ph:    reflect.ValueOf(zoo.OInts12).Pointer(),
	}, shapeT{
		name: "Floats",
		install: func(b *mocker.Builder, calls *int) {
			b.Func(zoo.Floats).Origin(&oFloats).Apply(func(a int, x, y float64) int {
				*calls++
				return oFloats(a, x, y) + bonus
			})
		},
		call:  func(a int) int { return zoo.Floats(a, 1.5, 2.25) },
		entry: reflect.ValueOf(zoo.Floats).Pointer(),
		ph:    reflect.ValueOf(zoo.OFloats).Pointer(),
	}, shapeT{
		name: "Method",
		install: func(b *mocker.Builder, calls *int) {
			b.Struct(&zoo.T{}).Method("Method").Origin(&oMethod).Apply(func(t *zoo.T, a int) int {
				*calls++
				return oMethod(t, a) + bonus
			})
		},
		call: func(a int) int { return (&zoo.T{K: 3}).Method(a) },
		entry: func() uintptr {
			m, _ := reflect.TypeOf(&zoo.T{}).MethodByName("Method")
			return m.Func.Pointer()
		}(),
		ph: reflect.ValueOf(zoo.OMethod).Pointer(),
	})
	return out
}

// DynCase is the replay artefact of the dynamic part.
type DynCase struct {
	Sub   string `json:"sub"`
	Shape string `json:"shape"`
	N     int    `json:"descend_frames"`
	K     int    `json:"pad_variant"`
	Arg   int    `json:"arg"`
	Used  int    `json:"stack_used_at_call,omitempty"`
}

var dynImg *vk.Image

// runShape installs the mock and probes every depth; it returns violations as (key, desc, case).
type dynViolation struct {
	class string
	desc  string
	cs    DynCase
	count int
}

func runShape(c *vk.Ctx, sh shapeT, args []int, nMax int, only *DynCase) (viol map[string]*dynViolation, stats map[string]int64, samples []DynCase) {
	viol = map[string]*dynViolation{}
	stats = map[string]int64{}
	want := map[int]int{}
	for _, a := range args {
		want[a] = sh.call(a)
	}
	phLo, phHi := vk.FuncExtentFast(sh.ph)
	b := mocker.Create()
	calls := 0
	msg, refused := vk.Try(func() { sh.install(b, &calls) })
	add := func(class, desc string, cs DynCase) {
		v := viol[class]
		if v == nil {
			viol[class] = &dynViolation{class, desc, cs, 1}
		} else {
			v.count++
		}
	}
	if refused {
		stats["n_refused_shapes"]++
		// the apply failed: function and placeholder must be unchanged
		if d := dynImg.Diff(); len(d) > 0 {
			add("refused-but-image-changed", fmt.Sprintf("the apply was refused (%s) but the image changed at %v", vk.Short(msg, 80), d), DynCase{Sub: "dynamic", Shape: sh.name})
			dynImg.ForceRestore()
		}
		for _, a := range args {
			if got := sh.call(a); got != want[a] {
				add("refused-but-behaviour-changed", fmt.Sprintf("the apply was refused but %s(%d) returns %d instead of %d", sh.name, a, got, want[a]), DynCase{Sub: "dynamic", Shape: sh.name, Arg: a})
			}
		}
		vk.Try(func() { b.Reset() })
		return
	}
	defer func() {
		vk.Try(func() { b.Reset() })
		if bad := vk.OutsideAllowed(dynImg.Diff(), []vk.Range{{Lo: phLo, Hi: phHi}}); len(bad) > 0 {
			add("not-restored", fmt.Sprintf("after Reset the image differs outside the placeholder: %v", bad), DynCase{Sub: "dynamic", Shape: sh.name})
		}
		dynImg.ForceRestore()
	}()
	usedSeen := map[int]bool{}
	for _, a := range args {
		a := a
		for n := 0; n <= nMax; n++ {
			for k := range pads {
				if only != nil && (only.N != n || only.K != k || only.Arg != a) {
					continue
				}
				pr := probe(n, k, func() int { return sh.call(a) }, &calls)
				stats["n_probes"]++
				usedSeen[pr.used] = true
				if pr.moved {
					stats["n_probes_stack_moved_during_call"]++
				}
				cs := DynCase{"dynamic", sh.name, n, k, a, pr.used}
				if len(samples) < 2 {
					samples = append(samples, cs)
				}
				mv := ""
				if pr.moved {
					mv = "-when-stack-grows"
				}
				if !pr.moved && pr.panic == "" && pr.calls == 2 && pr.result == want[a]+2*bonus {
					// The relocated stack check also fires when the runtime has poisoned the stack guard to
					// request a preemption (a timing matter, nothing the probe controls): re-run the probe; a
					// re-entry that does not come back in 5 further runs is that event.
					again := 0
					for r := 0; r < 5; r++ {
						if p2 := probe(n, k, func() int { return sh.call(a) }, &calls); p2.calls != 1 {
							again++
						}
					}
					if again == 0 {
						mv = "-when-stack-grows" // same finding, other trigger of the relocated stack check
						pr.moved = true
						stats["n_probes_reentered_on_a_preemption_request"]++
					}
				}
				switch {
				case pr.panic != "":
					add("panic"+mv, fmt.Sprintf("%s(%d) through the mock+origin panicked: %s (stack used %d, moved=%v)", sh.name, a, vk.Short(pr.panic, 100), pr.used, pr.moved), cs)
				case pr.calls != 1:
					add("mock-reentered"+mv, fmt.Sprintf("%s(%d): the callback ran %d times for one call (result %d, expected %d); stack used at the call %d bytes, relocated stack check fired (growth or preemption request): %v", sh.name, a, pr.calls, pr.result, want[a]+bonus, pr.used, pr.moved), cs)
				case pr.result != want[a]+bonus:
					add("wrong-result"+mv, fmt.Sprintf("%s(%d) through the origin placeholder gave %d, expected %d (stack used %d, moved=%v)", sh.name, a, pr.result, want[a]+bonus, pr.used, pr.moved), cs)
				}
			}
		}
	}
	stats["n_distinct_stack_offsets"] = int64(len(usedSeen))
	// contiguity of the enumerated window (8-byte steps) below the first growth
	var us []int
	for u := range usedSeen {
		us = append(us, u)
	}
	sort.Ints(us)
	gaps := 0
	for i := 2; i < len(us); i++ { // the step from pad variant 0 to 1 at depth 0 is 16: the window starts at us[1]
		if us[i]-us[i-1] > 8 {
			gaps++
		}
	}
	stats["n_gaps_in_offset_window"] = int64(gaps)
	if len(us) > 1 {
		stats["min_stack_used"], stats["max_stack_used"] = int64(us[1]), int64(us[len(us)-1])
	}
	if os.Getenv("C03_DEBUG") != "" {
		h := map[int]int{}
		for i := 1; i < len(us); i++ {
			h[us[i]-us[i-1]]++
		}
		fmt.Println("DEBUG steps", sh.name, h, "min", us[0], "max", us[len(us)-1])
		for i := 1; i < len(us); i++ {
			if us[i]-us[i-1] > 8 {
				fmt.Println("DEBUG gap", us[i-1], us[i])
			}
		}
	}
	return
}

func dynamic(c *vk.Ctx) {
	dynImg = vk.Snapshot()
	measureFrames()
	c.Res.Extra["descend_frame_bytes"] = frameDescend
	c.Res.Extra["pad_extra_bytes"] = fmt.Sprint(padExtra)
	args := []int{5}
	nMax := 160
	if c.Thorough() {
		args = []int{5, 0, 77, 1 << 20}
		nMax = 260
	}
	for i, sh := range shapes() {
		if c.Expired() || c.Full() {
			break
		}
		if !c.Mine(int64(i)) {
			continue
		}
		nb, _ := json.Marshal(map[string]interface{}{"__key": "dynamic shape=" + sh.name, "sub": "dynamic", "shape": sh.name})
		c.Note(string(nb))
		viol, stats, samples := runShape(c, sh, args, nMax, nil)
		for k, v := range stats {
			if k == "min_stack_used" || k == "max_stack_used" {
				c.Res.Extra[k] = v
				continue
			}
			cur, _ := c.Res.Extra[k].(int64)
			c.Res.Extra[k] = cur + v
		}
		if stats["n_gaps_in_offset_window"] > 0 {
			c.Res.Exhaustive = false
		}
		c.Res.Evaluations += stats["n_probes"]
		c.Res.Traces += stats["n_probes"]
		c.Res.Transitions += stats["n_probes"] + 2
		c.Res.States += stats["n_distinct_stack_offsets"]
		c.Res.Nontrivial += stats["n_probes_stack_moved_during_call"] + 1
		for _, s := range samples {
			c.Sample(s)
		}
		var classes []string
		for cl := range viol {
			classes = append(classes, cl)
		}
		sort.Strings(classes)
		for _, cl := range classes {
			v := viol[cl]
			c.Violate(fmt.Sprintf("dynamic shape=%s class=%s", sh.name, cl), fmt.Sprintf("%s (%d of %d probes of this shape)", v.desc, v.count, stats["n_probes"]), v.cs)
		}
	}
	sharedPart(c, int64(len(shapes())))
}

// ---------------------------------------------------------------------------------------------
// one placeholder variable shared by mocks of different functions, one after another

// SharedCase is the replay artefact of the shared-placeholder histories.
type SharedCase struct {
	Sub   string   `json:"sub"`   // "dynamic"
	Kind  string   `json:"kind"`  // "shared-placeholder"
	Order []string `json:"order"` // shapes mocked one after another with the same placeholder
}

//go:noinline
func growBig(n int) int {
	var b [256]byte
	b[n%256] = byte(n)
	if n == 0 {
		return int(b[0])
	}
	return growBig(n-1) + int(b[n%256])
}

// runShared: for each shape of the order: mock it with the shared placeholder and a callback
// that calls the placeholder, call it (on a big stack), reset. Every call must give
// original+bonus with the callback entered once, and the original after the reset.
func runShared(order []string) string {
	for step, name := range order {
		if name == "GC" {
			for i := 0; i < 2; i++ {
				runtime.GC()
				var junk [][]byte
				for j := 0; j < 256; j++ {
					junk = append(junk, make([]byte, 16+j%48))
				}
				_ = junk
			}
			runtime.GC()
			continue
		}
		// every step uses a fresh variable initialised from one of two placeholder functions
		shared := zoo.Placeholders["NosplitLeaf"]
		if strings.HasSuffix(name, "@B") {
			name = strings.TrimSuffix(name, "@B")
			shared = zoo.Placeholders["RipCmpFirst"]
		}
		f := zoo.Shapes[name]
		want := f(5)
		b := mocker.Create()
		calls := 0
		msg, p := vk.Try(func() {
			b.Func(f).Origin(&shared).Apply(func(a int) int { calls++; return shared(a) + bonus })
		})
		if p {
			vk.Try(func() { b.Reset() })
			return fmt.Sprintf("shared-placeholder: step %d: mocking %s with the shared placeholder was refused: %s", step, name, vk.Short(msg, 80))
		}
		var got int
		msg, p = vk.Try(func() { growBig(64); got = f(5) })
		vk.Try(func() { b.Reset() })
		if p {
			return fmt.Sprintf("shared-placeholder: step %d: calling %s panicked: %s", step, name, vk.Short(msg, 80))
		}
		if got != want+bonus || calls != 1 {
			return fmt.Sprintf("shared-placeholder: step %d (%v): %s(5) through mock+origin returned %d with %d callback entries, expected %d and 1: the placeholder does not run %s's original", step, order[:step+1], name, got, calls, want+bonus, name)
		}
		if g := f(5); g != want {
			return fmt.Sprintf("shared-placeholder: step %d: after Reset %s(5) = %d, originally %d", step, name, g, want)
		}
	}
	return ""
}

func sharedPart(c *vk.Ctx, base int64) {
	// same signature, no stack check (never near the known finding); "@B": through the second placeholder
	// function; "GC": a forced collection between two steps
	names := []string{"NosplitLeaf", "RipLoadFirst", "RipCmpFirst", "NosplitLeaf@B", "GC"}
	idx := base
	var rec func(p []string)
	n := int64(0)
	rec = func(p []string) {
		if len(p) > 0 {
			mine := c.Mine(idx)
			idx++
			if mine {
				nb, _ := json.Marshal(map[string]interface{}{"__key": fmt.Sprintf("dynamic shared-placeholder order=%v", p), "sub": "dynamic", "kind": "shared-placeholder", "order": p})
				c.Note(string(nb))
				f := runShared(p)
				n++
				c.Res.Evaluations++
				c.Res.Traces++
				c.Res.States++
				c.Res.Transitions += int64(3 * len(p))
				c.Res.Nontrivial++
				if f != "" {
					c.Violate(fmt.Sprintf("dynamic shared-placeholder order=%v class=wrong-original", p), f, SharedCase{"dynamic", "shared-placeholder", append([]string(nil), p...)})
				}
				dynImg.ForceRestore()
			}
		}
		if len(p) == 4 {
			return
		}
		for _, nm := range names {
			rec(append(p[:len(p):len(p)], nm))
		}
	}
	rec(nil)
	c.Res.Extra["n_shared_placeholder_histories"] = n
}

func replayDynamic(c *vk.Ctx) {
	var sc SharedCase
	c.LoadReplay(&sc)
	if sc.Kind == "shared-placeholder" {
		dynImg = vk.Snapshot()
		f := runShared(sc.Order)
		fmt.Printf("replay shared placeholder order=%v\nresult: %s\n", sc.Order, f)
		if f != "" {
			c.Violate("replay", f, sc)
		}
		return
	}
	var cs DynCase
	c.LoadReplay(&cs)
	dynImg = vk.Snapshot()
	measureFrames()
	for _, sh := range shapes() {
		if sh.name != cs.Shape {
			continue
		}
		viol, stats, _ := runShape(c, sh, []int{cs.Arg}, cs.N, &cs)
		fmt.Printf("replay dynamic shape=%s descend=%d pad=%d arg=%d (%d probe)\n", cs.Shape, cs.N, cs.K, cs.Arg, stats["n_probes"])
		if len(viol) == 0 {
			fmt.Println("result: conforms")
		}
		for cl, v := range viol {
			fmt.Printf("result: %s: %s\n", cl, v.desc)
			c.Violate("replay "+cl, v.desc, cs)
		}
		return
	}
	vk.Fatalf("unknown shape %q", cs.Shape)
}
